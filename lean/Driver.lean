import SwcVerif.Model.Basic
import SwcVerif.Model.Traverse
import SwcVerif.Model.Geom
import SwcVerif.Model.SwcText
import SwcVerif.Model.Branches
import SwcVerif.Model.Sort
import SwcVerif.Model.Dsu
import SwcVerif.Model.Subtree
import SwcVerif.Model.Asc
import SwcVerif.Model.Redirect
import SwcVerif.Model.Population
import SwcVerif.Model.Resample
import SwcVerif.Model.Mst
import SwcVerif.Model.Views
import SwcVerif.Model.Images
import SwcVerif.Model.Features
import SwcVerif.Model.AlgoRunDsu
import SwcVerif.Model.AlgoRunTraverse
import SwcVerif.Model.AlgoRunTravFront
import SwcVerif.Model.AlgoRunVolume
import SwcVerif.Model.AlgoRunVolFront
import SwcVerif.Model.AlgoRunSort
import SwcVerif.Model.AlgoRunSubtree
import SwcVerif.Model.AlgoRunPopulation
import SwcVerif.Model.AlgoRunPopFront
import SwcVerif.Model.AlgoRunPopMap
import SwcVerif.Model.AlgoRunNormalizer
import SwcVerif.Model.AlgoRunBranches
import SwcVerif.Model.AlgoRunRedirect
import SwcVerif.Model.AlgoRunAffine
import SwcVerif.Model.AlgoRunRodrigues
import SwcVerif.Model.AlgoRunViews
import SwcVerif.Model.AlgoRunHelpers
import SwcVerif.Model.AlgoRunSortWrap
import SwcVerif.Model.AlgoRunCat
import SwcVerif.Model.AlgoRunAssemble
import SwcVerif.Model.AlgoRunLMeasure
import SwcVerif.Model.AlgoRunLmGeo
import SwcVerif.Model.AlgoRunVolCtl
import SwcVerif.Model.AlgoRunNodeBranch
import SwcVerif.Model.AlgoRunMst
import SwcVerif.Model.AlgoRunMstFront
import SwcVerif.Model.AlgoRunMstRest
import SwcVerif.Model.AlgoRunSholl
import SwcVerif.Model.AlgoRunNodeFeat
import SwcVerif.Model.AlgoRunResample
import SwcVerif.Model.AlgoRunResampleTree
import SwcVerif.Model.AlgoRunRaster
import SwcVerif.Model.AlgoRunImgIo
import SwcVerif.Model.AlgoRunImgIo2
import SwcVerif.Model.AlgoRunParse
import SwcVerif.Model.AlgoRunReadFront
import SwcVerif.Model.AlgoRunCut
import SwcVerif.Model.AlgoRunShortTip
import SwcVerif.Model.AlgoRunRepair
import SwcVerif.Model.AlgoRunAsc
import SwcVerif.Model.AlgoRunAscLex
import SwcVerif.Model.Assemble
import SwcVerif.Model.AlgoRunBranchTree
import SwcVerif.Model.AlgoRunWriter
import SwcVerif.Model.AlgoRunCtor
import SwcVerif.Model.AlgoRunCtorTree
import SwcVerif.Model.AlgoRunCtorInit

def dispatch (op : String) (args : List String) : String :=
  match op with
  | "ping" => "pong " ++ " ".intercalate args
  | "trav" => Trav.handle args
  | "affine" => Geom.handleAffine args
  | "mat" => Geom.handleMat args
  | "vol" => Geom.handleVol args
  | "voltree" => Geom.handleVolTree args
  | "branches" | "paths" | "furcs" | "tips" | "brtable" => Branches.handle op args
  | "sort" => SortM.handle args
  | "issorted" => SortM.handleIsSorted args
  | "dsu" => Dsu.handleDsu args
  | "hascyclic" | "bifurcate" | "singleroot" | "getdsu" | "somas" | "nearest" => Dsu.handleCheck op args
  | "subtree" | "tosub" | "subtopo" | "cutenter" | "cutdepth" | "cutleave" | "cuttype" | "cutorder" | "cuttip" => Sub.handle op args
  | "asc" | "asclex" => Asc.handle op args
  | "redirect" | "cat" => Redir.handle op args
  | "lazy" => Pop.handleLazy args
  | "chain" => Pop.handleChain args
  | "iso" | "lin" | "smooth" => Resample.handle op args
  | "mst" => Mst.handle args
  | "pair" => Mst.handlePair args
  | "views" => Views.handle args
  | "imgaxes" | "imggrid" | "imgedge" => Img.handle op args
  | "feat" => Feat.handle args
  | "gdsu" => AlgoRun.handleDsu args
  | "ggetdsu" => AlgoRun.handleGetDsu args
  | "ghascyclic" => AlgoRun.handleHasCyclic args
  | "gbifurcate" => AlgoRun.handleBifurcate args
  | "gsomas" => AlgoRun.handleSomas args
  | "greset" => AlgoRun.handleReset args
  | "gbranches" | "gpaths" | "gfurcs" => AlgoRun.handleBranches op args
  | "gtrav" => AlgoRun.handleTrav args
  | "gtravfront" => AlgoRun.handleTravFront args
  | "gvoltree" => AlgoRun.handleVolTree args
  | "gvolfront" => AlgoRun.handleVolFront args
  | "gsort" => AlgoRun.handleSort args
  | "gsubtopo" => AlgoRun.handleSubTopo args
  | "gsubtree" => AlgoRun.handleSubtree args
  | "gtosub" => AlgoRun.handleToSub args
  | "glazy" => AlgoRun.handleLazy args
  | "gchain" => AlgoRun.handleChain args
  | "gpopfront" => AlgoRun.handlePopFront args
  | "gtopop" => AlgoRun.handleToPop args
  | "gfromswc" => AlgoRun.handleFromSwc args
  | "gfindswcs" => AlgoRun.handleFindSwcs args
  | "gpopmap" => AlgoRun.handlePopMap args
  | "gpopfilter" => AlgoRun.handlePopFilter args
  | "gredirect" => AlgoRun.handleRedirect args
  | "gaffine" | "gpipe" => AlgoRun.handleAffine op args
  | "grod" | "ghom" | "gmview" | "gortho" => AlgoRun.handleRodrigues op args
  | "gviews" => AlgoRun.handleViews args
  | "gslice" => AlgoRun.handleSlice args
  | "ghelpers" => AlgoRun.handleHelpers args
  | "gsorttree" => AlgoRun.handleSortTree args
  | "gcat" => AlgoRun.handleCat args
  | "glm" => AlgoRun.handleLm args
  | "glmgeo" => AlgoRun.handleLmGeo args
  | "gvolctl" => AlgoRun.handleVolCtl args
  | "gtips" | "gnodebranch" | "gnode" => AlgoRun.handleNodeBranch op args
  | "gmst" => AlgoRun.handleMst args
  | "gmstcall" => AlgoRun.handleMstCall args
  | "gmstctor" => AlgoRun.handleMstCtor args
  | "gmsttail" => AlgoRun.handleMstTail args
  | "gsholl" => AlgoRun.handleSholl args
  | "gnodefeat" => AlgoRun.handleNodeFeat args
  | "gpoprows" | "gpoprows3" => AlgoRun.handlePopRows (op == "gpoprows3") args
  | "giso" | "glin" | "gsmooth" => AlgoRun.handleResample op args
  | "gresamtree" => AlgoRun.handleResamTree args
  | "gsamplers" | "gscene" | "graster" => AlgoRun.handleRaster op args
  | "gimgsave" | "gimgload" | "gimgnd" | "gimgio" | "gimgget" | "gimgread" => AlgoRun.handleImgIo op args
  | "ggetk" | "ggets" | "gtsinit" | "ggrayget" | "gtostack" | "gsavetifw" | "gsavetifio" | "gfull" | "ggray" | "gframend" | "gnrrd" | "gv3d" | "gv3draw" | "gv3dpbd" => AlgoRun.handleImgIo2 op args
  | "gparse" => AlgoRun.handleParse args
  | "greadfront" => AlgoRun.handleReadFront args
  | "gprologue" => AlgoRun.handlePrologue args
  | "gtreefromswc" => AlgoRun.handleTreeFromSwc args
  | "gtreefromeswc" => AlgoRun.handleTreeFromEswc args
  | "gtosubtree" | "gcutenter" | "gcutdepth" | "gcutleave" | "gcutleaveset" | "gcuttype" | "gcutorder" => AlgoRun.handleCut op args
  | "gcuttip" => AlgoRun.handleShortTip op args
  | "gsubimpl" => AlgoRun.handleSubImpl args
  | "gtosubfull" | "ggetsubfull" | "gtosubdep" => AlgoRun.handleSubFull op args
  | "gsingleroot" => AlgoRun.handleSingleRoot args
  | "gnearest" => AlgoRun.handleNearest args
  | "greadfix" => AlgoRun.handleReadFix args
  | "gasc" => AlgoRun.handleAsc args
  | "gasclex" | "gasctext" => AlgoRun.handleAscLex op args
  | "asm" => Asm.handle args
  | "gasm" => AlgoRun.handleAsm args
  | "brtree" => Branches.handleBranchTree args
  | "gbrtable" => AlgoRun.handleBranchTree args
  | "swcline" => SwcText.handleLine args
  | "swcread" => SwcText.handleRead args
  | "swcwrite" => SwcText.handleWrite args
  | "gswcwrite" | "gioswc" => AlgoRun.handleWriter op args
  | "gwrap" => AlgoRun.handleWrap args
  | "gwraptree" => AlgoRun.handleWrapTree args
  | "gtreeinit" | "gfromdf" => AlgoRun.handleTreeInit op args
  | "gcopying" => AlgoRun.handleCopying args
  | _ => "bad-op"

partial def loop (h : IO.FS.Stream) (out : IO.FS.Stream) : IO Unit := do
  let line ← h.getLine
  if line.isEmpty then return ()
  let l := line.trimAscii.toString
  match l.splitOn " " with
  | [] => out.putStrLn "bad-op"
  | op :: args => out.putStrLn (dispatch op (args.filter (· ≠ "")))
  loop h out

def main : IO Unit := do
  loop (← IO.getStdin) (← IO.getStdout)
