def hello := "world"
