import SwcVerif.Model.Resample
/-! Model for C17: the greedy loop of `PointsToCuntzMST.__call__` (`swcgeom/transforms/mst.py`) over an
exact distance matrix (`Rat`): `pid`, `acc`, `furcations`, `conn`, `mask` exactly as written;
`cost.argmin()` = first minimum in row-major order over the unmasked cells. -/
namespace Mst
open Resample (showRat rat?)

structure St where
  pid : List Int
  acc : List Rat
  furc : List Nat
  conn : List Bool
  mask : List (List Bool)       -- `true` = masked out
deriving Repr

def init (n : Nat) : St :=
  ⟨List.replicate n (-1), List.replicate n 0, List.replicate n 0,
   (List.range n).map (· == 0),
   (List.range n).map fun i => (List.range n).map fun j => if i = 0 then j == 0 else true⟩

def cellCost (dis : List (List Rat)) (bf : Rat) (s : St) (i j : Nat) : Rat :=
  (dis.getD i []).getD j 0 + bf * s.acc.getD i 0

/-- `np.unravel_index(cost.argmin(), cost.shape)`: the first unmasked cell (row-major) with the least cost;
`(0, 0)` when everything is masked (what `ma.argmin` returns then) -/
def argmin (dis : List (List Rat)) (bf : Rat) (s : St) (n : Nat) : Nat × Nat :=
  let cells := (List.range n).flatMap fun i => (List.range n).map fun j => (i, j)
  let best := cells.foldl (fun (b : Option (Rat × Nat × Nat)) ij =>
    if (s.mask.getD ij.1 []).getD ij.2 true then b
    else
      let c := cellCost dis bf s ij.1 ij.2
      match b with
      | none => some (c, ij.1, ij.2)
      | some (cb, _, _) => if c < cb then some (c, ij.1, ij.2) else b) none
  match best with
  | none => (0, 0)
  | some (_, i, j) => (i, j)

/-- one iteration of `for _ in range(n - 1)`; `limit = none` ⇔ `furcations == -1` -/
def step (dis : List (List Rat)) (bf : Rat) (limit : Option Nat) (excludeSoma : Bool) (n : Nat) (s : St) : St :=
  let ij := argmin dis bf s n
  let i := ij.1; let j := ij.2
  let furc := s.furc.set i (s.furc.getD i 0 + 1)
  let saturated := match limit with
    | none => false
    | some k => decide (furc.getD i 0 ≥ k) && (!excludeSoma || i != 0)
  let mask1 := if saturated then
      (s.mask.set i (List.replicate n true)).map (fun row => row.set i true)
    else s.mask
  let conn := s.conn.set j true
  let mask2 := (mask1.set j conn).map (fun row => row.set j true)
  ⟨s.pid.set j (i : Int), s.acc.set j (s.acc.getD i 0 + (dis.getD i []).getD j 0), furc, conn, mask2⟩

def run (dis : List (List Rat)) (bf : Rat) (limit : Option Nat) (excludeSoma : Bool) (n : Nat) : Nat → St → St
  | 0, s => s
  | k+1, s => run dis bf limit excludeSoma n k (step dis bf limit excludeSoma n s)

/-- the parent array returned (before the optional final sort) -/
def mst (dis : List (List Rat)) (bf : Rat) (limit : Option Nat) (excludeSoma : Bool) : List Int :=
  let n := dis.length
  (run dis bf limit excludeSoma n (n - 1) (init n)).pid

/-! ## driver: `mst n=<n> bf=<rat> k=<-1|k> ex=0|1 d=<row;row;…>` → parents -/
def handle (args : List String) : String :=
  match Proto.arg args "d", (Proto.arg args "bf").bind rat?, Proto.argInt args "k", Proto.argNat args "ex" with
  | some d, some bf, some k, some ex =>
    match ((d.splitOn ";").filter (· ≠ "")).mapM Resample.rats with
    | none => "bad-args"
    | some dis => Proto.showInts (mst dis bf (if k < 0 then none else some k.toNat) (ex = 1))
  | _, _, _, _ => "bad-args"

/-! ## `BranchTreeAssembler.pair` (`swcgeom/transforms/branch_tree.py`): greedy pairing of branch ends with children

`dis[b][e]` is the distance between the last sample of branch `b` and child `e` (the model is fed squared
distances: the square root is monotone, so the first minimum is the same cell).  Each round takes the first
minimum of the whole matrix and then sets its row and its column to `inf`. -/
structure PairSt where
  rows : List Bool          -- `true` = row set to inf
  cols : List Bool
  pairs : List (Nat × Nat)
deriving Repr

def pairArgmin (dis : List (List Rat)) (s : PairSt) (m : Nat) : Nat × Nat :=
  let cells := (List.range m).flatMap fun i => (List.range m).map fun j => (i, j)
  let best := cells.foldl (fun (b : Option (Rat × Nat × Nat)) ij =>
    if (s.rows.getD ij.1 false || s.cols.getD ij.2 false) then b
    else
      let c := (dis.getD ij.1 []).getD ij.2 0
      match b with
      | none => some (c, ij.1, ij.2)
      | some (cb, _, _) => if c < cb then some (c, ij.1, ij.2) else b) none
  match best with
  | none => (0, 0)
  | some (_, i, j) => (i, j)

def pairStep (dis : List (List Rat)) (m : Nat) (s : PairSt) : PairSt :=
  let ij := pairArgmin dis s m
  ⟨s.rows.set ij.1 true, s.cols.set ij.2 true, s.pairs ++ [ij]⟩

def pairRun (dis : List (List Rat)) (m : Nat) : Nat → PairSt → PairSt
  | 0, s => s
  | k+1, s => pairRun dis m k (pairStep dis m s)

/-- the list of (branch index, child index) pairs, in the order the loop finds them -/
def pairGreedy (dis : List (List Rat)) : List (Nat × Nat) :=
  let m := dis.length
  (pairRun dis m m ⟨List.replicate m false, List.replicate m false, []⟩).pairs

/-- `pair d=<row;row;…>` → `b:e,b:e,…` -/
def handlePair (args : List String) : String :=
  match Proto.arg args "d" with
  | some d =>
    match ((d.splitOn ";").filter (· ≠ "")).mapM Resample.rats with
    | none => "bad-args"
    | some dis => ",".intercalate ((pairGreedy dis).map fun p => s!"{p.1}:{p.2}")
  | none => "bad-args"
end Mst
