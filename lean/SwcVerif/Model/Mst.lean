import SwcVerif.Model.Resample
/-! Model for C17: the greedy loop of `PointsToCuntzMST.__call__` (`swcgeom/transforms/mst.py`) over an
exact distance matrix (`Rat`): `pid`, `acc`, `furcations`, `conn`, `mask` exactly as written;
`cost.argmin()` = first minimum in row-major order over the unmasked cells. -/
namespace Mst
open Resample (showRat rat?)

structure St where
  pid : List Int
  acc : List Rat
  furc : List Nat
  conn : List Bool
  mask : List (List Bool)       -- `true` = masked out
deriving Repr

def init (n : Nat) : St :=
  ⟨List.replicate n (-1), List.replicate n 0, List.replicate n 0,
   (List.range n).map (· == 0),
   (List.range n).map fun i => (List.range n).map fun j => if i = 0 then j == 0 else true⟩

def cellCost (dis : List (List Rat)) (bf : Rat) (s : St) (i j : Nat) : Rat :=
  (dis.getD i []).getD j 0 + bf * s.acc.getD i 0

/-- `np.unravel_index(cost.argmin(), cost.shape)`: the first unmasked cell (row-major) with the least cost;
`(0, 0)` when everything is masked (what `ma.argmin` returns then) -/
def argmin (dis : List (List Rat)) (bf : Rat) (s : St) (n : Nat) : Nat × Nat :=
  let cells := (List.range n).flatMap fun i => (List.range n).map fun j => (i, j)
  let best := cells.foldl (fun (b : Option (Rat × Nat × Nat)) ij =>
    if (s.mask.getD ij.1 []).getD ij.2 true then b
    else
      let c := cellCost dis bf s ij.1 ij.2
      match b with
      | none => some (c, ij.1, ij.2)
      | some (cb, _, _) => if c < cb then some (c, ij.1, ij.2) else b) none
  match best with
  | none => (0, 0)
  | some (_, i, j) => (i, j)

/-- one iteration of `for _ in range(n - 1)`; `limit = none` ⇔ `furcations == -1` -/
def step (dis : List (List Rat)) (bf : Rat) (limit : Option Nat) (excludeSoma : Bool) (n : Nat) (s : St) : St :=
  let ij := argmin dis bf s n
  let i := ij.1; let j := ij.2
  let furc := s.furc.set i (s.furc.getD i 0 + 1)
  let saturated := match limit with
    | none => false
    | some k => decide (furc.getD i 0 ≥ k) && (!excludeSoma || i != 0)
  let mask1 := if saturated then
      (s.mask.set i (List.replicate n true)).map (fun row => row.set i true)
    else s.mask
  let conn := s.conn.set j true
  let mask2 := (mask1.set j conn).map (fun row => row.set j true)
  ⟨s.pid.set j (i : Int), s.acc.set j (s.acc.getD i 0 + (dis.getD i []).getD j 0), furc, conn, mask2⟩

def run (dis : List (List Rat)) (bf : Rat) (limit : Option Nat) (excludeSoma : Bool) (n : Nat) : Nat → St → St
  | 0, s => s
  | k+1, s => run dis bf limit excludeSoma n k (step dis bf limit excludeSoma n s)

/-- the parent array returned (before the optional final sort) -/
def mst (dis : List (List Rat)) (bf : Rat) (limit : Option Nat) (excludeSoma : Bool) : List Int :=
  let n := dis.length
  (run dis bf limit excludeSoma n (n - 1) (init n)).pid

/-! ## driver: `mst n=<n> bf=<rat> k=<-1|k> ex=0|1 d=<row;row;…>` → parents -/
def handle (args : List String) : String :=
  match Proto.arg args "d", (Proto.arg args "bf").bind rat?, Proto.argInt args "k", Proto.argNat args "ex" with
  | some d, some bf, some k, some ex =>
    match ((d.splitOn ";").filter (· ≠ "")).mapM Resample.rats with
    | none => "bad-args"
    | some dis => Proto.showInts (mst dis bf (if k < 0 then none else some k.toNat) (ex = 1))
  | _, _, _, _ => "bad-args"
end Mst
