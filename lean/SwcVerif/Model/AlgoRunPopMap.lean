import SwcVerif.Gen.AlgoPopMap
import SwcVerif.Model.AlgoRunPopFront
/-! Driver side of `Gen/AlgoPopMap.lean`: the generated `Population.find_swcs`, `Population.map` (over the generated `LazyLoadingTrees.__iter__`)
and `filter_population` answer protocol lines on the same inputs as the real functions. The pure-function parameters of `find_swcs` are
instantiated with POSIX path functions written here (`pmJoin` = `posixpath.join`, `pmExt` = `posixpath.splitext(·)[-1]`); `os.path.relpath`
is given as a TABLE (the relative path of every walked directory, as the library computed it). -/
namespace AlgoRun
open Gen.Algo

/-- `posixpath.join(a, b)` -/
def pmJoin (a b : String) : String :=
  if b.startsWith "/" then b else if a = "" || a.endsWith "/" then a ++ b else a ++ "/" ++ b

/-- `posixpath.splitext(p)[-1]`: from the last dot of the base name, unless only dots precede it -/
def pmExt (p : String) : String :=
  let base := ((p.splitOn "/").getLast?).getD ""
  let rest := base.toList.dropWhile (· = '.')
  if rest.contains '.' then
    String.ofList ('.' :: (rest.reverse.takeWhile (· ≠ '.')).reverse)
  else ""

/-- `gfindswcs root=<r> ext=<e> rel=0|1 walk=<dir>|<relpath of dir>|<f,f,…>;…` → the list the generated `find_swcs` returns, `|`-separated -/
def handleFindSwcs (args : List String) : String :=
  match Proto.arg args "root", Proto.arg args "ext", Proto.argNat args "rel", Proto.arg args "walk" with
  | some root, some ext, some rel, some w =>
    let ents := ((w.splitOn ";").filter (· ≠ "")).map fun e =>
      match e.splitOn "|" with
      | [d, r, fs] => (d, r, (fs.splitOn ",").filter (· ≠ ""))
      | _ => ("?", "?", [])
    let relTab : String → String → String := fun r _ => ((ents.find? (fun e => e.1 == r)).map (·.2.1)).getD "?"
    match find_swcs relTab pmExt pmJoin (ents.map fun e => (e.1, ([] : List String), e.2.2)) root ext (rel = 1) with
    | none => "E"
    | some l => "|".intercalate l
  | _, _, _, _ => "bad-args"

/-- a population of `n` files built by the generated constructors, then the `pre` operations of the `gpopfront` protocol -/
def pmSetup (n : Nat) (pre : String) : Option (Population × List Int) :=
  match lazy_init default ((List.range n).map fun (k : Nat) => (k : Int)) with
  | none => none
  | some (g0, _) => match pop_init Pop.readLog default g0 "" ([] : List Int) with
    | none => none
    | some (p0, log0, _) =>
      some (((pre.splitOn ";").filter (· ≠ "")).foldl (fun (st : Population × List Int) tok => (gPopStep st tok).1) (p0, log0))

/-- `gpopmap n=<k> pre=<ops> mul=<a> add=<b>` → `results / read log` of the generated `Population.map` with `fn(tree k) = a·k + b` -/
def handlePopMap (args : List String) : String :=
  match Proto.argNat args "n", Proto.arg args "pre", Proto.argInt args "mul", Proto.argInt args "add" with
  | some n, some pre, some a, some b =>
    match pmSetup n pre with
    | none => "E"
    | some (p, log) =>
      match pop_map Pop.readLog (fun t => match t with | some k => a * k + b | none => -1) p log with
      | none => "E"
      | some (_, log', rs) => Proto.showInts rs ++ " / " ++ Proto.showInts log'
  | _, _, _, _ => "bad-args"

/-- `gpopfilter n=<k> pre=<ops> keep=<0|1,…> keys=<k,…>` → `len ; element at each key (E = IndexError) / read log` of the generated
`filter_population` with `predicate(tree k) = keep[k]` -/
def handlePopFilter (args : List String) : String :=
  match Proto.argNat args "n", Proto.arg args "pre", Proto.argInts args "keep", Proto.argInts args "keys" with
  | some n, some pre, some keep, some keys =>
    match pmSetup n pre with
    | none => "E"
    | some (p, log) =>
      match filter_population Pop.readLog (fun t => match t with | some k => keep.getD k.toNat 0 == 1 | none => false) p log with
      | none => "E"
      | some (_, log', q) =>
        let r := keys.foldl (fun (acc : NestLazy × List Int × List String) key =>
          match nestl_getitem Pop.readLog acc.1 key acc.2.1 with
          | none => (acc.1, acc.2.1, acc.2.2 ++ ["E"])
          | some (s', lg, t) => (s', lg, acc.2.2 ++ [showTree t])) (q.trees, log', [])
        s!"{(nestl_len q.trees).getD (-1)} ; " ++ ",".intercalate r.2.2 ++ " / " ++ Proto.showInts r.2.1
  | _, _, _, _ => "bad-args"

end AlgoRun
