import SwcVerif.Model.Py
import SwcVerif.Model.PyResample
/-! Semantics of the numpy idioms the GEOMETRIC L-Measure functions use (`harness/algo_specs/41_lmgeo.py`, generated module
`Gen/AlgoLmGeo.lean`).  Floats are values of a numeric type parameter `K`.  No Mathlib. -/
namespace Py.LG
variable {K : Type}

/-- `a - b` on two 1-d float arrays of the SAME length (element-wise).  Unequal lengths: numpy raises (or broadcasts a length-1 operand, which
never arises for the `(3,)` coordinate vectors this is used on): `none`. -/
def subArr [Sub K] (a b : List K) : Option (List K) :=
  if a.length = b.length then some (List.zipWith (fun x y => x - y) a b) else none

/-- `m[1:] - m[:-1]` … more generally `a - b` on two 2-d float arrays with the same number of rows: row-wise `subArr` -/
def subRows [Sub K] : List (List K) → List (List K) → Option (List (List K))
  | [], [] => some []
  | x :: xs, y :: ys => (subArr x y).bind fun r => (subRows xs ys).map fun rs => r :: rs
  | _, _ => none

/-- `np.sum(a)` on a 1-d float array: sequential accumulation from 0 (pairwise summation of float32 is a rounding matter: outside) -/
def sumK [Add K] [OfNat K 0] (a : List K) : K := a.foldl (fun acc x => acc + x) 0

/-- `np.stack([c0, c1, c2], axis=1)` restricted to the rows `idx`: the rows `[c0[i], c1[i], c2[i]]` for `i` in `idx` (an index out of range raises) -/
def gatherRows (cols : List (List K)) (idx : List Int) : Option (List (List K)) :=
  idx.mapM fun i => cols.mapM fun c => Py.idx c i

/-- `x ** k` for a float `x` and an int `k ≥ 0`: `k`-fold product (`x ** 0 = 1`); a negative exponent (a reciprocal) is not modelled: `none` -/
def powInt [Mul K] [OfNat K 1] (x : K) (k : Int) : Option K :=
  if 0 ≤ k then some ((List.replicate k.toNat x).foldl (fun acc y => acc * y) 1) else none

end Py.LG
