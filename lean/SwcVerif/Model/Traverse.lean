import SwcVerif.Model.Basic
/-! Model of `swcgeom.core.swc_utils.base._traverse_dfs`: one `tstep` per iteration of the
`while len(stack) != 0` loop.  `params` / `vals` are the two dictionaries; callbacks are
state-passing so that arbitrary (stateful) Python callbacks are covered. -/

namespace Trav
variable {σ T K : Type}

structure St (σ T K : Type) where
  stack  : List (Int × Bool)        -- top of the Python list = head
  params : Int → Option T
  vals   : Int → Option K
  s      : σ

def step (kidsOf : Int → List Int) (enter : σ → Int → Option T → σ × T) (leave : σ → Int → List K → σ × K)
    (st : St σ T K) : Option (St σ T K) :=
  match st.stack with
  | [] => none
  | (idx, true) :: rest =>
      let pre := st.params idx                                   -- params.pop(idx)
      let r := enter st.s idx pre
      let ks := kidsOf idx
      some { stack := (ks.map (·, true)).reverse ++ (idx, false) :: rest
             params := ks.foldl (fun p c => upd p c (some r.2)) (upd st.params idx none)
             vals := st.vals, s := r.1 }
  | (idx, false) :: rest =>
      let ks := kidsOf idx
      let cv := ks.filterMap st.vals                             -- [vals.pop(i) for i in children]
      let vals' := ks.foldl (fun v c => upd v c none) st.vals
      let r := leave st.s idx cv
      some { stack := rest, params := st.params, vals := upd vals' idx (some r.2), s := r.1 }

def run (kidsOf : Int → List Int) (enter : σ → Int → Option T → σ × T) (leave : σ → Int → List K → σ × K) :
    Nat → St σ T K → St σ T K
  | 0, st => st
  | n+1, st => match step kidsOf enter leave st with
    | none => st
    | some st' => run kidsOf enter leave n st'

/-- initial state of `_traverse_dfs(topology, root=root)` : `stack=[(root, True)]`, `params={root: None}` -/
def init (root : Int) (s : σ) : St σ T K := ⟨[(root, true)], fun _ => none, fun _ => none, s⟩

-- the specification: structural recursion; kids are entered from the last to the first (the
-- stack pops the most recently pushed child first) and `leave` sees their values in table order
mutual
def spec (enter : σ → Int → Option T → σ × T) (leave : σ → Int → List K → σ × K) : Rose → Option T → σ → σ × K
  | .node i ks, pv, s =>
    let r1 := enter s i pv
    let r2 := specRev enter leave ks r1.2 r1.1
    leave r2.1 i r2.2
def specRev (enter : σ → Int → Option T → σ × T) (leave : σ → Int → List K → σ × K) : List Rose → T → σ → σ × List K
  | [], _, s => (s, [])
  | r :: rs, cur, s =>
    let r1 := specRev enter leave rs cur s
    let r2 := spec enter leave r (some cur) r1.1
    (r2.1, r2.2 :: r1.2)
end

/-! Logging callbacks used by the correspondence check (same family on the Python side). -/
inductive Ev where
  | enter (i : Int) (pv : Option Int)
  | leave (i : Int) (kids : List Int)

def Ev.show : Ev → String
  | .enter i none => s!"E{i}:N"
  | .enter i (some v) => s!"E{i}:{v}"
  | .leave i ks => s!"L{i}:[{Proto.showInts ks}]"

def M : Int := 1000003
def logEnter (σ : List Ev) (i : Int) (pv : Option Int) : List Ev × Int :=
  (Ev.enter i pv :: σ, ((pv.getD 7) * 31 + i) % M)
def logLeave (σ : List Ev) (i : Int) (ks : List Int) : List Ev × Int :=
  (Ev.leave i ks :: σ, ks.foldl (fun a k => (a * 17 + k) % M) (i % M))

/-- driver op: `trav ids=.. pids=.. root=r` → log and return value (or `none` if no value) -/
def handle (args : List String) : String :=
  match Proto.argInts args "ids", Proto.argInts args "pids", Proto.argInt args "root" with
  | some ids, some pids, some root =>
    let st := run (tableKids ids pids) logEnter logLeave (2 * ids.length + 2) (init root [])
    let ret := match st.vals root with | some v => toString v | none => "none"
    let stackLeft := st.stack.length
    s!"{" ".intercalate (st.s.reverse.map Ev.show)} ret={ret} stack={stackLeft}"
  | _, _, _ => "bad-args"
end Trav
