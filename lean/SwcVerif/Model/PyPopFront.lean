import SwcVerif.Model.Py
/-! Semantics functions of the imperative translator used by `Gen/AlgoPopFront.lean` (the front end of
`swcgeom/core/population.py`): `slice` objects and `slice.indices`, `range(start, stop, step)`, `set.intersection`,
`functools.reduce` without an initial value, `min` of a non-empty sequence.  Mathlib-free (linked into the driver). -/
namespace Py

-- (the slice definitions live in `Py.PF`: `Model/PyViews.lean` has its own, equivalent, formalisation of `slice.indices` under `Py`)
namespace PF

/-- a `slice(start, stop, step)` object whose three fields are `int` or `None` -/
abbrev Slice := Option Int × Option Int × Option Int

/-- clamp one bound of a slice as CPython's `slice.indices` does (`Objects/sliceobject.c`, `_PySlice_GetLongIndices`):
a negative bound counts from the end and is cut at `lower`, a non-negative one is cut at `upper` -/
def sliceClamp (x : Int) (length lower upper : Int) : Int :=
  if x < 0 then (if x + length < lower then lower else x + length) else (if x > upper then upper else x)

/-- `s.indices(length)` for `length ≥ 0` : `(start, stop, step)`; `step == 0` raises ValueError, a negative length too -/
def sliceIndices (s : Slice) (length : Int) : Option (Int × Int × Int) :=
  let step := s.2.2.getD 1
  if step = 0 ∨ length < 0 then none else
  let lower : Int := if step < 0 then -1 else 0
  let upper : Int := if step < 0 then length - 1 else length
  let start := match s.1 with
    | none => if step < 0 then upper else lower
    | some a => sliceClamp a length lower upper
  let stop := match s.2.1 with
    | none => if step < 0 then lower else upper
    | some b => sliceClamp b length lower upper
  some (start, stop, step)

/-- `list(range(start, stop, step))`; `step == 0` raises ValueError -/
def range3 (t : Int × Int × Int) : Option (List Int) :=
  let start := t.1; let stop := t.2.1; let step := t.2.2
  if step = 0 then none
  else if step > 0 then
    some ((List.range ((stop - start + step - 1) / step).toNat).map fun (k : Nat) => start + (k : Int) * step)
  else
    some ((List.range ((start - stop + (-step) - 1) / (-step)).toNat).map fun (k : Nat) => start + (k : Int) * step)

end PF

namespace Set
variable {α : Type} [DecidableEq α]
/-- `a.intersection(b)`: the members of `a` that are in `b` (the iteration order of a Python set is unspecified; here: the order of `a`) -/
def inter (a b : List α) : List α := a.filter (fun x => b.contains x)
end Set

/-- `functools.reduce(f, xs)` without an initial value: TypeError on an empty sequence -/
def reduce1 {α : Type} (f : α → α → α) : List α → Option α
  | [] => none
  | x :: xs => some (xs.foldl f x)

/-- `min(xs)` of integers: ValueError on an empty sequence -/
def minInt : List Int → Option Int
  | [] => none
  | x :: xs => some (xs.foldl (fun m y => if y < m then y else m) x)

/-- `all(xs)` over booleans -/
def allB (xs : List Bool) : Bool := xs.all id

end Py
