import SwcVerif.Model.Py
/-! Semantics library of the imperative translator, second part: pandas row iteration, float arrays that may hold `inf`,
iterators.  (A separate file so that `Model/Py.lean`, which every generated module imports, stays untouched.)

* A float array whose entries are finite or `+inf` is a `List (Option Int)`: `some x` is a finite value (any strictly monotone
  image of it — the suites use squared distances of lattice points), `none` is `np.inf`.  `nan` is not modelled.
* An iterator (`df.iterrows()`) is the list of the items it has not produced yet. -/
namespace Py
variable {α : Type}

/-- `np.where(cond, a, b)` element-wise, any element type (scalars are broadcast by the translator) -/
def whereA (c : List Bool) (a b : List α) : List α :=
  (List.zip c (List.zip a b)).map (fun t => if t.1 then t.2.1 else t.2.2)

/-- minimum of a float array with `inf` entries (`none` = every entry is `inf`, or the array is empty) -/
def minInf (l : List (Option Int)) : Option Int :=
  l.foldl (fun (acc : Option Int) x => match acc, x with
    | none, x => x
    | some a, some b => if b < a then some b else some a
    | some a, none => some a) none

/-- `a.argmin()`: the first index of the minimum.  On an all-`inf` array every entry is the minimum, so the answer is 0;
an empty array raises ValueError. -/
def argminInf (l : List (Option Int)) : Option Int :=
  if l.isEmpty then none
  else some (match minInf l with
    | none => (0 : Int)
    | some m => ((l.idxOf (some m) : Nat) : Int))

/-- `df[mask].iterrows()` on a frame with the default `RangeIndex`: the selected rows (the positions where the mask is true) in table
order, each as `(index label, row)`; the label is the row's position and the row is handled through its position -/
def iterrows (mask : List Bool) : List (Int × Int) :=
  ((List.range mask.length).filter (fun k => mask.getD k false)).map (fun (k : Nat) => ((k : Int), (k : Int)))

/-- `next(it)`: the first remaining item and the rest (StopIteration = `none`) -/
def next (it : List α) : Option (α × List α) :=
  match it with
  | [] => none
  | x :: xs => some (x, xs)

/-- `a <= v` element-wise -/
def leMask (a : List Int) (v : Int) : List Bool := a.map (fun x => decide (x ≤ v))
-- `bool(mask.any())` is `Py.any` of `Model/Py.lean`

end Py
