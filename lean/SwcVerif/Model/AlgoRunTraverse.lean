import SwcVerif.Gen.AlgoTraverse
import SwcVerif.Model.Traverse
/-! Driver side of the imperative translator (one file per generated module, so that a source change that breaks one generated module
cannot take the runners of the other properties with it): the definitions GENERATED from the current sources are run on the same protocol
lines as the hand-written models, so that the translator and `Model/Py.lean` are cross-checked against the real functions. -/
namespace AlgoRun
open Gen.Algo

/-- `gtrav ids=.. pids=.. root=r` → call log and return value of the GENERATED `_traverse_dfs` (logging callbacks of
`Model/Traverse.lean`); `E` = an exception -/
def handleTrav (args : List String) : String :=
  match Proto.argInts args "ids", Proto.argInts args "pids", Proto.argInt args "root" with
  | some ids, some pids, some root =>
    match traverse_dfs Trav.logEnter Trav.logLeave (2 * ids.length + 3) (ids, pids) root ([] : List Trav.Ev) with
    | none => "E"
    | some (log, ret) => s!"{" ".intercalate (log.reverse.map Trav.Ev.show)} ret={ret} stack=0"
  | _, _, _ => "bad-args"

end AlgoRun
