import SwcVerif.Gen.AlgoSubtree
import SwcVerif.Model.Basic
/-! Driver side of the imperative translator (one file per generated module, so that a source change that breaks one generated module
cannot take the runners of the other properties with it): the definitions GENERATED from the current sources are run on the same protocol
lines as the hand-written models, so that the translator and `Model/Py.lean` are cross-checked against the real functions. -/
namespace AlgoRun
open Gen.Algo

/-- `gsubtopo ids=.. pids=..` → `new_pid / mapping` of the GENERATED `to_sub_topology` (`E` = KeyError) -/
def handleSubTopo (args : List String) : String :=
  match Proto.argInts args "ids", Proto.argInts args "pids" with
  | some ids, some pids =>
    match to_sub_topology (ids, pids) with
    | none => "E"
    | some r => s!"{Proto.showInts r.1.2} / {Proto.showInts r.2}"
  | _, _ => "bad-args"

end AlgoRun
