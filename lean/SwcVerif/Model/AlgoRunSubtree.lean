import SwcVerif.Gen.AlgoSubtree
import SwcVerif.Model.Basic
/-! Driver side of the imperative translator (one file per generated module, so that a source change that breaks one generated module
cannot take the runners of the other properties with it): the definitions GENERATED from the current sources are run on the same protocol
lines as the hand-written models, so that the translator and `Model/Py.lean` are cross-checked against the real functions. -/
namespace AlgoRun
open Gen.Algo

/-- `gsubtopo ids=.. pids=..` → `new_pid / mapping` of the GENERATED `to_sub_topology` (`E` = KeyError) -/
def handleSubTopo (args : List String) : String :=
  match Proto.argInts args "ids", Proto.argInts args "pids" with
  | some ids, some pids =>
    match to_sub_topology (ids, pids) with
    | none => "E"
    | some r => s!"{Proto.showInts r.1.2} / {Proto.showInts r.2}"
  | _, _ => "bad-args"

/-- `gsubtree pids=.. n=k` → `new_pid / mapping` of the GENERATED `get_subtree_impl` on a tree object (ids = positions) -/
def handleSubtree (args : List String) : String :=
  match Proto.argInts args "pids", Proto.argInt args "n" with
  | some pids, some n =>
    let ids := (List.range pids.length).map (fun (k : Nat) => (k : Int))
    match get_subtree_impl (2 * pids.length + 3) ids pids n with
    | none => "E"
    | some r => s!"{Proto.showInts r.1.2} / {Proto.showInts r.2}"
  | _, _ => "bad-args"

/-- `gtosub pids=.. rm=..` → `to_subtree(tree, rm)` at the topology level with the GENERATED `propagate_removal` and `to_sub_topology`:
the removal list is written into the id column as `REMOVAL`, propagated to the descendants, then compacted -/
def handleToSub (args : List String) : String :=
  match Proto.argInts args "pids", Proto.argInts args "rm" with
  | some pids, some rm =>
    let marked := (List.range pids.length).map (fun (k : Nat) => if rm.contains (k : Int) then (-2 : Int) else (k : Int))
    match propagate_removal (2 * pids.length + 3) (marked, pids) with
    | none => "E"
    | some (newIds, ps) =>
      match to_sub_topology (newIds, ps) with
      | none => "E"
      | some r => s!"{Proto.showInts r.1.2} / {Proto.showInts r.2}"
  | _, _ => "bad-args"

end AlgoRun
