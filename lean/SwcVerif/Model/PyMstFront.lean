import SwcVerif.Model.Py
/-! Semantics of the numpy idioms of the front end of `swcgeom/transforms/mst.py::PointsToCuntzMST.__call__` (Mathlib-free: linked into the driver).

Arrays of points are lists of rows; the DOMAIN is arrays of shape `(N, d)` (every row has `d` entries), which is what the source documents
(`points : array of shape (N, 3)`); outside of it the functions below return `none` (= the call raises / is not modelled). -/
namespace Py
variable {K : Type}

/-- every row of the 2-d array has `d` entries -/
def rowsOf (d : Nat) (a : List (List K)) : Bool := a.all (fun r => r.length == d)

/-- `np.concatenate([a, b])` of two 2-d arrays along axis 0: the rows of `a` followed by the rows of `b`; a ValueError unless all rows
have one width -/
def concatRows (a b : List (List K)) : Option (List (List K)) :=
  if rowsOf ((a ++ b).headD []).length (a ++ b) then some (a ++ b) else none

/-- `np.linalg.norm(P.reshape((-1, 1, d)) - P.reshape((1, -1, d)), axis=2)` for `P` of shape `(N, d)`: the `N × N` matrix whose entry
`[i][j]` is the norm of the difference vector `P[i] - P[j]`. The norm of a vector (`np.linalg.norm(·, axis=2)` on the last axis: the
rounded Euclidean length) is the PARAMETER `norm` — nothing about it is assumed. -/
def pairwiseNorm [Sub K] (norm : List K → K) (d : Nat) (p : List (List K)) : Option (List (List K)) :=
  if rowsOf d p then some (p.map fun a => p.map fun b => norm (List.zipWith (fun x y => x - y) a b)) else none

/-- `P[:, k]` of a 2-d array: entry `k` of every row (IndexError when a row is too short) -/
def column (p : List (List K)) (k : Int) : Option (List K) := p.mapM (fun r => Py.idx r k)

end Py
