import SwcVerif.Model.Py
/-! Further semantics of the imperative translator (`harness/translate_algo.py`, plugin `harness/algo_specs/61_writer.py`) for the SWC
WRITER (`io.py::to_swc`, `swc.py::SWCLike.to_swc`): Python `str` methods, f-strings, `str(int)`, table columns whose dtype is only known
at run time, and a `bool | str` argument.  Mathlib-free: linked into the driver.

Strings are Lean `String`s; whitespace is ASCII whitespace (documents are ASCII, DESIGN §3) - the same ten characters `str.isspace` /
`\s` accept below U+0080. -/
namespace Py

/-! ### `str` -/

/-- a character `str.isspace` accepts (ASCII: blank, `\t \n \v \f \r`, and the four separators `\x1c`–`\x1f`) -/
def isSpaceChar (c : Char) : Bool :=
  c = ' ' || c = '\t' || c = '\n' || c = '\r' || c = '\x0b' || c = '\x0c' || c = '\x1c' || c = '\x1d' || c = '\x1e' || c = '\x1f'

/-- `s.isspace()`: at least one character and all of them whitespace -/
def strIsSpace (s : String) : Bool := !s.toList.isEmpty && s.toList.all isSpaceChar

/-- `s.lstrip()` -/
def strLstrip (s : String) : String := String.ofList (s.toList.dropWhile isSpaceChar)

/-- `sep.join(items)` -/
def strJoin (sep : String) : List String → String
  | [] => ""
  | [a] => a
  | a :: b :: rest => a ++ sep ++ strJoin sep (b :: rest)

/-- `str(i)` of a Python `int` (also of a numpy integer scalar) -/
def strInt (i : Int) : String := toString i

/-- truthiness of a `str` -/
def strTruthy (s : String) : Bool := s != ""

/-! ### a `bool | str` value (the `source` argument of `SWCLike.to_swc`) -/

inductive BoolOrStr where
  | bool (b : Bool)
  | str (s : String)
deriving Repr, DecidableEq, Inhabited

/-- `isinstance(x, str)` -/
def BoolOrStr.isStr : BoolOrStr → Bool
  | .str _ => true
  | .bool _ => false
/-- `x is False` / `x is True` (identity with the singleton: a `str` is neither) -/
def BoolOrStr.isBool (x : BoolOrStr) (b : Bool) : Bool := decide (x = .bool b)
/-- `f"{x}"` = `str(x)` -/
def BoolOrStr.format : BoolOrStr → String
  | .str s => s
  | .bool true => "True"
  | .bool false => "False"

/-! ### table columns of a dtype known only at run time

`get_ndata(k)` returns an integer column for some keys and a float column for others; the code asks `np.issubdtype(vs.dtype, np.floating)`.
A float is an opaque payload `F` (the writer only ever formats it: `f"{v:.4f}"` is a parameter `F → String`).  Operations the model does not
cover (arithmetic on / `str` of a FLOAT cell, a float format applied to an INTEGER cell) are `none`, like a raised exception: a refinement
theorem has to show that they are not reached. -/

inductive Cell (F : Type) where
  | int (i : Int)
  | flt (x : F)
deriving Repr, Inhabited

inductive Col (F : Type) where
  | ints (l : List Int)
  | flts (l : List F)
deriving Repr, Inhabited

variable {F : Type}

/-- iteration over a column: its scalars -/
def Col.cells : Col F → List (Cell F)
  | .ints l => l.map .int
  | .flts l => l.map .flt
/-- `np.issubdtype(vs.dtype, np.floating)` -/
def Col.isFloating : Col F → Bool
  | .ints _ => false
  | .flts _ => true
/-- `vs[i]` with a scalar index: an integer index wraps like a Python index (IndexError out of range); a float index is an IndexError -/
def Col.get (c : Col F) (i : Cell F) : Option (Cell F) :=
  match i with
  | .flt _ => none
  | .int k =>
    match c with
    | .ints l => (Py.idx l k).map .int
    | .flts l => (Py.idx l k).map .flt
/-- `v != c` for an integer constant `c` -/
def Cell.neInt : Cell F → Int → Option Bool
  | .int i, c => some (decide (i ≠ c))
  | .flt _, _ => none
/-- `v + c` for a Python int `c` (no int32 wrap-around: integers are unbounded, DESIGN §3) -/
def Cell.addInt : Cell F → Int → Option (Cell F)
  | .int i, c => some (.int (i + c))
  | .flt _, _ => none
/-- `str(v)` -/
def Cell.str : Cell F → Option String
  | .int i => some (strInt i)
  | .flt _ => none
/-- `f"{v:<spec>}"` for a float format `<spec>`: `fmt` is what CPython prints for a float with that spec -/
def Cell.fmtFloat (fmt : F → String) : Cell F → Option String
  | .flt x => some (fmt x)
  | .int _ => none

end Py
