import SwcVerif.Model.Py
import SwcVerif.Model.PyResample
/-! Semantics added for `swcgeom/images/io.py` (`harness/algo_specs/18b_imgio.py`, Gen/AlgoImgIo.lean): n-dimensional numpy arrays as a
shape, a dtype tag and the element at every multi-index (`Py.NdArr K`, elements over the numeric type parameter `K`), and the numpy idioms the
image I/O code uses on them: `.ndim`, `.shape`, `.dtype`, `np.expand_dims(a, -1)`, `a.transpose(axes)`, `np.moveaxis(a, src, dst)`,
`np.argsort` (short lists: numpy's insertion sort, stable), `np.issubdtype(d, np.floating / np.unsignedinteger)`, `a.astype(d)` (the value
conversion is the function parameter `cast`), `a * s` / `s * a` for a scalar, and `a.__getitem__((i, j, k, l))`.  Mathlib-free. -/
namespace Py

/-- numpy scalar types (`np.uint8`, …) -/
inductive DType where
  | u8 | u16 | u32 | u64 | i8 | i16 | i32 | i64 | f16 | f32 | f64
deriving Repr, Inhabited, DecidableEq

/-- `np.issubdtype(d, np.floating)` -/
def DType.isFloating : DType → Bool
  | .f16 | .f32 | .f64 => true
  | _ => false

/-- `np.issubdtype(d, np.unsignedinteger)` -/
def DType.isUnsigned : DType → Bool
  | .u8 | .u16 | .u32 | .u64 => true
  | _ => false

/-- an n-dimensional array: its shape, its element at every multi-index (meaningful at the indices inside the shape) and its dtype -/
structure NdArr (K : Type) where
  shape : List Nat
  get : List Nat → K
  dtype : DType

instance {K : Type} [Inhabited K] : Inhabited (NdArr K) := ⟨⟨[], fun _ => default, .f64⟩⟩

variable {K : Type}

/-- `a.ndim` -/
def NdArr.ndim (a : NdArr K) : Int := (a.shape.length : Int)
/-- `a.shape` (a tuple of ints) -/
def NdArr.shapeI (a : NdArr K) : List Int := a.shape.map Int.ofNat

/-- `np.expand_dims(a, -1)`: a new last axis of length 1 -/
def expandLast (a : NdArr K) : NdArr K := { a with shape := a.shape ++ [1], get := fun i => a.get i.dropLast }

/-- `axes` is a permutation of `range(n)` (what `transpose` requires; negative axes never arise from `argsort` / `moveaxis` with literals) -/
def isPerm (n : Nat) (p : List Int) : Bool := p.length == n && (List.range n).all fun k => p.contains (k : Int)

/-- the index `j` of the operand with `j[axes[k]] = i[k]` -/
def unperm (p : List Nat) (i : List Nat) : List Nat := (List.range p.length).map fun ax => i.getD (p.idxOf ax) 0

/-- `a.transpose(axes)`: `result.shape[k] = a.shape[axes[k]]`, `result[i] = a[j]` with `j[axes[k]] = i[k]` (ValueError unless `axes` is a
permutation of the axes) -/
def transpose (a : NdArr K) (axes : List Int) : Option (NdArr K) :=
  if isPerm a.shape.length axes then
    let p := axes.map Int.toNat
    some { a with shape := p.map (fun ax => a.shape.getD ax 0), get := fun i => a.get (unperm p i) }
  else none

/-- the order `np.moveaxis` transposes by: the other axes in order, `src` inserted at position `dst` -/
def moveaxisPerm (n src dst : Nat) : List Int :=
  let rest := (List.range n).erase src
  (rest.take dst ++ [src] ++ rest.drop dst).map Int.ofNat

/-- `np.moveaxis(a, src, dst)` for non-negative `src`, `dst` (AxisError outside the rank) -/
def moveaxis (a : NdArr K) (src dst : Int) : Option (NdArr K) :=
  if 0 ≤ src ∧ src < a.ndim ∧ 0 ≤ dst ∧ dst < a.ndim then transpose a (moveaxisPerm a.shape.length src.toNat dst.toNat) else none

/-- insertion of index `i` into the sorted index list (strictly-less test: equal keys keep their order) -/
def argsortIns (o : List Int) (i : Nat) : List Nat → List Nat
  | [] => [i]
  | j :: r => if o.getD i 0 < o.getD j 0 then i :: j :: r else j :: argsortIns o i r

/-- `np.argsort(o)` of a short list (numpy sorts fewer than 16 elements by insertion: stable) -/
def argsort (o : List Int) : List Int := ((List.range o.length).foldl (fun acc i => argsortIns o i acc) []).map Int.ofNat

/-- `a.astype(d)`: every element converted by `cast d` (truncation / wrap-around / float rounding: a function parameter) -/
def astype (cast : DType → K → K) (a : NdArr K) (d : DType) : NdArr K := { a with get := fun i => cast d (a.get i), dtype := d }

/-- `a * s` for a Python scalar `s` (the dtype of the product is not modelled: the source converts it with `astype` at once, or multiplies a
floating array by a float, which keeps its dtype) -/
def mulScalarR [Mul K] (a : NdArr K) (s : K) : NdArr K := { a with get := fun i => a.get i * s }
/-- `s * a` -/
def mulScalarL [Mul K] (s : K) (a : NdArr K) : NdArr K := { a with get := fun i => s * a.get i }

/-- one component of an index: `0 ≤ k < n`, or `-n ≤ k < 0` counted from the end; anything else is an IndexError -/
def ndNormIdx (n : Nat) (k : Int) : Option Nat :=
  if 0 ≤ k ∧ k < n then some k.toNat else if -(n : Int) ≤ k ∧ k < 0 then some (k + n).toNat else none

/-- `a.__getitem__(key)` for a tuple of as many ints as the array has axes: the element (`none` = IndexError) -/
def ndGet (a : NdArr K) (key : List Int) : Option K :=
  if key.length = a.shape.length then ((List.zipWith ndNormIdx a.shape key).mapM id).map a.get else none

/-- `os.path.splitext(p)[-1]` (posix): from the last `.` of the last path component, provided a character other than `.` precedes it there;
`""` otherwise -/
def splitExt (p : String) : String :=
  let base := (p.toList.reverse.takeWhile (· ≠ '/')).reverse
  let extRev := base.reverse.takeWhile (· ≠ '.')
  if base.contains '.' then
    let stem := base.take (base.length - extRev.length - 1)
    if stem.any (· ≠ '.') then String.ofList ('.' :: extRev.reverse) else ""
  else ""

/-! ### driver side: arrays from / to flat element lists (C order) -/

/-- flat offset of a multi-index (C order) -/
def ravel : List Nat → List Nat → Nat
  | s :: ss, i :: is => i * ss.foldl (· * ·) 1 + ravel ss is
  | _, _ => 0

/-- all multi-indices of a shape in C order -/
def indices : List Nat → List (List Nat)
  | [] => [[]]
  | s :: ss => (List.range s).flatMap fun i => (indices ss).map (i :: ·)

def NdArr.ofFlat [Inhabited K] (shape : List Nat) (data : List K) (d : DType) : NdArr K :=
  ⟨shape, fun i => data.getD (ravel shape i) default, d⟩

def NdArr.toFlat (a : NdArr K) : List K := (indices a.shape).map a.get

end Py
