import SwcVerif.Model.Traverse
import SwcVerif.Gen.VolumeTerms
/-! Model of `analysis/volume.py::_get_volume_frustum_cone`: `tree.traverse(leave=leave)` where
`leave` adds the node's inclusion–exclusion value (GENERATED `Gen.VolTerms.nodeVolume`) to the
non-local `volume` and returns the node's sphere (here: its id, which determines the sphere). -/
namespace Vol
open Gen.VolTerms

/-- the six per-node ingredients: sphere, Σ frusta, Σ sphere∩frustum (parent side), Σ child-sphere∩frustum,
Σ sphere∩child-sphere (unused by the code since the D12 fix), Σ cone-pair terms -/
structure Terms (K : Type) where
  s : K
  f : K
  p : K
  c : K
  l : K
  q : K

section
variable {K : Type} [Add K] [Sub K] [Mul K] [Div K] [Neg K] [LT K] [LE K] [DecidableLT K] [DecidableLE K] [DecidableEq K]
  [OfNat K 0] [OfNat K 1] [OfNat K 2] [OfNat K 3] [OfNat K 4] [OfNat K 6] [OfNat K 12]

def nodeVal (acc : Nat) (t : Terms K) : K := nodeVolume acc t.s t.f t.p t.c t.l t.q

/-- `leave(n, children)`: `volume += v; return sphere`.  `terms i kids` are the ingredients computed from
node `i` and the spheres its children returned. -/
def volLeave (acc : Nat) (terms : Int → List Int → Terms K) : K → Int → List Int → K × Int :=
  fun vol i kids => (vol + nodeVal acc (terms i kids), i)
/-- no `enter` callback: `Tree.traverse` passes a do-nothing one -/
def volEnter : K → Int → Option Unit → K × Unit := fun vol _ _ => (vol, ())

/-- the reported tree volume (`volume = 0.0; tree.traverse(leave=leave); return volume`) -/
def treeVolume (acc : Nat) (terms : Int → List Int → Terms K) (ids pids : List Int) (root : Int) (fuel : Nat) : K :=
  (Trav.run (tableKids ids pids) volEnter (volLeave acc terms) fuel (Trav.init root (0 : K))).s
end
end Vol
