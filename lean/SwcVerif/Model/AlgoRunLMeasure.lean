import SwcVerif.Gen.AlgoLMeasure
import SwcVerif.Model.Basic
/-! Driver side of the imperative translator for C10 (see `AlgoRunSort.lean`): the GENERATED topological L-Measure functions
(`LMeasure.n_stems / n_bifs / n_branch / n_tips / branch_order / terminal_degree / partition_asymmetry / fragmentation`, with the generated
`Tree.soma`, `Tree.get_tips`, `Tree.Node.subtree`, node-handle methods, `get_furcations`, `get_branches`) are run on the same protocol lines
as the real methods.  The input tree is a `Tree` object (ids = positions). -/
namespace AlgoRun
open Gen.Algo

def showOI : Option Int → String
  | some k => toString k
  | none => "E"

def showOIs (l : List (Option Int)) : String := if l.isEmpty then "_" else ",".intercalate (l.map showOI)

/-- `glm pids=.. types=.. what=counts|branch_order|terminal_degree|partition_asymmetry|fragmentation [nodes=..]` -/
def handleLm (args : List String) : String :=
  match Proto.argInts args "pids", Proto.argInts args "types", Proto.arg args "what" with
  | some pids, some tys, some what =>
    let ids := (List.range pids.length).map (fun (k : Nat) => (k : Int))
    let fuel := 2 * pids.length + 3
    match what with
    | "counts" => s!"{showOI (lm_n_stems ids pids tys)} {showOI (lm_n_bifs fuel ids pids tys)} {showOI (lm_n_branch fuel ids pids tys)} {showOI (lm_n_tips ids pids tys)}"
    | "branch_order" => showOIs (ids.map fun k => lm_branch_order fuel ids pids k)
    | "terminal_degree" => showOIs (ids.map fun k => lm_terminal_degree fuel ids pids k)
    | "partition_asymmetry" =>
      match Proto.argInts args "nodes" with
      | some nodes => " ".intercalate (nodes.map fun k => match lm_partition_asymmetry fuel ids pids k with
          | some (a, b) => s!"{a}/{b}"
          | none => "E")
      | none => "bad-args"
    | "fragmentation" =>
      match get_branches fuel ids pids with
      | some brs => showOIs (brs.map fun b => lm_fragmentation b)
      | none => "E"
    | _ => "bad-op"
  | _, _, _ => "bad-args"

end AlgoRun
