import SwcVerif.Gen.AlgoVolCtl
import SwcVerif.Model.Resample
/-! Driver side of the imperative translator for C13 (T39 `volctl`): the GENERATED control flow of the closed-form volumes (`Gen/AlgoVolCtl.lean`)
is run at `K = Rat`.  `sqrt` is the exact rational square root when numerator and denominator are perfect squares (the suite sends 3-4-5 style,
axis-aligned data so that they are), else its value rounded down at 1e-12; `norm` = `sqrt` of the sum of squares; `np.allclose` with numpy's default
tolerances (`|a-b| ≤ 1e-8 + 1e-5 |b|`); `pi` is sent by the caller (the suite sends 1 and multiplies by `np.pi`: every result is linear in `pi`);
the unit vector `find_unit_vector_on_plane` draws is the argument `perp=`. -/
namespace AlgoRun
open Gen.Algo
open Resample (showRat showRats rat? argRats argRat)

def sqrtR (q : Rat) : Rat :=
  if q ≤ 0 then 0 else
    let s : Nat := 1000000000000
    ((Nat.sqrt (q.num.toNat * q.den * s * s) : Nat) : Rat) / ((q.den * s : Nat) : Rat)
def normR (v : List Rat) : Rat := sqrtR (v.foldl (fun acc x => acc + x * x) 0)
def closeR (a b : Rat) : Bool := decide ((if a - b < 0 then b - a else a - b) ≤ (1 : Rat) / 100000000 + (1 : Rat) / 100000 * (if b < 0 then -b else b))
def closeV (a b : List Rat) : Bool := a.length = b.length && (List.zipWith closeR a b).all id

private def showO : Option Rat → String
  | some r => showRat r
  | none => "E"

/-- `gvolctl what=sphere|cap|frustum|sphere2|concentric|line|project …` (rational arguments `a/b`) -/
def handleVolCtl (args : List String) : String :=
  let F := Py.ratFld
  let R (k : String) : Rat := (argRat args k).getD 0
  let V (k : String) : List Rat := (argRats args k).getD []
  let pi : Rat := (argRat args "pi").getD 1
  match Proto.arg args "what" with
  | some "sphere" => showO (vc_sphere_volume F pi (R "r"))
  | some "cap" => showO (vc_cap_volume F pi (R "r") (R "h"))
  | some "frustum" => showO (vc_frustum_volume F pi (R "r1") (R "r2") (R "h"))
  | some "sphere2" => showO (vc_sphere2 F normR pi (V "ca") (R "ra") (V "cb") (R "rb"))
  | some "concentric" =>
    showO (vc_concentric F normR sqrtR closeV closeR (fun _ => V "perp") pi (R "eps") (V "sc") (R "sr") (V "fc1") (R "fr1") (V "fc2") (R "fr2"))
  | some "line" =>
    match vc_line_sphere F sqrtR (V "c") (R "r") (V "a") (V "b") with
    | some l => if l.isEmpty then "_" else " ".intercalate (l.map fun (t, p) => showRat t ++ ";" ++ showRats p)
    | none => "E"
  | some "project" =>
    match vc_project F (V "a") (V "n") (V "p") with
    | some l => showRats l
    | none => "E"
  | _ => "bad-op"
end AlgoRun
