import SwcVerif.Model.Py
/-! Semantics added for the front of the volume computation (`harness/algo_specs/14b_volfront.py`, Gen/AlgoVolFront.lean). -/
namespace Py

/-- `D[k]` on a constant `dict` with string keys: the value of the first entry with that key (`none` = `KeyError`) -/
def strLookup (d : List (String × Int)) (k : String) : Option Int :=
  match d with
  | [] => none
  | (a, x) :: rest => if a = k then some x else strLookup rest k

/-- evaluate a fallible expression inside a function whose exceptions are tracked: `none` raises the given exception -/
@[inline] def bindOrRaise {α V R : Type} (e : Option α) (x : Exc) (v : V) (k : α → Res V (Except Exc R)) : Res V (Except Exc R) :=
  match e with
  | none => .ret v (.error x)
  | some a => k a

/-- a shape handed to the Monte-Carlo scene: the sphere of a node / the frustum between a node and one of its children -/
inductive Shape where
  | sphere (n : Int)
  | frustum (a b : Int)
deriving Repr, DecidableEq, Inhabited

/-- the node a sphere belongs to (what `c.center`, `c.radius` of a child's sphere identify); the first end of a frustum -/
def Shape.node : Shape → Int
  | .sphere n => n
  | .frustum a _ => a

/-- call a translated function that tracks its exceptions from one that does: its exception propagates (`none` = an untracked failure) -/
@[inline] def bindX {α V R : Type} (e : Option (Except Exc α)) (v : V) (k : α → Res V (Except Exc R)) : Res V (Except Exc R) :=
  match e with
  | none => .err
  | some (.error x) => .ret v (.error x)
  | some (.ok a) => k a

/-- a volumetric object of `utils/volumetric_object.py` as an immutable term: the sphere of a node, the frustum between a node and a child, a
composite of class `cls` (its class name) with the operands `obj1`, `obj2` -/
inductive VObj where
  | sphere (n : Int)
  | frustum (a b : Int)
  | node (cls : String) (obj1 obj2 : VObj)
deriving Repr, DecidableEq, Inhabited

/-- the class of an object -/
def VObj.cls : VObj → String
  | .sphere _ => "VolSphere"
  | .frustum _ _ => "VolFrustumCone"
  | .node c _ _ => c

/-- the operands of a composite (`none` = AttributeError) -/
def VObj.obj1 : VObj → Option VObj
  | .node _ a _ => some a
  | _ => none
def VObj.obj2 : VObj → Option VObj
  | .node _ _ b => some b
  | _ => none

/-- `issubclass(c, target)` in a hierarchy `[(class, bases)]` (fuel = the length of the table bounds the depth) -/
def subclassF (hier : List (String × List String)) : Nat → String → String → Bool
  | 0, c, t => c == t
  | fuel + 1, c, t =>
    c == t || (match hier.find? (·.1 == c) with
      | none => false
      | some (_, bases) => bases.any fun b => subclassF hier fuel b t)

/-- `isinstance(x, C)` -/
def VObj.isA (hier : List (String × List String)) (x : VObj) (c : String) : Bool := subclassF hier hier.length x.cls c

end Py
