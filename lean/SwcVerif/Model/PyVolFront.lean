import SwcVerif.Model.Py
/-! Semantics added for the front of the volume computation (`harness/algo_specs/14b_volfront.py`, Gen/AlgoVolFront.lean). -/
namespace Py

/-- `D[k]` on a constant `dict` with string keys: the value of the first entry with that key (`none` = `KeyError`) -/
def strLookup (d : List (String × Int)) (k : String) : Option Int :=
  match d with
  | [] => none
  | (a, x) :: rest => if a = k then some x else strLookup rest k

/-- evaluate a fallible expression inside a function whose exceptions are tracked: `none` raises the given exception -/
@[inline] def bindOrRaise {α V R : Type} (e : Option α) (x : Exc) (v : V) (k : α → Res V (Except Exc R)) : Res V (Except Exc R) :=
  match e with
  | none => .ret v (.error x)
  | some a => k a

/-- a shape handed to the Monte-Carlo scene: the sphere of a node / the frustum between a node and one of its children -/
inductive Shape where
  | sphere (n : Int)
  | frustum (a b : Int)
deriving Repr, DecidableEq, Inhabited

/-- the node a sphere belongs to (what `c.center`, `c.radius` of a child's sphere identify); the first end of a frustum -/
def Shape.node : Shape → Int
  | .sphere n => n
  | .frustum a _ => a

end Py
