import SwcVerif.Gen.AlgoImgIo2
import SwcVerif.Model.AlgoRunImgIo
import SwcVerif.Model.AlgoRunRaster
/-! Driver side for Gen/AlgoImgIo2.lean (see `AlgoRunImgIo.lean`): the GENERATED `ToImageStack.__call__ / save_tif / transform_and_save`, the
frame conversion of `transform`, `NrrdImageStack / V3d*ImageStack.__init__`, `ImageStack.get_full`, `GrayImageStack.get_full` at `K = Rat`. -/
namespace AlgoRun
open Gen.Algo

/-- the members `a[0], a[1], …` of an array along its first axis -/
def framesOf (a : Py.NdArr Rat) : List (Py.NdArr Rat) :=
  (List.range (a.shape.headD 0)).map fun i => Py.NdArr.ofFlat a.shape.tail ((Py.indices a.shape.tail).map fun j => a.get (i :: j)) a.dtype

/-- `rag=1`: the last frame replaced by one of another shape -/
def ragged (fs : List (Py.NdArr Rat)) : List (Py.NdArr Rat) :=
  match fs.reverse with
  | [] => []
  | f :: r => (Py.NdArr.ofFlat (f.shape ++ [1]) f.toFlat f.dtype :: r).reverse

/-- `a:b:c` with `n` = None -/
def parseSlice (t : String) : Option Py.Slice :=
  let f (x : String) : Option (Option Int) := if x = "n" then some none else x.toInt?.map some
  match t.splitOn ":" with
  | [a, b, c] => match f a, f b, f c with
    | some x, some y, some z => some (x, y, z)
    | _, _, _ => none
  | _ => none

def showWrite (w : Py.TifWrite Rat) : String :=
  s!"{showArr w.frame};{if w.contiguous then 1 else 0};{w.photometric};{String.ofList w.axes}"

/-- `gtostack shape=n,X,Y dt= data= rag=0|1`       → the array of the GENERATED `__call__` on the frames `a[0..n-1]` (`E` = ValueError);
`gsavetifw shape= dt= data=`                       → the `write` calls of the GENERATED `transform_and_save`, ` / `-joined;
`gsavetifio shape= dt= data= rd=`                  → GENERATED `transform_and_save`, the codec model `tifSeries`, GENERATED `TiffImageStack.__init__`;
`gnrrd | gv3d | gv3draw | gv3dpbd shape= dt= data= to=` → the GENERATED constructors; `gfull`, `ggray shape= dt= data=` → the GENERATED `get_full`s;
`gframend pids= x= y= z= r= d= res= shape=n,… dt= data=` → the frames of the GENERATED `transform` when the k-th call of `sample` answers `a[k]`,
` / `-joined, ` # `, the array `__call__` makes of them -/
def handleImgIo2 (what : String) (args : List String) : String :=
  if what = "gtsinit" then
    -- `gtsinit res=<rationals> scalar=0|1` → the field `resolution` of the GENERATED `ToImageStack.__init__` (`E` = AssertionError)
    match Resample.argRats args "res", Proto.arg args "scalar" with
    | some [a], some "1" => match tostack_init_scalar (K := Rat) castRat a with | some (r, _) => Resample.showRats r | none => "E"
    | some l, some "0" => match tostack_init_array (K := Rat) castRat l with | some (r, _) => Resample.showRats r | none => "E"
    | _, _ => "bad-args"
  else
  match argArr args with
  | none => "bad-args"
  | some a =>
    let opt (r : Option (Py.NdArr Rat)) : String := match r with | none => "E" | some b => showArr b
    match what with
    | "gtostack" => opt (tostack_call (K := Rat) (if Proto.arg args "rag" == some "1" then ragged (framesOf a) else framesOf a))
    | "gsavetifw" =>
      match tostack_transform_and_save (K := Rat) "f" (framesOf a) with
      | none => "E"
      | some (ws, _) => " / ".intercalate (ws.map showWrite)
    | "gsavetifio" =>
      match argTo args "rd" with
      | none => "bad-args"
      | some rd =>
        match (tostack_transform_and_save (K := Rat) "f" (framesOf a)).bind fun r => Py.tifSeries r.1 with
        | none => "E"
        | some (w, ax) =>
          match tiff_init (K := Rat) Py.ratFld castRat w ax rd with
          | none => "E"
          | some (ws, r) => s!"{Proto.showInts ws};{showArr r}"
    | "ggetk" =>
      -- `ggetk … ints=i[,j[,k]]` → the GENERATED `NDArrayImageStack.__getitem__` for an int / int-pair / int-triple key
      match Proto.argInts args "ints" with
      | some [i] => opt (ndarray_getitem_int (K := Rat) a i)
      | some [i, j] => opt (ndarray_getitem_int2 (K := Rat) a (i, j))
      | some [i, j, k] => opt (ndarray_getitem_int3 (K := Rat) a (i, j, k))
      | _ => "bad-args"
    | "ggets" =>
      -- `ggets … sl=a:b:c[/a:b:c…]` (`n` = None) → the GENERATED `__getitem__` for a slice / a tuple of 2–4 slices
      match ((Proto.arg args "sl").getD "").splitOn "/" |>.mapM parseSlice with
      | some [s1] => opt (ndarray_getitem_slice (K := Rat) a s1)
      | some [s1, s2] => opt (ndarray_getitem_slice2 (K := Rat) a (s1, s2))
      | some [s1, s2, s3] => opt (ndarray_getitem_slice3 (K := Rat) a (s1, s2, s3))
      | some [s1, s2, s3, s4] => opt (ndarray_getitem_slice4 (K := Rat) a (s1, s2, s3, s4))
      | _ => "bad-args"
    | "gfull" => opt (imagestack_get_full (K := Rat) a)
    | "ggrayget" =>
      -- `ggrayget … key=i,j,k fuel=n` → the GENERATED `GrayImageStack.__getitem__` with recursion depth `n` (`E` = no result)
      match Proto.argInts args "key", Proto.argInts args "fuel" with
      | some [i, j, k], some [n] => opt (gray_getitem (K := Rat) n.toNat (i, j, k))
      | _, _ => "bad-args"
    | "ggray" => opt (gray_get_full (K := Rat) a)
    | "gframend" =>
      match Proto.argInts args "pids", Resample.argRats args "x", Resample.argRats args "y", Resample.argRats args "z",
          Resample.argRats args "r", Resample.argRats args "d", Resample.argRats args "res" with
      | some pids, some x, some y, some z, some r, some d, some res =>
        let ids := (List.range pids.length).map (fun (k : Nat) => (k : Int))
        let sample : List (Py.NdArr Rat) → Py.RangeSampler Rat → List (Py.Sdf Rat) → List (Py.NdArr Rat) × Py.NdArr Rat :=
          fun q _ _ => (q.tail, q.headD default)
        match raster_transform_nd (K := Rat) (σ := List (Py.NdArr Rat)) sample Py.ratFld Py.ratFlr (distOf d) castRat
            (2 * pids.length + 100000) ids pids (rowsOf x y z) r res (framesOf a) with
        | none => "E"
        | some (frames, _, _) => " / ".intercalate (frames.map showArr) ++ " # " ++ opt (tostack_call (K := Rat) frames)
      | _, _, _, _, _, _, _ => "bad-args"
    | _ =>
      match argTo args "to" with
      | none => "bad-args"
      | some to =>
        match what with
        | "gnrrd" => opt (nrrd_init (K := Rat) Py.ratFld castRat a to)
        | "gv3d" => opt (v3d_init (K := Rat) Py.ratFld castRat a to)
        | "gv3draw" => opt (v3draw_init (K := Rat) Py.ratFld castRat a to)
        | "gv3dpbd" => opt (v3dpbd_init (K := Rat) Py.ratFld castRat a to)
        | _ => "bad-op"

end AlgoRun
