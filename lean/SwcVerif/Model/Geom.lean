import SwcVerif.Model.Basic
import SwcVerif.Gen.Matrices
import SwcVerif.Gen.VolumeFormulas
import SwcVerif.Gen.VolumeTerms
import SwcVerif.Gen.LMeasureArith
import SwcVerif.Model.Volume
/-! Driver ops that evaluate the GENERATED definitions at `Float`, so that the translator itself
is cross-checked against the Python functions it read (DESIGN.md §3). -/
namespace Geom
open Gen.Mat Gen.Affine

def matOf (kind : String) (a : List Float) : Option (Mat Float) :=
  match kind, a with
  | "scale", [x, y, z] => some (scale3d x y z)
  | "translate", [x, y, z] => some (translate3d x y z)
  | "rotx", [t] => some (rotate3d_x (Float.cos t) (Float.sin t))
  | "roty", [t] => some (rotate3d_y (Float.cos t) (Float.sin t))
  | "rotz", [t] => some (rotate3d_z (Float.cos t) (Float.sin t))
  | "rot", [nx, ny, nz, t] => some (rotate3d nx ny nz (Float.cos t) (Float.sin t))
  | _, _ => none

/-- `affine kind=.. a=.. center=root|origin root=x,y,z p=x,y,z` → the image of p -/
def handleAffine (args : List String) : String :=
  match Proto.arg args "kind", Proto.argFloats args "a", Proto.arg args "center",
        Proto.argFloats args "root", Proto.argFloats args "p" with
  | some kind, some a, some center, some [rx, ry, rz], some [x, y, z] =>
    match matOf kind a with
    | none => "bad-args"
    | some tm =>
      let m := if center = "root" then aboutRoot tm rx ry rz else tm
      let q := applyPoint m x y z
      Proto.showFloats [q.1, q.2.1, q.2.2]
  | _, _, _, _, _ => "bad-args"

/-- `mat kind=.. a=..` → the 16 entries -/
def handleMat (args : List String) : String :=
  match Proto.arg args "kind", Proto.argFloats args "a" with
  | some kind, some a =>
    match matOf kind a with
    | none => "bad-args"
    | some tm => Proto.showFloats tm.flatten
  | _, _ => "bad-args"

def pi : Float := 3.141592653589793
def eps : Float := Float.ofNat Gen.Vol.epsNum / Float.ofNat Gen.Vol.epsDen

/-- geometric facts about the sphere / frustum configuration (hand-modelled, see Props/C13):
exit parameter of the lateral edge, height and radius of the exit circle -/
def exitT (r1 r2 h : Float) : Float := exitTK r1 r2 h

/-- `vol f=sphere|cap|frustum|lens|concentric a=..` -/
def handleVol (args : List String) : String :=
  match Proto.arg args "f", Proto.argFloats args "a" with
  | some "sphere", some [r] => Proto.showFloat (Gen.Vol.sphereVolume pi r)
  | some "cap", some [r, h] => Proto.showFloat (Gen.Vol.capVolume pi r h)
  | some "frustum", some [r1, r2, h] => Proto.showFloat (Gen.Vol.frustumVolume pi r1 r2 h)
  | some "lens", some [r1, r2, d] => Proto.showFloat (Gen.Vol.lensVolume pi r1 r2 d)
  | some "union2", some [r1, r2, d] =>
      Proto.showFloat (Gen.Vol.unionFromParts (Gen.Vol.sphereVolume pi r1) (Gen.Vol.sphereVolume pi r2) (Gen.Vol.lensVolume pi r1 r2 d))
  | some "concentric", some [r1, r2, h] =>
      let t := exitT r1 r2 h
      Proto.showFloat (Gen.Vol.concentricCore pi eps h r1 r2 t (t * h) (r1 + t * (r2 - r1)))
  | some "sfunion", some [r1, r2, h] =>
      let t := exitT r1 r2 h
      Proto.showFloat (Gen.Vol.sfUnionFromParts (Gen.Vol.sphereVolume pi r1) (Gen.Vol.frustumVolume pi r1 r2 h)
        (Gen.Vol.concentricCore pi eps h r1 r2 t (t * h) (r1 + t * (r2 - r1))))
  | some "node", some [acc, vs, a, b, c, d, e] =>
      Proto.showFloat (Gen.VolTerms.nodeVolume acc.toUInt64.toNat vs a b c d e)
  | some "pasym", some [n1, n2] => Proto.showFloat (Gen.LM.partitionAsymmetry n1 n2)
  | _, _ => "bad-args"

/-- `voltree acc=<n> ids=.. pids=.. nodes=s:f:p:c:l:q;…` (row k = node ids[k]) → `Vol.treeVolume`: the
traversal machine with the `leave` callback of `_get_volume_frustum_cone` -/
def handleVolTree (args : List String) : String :=
  match Proto.argNat args "acc", Proto.arg args "nodes", Proto.argInts args "ids", Proto.argInts args "pids" with
  | some acc, some ns, some ids, some pids =>
    let rows := (ns.splitOn ";").filter (· ≠ "")
    let vals := rows.mapM (fun r => (r.splitOn ":").mapM Proto.float?)
    match vals with
    | none => "bad-args"
    | some vs =>
      let nan : Float := 0.0 / 0.0
      let tbl : List (Int × Vol.Terms Float) := (ids.zip vs).map (fun (i, v) => match v with
        | [s, f, p, c, l, q] => (i, ⟨s, f, p, c, l, q⟩)
        | _ => (i, ⟨nan, nan, nan, nan, nan, nan⟩))
      let terms : Int → List Int → Vol.Terms Float := fun i _ =>
        match tbl.find? (·.1 == i) with
        | some (_, t) => t
        | none => ⟨nan, nan, nan, nan, nan, nan⟩
      match ids with
      | [] => "0e0"
      | root :: _ => Proto.showFloat (Vol.treeVolume acc terms ids pids root (2 * ids.length + 2))
  | _, _, _, _ => "bad-args"
end Geom
