import SwcVerif.Gen.AlgoCtorTree
import SwcVerif.Model.Basic
/-! Driver side of the imperative translator for `Gen/AlgoCtorTree.lean` (see `AlgoRunDsu.lean`): the deprecated furcation queries. -/
namespace AlgoRun
open Gen.Algo

/-- `gwraptree op=bifurcations|isbif ids=.. pids=.. [node=k]` -/
def handleWrapTree (args : List String) : String :=
  match Proto.arg args "op", Proto.argInts args "ids", Proto.argInts args "pids" with
  | some op, some ids, some pids =>
    match op with
    | "bifurcations" => match get_bifurcations (2 * ids.length + 3) ids pids with | some l => Proto.showInts l | none => "E"
    | "isbif" => match node_is_bifurcation ids pids ((Proto.argInt args "node").getD 0) with | none => "E" | some true => "T" | some false => "F"
    | _ => "bad-op"
  | _, _, _ => "bad-args"

end AlgoRun
