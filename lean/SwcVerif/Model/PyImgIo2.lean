import SwcVerif.Model.Py
import SwcVerif.Model.PyImgIo
import SwcVerif.Model.PyViews
/-! Semantics added for the rest of the image I/O code (`harness/algo_specs/18c_imgio2.py`, Gen/AlgoImgIo2.lean): `np.stack(frames, axis=0)`,
the subscripts `a[:, :, :, :]` / `a[:, :, :, 0]` (full slices followed by int literals), the record of one `TiffWriter.write` call, and the
(trusted, executed against the real codec by the suite) shape of the series a contiguous sequence of such writes makes.  Mathlib-free. -/
namespace Py

variable {K : Type}

/-- `np.stack(l, axis=0)`: a new first axis indexing the list (ValueError for an empty list or arrays of different shapes; the dtype is that of
the members, which the callers produce by one `astype`) -/
def stack0 (l : List (NdArr K)) : Option (NdArr K) :=
  match l with
  | [] => none
  | a :: r =>
    if r.all (fun b => b.shape == a.shape) then
      some { shape := (a :: r).length :: a.shape, get := fun i => ((a :: r).getD (i.headD 0) a).get i.tail, dtype := a.dtype }
    else none

/-- `a[:, …, :, k₁, …, kₘ]`: `nfull` full slices followed by the int literals `ks` (each `0 ≤ k`), on an array of at least that many axes
(IndexError: too many indices, or a literal outside its axis); further axes are kept -/
def sliceThenInts (a : NdArr K) (nfull : Nat) (ks : List Nat) : Option (NdArr K) :=
  if nfull + ks.length ≤ a.shape.length ∧ (List.zipWith (fun k n => decide (k < n)) ks (a.shape.drop nfull)).all id then
    some { a with shape := a.shape.take nfull ++ a.shape.drop (nfull + ks.length),
                  get := fun i => a.get (i.take nfull ++ ks ++ i.drop nfull) }
  else none

/-- `a[..., k₁, …, kₘ]`: the int literals index the LAST axes (IndexError: fewer axes, or a literal outside its axis) -/
def ellipsisThenInts (a : NdArr K) (ks : List Nat) : Option (NdArr K) :=
  if ks.length ≤ a.shape.length then sliceThenInts a (a.shape.length - ks.length) ks else none

/-! ### `a.__getitem__(key)` for the other key forms of `ImageStack.__getitem__`: fewer ints than axes, slices -/

/-- `a[k₀, …, kₘ]` with at most as many ints as axes (negative = from the end): the sub-array at that prefix (as many ints as axes: the element,
a 0-d array); IndexError: too many indices or an index outside its axis -/
def ndIndexPrefix (a : NdArr K) (ks : List Int) : Option (NdArr K) :=
  if ks.length ≤ a.shape.length then
    ((List.zipWith ndNormIdx a.shape ks).mapM id).map fun idx =>
      { a with shape := a.shape.drop ks.length, get := fun i => a.get (idx ++ i) }
  else none

/-- `slice.indices(n)` (`Py.sliceIndices` of Model/PyViews.lean) as (first index, step, number of indices `len(range(start, stop, step))`);
`step = 0` is a ValueError -/
def sliceSpan (n : Nat) (s : Slice) : Option (Int × Int × Nat) :=
  (sliceIndices s n).map fun p => (p.1, p.2.2, rangeLen p.1 p.2.1 p.2.2)

/-- `a[s₀, …, sₘ]` with at most as many slices as axes: axis `k` keeps the indices `startₖ + j·stepₖ`; further axes are kept whole
(IndexError: too many indices; ValueError: a zero step) -/
def ndSlice (a : NdArr K) (ss : List Slice) : Option (NdArr K) :=
  if ss.length ≤ a.shape.length then
    ((List.zipWith sliceSpan a.shape ss).mapM id).map fun sp =>
      { a with shape := sp.map (·.2.2) ++ a.shape.drop ss.length,
               get := fun i => a.get (List.zipWith (fun (p : Int × Int × Nat) (j : Nat) => (p.1 + p.2.1 * j).toNat) sp i ++ i.drop ss.length) }
  else none

/-- one call `tif.write(frame, contiguous=…, photometric=…, resolution=…, metadata={…, "axes": …})` of a `tifffile.TiffWriter`: what the image
I/O property depends on -/
structure TifWrite (K : Type) where
  frame : NdArr K
  contiguous : Bool
  photometric : String
  axes : List Char
instance [Inhabited K] : Inhabited (TifWrite K) := ⟨⟨default, false, "", []⟩⟩

/-- TRUSTED codec model (tifffile, executed against the real library by the suite `c20.imgio2-gen`): the first series of the file made by a
sequence of contiguous writes of equally shaped 2-d frames.  Two or more frames: the frames stacked along a new first axis, with the axes string
of the first write's metadata.  ONE frame: the 2-d frame itself — the 3-letter axes string of the metadata does not match its shape and tifffile
falls back to `YX`.  No frame: no series. -/
def tifSeries (ws : List (TifWrite K)) : Option (NdArr K × List Char) :=
  match ws with
  | [] => none
  | [w] => some (w.frame, "YX".toList)
  | w :: r => (stack0 ((w :: r).map (·.frame))).map fun a => (a, w.axes)

end Py
