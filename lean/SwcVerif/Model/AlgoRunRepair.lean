import SwcVerif.Gen.AlgoRepair
import SwcVerif.Model.Basic
/-! Driver side of the imperative translator for the root repair of C18 (see `AlgoRunDsu.lean`): the GENERATED `is_single_root`,
`link_roots_to_nearest_` and the repair dispatch of `read_swc` are run on the same protocol lines as the hand-written models and the real
functions.  The geometry enters as the callback `norm`: the distances of all rows to a row, here the SQUARED distances of the lattice
points `x=.. y=.. z=..` (a strictly monotone image of the float norms: the same `argmin`). -/
namespace AlgoRun
open Gen.Algo

/-- the callback `np.linalg.norm(df[[x, y, z]] - row[[x, y, z]], axis=1)` on lattice points (squared) -/
def normOf (xs ys zs : List Int) : Unit → Int → Unit × List Int := fun _ i =>
  ((), (List.range xs.length).map fun j =>
    let dx := xs.getD i.toNat 0 - xs.getD j 0; let dy := ys.getD i.toNat 0 - ys.getD j 0; let dz := zs.getD i.toNat 0 - zs.getD j 0
    dx * dx + dy * dy + dz * dz)

/-- `gsingleroot ids=.. pids=..` → answer of the GENERATED `is_single_root` (`E` = an exception) -/
def handleSingleRoot (args : List String) : String :=
  match Proto.argInts args "ids", Proto.argInts args "pids" with
  | some ids, some pids =>
    match is_single_root (ids.length * ids.length + 2) ids pids with
    | none => "E" | some true => "T" | some false => "F"
  | _, _ => "bad-args"

/-- `gnearest ids=.. pids=.. x=.. y=.. z=..` → the parent column after the GENERATED `link_roots_to_nearest_` -/
def handleNearest (args : List String) : String :=
  match Proto.argInts args "ids", Proto.argInts args "pids", Proto.argInts args "x", Proto.argInts args "y", Proto.argInts args "z" with
  | some ids, some pids, some xs, some ys, some zs =>
    match link_roots_to_nearest_ (normOf xs ys zs) (ids.length * ids.length + 2) ids pids () with
    | none => "E"
    | some r => Proto.showInts r.1
  | _, _, _, _, _ => "bad-args"

/-- `greadfix ids=.. pids=.. types=.. rs=.. x=.. y=.. z=.. mode=F|<string> sort=0|1 reset=0|1` → `ids / pids / types / rs / warnings` after the
GENERATED tail of `read_swc` (from `# fix swc` on); `E` = an exception.  `rs` are the radii times 4 (only their sign matters). -/
def handleReadFix (args : List String) : String :=
  match Proto.argInts args "ids", Proto.argInts args "pids", Proto.argInts args "types", Proto.argInts args "rs",
        Proto.argInts args "x", Proto.argInts args "y", Proto.argInts args "z", Proto.arg args "mode" with
  | some ids, some pids, some tys, some rs, some xs, some ys, some zs, some mode =>
    let fix : Option String := if mode = "F" then none else some mode
    match read_swc_fix (normOf xs ys zs) (ids.length * ids.length + 2) ids pids tys rs fix (Proto.argNat args "sort" = some 1)
        (Proto.argNat args "reset" = some 1) () with
    | none => "E"
    | some r => s!"{Proto.showInts r.1} / {Proto.showInts r.2.1} / {Proto.showInts r.2.2.1} / {Proto.showInts r.2.2.2.1} / {if r.2.2.2.2.1.isEmpty then "_" else Proto.showInts r.2.2.2.2.1}"
  | _, _, _, _, _, _, _, _ => "bad-args"

end AlgoRun
