import SwcVerif.Model.Branches
import SwcVerif.Model.Subtree
import SwcVerif.Model.Resample
import SwcVerif.Gen.LMeasureArith
/-! Models for C10 / C11 (`analysis/features.py`, `sholl.py`, `lmeasure.py`, `core/path.py`, `core/tree.py`):
morphometrics as functions of the parent list, the edge lengths (`elen c` = distance from `c` to its parent)
and, for Sholl, the radial distances of the nodes.  Lengths are exact rationals here; the code's square roots
and float32 sums are compared with tolerance. -/
namespace Feat
open Resample (showRat showRats rats)

def rangeI := Sub.rangeI

/-- `Tree.length()`: sum over the segments `(pid i, i)`, `i ≥ 1` -/
def treeLength (pids : List Int) (elen : Int → Rat) : Rat :=
  ((rangeI pids.length).drop 1).foldl (fun a i => a + elen i) 0

/-- `Path.length()` of a node list whose consecutive nodes are parent → child -/
def chainLength (elen : Int → Rat) : List Int → Rat
  | [] => 0
  | _ :: rest => rest.foldl (fun a i => a + elen i) 0

def branches (pids : List Int) : List (List Int) := Branches.getBranches (rangeI pids.length) pids 0 (2 * pids.length + 2)
def paths (pids : List Int) : List (List Int) := Branches.getPaths (rangeI pids.length) pids 0 (2 * pids.length + 2)
def furcations (pids : List Int) : List Int := Branches.getFurcations (rangeI pids.length) pids 0 (2 * pids.length + 2)
def tips (pids : List Int) : List Int := Branches.getTips (rangeI pids.length) pids

def branchLengths (pids : List Int) (elen : Int → Rat) : List Rat := (branches pids).map (chainLength elen)
def pathLengths (pids : List Int) (elen : Int → Rat) : List Rat := (paths pids).map (chainLength elen)

/-- `LMeasure.path_distance(node)`: walk to the root adding the edge lengths -/
def pathDistance (pids : List Int) (elen : Int → Rat) : Nat → Int → Rat
  | 0, _ => 0
  | f+1, i => match pids.getD i.toNat (-1) with
    | -1 => 0
    | p => elen i + pathDistance pids elen f p

/-- `LMeasure.branch_order(node)`: furcations on the way to the root, the node itself and the root included -/
def branchOrder (pids : List Int) : Nat → Int → Nat
  | 0, _ => 0
  | f+1, i =>
    (if Sub.isFurcation pids i then 1 else 0) +
    (match pids.getD i.toNat (-1) with
      | -1 => 0
      | p => branchOrder pids f p)

/-- `LMeasure.terminal_degree(node)`: tips of the subtree at the node -/
def terminalDegree (pids : List Int) (i : Int) : Nat :=
  match Sub.getSubtree pids i with
  | some s => (s.mapping.filter fun v => !pids.contains v).length
  | none => 0

/-- `LMeasure.n_stems`: children of the soma -/
def nStems (pids : List Int) : Nat := (pids.filter (· = 0)).length

/-- `Sholl.intersect(r)` on the radial distances of the two ends of every segment (compared through their squares) -/
def shollCount (pids : List Int) (rad2 : Int → Rat) (r2 : Rat) : Nat :=
  (((rangeI pids.length).drop 1).filter fun i =>
    let a := rad2 (pids.getD i.toNat 0); let b := rad2 i
    (decide (a ≤ r2) && decide (b > r2)) || (decide (b ≤ r2) && decide (a > r2))).length

/-- `LMeasure.contraction(branch)` = straight-line distance / path length; `fragmentation` = number of edges -/
def fragmentation (b : List Int) : Nat := b.length - 1

/-- `padding1d(n, v)`: zero-padded (or truncated) row -/
def pad (n : Nat) (v : List Rat) : List Rat := (v ++ List.replicate n 0).take n
/-- `PopulationFeatureExtractor._get_impl`: one zero-padded row per tree -/
def stackRows (vals : List (List Rat)) : List (List Rat) :=
  let m := vals.foldl (fun a v => max a v.length) 0
  vals.map (pad m)

/-! ## driver: `feat pids= elen= [rad2= r2=] what=…` -/
def handle (args : List String) : String :=
  match Proto.argInts args "pids", (Proto.arg args "elen").bind rats, Proto.arg args "what" with
  | some pids, some el, some what =>
    let elen : Int → Rat := fun i => el.getD i.toNat 0
    match what with
    | "length" => showRat (treeLength pids elen)
    | "branch_length" => showRats (branchLengths pids elen)
    | "path_length" => showRats (pathLengths pids elen)
    | "counts" => s!"{pids.length} {(tips pids).length} {(furcations pids).length} {(branches pids).length} {(paths pids).length} {nStems pids}"
    | "path_distance" => showRats ((rangeI pids.length).map (pathDistance pids elen (pids.length + 1)))
    | "branch_order" => Proto.showNats ((rangeI pids.length).map (branchOrder pids (pids.length + 1)))
    | "terminal_degree" => Proto.showNats ((rangeI pids.length).map (terminalDegree pids))
    | "sholl" =>
      match (Proto.arg args "rad2").bind rats, (Proto.arg args "r2").bind rats with
      | some rd, some rs => Proto.showNats (rs.map (shollCount pids (fun i => rd.getD i.toNat 0)))
      | _, _ => "bad-args"
    | _ => "bad-op"
  | _, _, _ => "bad-args"
end Feat
