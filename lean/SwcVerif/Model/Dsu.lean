import SwcVerif.Model.Basic
/-! Models for C18:
* `swcgeom.utils.dsu.DisjointSetUnion` (recursive `find_parent` with full path compression, union by rank),
* `checker.has_cyclic`, `checker.is_bifurcate`, `base.get_dsu` (pointer jumping), `checker.is_single_root`,
* `normalizer.mark_roots_as_somas_`, `link_roots_to_nearest_`.

Dictionaries / arrays of the DSU are functions with a point update (one-line frame lemmas); the
pointer-jumping array is a list. -/
namespace Dsu

def updN (f : Nat → Nat) (k v : Nat) : Nat → Nat := fun j => if j = k then v else f j

/-- `find_parent` with fuel: `if x != p[x]: p[x] = find(p[x]); return p[x]`; returns the new parent
table and the root.  The fuel is a bound on the rank (see `D.b`); it never runs out under the invariant. -/
def find : Nat → (Nat → Nat) → Nat → (Nat → Nat) × Nat
  | 0, par, x => (par, par x)
  | f+1, par, x =>
    if par x = x then (par, x)
    else
      let r := find f par (par x)
      (updN r.1 x r.2, r.2)

structure D where
  n    : Nat
  par  : Nat → Nat
  rank : Nat → Nat
  b    : Nat            -- ghost: number of rank increments so far (≥ every rank); only supplies fuel

/-- `DisjointSetUnion(node_number=n)` -/
def init (n : Nat) : D := ⟨n, fun i => i, fun _ => 0, 0⟩

def valid (d : D) (x : Nat) : Bool := x < d.n

/-- `union_sets(a, b)` (the caller passes valid nodes; the `assert` is `unionChecked`) -/
def union (d : D) (a b : Nat) : D :=
  let fa := find (d.b + 1) d.par a
  let fb := find (d.b + 1) fa.1 b
  let ra := fa.2
  let rb := fb.2
  let par := fb.1
  if ra = rb then { d with par := par }
  else if d.rank ra < d.rank rb then { d with par := updN par ra rb }
  else if d.rank ra > d.rank rb then { d with par := updN par rb ra }
  else { d with par := updN par rb ra, rank := updN d.rank ra (d.rank ra + 1), b := d.b + 1 }

/-- `is_same_set(a, b)`: the answer and the (path-compressed) new state -/
def same (d : D) (a b : Nat) : Bool × D :=
  let fa := find (d.b + 1) d.par a
  let fb := find (d.b + 1) fa.1 b
  (fa.2 == fb.2, { d with par := fb.1 })

inductive Op where
  | union (a b : Nat)
  | same (a b : Nat)
deriving Repr

/-- one public operation; `none` = AssertionError / IndexError (invalid node) -/
def stepOp (d : D) : Op → Option (D × Option Bool)
  | .union a b => if valid d a && valid d b then some (union d a b, none) else none
  | .same a b => if valid d a && valid d b then let r := same d a b; some (r.2, some r.1) else none

/-- run a script, collecting the answers of the `same` queries (stops at the first invalid op) -/
def runOps : D → List Op → List (Option Bool)
  | _, [] => []
  | d, op :: ops => match stepOp d op with
    | none => [none]
    | some (d', ans) => (match op with | .same .. => [ans] | _ => []) ++ runOps d' ops

/-! ## checkers -/

/-- `has_cyclic((ids, pids))`: rows in order; skip roots; `True` as soon as a row joins two already
connected nodes.  `none` = the ids are not `0..n-1`-valid DSU nodes (IndexError / AssertionError). -/
def hasCyclicLoop : D → List Int → List Int → Option Bool
  | _, [], _ => some false
  | _, _ :: _, [] => some false
  | d, a :: as, b :: bs =>
    if b = -1 then hasCyclicLoop d as bs
    else if a < 0 || b < 0 || !valid d a.toNat || !valid d b.toNat then none
    else
      let r := same d a.toNat b.toNat
      if r.1 then some true
      else hasCyclicLoop (union r.2 a.toNat b.toNat) as bs

def hasCyclic (ids pids : List Int) : Option Bool := hasCyclicLoop (init ids.length) ids pids

/-- `is_bifurcate((ids, pids), exclude_root=…)` -/
def isBifurcate (ids pids : List Int) (excludeRoot : Bool) : Bool :=
  let roots := tableKids ids pids (-1)
  pids.all fun k => k = -1 || (excludeRoot && roots.contains k) || (tableKids ids pids k).length ≤ 2

/-- `id2idx[i]` -/
def idxOf? (ids : List Int) (i : Int) : Option Nat :=
  let k := ids.idxOf i
  if k < ids.length then some k else none

/-- initial pointer array of `get_dsu`: row ↦ row of its parent (itself for a root); `none` = KeyError -/
def dsuInit (ids pids : List Int) : Option (List Nat) :=
  (List.zip ids pids).mapM fun ip => idxOf? ids (if ip.2 = -1 then ip.1 else ip.2)

/-- one `for i, p in enumerate(dsu)` pass, in place; returns (array, flag) -/
def jumpPass (dsu : List Nat) : List Nat × Bool :=
  (List.range dsu.length).foldl (fun (acc : List Nat × Bool) i =>
    let p := acc.1.getD i 0
    let pp := acc.1.getD p 0
    if p ≠ pp then (acc.1.set i pp, false) else acc) (dsu, true)

/-- `while True: … if flag: break` with fuel -/
def jumpLoop : Nat → List Nat → Option (List Nat)
  | 0, _ => none
  | f+1, dsu => let r := jumpPass dsu; if r.2 then some r.1 else jumpLoop f r.1

def getDsu (ids pids : List Int) : Option (List Nat) :=
  (dsuInit ids pids).bind (jumpLoop (ids.length * ids.length + 2))

/-- `is_single_root`: `len(np.unique(get_dsu(df))) == 1` -/
def isSingleRoot (ids pids : List Int) : Option Bool :=
  (getDsu ids pids).map fun l => l.eraseDups.length == 1

/-! ## root repair -/

def firstRootLoc : List Int → Nat
  | [] => 0
  | p :: ps => if p = -1 then 0 else firstRootLoc ps + 1

/-- `mark_roots_as_somas_`: every root's parent becomes the first root's id, then the first root's
parent is restored; the type update `np.where(pid != -1, type, update_type)` is evaluated when NO
parent is -1 any more, so no type changes (modelled as written) -/
def markRootsAsSomas (ids pids types : List Int) (updateType : Option Int) : List Int × List Int :=
  let loc := firstRootLoc pids
  let rootId := ids.getD loc 0
  let pids1 := pids.map (fun p => if p ≠ -1 then p else rootId)
  let types1 := match updateType with
    | some t => (List.zip pids1 types).map (fun pt => if pt.1 ≠ -1 then pt.2 else t)
    | none => types
  (pids1.set loc (-1), types1)

/-- first index of the minimum of a list of optional costs (`none` = `inf`), as `np.argmin`: the first
minimum; all-`inf` gives 0 -/
def argminOpt (l : List (Option Int)) : Nat :=
  let best := l.foldl (fun (acc : Option Int) x => match acc, x with
    | none, x => x
    | some a, some b => if b < a then some b else some a
    | some a, none => some a) none
  match best with
  | none => 0
  | some m => l.idxOf (some m)

/-- `link_roots_to_nearest_`: for every root but the first (row order): distances to all rows, rows of
the same component masked, link to the first nearest, merge labels.  `dist2 i j` = squared distance. -/
def linkLoop (ids : List Int) (dist2 : Nat → Nat → Int) : List Nat → List Int → List Nat → List Int
  | [], pids, _ => pids
  | i :: rest, pids, dsu =>
    let lab := dsu.getD i 0
    let dis : List (Option Int) := (List.range ids.length).map fun j => if dsu.getD j 0 = lab then none else some (dist2 i j)
    let k := argminOpt dis
    let newLab := dsu.getD k 0
    let dsu' := dsu.map fun l => if l = lab then newLab else l
    linkLoop ids dist2 rest (pids.set i (ids.getD k 0)) dsu'

def linkRootsToNearest (ids pids : List Int) (dist2 : Nat → Nat → Int) : Option (List Int) :=
  (getDsu ids pids).map fun dsu =>
    let roots := (List.range pids.length).filter (fun k => pids.getD k 0 = -1)
    linkLoop ids dist2 (roots.drop 1) pids dsu

/-! ## driver ops -/
def parseOps (s : String) : Option (List Op) :=
  (s.splitOn ";").filter (· ≠ "") |>.mapM fun t =>
    match t.splitOn ":" with
    | ["u", a, b] => do some (.union (← a.toNat?) (← b.toNat?))
    | ["s", a, b] => do some (.same (← a.toNat?) (← b.toNat?))
    | _ => none

def showOB : Option Bool → String
  | none => "E" | some true => "T" | some false => "F"

/-- `dsu n=<k> ops=u:a:b;s:a:b;…` → answers of the queries -/
def handleDsu (args : List String) : String :=
  match Proto.argNat args "n", (Proto.arg args "ops").bind parseOps with
  | some n, some ops => "".intercalate ((runOps (init n) ops).map showOB)
  | _, _ => "bad-args"

def handleCheck (what : String) (args : List String) : String :=
  match Proto.argInts args "ids", Proto.argInts args "pids" with
  | some ids, some pids =>
    match what with
    | "hascyclic" => showOB (hasCyclic ids pids)
    | "bifurcate" => showOB (some (isBifurcate ids pids (Proto.argNat args "excl" = some 1)))
    | "singleroot" => showOB (isSingleRoot ids pids)
    | "getdsu" => match getDsu ids pids with | none => "E" | some l => Proto.showNats l
    | "somas" =>
      let tys := (Proto.argInts args "types").getD []
      let r := markRootsAsSomas ids pids tys (Proto.argInt args "ut")
      s!"{Proto.showInts r.1} / {Proto.showInts r.2}"
    | "nearest" =>
      match Proto.argInts args "x", Proto.argInts args "y", Proto.argInts args "z" with
      | some xs, some ys, some zs =>
        let d2 := fun (i j : Nat) =>
          let dx := xs.getD i 0 - xs.getD j 0; let dy := ys.getD i 0 - ys.getD j 0; let dz := zs.getD i 0 - zs.getD j 0
          dx * dx + dy * dy + dz * dz
        match linkRootsToNearest ids pids d2 with
        | none => "E"
        | some p => Proto.showInts p
      | _, _, _ => "bad-args"
    | _ => "bad-op"
  | _, _ => "bad-args"
end Dsu
