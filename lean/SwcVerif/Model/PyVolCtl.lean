import SwcVerif.Model.Py
import SwcVerif.Model.PyResample
/-! Semantics of the Python / numpy idioms the closed-form volume control flow uses (`harness/algo_specs/47_volctl.py`, generated module
`Gen/AlgoVolCtl.lean`).  Floats are values of a numeric type parameter `K`.  No Mathlib. -/
namespace Py.VC
variable {K : Type}

/-- `abs(x)` on a float: `-x` (as `0 - x`) when `x < 0`, else `x` -/
def absK [Sub K] [OfNat K 0] [LT K] [DecidableLT K] (x : K) : K := if x < 0 then 0 - x else x

/-- `min(a, b)` on two floats (Python: the FIRST of the smallest: `b` only when `b < a`) -/
def minK [LT K] [DecidableLT K] (a b : K) : K := if b < a then b else a

/-- `max(a, b)` on two floats (Python: `b` only when `b > a`) -/
def maxK [LT K] [DecidableLT K] (a b : K) : K := if a < b then b else a

/-- `-x` on a float -/
def negK [Sub K] [OfNat K 0] (x : K) : K := 0 - x

/-- `x == y` on floats (no nan in `K`): neither is smaller -/
def eqK [LT K] [DecidableLT K] (x y : K) : Bool := decide (¬ x < y ∧ ¬ y < x)

/-- `np.dot(a, b)` of two 1-d float arrays of the same length (unequal lengths raise) -/
def dot [Add K] [Mul K] [OfNat K 0] (a b : List K) : Option K :=
  if a.length = b.length then some ((List.zipWith (fun x y => x * y) a b).foldl (fun acc x => acc + x) 0) else none

/-- `a + b` on two 1-d float arrays of the same length -/
def addArr [Add K] (a b : List K) : Option (List K) :=
  if a.length = b.length then some (List.zipWith (fun x y => x + y) a b) else none

/-- `c * a` for a float scalar and a 1-d float array -/
def scale [Mul K] (c : K) (a : List K) : List K := a.map fun x => c * x

/-- `a / c` for a 1-d float array and a float scalar (`c = 0` would give `inf` / `nan`: raises) -/
def divScalar [Sub K] [OfNat K 0] [LT K] [DecidableLT K] [Py.Fld K] (a : List K) (c : K) : Option (List K) :=
  if c < 0 ∨ 0 < c then some (a.map fun x => Py.Fld.div x c) else none

/-- `-a` on a 1-d float array -/
def negArr [Sub K] [OfNat K 0] (a : List K) : List K := a.map fun x => 0 - x

/-- `np.cross(a, b)` of two 3-vectors (other shapes are not modelled: raises) -/
def cross [Sub K] [Mul K] : List K → List K → Option (List K)
  | [a0, a1, a2], [b0, b1, b2] => some [a1 * b2 - a2 * b1, a2 * b0 - a0 * b2, a0 * b1 - a1 * b0]
  | _, _ => none

/-- `max(xs, key=lambda x: x[0])`: the FIRST element whose first component is the largest (a later one wins only when strictly larger);
the empty list raises -/
def maxByFst {α : Type} [LT K] [DecidableLT K] : List (K × α) → Option (K × α)
  | [] => none
  | x :: xs => some (xs.foldl (fun best y => if best.1 < y.1 then y else best) x)

end Py.VC
