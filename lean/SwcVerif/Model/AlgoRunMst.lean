import SwcVerif.Gen.AlgoMst
import SwcVerif.Model.Mst
/-! Driver side of the imperative translator for C17 (see `AlgoRunSort.lean`): the GENERATED greedy loop of
`PointsToCuntzMST.__call__` is run at `K = Rat` on the same protocol lines as the hand-written model `Mst.mst`. -/
namespace AlgoRun
open Gen.Algo

/-- `gmst bf=<rat> k=<-1|k> ex=0|1 d=<row;row;…>` → the parent array the GENERATED loop leaves behind (`E` = any exception);
same encoding of the distance matrix as the model op `mst` -/
def handleMst (args : List String) : String :=
  match Proto.arg args "d", (Proto.arg args "bf").bind Resample.rat?, Proto.argInt args "k", Proto.argNat args "ex" with
  | some d, some bf, some k, some ex =>
    match ((d.splitOn ";").filter (· ≠ "")).mapM Resample.rats with
    | none => "bad-args"
    | some dis =>
      match mst_loop (K := Rat) (dis.length : Int) dis bf k (ex = 1) with
      | none => "E"
      | some r => Proto.showInts r.1
  | _, _, _, _ => "bad-args"

end AlgoRun
