import SwcVerif.Model.Py
import SwcVerif.Model.PyResample
/-! Semantics added for `swcgeom/transforms/image_stack.py` (`harness/algo_specs/18_raster.py`, Gen/AlgoRaster.lean): the numpy idioms of the
bounding box of `ToImageStack.transform` (`np.min(·, axis=0)`, `np.floor`, element-wise `+` of 1-d float arrays, an array divided by a scalar),
`abs` on floats, and the two opaque record types of `sdflit` the code builds: `RangeSampler(lo, hi, stride)` and the solids `Sphere(c, r)` /
`RoundCone(a, b, ra, rb)` (after `.into()`; one material, dropped).  Mathlib-free.  Float arrays are arrays over the numeric type parameter `K`
(`Model/PyResample.lean`: `Py.Fld K` = `/`, `float(int)`, `ceil`); the floor is the additional structure `Py.Flr K`. -/
namespace Py

/-- the floor of a float type (`np.floor`) -/
class Flr (K : Type) where
  floor : K → Int

instance ratFlr : Flr Rat := ⟨Rat.floor⟩

/-- `sdflit.RangeSampler(lo, hi, stride)`: the record of its three arguments -/
structure RangeSampler (K : Type) where
  lo : K × K × K
  hi : K × K × K
  stride : K × K × K
deriving Repr, Inhabited, DecidableEq

/-- the solids `_get_scene` hands to the scene: `Sphere(c, r).into()`, `RoundCone(a, b, ra, rb).into()` -/
inductive Sdf (K : Type) where
  | sphere (c : K × K × K) (r : K)
  | cone (a b : K × K × K) (ra rb : K)
deriving Repr, Inhabited, DecidableEq

variable {K : Type}

section num
variable [Add K] [Sub K] [Mul K] [OfNat K 0] [OfNat K 1] [LT K] [DecidableLT K] [LE K] [DecidableLE K]

/-- `abs(x)` on a float -/
def absK (x : K) : K := if x < 0 then 0 - x else x

/-- `np.floor(a)` on a 1-d float array (the result is a float array) -/
def floorArr [Fld K] [Flr K] (a : List K) : List K := a.map fun x => Fld.ofInt (Flr.floor x)
/-- `np.ceil(a)` on a 1-d float array -/
def ceilArr [Fld K] (a : List K) : List K := a.map fun x => Fld.ofInt (Fld.ceil x)

/-- the smaller / larger of two floats the way a running minimum / maximum takes them -/
def minK (a b : K) : K := if b < a then b else a
def maxK (a b : K) : K := if a < b then b else a

/-- `np.min(m, axis=0)` / `np.max(m, axis=0)` of a 2-d array given by its rows: the column-wise extremum; no row (a zero-size array has no
identity) or rows of different lengths (not a 2-d array) raise -/
def reduceAxis0 (f : K → K → K) (m : List (List K)) : Option (List K) :=
  match m with
  | [] => none
  | r :: rs => if rs.all (fun r' => r'.length = r.length) then some (rs.foldl (fun acc row => List.zipWith f acc row) r) else none
def minAxis0 (m : List (List K)) : Option (List K) := reduceAxis0 minK m
def maxAxis0 (m : List (List K)) : Option (List K) := reduceAxis0 maxK m

/-- `a + b` on 1-d float arrays: equal lengths, or one of them a single element (broadcast); anything else raises -/
def addArr (a b : List K) : Option (List K) :=
  if a.length = b.length then some (List.zipWith (· + ·) a b) else
  match a, b with
  | [x], _ => some (b.map fun y => x + y)
  | _, [y] => some (a.map fun x => x + y)
  | _, _ => none

/-- `a / c` for a 1-d float array and a scalar (`c = 0` would give `inf` / `nan`: raises, as `Py.fdiv`) -/
def divScalar [Fld K] (a : List K) (c : K) : Option (List K) := mapOpt (fun x => fdiv x c) a

end num
end Py
