import SwcVerif.Gen.AlgoTravFront
import SwcVerif.Model.Traverse
/-! Driver side of `Gen/AlgoTravFront.lean`: the three public entry points above `_traverse_dfs` (`swc_utils.traverse`, `Tree.traverse`,
`Tree.Node.traverse`) as GENERATED from the current sources, run with the logging callbacks of `Model/Traverse.lean` on the same protocol
lines as the real functions. -/
namespace AlgoRun
open Gen.Algo

private def showRun {R : Type} (r : Option (List Trav.Ev × R)) (ret : R → String) : String :=
  match r with
  | none => "E"
  | some (log, x) => s!"{" ".intercalate (log.reverse.map Trav.Ev.show)} ret={ret x}"

/-- `gtravfront api=base|tree|node given=e|l|el ids=.. pids=.. [root=r]` → call log and return value of the GENERATED entry point with the
callbacks given (`root` absent = the keyword is not passed); `E` = an exception -/
def handleTravFront (args : List String) : String :=
  match Proto.arg args "api", Proto.arg args "given", Proto.argInts args "ids", Proto.argInts args "pids" with
  | some api, some given, some ids, some pids =>
    let fuel := 2 * ids.length + 3
    let s0 : List Trav.Ev := []
    let e := Trav.logEnter
    let l := Trav.logLeave
    let u : Unit → String := fun _ => "None"
    let k : Int → String := toString
    match api, given, Proto.argInt args "root" with
    | "base", "e", none => showRun (traverse_e e fuel (ids, pids) s0) u
    | "base", "l", none => showRun (traverse_l l fuel (ids, pids) s0) k
    | "base", "el", none => showRun (traverse_el e l fuel (ids, pids) s0) k
    | "base", "e", some r => showRun (traverse_e_r e fuel (ids, pids) r s0) u
    | "base", "l", some r => showRun (traverse_l_r l fuel (ids, pids) r s0) k
    | "base", "el", some r => showRun (traverse_el_r e l fuel (ids, pids) r s0) k
    | "tree", "e", none => showRun (tree_traverse_e e fuel ids pids s0) u
    | "tree", "l", none => showRun (tree_traverse_l l fuel ids pids s0) k
    | "tree", "el", none => showRun (tree_traverse_el e l fuel ids pids s0) k
    | "tree", "e", some r => showRun (tree_traverse_e_r e fuel ids pids r s0) u
    | "tree", "l", some r => showRun (tree_traverse_l_r l fuel ids pids r s0) k
    | "tree", "el", some r => showRun (tree_traverse_el_r e l fuel ids pids r s0) k
    | "node", "e", some r => showRun (node_traverse_e e fuel ids pids r s0) u
    | "node", "l", some r => showRun (node_traverse_l l fuel ids pids r s0) k
    | "node", "el", some r => showRun (node_traverse_el e l fuel ids pids r s0) k
    | _, _, _ => "bad-args"
  | _, _, _, _ => "bad-args"

end AlgoRun
