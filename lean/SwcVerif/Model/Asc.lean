import SwcVerif.Model.SwcText
/-! Model of `swcgeom/transforms/neurolucida_asc.py` (ASCII documents): character-level `Lexer`,
token-level recursive-descent `Parser` (`_parse`, `_parse_tree`, `_parse_subtree` with its `flag`,
`_parse_split`, `_parse_node`, `_parse_color`, `_parse_comment`) and the node table that
`from_ast` / `walk_ast` produce.

Modelling decisions (recorded in the trusted base): the AST is not materialised — a point becomes a row
as soon as `_parse_node` creates it, with parent = the AST node it is attached to (ids are creation
order = the pre-order `walk_ast` assigns, because a node only receives children while it is `current`
or the `root` of the running `_parse_subtree`); numbers are kept exactly (`SwcText.Sci`); a FLOAT-looking
word that `float()` rejects makes the token stream end in `bad` (the exception surfaces when the parser
reads it). -/
namespace Asc
open SwcText (Str Sci floatPrefix)

inductive Tok where
  | lp | rp | bar
  | comment (text : Str)
  | float (v : Sci)
  | literal (w : Str)
  | bad                      -- `float(word)` raised
deriving Repr, DecidableEq, Inhabited

def isSpace (c : Char) : Bool := c = ' ' || c = '\t' || c = '\n'
def isDelim (c : Char) : Bool := isSpace c || c = '(' || c = ')' || c = ';' || c = '|'
def isDig (c : Char) : Bool := SwcText.isDig c

/-- `RE_FLOAT.match(word) is not None` (a PREFIX match of `[-+]?[0-9]*\.?[0-9]+…`) -/
def looksFloat (w : Str) : Bool :=
  let body := match w with
    | '+' :: t => t
    | '-' :: t => t
    | t => t
  match body with
  | c :: rest => isDig c || (c = '.' && match rest with | d :: _ => isDig d | [] => false)
  | [] => false

def classify (w : Str) : Tok :=
  if looksFloat w then
    match floatPrefix w with
    | some (v, []) => .float v
    | _ => .bad
  else .literal w

def takeWord : Str → Str × Str
  | [] => ([], [])
  | c :: cs => if isDelim c then ([], c :: cs) else ((c :: (takeWord cs).1), (takeWord cs).2)
def skipSpaces : Str → Str
  | [] => []
  | c :: cs => if isSpace c then skipSpaces cs else c :: cs
def takeLine : Str → Str × Str       -- text up to the newline, rest after it
  | [] => ([], [])
  | c :: cs => if c = '\n' then ([], cs) else ((c :: (takeLine cs).1), (takeLine cs).2)

/-- the token stream of `Lexer` (fuel = number of characters + 1) -/
def lex : Nat → Str → List Tok
  | 0, _ => []
  | f+1, s =>
    let s := skipSpaces s
    let wr := takeWord s
    if !wr.1.isEmpty then classify wr.1 :: lex f wr.2
    else match wr.2 with
      | [] => []
      | '(' :: t => .lp :: lex f t
      | ')' :: t => .rp :: lex f t
      | '|' :: t => .bar :: lex f t
      | ';' :: t => let lr := takeLine t; .comment lr.1 :: lex f lr.2
      | _ :: t => lex f t          -- unreachable: the head is a delimiter

def tokens (s : Str) : List Tok := lex (s.length + 1) s

/-! ## parser -/
inductive Err where
  | eof | tokenType | literal | lexError | fuel
deriving Repr, DecidableEq

structure Row where
  type : Int
  x : Sci
  y : Sci
  z : Sci
  r : Sci
  pid : Int
deriving Repr, DecidableEq

/-- `_read_token()`: drop the current token; the lexer raises if the next word is a bad float -/
def adv : List Tok → Except Err (List Tok)
  | [] => .ok []
  | _ :: rest => match rest with
    | .bad :: _ => .error .lexError
    | _ => .ok rest

/-- `_assert_and_cunsume(type)` for the three structural token kinds -/
def expectRp : List Tok → Except Err (List Tok)
  | [] => .error .eof
  | .rp :: rest => adv (.rp :: rest)
  | _ => .error .tokenType
def expectLp : List Tok → Except Err (List Tok)
  | [] => .error .eof
  | .lp :: rest => adv (.lp :: rest)
  | _ => .error .tokenType

def upper (w : Str) : Str := w.map Char.toUpper

/-- `_parse_node`: `FLOAT FLOAT FLOAT FLOAT )` -/
def parseNode (toks : List Tok) : Except Err ((Sci × Sci × Sci × Sci) × List Tok) :=
  match toks with
  | .float a :: _ => do
    let t1 ← adv toks
    match t1 with
    | .float b :: _ => do
      let t2 ← adv t1
      match t2 with
      | .float c :: _ => do
        let t3 ← adv t2
        match t3 with
        | .float d :: _ => do
          let t4 ← adv t3
          let t5 ← expectRp t4
          pure ((a, b, c, d), t5)
        | [] => .error .eof
        | _ => .error .tokenType
      | [] => .error .eof
      | _ => .error .tokenType
    | [] => .error .eof
    | _ => .error .tokenType
  | [] => .error .eof
  | _ => .error .tokenType

/-- `_parse_color`: `COLOR <literal> )` -/
def parseColor (toks : List Tok) : Except Err (List Tok) :=
  match toks with
  | .literal _ :: _ => do
    let t1 ← adv toks
    match t1 with
    | .literal _ :: _ => do
      let t2 ← adv t1
      expectRp t2
    | [] => .error .eof
    | _ => .error .tokenType
  | [] => .error .eof
  | _ => .error .tokenType

/-- `_parse_subtree(root, flag)` — one `while` iteration per call; `_parse_split` is the recursive call followed by
the closing bracket.  `flag = false` ⇔ an opening bracket has been consumed that still has to turn out to open
a point, a marker or a split.  `root`/`cur` are row ids (`-1` = the TREE node). -/
def parseSubtree (ty : Int) : Nat → List Tok → Bool → Int → Int → List Row → Except Err (List Tok × List Row)
  | 0, _, _, _, _, _ => .error .fuel
  | f+1, toks, flag, root, cur, rows =>
    match toks with
    | [] => .ok ([], rows)
    | .lp :: _ => do
      let t1 ← adv toks
      if flag then parseSubtree ty f t1 false root cur rows
      else do
        -- `( (`: `_parse_split(current, flag=False)` — the second bracket is the pending one of the first point
        let r ← parseSubtree ty f t1 false cur cur rows
        let t2 ← expectRp r.1
        parseSubtree ty f t2 true root cur r.2
    | .rp :: _ =>
      if flag then .ok (toks, rows)
      else do
        let t1 ← adv toks
        parseSubtree ty f t1 true root cur rows
    | .float _ :: _ =>
      if flag then .error .tokenType          -- a point without its opening bracket
      else do
      let nr ← parseNode toks
      let (x, y, z, r) := nr.1
      parseSubtree ty f nr.2 true root (rows.length : Int) (rows ++ [⟨ty, x, y, z, r, cur⟩])
    | .literal w :: _ =>
      if upper w = "COLOR".toList then do
        let t1 ← parseColor toks
        parseSubtree ty f t1 true root cur rows
      else .error .literal
    | .bar :: _ =>
      if flag then do
        let t1 ← adv toks
        parseSubtree ty f t1 true root root rows
      else do
        let r ← parseSubtree ty f toks true cur cur rows
        let t2 ← expectRp r.1
        parseSubtree ty f t2 true root cur r.2
    | .comment _ :: _ => do
      let t1 ← adv toks
      parseSubtree ty f t1 flag root cur rows
    | .bad :: _ => .error .lexError

def skipComments : Nat → List Tok → Except Err (List Tok)
  | 0, _ => .error .fuel
  | f+1, toks => match toks with
    | .comment _ :: _ => do
      let t ← adv toks
      skipComments f t
    | _ => .ok toks

/-- the `while` loop of `_parse` (after the opening bracket) -/
def parseTop : Nat → List Tok → List Row → Except Err (List Tok × List Row)
  | 0, _, _ => .error .fuel
  | f+1, toks, rows =>
    match toks with
    | [] => .ok ([], rows)
    | .comment _ :: _ => do
      let t ← adv toks
      parseTop f t rows
    | .rp :: _ => .ok (toks, rows)
    | .lp :: _ => do
      let t1 ← adv toks
      match t1 with
      | [] => .error .eof
      | .literal w :: _ =>
        let u := upper w
        if u = "AXON".toList || u = "DENDRITE".toList then do
          -- `_parse_tree`: label, `)`, comments, `(`, subtree
          let t2 ← adv t1
          let t3 ← expectRp t2
          let t4 ← skipComments f t3
          let t5 ← expectLp t4
          let ty : Int := if u = "AXON".toList then Gen.Consts.type_axon else Gen.Consts.type_basal_dendrite
          let r ← parseSubtree ty f t5 false (-1) (-1) rows      -- `t3` opened the first point
          parseTop f r.1 r.2
        else if u = "COLOR".toList then do
          let t2 ← parseColor t1
          parseTop f t2 rows
        else .error .literal
      | _ => .error .tokenType
    | _ => .error .tokenType

/-- `Parser(...).parse()` + `from_ast`: the node table (ids = positions) or an error -/
def convertTokens (toks : List Tok) : Except Err (List Row) :=
  match toks with
  | .bad :: _ => .error .lexError
  | _ => do
    let fuel := 2 * toks.length + 4     -- never runs out: `RefineAscFuel.convertWith_nofuel` (with `length + 2` it did, on `( | ( | …`)
    let t0 ← skipComments fuel toks
    let t1 ← expectLp t0
    let r ← parseTop fuel t1 []
    match r.1 with
    | [] => .error .eof
    | .rp :: _ => do
      let _ ← adv r.1
      pure r.2
    | _ => .error .tokenType

def convert (s : Str) : Except Err (List Row) := convertTokens (tokens s)

/-! ## driver -/
def showTok : Tok → String
  | .lp => "(" | .rp => ")" | .bar => "|" | .bad => "BAD"
  | .comment t => ";" ++ SwcText.showCpsOrUnderscore t
  | .float v => "F" ++ SwcText.showSci v
  | .literal w => "L" ++ SwcText.toCps w

def showRow (r : Row) : String :=
  s!"{r.type} {SwcText.showSci r.x} {SwcText.showSci r.y} {SwcText.showSci r.z} {SwcText.showSci r.r} {r.pid}"

/-- `asc cp=…` → `ok | row | row…` or `error`; `asclex cp=…` → tokens -/
def handle (what : String) (args : List String) : String :=
  match Proto.argInts args "cp" with
  | none => "bad-args"
  | some cp =>
    let s := SwcText.ofCps cp
    if what = "asclex" then " ".intercalate ((tokens s).map showTok)
    else match convert s with
      | .error _ => "error"
      | .ok rows => "ok" ++ String.join (rows.map (fun r => " | " ++ showRow r))
end Asc
