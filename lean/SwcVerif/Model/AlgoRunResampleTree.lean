import SwcVerif.Gen.AlgoResampleTree
import SwcVerif.Model.AlgoRunAssemble
import SwcVerif.Model.Resample
/-! Driver side of the imperative translator for the TREE-level drivers of C16 (see `AlgoRunSort.lean`): the GENERATED
`Resampler.__call__` and `TreeSmoother.__call__` (Gen/AlgoResampleTree.lean, which call the generated `BranchTree.from_tree`,
`BranchTreeAssembler.__call__`, `Tree.get_branches`, `BranchConvSmoother.__call__`) are run on the tree the real transform was handed. -/
namespace AlgoRun
open Gen.Algo

/-- `gresamtree op=resample ids=.. pids=..` (the columns of the ORIGINAL tree) `blen=..` (the number of samples of the branch the library's
branch resampler returned at its 1st, 2nd, … call) `pb=.. pc=.. s=.. e=..` (as for `gasm`: the pairing the library's `pair` returned and
the two duplicate tests, per branch in call order) → `ids / pids / calls of pair / calls of the branch resampler` of the GENERATED
`Resampler.__call__`;
`gresamtree op=smooth ids=.. pids=.. x=.. y=.. z=.. k=..` → the columns `x / y / z` after the GENERATED `TreeSmoother.__call__`
(window `np.ones(k)`, at `K = Rat`).  `E` = any exception. -/
def handleResamTree (args : List String) : String :=
  match Proto.arg args "op", Proto.argInts args "ids", Proto.argInts args "pids" with
  | some "resample", some ids, some pids =>
    match Proto.argInts args "blen", Proto.argInts args "pb", Proto.argInts args "pc", Proto.argInts args "s", Proto.argInts args "e" with
    | some blen, some pb, some pc, some fs, some fe =>
      let brs := asmBranches blen
      let table : List ((List Int) × Int) := (List.zip pb pc).map (fun p => (brs.getD p.1.toNat [], p.2))
      -- callback state: (calls of pair, calls of the resampler)
      let resample := fun (st : Nat × Nat) (_ : List Int) => ((st.1, st.2 + 1), brs.getD st.2 [])
      let pair := fun (st : Nat × Nat) (bs : List (List Int)) (cs : List Int) =>
        ((st.1 + 1, st.2), table.filter (fun p => bs.contains p.1 && cs.contains p.2))
      let flag := fun (fl : List Int) (br : List Int) => decide (fl.getD (brs.idxOf br) 0 = 1)
      match resam_tree resample pair (fun br _ => flag fs br) (fun br _ => flag fe br) (2 * ids.length + 3) ids pids (0, 0) with
      | none => "E"
      | some r => s!"{Proto.showInts r.2.1} / {Proto.showInts r.2.2} / {r.1.1} / {r.1.2}"
    | _, _, _, _, _ => "bad-args"
  | some "smooth", some ids, some pids =>
    match Resample.argRats args "x", Resample.argRats args "y", Resample.argRats args "z", Proto.argInt args "k" with
    | some x, some y, some z, some k =>
      if k < 0 then "E" else
      match smooth_tree (K := Rat) Py.ratFld (2 * ids.length + 3) ids pids x y z (List.replicate k.toNat 1) with
      | none => "E"
      | some (x', y', z', _) => " / ".intercalate [Resample.showRats x', Resample.showRats y', Resample.showRats z']
    | _, _, _, _ => "bad-args"
  | _, _, _ => "bad-args"

end AlgoRun
