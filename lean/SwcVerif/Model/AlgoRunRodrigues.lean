import SwcVerif.Gen.AlgoRodrigues
import SwcVerif.Model.AlgoRunAffine
import SwcVerif.Model.Basic
/-! Driver side of the imperative translator for C12 (T40 `rodrigues`): the GENERATED `rotate3d` (Rodrigues), `_to_homogeneous`,
`model_view_transformation`, `orthographic_projection_simple` of `swcgeom/utils/transforms.py` are run at `K = Float`. -/
namespace AlgoRun
open Gen.Algo

def showMat (m : List (List Float)) : String := Proto.showFloats m.flatten

/-- rows `a,b,c;d,e,f;…` -/
def rdRows (s : String) : Option (List (List Float)) :=
  ((s.splitOn ";").filter (· ≠ "")).mapM Proto.floats

/-- `grod n=nx,ny,nz[,…] theta=t` → the generated `rotate3d` (16 numbers, or `E`);
`ghom rows=x,y,z;… w=w` → the generated `_to_homogeneous` (shape `r c` then the entries, or `E`);
`gmview pos=.. look=.. up=.. ng=.. nt=..` → the generated `model_view_transformation`; `gortho` → `orthographic_projection_simple` -/
def handleRodrigues (op : String) (args : List String) : String :=
  let out (r : Option (List (List Float))) := match r with | none => "E" | some m => showMat m
  match op with
  | "grod" =>
    match Proto.argFloats args "n", Proto.argFloat args "theta" with
    | some n, some t => out (rd_rotate3d n (Float.cos t) (Float.sin t))
    | _, _ => "bad-args"
  | "ghom" =>
    match (Proto.arg args "rows").bind rdRows, Proto.argFloat args "w" with
    | some rows, some w => match rd_to_homogeneous2 rows w with
      | none => "E"
      | some m => s!"{m.length} {(m.headD []).length} " ++ showMat m
    | _, _ => "bad-args"
  | "gmview" =>
    match Proto.argFloats args "pos", Proto.argFloats args "look", Proto.argFloats args "up", Proto.argFloat args "ng",
          Proto.argFloat args "nt" with
    | some p, some l, some u, some ng, some nt => out (rd_model_view floatFld p l u ng nt)
    | _, _, _, _, _ => "bad-args"
  | "gortho" => out (rd_ortho_simple (K := Float))
  | _ => "bad-op"

end AlgoRun
