import SwcVerif.Model.Py
/-! Further idioms of the imperative translator's semantics library (`Model/Py.lean`), kept in a file of their own so that adding one
does not rebuild every module that depends on `Py.lean`.  A generated module imports this file when its group is listed in
`MODULE_MODEL_IMPORTS` of `harness/translate_algo.py`.  No Mathlib. -/
namespace Py

/-- no value occurs twice -/
def distinct : List Int → Bool
  | [] => true
  | x :: xs => !xs.contains x && distinct xs

/-- `np.setdiff1d(a, b, assume_unique=True)` = `a[~np.isin(a, b)]`: the values of `a` that do not occur in `b`, in the order of `a`
(nothing is sorted or deduplicated in this mode; `b` may repeat values).  What numpy returns when `a` repeats a value depends on the
algorithm it picks (sort / table / small-`b` loop), so that case is `none` here: no claim is made about it. -/
def setdiff1dUnique (a b : List Int) : Option (List Int) :=
  if distinct a then some (a.filter (fun x => !b.contains x)) else none

/-- Python `a / b` on ints: ZeroDivisionError for `b = 0`, otherwise the exact quotient, kept as the pair `(a, b)` (the float Python returns
is the correctly rounded value of that quotient; rounding is outside the model) -/
def truediv (a b : Int) : Option (Int × Int) := if b = 0 then none else some (a, b)

end Py
