import SwcVerif.Model.Basic
/-! Models for C16 over exact rationals (`Rat`): `np.interp`, `np.linspace`, `np.arange`,
`BranchIsometricResampler.resample`, `BranchLinearResampler.resample`, `BranchConvSmoother`,
`BranchTreeAssembler` (re-assembly of resampled branches). Segment lengths enter as data (no square root in
the model; generated polylines are axis-aligned lattice paths so the lengths are exact). -/
namespace Resample

/-- prefix sums `[0, ℓ₀, ℓ₀+ℓ₁, …]` (`np.concatenate([[0], np.cumsum(distances)])`) -/
def cumdist : List Rat → List Rat
  | [] => [0]
  | l :: ls => 0 :: (cumdist ls).map (· + l)

/-- `np.interp(x, xp, fp)` for one abscissa: clamp outside, else the segment `j` with `xp[j] ≤ x < xp[j+1]`
(the last such `j`, so zero-length segments are skipped — also at the very start) -/
def interp1 (xp fp : List Rat) (x : Rat) : Rat :=
  match xp, fp with
  | [], _ => 0
  | _, [] => 0
  | x0 :: xr, f0 :: fr =>
    if x < x0 then f0 else go x0 f0 xr fr
where
  go (xa fa : Rat) : List Rat → List Rat → Rat
    | xb :: xr, fb :: fr =>
      if x < xb then fa + (x - xa) * ((fb - fa) / (xb - xa))
      else go xb fb xr fr
    | _, _ => fa

def interp (xs xp fp : List Rat) : List Rat := xs.map (interp1 xp fp)

/-- `np.linspace(0, L, n)` -/
def linspace (L : Rat) (n : Nat) : List Rat :=
  if n ≤ 1 then (List.range n).map (fun _ => 0)
  else (List.range n).map fun (i : Nat) => if i + 1 = n then L else (i : Rat) * (L / ((n - 1 : Nat) : Rat))

/-- `np.arange(0, L, d)` (d > 0): `0, d, 2d, … < L` -/
def arange (L d : Rat) : List Rat :=
  (List.range (L / d).ceil.toNat).map fun (i : Nat) => (i : Rat) * d

/-- number of nodes of the isometric resampling: `int(ceil(L / d)) + 1` -/
def isoCount (L d : Rat) : Nat := (L / d).ceil.toNat + 1

/-- the new arc-length positions -/
def isoPositions (L d : Rat) (adjustLastGap : Bool) : List Rat :=
  let n := isoCount L d
  if adjustLastGap && n > 1 then linspace L n else arange L d ++ [L]

/-- `BranchIsometricResampler.resample`: one output column per input column (x, y, z, r) -/
def isoResample (lens : List Rat) (cols : List (List Rat)) (d : Rat) (adjustLastGap : Bool) : List (List Rat) :=
  let cum := cumdist lens
  let L := cum.getLastD 0
  let pos := isoPositions L d adjustLastGap
  cols.map (interp pos cum)

/-- `BranchLinearResampler.resample` -/
def linearResample (lens : List Rat) (cols : List (List Rat)) (n : Nat) : List (List Rat) :=
  let cum := cumdist lens
  let L := cum.getLastD 0
  cols.map (interp (linspace L n) cum)

/-- `signal.convolve(v, ones(k), mode="same")[i]`: the window `[i + (k-1)/2 - k + 1, i + (k-1)/2]` -/
def convSame (v : List Rat) (k : Nat) (i : Nat) : Rat :=
  let hi : Int := (i : Int) + ((k - 1) / 2 : Nat)
  let lo : Int := hi - k + 1
  (List.range v.length).foldl (fun (acc : Rat) (a : Nat) => if lo ≤ (a : Int) ∧ (a : Int) ≤ hi then acc + v.getD a 0 else acc) 0

/-- `BranchConvSmoother` on one coordinate column: interior points become the windowed mean, end points stay -/
def convSmooth (v : List Rat) (k : Nat) : List Rat :=
  let ones := v.map (fun _ => (1 : Rat))
  (List.range v.length).map fun i =>
    if i = 0 ∨ i + 1 = v.length then v.getD i 0 else convSame v k i / convSame ones k i

/-! ## re-assembly of one branch: which samples become nodes between the parent end point and the child -/

/-- `br[s:e] + [child]`: `s = 1` when the first sample coincides with the parent end point; the last sample
is dropped exactly when it coincides with the child (which is appended instead) -/
def assembleBranch {α} (samples : List α) (firstCoincides lastCoincides : Bool) : List α :=
  let body := if lastCoincides then samples.dropLast else samples
  if firstCoincides then body.drop 1 else body

/-! ## driver -/
def rat? (s : String) : Option Rat :=
  match s.splitOn "/" with
  | [a] => a.toInt?.map (fun n => (n : Rat))
  | [a, b] => do let n ← a.toInt?; let d ← b.toNat?; if d = 0 then none else some ((n : Rat) / (d : Rat))
  | _ => none
def rats (s : String) : Option (List Rat) := if s = "" || s = "_" then some [] else (s.splitOn ",").mapM rat?
def showRat (r : Rat) : String := if r.den = 1 then toString r.num else s!"{r.num}/{r.den}"
def showRats (l : List Rat) : String := ",".intercalate (l.map showRat)
def argRats (args : List String) (k : String) : Option (List Rat) := (Proto.arg args k).bind rats
def argRat (args : List String) (k : String) : Option Rat := (Proto.arg args k).bind rat?

/-- `iso lens= x= y= z= r= d= adj=0|1` / `lin … n=` / `smooth v= k=` -/
def handle (what : String) (args : List String) : String :=
  match what with
  | "iso" | "lin" =>
    match argRats args "lens", argRats args "x", argRats args "y", argRats args "z", argRats args "r" with
    | some lens, some x, some y, some z, some r =>
      let out := if what = "iso" then
          match argRat args "d", Proto.argNat args "adj" with
          | some d, some adj => some (isoResample lens [x, y, z, r] d (adj = 1))
          | _, _ => none
        else (Proto.argNat args "n").map (linearResample lens [x, y, z, r])
      match out with
      | some cols => " / ".intercalate (cols.map showRats)
      | none => "bad-args"
    | _, _, _, _, _ => "bad-args"
  | "smooth" =>
    match argRats args "v", Proto.argNat args "k" with
    | some v, some k => showRats (convSmooth v k)
    | _, _ => "bad-args"
  | _ => "bad-op"
end Resample
