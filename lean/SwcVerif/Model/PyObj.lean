import SwcVerif.Model.Py
/-! Further semantics of the imperative translator (`harness/translate_algo.py`): slices with computed bounds.
(Kept apart from `Model/Py.lean` so that the generated modules that do not need it are not rebuilt.) -/
namespace Py
variable {α : Type}

/-- one bound of `l[lo:hi]` (step 1) as `slice.indices(len(l))` computes it: negative bounds count from the end, everything is
clamped to `0 .. len(l)` -/
def sliceBound (n : Nat) (i : Int) : Nat := if i < 0 then ((n : Int) + i).toNat else min i.toNat n

/-- `l[lo:hi]` with each bound an `int` or `None` (never raises) -/
def slice (l : List α) (lo hi : Option Int) : List α :=
  let a := match lo with | none => 0 | some i => sliceBound l.length i
  let b := match hi with | none => l.length | some i => sliceBound l.length i
  (l.take b).drop a

end Py
