import SwcVerif.Gen.AlgoSort
import SwcVerif.Model.Basic
/-! Driver side of the imperative translator (one file per generated module, so that a source change that breaks one generated module
cannot take the runners of the other properties with it): the definitions GENERATED from the current sources are run on the same protocol
lines as the hand-written models, so that the translator and `Model/Py.lean` are cross-checked against the real functions. -/
namespace AlgoRun
open Gen.Algo

/-- `gsort ids=.. pids=..` → `new_pids / indices` of the GENERATED `sort_nodes_impl` (`error` = any exception) -/
def handleSort (args : List String) : String :=
  match Proto.argInts args "ids", Proto.argInts args "pids" with
  | some ids, some pids =>
    match sort_nodes_impl (ids.length + 2) (ids, pids) with
    | none => "error"
    | some r => s!"{Proto.showInts r.1.2} / {Proto.showInts r.2}"
  | _, _ => "bad-args"

end AlgoRun
