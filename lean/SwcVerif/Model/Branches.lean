import SwcVerif.Model.Traverse
/-! Models of the traversal callbacks of `Tree.get_branches`, `get_paths`, `get_furcations`, and of
`get_tips` (`swcgeom/core/tree.py`), run through the traversal machine of `Model/Traverse.lean`. -/
namespace Branches
open Trav

/-- value returned by `collect_branches`: (finished branches, the open pass-through chain, bottom-up) -/
abbrev BVal := List (List Int) × List Int

/-- `collect_branches(node, pre)` -/
def collectBranches (i : Int) (pre : List BVal) : BVal :=
  match pre with
  | [(branches, child)] => (branches, child ++ [i])                        -- exactly one child: pass through
  | _ =>
    -- for sub_branches, child in pre: child.append(id); child.reverse(); sub_branches.append(child);
    --                                 sub_branches.reverse(); branches.extend(sub_branches)
    (pre.flatMap (fun sc => (sc.1 ++ [(sc.2 ++ [i]).reverse]).reverse), [i])

def bLeave : Unit → Int → List BVal → Unit × BVal := fun _ i pre => ((), collectBranches i pre)
def bEnter : Unit → Int → Option Unit → Unit × Unit := fun _ _ _ => ((), ())

/-- the tail of `get_branches`: the stem of a root with exactly one child is closed at the end -/
def finish (v : BVal) : List (List Int) :=
  if v.2.length > 1 then v.2.reverse :: v.1 else v.1

def getBranches (ids pids : List Int) (root : Int) (fuel : Nat) : List (List Int) :=
  let st := run (tableKids ids pids) bEnter bLeave fuel (init root ())
  match st.vals root with
  | some v => finish v
  | none => []

/-! `get_paths`: `assign_path` (enter) stores a copy of the parent's path extended by the node in
`path_dic`; `collect_path` (leave) returns `[path_dic[id]]` at a tip, else the children's lists chained -/
abbrev PDict := Int → Option (List Int)
def pEnter : PDict → Int → Option (List Int) → PDict × List Int :=
  fun d i pre => let path := (pre.getD []) ++ [i]; (upd d i (some path), path)
def pLeave : PDict → Int → List (List (List Int)) → PDict × List (List Int) :=
  fun d i children => match children with
    | [] => (d, [(d i).getD []])
    | _ => (d, children.flatten)

def getPaths (ids pids : List Int) (root : Int) (fuel : Nat) : List (List Int) :=
  let st := run (tableKids ids pids) pEnter pLeave fuel (init root (fun _ => none))
  (st.vals root).getD []

/-! `get_furcations`: `collect_furcations` appends the id when more than one child value arrives -/
def fLeave : List Int → Int → List Unit → List Int × Unit :=
  fun acc i children => (if children.length > 1 then acc ++ [i] else acc, ())
def fEnter : List Int → Int → Option Unit → List Int × Unit := fun acc _ _ => (acc, ())
def getFurcations (ids pids : List Int) (root : Int) (fuel : Nat) : List Int :=
  (run (tableKids ids pids) fEnter fLeave fuel (init root [])).s

/-- `get_tips`: `np.setdiff1d(ids, pids, assume_unique=True)` up to order -/
def getTips (ids pids : List Int) : List Int := ids.filter (fun i => !pids.contains i)

/-- `BranchTree.from_tree`: `sub_id = [0] + [br[-1]]`, `sub_pid = [-1] + [br[0]]` -/
def branchTreeTable (root : Int) (brs : List (List Int)) : List Int × List Int :=
  (root :: brs.map (fun b => b.getLastD root), -1 :: brs.map (fun b => b.headD root))

def showLists (l : List (List Int)) : String := ";".intercalate (l.map Proto.showInts)

/-- driver: `branches ids= pids=` / `paths …` / `furcs …` / `tips …` / `brtable …` -/
def handle (what : String) (args : List String) : String :=
  match Proto.argInts args "ids", Proto.argInts args "pids" with
  | some ids, some pids =>
    let root := ids.headD 0
    let fuel := 2 * ids.length + 2
    match what with
    | "branches" => showLists (getBranches ids pids root fuel)
    | "paths" => showLists (getPaths ids pids root fuel)
    | "furcs" => Proto.showInts (getFurcations ids pids root fuel)
    | "tips" => Proto.showInts (getTips ids pids)
    | "brtable" =>
      let t := branchTreeTable root (getBranches ids pids root fuel)
      Proto.showInts t.1 ++ " / " ++ Proto.showInts t.2
    | _ => "bad-op"
  | _, _ => "bad-args"
end Branches
