import SwcVerif.Gen.AlgoMstRest
import SwcVerif.Model.Resample
import SwcVerif.Model.Basic
/-! Driver side of the imperative translator for C17 (rest): the GENERATED constructors `PointsToCuntzMST.__init__` / `PointsToMST.__init__`
(at `K = Rat`) and the generated final `if self.sort: t = sort_tree(t)` of `PointsToCuntzMST.__call__`. -/
namespace AlgoRun
open Gen.Algo

private def b01 (b : Bool) : String := if b then "1" else "0"

/-- `gmstctor cls=cuntz bf=<rat> k=<int> ex=0|1 sort=0|1` / `gmstctor cls=mst k=<int> kf=<int>|- ex=0|1 sort=0|1|-` →
`bf|furcations|exclude_soma|sort[|warnings]`: the attributes the GENERATED constructor stores -/
def handleMstCtor (args : List String) : String :=
  match Proto.arg args "cls", Proto.argInt args "k", Proto.argNat args "ex", Proto.arg args "sort" with
  | some "cuntz", some k, some ex, some sort =>
    match (Proto.arg args "bf").bind Resample.rat? with
    | none => "bad-args"
    | some bf =>
      match cuntz_init (K := Rat) bf k (ex = 1) (sort = "1") with
      | none => "E"
      | some r => "|".intercalate [Resample.showRat r.1, toString r.2.1, b01 r.2.2.1, b01 r.2.2.2.1]
  | some "mst", some k, some ex, some sort =>
    let kf : Option Int := (Proto.arg args "kf").bind String.toInt?
    let so : Option Bool := if sort = "-" then none else some (sort = "1")
    match mst_init (K := Rat) k kf (ex = 1) so with
    | none => "E"
    | some r => "|".intercalate [Resample.showRat r.1, toString r.2.1, b01 r.2.2.1, b01 r.2.2.2.1, Proto.showInts r.2.2.2.2.1]
  | _, _, _, _ => "bad-args"

/-- `gmsttail ids=… pids=… types=… sort=0|1` → `ids|pid|types` after the generated `if self.sort: t = sort_tree(t)` (`E` = exception) -/
def handleMstTail (args : List String) : String :=
  match Proto.argInts args "ids", Proto.argInts args "pids", Proto.argInts args "types", Proto.argNat args "sort" with
  | some ids, some pids, some types, some sort =>
    match mst_tail (ids.length + 1) ids pids types (sort = 1) with
    | none => "E"
    | some r => "|".intercalate [Proto.showInts r.1, Proto.showInts r.2.1, Proto.showInts r.2.2.1]
  | _, _, _, _ => "bad-args"

end AlgoRun
