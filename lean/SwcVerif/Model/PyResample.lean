import SwcVerif.Model.Py
import SwcVerif.Model.PyObj
/-! Semantics of the numpy / scipy idioms of `swcgeom/transforms/branch.py` (the branch resamplers and the smoother), used by the
generated module `Gen/AlgoResample.lean` (`harness/algo_specs/16_resample.py`).  Mathlib-free.

Float arrays are arrays over a numeric type parameter `K` (`Model/Py.lean`); what `K` must offer beyond `+ - * < ≤ 0 1` — true division,
the embedding of Python ints, the ceiling — is the structure `Py.Fld K`, handed to the generated definitions as the parameter `F`
(the driver runs them at `Rat` with `Py.ratFld`).  `nan` / `inf` do not exist in `K`: where numpy would produce one (division by zero)
the function raises (`none`). -/
namespace Py

/-- what a float type offers beyond ring operations and order: `/`, `float(int)`, `ceil` -/
class Fld (K : Type) where
  div : K → K → K
  ofInt : Int → K
  ceil : K → Int

instance ratFld : Fld Rat := ⟨fun a b => a / b, fun i => (i : Rat), Rat.ceil⟩

variable {K : Type} {α : Type}

section num
variable [Add K] [Sub K] [Mul K] [OfNat K 0] [OfNat K 1] [LT K] [DecidableLT K] [LE K] [DecidableLE K]

/-- `a / b` on float scalars (`b = 0` would be `inf` / `nan`: raises) -/
def fdiv [Fld K] (a b : K) : Option K := if b < 0 ∨ 0 < b then some (Fld.div a b) else none

/-- running sums `acc + a₀, acc + a₀ + a₁, …` -/
def cumsumFrom (acc : K) : List K → List K
  | [] => []
  | x :: xs => (acc + x) :: cumsumFrom (acc + x) xs
/-- `np.cumsum(a)` on a 1-d float array (sequential accumulation) -/
def cumsumK (a : List K) : List K := cumsumFrom 0 a

/-- `np.insert(a, i, x)` for a 1-d array and a scalar index: `x` is placed before position `i` (negative `i` counts from the end; out of
`[-n, n]` raises IndexError) -/
def npInsert (a : List α) (i : Int) (x : α) : Option (List α) :=
  if 0 ≤ i then (if i.toNat ≤ a.length then some (a.take i.toNat ++ x :: a.drop i.toNat) else none)
  else if (-i).toNat ≤ a.length then some (a.take (a.length - (-i).toNat) ++ x :: a.drop (a.length - (-i).toNat)) else none

/-- `np.linspace(0, stop, n)` (`endpoint=True`): `n < 0` raises; `n ≤ 1` gives `n` copies of the start; otherwise `i * (stop / (n - 1))`
with the last element set to `stop` itself -/
def linspace0 [Fld K] (stop : K) (n : Int) : Option (List K) :=
  if n < 0 then none
  else if n ≤ 1 then some ((List.range n.toNat).map fun _ => (0 : K))
  else some ((List.range n.toNat).map fun (i : Nat) =>
    if i + 1 = n.toNat then stop else Fld.ofInt (i : Int) * Fld.div stop (Fld.ofInt (n - 1)))

/-- `np.arange(0, stop, step)` on floats: `ceil(stop / step)` values `i * step` (none when that is not positive); `step = 0` raises -/
def arange0 [Fld K] (stop step : K) : Option (List K) :=
  if step < 0 ∨ 0 < step then
    some ((List.range (Fld.ceil (Fld.div stop step)).toNat).map fun (i : Nat) => Fld.ofInt (i : Int) * step)
  else none

/-- is the array non-decreasing? -/
def nondecr : List K → Bool
  | a :: b :: r => decide (a ≤ b) && nondecr (b :: r)
  | _ => true

/-- scan of `np.interp` from the sample point `(xa, fa)` (`xa ≤ x`): the LAST `j` with `xp[j] ≤ x`; past the last point: its value;
at a sample point: its value (numpy: "avoid potential non-finite interpolation"); otherwise `slope * (x - xp[j]) + fp[j]` -/
def interpGo [Fld K] (x : K) (xa fa : K) : List K → List K → K
  | xb :: xr, fb :: fr =>
    if x < xb then (if xa < x then Fld.div (fb - fa) (xb - xa) * (x - xa) + fa else fa)
    else interpGo x xb fb xr fr
  | _, _ => fa

/-- `np.interp(x, xp, fp)` at one abscissa (`left` / `right` = the end values) -/
def interp1 [Fld K] (xp fp : List K) (x : K) : K :=
  match xp, fp with
  | [], _ => 0
  | _, [] => 0
  | x0 :: xr, f0 :: fr => if x < x0 then f0 else interpGo x x0 f0 xr fr

/-- `np.interp(xs, xp, fp)`: `xp` and `fp` of different lengths or empty raise ValueError; numpy requires `xp` non-decreasing and does
not check it (what it returns otherwise depends on the length of the array): the function raises there -/
def interp [Fld K] (xs xp fp : List K) : Option (List K) :=
  if xp.length = fp.length ∧ xp ≠ [] ∧ nondecr xp = true then some (xs.map (interp1 xp fp)) else none

/-- `(a / b)` on 1-d float arrays: equal lengths, or one of them a single element (broadcast); a zero divisor raises -/
def divArr [Fld K] (a b : List K) : Option (List K) :=
  if a.length = b.length then mapOpt (fun p => fdiv p.1 p.2) (List.zip a b) else
  match a, b with
  | [x], _ => mapOpt (fun y => fdiv x y) b
  | _, [y] => mapOpt (fun x => fdiv x y) a
  | _, _ => none

/-- entry `t` of the full discrete convolution: `Σ_j a[j] * w[t - j]` -/
def convFull [Inhabited K] (a w : List K) (t : Nat) : K :=
  (List.range a.length).foldl (fun (acc : K) (j : Nat) => if j ≤ t ∧ t - j < w.length then acc + a.getD j default * w.getD (t - j) default else acc) 0

/-- `scipy.signal.convolve(a, w, mode="same")` on 1-d arrays: the `len(a)` central entries of the full convolution, starting at
`(len(w) - 1) // 2`; an empty operand gives the empty array -/
def convolveSame [Inhabited K] (a w : List K) : List K :=
  if a.isEmpty || w.isEmpty then [] else (List.range a.length).map fun i => convFull a w (i + (w.length - 1) / 2)

end num

/-! ### 2-d arrays (lists of rows) -/

/-- `m[:, j]` -/
def col (m : List (List α)) (j : Int) : Option (List α) := mapOpt (fun row => idx row j) m

/-- `m.T` of a 2-d array given by its rows (`np.array` of rows of different lengths raises) -/
def transpose2 (m : List (List α)) : Option (List (List α)) :=
  match m with
  | [] => some []
  | r :: rs => if rs.all (fun r' => r'.length = r.length) then some ((List.range r.length).map fun i => m.filterMap (·[i]?)) else none

/-- `np.stack(cols, axis=1)` of 1-d arrays: the array whose COLUMNS they are (no array, or different lengths: ValueError) -/
def stack1 (cols : List (List α)) : Option (List (List α)) := if cols.isEmpty then none else transpose2 cols

/-- element-wise combination of two lists of equal length -/
def zipWithOpt {β γ : Type} (f : α → β → Option γ) : List α → List β → Option (List γ)
  | x :: xs, y :: ys => match f x y with
    | none => none
    | some z => match zipWithOpt f xs ys with
      | none => none
      | some zs => some (z :: zs)
  | _, _ => some []

/-- numpy broadcasting along the first axis: equal length, or a single row repeated -/
def broadcastRows {β : Type} (a : List β) (n : Nat) : Option (List β) := broadcastTo a n

/-- `m[:, :k] = a` for a 2-d array `a` (broadcast to the shape of the slot) -/
def setColBlock (m : List (List α)) (k : Nat) (a : List (List α)) : Option (List (List α)) :=
  (broadcastRows a m.length).bind fun a' =>
    zipWithOpt (fun row ar => (broadcastTo ar (min k row.length)).map fun ar' => ar' ++ row.drop k) m a'

/-- `m[:, j] = a` for a 1-d array `a` (broadcast to the number of rows) -/
def setCol (m : List (List α)) (j : Int) (a : List α) : Option (List (List α)) :=
  (broadcastRows a m.length).bind fun a' => zipWithOpt (fun row x => setIdx row j x) m a'

/-- `a[lo:hi] = b` on a 1-d numpy array (never resizes: `b` is broadcast to the length of the slot) -/
def setSlice (a : List α) (lo hi : Option Int) (b : List α) : Option (List α) :=
  let s := match lo with | none => 0 | some i => sliceBound a.length i
  let e := match hi with | none => a.length | some i => sliceBound a.length i
  (broadcastTo b (e - s)).map fun b' => if s ≤ e then a.take s ++ b' ++ a.drop e else a

end Py
