import SwcVerif.Model.Basic
/-! Model of `swcgeom.transforms.branch_tree.BranchTreeAssembler.__call__` (the table it builds; C16, C03):

    nodes = [soma]; stack = [(soma, 0)]
    while stack: n_orig, pid_new = stack.pop()
        for br, c in pair(branches[n_orig], children(n_orig)):
            br_nodes = interior samples of br (end points that coincide with the key nodes trimmed) + [c]
            ids len(nodes) .. ; each node's parent the previous one, the first one's parent pid_new
            nodes.extend(br_nodes); stack.append((c, id of c's copy))

The input is the branch tree: every key node (root, furcations, tips) with, for each child IN PAIRING ORDER, the number `m` of
interior samples kept on the branch that leads to it.  New ids are positions, so the output is the parent list. -/
namespace Asm

/-- a key node: its id in the branch tree, the number of interior samples on the branch from its parent (unused at the root), and
its children in the order in which `pair` returns them -/
inductive BT where
  | node (id : Int) (m : Nat) (kids : List BT)
deriving Repr, Inhabited

def BT.m : BT → Nat | .node _ m _ => m
def BT.kids : BT → List BT | .node _ _ ks => ks

mutual
def BT.size : BT → Nat
  | .node _ _ ks => 1 + sizeL ks
def sizeL : List BT → Nat
  | [] => 0
  | t :: ts => t.size + sizeL ts
end

/-- rows of one branch: the first sample hangs off `pidNew`, every further one off its predecessor; the child's copy is the last -/
def chainRows (pidNew L m : Nat) : List Int := (pidNew : Int) :: (List.range m).map (fun j => ((L + j : Nat) : Int))

/-- the `for br, c in pairs` loop: rows appended and the ids of the children's copies -/
def chains : List BT → Nat → Nat → List Int × List Nat
  | [], _, _ => ([], [])
  | k :: ks, p, L =>
    let r := chains ks p (L + k.m + 1)
    (chainRows p L k.m ++ r.1, (L + k.m) :: r.2)

structure St where
  stack : List (BT × Nat)      -- top = head
  out : List Int               -- parent list so far (ids are positions)

def step (st : St) : Option St :=
  match st.stack with
  | [] => none
  | (t, pidNew) :: rest =>
    let c := chains t.kids pidNew st.out.length
    some { stack := (List.zip t.kids c.2).reverse ++ rest, out := st.out ++ c.1 }

def run : Nat → St → St
  | 0, st => st
  | n + 1, st => match step st with
    | none => st
    | some st' => run n st'

/-- the assembled parent list (`fuel` = number of key nodes suffices, `Props/C16Asm.lean`) -/
def assemble (root : BT) : List Int := (run root.size ⟨[(root, 0)], [-1]⟩).out

/-! ### structural specification -/
mutual
/-- rows appended from the moment `(t, sid)` is popped until all its descendants are done -/
def sub : BT → Nat → Nat → List Int
  | .node _ _ ks, sid, L =>
    let c := chains ks sid L
    c.1 ++ subRev ks c.2 (L + c.1.length)
/-- the children's subtrees, the LAST child first (it is on top of the stack) -/
def subRev : List BT → List Nat → Nat → List Int
  | [], _, _ => []
  | _ :: _, [], _ => []
  | k :: ks, cid :: cids, L =>
    let later := subRev ks cids L
    later ++ sub k cid (L + later.length)
end

/-! ### driver: `asm pids=<branch-tree parents, key nodes numbered 0..k-1, children in pairing order> m=<samples per key node>` -/
def btOf (pids : List Int) (ms : List Int) : Nat → Int → BT
  | 0, i => .node i (ms.getD i.toNat 0).toNat []
  | f + 1, i => .node i (ms.getD i.toNat 0).toNat ((tableKids ((List.range pids.length).map Int.ofNat) pids i).map (btOf pids ms f))

def handle (args : List String) : String :=
  match Proto.argInts args "pids", Proto.argInts args "m" with
  | some pids, some ms => Proto.showInts (assemble (btOf pids ms pids.length 0))
  | _, _ => "bad-args"
end Asm
