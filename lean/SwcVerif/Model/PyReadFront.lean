import SwcVerif.Model.Py
/-! Further semantics of the imperative translator (plugin `harness/algo_specs/62_readfront.py`) for the FRONT END of the SWC reader
(`utils/file.py::FileReader.__init__ / __enter__`, `detect_encoding`, the prologue of `parse_swc`): a value of `PathOrIO` and the file objects
made from it.  Mathlib-free: linked into the driver. -/
namespace Py

/-- a `PathOrIO` value (`int | str | bytes | BytesIO | TextIOBase`) or a file object made from one.  `h` identifies the caller's object. -/
inductive Src where
  /-- a `TextIOBase` object the caller passed; `enc` is its `.encoding` -/
  | text (h : Int) (enc : String)
  /-- a `BytesIO` object the caller passed -/
  | bytes (h : Int)
  /-- anything else (a `str`; also `int` / `bytes`): names a file -/
  | path (name : String)
  /-- `TextIOWrapper(<BytesIO h>, encoding=enc)` -/
  | wrapped (h : Int) (enc : String)
  /-- `open(name, "r", encoding=enc)` -/
  | opened (name : String) (enc : String)
deriving Repr, DecidableEq, Inhabited

/-- `isinstance(x, TextIOBase)` (a `TextIOWrapper` - also what `open(…, "r")` returns - is a `TextIOBase`) -/
def Src.isText : Src → Bool
  | .text _ _ | .wrapped _ _ | .opened _ _ => true
  | _ => false

/-- `isinstance(x, BytesIO)` -/
def Src.isBytes : Src → Bool
  | .bytes _ => true
  | _ => false

/-- `isinstance(x, BytesIO)` of a slot that may hold `None` -/
def Src.optIsBytes : Option Src → Bool
  | some s => s.isBytes
  | none => false

/-- `x.encoding` (`AttributeError` on a `str` / `BytesIO`) -/
def Src.encoding : Src → Option String
  | .text _ e | .wrapped _ e | .opened _ e => some e
  | _ => none

/-- `TextIOWrapper(fb, encoding=enc)` on a binary stream (anything else has no `readable` …: raises) -/
def Src.wrap : Option Src → String → Option Src
  | some (.bytes h), enc => some (.wrapped h enc)
  | _, _ => none

/-- `open(fname, "r", encoding=enc, **kwargs)` on a name (a stream object is not a path: `TypeError`) -/
def Src.openR : Src → String → Option Src
  | .path n, enc => some (.opened n enc)
  | _, _ => none

/-- `isinstance(x, str)` (the model's `path` IS a `str`; `int` descriptors / `bytes` names are not modelled separately) -/
def Src.isStr : Src → Bool
  | .path _ => true
  | _ => false

/-- the `str` a `str`-valued `PathOrIO` is (`TypeError` for a stream object where a path is required) -/
def Src.strName : Src → Option String
  | .path n => some n
  | _ => none

/-- `x or y` on an optional `str` (`None` and `""` are false) -/
def strOr (x : Option String) (y : String) : String :=
  match x with
  | some s => if s = "" then y else s
  | none => y

/-- truthiness of an optional list (`None` and `[]` are false) -/
def optListTruthy {α : Type} : Option (List α) → Bool
  | some (_ :: _) => true
  | _ => false

/-- `list(x)` of an optional iterable (`None` is not iterable: `TypeError`) -/
def optList {α : Type} : Option (List α) → Option (List α) := id

end Py
