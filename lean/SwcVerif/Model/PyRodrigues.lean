import SwcVerif.Model.Py
import SwcVerif.Model.PyResample
/-! Semantics of the numpy idioms of `swcgeom/utils/transforms.py::rotate3d / to_homogeneous / _to_homogeneous /
model_view_transformation / orthographic_projection_simple`, used by the generated module `Gen/AlgoRodrigues.lean`
(`harness/algo_specs/18d_rodrigues.py`).  Mathlib-free.

Float arrays are lists over the numeric type parameter `K`; 2-d arrays are lists of rows.  `nan` / `inf` do not exist in `K`:
division by zero raises (`none`).  Where numpy would BROADCAST operands of different shapes other than the ones named below, the
function raises (`none`): only the shapes that occur are given a meaning. -/
namespace Py

variable {K : Type} {α : Type}

section num
variable [Add K] [Sub K] [Mul K] [OfNat K 0] [OfNat K 1] [LT K] [DecidableLT K] [LE K] [DecidableLE K]

/-- `np.identity(n)` / `np.eye(n)`: ones on the diagonal -/
def identity (n : Int) : Option (List (List K)) :=
  if n < 0 then none
  else some ((List.range n.toNat).map fun i => (List.range n.toNat).map fun j => if i = j then (1 : K) else 0)

/-- `a * v` for a scalar `a` and a 1-d array -/
def smul1 (a : K) (v : List K) : List K := v.map fun x => a * x

/-- `a * m` for a scalar `a` and a 2-d array -/
def smul2 (a : K) (m : List (List K)) : List (List K) := m.map fun r => r.map fun x => a * x

/-- `u * n[:, None]` for 1-d arrays `u` (k entries) and `n` (m entries): the `(m, k)` array whose entry `(i, j)` is `u[j] * n[i]` -/
def mulCol (u n : List K) : List (List K) := n.map fun ni => u.map fun uj => uj * ni

/-- `a + b` for 2-d arrays of the SAME shape (anything else raises here) -/
def add2 (a b : List (List K)) : Option (List (List K)) :=
  if a.map List.length = b.map List.length then some (List.zipWith (fun r r' => List.zipWith (· + ·) r r') a b) else none

/-- `np.cross(a, b)` of two 3-vectors, by its component formula (other lengths raise here) -/
def cross3 (a b : List K) : Option (List K) :=
  match a, b with
  | [a0, a1, a2], [b0, b1, b2] => some [a1 * b2 - a2 * b1, a2 * b0 - a0 * b2, a0 * b1 - a1 * b0]
  | _, _ => none

/-- `v / r` for a 1-d array and a scalar (zero divisor raises) -/
def divS [Fld K] (v : List K) (r : K) : Option (List K) := mapOpt (fun x => fdiv x r) v

end num

/-- `np.array([row, …])` of 1-d arrays: they must all have the same length (numpy refuses ragged nestings) -/
def array2 (rows : List (List α)) : Option (List (List α)) :=
  match rows with
  | [] => some []
  | r :: rs => if rs.all (fun r' => r'.length = r.length) then some rows else none

/-- `T[:r, :c] = B` on 2-d arrays: `B` must have exactly the shape of the block (`min r rows`, `min c cols`); broadcasting a
smaller `B` is not given a meaning (raises) -/
def setBlock (T : List (List α)) (r c : Nat) (B : List (List α)) : Option (List (List α)) :=
  if B.length = min r T.length ∧ (List.zip B (T.take r)).all (fun p => p.1.length = min c p.2.length) then
    some (List.zipWith (fun b t => b ++ t.drop c) B (T.take r) ++ T.drop r)
  else none

/-- `np.concatenate([a, b], axis=1)` of 2-d arrays: same number of rows -/
def concatCols (a b : List (List α)) : Option (List (List α)) :=
  if a.length = b.length then some (List.zipWith (· ++ ·) a b) else none

/-- `a.shape[1]` of a 2-d array (given by its rows; an array with no rows keeps no column count: raises) -/
def ncols (a : List (List α)) : Option Int :=
  match a with
  | [] => none
  | r :: _ => some (r.length : Int)

end Py
