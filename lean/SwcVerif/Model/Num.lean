/-! Helpers the generated (`Gen/`) definitions refer to: Python's `abs`/`min`/`max` over a generic
ordered carrier, and 4×4 list matrices.  Mathlib-free; evaluated at `Float`/`Rat` by the driver and
reasoned about over a field / ℝ in `Props/`. -/

section
variable {K : Type} [Add K] [Sub K] [Mul K] [Div K] [Neg K] [LT K] [LE K] [DecidableLT K] [DecidableLE K]
  [OfNat K 0] [OfNat K 1]

/-- Python `abs` -/
def absK (x : K) : K := if x < 0 then -x else x
/-- Python `min(a, b)`: `b` if `b < a` else `a` -/
def minK (a b : K) : K := if b < a then b else a
/-- Python `max(a, b)`: `b` if `b > a` else `a` -/
def maxK (a b : K) : K := if b > a then b else a

/-- hand-modelled part of `calc_concentric_intersect_volume`: exit parameter of the lateral edge
`(r1,0) → (r2,h)` (meridian plane) from the sphere of radius `r1` — the larger root `t` of the
line–sphere intersection the code computes with `find_sphere_line_intersection` -/
def exitTK [OfNat K 2] (r1 r2 h : K) : K := 2 * r1 * (r1 - r2) / (h * h + (r1 - r2) * (r1 - r2))

abbrev Mat (K : Type) := List (List K)

def dotK (u v : List K) : K := (List.zipWith (· * ·) u v).foldr (· + ·) 0
def colK (m : Mat K) (j : Nat) : List K := m.map (fun r => r.getD j 0)
/-- numpy `a.dot(b)` for 4×4 -/
def mmul (a b : Mat K) : Mat K := a.map (fun r => [0, 1, 2, 3].map (fun j => dotK r (colK b j)))
/-- `xyzw = x.xyzw().dot(tm.T).T ; xyzw /= xyzw[3]` on one point -/
def mapply (m : Mat K) (p : K × K × K) : K × K × K :=
  let v := [p.1, p.2.1, p.2.2, 1]
  let w := m.map (fun r => dotK r v)
  (w.getD 0 0 / w.getD 3 1, w.getD 1 0 / w.getD 3 1, w.getD 2 0 / w.getD 3 1)

/-- `T = I₄; T[:3,:3] = cos·I₃ + (1-cos)·n·nᵀ + sin·N` (Rodrigues), entry by entry -/
def rodrigues (c s nx ny nz : K) (N : Mat K) : Mat K :=
  let n := [nx, ny, nz]
  let e := fun (i j : Nat) =>
    (if i = j then c else 0) + (1 - c) * (n.getD i 0 * n.getD j 0) + s * ((N.getD i []).getD j 0)
  [[e 0 0, e 0 1, e 0 2, 0], [e 1 0, e 1 1, e 1 2, 0], [e 2 0, e 2 1, e 2 2, 0], [0, 0, 0, 1]]
end
