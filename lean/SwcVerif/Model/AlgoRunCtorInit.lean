import SwcVerif.Gen.AlgoCtorInit
import SwcVerif.Model.Basic
/-! Driver side of the imperative translator for `Gen/AlgoCtorInit.lean` (see `AlgoRunDsu.lean`): the GENERATED `Tree.__init__` / `padding1d` over a
heap of buffers.  The columns handed in are buffers `0..k-1` of the heap (in keyword order); the answer lists, in the order of the new tree's
`ndata` dict, every column's dtype tag, the input buffer it SHARES storage with (`n` = none: a new buffer; `-` = an empty column, for which sharing is
not observable) and its values. -/
namespace AlgoRun
open Gen.Algo

/-- `gtreeinit | gfromdf n=<n_nodes / rows> keys=k1,k2,.. k1=<vals> k1_t=<dtype tag> ..` → `key:dtype:alias:vals ; ...` (`E` = an exception);
`gfromdf` runs the GENERATED `Tree.from_data_frame` on the frame whose columns are the listed arrays -/
def handleTreeInit (op : String) (args : List String) : String :=
  match Proto.argInt args "n" with
  | none => "bad-args"
  | some n =>
    let keys := ((Proto.arg args "keys").getD "").splitOn "," |>.filter (· ≠ "")
    let cols := keys.map fun k => (k, (Proto.argInts args k).getD [], (Proto.argInt args (k ++ "_t")).getD 0)
    let heap : Py.Bufs := cols.map fun c => c.2.1
    let kwargs : Py.Dict String Py.Arr := (List.range cols.length).zip cols |>.map fun (i, c) => (c.1, ⟨(i : Int), (c.2.1.length : Int), c.2.2⟩)
    let res : Option (Py.Bufs × Py.Dict String Py.Arr) :=
      if op = "gfromdf" then from_data_frame heap kwargs n else (tree_init heap n kwargs).map fun r => (r.1, r.2.1)
    match res with
    | none => "E"
    | some (h, nd) =>
      " ; ".intercalate (nd.map fun (k, a) =>
        let al := if a.len ≤ 0 then "-" else if a.buf < (cols.length : Int) then toString a.buf else "n"
        let vs := match Py.Bufs.vals h a with | some l => (if l.isEmpty then "_" else Proto.showInts l) | none => "dangling"
        s!"{k}:{a.dtype}:{al}:{vs}")

end AlgoRun
