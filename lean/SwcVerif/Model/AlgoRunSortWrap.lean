import SwcVerif.Gen.AlgoSortWrap
import SwcVerif.Model.Basic
/-! Driver side for `Gen/AlgoSortWrap.lean` (C05, T41): the public wrapper `tree_utils.sort_tree` GENERATED from the current source. -/
namespace AlgoRun
open Gen.Algo

/-- `gsorttree ids=.. pids=.. types=..` → `ids / pids / types` of the tree the GENERATED `sort_tree` returns (`E` = any exception) -/
def handleSortTree (args : List String) : String :=
  match Proto.argInts args "ids", Proto.argInts args "pids", Proto.argInts args "types" with
  | some ids, some pids, some tys =>
    match sort_tree (ids.length + 2) ids pids tys with
    | none => "E"
    | some r => s!"{Proto.showInts r.1} / {Proto.showInts r.2.1} / {Proto.showInts r.2.2.1}"
  | _, _, _ => "bad-args"

end AlgoRun
