/-! Shared vocabulary: rose trees, point-updated functions, parent tables, protocol parsing.
No Mathlib import: everything here is executable and linked into the driver. -/

inductive Rose where
  | node : Int → List Rose → Rose
deriving Repr, Inhabited

namespace Rose
def id : Rose → Int | node i _ => i
def kids : Rose → List Rose | node _ ks => ks
end Rose

mutual
def Rose.size : Rose → Nat
  | .node _ ks => 1 + sizeL ks
def sizeL : List Rose → Nat
  | [] => 0
  | r :: rs => r.size + sizeL rs
end

mutual
def Rose.ids : Rose → List Int
  | .node i ks => i :: idsL ks
def idsL : List Rose → List Int
  | [] => []
  | r :: rs => r.ids ++ idsL rs
end

-- `kidsOf` agrees with the rose: the children of every node, in table order
mutual
def Agrees (kidsOf : Int → List Int) : Rose → Prop
  | .node i ks => kidsOf i = ks.map Rose.id ∧ AgreesL kidsOf ks
def AgreesL (kidsOf : Int → List Int) : List Rose → Prop
  | [] => True
  | r :: rs => Agrees kidsOf r ∧ AgreesL kidsOf rs
end

/-- point update of a dictionary / array modelled as a function -/
def upd {α β} [DecidableEq α] (f : α → β) (k : α) (v : β) : α → β := fun j => if j = k then v else f j

/-- `children_map[p]` / `old_ids[old_pids == p]`: ids of the rows whose parent is `p`, in table order -/
def tableKids : List Int → List Int → Int → List Int
  | i :: is, p :: ps, q => if p = q then i :: tableKids is ps q else tableKids is ps q
  | _, _, _ => []

/-- the rose with root `i` read off a parent table, with fuel (depth bound) -/
def roseOf (ids pids : List Int) : Nat → Int → Rose
  | 0, i => .node i []
  | f+1, i => .node i ((tableKids ids pids i).map (roseOf ids pids f))

/-- A rose represents the table (at the subtree of its root): children agree and ids are distinct. -/
def Represents (r : Rose) (ids pids : List Int) : Prop :=
  Agrees (tableKids ids pids) r ∧ r.ids.Nodup

namespace Proto
/-- parse `1,2,-3` (empty string = empty list) -/
def ints (s : String) : Option (List Int) :=
  if s = "" || s = "_" then some [] else (s.splitOn ",").mapM String.toInt?

def showInts (l : List Int) : String := ",".intercalate (l.map toString)
def showNats (l : List Nat) : String := ",".intercalate (l.map toString)

/-- `key=value` argument lookup -/
def arg (args : List String) (k : String) : Option String :=
  args.findSome? fun a => if a.startsWith (k ++ "=") then some ((a.drop (k.length + 1)).toString) else none

def argInts (args : List String) (k : String) : Option (List Int) := (arg args k).bind ints
def argInt (args : List String) (k : String) : Option Int := (arg args k).bind String.toInt?
def argNat (args : List String) (k : String) : Option Nat := (arg args k).bind String.toNat?
end Proto

namespace Proto
/-- decimal / scientific literal (`-12.5`, `1e-05`, `3`, `.5`) → Float; used only by the driver -/
def float? (s : String) : Option Float :=
  let cs := s.toList
  let (neg, cs) := match cs with
    | '-' :: r => (true, r)
    | '+' :: r => (false, r)
    | r => (false, r)
  let ip := cs.takeWhile Char.isDigit
  let r1 := cs.dropWhile Char.isDigit
  let (fp, r2) := match r1 with
    | '.' :: r => (r.takeWhile Char.isDigit, r.dropWhile Char.isDigit)
    | r => ([], r)
  if ip.isEmpty && fp.isEmpty then none else
  let ex : Option Int := match r2 with
    | [] => some 0
    | e :: r => if e = 'e' || e = 'E' then (String.ofList r).toInt? else none
  match ex with
  | none => none
  | some e =>
    let mant : Nat := (ip ++ fp).foldl (fun a c => a * 10 + (c.toNat - '0'.toNat)) 0
    let e' : Int := e - fp.length
    let v := if e' ≥ 0 then Float.ofScientific mant false e'.toNat else Float.ofScientific mant true (-e').toNat
    some (if neg then -v else v)

def floats (s : String) : Option (List Float) :=
  if s = "" || s = "_" then some [] else (s.splitOn ",").mapM float?
def argFloats (args : List String) (k : String) : Option (List Float) := (arg args k).bind floats
def argFloat (args : List String) (k : String) : Option Float := (arg args k).bind float?
/-- 16 significant digits, as `<integer>e<exp>` (parsed by Python's `float`) -/
def showFloat (x : Float) : String :=
  if x.isNaN then "nan" else if x.isInf then (if x > 0 then "inf" else "-inf") else
  if x == 0 then "0e0" else
  let e := (Float.floor (Float.log10 x.abs)).toInt64.toInt - 15
  let m := (Float.round (x / Float.pow 10 (Float.ofInt e))).toInt64.toInt
  s!"{m}e{e}"
def showFloats (l : List Float) : String := " ".intercalate (l.map showFloat)
end Proto
