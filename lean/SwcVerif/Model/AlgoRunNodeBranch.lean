import SwcVerif.Gen.AlgoNodeBranch
import SwcVerif.Model.Basic
/-! Driver side of the imperative translator for C08's node-level methods (see `AlgoRunDsu.lean`): the GENERATED `Tree.get_tips`,
`Tree.Node.branch` and the node methods `parent / children / is_root / is_furcation / is_tip` are run on the same protocol lines as
the real methods.  The input tree is a `Tree` object (ids = positions). -/
namespace AlgoRun
open Gen.Algo

private def showB (b : Option Bool) : String := match b with | some true => "1" | some false => "0" | none => "E"

/-- `gtips pids=..` | `gnodebranch pids=.. node=k` | `gnode pids=.. node=k` → the result of the GENERATED method (`E` = an exception) -/
def handleNodeBranch (what : String) (args : List String) : String :=
  match Proto.argInts args "pids" with
  | some pids =>
    let ids := (List.range pids.length).map (fun (k : Nat) => (k : Int))
    match what, Proto.argInt args "node" with
    | "gtips", _ => match get_tips ids pids with | some l => Proto.showInts l | none => "E"
    | "gnodebranch", some k => match node_branch (pids.length + 1) ids pids k with | some l => Proto.showInts l | none => "E"
    | "gnode", some k =>
      let par := match node_parent pids k with | some (some p) => toString p | some none => "N" | none => "E"
      let kids := match node_children ids pids k with | some l => Proto.showInts l | none => "E"
      s!"parent={par} children={kids} root={showB (node_is_root pids k)} furc={showB (node_is_furcation ids pids k)} tip={showB (node_is_tip ids pids k)}"
    | _, _ => "bad-args"
  | none => "bad-args"

end AlgoRun
