import SwcVerif.Model.Py
/-! Further numpy idioms of the imperative translator (added by `harness/algo_specs/09_branchtree.py` through the extension hooks). -/
namespace Py

/-- positions (counted from `k`) of the `true` entries of a mask, ascending -/
def nonzeroFrom : Int → List Bool → List Int
  | _, [] => []
  | k, b :: bs => if b then k :: nonzeroFrom (k + 1) bs else nonzeroFrom (k + 1) bs

/-- `np.nonzero(mask)[0]` of a 1-d boolean array: the positions of its `True` entries, ascending
(so `np.nonzero(a == x)[0][0]` is the first position of `x` in `a`, IndexError when it does not occur) -/
def nonzero (m : List Bool) : List Int := nonzeroFrom 0 m

end Py
