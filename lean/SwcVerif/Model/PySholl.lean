import SwcVerif.Model.Py
import SwcVerif.Model.PyResample
/-! Semantics of the numpy idioms of `swcgeom/analysis/sholl.py` and of the padding / stacking front end
`swcgeom/analysis/feature_extractor.py` (`harness/algo_specs/45_sholl.py`), used by the generated modules `Gen/AlgoSholl.lean` and
`Gen/AlgoFeatFront.lean`.  Mathlib-free.  Float arrays are arrays over the numeric type parameter `K`; `/`, `float(int)` and `ceil`
come from `Py.Fld K` (`Model/PyResample.lean`).  Where numpy raises, the function is `none`. -/
namespace Py.Sh

variable {K : Type} {α : Type}

section num
variable [Add K] [Sub K] [Mul K] [OfNat K 0] [OfNat K 1] [LT K] [DecidableLT K] [LE K] [DecidableLE K]

/-- `a <= r` / `a < r` / `a > r` / `a >= r` of a 1-d float array with a scalar: the boolean array -/
def leMask (a : List K) (r : K) : List Bool := a.map fun x => decide (x ≤ r)
def ltMask (a : List K) (r : K) : List Bool := a.map fun x => decide (x < r)
def gtMask (a : List K) (r : K) : List Bool := a.map fun x => decide (x > r)
def geMask (a : List K) (r : K) : List Bool := a.map fun x => decide (x ≥ r)

/-- `m.max()` of a 2-d float array given by its rows: the largest entry (`ValueError` on an array without entries) -/
def max2 (m : List (List K)) : Option K :=
  match m.flatten with
  | [] => none
  | x :: xs => some (xs.foldl (fun a b => if a < b then b else a) x)

/-- `np.arange(start, stop, step)` on floats: `ceil((stop - start) / step)` values `start + i * step` (none when that is not positive);
`step = 0` raises -/
def arange [Fld K] (start stop step : K) : Option (List K) :=
  if step < 0 ∨ 0 < step then
    some ((List.range (Fld.ceil (Fld.div (stop - start) step)).toNat).map fun (i : Nat) => start + Fld.ofInt (i : Int) * step)
  else none

end num

/-- `np.logical_and(a, b)` / `np.logical_or(a, b)` of two 1-d boolean arrays of EQUAL length (other shapes: broadcasting of a
length-1 array is not modelled, a mismatch raises) -/
def logicalAnd (a b : List Bool) : Option (List Bool) := if a.length = b.length then some (List.zipWith (· && ·) a b) else none
def logicalOr (a b : List Bool) : Option (List Bool) := if a.length = b.length then some (List.zipWith (· || ·) a b) else none

/-- `np.count_nonzero(rows, axis=1)` of a Python LIST of 1-d boolean arrays: the list becomes a 2-d array (an empty list is a 1-d array
of shape `(0,)`: `axis=1` is out of bounds, AxisError; rows of different lengths cannot be stacked: ValueError), one count per row -/
def countNonzeroRows (m : List (List Bool)) : Option (List Int) :=
  match m with
  | [] => none
  | r :: rs => if rs.all (fun r' => r'.length = r.length) then some (m.map Py.countNonzero) else none

/-- `T[k:]` of a tree (`Tree.__getitem__` on a slice with a constant start `k ≥ 0`: `[self.node(i) for i in range(*key.indices(len(self)))]`,
translated and proved in C09 — `RefineViews.tree_getitem_slice_eq`): the node handles (= row indices) `k, …, n-1` -/
def nodesFrom (n : Int) (k : Nat) : List Int := (Py.range n).drop k

/-- `padding1d(n, v, dtype=np.float32)` (`swcgeom/utils/numpy_helper.py`, padding value 0): the first `n` entries of `v` followed by zeros;
a negative `n` is `v[:n]` -/
def padding1d [OfNat K 0] (n : Int) (v : List K) : List K :=
  if (v.length : Int) ≥ n then Py.slice v none (some n) else v ++ List.replicate (n.toNat - v.length) (0 : K)

/-- `np.stack(rows)` of a list of 1-d arrays: the 2-d array of the rows (no rows: ValueError "need at least one array to stack"; rows of
different lengths: ValueError) -/
def stackRows (rows : List (List α)) : Option (List (List α)) :=
  match rows with
  | [] => none
  | r :: rs => if rs.all (fun r' => r'.length = r.length) then some rows else none

/-- `max(xs)` of a non-empty iterable of ints (empty: ValueError) -/
def maxInts : List Int → Option Int
  | [] => none
  | x :: xs => some (xs.foldl (fun a b => if a < b then b else a) x)

/-- `np.zeros((p, t, f), dtype=np.float32)`: negative dimensions raise -/
def zeros3 [OfNat K 0] (p t f : Int) : Option (List (List (List K))) :=
  if p < 0 ∨ t < 0 ∨ f < 0 then none
  else some (List.replicate p.toNat (List.replicate t.toNat (List.replicate f.toNat (0 : K))))

/-- `out[i, j, :k] = vv` on a 3-d array (`vv` a 1-d array): `i`, `j` as Python indices (IndexError out of range); the slice `:k` is
clamped to the row, and `vv` must have exactly its length (or length 1: broadcast) -/
def setRowPrefix3 (out : List (List (List α))) (i j k : Int) (vv : List α) : Option (List (List (List α))) :=
  (Py.idx out i).bind fun blk => (Py.idx blk j).bind fun row =>
    let w := (Py.slice row none (some k)).length
    (if vv.length = w then some vv else match vv with | [x] => some (List.replicate w x) | _ => none).bind fun src =>
      (Py.setIdx blk j (src ++ row.drop w)).bind fun blk' => Py.setIdx out i blk'

/-- `try: body` / `except Exception [as e]: raise K(msg) [from e]`: ANY exception of the body — a tracked one of a class below `Exception`, or an
untracked one (`err`: IndexError, ValueError of a numpy call, …, all below `Exception`) — is replaced by `exc`.  The handler only raises, so
the variables after an untracked exception do not matter: they are those at the entry of the `try`. -/
def tryAnyRaise {V R : Type} (body : V → Py.Res V (Except Py.Exc R)) (exc : Py.Exc) : V → Py.Res V (Except Py.Exc R) := fun v =>
  match body v with
  | .ret v' (.error x) => if x.isA "Exception" then .ret v' (.error exc) else .ret v' (.error x)
  | .err => .ret v (.error exc)
  | r => r

end Py.Sh
