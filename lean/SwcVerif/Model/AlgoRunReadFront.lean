import SwcVerif.Gen.AlgoReadFront
import SwcVerif.Gen.AlgoParse
import SwcVerif.Gen.AlgoRepair
import SwcVerif.Model.Basic
/-! C02 / C01, the FRONT END of the reader (T37 `readfront`).

`ReadFront.*`: the COMPOSITION of the generated stages in the order of the source - `parse_swc`: `extras = …` (generated
`parse_swc_extras`), `FileReader(fname, encoding=encoding)` (generated `file_reader_init` on a fresh object), `.__enter__()` (generated
`file_reader_enter`), the generated read loop `parse_swc` (Gen/AlgoParse) on the lines of the stream that `__enter__` returned; `read_swc`:
the generated tail `read_swc_fix` (Gen/AlgoRepair) on the columns `names.id / pid / type / r` of the table.  The composition itself
(which generated value is handed to which parameter of the next stage) is hand-written: see design_notes/session4/readfront.md.

`AlgoRun.handleReadFront`: driver op `greadfront`, the generated front end run next to the real `FileReader` / `parse_swc`. -/
namespace ReadFront
open Gen.Algo

variable {F : Type} [Inhabited F] [Add F] [Sub F] [Mul F] [OfNat F 0] [OfNat F 1] [LT F] [DecidableLT F] [LE F] [DecidableLE F]
variable {L Val C σ : Type} [Inhabited L] [Inhabited Val] [Inhabited C] [Inhabited σ]

/-- the reader object as the read loop sees it (Gen/AlgoParse: `f` = "there is a file object", `closed`) -/
def toParseReader (r : FileReaderFull) : FileReader := ⟨r.f.map (fun _ => ()), false⟩

/-- `FileReader(fname, encoding=encoding)` (a fresh object, `low_confidence` = the default of the signature, no further keyword arguments)
and `.__enter__()`: the warnings of `detect_encoding`, the reader, the text stream the `with` statement binds -/
def openReader (src : Py.Src) (encoding : String) (lowc : F) (chardet : Option String × F) : Option (List Int × FileReaderFull × Py.Src) :=
  (file_reader_init default src encoding lowc () chardet []).bind fun r =>
    (file_reader_enter r.1).bind fun e => e.2.map fun f => (r.2.1, e.1, f)

/-- `parse_swc(fname, names=names, extra_cols=extra_cols, encoding=encoding)`: `linesOf` is the world - what iterating a text stream
yields (the lines, then possibly a decode failure); the column keys are the generated `names.cols()` -/
def parseSwcFull (linesOf : Py.Src → Py.Stream L) (rowOf : L → Option (List Val × Bool)) (commentOf : L → Option C) (isHeader : C → Bool)
    (blank : L → Bool) (names : SWCNames7) (extra_cols : Option (List String)) (src : Py.Src) (encoding : String) (lowc : F)
    (chardet : Option String × F) :
    Option (List Int × List Py.Exc × FileReader × Except Py.Exc (Py.Dict String (List Val) × List C)) :=
  (parse_swc_extras extra_cols).bind fun x =>
    (swc_names_cols names).bind fun cols =>
      (openReader src encoding lowc chardet).bind fun o =>
        (parse_swc rowOf commentOf isHeader blank cols x.1 (toParseReader o.2.1) (linesOf o.2.2)).map fun p => (o.1, p)

/-- column `df[key]` of the table as integers -/
def colInt (intOf : Val → Int) (df : Py.Dict String (List Val)) (key : String) : Option (List Int) :=
  (Py.Dict.get? df key).map fun c => c.map intOf

/-- what `read_swc` returns: the table as parsed and the comments, the columns `names.id / pid / type / r` after repair + normalisation,
and the three logs of warnings (encoding detection, ignored fields, tree checks) -/
structure Out (Val C σ : Type) where
  df : Py.Dict String (List Val)
  comments : List C
  ids : List Int
  pids : List Int
  types : List Int
  rs : List Int
  warnDetect : List Int
  warnParse : List Py.Exc
  warnCheck : List Int
  cbs : σ

/-- `read_swc(swc_file, extra_cols, fix_roots, sort_nodes, reset_index, encoding=encoding, names=names)`: the generated first half
(`read_swc_front`: `get_names`, then the call of `parse_swc` = `parseSwcFull` with the arguments as the source binds them), then the
generated tail on the columns `df[names.id]`, `df[names.pid]`, `df[names.type]`, `df[names.r]`; `none` = an exception of an untracked kind,
`error e` = the exception `parse_swc` raises -/
def readSwcFull (linesOf : Py.Src → Py.Stream L) (rowOf : L → Option (List Val × Bool)) (commentOf : L → Option C) (isHeader : C → Bool)
    (blank : L → Bool) (intOf : Val → Int) (norm : σ → Int → σ × List Int) (fuel : Nat)
    (src : Py.Src) (extra_cols : Option (List String)) (fix_roots : Option String) (sort_nodes reset_index : Bool) (encoding : String)
    (names : Option SWCNames7) (lowc : F) (chardet : Option String × F) (cbs : σ) : Option (Except Py.Exc (Out Val C σ)) :=
  (read_swc_front (fun f nm xs enc => (parseSwcFull linesOf rowOf commentOf isHeader blank nm xs f enc lowc chardet).map fun p => (p, ()))
      src extra_cols encoding names).bind fun r =>
    let nm := r.1
    let p := r.2.1
    match p.2.2.2 with
    | .error e => some (.error e)
    | .ok (df, comments) =>
      (colInt intOf df nm.id).bind fun ids => (colInt intOf df nm.pid).bind fun pids =>
      (colInt intOf df nm.type).bind fun types => (colInt intOf df nm.r).bind fun rs =>
      (read_swc_fix norm fuel ids pids types rs fix_roots sort_nodes reset_index cbs).map fun r =>
        .ok ⟨df, comments, r.1, r.2.1, r.2.2.1, r.2.2.2.1, p.1, p.2.1, r.2.2.2.2.1, r.2.2.2.2.2.1⟩

end ReadFront

namespace AlgoRun
open Gen.Algo

def showSrc : Py.Src → String
  | .text h e => s!"text:{h}:{e}"
  | .bytes h => s!"bytes:{h}"
  | .path n => s!"path:{n}"
  | .wrapped h e => s!"wrapped:{h}:{e}"
  | .opened n e => s!"opened:{n}:{e}"

def showOptSrc : Option Py.Src → String
  | some s => showSrc s
  | none => "None"

/-- `greadfront kind=text|bytes|path enc0=<the stream's .encoding> name=<path> encoding=<argument> det=<chardet encoding | None>
conf=<int> lowc=<int> extra=None|_|a,b,…` (confidences scaled to integers by the harness, exactly) →
`ok fname=<src> fb=<src> f=<src> encoding=<enc> ret=<src> warn=<sites> extras=<a,b|_>` / `E` -/
def handleReadFront (args : List String) : String :=
  match Proto.arg args "kind", Proto.arg args "enc0", Proto.arg args "name", Proto.arg args "encoding", Proto.arg args "det",
      Proto.argInt args "conf", Proto.argInt args "lowc", Proto.arg args "extra" with
  | some kind, some enc0, some name, some enc, some det, some conf, some lowc, some extra =>
    let src : Py.Src := if kind = "text" then .text 1 enc0 else if kind = "bytes" then .bytes 1 else .path name
    let chardet : Option String × Int := (if det = "None" then none else some (if det = "_" then "" else det), conf)
    let xs : Option (List String) := if extra = "None" then none else some (if extra = "_" then [] else extra.splitOn ",")
    match ReadFront.openReader src enc lowc chardet, parse_swc_extras xs with
    | some (ws, r, f), some (ex, _) =>
      s!"ok fname={showSrc r.fname} fb={showOptSrc r.fb} f={showOptSrc r.f} encoding={r.encoding} ret={showSrc f} warn={Proto.showInts ws} extras={if ex.isEmpty then "_" else ",".intercalate ex}"
    | _, _ => "E"
  | _, _, _, _, _, _, _, _ => "bad-args"

/-- `gprologue extra=_|a,b,…` → `re=<regex text> last=<n> tf=<0|1,…> hdr=<ignored comment>` (default names) / `E` -/
def handlePrologue (args : List String) : String :=
  match Proto.arg args "extra" with
  | some extra =>
    let xs : List String := if extra = "_" then [] else extra.splitOn ","
    match (get_names none).bind fun nm => parse_swc_prologue nm xs with
    | some (tf, re, last, hdr, _) => s!"re={re} last={last} tf={Proto.showInts tf} hdr={hdr}"
    | none => "E"
  | none => "bad-args"

/-- `gtreefromswc kind=text|bytes|path name=<path> read=ok|<exception class> fdf=ok|<exception class>`: the generated `Tree.from_swc` with
`read_swc` / `from_data_frame` stubs that return or raise as told, `abspath s = "ABS(" ++ s ++ ")"` →
`ok source=<source handed to from_data_frame>` / `error <kind> msg=<template>` / `E` -/
def handleTreeFromSwc (args : List String) : String :=
  match Proto.arg args "kind", Proto.arg args "name", Proto.arg args "read", Proto.arg args "fdf" with
  | some kind, some name, some rd, some fdf =>
    let src : Py.Src := if kind = "text" then .text 1 "utf-8" else if kind = "bytes" then .bytes 1 else .path name
    let readStub : Py.Src → Unit → Except Py.Exc (Int × Int) := fun _ _ => if rd = "ok" then .ok (1, 2) else .error ⟨rd, "stub", []⟩
    let fdfStub : Int → String → Int → Except Py.Exc String := fun _ s _ => if fdf = "ok" then .ok s else .error ⟨fdf, "stub", []⟩
    match tree_from_swc readStub fdfStub (fun s => "ABS(" ++ s ++ ")") src () with
    | some (.ok s) => s!"ok source={s}"
    | some (.error e) => s!"error {e.kind} msg={e.msg}"
    | none => "E"
  | _, _, _, _ => "bad-args"

/-- `gtreefromeswc extra=None|_|a,b,…` → `extras=<the extra_cols from_eswc hands to from_swc>` / `E` -/
def handleTreeFromEswc (args : List String) : String :=
  match Proto.arg args "extra" with
  | some extra =>
    let xs : Option (List String) := if extra = "None" then none else some (if extra = "_" then [] else extra.splitOn ",")
    match from_eswc_extras xs with
    | some (ex, _) => s!"extras={",".intercalate ex}"
    | none => "E"
  | none => "bad-args"

end AlgoRun
