import SwcVerif.Gen.AlgoCat
import SwcVerif.Model.Basic
/-! Driver side of the imperative translator for C07 (see `AlgoRunRedirect.lean`): the GENERATED `cat_tree` (with the generated
node-handle methods, `redirect_tree` and the six-column `_sort_tree`) is run on the same protocol lines as the hand-written model
`Redir.catTree` (op `cat`) and the real function. -/
namespace AlgoRun
open Gen.Algo

/-- `gcat p1=.. t1=.. x1=.. y1=.. z1=.. p2=.. t2=.. x2=.. y2=.. z2=.. n1=a n2=b tr=0|1` → `ids / pids / x / y / z / types` of the tree the
GENERATED `cat_tree` returns (`E` = any exception); the two input trees are `Tree` objects (ids = positions) -/
def handleCat (args : List String) : String :=
  let g := fun k => Proto.argInts args k
  match g "p1", g "t1", g "x1", g "y1", g "z1", g "p2", g "t2", g "x2", g "y2", g "z2",
        Proto.argInt args "n1", Proto.argInt args "n2", Proto.argNat args "tr" with
  | some p1, some t1, some x1, some y1, some z1, some p2, some t2, some x2, some y2, some z2, some n1, some n2, some tr =>
    let ids1 := (List.range p1.length).map (fun (k : Nat) => (k : Int))
    let ids2 := (List.range p2.length).map (fun (k : Nat) => (k : Int))
    match cat_tree (p1.length + p2.length + 3) ids1 p1 t1 x1 y1 z1 ids2 p2 t2 x2 y2 z2 n1 n2 (tr = 1) with
    | none => "E"
    | some r => s!"{Proto.showInts r.1} / {Proto.showInts r.2.1} / {Proto.showInts r.2.2.2.1} / {Proto.showInts r.2.2.2.2.1} / {Proto.showInts r.2.2.2.2.2.1} / {Proto.showInts r.2.2.1}"
  | _, _, _, _, _, _, _, _, _, _, _, _, _ => "bad-args"

end AlgoRun
