import SwcVerif.Gen.AlgoDsu
import SwcVerif.Gen.AlgoTraverse
import SwcVerif.Gen.AlgoSort
import SwcVerif.Gen.AlgoCheckers
import SwcVerif.Model.Dsu
import SwcVerif.Model.Traverse
/-! Driver side of the imperative translator: the definitions GENERATED from the current sources are run on the
same protocol lines as the hand-written models, so that the translator (and the semantics library `Model/Py.lean`)
is cross-checked against the real functions by the correspondence suites. -/
namespace AlgoRun
open Gen.Algo Dsu

/-- run a script on the generated object with the generated methods (`none` = an exception) -/
def genRun (F : Nat) : DisjointSetUnion → List Op → List (Option Bool)
  | _, [] => []
  | g, .union a b :: ops =>
    match dsu_union_sets F g (a : Int) (b : Int) with
    | none => [none]
    | some r => genRun F r.1 ops
  | g, .same a b :: ops =>
    match dsu_is_same_set F g (a : Int) (b : Int) with
    | none => [none]
    | some r => some r.2 :: genRun F r.1 ops

/-- `gdsu n=<k> ops=u:a:b;s:a:b;…` → answers of the queries, computed by the generated code -/
def handleDsu (args : List String) : String :=
  match Proto.argNat args "n", (Proto.arg args "ops").bind parseOps with
  | some n, some ops =>
    match dsu_init default (n : Int) with
    | none => "E"
    | some (g, _) => "".intercalate ((genRun (ops.length + 1) g ops).map showOB)
  | _, _ => "bad-args"

/-- `gtrav ids=.. pids=.. root=r` → call log and return value of the GENERATED `_traverse_dfs` (logging callbacks of
`Model/Traverse.lean`); `E` = an exception -/
def handleTrav (args : List String) : String :=
  match Proto.argInts args "ids", Proto.argInts args "pids", Proto.argInt args "root" with
  | some ids, some pids, some root =>
    match traverse_dfs Trav.logEnter Trav.logLeave (2 * ids.length + 3) (ids, pids) root ([] : List Trav.Ev) with
    | none => "E"
    | some (log, ret) => s!"{" ".intercalate (log.reverse.map Trav.Ev.show)} ret={ret} stack=0"
  | _, _, _ => "bad-args"

/-- `gsort ids=.. pids=..` → `new_pids / indices` of the GENERATED `sort_nodes_impl` (`error` = any exception) -/
def handleSort (args : List String) : String :=
  match Proto.argInts args "ids", Proto.argInts args "pids" with
  | some ids, some pids =>
    match sort_nodes_impl (ids.length + 2) (ids, pids) with
    | none => "error"
    | some r => s!"{Proto.showInts r.1.2} / {Proto.showInts r.2}"
  | _, _ => "bad-args"

/-- `ggetdsu ids=.. pids=..` → labels computed by the GENERATED `get_dsu` (`E` = KeyError / fuel) -/
def handleGetDsu (args : List String) : String :=
  match Proto.argInts args "ids", Proto.argInts args "pids" with
  | some ids, some pids =>
    match get_dsu (ids.length * ids.length + 2) ids pids with
    | none => "E"
    | some l => Proto.showInts l
  | _, _ => "bad-args"

def handle (op : String) (args : List String) : String :=
  match op with
  | "ggetdsu" => handleGetDsu args
  | "gsort" => handleSort args
  | "gdsu" => handleDsu args
  | "gtrav" => handleTrav args
  | _ => "bad-op"
end AlgoRun
