import SwcVerif.Gen.AlgoDsu
import SwcVerif.Gen.AlgoTraverse
import SwcVerif.Gen.AlgoSort
import SwcVerif.Gen.AlgoCheckers
import SwcVerif.Gen.AlgoPopulation
import SwcVerif.Gen.AlgoSubtree
import SwcVerif.Model.Population
import SwcVerif.Model.Dsu
import SwcVerif.Model.Traverse
/-! Driver side of the imperative translator: the definitions GENERATED from the current sources are run on the
same protocol lines as the hand-written models, so that the translator (and the semantics library `Model/Py.lean`)
is cross-checked against the real functions by the correspondence suites. -/
namespace AlgoRun
open Gen.Algo Dsu

/-- run a script on the generated object with the generated methods (`none` = an exception) -/
def genRun (F : Nat) : DisjointSetUnion → List Op → List (Option Bool)
  | _, [] => []
  | g, .union a b :: ops =>
    match dsu_union_sets F g (a : Int) (b : Int) with
    | none => [none]
    | some r => genRun F r.1 ops
  | g, .same a b :: ops =>
    match dsu_is_same_set F g (a : Int) (b : Int) with
    | none => [none]
    | some r => some r.2 :: genRun F r.1 ops

/-- `gdsu n=<k> ops=u:a:b;s:a:b;…` → answers of the queries, computed by the generated code -/
def handleDsu (args : List String) : String :=
  match Proto.argNat args "n", (Proto.arg args "ops").bind parseOps with
  | some n, some ops =>
    match dsu_init default (n : Int) with
    | none => "E"
    | some (g, _) => "".intercalate ((genRun (ops.length + 1) g ops).map showOB)
  | _, _ => "bad-args"

/-- `gtrav ids=.. pids=.. root=r` → call log and return value of the GENERATED `_traverse_dfs` (logging callbacks of
`Model/Traverse.lean`); `E` = an exception -/
def handleTrav (args : List String) : String :=
  match Proto.argInts args "ids", Proto.argInts args "pids", Proto.argInt args "root" with
  | some ids, some pids, some root =>
    match traverse_dfs Trav.logEnter Trav.logLeave (2 * ids.length + 3) (ids, pids) root ([] : List Trav.Ev) with
    | none => "E"
    | some (log, ret) => s!"{" ".intercalate (log.reverse.map Trav.Ev.show)} ret={ret} stack=0"
  | _, _, _ => "bad-args"

/-- `gsort ids=.. pids=..` → `new_pids / indices` of the GENERATED `sort_nodes_impl` (`error` = any exception) -/
def handleSort (args : List String) : String :=
  match Proto.argInts args "ids", Proto.argInts args "pids" with
  | some ids, some pids =>
    match sort_nodes_impl (ids.length + 2) (ids, pids) with
    | none => "error"
    | some r => s!"{Proto.showInts r.1.2} / {Proto.showInts r.2}"
  | _, _ => "bad-args"

/-- `ggetdsu ids=.. pids=..` → labels computed by the GENERATED `get_dsu` (`E` = KeyError / fuel) -/
def handleGetDsu (args : List String) : String :=
  match Proto.argInts args "ids", Proto.argInts args "pids" with
  | some ids, some pids =>
    match get_dsu (ids.length * ids.length + 2) ids pids with
    | none => "E"
    | some l => Proto.showInts l
  | _, _ => "bad-args"

/-- one operation of the `lazy` protocol on the GENERATED `LazyLoadingTrees` methods -/
def gLazyStep (st : LazyLoadingTrees × List Int) : Pop.LOp → (LazyLoadingTrees × List Int) × String
  | .get key => match lazy_getitem Pop.readLog st.1 key st.2 with
    | none => (st, "E")
    | some (g, log, t) => ((g, log), match t with | some k => s!"[{k}]" | none => "[none]")
  | .load k => match lazy_len st.1 with
    | some n => if (k : Int) < n then
        (match lazy_load Pop.readLog st.1 (k : Int) st.2 with
         | none => (st, "E")
         | some (g, log, _) => ((g, log), "[]"))
      else (st, "E")
    | none => (st, "E")
  | .iter => match lazy_len st.1 with
    | some n =>
      let r := (Py.range n).foldl (fun (acc : (LazyLoadingTrees × List Int) × List String) i =>
        match lazy_getitem Pop.readLog acc.1.1 i acc.1.2 with
        | none => (acc.1, acc.2 ++ ["E"])
        | some (g, log, t) => ((g, log), acc.2 ++ [match t with | some k => toString k | none => "none"])) (st, [])
      (r.1, "[" ++ ",".intercalate r.2 ++ "]")
    | none => (st, "E")
  | .len => match lazy_len st.1 with
    | some n => (st, s!"[{n}]")
    | none => (st, "E")

/-- `glazy n=<k> pop=0|1 ops=…` : the `lazy` protocol answered by the generated code -/
def handleLazy (args : List String) : String :=
  match Proto.argNat args "n", (Proto.arg args "ops").bind Pop.parseLOps with
  | some n, some ops =>
    let g0 : LazyLoadingTrees := ⟨(List.range n).map (fun (k : Nat) => (k : Int)), List.replicate n none⟩
    let s0 : LazyLoadingTrees × List Int :=
      if Proto.argNat args "pop" = some 1 && n > 0 then (gLazyStep (g0, []) (.get 0)).1 else (g0, [])
    let r := ops.foldl (fun (acc : (LazyLoadingTrees × List Int) × List String) op =>
      let st := gLazyStep acc.1 op
      (st.1, acc.2 ++ [st.2])) (s0, [])
    " ".intercalate r.2 ++ " / " ++ Proto.showInts r.1.2
  | _, _ => "bad-args"

/-- `gchain lens=… keys=…` : members are lists of tree identifiers `1000·member + local index`; answers `len` and per key
`member:local` or `E`, computed by the generated `ChainTrees.__init__ / __len__ / __getitem__` -/
def handleChain (args : List String) : String :=
  match Proto.argInts args "lens", Proto.argInts args "keys" with
  | some lens, some keys =>
    let trees : List (List Int) := (List.range lens.length).map fun (m : Nat) =>
      (List.range (lens.getD m 0).toNat).map fun (j : Nat) => (1000000 * (m : Int) + (j : Int))
    match chain_init default trees with
    | none => "E"
    | some (c, _) =>
      let n := match chain_len c with | some n => toString n | none => "E"
      s!"{n} " ++ " ".intercalate (keys.map fun k => match chain_getitem (trees.length + 1) c k with
        | none => "E" | some t => s!"{t / 1000000}:{t % 1000000}")
  | _, _ => "bad-args"

/-- `gsubtopo ids=.. pids=..` → `new_pid / mapping` of the GENERATED `to_sub_topology` (`E` = KeyError) -/
def handleSubTopo (args : List String) : String :=
  match Proto.argInts args "ids", Proto.argInts args "pids" with
  | some ids, some pids =>
    match to_sub_topology (ids, pids) with
    | none => "E"
    | some r => s!"{Proto.showInts r.1.2} / {Proto.showInts r.2}"
  | _, _ => "bad-args"

def handle (op : String) (args : List String) : String :=
  match op with
  | "gsubtopo" => handleSubTopo args
  | "glazy" => handleLazy args
  | "gchain" => handleChain args
  | "ggetdsu" => handleGetDsu args
  | "gsort" => handleSort args
  | "gdsu" => handleDsu args
  | "gtrav" => handleTrav args
  | _ => "bad-op"
end AlgoRun
