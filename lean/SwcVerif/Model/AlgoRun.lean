import SwcVerif.Model.AlgoRunDsu
import SwcVerif.Model.AlgoRunTraverse
import SwcVerif.Model.AlgoRunSort
import SwcVerif.Model.AlgoRunSubtree
import SwcVerif.Model.AlgoRunPopulation
import SwcVerif.Model.AlgoRunNormalizer
import SwcVerif.Model.AlgoRunBranches
import SwcVerif.Model.AlgoRunRedirect
import SwcVerif.Model.AlgoRunAssemble
import SwcVerif.Model.AlgoRunLMeasure
import SwcVerif.Model.AlgoRunNodeBranch
import SwcVerif.Model.AlgoRunMst
import SwcVerif.Model.AlgoRunParse
import SwcVerif.Model.AlgoRunCut
import SwcVerif.Model.AlgoRunRepair
import SwcVerif.Model.AlgoRunAsc
import SwcVerif.Model.AlgoRunBranchTree
/-! all runners of generated definitions (imported by the root module only; the driver imports them one by one) -/
