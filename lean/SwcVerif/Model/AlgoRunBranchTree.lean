import SwcVerif.Gen.AlgoBranchTree
import SwcVerif.Model.BranchTree
/-! Driver side of the imperative translator for `BranchTree.from_tree` (see `AlgoRunDsu.lean`): the GENERATED definition (on the generated
`Tree.get_branches`, `_traverse_dfs` and `to_sub_topology`) is run on the same protocol lines as the hand-written model and the real
classmethod.  The input tree is a `Tree` object (ids = positions). -/
namespace AlgoRun
open Gen.Algo

/-- `gbrtable pids=..` → `id / pid / src / br` of the object the GENERATED `BranchTree.from_tree` returns (`E` = any exception) -/
def handleBranchTree (args : List String) : String :=
  match Proto.argInts args "pids" with
  | some pids =>
    let ids := (List.range pids.length).map (fun (k : Nat) => (k : Int))
    match bt_from_tree (2 * pids.length + 3) ids pids with
    | none => "E"
    | some r => s!"n={r.n} id={Proto.showInts r.id} / pid={Proto.showInts r.pid} / src={Proto.showInts r.src} / br={Branches.showGroups r.branches}"
  | none => "bad-args"

end AlgoRun
