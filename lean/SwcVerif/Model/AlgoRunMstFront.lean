import SwcVerif.Gen.AlgoMstFront
import SwcVerif.Model.Mst
/-! Driver side of the imperative translator for C17 (front end): the definition GENERATED from the whole body of
`PointsToCuntzMST.__call__` (up to the construction of the tree) is run at `K = Rat`. The vector norm `np.linalg.norm(·, axis=2)` is a
parameter of the generated definition; the driver instantiates it with the TABLE of the float norms the library computed (sent exactly, floats
are dyadic rationals): `norm v` = the entry `d[i][j]` of the first pair with `p[i] - p[j] = v`. -/
namespace AlgoRun
open Gen.Algo

/-- the norm given as a table: difference vector ↦ value -/
def mstNormTable (p : List (List Rat)) (d : List (List Rat)) : List (List Rat × Rat) :=
  (List.zip p d).flatMap fun (a, row) => (List.zip p row).map fun (b, x) => (List.zipWith (fun x y => x - y) a b, x)

def mstNormOf (tbl : List (List Rat × Rat)) (v : List Rat) : Rat :=
  match tbl.find? (fun e => e.1 == v) with
  | some e => e.2
  | none => 0

def mstRows? (s : String) : Option (List (List Rat)) := ((s.splitOn ";").filter (· ≠ "")).mapM Resample.rats

/-- `gmstcall bf=<rat> k=<-1|k> ex=0|1 tg=<int> ts=<int> soma=<x,y,z>|- p=<row;row;…> d=<row;row;…>` (`p`: the cloud WITHOUT the soma, `d`: the
float distance matrix of soma + cloud) → `ids|types|xs|ys|zs|r|pid` of the table the GENERATED `__call__` assembles (`E` = any exception) -/
def handleMstCall (args : List String) : String :=
  match (Proto.arg args "p").bind mstRows?, (Proto.arg args "d").bind mstRows?, (Proto.arg args "bf").bind Resample.rat?,
      Proto.argInt args "k", Proto.argNat args "ex", Proto.argInt args "tg", Proto.argInt args "ts", Proto.arg args "soma" with
  | some p, some d, some bf, some k, some ex, some tg, some ts, some somaS =>
    match (if somaS = "-" then some none else (Resample.rats somaS).map some : Option (Option (List Rat))) with
    | none => "bad-args"
    | some soma =>
      let all := match soma with | some s => s :: p | none => p
      let tbl := mstNormTable all d
      match mst_call (K := Rat) (mstNormOf tbl) p soma bf k (ex = 1) tg ts with
      | none => "E"
      | some r => "|".intercalate [Proto.showInts r.1, Proto.showInts r.2.1, Resample.showRats r.2.2.1, Resample.showRats r.2.2.2.1,
          Resample.showRats r.2.2.2.2.1, toString r.2.2.2.2.2.1, Proto.showInts r.2.2.2.2.2.2.1]
  | _, _, _, _, _, _, _, _ => "bad-args"

end AlgoRun
