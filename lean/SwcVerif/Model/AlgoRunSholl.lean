import SwcVerif.Gen.AlgoSholl
import SwcVerif.Gen.AlgoFeatFront
import SwcVerif.Model.Resample
/-! Driver side of the imperative translator for C10 (T16 `sholl`): the GENERATED `Sholl.__init__` / `intersect` / `get` / `get_rs` and the
generated padding front end (`Population(s)FeatureExtractor._get_impl`) are run at `K = Rat` on protocol lines built from the real
functions' inputs.  Distances to the root (`rad`) and radii are exact rationals (the suites use trees whose distances are stored
exactly). -/
namespace AlgoRun
open Gen.Algo
open Resample (rats rat? showRat showRats)

private def showRows (m : List (List Rat)) : String := ";".intercalate (m.map fun r => if r.isEmpty then "_" else showRats r)

/-- `gsholl pids=… rad=<rats> [step=<rat>] what=init|intersect|get|getn|rs|rsn [r=<rats>] [n=<int>]`
* `init`: `rmax rows` of the object the GENERATED `__init__` builds (`X:<class>` = the exception it raises, `E` = untracked)
* `intersect r=`: one generated `intersect` per radius; `get r=`: generated `get(steps=[…])`; `getn n=`: `get(steps=n)`;
  `rs r=` / `rsn n=`: the generated `_get_rs` -/
def handleSholl (args : List String) : String :=
  match Proto.argInts args "pids", (Proto.arg args "rad").bind rats, Proto.arg args "what" with
  | some pids, some rad, some what =>
    let step : Option Rat := (Proto.arg args "step").bind rat?
    let ids := Py.range pids.length
    match sholl_init (K := Rat) ids pids rad step with
    | none => "E"
    | some (_, _, _, _, .error e) => s!"X:{e.kind}"
    | some (rs, rmax, sstep, ws, .ok _) =>
      let rsA := (Proto.arg args "r").bind rats
      let n := Proto.argInt args "n"
      let showO (o : Option (List Int)) : String := match o with | none => "E" | some l => Proto.showInts l
      let showR (o : Option (List Rat)) : String := match o with | none => "E" | some l => if l.isEmpty then "_" else showRats l
      match what, rsA, n with
      | "init", _, _ => s!"{showRat rmax} {showRows rs} w={ws.length}"
      | "intersect", some r, _ => showO (r.mapM fun x => sholl_intersect rs x)
      | "get", some r, _ => showO (sholl_get_arr Py.ratFld rs rmax sstep r)
      | "getn", _, some k => showO (sholl_get_int Py.ratFld rs rmax sstep k)
      | "rs", some r, _ => showR (sholl_get_rs_self_arr Py.ratFld rmax sstep r)
      | "rsn", _, some k => showR (sholl_get_rs_self_int Py.ratFld rmax sstep k)
      | _, _, _ => "bad-args"
  | _, _, _ => "bad-args"

private def rows? (s : String) : Option (List (List Rat)) := if s = "" then some [] else (s.splitOn ";").mapM rats

/-- `gpoprows vals=<row;row;…>` (a row is comma-separated rationals, `_` = the empty vector; no rows: `vals=`): the rows the GENERATED
`PopulationFeatureExtractor._get_impl` stacks.  `gpoprows3 vals=<block|block|…>`: the GENERATED `PopulationsFeatureExtractor._get_impl`
(a block is `row;row;…`, `~` = a population without trees).  `E` = any exception -/
def handlePopRows (three : Bool) (args : List String) : String :=
  match Proto.arg args "vals" with
  | none => "bad-args"
  | some s =>
    if three then
      match (if s = "" then some [] else (s.splitOn "|").mapM fun b => if b = "~" then some [] else rows? b) with
      | none => "bad-args"
      | some vals =>
        match populations_get_impl (K := Rat) vals with
        | none => "E"
        | some out => "|".intercalate (out.map fun b => if b.isEmpty then "~" else showRows b)
    else
      match rows? s with
      | none => "bad-args"
      | some vals =>
        match population_get_impl (K := Rat) vals with
        | none => "E"
        | some out => showRows out
end AlgoRun
