import SwcVerif.Gen.AlgoRedirect
import SwcVerif.Model.Basic
/-! Driver side of the imperative translator for C07 (see `AlgoRunSort.lean`): the GENERATED `redirect_tree` (with the generated
`Tree.Node.parent` and `_sort_tree`) is run on the same protocol lines as the hand-written model and the real function. -/
namespace AlgoRun
open Gen.Algo

/-- `gredirect pids=.. types=.. root=k sort=0|1` → `ids / pids / types` of the tree the GENERATED `redirect_tree` leaves behind
(`E` = any exception); the input tree is a `Tree` object (ids = positions) -/
def handleRedirect (args : List String) : String :=
  match Proto.argInts args "pids", Proto.argInts args "types", Proto.argInt args "root", Proto.argNat args "sort" with
  | some pids, some tys, some root, some srt =>
    let ids := (List.range pids.length).map (fun (k : Nat) => (k : Int))
    match redirect_tree (pids.length + 3) ids pids tys root (srt = 1) with
    | none => "E"
    | some r => s!"{Proto.showInts r.1} / {Proto.showInts r.2.1} / {Proto.showInts r.2.2.1}"
  | _, _, _, _ => "bad-args"

end AlgoRun
