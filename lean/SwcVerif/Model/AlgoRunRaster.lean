import SwcVerif.Gen.AlgoRaster
import SwcVerif.Model.Resample
/-! Driver side of the imperative translator for C20 (see `AlgoRunSort.lean`): the GENERATED `ToImageStack._get_samplers`, `_get_scene` (with its
`leave` closure, through the generated `Tree.traverse`) and `transform` (Gen/AlgoRaster.lean) are run at `K = Rat` on the same inputs as the real
methods; the sdflit sampler is the callback that records the sampler and the size of the scene it is handed. -/
namespace AlgoRun
open Gen.Algo

def showTriple (p : Rat × Rat × Rat) : String := Resample.showRats [p.1, p.2.1, p.2.2]

def showSampler (s : Py.RangeSampler Rat) : String := s!"{showTriple s.lo};{showTriple s.hi};{showTriple s.stride}"

def showSdf : Py.Sdf Rat → String
  | .sphere c r => s!"ball {Resample.showRats [c.1, c.2.1, c.2.2, r]}"
  | .cone a b ra rb => s!"cone {Resample.showRats [a.1, a.2.1, a.2.2, b.1, b.2.1, b.2.2, ra, rb]}"

/-- the distance of a node to its parent, given per child row (`d=`): `dist c n = d[c]` -/
def distOf (d : List Rat) : Int → Int → Rat := fun c _ => d.getD c.toNat 0

def rowsOf (x y z : List Rat) : List (List Rat) := (List.range x.length).map fun i => [x.getD i 0, y.getD i 0, z.getD i 0]

/-- `gsamplers min=x,y,z max=x,y,z res=x,y,z` → the samplers the GENERATED `_get_samplers` yields, `lo;hi;stride` each, joined by ` | `
(`E` = any exception, fuel included);
`gscene pids= x= y= z= r= d=` → the solids the GENERATED `_get_scene` adds, in order (`d[c]` = the distance of node `c` to its parent);
`graster pids= x= y= z= r= d= res=` → `<number of frames> # <samplers handed to sample, in order> # <size of the scene each one was handed>` of the
GENERATED `transform` -/
def handleRaster (what : String) (args : List String) : String :=
  match what with
  | "gsamplers" =>
    match Resample.argRats args "min", Resample.argRats args "max", Resample.argRats args "res" with
    | some lo, some hi, some res =>
      match raster_get_samplers (K := Rat) Py.ratFld 100000 lo hi res with
      | none => "E"
      | some (ys, _) => " | ".intercalate (ys.map showSampler)
    | _, _, _ => "bad-args"
  | _ =>
    match Proto.argInts args "pids", Resample.argRats args "x", Resample.argRats args "y", Resample.argRats args "z",
        Resample.argRats args "r", Resample.argRats args "d" with
    | some pids, some x, some y, some z, some r, some d =>
      let ids := (List.range pids.length).map (fun (k : Nat) => (k : Int))
      let fuel := 2 * pids.length + 100000
      if what = "gscene" then
        match raster_get_scene (K := Rat) (distOf d) fuel ids pids (rowsOf x y z) r with
        | none => "E"
        | some sc => " | ".intercalate (sc.map showSdf)
      else
        match Resample.argRats args "res" with
        | none => "bad-args"
        | some res =>
          let sample : List (Py.RangeSampler Rat × Nat) → Py.RangeSampler Rat → List (Py.Sdf Rat) → List (Py.RangeSampler Rat × Nat) × Unit :=
            fun log s sc => (log ++ [(s, sc.length)], ())
          match raster_transform (K := Rat) (σ := List (Py.RangeSampler Rat × Nat)) (ψ := Unit) (φ := Unit) sample Py.ratFld Py.ratFlr (distOf d)
              (fun _ => ()) fuel ids pids (rowsOf x y z) r res [] with
          | none => "E"
          | some (frames, log, _) =>
            s!"{frames.length} # {" | ".intercalate (log.map fun p => showSampler p.1)} # {Proto.showNats (log.map (·.2))}"
    | _, _, _, _, _, _ => "bad-args"

end AlgoRun
