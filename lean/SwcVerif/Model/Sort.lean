import SwcVerif.Model.Basic
/-! Model of `swcgeom.core.swc_utils.normalizer.sort_nodes_impl` / `sort_nodes_` / `tree_utils._sort_tree`:
the stack loop `while len(s) != 0: old_id, new_pid = s.pop(); …; s.extend((j, new_id) for j in children)`. -/
namespace SortM

/-- machine state: stack of (old id, new parent id), top = head; output rows (old id, new parent id)
in order of new id (`id_map[new_id]`, `new_pids[new_id]`) -/
structure St where
  stack : List (Int × Int)
  out   : List (Int × Int)

def step (kidsOf : Int → List Int) (st : St) : Option St :=
  match st.stack with
  | [] => none
  | (o, p) :: rest =>
    let k : Int := st.out.length
    some { stack := ((kidsOf o).map (·, k)).reverse ++ rest, out := st.out ++ [(o, p)] }

def run (kidsOf : Int → List Int) : Nat → St → St
  | 0, st => st
  | n+1, st => match step kidsOf st with
    | none => st
    | some st' => run kidsOf n st'

/-- `old_ids[(old_pids == -1).argmax()]` -/
def firstRoot : List Int → List Int → Option Int
  | i :: is, p :: ps => if p = -1 then some i else firstRoot is ps
  | _, _ => none

def countRoots (pids : List Int) : Nat := (pids.filter (· = -1)).length

/-- position of an id in the table: `id2idx` (ids are distinct in every table the properties speak of) -/
def indexOf (ids : List Int) (i : Int) : Nat := ids.idxOf i

structure Result where
  idMap   : List Int      -- new id ↦ old id
  newPids : List Int      -- new id ↦ new parent id
  indices : List Nat      -- new id ↦ old row
deriving Repr, DecidableEq

inductive Err where
  | notSingleRoot         -- the `assert`
  | overflow              -- more pops than rows (IndexError) or fewer (KeyError on the -3 filler)
deriving Repr, DecidableEq

/-- `sort_nodes_impl((ids, pids))` -/
def sortNodesImpl (ids pids : List Int) : Except Err Result :=
  if countRoots pids ≠ 1 then .error .notSingleRoot else
  match firstRoot ids pids with
  | none => .error .notSingleRoot
  | some root =>
    -- the loop pops at most once per row in a forest; `n + 1` steps detect an overflow
    let st := run (tableKids ids pids) (ids.length + 1) ⟨[(root, -1)], []⟩
    if st.out.length ≠ ids.length || !st.stack.isEmpty then .error .overflow
    else .ok ⟨st.out.map (·.1), st.out.map (·.2), st.out.map (fun op => indexOf ids op.1)⟩

/-- `df[col] = df[col][indices]` / `ndata[k][id_map]` for one column -/
def permute {α} [Inhabited α] (col : List α) (indices : List Nat) : List α := indices.map (fun k => col.getD k default)

/-- `is_sorted`: `np.all(pids < ids)` -/
def isSorted (ids pids : List Int) : Bool := (List.zipWith (fun i p => decide (p < i)) ids pids).all id

def handle (args : List String) : String :=
  match Proto.argInts args "ids", Proto.argInts args "pids" with
  | some ids, some pids =>
    match sortNodesImpl ids pids with
    | .error .notSingleRoot => "error notSingleRoot"
    | .error .overflow => "error overflow"
    | .ok r => s!"{Proto.showInts r.newPids} / {Proto.showNats r.indices} / {Proto.showInts r.idMap}"
  | _, _ => "bad-args"

def handleIsSorted (args : List String) : String :=
  match Proto.argInts args "ids", Proto.argInts args "pids" with
  | some ids, some pids => if isSorted ids pids then "True" else "False"
  | _, _ => "bad-args"
end SortM
