import SwcVerif.Gen.AlgoAffine
import SwcVerif.Gen.Matrices
import SwcVerif.Model.Basic
/-! Driver side of the imperative translator for C12 / C03 (see `AlgoRunSort.lean`): the GENERATED constructors of the transform classes,
`AffineTransform.__call__` / `apply`, `TranslateOrigin.transform` and `Transforms.__call__` are run at `K = Float` on whole trees
(the model op `affine` evaluates `Gen.Affine.applyPoint` on one point). -/
namespace AlgoRun
open Gen.Algo

instance floatFld : Py.Fld Float := ⟨fun a b => a / b, fun i => Float.ofInt i, fun x => x.ceil.toInt64.toInt⟩

/-- a tree as its seven columns -/
abbrev AffTree := (List Int) × ((List Int) × ((List Int) × ((List Float) × ((List Float) × ((List Float) × (List Float))))))

/-- the object a constructor call builds: (`self.tm`, `self.center`), through the GENERATED `__init__`s; `center=default` leaves the
argument out (the default then comes from the signature: `Gen.Affine.defaultCenter*`, regenerated from the source as well) -/
def affInit (kind : String) (a : List Float) (center : String) : Option ((List (List Float)) × String) :=
  let dflt := center = "default"
  let c (d : String) := if dflt then d else center
  let r := match kind, a with
    | "translate", [x, y, z] => translate_init x y z (if dflt then [] else [("center", center)])
    | "scale", [x, y, z] => scale_init x y z (c Gen.Affine.defaultCenterScale) []
    | "rotx", [t] => rotate_x_init (Float.cos t) (Float.sin t) (c Gen.Affine.defaultCenterRotateX) []
    | "roty", [t] => rotate_y_init (Float.cos t) (Float.sin t) (c Gen.Affine.defaultCenterRotateY) []
    | "rotz", [t] => rotate_z_init (Float.cos t) (Float.sin t) (c Gen.Affine.defaultCenterRotateZ) []
    | "rot", [nx, ny, nz, t] =>
        rotate_init (Gen.Mat.rotate3d nx ny nz (Float.cos t) (Float.sin t)) (c Gen.Affine.defaultCenterRotate) []
    | "affine_m", [a0, a1, a2, a3, b0, b1, b2, b3, c0, c1, c2, c3, d0, d1, d2, d3] =>
        affine_init [[a0, a1, a2, a3], [b0, b1, b2, b3], [c0, c1, c2, c3], [d0, d1, d2, d3]]
          (c Gen.Affine.defaultCenterAffineTransform) none none
    | _, _ => none
  r.map fun o => (o.1, o.2.1)

/-- a transform object as a function on trees (`none` = it raised) -/
def affFun (kind : String) (a : List Float) (center : String) : Option (AffTree → Option AffTree) :=
  if kind = "translate_origin" then
    some fun t => translate_origin floatFld t.1 t.2.1 t.2.2.1 t.2.2.2.1 t.2.2.2.2.1 t.2.2.2.2.2.1 t.2.2.2.2.2.2
  else (affInit kind a center).map fun o => fun t =>
    affine_call floatFld o.2 o.1 t.1 t.2.1 t.2.2.1 t.2.2.2.1 t.2.2.2.2.1 t.2.2.2.2.2.1 t.2.2.2.2.2.2

def affTree (args : List String) : Option AffTree :=
  match Proto.argInts args "pids", Proto.argInts args "types", Proto.argFloats args "xs", Proto.argFloats args "ys",
        Proto.argFloats args "zs", Proto.argFloats args "rs" with
  | some pids, some types, some xs, some ys, some zs, some rs =>
    some ((List.range pids.length).map (fun (k : Nat) => (k : Int)), pids, types, xs, ys, zs, rs)
  | _, _, _, _, _, _ => none

/-- coordinates row by row, then ids, pids, types, then radii (one list of numbers) -/
def showAffTree (t : AffTree) : String :=
  let xyz := (List.zip t.2.2.2.1 (List.zip t.2.2.2.2.1 t.2.2.2.2.2.1)).flatMap fun p => [p.1, p.2.1, p.2.2]
  Proto.showFloats xyz ++ " " ++ " ".intercalate ((t.1 ++ t.2.1 ++ t.2.2.1).map toString) ++ " " ++ Proto.showFloats t.2.2.2.2.2.2

/-- `kind/a,a,…/center` -/
def affStep (s : String) : Option (AffTree → Option AffTree) :=
  match s.splitOn "/" with
  | [kind, a, center] => (if a = "" then some [] else Proto.floats a).bind fun a => affFun kind a center
  | _ => none

/-- `gaffine kind=.. a=.. center=root|soma|origin|default pids=.. types=.. xs=.. ys=.. zs=.. rs=..` → the tree the GENERATED class
(constructor, then `__call__`) returns;
`gpipe steps=kind/a,…/center;… pids=.. …` → the tree the GENERATED `Transforms.__call__` returns for these steps (`E` = any exception) -/
def handleAffine (op : String) (args : List String) : String :=
  match affTree args with
  | none => "bad-args"
  | some t =>
    if op = "gaffine" then
      match Proto.arg args "kind", (Proto.arg args "a").bind (fun a => if a = "" then some [] else Proto.floats a), Proto.arg args "center" with
      | some kind, some a, some center =>
        match affFun kind a center with
        | none => "bad-args"
        | some f => match f t with
          | none => "E"
          | some r => showAffTree r
      | _, _, _ => "bad-args"
    else
      match (Proto.arg args "steps").bind fun s => ((s.splitOn ";").filter (· ≠ "")).mapM affStep with
      | none => "bad-args"
      | some fs => match transforms_call fs t with
        | none => "E"
        | some r => showAffTree r

end AlgoRun
