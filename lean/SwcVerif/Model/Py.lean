/-! Semantics library of the imperative translator (`harness/translate_algo.py`, DESIGN.md §2.2b).

The translator turns a Python function body into a term built from the combinators below, over ONE
record of the function's variables (`V`).  A statement denotes `V → Res V R`:

* `next v`  – fell through with the variables `v`
* `brk v` / `cont v` – `break` / `continue` of the innermost loop
* `ret v r` – `return r` (with the variables at that moment: `self` may have been updated)
* `err`     – an exception (IndexError, KeyError, AssertionError, RecursionError / fuel)

Expressions that can raise are terms of type `Option _` (bound with `Py.bind`).  Nothing here imports
Mathlib: the generated definitions are executable and linked into the driver, so that they are also
*run* against the real functions (the translator is cross-checked, not only trusted). -/

namespace Py

inductive Res (V R : Type) where
  | next (v : V)
  | brk (v : V)
  | cont (v : V)
  | ret (v : V) (r : R)
  | err
deriving Repr

variable {V R α β : Type}

/-- `s1; s2` -/
@[inline] def seq (s1 s2 : V → Res V R) : V → Res V R := fun v =>
  match s1 v with
  | .next v' => s2 v'
  | .brk v' => .brk v'
  | .cont v' => .cont v'
  | .ret v' r => .ret v' r
  | .err => .err

/-- evaluate a fallible expression, then continue -/
@[inline] def bind (e : Option α) (k : α → Res V R) : Res V R :=
  match e with
  | none => .err
  | some a => k a

/-- run a lowered sub-statement (comprehension) inside an expression, then continue with the new variables -/
@[inline] def bindS (r : Res V R) (k : V → Res V R) : Res V R :=
  match r with
  | .next v' => k v'
  | .brk v' => .brk v'
  | .cont v' => .cont v'
  | .ret v' x => .ret v' x
  | .err => .err

def skip : V → Res V R := fun v => .next v

/-- `for x in xs: body` -/
def forEach (body : α → V → Res V R) : List α → V → Res V R
  | [], v => .next v
  | x :: xs, v =>
    match body x v with
    | .next v' => forEach body xs v'
    | .cont v' => forEach body xs v'
    | .brk v' => .next v'
    | .ret v' r => .ret v' r
    | .err => .err

/-- `while cond: body` with fuel (`err` when the fuel runs out: theorems show it does not) -/
def whileF (cond : V → Option Bool) (body : V → Res V R) : Nat → V → Res V R
  | 0, _ => .err
  | fuel + 1, v =>
    match cond v with
    | none => .err
    | some false => .next v
    | some true =>
      match body v with
      | .next v' => whileF cond body fuel v'
      | .cont v' => whileF cond body fuel v'
      | .brk v' => .next v'
      | .ret v' r => .ret v' r
      | .err => .err

/-- result of a whole function body: falling off the end returns `dflt` (Python's `None`) -/
def finish (dflt : R) : Res V R → Option (V × R)
  | .next v => some (v, dflt)
  | .ret v r => some (v, r)
  | _ => none

/-! ### closures handed to `traverse` as callbacks

A nested function / lambda of the source is translated to `S → Int → … → Option (S × R)` where `S` holds the captured variables it
reads and writes (`none` = it raised).  The traversal takes total state-passing callbacks, so the state handed to it is `Option S`:
once a callback has raised, the state stays `none` and the call as a whole raises (`unwrapCb`). -/

def wrapE {S T : Type} [Inhabited T] (f : S → Int → Option T → Option (S × T)) : Option S → Int → Option T → Option S × T :=
  fun s n pv => match s with
    | none => (none, default)
    | some st => match f st n pv with
      | none => (none, default)
      | some r => (some r.1, r.2)

def wrapL {S K : Type} [Inhabited K] (f : S → Int → List K → Option (S × K)) : Option S → Int → List K → Option S × K :=
  fun s n ks => match s with
    | none => (none, default)
    | some st => match f st n ks with
      | none => (none, default)
      | some r => (some r.1, r.2)

/-- an absent callback -/
def noEnter {S : Type} : S → Int → Option Unit → Option (S × Unit) := fun s _ _ => some (s, ())
def noLeave {S : Type} : S → Int → List Unit → Option (S × Unit) := fun s _ _ => some (s, ())

def unwrapCb {S K : Type} (r : Option (Option S × K)) : Option (S × K) :=
  match r with
  | some (some s, k) => some (s, k)
  | _ => none

/-! ### lists (Python `list` / 1-d numpy arrays) -/

/-- normalise a Python index -/
def normIdx (n : Nat) (i : Int) : Option Nat :=
  if 0 ≤ i then (if i.toNat < n then some i.toNat else none)
  else if (-i).toNat ≤ n then some (n - (-i).toNat) else none

/-- `l[i]` (negative indices wrap, out of range = IndexError) -/
def idx (l : List α) (i : Int) : Option α :=
  match normIdx l.length i with
  | none => none
  | some k => l[k]?

/-- `l[i] = v` -/
def setIdx (l : List α) (i : Int) (v : α) : Option (List α) :=
  match normIdx l.length i with
  | none => none
  | some k => some (l.set k v)

def len (l : List α) : Int := (l.length : Int)

/-- `l[:-k]` for a literal `k > 0` -/
def dropEnd (l : List α) (k : Nat) : List α := l.take (l.length - k)

/-- `range(n)` -/
def range (n : Int) : List Int := (List.range n.toNat).map (fun (k : Nat) => (k : Int))

/-- `l.pop()` : (rest, last) -/
def pop (l : List α) : Option (List α × α) :=
  match l.getLast? with
  | none => none
  | some x => some (l.dropLast, x)

/-- `enumerate(l)` -/
def enumFrom : Int → List α → List (Int × α)
  | _, [] => []
  | k, x :: xs => (k, x) :: enumFrom (k + 1) xs
def enumerate (l : List α) : List (Int × α) := enumFrom 0 l

/-- `zip(a, b)` -/
def zip (a : List α) (b : List β) : List (α × β) := List.zip a b

/-! ### dictionaries (insertion-ordered association lists) -/

abbrev Dict (κ ν : Type) := List (κ × ν)

namespace Dict
variable {κ ν : Type} [DecidableEq κ]

def get? (d : Dict κ ν) (k : κ) : Option ν := (d.find? (fun p => p.1 = k)).map (·.2)
def getD (d : Dict κ ν) (k : κ) (dflt : ν) : ν := (get? d k).getD dflt
def contains (d : Dict κ ν) (k : κ) : Bool := (get? d k).isSome
/-- `d[k] = v` (an existing key keeps its position) -/
def set (d : Dict κ ν) (k : κ) (v : ν) : Dict κ ν :=
  if contains d k then d.map (fun p => if p.1 = k then (k, v) else p) else d ++ [(k, v)]
/-- `d.setdefault(k, v)` (as a statement) -/
def setdefault (d : Dict κ ν) (k : κ) (v : ν) : Dict κ ν := if contains d k then d else d ++ [(k, v)]
/-- `d.pop(k)` : (rest, value); KeyError = none -/
def pop (d : Dict κ ν) (k : κ) : Option (Dict κ ν × ν) :=
  match get? d k with
  | none => none
  | some v => some (d.filter (fun p => p.1 ≠ k), v)
/-- `dict(zip(ks, vs))` -/
def ofZip (ks : List κ) (vs : List ν) : Dict κ ν := (List.zip ks vs).foldl (fun d p => set d p.1 p.2) []
end Dict

/-! ### numpy idioms on 1-d integer arrays -/

/-- `a == v` -/
def eqMask (a : List Int) (v : Int) : List Bool := a.map (fun x => decide (x = v))
/-- `a != v` -/
def neMask (a : List Int) (v : Int) : List Bool := a.map (fun x => decide (x ≠ v))
/-- `a[mask]` -/
def select (a : List α) (m : List Bool) : List α := (List.zip a m).filterMap (fun p => if p.2 then some p.1 else none)
/-- `a[idx_list]` (fancy indexing with an integer array) -/
def take (a : List α) (is : List Int) : Option (List α) := is.mapM (idx a)
/-- `np.count_nonzero(mask)` -/
def countNonzero (m : List Bool) : Int := ((m.filter id).length : Int)
/-- `mask.argmax()` : first `True`, 0 if there is none; raises on an empty array -/
def argmaxMask (m : List Bool) : Option Int :=
  if m.isEmpty then none else some ((m.idxOf true % m.length : Nat) : Int)
/-- `np.full_like(a, fill_value=c)` -/
def fullLike (a : List α) (c : Int) : List Int := a.map (fun _ => c)
/-- `np.arange(n)` -/
def arange (n : Int) : List Int := range n
/-- `np.where(cond, a, b)` element-wise with scalars broadcast by the translator -/
def where_ (c : List Bool) (a b : List Int) : List Int :=
  (List.zip c (List.zip a b)).map (fun t => if t.1 then t.2.1 else t.2.2)
/-- `np.cumsum(a)` -/
def cumsum (a : List Int) : List Int := (a.foldl (fun (acc : List Int × Int) x => (acc.1 ++ [acc.2 + x], acc.2 + x)) ([], 0)).1
/-- `len(np.unique(a))` -/
def uniqueCount (a : List Int) : Int := (a.eraseDups.length : Int)
/-- `np.setdiff1d(a, b)`: the sorted distinct values of `a` that do not occur in `b` -/
def setdiff1d (a b : List Int) : List Int := ((a.filter (fun x => !b.contains x)).eraseDups).mergeSort (fun x y => decide (x ≤ y))
/-- `bool(np.all(mask))` -/
def all (m : List Bool) : Bool := m.all id
/-- `any(mask)` -/
def any (m : List Bool) : Bool := m.any id

/-! ### sets of hashable values: duplicate-free lists in insertion order (the iteration order of a Python set is unspecified; what is
translated may depend on the members only) -/
namespace Set
variable [DecidableEq α]
/-- `s.add(x)` -/
def add (s : List α) (x : α) : List α := if s.contains x then s else s ++ [x]
/-- `set(l)` -/
def ofList (l : List α) : List α := l.foldl add []
/-- `s.remove(x)` (KeyError = none) -/
def remove (s : List α) (x : α) : Option (List α) := if s.contains x then some (s.filter (fun y => y ≠ x)) else none
end Set

/-- element-wise `a < b` -/
def ltMask (a b : List Int) : List Bool := List.zipWith (fun x y => decide (x < y)) a b

/-! ### arrays over a numeric element type, 2-d arrays, masked arrays

Float arrays of the source are arrays over a type parameter `K` of the generated definition (`[Add K] [Sub K] [Mul K] [OfNat K 0]
[OfNat K 1] [LT K] [DecidableLT K] [LE K] [DecidableLE K]`: the driver runs them at `Rat`, theorems are over an ordered field; rounding,
`nan` and `inf` are outside, DESIGN.md §3).  A 2-d array is the list of its rows (`List (List α)`); an array with ZERO rows does not
know its column count (numpy's shape `(0, k)` is read as `(0, 0)`).  A masked array (`numpy.ma`) is the pair (data, mask). -/

/-- `Option`-valued map (element-wise operations that can raise) -/
def mapOpt (f : α → Option β) : List α → Option (List β)
  | [] => some []
  | x :: xs => match f x with
    | none => none
    | some y => match mapOpt f xs with
      | none => none
      | some ys => some (y :: ys)

/-- `np.full(n, fill_value=c)` / `np.zeros(n)` / `np.ones(n)` (a negative size raises ValueError) -/
def full (n : Int) (c : α) : Option (List α) := if n < 0 then none else some (List.replicate n.toNat c)
/-- `np.full((r, k), c)` / `np.zeros((r, k))` / `np.ones((r, k))` -/
def full2 (r k : Int) (c : α) : Option (List (List α)) :=
  if r < 0 ∨ k < 0 then none else some (List.replicate r.toNat (List.replicate k.toNat c))
/-- `m[i, j]` -/
def idx2 (m : List (List α)) (i j : Int) : Option α := (idx m i).bind fun row => idx row j
/-- `m[i, j] = x` -/
def setIdx2 (m : List (List α)) (i j : Int) (x : α) : Option (List (List α)) :=
  (idx m i).bind fun row => (setIdx row j x).bind fun row' => setIdx m i row'
/-- `m[i, :] = c` for a scalar `c` -/
def setRowConst (m : List (List α)) (i : Int) (c : α) : Option (List (List α)) :=
  (idx m i).bind fun row => setIdx m i (row.map fun _ => c)
/-- numpy broadcasting of a 1-d array to a given length: equal length, or a single element repeated; anything else raises -/
def broadcastTo (r : List α) (len : Nat) : Option (List α) :=
  if r.length = len then some r else
  match r with
  | [x] => some (List.replicate len x)
  | _ => none
/-- `m[i, :] = r` for a 1-d array `r` -/
def setRow (m : List (List α)) (i : Int) (r : List α) : Option (List (List α)) :=
  (idx m i).bind fun row => (broadcastTo r row.length).bind fun r' => setIdx m i r'
/-- `m[:, j] = c` for a scalar `c` -/
def setColConst (m : List (List α)) (j : Int) (c : α) : Option (List (List α)) :=
  mapOpt (fun row => setIdx row j c) m
/-- `m ∘ c[:, None]`: the column vector `c[:, None]` (shape `(n, 1)`) broadcast against the `(r, k)` array `m` under an element-wise
binary operation (`r = n`, or `r = 1`, or `n = 1`; anything else raises) -/
def bcastCol {γ : Type} (f : α → β → γ) (m : List (List α)) (c : List β) : Option (List (List γ)) :=
  if m.length = c.length then some (List.zipWith (fun row x => row.map (f · x)) m c) else
  match m, c with
  | [row], _ => some (c.map fun x => row.map (f · x))
  | _, [x] => some (m.map fun row => row.map (f · x))
  | _, _ => none
/-- `a.shape` of a 2-d array -/
def shape2 (m : List (List α)) : Int × Int := ((m.length : Int), ((m.headD []).length : Int))

/-- a 2-d masked array: (data, mask), `true` = masked out -/
abbrev Masked2 (K : Type) := List (List K) × List (List Bool)
/-- `ma.array(data, mask=mask)` (shapes must agree: MaskError otherwise) -/
def maArray {K : Type} (data : List (List K)) (mask : List (List Bool)) : Option (Masked2 K) :=
  if data.map List.length = mask.map List.length then some (data, mask) else none
/-- the cells (value, masked) of a masked array in row-major (C) order -/
def maCells {K : Type} (a : Masked2 K) : List (K × Bool) := (List.zipWith List.zip a.1 a.2).flatten
/-- one step of the first-minimum scan: `b` = (least unmasked value, its flat index) so far, `k` the flat index of `x` -/
def argminStep {K : Type} [LT K] [DecidableLT K] (b : Option (K × Nat)) (x : K × Bool) (k : Nat) : Option (K × Nat) :=
  if x.2 then b else
  match b with
  | none => some (x.1, k)
  | some (cb, kb) => if x.1 < cb then some (x.1, k) else some (cb, kb)
def argminFrom {K : Type} [LT K] [DecidableLT K] : List (K × Bool) → Nat → Option (K × Nat) → Option (K × Nat)
  | [], _, b => b
  | x :: xs, k, b => argminFrom xs (k + 1) (argminStep b x k)
/-- `a.argmin()` of a masked array without `axis`: the flat (row-major) index of the FIRST least unmasked cell; `0` when every cell
is masked (numpy fills the masked cells with the largest value of the dtype and takes the plain `argmin`); raises on an empty array -/
def maArgmin {K : Type} [LT K] [DecidableLT K] (a : Masked2 K) : Option Int :=
  if (maCells a).isEmpty then none else
  match argminFrom (maCells a) 0 none with
  | none => some 0
  | some (_, k) => some (k : Int)
/-- `np.unravel_index(k, (r, c))` for a 2-d shape (an index outside `0 ≤ k < r * c` raises ValueError) -/
def unravelIndex (k : Int) (shape : Int × Int) : Option (Int × Int) :=
  if 0 ≤ k ∧ k < shape.1 * shape.2 then
    some (((k.toNat / shape.2.toNat : Nat) : Int), ((k.toNat % shape.2.toNat : Nat) : Int))
  else none
/-! ### tracked exceptions, `try / except`, `with`, fallible iterators

`err` above is an exception of an UNTRACKED kind (nothing is known about it but that the call did not finish).  A function whose
exceptions matter (which one, with which arguments; handlers; context managers) is translated with result type `Except Exc R`:
`raise K(f"…")` is `.ret v (.error ⟨"K", template, integer arguments⟩)` — an early exit that `seq`, `forEach`, `whileF` propagate exactly
like Python propagates an exception, that `tryExcept` intercepts by class, and that `withExit` hands to the translated `__exit__`.
`return x` is `.ret v (.ok x)`. -/

/-- a raised exception (also used for `warnings.warn`): class name, the message template (the f-string with its placeholders as source
text) and the values of its integer placeholders in order -/
structure Exc where
  kind : String
  msg : String
  args : List Int
deriving Repr, DecidableEq, Inhabited

/-- the built-in exception hierarchy, child → parent (as far as handlers of the translated code can tell classes apart) -/
def excParent : List (String × String) :=
  [("UnicodeDecodeError", "UnicodeError"), ("UnicodeEncodeError", "UnicodeError"), ("UnicodeError", "ValueError"),
   ("ValueError", "Exception"), ("IndexError", "LookupError"), ("KeyError", "LookupError"), ("LookupError", "Exception"),
   ("AssertionError", "Exception"), ("TypeError", "Exception"), ("RecursionError", "RuntimeError"), ("RuntimeError", "Exception"),
   ("FileNotFoundError", "OSError"), ("OSError", "Exception"), ("StopIteration", "Exception"), ("UserWarning", "Warning"),
   ("Warning", "Exception"), ("Exception", "BaseException")]

/-- `issubclass(k, base)` -/
def isSubclass : Nat → String → String → Bool
  | 0, k, base => k == base
  | n + 1, k, base => k == base || match excParent.lookup k with
    | some p => isSubclass n p base
    | none => false

/-- `except base:` catches `e` -/
def Exc.isA (e : Exc) (base : String) : Bool := isSubclass 8 e.kind base

/-- `raise e` -/
@[inline] def raise (e : Exc) : V → Res V (Except Exc R) := fun v => .ret v (.error e)

/-- `try: body` / `except base as e: handler` (one handler; no `else` / `finally`) -/
def tryExcept (body : V → Res V (Except Exc R)) (base : String) (handler : Exc → V → Res V (Except Exc R)) : V → Res V (Except Exc R) :=
  fun v =>
    match body v with
    | .ret v' (.error e) => if e.isA base then handler e v' else .ret v' (.error e)
    | r => r

/-- `with mgr: body` after `__enter__`: run the body, then call `__exit__` (`exit v none` on a normal exit, `exit v (some e)` when the body
raised `e`; it returns the updated variables and the truth value of what `__exit__` returned).  The exception propagates unless `__exit__`
returned a true value.  An untracked `err` stays `err` (the state in which `__exit__` would run is unknown). -/
def withExit (exit : V → Option Exc → Option (V × Bool)) (body : V → Res V (Except Exc R)) : V → Res V (Except Exc R) :=
  fun v =>
    match body v with
    | .ret v' (.error e) =>
      match exit v' (some e) with
      | none => .err
      | some (v'', swallow) => if swallow then .next v'' else .ret v'' (.error e)
    | .ret v' (.ok r) => match exit v' none with
      | none => .err
      | some (v'', _) => .ret v'' (.ok r)
    | .next v' => match exit v' none with
      | none => .err
      | some (v'', _) => .next v''
    | .brk v' => match exit v' none with
      | none => .err
      | some (v'', _) => .brk v''
    | .cont v' => match exit v' none with
      | none => .err
      | some (v'', _) => .cont v''
    | .err => .err

/-- an iterator that yields `items` and then, instead of stopping, may raise (a text file whose bytes cannot be decoded from some
point on: `fail = some UnicodeDecodeError`) -/
structure Stream (α : Type) where
  items : List α
  fail : Option Exc
deriving Repr, Inhabited

/-- `enumerate(stream)` -/
def Stream.enumerate (s : Stream α) : Stream (Int × α) := ⟨Py.enumerate s.items, s.fail⟩

/-- `for x in stream: body` -/
def forEachS (body : α → V → Res V (Except Exc R)) : List α → Option Exc → V → Res V (Except Exc R)
  | [], none, v => .next v
  | [], some e, v => .ret v (.error e)
  | x :: xs, f, v =>
    match body x v with
    | .next v' => forEachS body xs f v'
    | .cont v' => forEachS body xs f v'
    | .brk v' => .next v'
    | .ret v' r => .ret v' r
    | .err => .err

/-- result of a whole function body with tracked exceptions: falling off the end returns `None` -/
def finishX (dflt : R) : Res V (Except Exc R) → Option (V × Except Exc R)
  | .next v => some (v, .ok dflt)
  | .ret v r => some (v, r)
  | _ => none

end Py
