import SwcVerif.Model.Resample
import SwcVerif.Gen.Consts
/-! Models for C20 (`swcgeom/images/io.py`, `swcgeom/transforms/image_stack.py`): axis bookkeeping of
`save_tiff` / `TiffImageStack` on index tuples, the integer/float rescaling decisions, and the voxel grid of
`ToImageStack` over ℚ.  The codecs (tifffile, pynrrd, np.save) and the SDF sampler (sdflit) are outside. -/
namespace Img
open Resample (showRat rat? argRat)

/-! ## axes: arrays are modelled by their index tuples -/

/-- `np.moveaxis(a, src, dst)`: the index of the result that holds element `idx` of `a` -/
def moveaxisIdx (src dst : Nat) (idx : List Nat) : List Nat :=
  let v := idx.getD src 0
  let rest := idx.eraseIdx src
  rest.take dst ++ [v] ++ rest.drop dst

/-- `np.argsort(orders)` (stable) for a short list -/
def argsort (orders : List Nat) : List Nat :=
  let tagged := (orders.zipIdx).map fun (o, i) => (o, i)
  let sorted := tagged.mergeSort (fun a b => a.1 < b.1 || (a.1 == b.1 && a.2 ≤ b.2))
  sorted.map (·.2)

/-- `a.transpose(axes)`: result index `i` holds element `j` of `a` with `j[axes[k]] = i[k]`; given the
element's index `j` in `a`, its index in the result -/
def transposeIdx (axes : List Nat) (j : List Nat) : List Nat := axes.map fun ax => j.getD ax 0

/-- `AXES_ORDER[c]` from the generated table -/
def axisOrder (c : Char) : Option Nat := (Gen.Consts.axesOrder.find? (·.1 == c)).map (·.2)

/-- the axes string `save_tiff` writes into the metadata -/
def savedAxes : List Char := Gen.Consts.saveTiffAxes.toList

/-- `save_tiff`: `(X, Y, Z, C)` index ↦ index in the written array (`np.moveaxis(data, 2, 0)`) -/
def saveIdx (idx : List Nat) : List Nat := moveaxisIdx 2 0 idx

/-- `TiffImageStack`: index in the file's array ↦ index after `imgs.transpose(np.argsort(orders))` -/
def loadIdx (axes : List Char) (fileIdx : List Nat) : Option (List Nat) :=
  (axes.mapM axisOrder).map fun orders => transposeIdx (argsort orders) fileIdx

/-! ## dtype rescaling -/
inductive DKind where
  | uint (max : Nat)      -- unsigned integer with its UINT_MAX
  | float
  | other
deriving Repr, DecidableEq

/-- the factor `save_tiff(..., dtype=target)` multiplies with: (numerator, denominator) -/
def saveFactor (src target : DKind) : Nat × Nat :=
  match src, target with
  | .float, .uint m => (m, 1)
  | .uint m, .float => (1, m)
  | _, _ => (1, 1)

/-- the factor `NDArrayImageStack(imgs, dtype=target)` applies on reading -/
def loadFactor (raw target : DKind) : Nat × Nat :=
  match target, raw with
  | .float, .uint m => (1, m)
  | .uint m, .float => (m, 1)
  | _, _ => (1, 1)

/-- `astype(uint)` of a non-negative value: truncation -/
def toUint (v : Rat) : Int := v.floor

/-! ## the voxel grid of `ToImageStack` -/

/-- sample positions along one axis: `min + off, min + off + res, …` while `< max` (`off = res / 2`) -/
def axisCentres (lo hi res : Rat) : List Rat :=
  let n := ((hi - (lo + res / 2)) / res).ceil.toNat
  (List.range n).map fun (i : Nat) => lo + res / 2 + (i : Rat) * res

/-- bounding box: `floor(min(c - r))`, `ceil(max(c + r))` for one coordinate column -/
def bbox (cs rs : List Rat) : Rat × Rat :=
  let los := (cs.zip rs).map fun cr => cr.1 - cr.2
  let his := (cs.zip rs).map fun cr => cr.1 + cr.2
  ((los.foldl (fun a b => if b < a then b else a) (los.headD 0)).floor,
   (his.foldl (fun a b => if b > a then b else a) (his.headD 0)).ceil)

/-- squared-distance form of "the point lies in the round cone between (a, ra) and (b, rb)" for a given
parameter `t ∈ [0, 1]`: `|p - (a + t (b - a))|² ≤ (ra + t (rb - ra))²` -/
def inSwept (p a b : Rat × Rat × Rat) (ra rb t : Rat) : Bool :=
  let cx := a.1 + t * (b.1 - a.1); let cy := a.2.1 + t * (b.2.1 - a.2.1); let cz := a.2.2 + t * (b.2.2 - a.2.2)
  let r := ra + t * (rb - ra)
  decide ((p.1 - cx) * (p.1 - cx) + (p.2.1 - cy) * (p.2.1 - cy) + (p.2.2 - cz) * (p.2.2 - cz) ≤ r * r)

/-- squared distance of two points -/
def sqd (a b : Rat × Rat × Rat) : Rat :=
  (a.1 - b.1) * (a.1 - b.1) + (a.2.1 - b.2.1) * (a.2.1 - b.2.1) + (a.2.2 - b.2.2) * (a.2.2 - b.2.2)

/-- `_get_scene`: `norm(c - n) <= abs(n.r - c.r)` — one end ball contains the other (squared form; both sides
are non-negative) -/
def edgeIsBall (a b : Rat × Rat × Rat) (ra rb : Rat) : Bool := decide (sqd a b ≤ (ra - rb) * (ra - rb))

/-- the ball such an edge is replaced by: `big = n if n.r >= c.r else c` -/
def edgeBall (a b : Rat × Rat × Rat) (ra rb : Rat) : (Rat × Rat × Rat) × Rat := if ra ≥ rb then (a, ra) else (b, rb)

def inBall (p : Rat × Rat × Rat) (c : (Rat × Rat × Rat) × Rat) : Bool := decide (sqd p c.1 ≤ c.2 * c.2)

/-! ## driver -/
def handle (what : String) (args : List String) : String :=
  match what with
  | "imgaxes" =>      -- `imgaxes idx=i,j,k,l axes=<string>` → saved index / loaded-back index
    match Proto.argInts args "idx", Proto.arg args "axes" with
    | some idx, some ax =>
      let i := idx.map Int.toNat
      let s := saveIdx i
      match loadIdx ax.toList s with
      | some l => s!"{Proto.showNats s} / {Proto.showNats l}"
      | none => "E"
    | _, _ => "bad-args"
  | "imggrid" =>      -- `imggrid lo= hi= res=` → centres
    match argRat args "lo", argRat args "hi", argRat args "res" with
    | some lo, some hi, some res => Resample.showRats (axisCentres lo hi res)
    | _, _, _ => "bad-args"
  | "imgedge" =>      -- `imgedge a=x,y,z b=x,y,z ra= rb=` → which solid `_get_scene` adds for the edge
    match Resample.argRats args "a", Resample.argRats args "b", argRat args "ra", argRat args "rb" with
    | some pa, some pb, some ra, some rb =>
      match pa, pb with
      | [ax, ay, az], [bx, by', bz] =>
        let a := (ax, ay, az); let b := (bx, by', bz)
        if edgeIsBall a b ra rb then
          let c := edgeBall a b ra rb
          s!"ball {Resample.showRats [c.1.1, c.1.2.1, c.1.2.2, c.2]}"
        else "cone"
      | _, _ => "bad-args"
    | _, _, _, _ => "bad-args"
  | _ => "bad-op"
end Img
