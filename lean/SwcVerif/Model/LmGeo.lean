import SwcVerif.Model.Py
import SwcVerif.Model.PyResample
import SwcVerif.Model.PyLmGeo
import SwcVerif.Model.Redirect
/-! Specification side of the GEOMETRIC L-Measure quantities (T21 `lmgeo`), written from the L-Measure manual as quoted in the docstrings of
`swcgeom/analysis/lmeasure.py`.  A tree object is its parent column `pids` (ids = positions, node 0 the root / soma) and its geometry columns
`xs`, `ys`, `zs`, `rs` over a numeric type `K`; `norm` is the Euclidean norm of a vector (abstract: a square root).  Sums are taken in the order
the nodes are met (no algebraic law of `K` is assumed).  No Mathlib. -/
namespace LmGeo
variable {K : Type}

/-- the point `(x, y, z)` of node `k` -/
def pos [Inhabited K] (xs ys zs : List K) (k : Int) : List K := [xs.getD k.toNat default, ys.getD k.toNat default, zs.getD k.toNat default]

/-- difference of two vectors -/
def vsub [Sub K] (a b : List K) : List K := List.zipWith (fun x y => x - y) a b

/-- distance between the points of nodes `a` and `b`: the norm of `pos a − pos b` -/
def dist [Inhabited K] [Sub K] (norm : List K → K) (xs ys zs : List K) (a b : Int) : K := norm (vsub (pos xs ys zs a) (pos xs ys zs b))

/-- the (child, parent) compartments met walking a path of nodes from its first node on -/
def steps (path : List Int) : List (Int × Int) := path.zip path.tail

/-- sum in list order, starting from `acc` -/
def sumFrom [Add K] (acc : K) (l : List K) : K := l.foldl (fun a x => a + x) acc

/-- **PathDistance**: "the path distance of a compartment to the soma" = the sum of the lengths of the compartments on the root path of the
node, from the node upwards -/
def pathDistance [Inhabited K] [Add K] [Sub K] [OfNat K 0] (norm : List K → K) (pids : List Int) (xs ys zs : List K) (v : Int) : K :=
  sumFrom 0 ((steps (Redir.rootPath pids pids.length v)).map fun e => dist norm xs ys zs e.1 e.2)

/-- **EucDistance**: "the Euclidean distance of a compartment with respect to soma" (the soma is node 0) -/
def eucDistance [Inhabited K] [Sub K] (norm : List K → K) (xs ys zs : List K) (v : Int) : K := dist norm xs ys zs v 0

/-- **Diameter**: twice the radius of the compartment -/
def diameter [Inhabited K] [Mul K] (F : Py.Fld K) (rs : List K) (v : Int) : K := (Py.Fld.ofInt 2 : K) * rs.getD v.toNat default

/-- **Branch_pathlength**: "the sum of the length of all compartments forming the given branch"; the branch is the list of its nodes, each
compartment is (later node − earlier node) -/
def branchLength [Inhabited K] [Add K] [Sub K] [OfNat K 0] (norm : List K → K) (xs ys zs : List K) (br : List Int) : K :=
  sumFrom 0 ((br.tail.zip br).map fun e => dist norm xs ys zs e.1 e.2)

/-- **Contraction**: "the ratio between Euclidean distance of a branch and its path length" (first node to last node); undefined (`none`: the
source raises ZeroDivisionError) for a branch of path length 0 and for an empty branch -/
def contraction [Inhabited K] [Add K] [Sub K] [OfNat K 0] [LT K] [DecidableLT K] (F : Py.Fld K) (norm : List K → K) (xs ys zs : List K)
    (br : List Int) : Option K :=
  match br.head?, br.getLast? with
  | some a, some b => Py.fdiv (dist norm xs ys zs a b) (branchLength norm xs ys zs br)
  | _, _ => none

/-- **Taper_1** (Burke taper) as the source has it: (diameter of the first node − diameter of the last node) / path length of the branch -/
def taper1 [Inhabited K] [Add K] [Sub K] [Mul K] [OfNat K 0] [LT K] [DecidableLT K] (F : Py.Fld K) (norm : List K → K) (xs ys zs rs : List K)
    (br : List Int) : Option K :=
  match br.head?, br.getLast? with
  | some a, some b => Py.fdiv (diameter F rs a - diameter F rs b) (branchLength norm xs ys zs br)
  | _, _ => none

/-- **Taper_2** (Hillman taper): (diameter of the first node − diameter of the last node) / diameter of the first node -/
def taper2 [Inhabited K] [Sub K] [Mul K] [OfNat K 0] [LT K] [DecidableLT K] (F : Py.Fld K) (rs : List K) (br : List Int) : Option K :=
  match br.head?, br.getLast? with
  | some a, some b => Py.fdiv (diameter F rs a - diameter F rs b) (diameter F rs a)
  | _, _ => none

/-- the diameters (parent, first daughter, second daughter) Rall's power / Pk are computed from -/
def rallDiameters [Inhabited K] [Mul K] (F : Py.Fld K) (rs : List K) (p a b : Int) : K × K × K := (diameter F rs p, diameter F rs a, diameter F rs b)

/-- **Pk_2**: (d1² + d2²) / bifurcDiam² -/
def pk2 [Inhabited K] [Add K] [Mul K] [OfNat K 0] [OfNat K 1] [LT K] [DecidableLT K] (F : Py.Fld K) (rs : List K) (p a b : Int) : Option K :=
  let sq := fun (x : K) => (1 : K) * x * x
  Py.fdiv (sq (diameter F rs a) + sq (diameter F rs b)) (sq (diameter F rs p))

/-- **Bif_ampl_local** vectors: "the first two compartments" of a bifurcation `v` with daughters `a`, `b`: (pos a − pos v, pos b − pos v) -/
def bifVectorsLocal [Inhabited K] [Sub K] (xs ys zs : List K) (v a b : Int) : List K × List K :=
  (vsub (pos xs ys zs a) (pos xs ys zs v), vsub (pos xs ys zs b) (pos xs ys zs v))

/-- **SectionArea**: π · r² of the node's radius (`r ** 2` is `1 · r · r`) -/
def sectionArea [Inhabited K] [Mul K] [OfNat K 1] (pi : K) (rs : List K) (v : Int) : K :=
  pi * ((1 : K) * rs.getD v.toNat default * rs.getD v.toNat default)

/-- **Volume** of a compartment (a list of node indices, `[parent, node]`): π · r² · length, the radius read at the node `p` of the compartment the
`compartment_point` option selects -/
def volume [Inhabited K] [Add K] [Sub K] [Mul K] [OfNat K 0] [OfNat K 1] (norm : List K → K) (pi : K) (xs ys zs rs : List K) (c : List Int) (p : Int) : K :=
  pi * ((1 : K) * rs.getD p.toNat default * rs.getD p.toNat default) * branchLength norm xs ys zs c

/-- **Surface** of a compartment: 2 · π · r · length (lateral surface of the cylinder), radius read at the selected node `p` -/
def surface [Inhabited K] [Add K] [Sub K] [Mul K] [OfNat K 0] (F : Py.Fld K) (norm : List K → K) (pi : K) (xs ys zs rs : List K) (c : List Int) (p : Int) : K :=
  (Py.Fld.ofInt 2 : K) * pi * rs.getD p.toNat default * branchLength norm xs ys zs c

end LmGeo
