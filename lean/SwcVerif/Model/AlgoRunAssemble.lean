import SwcVerif.Gen.AlgoAssemble
import SwcVerif.Model.Basic
/-! Driver side of the imperative translator for C16 (see `AlgoRunSort.lean`): the GENERATED `BranchTreeAssembler.__call__` (with the
generated `Node.detach` and `Tree.Node.children`) is run on the branch tree, the pairing and the duplicate tests that the real
assembler was handed, and its (id, pid) table is compared with the real one. -/
namespace AlgoRun
open Gen.Algo

/-- the branches of `x.branches` in dictionary order; the samples of all branches are numbered consecutively (a sample is an opaque
handle, a branch the list of its samples) -/
def asmBranches (blen : List Int) : List (List Int) :=
  (blen.foldl (fun (acc : List (List Int) × Int) l =>
    (acc.1 ++ [(List.range l.toNat).map (fun (k : Nat) => acc.2 + (k : Int))], acc.2 + l)) ([], 0)).1

/-- `x.branches`: key → its branches, in order -/
def asmDict (bkey : List Int) (brs : List (List Int)) : Py.Dict Int (List (List Int)) :=
  (List.zip bkey brs).foldl (fun d p => Py.Dict.set d p.1 (Py.Dict.getD d p.1 [] ++ [p.2])) []

/-- `gasm ids=.. pids=..` (the columns of the branch tree) `bkey=.. blen=..` (per branch: its key in `x.branches` and its number of
samples) `pb=.. pc=..` (the pairing the library's `pair` returns: branch number, child row; all key nodes, each in pairing order)
`s=.. e=..` (per branch: is its first / last sample a duplicate of the key node it starts from / of the child it is paired with)
→ `ids / pids / number of calls of pair` of the table the GENERATED assembler builds (`E` = any exception) -/
def handleAsm (args : List String) : String :=
  match Proto.argInts args "ids", Proto.argInts args "pids", Proto.argInts args "bkey", Proto.argInts args "blen",
        Proto.argInts args "pb", Proto.argInts args "pc", Proto.argInts args "s", Proto.argInts args "e" with
  | some ids, some pids, some bkey, some blen, some pb, some pc, some fs, some fe =>
    let brs := asmBranches blen
    let table : List ((List Int) × Int) := (List.zip pb pc).map (fun p => (brs.getD p.1.toNat [], p.2))
    let pair := fun (calls : Nat) (bs : List (List Int)) (cs : List Int) =>
      (calls + 1, table.filter (fun p => bs.contains p.1 && cs.contains p.2))
    let flag := fun (fl : List Int) (br : List Int) => decide (fl.getD (brs.idxOf br) 0 = 1)
    match bt_assemble pair (fun br _ => flag fs br) (fun br _ => flag fe br) (ids.length + 2) ids pids (asmDict bkey brs) 0 with
    | none => "E"
    | some r => s!"{Proto.showInts r.2.1} / {Proto.showInts r.2.2} / {r.1}"
  | _, _, _, _, _, _, _, _ => "bad-args"

end AlgoRun
