/-
Semantics functions for `Gen/AlgoShortTip.lean` (Mathlib-free).
-/
import SwcVerif.Model.Py
namespace Py

/-- `for cb in callbacks: cb(a)`: every callable of the list, in list order, on the same argument; a callable is a state-passing
function over the callbacks' common state -/
def callAll {σ A : Type} (cbs : List (σ → A → σ)) (s : σ) (a : A) : σ :=
  cbs.foldl (fun s cb => cb s a) s

end Py
