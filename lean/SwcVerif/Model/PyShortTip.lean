/-
Semantics functions for `Gen/AlgoShortTip.lean` (Mathlib-free): lists of callables.
-/
import SwcVerif.Model.Py
namespace Py

/-- `for cb in callbacks: cb(a)`: every callable of the list, in list order, on the same argument; a callable is a state-passing
function over the callables' common state (`none` = it raised: the loop stops there and the exception propagates) -/
def callAll {σ A : Type} : List (σ → A → Option σ) → σ → A → Option σ
  | [], s, _ => some s
  | cb :: cbs, s, a => (cb s a).bind fun s' => callAll cbs s' a

/-- callables over the state `σ` seen as callables over the state `σ × C` (they do not touch the second component) -/
def liftCbs {σ C A : Type} (cbs : List (σ → A → Option σ)) : List (σ × C → A → Option (σ × C)) :=
  cbs.map fun cb s a => (cb s.1 a).map fun s' => (s', s.2)

/-- a closure over its captured variables `C` (state-passing, `none` = it raised) seen as a callable over the state `σ × C` -/
def closureCb {σ C A R : Type} (f : C → A → Option (C × R)) : σ × C → A → Option (σ × C) :=
  fun s a => (f s.2 a).map fun r => (s.1, r.1)

end Py
