import SwcVerif.Model.Basic
import SwcVerif.Gen.Consts
/-! Text models of `swcgeom/core/swc_utils/io.py` (ASCII texts), on `List Char`.

* `parseData nx` — hand-written recogniser of exactly the language of `re_swc` with `nx` extra
  columns: `^\s*ID\s+TYPE\s+F\s+F\s+F\s+F\s+PID(\s+F){nx}\s*([\s+-.0-9]*)$` where `F = RE_FLOAT`.
  (`[+-.]` in the trailing class is the RANGE `+ , - .`.)  Greedy = what CPython's backtracking engine
  returns here, because every group is followed either by mandatory whitespace or by a class that the
  unconsumed rest must lie in entirely (so a shorter match can never rescue a failed greedy one).
* `classify` — the `if re_swc.search / elif RE_COMMENT.match / elif not line.isspace(): raise` chain.
* `readLines` — the loop of `parse_swc`, with the effect of `FileReader.__exit__`'s return value
  (`swallow`) as a parameter taken from `Gen.Consts`.
* `formatRow`, `commentLine`, `writeLines` — `to_swc`; `writeSwc` — `SWCLike.to_swc`.
* `resetIndex` — `reset_index_`.

Numbers: a float literal is kept exactly as sign × mantissa × 10^exp (`Sci`). -/
namespace SwcText
abbrev Str := List Char

/-- `\s` / `str.isspace` on ASCII -/
def isWs (c : Char) : Bool :=
  c = ' ' || c = '\t' || c = '\n' || c = '\r' || c = '\x0b' || c = '\x0c' || c = '\x1c' || c = '\x1d' || c = '\x1e' || c = '\x1f'
def isDig (c : Char) : Bool := 48 ≤ c.toNat && c.toNat ≤ 57
def digVal (c : Char) : Nat := c.toNat - 48

def dropWs : Str → Str
  | [] => []
  | c :: cs => if isWs c then dropWs cs else c :: cs

/-- maximal digit prefix and the rest -/
def takeDigs : Str → Str × Str
  | [] => ([], [])
  | c :: cs => if isDig c then ((c :: (takeDigs cs).1), (takeDigs cs).2) else ([], c :: cs)

/-- value of a digit string (`int("007") = 7`) -/
def natOf (ds : Str) : Nat := ds.foldl (fun a c => a * 10 + digVal c) 0

/-- sign × mant × 10^exp -/
structure Sci where
  neg : Bool
  mant : Nat
  exp : Int
deriving Repr, DecidableEq, Inhabited

def optSign : Str → Bool × Str
  | '+' :: t => (false, t)
  | '-' :: t => (true, t)
  | t => (false, t)

/-- `(?:[eE][+-]?\d+)?`, greedy: the exponent value and the rest (nothing consumed if it does not match) -/
def expPart : Str → Int × Str
  | [] => (0, [])
  | c :: cs =>
    if c = 'e' || c = 'E' then
      let sg := optSign cs
      let dr := takeDigs sg.2
      if dr.1.isEmpty then (0, c :: cs)
      else ((if sg.1 then -(natOf dr.1 : Int) else (natOf dr.1 : Int)), dr.2)
    else (0, c :: cs)

/-- `RE_FLOAT` as a prefix matcher: `[+-]?(?:\d+(?:[.]\d*)?(?:[eE][+-]?\d+)?|[.]\d+(?:[eE][+-]?\d+)?)` -/
def floatPrefix (s : Str) : Option (Sci × Str) :=
  let sg := optSign s
  let ip := takeDigs sg.2
  if !ip.1.isEmpty then
    let fp : Str × Str := match ip.2 with
      | '.' :: t => takeDigs t
      | t => ([], t)
    let e := expPart fp.2
    some (⟨sg.1, natOf (ip.1 ++ fp.1), e.1 - fp.1.length⟩, e.2)
  else match ip.2 with
    | '.' :: t =>
      let fp := takeDigs t
      if fp.1.isEmpty then none
      else
        let e := expPart fp.2
        some (⟨sg.1, natOf fp.1, e.1 - fp.1.length⟩, e.2)
    | _ => none

/-- `\s+` -/
def needWs : Str → Option Str
  | [] => none
  | c :: cs => if isWs c then some (dropWs cs) else none

/-- `([0-9]+)` -/
def intTok (s : Str) : Option (Nat × Str) :=
  let dr := takeDigs s
  if dr.1.isEmpty then none else some (natOf dr.1, dr.2)

/-- `(-?[0-9]+)` -/
def pidTok : Str → Option (Int × Str)
  | '-' :: t => (intTok t).map (fun nr => (-(nr.1 : Int), nr.2))
  | t => (intTok t).map (fun nr => ((nr.1 : Int), nr.2))

/-- a character of a trailing field, `[+-.0-9eE]` (`+-.` is the range `+ , - .`) -/
def isTailTok (c : Char) : Bool := isDig c || c = '+' || c = ',' || c = '-' || c = '.' || c = 'e' || c = 'E'

/-- the end of `re_swc`, `((?:\s+[+-.0-9eE]+)*)\s*$`: blank-separated fields of trailing characters, then blanks.
Matches iff every character is a blank or a trailing character and the rest does not start with a field;
the group is non-empty iff there is a field.  `none` = no match. -/
def tailFields (t : Str) : Option Bool :=
  if t.all (fun c => isWs c || isTailTok c) && (match t with | [] => true | c :: _ => isWs c) then some (t.any isTailTok) else none

structure Row where
  id : Nat
  type : Nat
  x : Sci
  y : Sci
  z : Sci
  r : Sci
  pid : Int
  extra : List Sci
deriving Repr, DecidableEq, Inhabited

/-- `(\s+F){k}` -/
def extras : Nat → Str → Option (List Sci × Str)
  | 0, s => some ([], s)
  | k+1, s => do
    let s ← needWs s
    let (f, s) ← floatPrefix s
    let (fs, s) ← extras k s
    pure (f :: fs, s)

/-- the whole of `re_swc` : row and whether the last group is non-empty ("some fields are ignored") -/
def parseData (nx : Nat) (l : Str) : Option (Row × Bool) := do
  let s := dropWs l
  let (id, s) ← intTok s
  let s ← needWs s
  let (ty, s) ← intTok s
  let s ← needWs s
  let (x, s) ← floatPrefix s
  let s ← needWs s
  let (y, s) ← floatPrefix s
  let s ← needWs s
  let (z, s) ← floatPrefix s
  let s ← needWs s
  let (r, s) ← floatPrefix s
  let s ← needWs s
  let (pid, s) ← pidTok s
  let (ex, s) ← extras nx s
  let tl ← tailFields s
  pure (⟨id, ty, x, y, z, r, pid, ex⟩, tl)

inductive Kind where
  | data (row : Row) (ignoredTail : Bool)
  | comment (text : Str)
  | blank
  | invalid
deriving Repr, DecidableEq

/-- `.removesuffix("\n")` -/
def stripNl : Str → Str
  | [] => []
  | [c] => if c = '\n' then [] else [c]
  | c :: cs => c :: stripNl cs

def classify (nx : Nat) (l : Str) : Kind :=
  match parseData nx l with
  | some (row, tl) => .data row tl
  | none =>
    match dropWs l with
    | '#' :: t => .comment (stripNl t)
    | [] => if l.isEmpty then .invalid else .blank      -- `"".isspace()` is False
    | _ => .invalid

/-- `" ".join(names.cols())`, from the generated column names -/
def headerText : Str :=
  (" ".intercalate [Gen.Consts.name_id, Gen.Consts.name_type, Gen.Consts.name_x, Gen.Consts.name_y,
    Gen.Consts.name_z, Gen.Consts.name_r, Gen.Consts.name_pid]).toList

def startsWith : Str → Str → Bool
  | _, [] => true
  | [], _ :: _ => false
  | c :: cs, p :: ps => c = p && startsWith cs ps

/-- `not comment.lstrip().startswith(ignored_comment)` -/
def keepComment (c : Str) : Bool := !startsWith (dropWs c) headerText

inductive Err where
  | invalidRow (line : Nat)       -- 1-based, as in the message
  | decode
deriving Repr, DecidableEq

structure Acc where
  rows : List Row            -- reversed
  comments : List Str        -- reversed
  warned : Bool

/-- the loop of `parse_swc`.  `swallow` = return value of `FileReader.__exit__`: when `True` the
`ValueError` raised inside the `with` body is swallowed and the rows collected so far are returned. -/
def readLoop (swallow : Bool) (nx : Nat) : List Str → Nat → Acc → Except Err Acc
  | [], _, a => .ok a
  | l :: ls, i, a =>
    match classify nx l with
    | .data row tl => readLoop swallow nx ls (i+1) ⟨row :: a.rows, a.comments, a.warned || tl⟩
    | .comment c => readLoop swallow nx ls (i+1) ⟨a.rows, if keepComment c then c :: a.comments else a.comments, a.warned⟩
    | .blank => readLoop swallow nx ls (i+1) a
    | .invalid => if swallow then .ok a else .error (.invalidRow (i+1))

structure ReadResult where
  rows : List Row
  comments : List Str
  warned : Bool
deriving Repr, DecidableEq

def readLinesWith (swallow : Bool) (nx : Nat) (ls : List Str) : Except Err ReadResult :=
  match readLoop swallow nx ls 0 ⟨[], [], false⟩ with
  | .ok a => .ok ⟨a.rows.reverse, a.comments.reverse, a.warned⟩
  | .error e => .error e

/-- `parse_swc` as the code stands (the `__exit__` flag is read off the source on every run) -/
def readLines (nx : Nat) (ls : List Str) : Except Err ReadResult :=
  readLinesWith Gen.Consts.fileReaderExitSwallows nx ls

/-- file iteration: split after every `'\n'` (universal-newline translation has happened before) -/
def splitLines : Str → List Str
  | [] => []
  | c :: cs =>
    if c = '\n' then [c] :: splitLines cs
    else match splitLines cs with
      | [] => [[c]]
      | l :: ls => (c :: l) :: ls

/-- `reset_index_`: subtract the first root's id from ids and from every parent ≠ -1 -/
def firstRootId : List Row → Int
  | [] => 0
  | r :: rs => if r.pid = -1 then r.id else firstRootId rs
structure IRow where
  id : Int
  type : Nat
  x : Sci
  y : Sci
  z : Sci
  r : Sci
  pid : Int
deriving Repr, DecidableEq
def resetIndex (rows : List Row) : List IRow :=
  let b := firstRootId rows
  rows.map fun r => ⟨r.id - b, r.type, r.x, r.y, r.z, r.r, if r.pid = -1 then -1 else r.pid - b⟩

/-! ## the writer -/

def digitChar (d : Nat) : Char := Char.ofNat (48 + d)
/-- `str(n)` for a natural number -/
def digits (n : Nat) : Str :=
  if h : n < 10 then [digitChar n] else digits (n / 10) ++ [digitChar (n % 10)]
termination_by n
decreasing_by omega
def showInt (i : Int) : Str := if i < 0 then '-' :: digits (-i).toNat else digits i.toNat

def pad4 (m : Nat) : Str :=
  [digitChar (m / 1000 % 10), digitChar (m / 100 % 10), digitChar (m / 10 % 10), digitChar (m % 10)]
/-- `f"{v:.4f}"` of a value that rounds to `±k·10⁻⁴` (`neg` = the sign bit, so `-0.0000` is possible) -/
def fmt4 (neg : Bool) (k : Nat) : Str :=
  (if neg then ['-'] else []) ++ digits (k / 10000) ++ '.' :: pad4 (k % 10000)

structure WRow where
  id : Nat
  type : Nat
  x : Bool × Nat
  y : Bool × Nat
  z : Bool × Nat
  r : Bool × Nat
  pid : Int
deriving Repr, DecidableEq, Inhabited

/-- one data line of `to_swc`: `id`/`pid` shifted by `id_offset` (a root's `-1` is kept) -/
def formatRow (off : Nat) (w : WRow) : Str :=
  digits (w.id + off) ++ ' ' :: digits w.type ++ ' ' :: fmt4 w.x.1 w.x.2 ++ ' ' :: fmt4 w.y.1 w.y.2 ++ ' ' ::
    fmt4 w.z.1 w.z.2 ++ ' ' :: fmt4 w.r.1 w.r.2 ++ ' ' :: showInt (if w.pid = -1 then -1 else w.pid + off) ++ ['\n']

/-- `c.isspace()` -/
def isSpaceStr (c : Str) : Bool := !c.isEmpty && c.all isWs

def commentLine (c : Str) : Str :=
  if isSpaceStr c then ['#', '\n'] else '#' :: ' ' :: dropWs c ++ ['\n']

def headerLine : Str := '#' :: ' ' :: headerText ++ ['\n']

/-- `io.to_swc` (no extra columns) -/
def writeLines (off : Nat) (comments : List Str) (rows : List WRow) : List Str :=
  comments.map commentLine ++ headerLine :: rows.map (formatRow off)

/-- `SWCLike.to_swc`: optional `source:` header + empty line, then the tree's comments if requested -/
def writeSwc (off : Nat) (source : Option Str) (withComments : Bool) (comments : List Str) (rows : List WRow) : List Str :=
  let hdr : List Str := match source with
    | some s => ["source: ".toList ++ s, []]
    | none => []
  writeLines off (hdr ++ (if withComments then comments else [])) rows

/-! ## driver ops -/
def ofCps (l : List Int) : Str := l.map (fun i => Char.ofNat i.toNat)
def toCps (s : Str) : String := Proto.showNats (s.map Char.toNat)
def showSci (v : Sci) : String := s!"{if v.neg then "-" else "+"}{v.mant}e{v.exp}"
def showRow (r : Row) : String :=
  s!"{r.id} {r.type} {showSci r.x} {showSci r.y} {showSci r.z} {showSci r.r} {r.pid}" ++
    String.join (r.extra.map (fun e => " " ++ showSci e))
def showCpsOrUnderscore (s : Str) : String := if s.isEmpty then "_" else toCps s

/-- `swcline nx=k cp=…` → `data … tail=0|1` / `comment <cps>` / `blank` / `invalid` -/
def handleLine (args : List String) : String :=
  match Proto.argNat args "nx", Proto.argInts args "cp" with
  | some nx, some cp =>
    match classify nx (ofCps cp) with
    | .data row tl => s!"data {showRow row} tail={if tl then 1 else 0}"
    | .comment c => s!"comment {showCpsOrUnderscore c}"
    | .blank => "blank"
    | .invalid => "invalid"
  | _, _ => "bad-args"

/-- `swcread nx=k reset=0|1 cp=…` (whole text) → `ok n=<rows> warned=.. | row | row … # c1 # c2` or `error invalidRow i` -/
def handleRead (args : List String) : String :=
  match Proto.argNat args "nx", Proto.argInts args "cp" with
  | some nx, some cp =>
    match readLines nx (splitLines (ofCps cp)) with
    | .error (.invalidRow i) => s!"error invalidRow {i}"
    | .error .decode => "error decode"
    | .ok res =>
      let showI := fun (r : IRow) => s!"{r.id} {r.type} {showSci r.x} {showSci r.y} {showSci r.z} {showSci r.r} {r.pid}"
      let rows := if Proto.argNat args "reset" = some 1
        then String.join ((resetIndex res.rows).map (fun r => " | " ++ showI r))
        else String.join (res.rows.map (fun r => " | " ++ showRow r))
      let cs := String.join (res.comments.map (fun c => " # " ++ showCpsOrUnderscore c))
      s!"ok n={res.rows.length} warned={if res.warned then 1 else 0}{rows}{cs}"
  | _, _ => "bad-args"

def signed (k : Int) (negZero : Bool) : Bool × Nat := (k < 0 || negZero, k.natAbs)

/-- `swcwrite off=k src=<cps|none> wc=0|1 ids= types= pids= x= y= z= r= nz=<indices of negative zeros> c=<cps;cps;…>`
→ the written text as code points.  Float columns are given as integers in units of 10⁻⁴. -/
def handleWrite (args : List String) : String :=
  match Proto.argNat args "off", Proto.arg args "src", Proto.argNat args "wc", Proto.argInts args "ids",
        Proto.argInts args "types", Proto.argInts args "pids", Proto.argInts args "x", Proto.argInts args "y",
        Proto.argInts args "z", Proto.argInts args "r", Proto.arg args "c", Proto.argInts args "nz" with
  | some off, some src, some wc, some ids, some tys, some pids, some xs, some ys, some zs, some rs, some cs, some nz =>
    let n := ids.length
    let rows : List WRow := (List.range n).map fun k =>
      let g := fun (col : Nat) (l : List Int) => signed (l.getD k 0) (nz.contains ((4 * k + col : Nat) : Int))
      ⟨(ids.getD k 0).toNat, (tys.getD k 0).toNat, g 0 xs, g 1 ys, g 2 zs, g 3 rs, pids.getD k 0⟩
    let comments : List Str := if cs = "none" then [] else
      (cs.splitOn ";").map (fun c => match Proto.ints c with | some l => ofCps l | none => [])
    let source : Option Str := if src = "none" then none else (Proto.ints src).map ofCps
    toCps (writeSwc off source (wc = 1) comments rows).flatten
  | _, _, _, _, _, _, _, _, _, _, _, _ => "bad-args"
end SwcText
