import SwcVerif.Gen.AlgoVolFront
import SwcVerif.Model.Num
import SwcVerif.Model.Basic
/-! Driver side of `Gen/AlgoVolFront.lean`: `get_volume` (validation and dispatch), `_get_volume_frustum_cone_mc_only` (the scene handed to the
Monte-Carlo sampler) and the dispatch methods of `utils/volumetric_object.py`, as GENERATED from the current source. -/
namespace AlgoRun
open Gen.Algo

/-- the scene itself as the "value" of the Monte-Carlo estimate: lets the driver print what the generated function hands to the sampler -/
structure SceneValVF where
  scene : List Py.Shape
deriving Inhabited
instance : Add SceneValVF := ⟨fun a _ => a⟩
instance : Sub SceneValVF := ⟨fun a _ => a⟩
instance : Mul SceneValVF := ⟨fun a _ => a⟩
instance : OfNat SceneValVF 0 := ⟨⟨[]⟩⟩
instance : OfNat SceneValVF 1 := ⟨⟨[]⟩⟩
instance : LT SceneValVF := ⟨fun _ _ => False⟩
instance : LE SceneValVF := ⟨fun _ _ => True⟩
instance : DecidableLT SceneValVF := fun _ _ => isFalse (fun h => h)
instance : DecidableLE SceneValVF := fun _ _ => isTrue trivial

def showShapeVF : Py.Shape → String
  | .sphere n => s!"S{n}"
  | .frustum a b => s!"F{a}:{b}"

def showExcVF {α : Type} (sh : α → String) : Option (Except Py.Exc α) → String
  | none => "E"
  | some (.error e) => s!"E:{e.kind}"
  | some (.ok v) => sh v

/-- objects on a protocol line, in prefix form with `,` between the tokens: `S<n>` | `F<a>:<b>` | `<class>,<obj1>,<obj2>` -/
def parseVObj : Nat → List String → Option (Py.VObj × List String)
  | 0, _ => none
  | _, [] => none
  | fuel + 1, t :: rest =>
    if t.startsWith "S" && (t.drop 1).toString.toInt?.isSome then ((t.drop 1).toString.toInt?).map fun n => (Py.VObj.sphere n, rest)
    else if t.startsWith "F" && (t.drop 1).toString.contains ':' then
      match ((t.drop 1).toString.splitOn ":").map String.toInt? with
      | [some a, some b] => some (Py.VObj.frustum a b, rest)
      | _ => none
    else
      match parseVObj fuel rest with
      | none => none
      | some (a, rest1) =>
        match parseVObj fuel rest1 with
        | none => none
        | some (b, rest2) => some (Py.VObj.node t a b, rest2)

def argVObj (args : List String) (k : String) : Option Py.VObj :=
  (Proto.arg args k).bind fun s => let toks := s.splitOn ","; (parseVObj (toks.length + 1) toks).bind fun r => if r.2.isEmpty then some r.1 else none

def showVObj : Py.VObj → String
  | .sphere n => s!"S{n}"
  | .frustum a b => s!"F{a}:{b}"
  | .node c a b => s!"{c},{showVObj a},{showVObj b}"

/-- `gvolfront op=union|intersect|subtract a=<obj> b=<obj>` → the object the GENERATED method of `a`'s class builds (`E:<class>` = the exception);
`op=sfu|s2u x= y= z=` → the generated `_get_volume` of the union classes on operand volumes x, y and closed-form intersection z;
`op=sfi c1= r1= c2= r2=` → `conc` / `mc`: which computation the generated `VolSphereFrustumConeIntersection._get_volume` selects;
`op=cache vol=<x>|none compute=<c>` → the value the generated `VolObject.get_volume` returns and the cache afterwards -/
def handleVolObj (op : String) (args : List String) : Option String :=
  let sph := Py.VObj.sphere 0
  let fr := Py.VObj.frustum 0 1
  let b01 (k : String) : Option Bool := (Proto.argInt args k).map (· != 0)
  match op with
  | "union" | "intersect" | "subtract" =>
    match argVObj args "a", argVObj args "b" with
    | some a, some b =>
      let r := match op, a with
        | "union", .sphere _ => sphere_union a b
        | "union", .frustum _ _ => frustum_union a b
        | "union", _ => sdf_union a b
        | "intersect", .sphere _ => sphere_intersect a b
        | "intersect", .frustum _ _ => frustum_intersect a b
        | "intersect", _ => sdf_intersect a b
        | _, _ => sdf_subtract a b
      some (showExcVF showVObj r)
    | _, _ => some "bad-args"
  | "sfu" | "s2u" =>
    match Proto.argFloat args "x", Proto.argFloat args "y", Proto.argFloat args "z" with
    | some x, some y, some z =>
      let gv : Py.VObj → Float := fun o => if o == sph then x else y
      let f := fun (_ _ : Py.VObj) => z
      let no := fun (_ _ : Py.VObj) => false
      let r := if op == "sfu" then sfu_get_volume gv f (fun _ _ => 0.0 / 0.0) (fun _ => 0.0 / 0.0) no no no no (.node "VolSphereFrustumConeUnion" sph fr)
               else s2u_get_volume gv (fun _ _ => 0.0 / 0.0) f (fun _ => 0.0 / 0.0) no no no no (.node "VolSphere2Union" sph (.sphere 1))
      some (match r with | none => "E" | some v => Proto.showFloat v)
    | _, _, _ => some "bad-args"
  | "sfi" =>
    match b01 "c1", b01 "r1", b01 "c2", b01 "r2" with
    | some c1, some r1, some c2, some r2 =>
      match sfi_get_volume (K := Int) (fun _ => 0) (fun _ _ => 1) (fun _ _ => 0) (fun _ => 2) (fun _ _ => c1) (fun _ _ => r1) (fun _ _ => c2) (fun _ _ => r2)
          (.node "VolSphereFrustumConeIntersection" sph fr) with
      | some 1 => some "conc"
      | some 2 => some "mc"
      | _ => some "E"
    | _, _, _, _ => some "bad-args"
  | "cache" =>
    match Proto.arg args "vol", Proto.argFloat args "compute" with
    | some vol, some c =>
      let v0 : Option Float := if vol == "none" then none else Proto.float? vol
      match obj_get_volume c v0 with
      | none => some "E"
      | some (cache, r) => some s!"{Proto.showFloat r} {match cache with | none => "none" | some x => Proto.showFloat x}"
    | _, _ => some "bad-args"
  | _ => none

/-- `gvolfront op=get acc=<int> | accs=<name> method=<m> ids=.. pids=.. sph=.. fr=.. pc=.. cc=.. mc=<x>` → what the GENERATED `get_volume` reports
(`E:<class>` = the exception it raises);  `gvolfront op=scene ids=.. pids=..` → the shapes the GENERATED `_get_volume_frustum_cone_mc_only` adds to
its scene, in order (`Z` = the early `return 0` of the empty tree) -/
def handleVolFront (args : List String) : String :=
  match (Proto.arg args "op").bind fun op => handleVolObj op args with
  | some out => out
  | none =>
  match Proto.arg args "op" with
  | some "get" =>
    match Proto.arg args "method", Proto.argInts args "ids", Proto.argInts args "pids",
          Proto.argFloats args "sph", Proto.argFloats args "fr", Proto.argFloats args "pc", Proto.argFloats args "cc", Proto.argFloat args "mc" with
    | some method, some ids, some pids, some sph, some fr, some pc, some cc, some mc =>
      let nan : Float := 0.0 / 0.0
      let nth (l : List Float) (i : Int) : Float := if i < 0 then nan else l.getD i.toNat nan
      let volSphere : Int → Float := fun i => nth sph i
      let volFrustum : Int × Int → Float := fun f => nth fr f.2
      let volSF : Int → Int × Int → Float := fun s f => if s = f.1 then nth pc f.2 else nth cc f.2
      let volPairs : Int → List (Int × Int) → Float := fun _ _ => 0.0
      let fuel := 2 * ids.length + 3
      match Proto.argInt args "acc", Proto.arg args "accs" with
      | some acc, _ => showExcVF Proto.showFloat (get_volume_int volSphere volFrustum volSF volPairs (fun _ => mc) fuel ids pids method acc)
      | none, some accs => showExcVF Proto.showFloat (get_volume_str volSphere volFrustum volSF volPairs (fun _ => mc) fuel ids pids method accs)
      | none, none => "bad-args"
    | _, _, _, _, _, _, _, _ => "bad-args"
  | some "scene" =>
    match Proto.argInts args "ids", Proto.argInts args "pids" with
    | some ids, some pids =>
      if ids.isEmpty then
        match get_volume_mc_only (K := Float) (fun _ => 1.0) (2 * ids.length + 3) ids pids with
        | some v => if v == 0.0 then "Z" else "?"
        | none => "E"
      else
      match get_volume_mc_only (K := SceneValVF) (fun l => ⟨l⟩) (2 * ids.length + 3) ids pids with
      | none => "E"
      | some v => " ".intercalate (v.scene.map showShapeVF)
    | _, _ => "bad-args"
  | _ => "bad-args"

end AlgoRun
