import SwcVerif.Gen.AlgoVolFront
import SwcVerif.Model.Num
import SwcVerif.Model.Basic
/-! Driver side of `Gen/AlgoVolFront.lean`: `get_volume` (validation and dispatch), `_get_volume_frustum_cone_mc_only` (the scene handed to the
Monte-Carlo sampler) and the dispatch methods of `utils/volumetric_object.py`, as GENERATED from the current source. -/
namespace AlgoRun
open Gen.Algo

/-- the scene itself as the "value" of the Monte-Carlo estimate: lets the driver print what the generated function hands to the sampler -/
structure SceneValVF where
  scene : List Py.Shape
deriving Inhabited
instance : Add SceneValVF := ⟨fun a _ => a⟩
instance : Sub SceneValVF := ⟨fun a _ => a⟩
instance : Mul SceneValVF := ⟨fun a _ => a⟩
instance : OfNat SceneValVF 0 := ⟨⟨[]⟩⟩
instance : OfNat SceneValVF 1 := ⟨⟨[]⟩⟩
instance : LT SceneValVF := ⟨fun _ _ => False⟩
instance : LE SceneValVF := ⟨fun _ _ => True⟩
instance : DecidableLT SceneValVF := fun _ _ => isFalse (fun h => h)
instance : DecidableLE SceneValVF := fun _ _ => isTrue trivial

def showShapeVF : Py.Shape → String
  | .sphere n => s!"S{n}"
  | .frustum a b => s!"F{a}:{b}"

def showExcVF {α : Type} (sh : α → String) : Option (Except Py.Exc α) → String
  | none => "E"
  | some (.error e) => s!"E:{e.kind}"
  | some (.ok v) => sh v

/-- `gvolfront op=get acc=<int> | accs=<name> method=<m> ids=.. pids=.. sph=.. fr=.. pc=.. cc=.. mc=<x>` → what the GENERATED `get_volume` reports
(`E:<class>` = the exception it raises);  `gvolfront op=scene ids=.. pids=..` → the shapes the GENERATED `_get_volume_frustum_cone_mc_only` adds to
its scene, in order (`Z` = the early `return 0` of the empty tree) -/
def handleVolFront (args : List String) : String :=
  match Proto.arg args "op" with
  | some "get" =>
    match Proto.arg args "method", Proto.argInts args "ids", Proto.argInts args "pids",
          Proto.argFloats args "sph", Proto.argFloats args "fr", Proto.argFloats args "pc", Proto.argFloats args "cc", Proto.argFloat args "mc" with
    | some method, some ids, some pids, some sph, some fr, some pc, some cc, some mc =>
      let nan : Float := 0.0 / 0.0
      let nth (l : List Float) (i : Int) : Float := if i < 0 then nan else l.getD i.toNat nan
      let volSphere : Int → Float := fun i => nth sph i
      let volFrustum : Int × Int → Float := fun f => nth fr f.2
      let volSF : Int → Int × Int → Float := fun s f => if s = f.1 then nth pc f.2 else nth cc f.2
      let volPairs : Int → List (Int × Int) → Float := fun _ _ => 0.0
      let fuel := 2 * ids.length + 3
      match Proto.argInt args "acc", Proto.arg args "accs" with
      | some acc, _ => showExcVF Proto.showFloat (get_volume_int volSphere volFrustum volSF volPairs mc fuel ids pids method acc)
      | none, some accs => showExcVF Proto.showFloat (get_volume_str volSphere volFrustum volSF volPairs mc fuel ids pids method accs)
      | none, none => "bad-args"
    | _, _, _, _, _, _, _, _ => "bad-args"
  | some "scene" =>
    match Proto.argInts args "ids", Proto.argInts args "pids" with
    | some ids, some pids =>
      if ids.isEmpty then
        match get_volume_mc_only (K := Float) (fun _ => 1.0) (2 * ids.length + 3) ids pids with
        | some v => if v == 0.0 then "Z" else "?"
        | none => "E"
      else
      match get_volume_mc_only (K := SceneValVF) (fun l => ⟨l⟩) (2 * ids.length + 3) ids pids with
      | none => "E"
      | some v => " ".intercalate (v.scene.map showShapeVF)
    | _, _ => "bad-args"
  | _ => "bad-args"

end AlgoRun
