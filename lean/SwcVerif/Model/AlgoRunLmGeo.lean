import SwcVerif.Gen.AlgoLmGeo
import SwcVerif.Model.Resample
/-! Driver side of the imperative translator for C10 (T21 `lmgeo`): the GENERATED geometric L-Measure functions (`Gen/AlgoLmGeo.lean`) are run at
`K = Rat` on trees with integer-lattice coordinates.  The pure parameter `norm` is instantiated by the SUM OF SQUARES (no square root in `Rat`);
the Python side runs the real functions with `numpy.linalg.norm` replaced by the same sum of squares, so every value is exact and the comparison
pins WHICH nodes / vectors / radii each function reads.  `angle a b` is `dot a b / (norm a * norm b)` (raises on a zero vector), `degrees` the
identity: the Python side applies `degrees ∘ arccos ∘ clip` to it. -/
namespace AlgoRun
open Gen.Algo
open Resample (showRat showRats rat?)

def sumsq (v : List Rat) : Rat := v.foldl (fun acc x => acc + x * x) 0
def dotR (a b : List Rat) : Rat := (List.zipWith (fun x y => x * y) a b).foldl (fun acc x => acc + x) 0
def angleR (a b : List Rat) : Option Rat := if sumsq a = 0 ∨ sumsq b = 0 then none else some (dotR a b / (sumsq a * sumsq b))

private def showOR : Option Rat → String
  | some r => showRat r
  | none => "E"
private def showORs (l : List (Option Rat)) : String := if l.isEmpty then "_" else " ".intercalate (l.map showOR)
private def toR (l : List Int) : List Rat := l.map fun (k : Int) => (k : Rat)

/-- `glmgeo pids=.. types=.. xs=.. ys=.. zs=.. rs=.. what=<function> [nodes=..]` (integer coordinates / radii).  Node-level functions are run at
every node, bifurcation-level ones at the nodes `nodes=`, branch-level ones on every branch of the GENERATED `get_branches`, in its order. -/
def handleLmGeo (args : List String) : String :=
  match Proto.argInts args "pids", Proto.argInts args "types", Proto.argInts args "xs", Proto.argInts args "ys", Proto.argInts args "zs",
        Proto.argInts args "rs", Proto.arg args "what" with
  | some pids, some tys, some xs0, some ys0, some zs0, some rs0, some what =>
    let ids := (List.range pids.length).map (fun (k : Nat) => (k : Int))
    let fuel := 2 * pids.length + 3
    let xs := toR xs0; let ys := toR ys0; let zs := toR zs0; let rs := toR rs0
    let nodes := (Proto.argInts args "nodes").getD []
    let F := Py.ratFld
    let onBranches (f : List Int → Option Rat) : String :=
      match get_branches fuel ids pids with
      | some brs => showORs (brs.map f)
      | none => "E"
    match what with
    | "path_distance" => showORs (ids.map fun k => lm_path_distance sumsq fuel pids xs ys zs k)
    | "euc_distance" => showORs (ids.map fun k => lm_euc_distance sumsq ids pids tys xs ys zs k)
    | "diameter" => showORs (ids.map fun k => lm_diameter F rs k)
    | "rall_power_d" => " ".intercalate (nodes.map fun k => match lm_rall_power_d F ids pids rs k with
        | some (a, b, c) => showRats [a, b, c]
        | none => "E")
    | "pk_2" => showORs (nodes.map fun k => lm_pk_2 F ids pids rs k)
    | "bif_vector_local" => " ".intercalate (nodes.map fun k => match lm_bif_vector_local ids pids xs ys zs k with
        | some (a, b) => showRats a ++ ";" ++ showRats b
        | none => "E")
    | "bif_vector_remote" => " ".intercalate (nodes.map fun k => match lm_bif_vector_remote fuel ids pids xs ys zs k with
        | some (a, b) => showRats a ++ ";" ++ showRats b
        | none => "E")
    | "bif_ampl_remote" => showORs (nodes.map fun k => lm_bif_ampl_remote angleR id fuel ids pids xs ys zs k)
    | "bif_ampl_local" => showORs (nodes.map fun k => lm_bif_ampl_local angleR id ids pids xs ys zs k)
    | "length" | "surface" | "volume" =>
      -- the compartments `[parent, node]` of every non-root row, in row order; `pi=<rat>`, `cp=0|-1` (the `compartment_point` option)
      let comps := (ids.zip pids).filterMap fun (i, p) => if p = -1 then none else some [p, i]
      let pi : Rat := ((Proto.arg args "pi").bind rat?).getD 3
      let cp := (Proto.argInt args "cp").getD (-1)
      showORs (comps.map fun c => match what with
        | "length" => lm_length sumsq xs ys zs c
        | "surface" => lm_surface F sumsq pi cp xs ys zs rs c
        | _ => lm_volume sumsq pi cp xs ys zs rs c)
    | "section_area" =>
      let pi : Rat := ((Proto.arg args "pi").bind rat?).getD 3
      showORs (ids.map fun k => lm_section_area pi rs k)
    | "branch_pathlength" => onBranches fun b => lm_branch_pathlength sumsq xs ys zs b
    | "contraction" => onBranches fun b => lm_contraction F sumsq xs ys zs b
    | "taper_1" => onBranches fun b => lm_taper_1 F sumsq xs ys zs rs b
    | "taper_2" => onBranches fun b => lm_taper_2 F rs b
    | _ => "bad-op"
  | _, _, _, _, _, _, _ => "bad-args"

end AlgoRun
