import SwcVerif.Gen.AlgoCut
import SwcVerif.Model.Basic
/-! Driver side of the imperative translator for C06, `Gen/AlgoCut.lean` (see `AlgoRunSubtree.lean`): the GENERATED `to_subtree` and
`cut_tree` (both overloads, with the generated closures `_enter` / `_leave` that call the user's callback) are run on the same protocol
lines as the hand-written models and the real functions.  The user callbacks are the ones the suite passes to the real `cut_tree`,
encoded as data exactly as for the model ops `cutenter` / `cutdepth` / `cutleave`; here they are STATEFUL (they count their calls), and
the count is reported after the table so that "the user callback is not called below a removed node" is compared as well. -/
namespace AlgoRun
open Gen.Algo

def showCut (r : Option (((List Int) × (List Int)) × (List Int))) : String :=
  match r with
  | none => "E"
  | some r => s!"{Proto.showInts r.1.2} / {Proto.showInts r.2}"

/-- `gtosubtree | gcutenter | gcutdepth | gcutleave | gcutleaveset | gcuttype | gcutorder pids=.. (rm=.. | d=k | h=k | types=.. t=k | m=k)` on a tree object (ids = positions) -/
def handleCut (what : String) (args : List String) : String :=
  match Proto.argInts args "pids" with
  | none => "bad-args"
  | some pids =>
    let ids := (List.range pids.length).map (fun (k : Nat) => (k : Int))
    let fuel := 2 * pids.length + 3
    match what with
    | "gtosubtree" => match Proto.argInts args "rm" with
      | some rm => showCut (to_subtree fuel ids pids rm)
      | none => "bad-args"
    | "gcutenter" => match Proto.argInts args "rm" with       -- user callback: remove when id ∈ rm; value = depth
      | some rm => showCut ((cut_tree_enter (σ := Nat) (T := Int)
          (fun calls n pv => (calls + 1, ((pv.getD (-1)) + 1, rm.contains n))) fuel ids pids 0).map (·.2))
      | none => "bad-args"
    | "gcutdepth" => match Proto.argInt args "d" with          -- user callback: remove when depth ≥ d
      | some d => showCut ((cut_tree_enter (σ := Nat) (T := Int)
          (fun calls _ pv => (calls + 1, ((pv.getD (-1)) + 1, decide ((pv.getD (-1)) + 1 ≥ d)))) fuel ids pids 0).map (·.2))
      | none => "bad-args"
    | "gcutleave" => match Proto.argInt args "h" with          -- user callback: value = height; remove when height ≤ h and not the root
      | some h => showCut ((cut_tree_leave (σ := Nat) (K := Int)
          (fun calls n ks =>
            let ht := ks.foldl (fun a k => if k + 1 > a then k + 1 else a) 0
            (calls + 1, (ht, decide (ht ≤ h) && n != 0))) fuel ids pids 0).map (·.2))
      | none => "bad-args"
    | "gcutleaveset" => match Proto.argInts args "rm" with     -- user callback: value = subtree size; remove when id ∈ rm
      | some rm => showCut ((cut_tree_leave (σ := Nat) (K := Int)
          (fun calls n ks => (calls + 1, (1 + ks.foldl (· + ·) 0, rm.contains n))) fuel ids pids 0).map (·.2))
      | none => "bad-args"
    | "gcuttype" => match Proto.argInts args "types", Proto.argInt args "t" with   -- the GENERATED `CutByType(t).__call__`
      | some tys, some t => showCut (cut_by_type fuel ids pids tys t)
      | _, _ => "bad-args"
    | "gcutorder" => match Proto.argInt args "m" with          -- `CutByFurcationOrder(m).__call__` = `cut_tree(x, enter=self._enter)`: the GENERATED
      -- `cut_tree` with the GENERATED `_enter` as the user callback (its state: "has not raised")
      | some m =>
        match cut_tree_enter (σ := Bool) (T := Int)
            (fun ok n pv => match order_enter ids pids m n pv with
              | some r => (ok, r)
              | none => (false, default)) fuel ids pids true with
        | some (true, r) => showCut (some r)
        | _ => "E"
      | none => "bad-args"
    | _ => "bad-op"

end AlgoRun
