import SwcVerif.Model.Branches
import SwcVerif.Model.Subtree
/-! Model of `swcgeom/core/branch_tree.py::BranchTree.from_tree` at the topology level: the table `branchTreeTable` of
`Model/Branches.lean` (`sub_id = [0] + [br[-1].id]`, `sub_pid = [-1] + [br[0].id]`) renumbered by `to_sub_topology`
(`Model/Subtree.lean`), and the `branches` dictionary: every branch is filed, in the order of `get_branches`, under the NEW index of
its first node (`np.nonzero(id_map == br[0].id)[0][0]`, then `setdefault` / `append`). -/
namespace Branches

/-- an insertion-ordered dictionary `new index ↦ branches` -/
abbrev Groups := List (Int × List (List Int))

/-- `d[k]` (`none` = the key is absent) -/
def glookup (d : Groups) (k : Int) : Option (List (List Int)) := (d.find? (fun p => p.1 = k)).map (·.2)

/-- `d.setdefault(k, []); d[k].append(b)`: an existing key keeps its place, a new key goes to the end -/
def addBranch (d : Groups) (k : Int) (b : List Int) : Groups :=
  match glookup d k with
  | some x => d.map (fun p => if p.1 = k then (k, x ++ [b]) else p)
  | none => d ++ [(k, [b])]

/-- the loop `for br in branches`: `none` = IndexError (the first node of a branch is not a node of the branch tree) -/
def fileBranches (root : Int) (mapping : List Int) : List (List Int) → Groups → Option Groups
  | [], d => some d
  | b :: bs, d =>
    match Sub.pos? mapping (b.headD root) with
    | none => none
    | some k => fileBranches root mapping bs (addBranch d k b)

structure BranchTreeM where
  newPid : List Int        -- new id = position
  mapping : List Int       -- new id ↦ node of the original tree (every other column is gathered through it)
  branches : Groups
deriving Repr, DecidableEq

/-- `BranchTree.from_tree` for a tree whose `get_branches()` is `brs` -/
def branchTree (root : Int) (brs : List (List Int)) : Option BranchTreeM :=
  let t := branchTreeTable root brs
  match Sub.toSubTopology t.1 t.2 with
  | none => none
  | some s => (fileBranches root s.mapping brs []).map fun d => ⟨s.newPid, s.mapping, d⟩

def showGroups (d : Groups) : String := "|".intercalate (d.map fun p => s!"{p.1}:{showLists p.2}")

/-- driver: `brtree pids=..` (a `Tree` object: ids = positions, root 0) → `pid / src / br` -/
def handleBranchTree (args : List String) : String :=
  match Proto.argInts args "pids" with
  | some pids =>
    let ids := Sub.rangeI pids.length
    match branchTree 0 (getBranches ids pids 0 (2 * ids.length + 2)) with
    | none => "E"
    | some r => s!"pid={Proto.showInts r.newPid} / src={Proto.showInts r.mapping} / br={showGroups r.branches}"
  | none => "bad-args"

end Branches
