import SwcVerif.Model.Py
/-! Semantics of the numpy idiom of `swcgeom/transforms/mst.py::PointsToCuntzMST.__init__` (Mathlib-free: linked into the driver). -/
namespace Py
variable {K : Type}

/-- `np.clip(x, lo, hi)` of a scalar: `minimum(maximum(x, lo), hi)` (numpy's definition; for `lo ≤ hi` the value of `x` forced into `[lo, hi]`).
`maximum(x, lo)` is `lo` when `x < lo`, `minimum(y, hi)` is `hi` when `hi < y` (NaN is outside the model: `K` is an ordered type). -/
def clip [LT K] [DecidableLT K] (x lo hi : K) : K :=
  let y := if x < lo then lo else x
  if hi < y then hi else y

end Py
