import SwcVerif.Model.Sort
/-! Models for C07: `tree_utils.redirect_tree` and `tree_utils.cat_tree` (topology, types and positions;
ids = positions in a `Tree`, so a table is its parent list). -/
namespace Redir
open SortM

/-- `path = [node(new_root)]; while (p := path[-1].parent()) is not None: path.append(p)` -/
def rootPath (pids : List Int) : Nat → Int → List Int
  | 0, k => [k]
  | f+1, k =>
    match pids.getD k.toNat (-1) with
    | -1 => [k]
    | p => k :: rootPath pids f p

def setAt {α} (l : List α) (i : Int) (v : α) : List α := if i < 0 then l else l.set i.toNat v

/-- `for n, p in zip(path[1:], path[:-1]): n.pid = p.id` -/
def reversePath (pids : List Int) : List Int → List Int
  | c :: p :: rest => reversePath (setAt pids p c) (p :: rest)
  | _ => pids

structure Redirected where
  pids : List Int
  types : List Int
deriving Repr, DecidableEq

/-- `redirect_tree(tree, new_root, sort=False)` on parents and types -/
def redirect (pids types : List Int) (newRoot : Int) : Redirected :=
  let path := rootPath pids pids.length newRoot
  let oldRoot := path.getLastD newRoot
  let pids1 := setAt pids newRoot (-1)
  let t0 := types.getD newRoot.toNat 0
  let tr := types.getD oldRoot.toNat 0
  -- `path[0].type, path[-1].type = path[-1].type, path[0].type`
  let types1 := setAt (setAt types newRoot tr) oldRoot t0
  ⟨reversePath pids1 path, types1⟩

/-- with `sort=True`: `_sort_tree` afterwards (new parents, and new id ↦ old id) -/
def redirectSorted (pids types : List Int) (newRoot : Int) : Option (List Int × List Int × List Int) :=
  let r := redirect pids types newRoot
  let ids := (List.range pids.length).map Int.ofNat
  match sortNodesImpl ids r.pids with
  | .ok s => some (s.newPids, s.idMap, permute r.types s.indices)
  | .error _ => none

/-! ## cat_tree -/
structure Cat where
  ids : List Int           -- before the final sort: tree1's ids, then tree2's shifted by `ns` (junction row deleted when merged)
  pids : List Int
  x : List Int
  y : List Int
  z : List Int
  types : List Int
deriving Repr, DecidableEq

def eraseAt {α} (l : List α) (k : Nat) : List α := l.take k ++ l.drop (k + 1)

/-- `cat_tree(tree1, tree2, node1, node2, translate=…)` up to (not including) the final `_sort_tree`.
Coordinates are integers (lattice); the junction test `norm(…) < EPS` is `squared distance = 0` there. -/
def catPre (p1 t1 x1 y1 z1 p2 t2 x2 y2 z2 : List Int) (node1 node2 : Int) (translate : Bool) : Cat :=
  let ns : Int := p1.length
  -- `if not tree2.node(node2).is_root(): tree2 = redirect_tree(tree2, node2, sort=False)`
  let r2 : Redirected := if p2.getD node2.toNat (-1) = -1 then ⟨p2, t2⟩ else redirect p2 t2 node2
  let cx := x1.getD node1.toNat 0; let cy := y1.getD node1.toNat 0; let cz := z1.getD node1.toNat 0
  let dx := if translate then x2.getD node2.toNat 0 - cx else 0
  let dy := if translate then y2.getD node2.toNat 0 - cy else 0
  let dz := if translate then z2.getD node2.toNat 0 - cz else 0
  let x2' := x2.map (· - dx); let y2' := y2.map (· - dy); let z2' := z2.map (· - dz)
  let ex := x2'.getD node2.toNat 0 - cx; let ey := y2'.getD node2.toNat 0 - cy; let ez := z2'.getD node2.toNat 0 - cz
  let coincident := ex * ex + ey * ey + ez * ez = 0
  -- children of node2 in the (redirected) second tree
  let kids2 : List Int := tableKids ((List.range p2.length).map Int.ofNat) r2.pids node2
  let linkToRoot : List Int := if coincident then kids2.map (· + ns) else [node2 + ns]
  let ids := (List.range p1.length).map Int.ofNat ++ (List.range p2.length).map (fun k => Int.ofNat k + ns)
  let pids0 := p1 ++ r2.pids.map (· + ns)            -- `tree2.ndata[pid] += ns` (the root's -1 becomes ns - 1)
  let pids1 := linkToRoot.foldl (fun ps n => setAt ps n node1) pids0
  let cat : Cat := ⟨ids, pids1, x1 ++ x2', y1 ++ y2', z1 ++ z2', t1 ++ r2.types⟩
  if coincident then
    let k := (node2 + ns).toNat
    ⟨eraseAt cat.ids k, eraseAt cat.pids k, eraseAt cat.x k, eraseAt cat.y k, eraseAt cat.z k, eraseAt cat.types k⟩
  else cat

/-- the final `_sort_tree`: new parents, and for every new node its pre-sort id -/
def catTree (p1 t1 x1 y1 z1 p2 t2 x2 y2 z2 : List Int) (node1 node2 : Int) (translate : Bool) :
    Option (List Int × List Int × Cat) :=
  let c := catPre p1 t1 x1 y1 z1 p2 t2 x2 y2 z2 node1 node2 translate
  match sortNodesImpl c.ids c.pids with
  | .ok s => some (s.newPids, s.idMap, ⟨s.idMap, s.newPids, permute c.x s.indices, permute c.y s.indices, permute c.z s.indices, permute c.types s.indices⟩)
  | .error _ => none

/-! ## driver -/
def handle (what : String) (args : List String) : String :=
  match what with
  | "redirect" =>
    match Proto.argInts args "pids", Proto.argInts args "types", Proto.argInt args "root", Proto.argNat args "sort" with
    | some pids, some tys, some root, some srt =>
      if srt = 1 then
        match redirectSorted pids tys root with
        | some (np, idm, ty) => s!"{Proto.showInts np} / {Proto.showInts idm} / {Proto.showInts ty}"
        | none => "E"
      else
        let r := redirect pids tys root
        s!"{Proto.showInts r.pids} / {Proto.showInts ((List.range pids.length).map Int.ofNat)} / {Proto.showInts r.types}"
    | _, _, _, _ => "bad-args"
  | "cat" =>
    let g := fun k => Proto.argInts args k
    match g "p1", g "t1", g "x1", g "y1", g "z1", g "p2", g "t2", g "x2", g "y2", g "z2",
          Proto.argInt args "n1", Proto.argInt args "n2", Proto.argNat args "tr" with
    | some p1, some t1, some x1, some y1, some z1, some p2, some t2, some x2, some y2, some z2, some n1, some n2, some tr =>
      match catTree p1 t1 x1 y1 z1 p2 t2 x2 y2 z2 n1 n2 (tr = 1) with
      | some (np, idm, c) => s!"{Proto.showInts np} / {Proto.showInts idm} / {Proto.showInts c.x} / {Proto.showInts c.y} / {Proto.showInts c.z} / {Proto.showInts c.types}"
      | none => "E"
    | _, _, _, _, _, _, _, _, _, _, _, _, _ => "bad-args"
  | _ => "bad-op"
end Redir
