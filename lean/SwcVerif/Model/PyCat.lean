import SwcVerif.Model.Py
/-! Further semantics functions of the imperative translator used by `Gen/AlgoCat.lean` (`tree_utils.cat_tree`):
`np.delete(a, indices)` on a 1-d array.  Mathlib-free (linked into the driver). -/
namespace Py

variable {α : Type}

/-- the entries of `l` (positions `k, k+1, …`) whose position is not listed -/
def dropAt : List α → Nat → List Nat → List α
  | [], _, _ => []
  | x :: xs, k, ks => if ks.contains k then dropAt xs (k + 1) ks else x :: dropAt xs (k + 1) ks

/-- `np.delete(a, idxs)` for a list of integer indices: every index is normalised as by indexing (negative indices wrap, an index out
of range raises IndexError), then the rows at the listed positions are left out (a position listed twice is deleted once) -/
def delete (l : List α) (idxs : List Int) : Option (List α) :=
  (idxs.mapM (normIdx l.length)).map (fun ks => dropAt l 0 ks)

end Py
