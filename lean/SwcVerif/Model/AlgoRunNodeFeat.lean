import SwcVerif.Gen.AlgoNodeFeat
import SwcVerif.Gen.AlgoBranchTree
import SwcVerif.Model.Resample
/-! Driver side of the imperative translator for C10 / C11 (T22 `nodefeat`): the GENERATED geometry helpers (`Path.length` /
`straight_line_distance` / `tortuosity`, `Node.distance`, `Tree.length`) and feature classes (`NodeFeatures`, `FurcationFeatures` /
`TipFeatures`, `PathFeatures`, `BranchFeatures`) are run at `K = Rat` on protocol lines built from the real functions' inputs.

`sqrt` does not exist in `Rat`; the function parameter `norm` is instantiated by one of two EXACT stand-ins and the Python side decodes:
* `mode=rt`: `‖v‖` itself when `Σ vᵢ²` is the square of a rational (the suites use trees whose edges all have integer length, so every
  length is exact); otherwise the MARKER `-(Σ vᵢ²)` (a negative number, which no norm is) — used only where the value is reported as is
  or divided by an exact length;
* `mode=sq`: `Σ vᵢ²` (the squared quantity), with `acos` the identity (the argument log): the Python side recomputes the same rationals
  from the real functions' inputs. -/
namespace AlgoRun
open Gen.Algo
open Resample (rats rat? showRat showRats)

def nfSumSq (v : List Rat) : Rat := v.foldl (fun a x => a + x * x) 0
def nfSqrt? (q : Rat) : Option Rat :=
  let a := Nat.sqrt q.num.toNat; let b := Nat.sqrt q.den
  if 0 ≤ q.num ∧ a * a = q.num.toNat ∧ b * b = q.den then some ((a : Rat) / (b : Rat)) else none
def nfNormRt (v : List Rat) : Rat := match nfSqrt? (nfSumSq v) with | some r => r | none => -(nfSumSq v)

private def showRowsNf (m : List (List Rat)) : String := ";".intercalate (m.map fun r => if r.isEmpty then "_" else showRats r)
private def rowsNf? (s : String) : Option (List (List Rat)) := if s = "" then some [] else (s.splitOn ";").mapM rats

/-- `gnodefeat pids=… types=… xyz=<x,y,z;…> mode=rt|sq what=… [a= b=] [eps=]`; `E` = the generated definition raised -/
def handleNodeFeat (args : List String) : String :=
  match Proto.argInts args "pids", Proto.argInts args "types", (Proto.arg args "xyz").bind rowsNf?, Proto.arg args "what" with
  | some pids, some types, some xyz, some what =>
    let norm : List Rat → Rat := if Proto.arg args "mode" = some "sq" then nfSumSq else nfNormRt
    let ids := Py.range pids.length
    let fuel := 2 * pids.length + 4
    let showK (o : Option Rat) : String := match o with | none => "E" | some x => showRat x
    let showL (o : Option (List Rat)) : String := match o with | none => "E" | some l => if l.isEmpty then "_" else showRats l
    match what with
    | "length" => showK (nf_tree_length norm ids pids xyz)
    | "radial" => showL (nf_radial_distance norm ids pids types xyz)
    | "counts" =>
      match nf_node_count Py.ratFld ids, (nf_furcation_nodes ids pids).bind (nf_subset_count (K := Rat) Py.ratFld),
            (nf_tip_nodes ids pids).bind (nf_subset_count (K := Rat) Py.ratFld) with
      | some a, some b, some c => s!"{showRats a} {showRats b} {showRats c}"
      | _, _, _ => "E"
    | "fradial" => showL ((nf_furcation_nodes ids pids).bind (nf_subset_radial_distance norm ids pids types xyz))
    | "tradial" => showL ((nf_tip_nodes ids pids).bind (nf_subset_radial_distance norm ids pids types xyz))
    | "plen" => showL (nf_pf_length norm fuel ids pids xyz)
    | "blen" => showL (nf_bf_length norm fuel ids pids xyz)
    | "ptort" => showL (nf_pf_tortuosity Py.ratFld norm fuel ids pids xyz)
    | "btort" => showL (nf_bf_tortuosity Py.ratFld norm fuel ids pids xyz)
    | "border" =>
      match bt_from_tree fuel ids pids with
      | none => "E"
      | some bt => match nf_branch_order (2 * bt.id.length + 4) bt.id bt.pid with
        | none => "E"
        | some o => s!"{Proto.showInts bt.src} {Proto.showInts o}"
    | "angle" =>
      match (Proto.arg args "eps").bind rat? with
      | none => "bad-args"
      | some eps => match nf_bf_angle Py.ratFld norm id fuel ids pids xyz eps with
        | none => "E"
        | some m => showRowsNf m
    | "dist" =>
      match Proto.argInt args "a", Proto.argInt args "b" with
      | some a, some b => showK (nf_node_distance norm xyz a b)
      | _, _ => "bad-args"
    | "pathq" =>    -- `idx=`: an explicit row list: length, straight-line distance, tortuosity of that path
      match Proto.argInts args "idx" with
      | some idx => s!"{showK (nf_path_length norm xyz idx)} {showK (nf_path_straight norm xyz idx)} {showK (nf_path_tortuosity Py.ratFld norm xyz idx)}"
      | none => "bad-args"
    | _ => "bad-op"
  | _, _, _, _ => "bad-args"
end AlgoRun
