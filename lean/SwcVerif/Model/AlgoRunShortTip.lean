import SwcVerif.Gen.AlgoShortTip
import SwcVerif.Model.Basic
/-! Driver side of the imperative translator for C06, `Gen/AlgoShortTip.lean`: the GENERATED `CutShortTipBranch.__call__` (with the generated
`_leave` handed to the generated traversal, the generated recording lambda on the callback list, the generated `to_subtree`) is run on the
same protocol lines as the hand-written model `cuttip` and the real class.  Edge lengths are the integers the suite generates
(`dist n c = elen[c]`, the length of the edge from `c` to its parent).  With `cb=1` the callback list holds a user callback on entry (what
`__init__` puts there for `callback=...`): it records every branch it is called with, reported after the table. -/
namespace AlgoRun
open Gen.Algo

def showBranches (bs : List (List Int)) : String := ";".intercalate (bs.map Proto.showInts)

/-- `gcuttip pids=.. elen=.. thre=k cb=0|1` on a tree object (ids = positions) -/
def handleShortTip (what : String) (args : List String) : String :=
  match Proto.argInts args "pids", Proto.argInts args "elen", Proto.argInt args "thre", Proto.argInt args "cb" with
  | some pids, some el, some th, some cb =>
    let ids := (List.range pids.length).map (fun (k : Nat) => (k : Int))
    let fuel := 2 * pids.length + 3
    let cbs : List (List (List Int) → List Int → Option (List (List Int))) := if cb = 0 then [] else [fun s br => some (s ++ [br])]
    match what with
    | "gcuttip" =>
      match cut_short_tip (σ := List (List Int)) (K := Int) cbs (fun _ c => el.getD c.toNat 0) fuel ids pids th [] with
      | some (s, r) => s!"{Proto.showInts r.1.2} / {Proto.showInts r.2} / {showBranches s}"
      | none => "E"
    | _ => "bad-op"
  | _, _, _, _ => "bad-args"

/-- `gsubimpl ids=.. pids=.. types=.. xs=.. subids=.. subpids=..`: the GENERATED `to_subtree_impl` on the columns of a tree and a marked topology;
`out_mapping` is a pre-filled list; prints the result columns id / pid / type / x, the mapping, the node count, and whether the input columns,
`source` and `names` came back as they were -/
def handleSubImpl (args : List String) : String :=
  match Proto.argInts args "ids", Proto.argInts args "pids", Proto.argInts args "types", Proto.argInts args "xs",
        Proto.argInts args "subids", Proto.argInts args "subpids" with
  | some ids, some pids, some tys, some xs, some sids, some spids =>
    match to_subtree_impl (A := Int) (Src := String) (Nm := Nat) ids pids tys xs "src" 42 (sids, spids) [7, 7] with
    | some (om, i', p', t', x', (n, (nid, npid, nty, nx), src, nm)) =>
      let same := decide (i' = ids) && decide (p' = pids) && decide (t' = tys) && decide (x' = xs) && src == "src" && nm == 42
      s!"{Proto.showInts nid} / {Proto.showInts npid} / {Proto.showInts nty} / {Proto.showInts nx} / {Proto.showInts om} / {n} / {if same then "same" else "CHANGED"}"
    | none => "E"
  | _, _, _, _, _, _ => "bad-args"

def showTreeRes (ids pids tys xs : List Int)
    (r : Option ((List Int) × (List Int) × (List Int) × (List Int) × (List Int) × (Int × ((List Int × List Int × List Int × List Int) × (String × Nat))))) : String :=
  match r with
  | some (om, i', p', t', x', (n, (nid, npid, nty, nx), src, nm)) =>
    let same := decide (i' = ids) && decide (p' = pids) && decide (t' = tys) && decide (x' = xs) && src == "src" && nm == 42
    s!"{Proto.showInts nid} / {Proto.showInts npid} / {Proto.showInts nty} / {Proto.showInts nx} / {Proto.showInts om} / {n} / {if same then "same" else "CHANGED"}"
  | none => "E"

/-- `gtosubfull pids=.. types=.. xs=.. rm=..` / `ggetsubfull pids=.. types=.. xs=.. n=k` / `gtosubdep pids=.. types=.. xs=.. subids=..`: the GENERATED
`to_subtree` / `get_subtree` / `to_sub_tree` over ALL columns of a tree object (ids = positions), `out_mapping` a pre-filled list -/
def handleSubFull (what : String) (args : List String) : String :=
  match Proto.argInts args "pids", Proto.argInts args "types", Proto.argInts args "xs" with
  | some pids, some tys, some xs =>
    let ids := (List.range pids.length).map (fun (k : Nat) => (k : Int))
    let fuel := 2 * pids.length + 3
    match what with
    | "gtosubfull" => match Proto.argInts args "rm" with
      | some rm => showTreeRes ids pids tys xs (to_subtree_tree (A := Int) (Src := String) (Nm := Nat) fuel ids pids tys xs "src" 42 rm [7, 7])
      | none => "bad-args"
    | "ggetsubfull" => match Proto.argInt args "n" with
      | some n => showTreeRes ids pids tys xs (get_subtree_tree (A := Int) (Src := String) (Nm := Nat) fuel ids pids tys xs "src" 42 n [7, 7])
      | none => "bad-args"
    | "gtosubdep" => match Proto.argInts args "subids" with
      | some sids =>
        match to_sub_tree (A := Int) (Src := String) (Nm := Nat) fuel ids pids tys xs "src" 42 (sids, pids) with
        | some (i', p', t', x', (tr, idmap)) =>
          showTreeRes ids pids tys xs (some ([], i', p', t', x', tr)) ++ " / " ++ ";".intercalate (idmap.map fun kv => s!"{kv.1}:{kv.2}")
        | none => "E"
      | none => "bad-args"
    | _ => "bad-op"
  | _, _, _ => "bad-args"

end AlgoRun
