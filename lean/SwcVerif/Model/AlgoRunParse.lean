import SwcVerif.Gen.AlgoParse
import SwcVerif.Model.Basic
/-! Driver side of the imperative translator for C02 (see `AlgoRunSort.lean`): the GENERATED `parse_swc` loop (with the generated
`FileReader.__exit__`) is run on the per-line outcomes of the REAL `re_swc.search` / `RE_COMMENT.match` / `str.isspace` that the
harness computes, and its result is compared with what the real `parse_swc` returns / raises on the same text. -/
namespace AlgoRun
open Gen.Algo

/-- one line of the file as the three tests of the real code see it, each outcome given independently (so that the ORDER in which the
generated code asks them matters): the converted groups of `re_swc` as value tokens + "the last group is non-empty", the comment token
(negative = it starts with the column header), `isspace()` -/
structure PLine where
  row : Option (List Int × Bool)
  cmt : Option Int
  blank : Bool
deriving Inhabited

/-- `<row>/<comment>/<blank>` with `<row>` = `-` | `<0|1>:<v1>,<v2>,…`, `<comment>` = `-` | integer, `<blank>` = `0|1` -/
def parsePLine (tok : String) : Option PLine :=
  match tok.splitOn "/" with
  | [r, c, b] =>
    let row : Option (Option (List Int × Bool)) :=
      if r = "-" then some none else
      match r.splitOn ":" with
      | [t, vs] => (Proto.ints vs).map fun l => some (l, t = "1")
      | _ => none
    let cmt : Option (Option Int) := if c = "-" then some none else c.toInt?.map some
    match row, cmt with
    | some row, some cmt => some ⟨row, cmt, b = "1"⟩
    | _, _ => none
  | _ => none

def showExc (e : Py.Exc) : String := s!"{e.kind} args={Proto.showInts e.args}"

/-- `gparse cols=id,type,… extras=e0,… open=0|1 fail=0|1 lines=<line>;<line>;…` →
`ok closed=. warn=<rows> cols=<key>:<tokens>|… comments=<tokens>` / `error <kind> args=.. closed=. warn=.. msg=<template>` / `E` (an untracked exception) -/
def handleParse (args : List String) : String :=
  match Proto.arg args "cols", Proto.arg args "extras", Proto.argNat args "open", Proto.argNat args "fail", Proto.arg args "lines" with
  | some cols, some extras, some opn, some fail, some ls =>
    let names := fun (s : String) => if s = "_" || s = "" then ([] : List String) else s.splitOn ","
    match (if ls = "_" || ls = "" then some [] else (ls.splitOn ";").mapM parsePLine) with
    | none => "bad-args"
    | some lines =>
      let stream : Py.Stream PLine := ⟨lines, if fail = 1 then some ⟨"UnicodeDecodeError", "", []⟩ else none⟩
      match parse_swc (fun l => l.row) (fun l => l.cmt) (fun (c : Int) => decide (c < 0)) (fun l => l.blank)
          (names cols) (names extras) ⟨if opn = 1 then some () else none, false⟩ stream with
      | none => "E"
      | some (ws, rd, res) =>
        let warn := Proto.showInts (ws.map fun w => w.args.headD 0)
        let closed := if rd.closed then 1 else 0
        match res with
        | .error e => s!"error {showExc e} closed={closed} warn={warn} msg={e.msg}"
        | .ok (df, comments) =>
          let colsS := "|".intercalate (df.map fun kv => s!"{kv.1}:{Proto.showInts kv.2}")
          s!"ok closed={closed} warn={warn} cols={colsS} comments={Proto.showInts comments}"
  | _, _, _, _, _ => "bad-args"

end AlgoRun
