import SwcVerif.Model.Py
/-! Semantics added for `analysis/volume.py::_get_volume_frustum_cone` (`harness/algo_specs/14_voltrav.py`, Gen/AlgoVolume.lean). -/
namespace Py

/-- Python's `sum(xs)` over numbers: the left fold `((0 + x₁) + x₂) + …` -/
def sumNum {K : Type} [Add K] [OfNat K 0] (l : List K) : K := l.foldl (· + ·) 0

end Py
