import SwcVerif.Gen.AlgoAscLex
import SwcVerif.Model.AlgoRunAsc
import SwcVerif.Model.Asc
/-! Driver side of the imperative translator for C15, character level: the GENERATED `Lexer` (`__init__`, `__next__`, `_read_word`,
`_read_char`, `_read_line`, `_token` of `neurolucida_asc.py`) is run on the text of a document and compared token by token (type,
value, line, column) with the real `Lexer`; `ascConvertText` composes it with the generated parser and walk as `from_stream` does.

The two pure parameters of the generated `__next__` are instantiated here (TRUSTED reading): `isNumber` = `Asc.looksFloat` (a prefix
match of the pinned `RE_FLOAT`), `parseNumber` = CPython `float()` = a FULL match of the decimal grammar `SwcText.floatPrefix` (the
exact decimal value is kept; `none` = ValueError). -/
namespace AlgoRun
open Gen.Algo

def ascIsNumber (w : String) : Bool := Asc.looksFloat w.toList

/-- `float(word)` with the numbers encoded by `encF` (an opaque payload for the parser) -/
def ascParseNumber (encF : SwcText.Sci → Int) (w : String) : Option Py.Atom :=
  match SwcText.floatPrefix w.toList with
  | some (v, []) => some (.flt (encF v))
  | _ => none

/-- `Lexer(io.StringIO(text))` -/
def ascLexer (s : List Char) : Option Lexer := (lexer_init default (String.ofList s)).map (·.1)

/-- the iteration protocol on the generated `__next__` (what `for tok in lexer` / repeated `next(lexer, None)` see): the tokens produced
until `StopIteration` (`true`) or until `__next__` raises anything else (`false`: the ValueError of `float()`).  `g` = fuel of the loops
of `_read_word`, `f` = number of `__next__` calls allowed (both `text length + 1`, PROVED sufficient: `C15.generated_lex_eq_model`). -/
def ascLexLoop (isN : String → Bool) (pN : String → Option Py.Atom) (g : Nat) : Nat → Lexer → List LexToken × Bool
  | 0, _ => ([], false)
  | f+1, L =>
    match lexer_next isN pN g L with
    | some (L', .ok t) => let r := ascLexLoop isN pN g f L'; (t :: r.1, r.2)
    | some (_, .error e) => ([], e.kind == "StopIteration")
    | none => ([], false)

def ascLexAll (encF : SwcText.Sci → Int) (s : List Char) : List LexToken × Bool :=
  match ascLexer s with
  | none => ([], false)
  | some L => ascLexLoop ascIsNumber (ascParseNumber encF) (s.length + 1) (s.length + 1) L

/-- a `Token` as the parser sees it (`lineno` / `column` only occur in error messages) -/
def LexToken.toToken (t : LexToken) : Token := ⟨t.type, t.value⟩

/-- the conversion when the lexer RAISES after having yielded `toks`: the real parser pulls tokens on demand, so it sees the failure iff it
asks for a token beyond `toks`, i.e. iff some `_read_token` runs with no token left.  On the token-list reading of `Parser.lexer` such a
`_read_token` sets `next_token = None`, and it stays `None` from then on (every later `_read_token` finds the list empty too): the real run
raised iff `next_token` is `None` at the end (or the list run itself raised); otherwise no call ever reached the end and the two runs coincide. -/
def ascConvertPrefix (toks : List Token) :
    Option (Int × List Int × List Int × List Py.Atom × List Py.Atom × List Py.Atom × List Py.Atom × List Int) :=
  match parser_read_token { lexer := toks, next_token := none, nodes := [] } with
  | none => none
  | some (p0, _) =>
    match parser_parse (ascParseFuel toks) p0 with
    | none => none
    | some (p1, root) => if p1.next_token.isNone then none else from_ast (ascWalkFuel p1.nodes) p1.nodes root

/-- `NeurolucidaAscToSwc.from_stream` on a text: the generated lexer run to the end of the stream (or to the word `float()` rejects), then
the generated parser and walk.  PROVED equal to `Asc.convert` when the lexer does not raise (`C15.generated_text_convert_eq_model`); the
other branch (a lexer failure that the on-demand parser may or may not reach) is executed against the real code only. -/
def ascConvertText (encF : SwcText.Sci → Int) (s : List Char) :=
  match ascLexAll encF s with
  | (toks, true) => ascConvert (toks.map LexToken.toToken)
  | (toks, false) => ascConvertPrefix (toks.map LexToken.toToken)

/-- driver payload of a number: (mantissa, sign, exponent) packed into one integer (exponents beyond ±2^63 are outside the suite) -/
def encSciDrv (v : SwcText.Sci) : Int :=
  ((2 * (v.mant : Int) + (if v.neg then 1 else 0)) * 18446744073709551616) + (v.exp + 9223372036854775808)
def decSciDrv (p : Int) : SwcText.Sci :=
  let a := p / 18446744073709551616
  ⟨a % 2 == 1, (a / 2).toNat, p % 18446744073709551616 - 9223372036854775808⟩

def showLexTok (t : LexToken) : String :=
  let val := match t.value with
    | .str s => if s.isEmpty then "_" else ".".intercalate (s.toList.map fun (c : Char) => toString c.toNat)
    | .flt k => "F" ++ SwcText.showSci (decSciDrv k)
    | .none => "N"
  s!"{t.type}:{val}@{t.lineno}:{t.column}"

/-- `gasclex cp=…` → `<type>:<value>@<line>:<col> …` then `END` (StopIteration) or `BAD` (ValueError); `gasctext cp=…` → the table -/
def handleAscLex (what : String) (args : List String) : String :=
  match Proto.argInts args "cp" with
  | none => "bad-args"
  | some cp =>
    let s := SwcText.ofCps cp
    if what = "gasclex" then
      let r := ascLexAll encSciDrv s
      " ".intercalate (r.1.map showLexTok ++ [if r.2 then "END" else "BAD"])
    else
      match ascConvertText encSciDrv s with
      | none => "error"
      | some (n, ids, tys, xs, ys, zs, rs, pids) =>
        let sh : Py.Atom → String := fun a => match a with | .flt k => SwcText.showSci (decSciDrv k) | _ => "?"
        let rows := (List.range ids.length).map fun k =>
          s!" | {ids.getD k 0} {tys.getD k 0} {sh (xs.getD k .none)} {sh (ys.getD k .none)} {sh (zs.getD k .none)} {sh (rs.getD k .none)} {pids.getD k 0}"
        s!"ok {n}" ++ String.join rows

end AlgoRun
