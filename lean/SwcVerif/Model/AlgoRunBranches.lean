import SwcVerif.Gen.AlgoBranches
import SwcVerif.Model.Branches
/-! Driver side of the imperative translator for `Tree.get_branches / get_paths / get_furcations` (see `AlgoRunDsu.lean`). -/
namespace AlgoRun
open Gen.Algo

/-- `gbranches | gpaths | gfurcs ids=.. pids=..` → the result of the GENERATED method (`E` = an exception) -/
def handleBranches (what : String) (args : List String) : String :=
  match Proto.argInts args "ids", Proto.argInts args "pids" with
  | some ids, some pids =>
    let fuel := 2 * ids.length + 3
    match what with
    | "gbranches" => match get_branches fuel ids pids with | some l => Branches.showLists l | none => "E"
    | "gpaths" => match get_paths fuel ids pids with | some l => Branches.showLists l | none => "E"
    | "gfurcs" => match get_furcations fuel ids pids with | some l => Proto.showInts l | none => "E"
    | _ => "bad-op"
  | _, _ => "bad-args"

end AlgoRun
