import SwcVerif.Gen.AlgoPopulation
import SwcVerif.Model.Population
/-! Driver side of the imperative translator (one file per generated module, so that a source change that breaks one generated module
cannot take the runners of the other properties with it): the definitions GENERATED from the current sources are run on the same protocol
lines as the hand-written models, so that the translator and `Model/Py.lean` are cross-checked against the real functions. -/
namespace AlgoRun
open Gen.Algo

/-- one operation of the `lazy` protocol on the GENERATED `LazyLoadingTrees` methods -/
def gLazyStep (st : LazyLoadingTrees × List Int) : Pop.LOp → (LazyLoadingTrees × List Int) × String
  | .get key => match lazy_getitem Pop.readLog st.1 key st.2 with
    | none => (st, "E")
    | some (g, log, t) => ((g, log), match t with | some k => s!"[{k}]" | none => "[none]")
  | .load k => match lazy_len st.1 with
    | some n => if (k : Int) < n then
        (match lazy_load Pop.readLog st.1 (k : Int) st.2 with
         | none => (st, "E")
         | some (g, log, _) => ((g, log), "[]"))
      else (st, "E")
    | none => (st, "E")
  | .iter => match lazy_len st.1 with
    | some n =>
      let r := (Py.range n).foldl (fun (acc : (LazyLoadingTrees × List Int) × List String) i =>
        match lazy_getitem Pop.readLog acc.1.1 i acc.1.2 with
        | none => (acc.1, acc.2 ++ ["E"])
        | some (g, log, t) => ((g, log), acc.2 ++ [match t with | some k => toString k | none => "none"])) (st, [])
      (r.1, "[" ++ ",".intercalate r.2 ++ "]")
    | none => (st, "E")
  | .len => match lazy_len st.1 with
    | some n => (st, s!"[{n}]")
    | none => (st, "E")

/-- `glazy n=<k> pop=0|1 ops=…` : the `lazy` protocol answered by the generated code -/
def handleLazy (args : List String) : String :=
  match Proto.argNat args "n", (Proto.arg args "ops").bind Pop.parseLOps with
  | some n, some ops =>
    let g0 : LazyLoadingTrees := ⟨(List.range n).map (fun (k : Nat) => (k : Int)), List.replicate n none⟩
    let s0 : LazyLoadingTrees × List Int :=
      if Proto.argNat args "pop" = some 1 && n > 0 then (gLazyStep (g0, []) (.get 0)).1 else (g0, [])
    let r := ops.foldl (fun (acc : (LazyLoadingTrees × List Int) × List String) op =>
      let st := gLazyStep acc.1 op
      (st.1, acc.2 ++ [st.2])) (s0, [])
    " ".intercalate r.2 ++ " / " ++ Proto.showInts r.1.2
  | _, _ => "bad-args"

/-- `gchain lens=… keys=…` : members are lists of tree identifiers `1000·member + local index`; answers `len` and per key
`member:local` or `E`, computed by the generated `ChainTrees.__init__ / __len__ / __getitem__` -/
def handleChain (args : List String) : String :=
  match Proto.argInts args "lens", Proto.argInts args "keys" with
  | some lens, some keys =>
    let trees : List (List Int) := (List.range lens.length).map fun (m : Nat) =>
      (List.range (lens.getD m 0).toNat).map fun (j : Nat) => (1000000 * (m : Int) + (j : Int))
    match chain_init default trees with
    | none => "E"
    | some (c, _) =>
      let n := match chain_len c with | some n => toString n | none => "E"
      s!"{n} " ++ " ".intercalate (keys.map fun k => match chain_getitem (trees.length + 1) c k with
        | none => "E" | some t => s!"{t / 1000000}:{t % 1000000}")
  | _, _ => "bad-args"

end AlgoRun
