import SwcVerif.Model.Py
import SwcVerif.Model.PyResample
/-! Semantics of the numpy / Python idioms of `swcgeom/transforms/geometry.py` (the affine transform classes) and
`swcgeom/transforms/base.py::Transforms.__call__`, used by the generated module `Gen/AlgoAffine.lean`
(`harness/algo_specs/18_affine.py`).  Mathlib-free.

Float arrays are arrays over the numeric type parameter `K` (`Model/Py.lean`), true division comes from `Py.Fld K`
(`Model/PyResample.lean`); `nan` / `inf` do not exist in `K`: where numpy would produce one (division by zero) the function raises. -/
namespace Py

variable {K : Type} {α : Type}

section num
variable [Add K] [Sub K] [Mul K] [OfNat K 0] [OfNat K 1] [LT K] [DecidableLT K] [LE K] [DecidableLE K]

/-- inner product of two 1-d arrays of equal length: `Σ_t u[t] * v[t]` (summed from the right, as `dotK` of `Model/Num.lean`) -/
def dotRow (u v : List K) : K := (List.zipWith (· * ·) u v).foldr (· + ·) 0

/-- `a.dot(b)` / `np.dot(a, b)` of two 2-d arrays given by their rows: `(n, k) · (k, m)`; every row of `a` must have as many entries
as `b` has rows (ValueError otherwise), `b` must be rectangular.  Entry `(i, j)` is `Σ_t a[i][t] * b[t][j]`. -/
def dot2 (a b : List (List K)) : Option (List (List K)) :=
  match transpose2 b with
  | none => none
  | some bt =>
    if a.all (fun r => r.length = b.length) then some (a.map fun r => bt.map fun c => dotRow r c) else none

/-- in-place `m /= r` of a 2-d array `(k, n)` by a 1-d array: `r` has `n` entries (every row is divided entry by entry) or one entry
(every entry is divided by it); anything else cannot be broadcast INTO `m` (ValueError).  The divisor is read before anything is
written (numpy makes a copy when the operands overlap, as in `m /= m[3]`); a zero divisor raises (no `inf` / `nan` in `K`). -/
def idivRows [Fld K] (m : List (List K)) (r : List K) : Option (List (List K)) :=
  mapOpt (fun row =>
    if row.length = r.length then mapOpt (fun p => fdiv p.1 p.2) (List.zip row r)
    else match r with
      | [y] => mapOpt (fun x => fdiv x y) row
      | _ => none) m

/-- `np.ones_like(a)` of a 1-d float array -/
def onesLike (a : List K) : List K := a.map fun _ => (1 : K)

/-- `-x` on a float scalar (`0 - x`: the carrier has no negation of its own; differs from IEEE negation only in the sign of zero) -/
def fneg (x : K) : K := 0 - x

end num

/-- `f(**kw)` where the keyword dictionary may only hold the keys `allowed` (the callee's remaining keyword parameters modelled here);
any other key raises (TypeError: unexpected keyword / multiple values for a keyword given explicitly as well) -/
def kwOnly {ν : Type} (kw : Dict String ν) (allowed : List String) : Option Unit :=
  if kw.all (fun p => allowed.contains p.1) then some () else none

end Py
