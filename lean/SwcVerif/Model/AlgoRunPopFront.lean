import SwcVerif.Gen.AlgoPopFront
import SwcVerif.Model.Population
/-! Driver side of `Gen/AlgoPopFront.lean` (the front end of `swcgeom/core/population.py` as translated on this run): the generated
`Population` / `NestTrees` / `Populations` methods answer the same protocol lines as the real classes on temp directories.

Python objects are shared by reference: `pop[a:b:c]` returns a `NestTrees` that holds THE SAME `LazyLoadingTrees` object as the population.
The generated definitions are functional (each returns the updated copy of the object it was handed), so the runner does what the
reference does: after an access through the slice it stores the slice's container back into the population (`aliasBack`). -/
namespace AlgoRun
open Gen.Algo

/-- the population keeps the container the slice has updated (both names denote one Python object) -/
def aliasBack (p : Population) (s : NestLazy) : Population := { p with trees := s.trees }

def showTree : Option Int → String
  | some k => toString k
  | none => "none"

/-- `N` = None -/
def optIntPF? (s : String) : Option (Option Int) := if s = "N" then some none else s.toInt?.map some

/-- one operation of the `gpopfront` protocol: `g:k` `pop[k]`, `l:k` `pop.trees.load(k)`, `i` `list(pop)`, `n` `len(pop)`,
`s:a:b:c:k` `sl = pop[a:b:c]; (len(sl), sl[k])` -/
def gPopStep (st : Population × List Int) (tok : String) : (Population × List Int) × String :=
  match tok.splitOn ":" with
  | ["g", k] => match k.toInt? with
    | none => (st, "bad")
    | some key => match pop_getitem_int Pop.readLog st.1 key st.2 with
      | none => (st, "E")
      | some (p, log, t) => ((p, log), s!"[{showTree t}]")
  | ["l", k] => match k.toInt?, pop_len st.1 with
    | some key, some n => if key < n then
        (match lazy_load Pop.readLog st.1.trees key st.2 with
         | none => (st, "E")
         | some (g, log, _) => (({ st.1 with trees := g }, log), "[]"))
      else (st, "E")
    | _, _ => (st, "E")
  | ["i"] => match pop_iter Pop.readLog st.1 st.2 with
    | none => (st, "E")
    | some (p, log, ts) => ((p, log), "[" ++ ",".intercalate (ts.map showTree) ++ "]")
  | ["n"] => match pop_len st.1 with
    | some n => (st, s!"[{n}]")
    | none => (st, "E")
  | ["s", a, b, c, k] => match optIntPF? a, optIntPF? b, optIntPF? c, k.toInt? with
    | some a, some b, some c, some key => match pop_getitem_slice st.1 (a, b, c) with
      | none => (st, "V")                                   -- ValueError (step 0)
      | some sl => match nestl_len sl, nestl_getitem Pop.readLog sl key st.2 with
        | some n, some (sl', log, t) => ((aliasBack st.1 sl', log), s!"[{n};{showTree t}]")
        | some n, none => (st, s!"[{n};E]")
        | none, _ => (st, "E")
    | _, _, _, _ => (st, "bad")
  | _ => (st, "bad")

/-- `gpopfront n=<k> ops=…` : `Population(LazyLoadingTrees(files))` built by the generated constructors (file i is `i`), then the operations -/
def handlePopFront (args : List String) : String :=
  match Proto.argNat args "n", Proto.arg args "ops" with
  | some n, some ops =>
    match lazy_init default ((List.range n).map fun (k : Nat) => (k : Int)) with
    | none => "E"
    | some (g0, _) => match pop_init Pop.readLog default g0 "" ([] : List Int) with
      | none => "E"
      | some (p0, log0, _) =>
        let r := ((ops.splitOn ";").filter (· ≠ "")).foldl (fun (acc : (Population × List Int) × List String) tok =>
          let st := gPopStep acc.1 tok
          (st.1, acc.2 ++ [st.2])) ((p0, log0), [])
        " ".intercalate r.2 ++ " / " ++ Proto.showInts r.1.2
  | _, _ => "bad-args"

/-- `gtopop lens=… keys=…` : the `gchain` protocol answered by `Populations(pops).to_population()` as generated (populations over plain
lists of tree identifiers `1000000·member + local index`) -/
def handleToPop (args : List String) : String :=
  match Proto.argInts args "lens", Proto.argInts args "keys" with
  | some lens, some keys =>
    let members : List (List Int) := (List.range lens.length).map fun (m : Nat) =>
      (List.range (lens.getD m 0).toNat).map fun (j : Nat) => (1000000 * (m : Int) + (j : Int))
    match members.mapM (fun ts => (popl_init default ts "").map (·.1)) with
    | none => "E"
    | some pops => match popsl_init default pops with
      | none => "E"
      | some (ps, _) => match popsl_to_population (members.length + 1) ps with
        | none => "E"
        | some c =>
          let n := match popc_len c with | some n => toString n | none => "E"
          s!"{n} " ++ " ".intercalate (keys.map fun k => match popc_getitem_int (members.length + 1) c k with
            | none => "E" | some t => s!"{t / 1000000}:{t % 1000000}")
  | _, _ => "bad-args"

/-- insertion sort of rows (lists of integers) by their first entry: the order of a Python set is unspecified, rows are compared as a set -/
def sortRows (rows : List (List Int)) : List (List Int) :=
  rows.foldl (fun acc r => (acc.filter fun x => x.headD 0 ≤ r.headD 0) ++ [r] ++ (acc.filter fun x => ¬ x.headD 0 ≤ r.headD 0)) []

/-- `gfromswc dirs=1,2,3;3,1 intersect=0|1 check=0|1` : `Populations.from_swc(roots, intersect=…, check_same=…)` as generated, root `d` is the
string `d`, `find_swcs(d)` the d-th list of name numbers, `os.path.join(d, p)` = `1000000·d + p`.  Answers `len` , the rows (each row: the
files `root:name` of the populations) sorted by their first name, then ` / ` the files read during construction and while reading all rows. -/
def handleFromSwc (args : List String) : String :=
  match Proto.arg args "dirs" with
  | none => "bad-args"
  | some ds =>
    let dirs : List (List Int) := (ds.splitOn ";").map fun s => ((Proto.ints s).getD [])
    let roots := (List.range dirs.length).map toString
    let find : String → List Int := fun d => dirs.getD d.toNat! []
    let join : String → Int → Int := fun d p => 1000000 * (d.toNat! : Int) + p
    match pops_from_swc Pop.readLog find join roots (Proto.argNat args "intersect" = some 1) (Proto.argNat args "check" = some 1) ([] : List Int) with
    | none => "E"
    | some (log0, ps) => match pops_len ps with
      | none => "E"
      | some n =>
        let r := (Py.range n).foldl (fun (acc : (Populations × List Int) × List (List Int)) i =>
          match pops_getitem Pop.readLog acc.1.1 i acc.1.2 with
          | none => acc
          | some (ps', log, row) => ((ps', log), acc.2 ++ [row.map fun t => t.getD (-1)])) ((ps, log0), [])
        let showF := fun (t : Int) => s!"{t / 1000000}:{t % 1000000}"
        s!"{n} " ++ " ".intercalate ((sortRows (r.2.map fun row => row.map (· % 1000000)) |>.zip (sortRows r.2)).map fun rr => ",".intercalate (rr.2.map showF))
          ++ " / built=" ++ toString log0.length ++ " read=" ++ toString r.1.2.length
end AlgoRun
