import SwcVerif.Model.Py
import SwcVerif.Model.PyResample
/-! Semantics of the numpy idioms of `swcgeom/analysis/features.py`, `swcgeom/core/path.py`, `swcgeom/core/node.py` (geometry helpers), used by
the generated module `Gen/AlgoNodeFeat.lean` (`harness/algo_specs/42_nodefeat.py`).  Mathlib-free.

Float arrays are arrays over a numeric type parameter `K`.  `sqrt` and `arccos` do not exist in `K`: the Euclidean norm of a vector and the
arc cosine are PURE FUNCTION PARAMETERS (`norm : List K → K`, `acos : K → K`) of the generated definitions; what is translated is WHICH vectors
they are applied to, in which order, and what is done with the results.  Float rounding is outside every theorem (DESIGN §3). -/
namespace Py.Nf
variable {K : Type}

section arith
variable [Add K] [Sub K] [Mul K] [OfNat K 0] [OfNat K 1] [LT K] [DecidableLT K] [LE K] [DecidableLE K]

/-- `a - b` on 1-d float arrays of EQUAL length (numpy would also broadcast a length-1 operand; that case raises here) -/
def subVec (a b : List K) : Option (List K) := if a.length = b.length then some (List.zipWith (fun x y => x - y) a b) else none

/-- `m - v`: a 2-d array minus a 1-d array, broadcast over the rows (every row must have the length of `v`) -/
def subRows (m : List (List K)) (v : List K) : Option (List (List K)) := Py.mapOpt (fun r => subVec r v) m

/-- `a - b` on 2-d arrays of EQUAL shape (numpy would also broadcast a single row; that case raises here) -/
def sub2 (a b : List (List K)) : Option (List (List K)) :=
  if a.length = b.length then Py.mapOpt (fun p => subVec p.1 p.2) (List.zip a b) else none

/-- `np.sum(a)` of a 1-d float array / Python `sum(iterable)` of floats: sequential accumulation from 0 (numpy's pairwise order differs only
in rounding) -/
def sumK (a : List K) : K := a.foldl (fun acc x => acc + x) 0

/-- `np.linalg.norm(m, axis=1)` of a 2-d array: the norm of every row -/
def normRows (norm : List K → K) (m : List (List K)) : List K := m.map norm

/-- `np.linalg.norm(m, ord=2, axis=1, keepdims=True)`: the norms as a column (shape (n, 1)) -/
def normRowsKeep (norm : List K → K) (m : List (List K)) : List (List K) := m.map fun r => [norm r]

/-- dot product of two vectors of equal length -/
def dot (a b : List K) : Option K := if a.length = b.length then some (sumK (List.zipWith (fun x y => x * y) a b)) else none

/-- `np.matmul(a, bT.T)` for 2-d arrays given by the rows of `a` and the rows of `bT` (= the columns of the right factor): entry (i, j) is
the dot product of row i of `a` and row j of `bT` (different inner lengths: ValueError) -/
def matmulT (a bT : List (List K)) : Option (List (List K)) := Py.mapOpt (fun r => Py.mapOpt (fun c => dot r c) bT) a

/-- `m + c` for a 2-d array and a scalar -/
def addScalar2 (m : List (List K)) (c : K) : List (List K) := m.map fun r => r.map fun x => x + c

/-- `m == c` for a 2-d float array and a scalar: the elementwise boolean mask (`K` has a decidable order only: neither `x < c` nor `c < x`) -/
def eqScalar2 (m : List (List K)) (c : K) : List (List Bool) := m.map fun r => r.map fun x => !(decide (x < c) || decide (c < x))

/-- `np.where(mask, c, m)` for a 2-d boolean mask, a scalar and a 2-d float array of EQUAL shape: `c` where the mask holds, else the entry
of `m` (numpy would also broadcast; unequal shapes raise here) -/
def whereS2 (mask : List (List Bool)) (c : K) (m : List (List K)) : Option (List (List K)) :=
  if mask.length = m.length then
    Py.mapOpt (fun p => if p.1.length = p.2.length then some (List.zipWith (fun (b : Bool) x => if b then c else x) p.1 p.2) else none) (List.zip mask m)
  else none

/-- `a / b` on 2-d float arrays of equal shape (a zero divisor would be `inf` / `nan`: raises) -/
def div2 [Py.Fld K] (a b : List (List K)) : Option (List (List K)) :=
  if a.length = b.length then Py.mapOpt (fun p => if p.1.length = p.2.length then Py.mapOpt (fun q => Py.fdiv q.1 q.2) (List.zip p.1 p.2) else none) (List.zip a b)
  else none

/-- `np.clip(m, lo, hi)` on a 2-d array (`min(max(x, lo), hi)`) -/
def clip2 (m : List (List K)) (lo hi : K) : List (List K) :=
  m.map fun r => r.map fun x => let y := if x < lo then lo else x; if hi < y then hi else y

/-- `np.arccos(m)` on a 2-d array -/
def map2 (f : K → K) (m : List (List K)) : List (List K) := m.map fun r => r.map f

end arith
end Py.Nf
