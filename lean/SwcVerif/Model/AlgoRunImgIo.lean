import SwcVerif.Gen.AlgoImgIo
import SwcVerif.Model.Resample
/-! Driver side of the imperative translator for the image I/O half of C20 (see `AlgoRunSort.lean`): the GENERATED `save_tiff`,
`TiffImageStack.__init__` / `NDArrayImageStack.__init__` / `__getitem__` (Gen/AlgoImgIo.lean) are run at `K = Rat` on the same arrays (shape +
flat C-order element list + dtype) as the real functions.  `cast` at `Rat`: unsigned targets truncate toward zero and wrap modulo 2^bits,
signed targets truncate, floating targets keep the value (the suite compares those up to float rounding). -/
namespace AlgoRun
open Gen.Algo

def dtypeOf : String → Option Py.DType
  | "u8" => some .u8 | "u16" => some .u16 | "u32" => some .u32 | "u64" => some .u64
  | "i8" => some .i8 | "i16" => some .i16 | "i32" => some .i32 | "i64" => some .i64
  | "f16" => some .f16 | "f32" => some .f32 | "f64" => some .f64
  | _ => none

def dtypeName : Py.DType → String
  | .u8 => "u8" | .u16 => "u16" | .u32 => "u32" | .u64 => "u64" | .i8 => "i8" | .i16 => "i16" | .i32 => "i32" | .i64 => "i64"
  | .f16 => "f16" | .f32 => "f32" | .f64 => "f64"

def truncRat (x : Rat) : Int := if x < 0 then -((-x).floor) else x.floor

def castRat (d : Py.DType) (x : Rat) : Rat :=
  match d with
  | .u8 => ((truncRat x % 256 : Int) : Rat)
  | .u16 => ((truncRat x % 65536 : Int) : Rat)
  | .u32 => ((truncRat x % 4294967296 : Int) : Rat)
  | .u64 => ((truncRat x % 18446744073709551616 : Int) : Rat)
  | .i8 | .i16 | .i32 | .i64 => ((truncRat x : Int) : Rat)
  | _ => x

def showArr (a : Py.NdArr Rat) : String := s!"{Proto.showNats a.shape}|{dtypeName a.dtype}|{Resample.showRats a.toFlat}"

def argArr (args : List String) : Option (Py.NdArr Rat) :=
  match Proto.argInts args "shape", Resample.argRats args "data", (Proto.arg args "dt").bind dtypeOf with
  | some sh, some data, some d => some (Py.NdArr.ofFlat (sh.map Int.toNat) data d)
  | _, _, _ => none

/-- `to=` : `none` (dtype not passed) or a dtype name -/
def argTo (args : List String) (k : String) : Option (Option Py.DType) :=
  match Proto.arg args k with
  | some "none" => some none
  | some s => (dtypeOf s).map some
  | none => none

/-- `gimgsave shape= dt= data= to=`          → `<array>;<axes>;<photometric>` handed to the codec by the GENERATED `save_tiff` (`E` = an exception);
`gimgload shape= dt= data= axes= to=`        → `<warning sites>;<array>` of the GENERATED `TiffImageStack.__init__`;
`gimgnd shape= dt= data= to=`                → `<array>` of the GENERATED `NDArrayImageStack.__init__`;
`gimgio shape= dt= data= to= rd=`            → save with `to`, then load what was written (array + axes) with `rd`;
`gimgget shape= dt= data= key=i,j,k,l`       → the element the GENERATED `NDArrayImageStack.__getitem__` returns -/
def handleImgIo (what : String) (args : List String) : String :=
  if what = "gimgread" then
    -- `gimgread fname= found=0|1 root=0|1 dt=none|<dtype>` → `<class>;<dtype handed to it>` of the GENERATED `read_imgs` (`E` = ValueError)
    match Proto.arg args "fname", Proto.arg args "found", Proto.arg args "root", argTo args "dt" with
    | some fname, some fd, some rt, some dt =>
      match read_imgs fname (fd == "1") (rt == "1") (match dt with | some d => [("dtype", d)] | none => []) with
      | none => "E"
      | some (cls, kw) => s!"{cls};{(Py.Dict.get? kw "dtype").elim "none" dtypeName}"
    | _, _, _, _ => "bad-args"
  else
  match argArr args with
  | none => "bad-args"
  | some a =>
    match what with
    | "gimgget" =>
      match Proto.argInts args "key" with
      | some [i, j, k, l] =>
        match ndarray_getitem (K := Rat) a (i, j, k, l) with
        | some x => Resample.showRat x
        | none => "E"
      | _ => "bad-args"
    | "gimgsave" =>
      match argTo args "to" with
      | none => "bad-args"
      | some to =>
        match save_tiff (K := Rat) Py.ratFld castRat a to with
        | none => "E"
        | some (w, ax, ph) => s!"{showArr w};{String.ofList ax};{ph}"
    | "gimgnd" =>
      match argTo args "to" with
      | none => "bad-args"
      | some to =>
        match ndarray_init (K := Rat) Py.ratFld castRat a to with
        | none => "E"
        | some r => showArr r
    | "gimgload" =>
      match argTo args "to", Proto.arg args "axes" with
      | some to, some ax =>
        match tiff_init (K := Rat) Py.ratFld castRat a ax.toList to with
        | none => "E"
        | some (ws, r) => s!"{Proto.showInts ws};{showArr r}"
      | _, _ => "bad-args"
    | "gimgio" =>
      match argTo args "to", argTo args "rd" with
      | some to, some rd =>
        match save_tiff (K := Rat) Py.ratFld castRat a to with
        | none => "E"
        | some (w, ax, _) =>
          match tiff_init (K := Rat) Py.ratFld castRat w ax rd with
          | none => "E"
          | some (ws, r) => s!"{Proto.showInts ws};{showArr r}"
      | _, _ => "bad-args"
    | _ => "bad-op"

end AlgoRun
