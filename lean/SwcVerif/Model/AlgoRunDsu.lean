import SwcVerif.Gen.AlgoDsu
import SwcVerif.Gen.AlgoCheckers
import SwcVerif.Model.Dsu
/-! Driver side of the imperative translator (one file per generated module, so that a source change that breaks one generated module
cannot take the runners of the other properties with it): the definitions GENERATED from the current sources are run on the same protocol
lines as the hand-written models, so that the translator and `Model/Py.lean` are cross-checked against the real functions. -/
namespace AlgoRun
open Gen.Algo Dsu

/-- run a script on the generated object with the generated methods (`none` = an exception) -/
def genRun (F : Nat) : DisjointSetUnion → List Op → List (Option Bool)
  | _, [] => []
  | g, .union a b :: ops =>
    match dsu_union_sets F g (a : Int) (b : Int) with
    | none => [none]
    | some r => genRun F r.1 ops
  | g, .same a b :: ops =>
    match dsu_is_same_set F g (a : Int) (b : Int) with
    | none => [none]
    | some r => some r.2 :: genRun F r.1 ops

/-- `gdsu n=<k> ops=u:a:b;s:a:b;…` → answers of the queries, computed by the generated code -/
def handleDsu (args : List String) : String :=
  match Proto.argNat args "n", (Proto.arg args "ops").bind parseOps with
  | some n, some ops =>
    match dsu_init default (n : Int) with
    | none => "E"
    | some (g, _) => "".intercalate ((genRun (ops.length + 1) g ops).map showOB)
  | _, _ => "bad-args"

/-- `ggetdsu ids=.. pids=..` → labels computed by the GENERATED `get_dsu` (`E` = KeyError / fuel) -/
def handleGetDsu (args : List String) : String :=
  match Proto.argInts args "ids", Proto.argInts args "pids" with
  | some ids, some pids =>
    match get_dsu (ids.length * ids.length + 2) ids pids with
    | none => "E"
    | some l => Proto.showInts l
  | _, _ => "bad-args"

/-- `ghascyclic ids=.. pids=..` → answer of the GENERATED `has_cyclic` (`E` = an exception) -/
def handleHasCyclic (args : List String) : String :=
  match Proto.argInts args "ids", Proto.argInts args "pids" with
  | some ids, some pids => showOB (has_cyclic (ids.length + 2) (ids, pids))
  | _, _ => "bad-args"

/-- `gbifurcate excl=0|1 ids=.. pids=..` → answer of the GENERATED `is_bifurcate` -/
def handleBifurcate (args : List String) : String :=
  match Proto.argInts args "ids", Proto.argInts args "pids" with
  | some ids, some pids => showOB (is_bifurcate (ids, pids) (Proto.argNat args "excl" = some 1))
  | _, _ => "bad-args"

end AlgoRun
