import SwcVerif.Gen.AlgoAsc
import SwcVerif.Model.Basic
/-! Driver side of the imperative translator for C15: the GENERATED token-level parser (`Parser._parse` with everything it calls) and
the GENERATED `NeurolucidaAscToSwc.from_ast` / `walk_ast` are run on the token stream the REAL `Lexer` produced (computed by the
harness) and compared with the table of the real `NeurolucidaAscToSwc.from_stream`.

`convert` is `from_stream` at the token level: `Parser(x)` (`next_token = None`, then `_read_token()`), `parser.parse()` (= `_parse()`,
every exception is a ValueError), `from_ast(ast)`. -/
namespace AlgoRun
open Gen.Algo

/-- fuel that always suffices (PROVED: `C15.generated_convert_eq_model`): the translated parser needs at most twice the fuel of the model
`Asc.convertWith`, which never runs out of fuel with `2·#tokens + 4` (`C15.model_fuel_suffices`); the walk pops one stack entry per
iteration (one per AST node plus one per TREE) -/
def ascParseFuel (toks : List Token) : Nat := 4 * toks.length + 8
def ascWalkFuel (nodes : List ASTNode) : Nat := 2 * nodes.length + 2

/-- `NeurolucidaAscToSwc.from_stream` on the lexer's token stream: (number of nodes, the seven columns) or `none` = ValueError -/
def ascConvert (toks : List Token) :
    Option (Int × List Int × List Int × List Py.Atom × List Py.Atom × List Py.Atom × List Py.Atom × List Int) :=
  match parser_read_token { lexer := toks, next_token := none, nodes := [] } with
  | none => none
  | some (p0, _) =>
    match parser_parse (ascParseFuel toks) p0 with
    | none => none
    | some (p1, root) => from_ast (ascWalkFuel p1.nodes) p1.nodes root

/-- `<type>:<code points joined by '.'>` (a str value) or `<type>:#<k>` (the k-th float of the document, an opaque payload) -/
def parseTok (w : String) : Option Token :=
  match w.splitOn ":" with
  | [t, p] =>
    match t.toInt? with
    | none => none
    | some ty =>
      if p.startsWith "#" then (p.drop 1).toString.toInt?.map (fun k => ⟨ty, .flt k⟩)
      else if p.isEmpty then some ⟨ty, .str ""⟩
      else ((p.splitOn ".").mapM (fun (c : String) => c.toNat?)).map (fun cs => ⟨ty, .str (String.ofList (cs.map Char.ofNat))⟩)
  | _ => none

def showAtom : Py.Atom → String
  | .flt k => toString k
  | .str _ => "S"
  | .none => "N"

/-- `gasc toks=t1,t2,…` → `ok | id type x y z r pid | …` (x … r = indices of the floats) or `error` -/
def handleAsc (args : List String) : String :=
  match Proto.arg args "toks" with
  | none => "bad-args"
  | some s =>
    match (if s.isEmpty then some [] else (s.splitOn ",").mapM parseTok) with
    | none => "bad-args"
    | some toks =>
      match ascConvert toks with
      | none => "error"
      | some (n, ids, tys, xs, ys, zs, rs, pids) =>
        let rows := (List.range ids.length).map fun k =>
          s!" | {ids.getD k 0} {tys.getD k 0} {showAtom (xs.getD k .none)} {showAtom (ys.getD k .none)} {showAtom (zs.getD k .none)} {showAtom (rs.getD k .none)} {pids.getD k 0}"
        s!"ok {n}" ++ String.join rows

end AlgoRun
