import SwcVerif.Model.Py
/-! Semantics used by `Gen/AlgoCtor.lean` (session 4, T26): DataFrames as mutable OBJECTS.

A frame is the record of its modelled columns; the frames that exist live in a heap `Py.Frames` (a list), and a variable holding a
DataFrame holds a REFERENCE: the index of its frame in the heap.  An in-place procedure `P_(df, …)` updates the frame its argument
refers to (`Frames.apply`); `df.copy()` allocates a NEW frame with equal columns (`Frames.copy`: pandas' deep copy, the default of
`DataFrame.copy`) and returns its reference; the frames that existed before keep their positions and contents.  Mathlib-free. -/
namespace Py

/-- the modelled columns of a DataFrame (`rs` = the radius column, scaled to integers by the callers) -/
structure Frame where
  ids : List Int
  pids : List Int
  types : List Int
  rs : List Int
deriving Repr, DecidableEq, Inhabited

/-- the heap of DataFrame objects; a reference is an index -/
abbrev Frames := List Frame

/-- dereference -/
def Frames.get? (h : Frames) (r : Int) : Option Frame :=
  if r < 0 then none else h[r.toNat]?

/-- `df.copy()`: a new frame object with the same column values, appended to the heap; its reference is returned -/
def Frames.copy (h : Frames) (r : Int) : Option (Frames × Int) :=
  (Frames.get? h r).map fun f => (h ++ [f], (h.length : Int))

/-- an in-place procedure on the frame `r` refers to (`none` = it raised) -/
def Frames.apply (h : Frames) (r : Int) (f : Frame → Option Frame) : Option Frames :=
  (Frames.get? h r).bind fun fr => (f fr).map fun fr' => h.set r.toNat fr'

end Py
