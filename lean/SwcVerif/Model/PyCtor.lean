import SwcVerif.Model.Py
/-! Semantics used by `Gen/AlgoCtor.lean` (session 4, T26): DataFrames as mutable OBJECTS.

A frame is the record of its modelled columns; the frames that exist live in a heap `Py.Frames` (a list), and a variable holding a
DataFrame holds a REFERENCE: the index of its frame in the heap.  An in-place procedure `P_(df, …)` updates the frame its argument
refers to (`Frames.apply`); `df.copy()` allocates a NEW frame with equal columns (`Frames.copy`: pandas' deep copy, the default of
`DataFrame.copy`) and returns its reference; the frames that existed before keep their positions and contents.  Mathlib-free. -/
namespace Py

/-- the modelled columns of a DataFrame (`rs` = the radius column, scaled to integers by the callers) -/
structure Frame where
  ids : List Int
  pids : List Int
  types : List Int
  rs : List Int
deriving Repr, DecidableEq, Inhabited

/-- the heap of DataFrame objects; a reference is an index -/
abbrev Frames := List Frame

/-- dereference -/
def Frames.get? (h : Frames) (r : Int) : Option Frame :=
  if r < 0 then none else h[r.toNat]?

/-- `df.copy()`: a new frame object with the same column values, appended to the heap; its reference is returned -/
def Frames.copy (h : Frames) (r : Int) : Option (Frames × Int) :=
  (Frames.get? h r).map fun f => (h ++ [f], (h.length : Int))

/-- an in-place procedure on the frame `r` refers to (`none` = it raised) -/
def Frames.apply (h : Frames) (r : Int) (f : Frame → Option Frame) : Option Frames :=
  (Frames.get? h r).bind fun fr => (f fr).map fun fr' => h.set r.toNat fr'

/-! ### numpy arrays as objects (for `Tree.__init__` / `padding1d`: what is copied and what is aliased)

A 1-d array object is a WINDOW `[0, len)` onto a buffer (`buf` = index into the heap of buffers `Py.Bufs`) with a dtype tag
(0 = int32, 1 = float32, 2 = int64, 3 = float64, …).  Two arrays share storage iff they name the same buffer.  Element values are integers
(casts between the numeric dtypes keep integer values: the callers hand in integer-valued data). -/

structure Arr where
  buf : Int
  len : Int
  dtype : Int
deriving Repr, DecidableEq, Inhabited

abbrev Bufs := List (List Int)

/-- a new buffer holding `vals`, and the array object over all of it -/
def Bufs.alloc (h : Bufs) (vals : List Int) (dt : Int) : Bufs × Arr := (h ++ [vals], ⟨(h.length : Int), (vals.length : Int), dt⟩)
/-- the elements an array shows (`none` = a dangling array) -/
def Bufs.vals (h : Bufs) (a : Arr) : Option (List Int) :=
  if a.buf < 0 then none else (h[a.buf.toNat]?).map fun l => l.take a.len.toNat
/-- `np.arange(a, b, step=1, dtype=dt)` -/
def Bufs.arange (h : Bufs) (a b dt : Int) : Bufs × Arr := Bufs.alloc h ((List.range (b - a).toNat).map fun (i : Nat) => a + Int.ofNat i) dt
/-- `np.full(n, x, dtype=dt)` / `np.zeros(n, dtype=dt)`; a negative size raises -/
def Bufs.full (h : Bufs) (n x dt : Int) : Option (Bufs × Arr) := if n < 0 then none else some (Bufs.alloc h (List.replicate n.toNat x) dt)
/-- `a.astype(dt)`: always a NEW buffer -/
def Bufs.astype (h : Bufs) (a : Arr) (dt : Int) : Option (Bufs × Arr) := (Bufs.vals h a).map fun l => Bufs.alloc h l dt
/-- `np.concatenate([a, b])` of two arrays of one dtype: a NEW buffer -/
def Bufs.concat (h : Bufs) (a b : Arr) : Option (Bufs × Arr) :=
  (Bufs.vals h a).bind fun x => (Bufs.vals h b).bind fun y => if a.dtype = b.dtype then some (Bufs.alloc h (x ++ y) a.dtype) else none
/-- `a[:n]` (n ≥ 0): a VIEW — the same buffer, a shorter window -/
def Arr.pre (a : Arr) (n : Int) : Arr := { a with len := if n < 0 then 0 else if n < a.len then n else a.len }
/-- `d.pop(k, None)` -/
def dictPopD {κ ν : Type} [DecidableEq κ] (d : Dict κ ν) (k : κ) : Dict κ ν × Option ν := (d.filter (fun p => p.1 ≠ k), Dict.get? d k)
/-- `{**a, **b}` -/
def dictMerge {κ ν : Type} [DecidableEq κ] (a b : Dict κ ν) : Dict κ ν := b.foldl (fun d p => Dict.set d p.1 p.2) a

end Py
