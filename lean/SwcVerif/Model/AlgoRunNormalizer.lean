import SwcVerif.Gen.AlgoNormalizer
import SwcVerif.Model.Basic
/-! Driver side of the imperative translator for `swc_utils/normalizer.py` (see `AlgoRunDsu.lean`). -/
namespace AlgoRun
open Gen.Algo

/-- `gsomas ids=.. pids=.. types=.. ut=<t>` → `pids / types` after the GENERATED `mark_roots_as_somas_` (`E` = an exception) -/
def handleSomas (args : List String) : String :=
  match Proto.argInts args "ids", Proto.argInts args "pids" with
  | some ids, some pids =>
    let tys := (Proto.argInts args "types").getD []
    match mark_roots_as_somas_ ids pids tys (Proto.argInt args "ut") with
    | none => "E"
    | some r => s!"{Proto.showInts r.1} / {Proto.showInts r.2.1}"
  | _, _ => "bad-args"

/-- `greset ids=.. pids=..` → `ids / pids` after the GENERATED `reset_index_` -/
def handleReset (args : List String) : String :=
  match Proto.argInts args "ids", Proto.argInts args "pids" with
  | some ids, some pids =>
    match reset_index_ ids pids with
    | none => "E"
    | some r => s!"{Proto.showInts r.1} / {Proto.showInts r.2.1}"
  | _, _ => "bad-args"

end AlgoRun
