import SwcVerif.Gen.AlgoCtor
import SwcVerif.Model.AlgoRunRepair
/-! Driver side of the imperative translator for the wrappers of `Gen/AlgoCtor.lean` (see `AlgoRunDsu.lean`): the deprecated spellings of the
checkers and the COPYING spellings of the normalizer, run on the same protocol lines as the real functions.  For the
copying spellings the frame handed in is object 1 of a two-object heap (object 0 is an unrelated bystander frame); the answer shows the columns
of the RESULT, the columns of the INPUT object after the call, the bystander, and the two references. -/
namespace AlgoRun
open Gen.Algo

/-- `gwrap op=binary|singleroot ids=.. pids=.. [excl=0|1]` -/
def handleWrap (args : List String) : String :=
  match Proto.arg args "op", Proto.argInts args "ids", Proto.argInts args "pids" with
  | some op, some ids, some pids =>
    let tf : Option Bool → String := fun r => match r with | none => "E" | some true => "T" | some false => "F"
    match op with
    | "binary" => tf (is_binary_tree ids pids (Proto.argNat args "excl" != some 0))
    | "singleroot" => tf (check_single_root (ids.length * ids.length + 2) ids pids)
    | _ => "bad-op"
  | _, _, _ => "bad-args"

def showFrame (f : Py.Frame) : String :=
  s!"{Proto.showInts f.ids} / {Proto.showInts f.pids} / {Proto.showInts f.types} / {Proto.showInts f.rs}"

/-- `gcopying op=somas|reset|sort|nearest ids=.. pids=.. types=.. rs=.. [ut=t] [x=.. y=.. z=..]` →
`<result frame> | <input frame after the call> | <bystander frame after the call> | <input ref> <result ref> <heap size>` -/
def handleCopying (args : List String) : String :=
  match Proto.arg args "op", Proto.argInts args "ids", Proto.argInts args "pids", Proto.argInts args "types", Proto.argInts args "rs" with
  | some op, some ids, some pids, some tys, some rs =>
    let other : Py.Frame := { ids := [7, 8], pids := [-1, 7], types := [1, 2], rs := [4, 4] }
    let heap : Py.Frames := [other, { ids := ids, pids := pids, types := tys, rs := rs }]
    let fuel := ids.length * ids.length + 2
    let xs := (Proto.argInts args "x").getD []; let ys := (Proto.argInts args "y").getD []; let zs := (Proto.argInts args "z").getD []
    let res : Option (Py.Frames × Int) := match op with
      | "somas" => mark_roots_as_somas heap 1 (Proto.argInt args "ut")
      | "reset" => reset_index heap 1
      | "sort" => sort_nodes fuel heap 1
      | "nearest" => (link_roots_to_nearest (normOf xs ys zs) fuel heap 1 ()).map fun r => (r.1, r.2.2)
      | _ => none
    match res with
    | none => "E"
    | some (h, r) =>
      match Py.Frames.get? h r, Py.Frames.get? h 1, Py.Frames.get? h 0 with
      | some out, some inp, some b => s!"{showFrame out} | {showFrame inp} | {showFrame b} | 1 {r} {h.length}"
      | _, _, _ => "dangling"
  | _, _, _, _, _ => "bad-args"

end AlgoRun
