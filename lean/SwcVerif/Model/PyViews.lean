import SwcVerif.Model.Py
/-! Further semantics of the imperative translator (`harness/translate_algo.py`) used by the view classes of C09
(`harness/algo_specs/70_views.py`): Python's `slice` objects with `slice.indices`, `range` with two / three arguments,
`dict.keys()`.  No Mathlib (linked into the driver). -/
namespace Py

/-- a Python `slice(start, stop, step)` whose three members are each an `int` or `None` -/
abbrev Slice := Option Int × Option Int × Option Int

/-- one bound of `slice.indices`: `None` is the end the step walks away from / towards, a negative bound counts from the end, and
everything is clamped to `lower .. upper` (CPython `_PySlice_GetLongIndices`) -/
def sliceClamp (b : Option Int) (n lower upper dflt : Int) : Int :=
  match b with
  | none => dflt
  | some a => if a < 0 then (if a + n < lower then lower else a + n) else (if a > upper then upper else a)

/-- `s.indices(n)` = `(start, stop, step)` exactly as CPython computes it: `ValueError` for a zero step (and for a negative length);
for a positive step bounds are clamped to `0 .. n`, for a negative step to `-1 .. n - 1`; a missing start is the first element the step
visits, a missing stop lies one beyond the last -/
def sliceIndices (s : Slice) (n : Int) : Option (Int × Int × Int) :=
  let step := s.2.2.getD 1
  if step = 0 ∨ n < 0 then none else
  let lower : Int := if step < 0 then -1 else 0
  let upper : Int := if step < 0 then n - 1 else n
  some (sliceClamp s.1 n lower upper (if step < 0 then upper else lower),
        sliceClamp s.2.1 n lower upper (if step < 0 then lower else upper), step)

/-- `len(range(start, stop, step))` -/
def rangeLen (start stop step : Int) : Nat :=
  if step > 0 then (if start < stop then ((stop - start + step - 1) / step).toNat else 0)
  else (if stop < start then ((start - stop - step - 1) / (-step)).toNat else 0)

/-- `range(start, stop, step)` (`ValueError` for a zero step) -/
def range3 (start stop step : Int) : Option (List Int) :=
  if step = 0 then none else some ((List.range (rangeLen start stop step)).map fun (k : Nat) => start + (k : Int) * step)

/-- `range(a, b)` / `np.arange(a, b)` on ints -/
def range2 (a b : Int) : List Int := (List.range (b - a).toNat).map fun (k : Nat) => a + (k : Int)

/-- `d.keys()` (insertion order) -/
def Dict.keys {κ ν : Type} (d : Dict κ ν) : List κ := d.map Prod.fst

end Py
