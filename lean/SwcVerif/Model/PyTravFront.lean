import SwcVerif.Model.Py
/-! Semantics added for the entry points above `_traverse_dfs` (`harness/algo_specs/04_travfront.py`, Gen/AlgoTravFront.lean). -/
namespace Py

/-- a callback that was not passed (its value is `None`) where the callee was translated with the callback always present:
`cb(a, b) if cb is not None else None` evaluates to `None` and touches nothing -/
def absent2 {σ A B : Type} : σ → A → B → σ × Unit := fun s _ _ => (s, ())

/-- a translated closure of two arguments (`none` = it raised) as a total state-passing callback over `Option S`: once a call has raised the
state stays `none`, and the call that was handed the callback raises as a whole (`Py.unwrapCb`).  (`Py.wrapE` / `Py.wrapL` are its two instances.) -/
def wrap2 {S A B R : Type} [Inhabited R] (f : S → A → B → Option (S × R)) : Option S → A → B → Option S × R :=
  fun s a b => match s with
    | none => (none, default)
    | some st => match f st a b with
      | none => (none, default)
      | some r => (some r.1, r.2)

end Py
