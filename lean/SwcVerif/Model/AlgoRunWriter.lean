import SwcVerif.Gen.AlgoWriter
import SwcVerif.Model.SwcText
/-! Driver side of the imperative translator for C01 (see `AlgoRunSort.lean`): the GENERATED writer (`io.py::to_swc` with its closure
`get_v`, `swc.py::SWCLike.to_swc`) is run on the same tables as the real functions and its text compared exactly.  A float cell is the
pair (sign bit, magnitude in units of 10⁻⁴) that the harness computes with `decimal` - the same encoding as the model op `swcwrite` - and
`fmt4` prints it (`SwcText.fmt4`): the float → 4-decimal rounding is CPython's. -/
namespace AlgoRun
open Gen.Algo

abbrev WF := Bool × Nat

def wfmt4 (p : WF) : String := String.ofList (SwcText.fmt4 p.1 p.2)

/-- the table handed to the writer: `get_ndata(key)` for the seven standard column names (any other key: an empty integer column) -/
def wTable (ids tys pids xs ys zs rs nz : List Int) : String → Py.Col WF :=
  let g := fun (col : Nat) (l : List Int) =>
    Py.Col.flts ((List.range l.length).map fun k => SwcText.signed (l.getD k 0) (nz.contains ((4 * k + col : Nat) : Int)))
  fun key =>
    if key = "id" then .ints ids else if key = "type" then .ints tys else if key = "pid" then .ints pids
    else if key = "x" then g 0 xs else if key = "y" then g 1 ys else if key = "z" then g 2 zs else if key = "r" then g 3 rs
    else .ints []

def wStr (tok : String) : String := if tok = "_" then "" else
  match Proto.ints tok with
  | some l => String.ofList (SwcText.ofCps l)
  | none => ""

def wComments (cs : String) : List String := if cs = "none" then [] else (cs.splitOn ";").map wStr

/-- `gswcwrite off=k src=<true|false|cps> attr=<cps> wc=0|1 ids= types= pids= x= y= z= r= nz= c=<cps;cps;…|none>` → the text
`SWCLike.to_swc(source=…, comments=…, id_offset=…)` returns, as code points (`E` = it raised); `attr` is the tree's `source` attribute.
`gioswc off=<int> c=<cps;…|none> ids= … nz=` → the lines `io.to_swc(get_ndata, comments=[…], id_offset=off)` yields, concatenated -/
def handleWriter (op : String) (args : List String) : String :=
  match Proto.argInt args "off", Proto.argInts args "ids", Proto.argInts args "types", Proto.argInts args "pids",
        Proto.argInts args "x", Proto.argInts args "y", Proto.argInts args "z", Proto.argInts args "r", Proto.arg args "c", Proto.argInts args "nz" with
  | some off, some ids, some tys, some pids, some xs, some ys, some zs, some rs, some cs, some nz =>
    let tbl := wTable ids tys pids xs ys zs rs nz
    if op = "gioswc" then
      match to_swc wfmt4 tbl (if cs = "absent" then none else some (wComments cs)) off with
      | none => "E"
      | some (ls, _) => SwcText.toCps (String.join ls).toList
    else
      match Proto.arg args "src", Proto.arg args "attr", Proto.argNat args "wc" with
      | some src, some attr, some wc =>
        let source : Py.BoolOrStr := if src = "true" then .bool true else if src = "false" then .bool false else .str (wStr src)
        match swclike_to_swc wfmt4 tbl ⟨wStr attr, wComments cs⟩ source (wc = 1) off with
        | none => "E"
        | some text => SwcText.toCps text.toList
      | _, _, _ => "bad-args"
  | _, _, _, _, _, _, _, _, _, _ => "bad-args"

end AlgoRun
