import SwcVerif.Model.Traverse
import SwcVerif.Gen.Consts
/-! Models for C06: `swc_utils/subtree.py` (`to_sub_topology`, `propagate_removal`),
`tree_utils_impl.py` (`get_subtree_impl`, `to_subtree_impl`), `tree_utils.py` (`to_subtree`, `cut_tree`),
`transforms/tree.py` (`CutByType`, `CutByFurcationOrder`, `CutShortTipBranch`).

Trees here are `Tree` objects: ids = positions `0..n-1`, so a table is just its parent list `pids`.
Every traversal is the machine of `Model/Traverse.lean` with the callback of the code. -/
namespace Sub
open Trav

def REMOVAL : Int := Gen.Consts.removalMarker

def rangeI (n : Nat) : List Int := (List.range n).map Int.ofNat

/-- `old2new[i]` -/
def pos? (l : List Int) (i : Int) : Option Int :=
  let k := l.idxOf i
  if k < l.length then some (k : Int) else none

structure SubTopo where
  newPid : List Int        -- new id = position
  mapping : List Int       -- new id ↦ old id
deriving Repr, DecidableEq

/-- `to_sub_topology((sub_id, sub_pid))`: drop rows marked `REMOVAL`, renumber the kept ones `0..m-1`,
remap parents through `old2new` (`none` = KeyError: a kept row whose parent was not kept) -/
def toSubTopology (subId subPid : List Int) : Option SubTopo :=
  let kept := (List.zip subId subPid).filter (fun ip => ip.1 ≠ REMOVAL)
  let keptIds := kept.map (·.1)
  (kept.mapM fun ip => if ip.2 = -1 then some (-1) else pos? keptIds ip.2).map fun np => ⟨np, keptIds⟩

/-- `propagate(n, parent)`: `remove := bool(parent) or new_ids[n] == REMOVAL`; marks `n` when `remove` -/
def propEnter : (Int → Bool) → Int → Option Bool → (Int → Bool) × Bool :=
  fun marked n parent =>
    let rm := parent.getD false || marked n
    (if rm then upd marked n true else marked, rm)
def noLeave {σ : Type} : σ → Int → List Unit → σ × Unit := fun s _ _ => (s, ())

/-- `propagate_removal((new_ids, pids))`: the traversal starts at node 0 of `(arange(n), pids)` -/
def propagateRemoval (pids : List Int) (marked : Int → Bool) : Int → Bool :=
  (run (tableKids (rangeI pids.length) pids) propEnter noLeave (2 * pids.length + 2) (init 0 marked)).s

/-- `to_subtree(tree, removals)` topology part -/
def toSubtree (pids : List Int) (removals : List Int) : Option SubTopo :=
  let marked := propagateRemoval pids (fun i => removals.contains i)
  toSubTopology ((rangeI pids.length).map fun i => if marked i then REMOVAL else i) pids

/-- `get_subtree_impl`: ids in `enter` order from `n`; `sub_pid = pid[sub_ids]; sub_pid[0] = -1` -/
def logEnterIds : List Int → Int → Option Unit → List Int × Unit := fun acc n _ => (acc ++ [n], ())
def getSubtree (pids : List Int) (n : Int) : Option SubTopo :=
  let ids := (run (tableKids (rangeI pids.length) pids) logEnterIds noLeave (2 * pids.length + 2) (init n [])).s
  let subPid := (ids.map fun i => pids.getD i.toNat (-1)).set 0 (-1)
  toSubTopology ids subPid

/-- `df[col][mapping]` -/
def takeRows {α} [Inhabited α] (col : List α) (mapping : List Int) : List α := mapping.map fun i => col.getD i.toNat default

/-! ### cut_tree -/
section cut
variable {T K : Type}

/-- `_enter` wrapper of `cut_tree(enter=…)`: below a removed node the user callback is not called -/
def cutEnter (ue : Int → Option T → T × Bool) : List Int → Int → Option (T × Bool) → List Int × (T × Bool) :=
  fun rem n parent =>
    match parent with
    | some (pv, true) => (rem ++ [n], (pv, true))
    | _ =>
      let r := ue n (parent.map (·.1))
      (if r.2 then rem ++ [n] else rem, r)

def cutTreeEnter (pids : List Int) (ue : Int → Option T → T × Bool) : Option SubTopo :=
  let rem := (run (tableKids (rangeI pids.length) pids) (cutEnter ue) noLeave (2 * pids.length + 2) (init 0 [])).s
  toSubtree pids rem

/-- `_leave` wrapper of `cut_tree(leave=…)` -/
def cutLeave (ul : Int → List K → K × Bool) : List Int → Int → List K → List Int × K :=
  fun rem n children => let r := ul n children; (if r.2 then rem ++ [n] else rem, r.1)
def noEnter {σ : Type} : σ → Int → Option Unit → σ × Unit := fun s _ _ => (s, ())

def cutTreeLeave (pids : List Int) (ul : Int → List K → K × Bool) : Option SubTopo :=
  let rem := (run (tableKids (rangeI pids.length) pids) noEnter (cutLeave ul) (2 * pids.length + 2) (init 0 [])).s
  toSubtree pids rem
end cut

/-! ### CutByType -/
/-- `leave(n, keep_children)`: `if n.id in removals and any(keep_children): removals.remove(n.id); return n.id not in removals` -/
def typeLeave : (Int → Bool) → Int → List Bool → (Int → Bool) × Bool :=
  fun removed n keepChildren =>
    let removed' := if removed n && keepChildren.any id then upd removed n false else removed
    (removed', !removed' n)

def cutByType (pids types : List Int) (ty : Int) : Option SubTopo :=
  let removed0 : Int → Bool := fun i => decide (0 ≤ i) && decide (i.toNat < pids.length) && (types.getD i.toNat 0 != ty)
  let removed := (run (tableKids (rangeI pids.length) pids) noEnter typeLeave (2 * pids.length + 2) (init 0 removed0)).s
  toSubtree pids ((rangeI pids.length).filter removed)

/-! ### CutByFurcationOrder -/
/-- `n.is_furcation()`: `count_nonzero(pid == id) > 1` -/
def isFurcation (pids : List Int) (n : Int) : Bool := (pids.filter (· = n)).length > 1
def orderEnter (pids : List Int) (maxOrder : Int) : Int → Option Int → Int × Bool :=
  fun n parentLevel =>
    let level : Int := match parentLevel with
      | none => 0
      | some l => if isFurcation pids n then l + 1 else l
    (level, decide (level ≥ maxOrder))
def cutByOrder (pids : List Int) (maxOrder : Int) : Option SubTopo := cutTreeEnter pids (orderEnter pids maxOrder)

/-! ### CutShortTipBranch (lengths as integers: `elen c` = distance from `c` to its parent) -/
/-- `_leave`: value `some (dis, node)` = length of the unbranched chain hanging below `node` … or `None`;
the state collects `br[1].id` of every short terminal chain -/
def tipLeave (elen : Int → Int) (thre : Int) : List Int → Int → List (Option (Int × Int)) → List Int × Option (Int × Int) :=
  fun rem n children =>
    match children with
    | [] => (rem, some (0, n))
    | [some (dis, child)] => (rem, some (dis + elen child, n))
    | _ =>
      (children.foldl (fun acc c => match c with
        | none => acc
        | some (dis, child) => if dis + elen child > thre then acc else acc ++ [child]) rem, none)

def cutShortTip (pids : List Int) (elen : Int → Int) (thre : Int) : Option SubTopo :=
  let rem := (run (tableKids (rangeI pids.length) pids) noEnter (tipLeave elen thre) (2 * pids.length + 2) (init 0 [])).s
  toSubtree pids rem

/-! ### driver -/
def showSub : Option SubTopo → String
  | none => "E"
  | some s => s!"{Proto.showInts s.newPid} / {Proto.showInts s.mapping}"

def handle (what : String) (args : List String) : String :=
  match Proto.argInts args "pids" with
  | none => "bad-args"
  | some pids =>
    match what with
    | "subtree" => match Proto.argInt args "n" with
      | some n => showSub (getSubtree pids n) | none => "bad-args"
    | "tosub" => match Proto.argInts args "rm" with
      | some rm => showSub (toSubtree pids rm) | none => "bad-args"
    | "subtopo" => match Proto.argInts args "ids" with
      | some ids => showSub (toSubTopology ids pids) | none => "bad-args"
    | "cutenter" => match Proto.argInts args "rm" with       -- user callback: remove when id ∈ rm; value = depth
      | some rm => showSub (cutTreeEnter pids (fun n (pv : Option Int) => ((pv.getD (-1)) + 1, rm.contains n)))
      | none => "bad-args"
    | "cutdepth" => match Proto.argInt args "d" with          -- user callback: remove when depth ≥ d
      | some d => showSub (cutTreeEnter pids (fun _ (pv : Option Int) => ((pv.getD (-1)) + 1, decide ((pv.getD (-1)) + 1 ≥ d))))
      | none => "bad-args"
    | "cutleave" => match Proto.argInt args "h" with          -- user callback: value = height; remove when height ≤ h and not the root
      | some h => showSub (cutTreeLeave pids (fun n (ks : List Int) =>
          let ht := ks.foldl (fun a k => if k + 1 > a then k + 1 else a) 0
          (ht, decide (ht ≤ h) && n != 0)))
      | none => "bad-args"
    | "cuttype" => match Proto.argInts args "types", Proto.argInt args "t" with
      | some tys, some t => showSub (cutByType pids tys t) | _, _ => "bad-args"
    | "cutorder" => match Proto.argInt args "m" with
      | some m => showSub (cutByOrder pids m) | none => "bad-args"
    | "cuttip" => match Proto.argInts args "elen", Proto.argInt args "thre" with
      | some el, some th => showSub (cutShortTip pids (fun c => el.getD c.toNat 0) th) | _, _ => "bad-args"
    | _ => "bad-op"
end Sub
