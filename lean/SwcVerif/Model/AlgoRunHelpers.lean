import SwcVerif.Gen.AlgoHelpers
import SwcVerif.Model.AlgoRunViews
/-! Driver side for `Gen/AlgoHelpers.lean` (C09, T41): `Path.__iter__`, `Path.get_node`, `Branch.detach`, `Compartment.detach` GENERATED from
the current sources, run on the histories of `gviews` (same state, same reference structure: see `AlgoRunViews.lean`).  The new ops read only
(a detached object is observed column by column and not kept), so they can be placed anywhere in a history:

* `it:v:c`         `[n[c] for n in path]`
* `itw:v:i:c:x`    `hs = list(path); old = tree[i][c]; tree[i][c] = x; out = [h[c] for h in hs]; tree[i][c] = old` — the handles made BEFORE the
                   store are read AFTER it (live windows): a handle is (view, position) and is rebuilt over the owner's current value (trusted
                   reference structure), its position is what the generated `path_iter` produced
* `gn:v:k:c`       `path.get_node(k)[c]`
* `bdt:v:c`        `Branch(path.attach, path.idx).detach().attach[c]`
* `cdt:o:j:c`      `tree.get_compartments()[j].detach().attach[c]`
* `tit:o:c`        `[n[c] for n in tree]`
* `titw:o:i:c:x`   `hs = list(tree); old = tree[i][c]; tree[i][c] = x; out = [h[c] for h in hs]; tree[i][c] = old` -/
namespace AlgoRun
open Gen.Algo

inductive HOp where
  | g (op : GOp)
  | iter (v : Nat) (c : String)
  | iterLive (v : Nat) (i : Int) (c : String) (x : Int)
  | getNode (v : Nat) (k : Int) (c : String)
  | branchDetach (v : Nat) (c : String)
  | compDetach (o : Nat) (j : Nat) (c : String)
  | treeIter (o : Nat) (c : String)
  | treeIterLive (o : Nat) (i : Int) (c : String) (x : Int)

def hstep (s : VState) : HOp → VState × Views.Out
  | .g op => gstep s op
  | .iter v c => outOf s ((viewOf s v).bind fun p => (path_iter p).bind fun hs => hs.mapM fun h => pnode_getitem h c) fun l => (s, .vals l)
  | .iterLive v i c x =>
    outOf s ((viewOf s v).bind fun p => (path_iter p).bind fun hs =>
      match s.views[v]? with
      | none => none
      | some (o, _) =>
        (s.objs[o]?.bind fun ob => (tree_getitem_int ob i).bind fun n => tnode_setitem n c x).bind fun r =>
          let s' : VState := { s with objs := s.objs.set o r.1.attach }
          (viewOf s' v).bind fun p' => hs.mapM fun h => pnode_getitem { h with attach := p' } c) fun l => (s, .vals l)
  | .getNode v k c => outOf s ((viewOf s v).bind fun p => (path_get_node p k).bind fun n => pnode_getitem n c) fun x => (s, .vals [x])
  | .branchDetach v c =>
    outOf s ((viewOf s v).bind fun p => (branch_detach p).bind fun d => Py.Dict.get? d.attach.ndata c) fun l => (s, .vals l)
  | .compDetach o j c =>
    outOf s (s.objs[o]?.bind fun ob => (tree_get_compartments ob).bind fun cs => cs[j]?.bind fun cp =>
      (tcomp_detach cp).bind fun d => Py.Dict.get? d.attach.ndata c) fun l => (s, .vals l)

  | .treeIter o c => outOf s (s.objs[o]?.bind fun ob => (tree_iter ob).bind fun hs => hs.mapM fun h => tnode_getitem h c) fun l => (s, .vals l)
  | .treeIterLive o i c x =>
    outOf s (s.objs[o]?.bind fun ob => (tree_iter ob).bind fun hs =>
      ((tree_getitem_int ob i).bind fun n => tnode_setitem n c x).bind fun r =>
        hs.mapM fun h => tnode_getitem { h with attach := r.1.attach } c) fun l => (s, .vals l)

def hrun (s : VState) (ops : List HOp) : List Views.Out :=
  (ops.foldl (fun (acc : VState × List Views.Out) op => let r := hstep acc.1 op; (r.1, acc.2 ++ [r.2])) (s, [])).2

def parseHOp (t : String) : Option HOp :=
  match t.splitOn ":" with
  | ["it", v, c] => do some (.iter (← v.toNat?) c)
  | ["itw", v, i, c, x] => do some (.iterLive (← v.toNat?) (← i.toInt?) c (← x.toInt?))
  | ["gn", v, k, c] => do some (.getNode (← v.toNat?) (← k.toInt?) c)
  | ["bdt", v, c] => do some (.branchDetach (← v.toNat?) c)
  | ["tit", o, c] => do some (.treeIter (← o.toNat?) c)
  | ["titw", o, i, c, x] => do some (.treeIterLive (← o.toNat?) (← i.toInt?) c (← x.toInt?))
  | ["cdt", o, j, c] => do some (.compDetach (← o.toNat?) (← j.toNat?) c)
  | _ => (parseGOp t).map .g

/-- `ghelpers id= pid= type= x= y= z= r= ops=op;op;…` → one output per op (the protocol of `gviews`, plus `it` / `itw` / `gn` / `bdt` / `cdt` / `tit` / `titw`) -/
def handleHelpers (args : List String) : String :=
  let g := fun k => Proto.argInts args k
  match g "id", g "pid", g "type", g "x", g "y", g "z", g "r", Proto.arg args "ops" with
  | some i, some p, some t, some x, some y, some z, some r, some ops =>
    match ((ops.splitOn ";").filter (· ≠ "")).mapM parseHOp with
    | none => "bad-ops"
    | some os =>
      let tree : DictSWC := ⟨[("id", i), ("type", t), ("x", x), ("y", y), ("z", z), ("r", r), ("pid", p)], stdNames⟩
      " ".intercalate ((hrun ⟨[tree], []⟩ os).map Views.showOut)
  | _, _, _, _, _, _, _, _ => "bad-args"

end AlgoRun
