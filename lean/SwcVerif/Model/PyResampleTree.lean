import SwcVerif.Model.Py
/-! Semantics of the numpy idiom of `swcgeom/transforms/tree.py::TreeSmoother.__call__` that `Model/Py.lean` does not have, used by the
generated module `Gen/AlgoResampleTree.lean` (`harness/algo_specs/16b_resamtree.py`).  Mathlib-free. -/
namespace Py
variable {α : Type}

/-- `a[is] = b` for an integer index array `is` and an array `b`: `a[is[j]] = b[j]` for `j = 0, 1, …` in this order (a repeated index keeps
the LAST value, as numpy does); negative indices wrap, an index out of range raises (numpy checks all indices before writing; the array
is lost either way).  A length mismatch raises: numpy would broadcast a `b` of length 1, which no translated caller produces with
`len(is) ≠ 1` (there the translation raises instead — conservative). -/
def scatter (a : List α) : List Int → List α → Option (List α)
  | [], [] => some a
  | i :: is, b :: bs => (setIdx a i b).bind fun a' => scatter a' is bs
  | _, _ => none

end Py
