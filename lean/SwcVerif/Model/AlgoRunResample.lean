import SwcVerif.Gen.AlgoResample
import SwcVerif.Model.Resample
/-! Driver side of the imperative translator for C16 (see `AlgoRunSort.lean`): the GENERATED `BranchLinearResampler.resample`,
`BranchIsometricResampler.resample`, `BranchConvSmoother.__call__` (Gen/AlgoResample.lean) are run at `K = Rat` on the same protocol lines
as the hand-written models `Resample.linearResample / isoResample / convSmooth`. -/
namespace AlgoRun
open Gen.Algo

/-- the (N, 4) array with the given columns -/
def rowsOfCols (x y z r : List Rat) : List (List Rat) :=
  (List.range x.length).map fun i => [x.getD i 0, y.getD i 0, z.getD i 0, r.getD i 0]

def showCols4 (rows : List (List Rat)) : String :=
  " / ".intercalate ((List.range 4).map fun j => Resample.showRats (rows.map fun row => row.getD j 0))

/-- `giso lens= x= y= z= r= d= adj=0|1` / `glin lens= x= y= z= r= n=` → the four columns of the array the GENERATED function returns
(`E` = any exception); `gsmooth x= y= z= r= k=` → the four columns after the GENERATED smoother (window `np.ones(k)`) -/
def handleResample (what : String) (args : List String) : String :=
  match Resample.argRats args "x", Resample.argRats args "y", Resample.argRats args "z", Resample.argRats args "r" with
  | some x, some y, some z, some r =>
    match what with
    | "gsmooth" =>
      match Proto.argInt args "k" with
      | some k =>
        if k < 0 then "E" else
        match conv_smooth (K := Rat) Py.ratFld [("x", x), ("y", y), ("z", z), ("r", r)] (x.length : Int) (List.replicate k.toNat 1) with
        | none => "E"
        | some (d, _) => " / ".intercalate (["x", "y", "z", "r"].map fun key => Resample.showRats (Py.Dict.getD d key []))
      | none => "bad-args"
    | _ =>
      match Resample.argRats args "lens" with
      | none => "bad-args"
      | some lens =>
        let rows := rowsOfCols x y z r
        let out := if what = "giso" then
            match Resample.argRat args "d", Proto.argNat args "adj" with
            | some d, some adj => some (iso_resample (K := Rat) Py.ratFld rows lens d (adj = 1))
            | _, _ => none
          else (Proto.argInt args "n").map fun n => lin_resample (K := Rat) Py.ratFld rows lens n
        match out with
        | none => "bad-args"
        | some none => "E"
        | some (some rows') => showCols4 rows'
  | _, _, _, _ => "bad-args"

end AlgoRun
