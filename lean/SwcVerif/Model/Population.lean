import SwcVerif.Model.Basic
/-! Models for C19 (`swcgeom/core/population.py`): `_get_idx`, `LazyLoadingTrees` as a state machine with
a read log, `ChainTrees` (prefix sums + the binary search as written), `NestTrees`, `Population`
construction (the `swcs[0]` probe), `Populations.__getitem__`. Files are identified by their index in
the list handed to `LazyLoadingTrees`. -/
namespace Pop

/-- `_get_idx(key, length)`: `none` = IndexError -/
def getIdx (key : Int) (len : Nat) : Option Nat :=
  if key < -(len : Int) || key ≥ (len : Int) then none
  else some (if key < 0 then key + len else key).toNat

/-- `LazyLoadingTrees`: `trees[i] is None` ⇔ `cache[i] = false`; `log` = the files read so far (oldest first) -/
structure Lazy where
  cache : List Bool
  log : List Nat
deriving Repr, DecidableEq

def Lazy.init (n : Nat) : Lazy := ⟨List.replicate n false, []⟩
def Lazy.len (l : Lazy) : Nat := l.cache.length

/-- `load(key)`: read the file only if the slot is empty -/
def Lazy.load (l : Lazy) (k : Nat) : Lazy :=
  if l.cache.getD k true then l else ⟨l.cache.set k true, l.log ++ [k]⟩

/-- `__getitem__(key)`: the file whose tree is returned -/
def Lazy.get (l : Lazy) (key : Int) : Option (Lazy × Nat) :=
  (getIdx key l.len).map fun k => (l.load k, k)

inductive LOp where
  | get (key : Int)
  | load (k : Nat)            -- `trees.load(i)` (valid slot)
  | iter                      -- `for t in trees`
  | len
deriving Repr

def Lazy.iterAll (l : Lazy) : Lazy := (List.range l.len).foldl (fun s k => s.load k) l

/-- one operation: new state and what the caller sees (`none` = IndexError) -/
def Lazy.step (l : Lazy) : LOp → Lazy × Option (List Nat)
  | .get key => match l.get key with
    | some (l', k) => (l', some [k])
    | none => (l, none)
  | .load k => if k < l.len then (l.load k, some []) else (l, none)
  | .iter => (l.iterAll, some (List.range l.len))
  | .len => (l, some [l.len])

def Lazy.run (l : Lazy) (ops : List LOp) : Lazy := ops.foldl (fun s op => (s.step op).1) l

/-- `Population(LazyLoadingTrees(...))`: `len(swcs) > 0 and isinstance(swcs[0], str)` indexes slot 0 -/
def populationInit (n : Nat) : Lazy := if n > 0 then (Lazy.init n).load 0 else Lazy.init n

/-! ## ChainTrees -/
/-- `np.cumsum([0] + lens)` -/
def cumsum (lens : List Nat) : List Nat := lens.foldl (fun acc x => acc ++ [acc.getLastD 0 + x]) [0]

/-- the `while i < j` loop -/
def bsearch (cum : List Nat) (idx : Nat) : Nat → Nat → Nat → Nat
  | 0, i, _ => i
  | f+1, i, j =>
    if i < j then
      let mid := (i + j) / 2
      if cum.getD mid 0 ≤ idx then bsearch cum idx f (mid + 1) j else bsearch cum idx f i mid
    else i

/-- `ChainTrees.__getitem__(key)` over members of the given lengths: (member, local index) -/
def chainGet (lens : List Nat) (key : Int) : Option (Nat × Nat) :=
  let cum := cumsum lens
  let total := cum.getLastD 0
  (getIdx key total).map fun idx =>
    let i := bsearch cum idx (lens.length + 1) 1 lens.length
    (i - 1, idx - cum.getD (i - 1) 0)

def chainLen (lens : List Nat) : Nat := (cumsum lens).getLastD 0

/-- `NestTrees(trees, idx)[key]` = `trees[idx[key]]` (Python list indexing of `idx`) -/
def nestGet (idx : List Int) (key : Int) : Option Int :=
  (getIdx key idx.length).map fun k => idx.getD k 0

/-- `Tree.from_swc(path)` as a state-passing callback of the translated code: the state is the list of files read so
far; the tree is identified by its file -/
def readLog : List Int → Int → List Int × Int := fun s f => (s ++ [f], f)

/-! ## driver -/
def parseLOps (s : String) : Option (List LOp) :=
  (s.splitOn ";").filter (· ≠ "") |>.mapM fun t =>
    match t.splitOn ":" with
    | ["g", k] => k.toInt?.map LOp.get
    | ["l", k] => k.toNat?.map LOp.load
    | ["i"] => some .iter
    | ["n"] => some .len
    | _ => none

/-- `lazy n=<k> pop=0|1 ops=…` → per op `E` or the returned file indices, then ` / ` the read log -/
def handleLazy (args : List String) : String :=
  match Proto.argNat args "n", (Proto.arg args "ops").bind parseLOps with
  | some n, some ops =>
    let s0 := if Proto.argNat args "pop" = some 1 then populationInit n else Lazy.init n
    let r := ops.foldl (fun (acc : Lazy × List String) op =>
      let st := acc.1.step op
      (st.1, acc.2 ++ [match st.2 with | none => "E" | some l => "[" ++ Proto.showNats l ++ "]"])) (s0, [])
    " ".intercalate r.2 ++ " / " ++ Proto.showNats r.1.log
  | _, _ => "bad-args"

/-- `chain lens=… keys=…` → `len` then per key `m:j` or `E` -/
def handleChain (args : List String) : String :=
  match Proto.argInts args "lens", Proto.argInts args "keys" with
  | some lens, some keys =>
    let ls := lens.map Int.toNat
    s!"{chainLen ls} " ++ " ".intercalate (keys.map fun k => match chainGet ls k with
      | none => "E" | some (m, j) => s!"{m}:{j}")
  | _, _ => "bad-args"
end Pop
