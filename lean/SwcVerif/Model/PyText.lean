import SwcVerif.Model.Py
/-! Further semantics of the imperative translator (`harness/translate_algo.py`, hooks in `harness/algo_specs/19_asclexer.py`):
Python `str` operations and a text stream (`io.TextIOBase` opened for reading) modelled as the string of the characters that have not
been read yet.  Everything is defined on the list of characters (`String.toList` / `String.ofList`) so that refinement proofs can work
on `List Char`.  Mathlib-free: linked into the driver. -/
namespace Py.Text

/-- `r.read(1)`: the next character as a one-character `str` (`""` at the end of the stream) and the stream after it -/
def read1L : List Char → List Char × List Char
  | [] => ([], [])
  | c :: cs => ([c], cs)
def read1 (r : String) : String × String := (String.ofList (read1L r.toList).1, String.ofList (read1L r.toList).2)

/-- `r.readline()`: everything up to and including the next `'\n'` (or to the end of the stream), and the stream after it -/
def readlineL : List Char → List Char × List Char
  | [] => ([], [])
  | c :: cs => if c = '\n' then ([c], cs) else (c :: (readlineL cs).1, (readlineL cs).2)
def readline (r : String) : String × String := (String.ofList (readlineL r.toList).1, String.ofList (readlineL r.toList).2)

/-- `a in b` on two `str`: `a` occurs as a substring of `b` -/
def isInfixL (a : List Char) : List Char → Bool
  | [] => a.isEmpty
  | c :: cs => a.isPrefixOf (c :: cs) || isInfixL a cs
def strIn (a b : String) : Bool := isInfixL a.toList b.toList

/-- `a.endswith(suf)` -/
def endswith (a suf : String) : Bool := suf.toList.reverse.isPrefixOf a.toList.reverse

/-- `a[:-k]` for a literal `k > 0` -/
def dropEnd (a : String) (k : Nat) : String := String.ofList (a.toList.take (a.toList.length - k))

/-- `a + b` on two `str` -/
def cat (a b : String) : String := String.ofList (a.toList ++ b.toList)

/-- `a == ""` / general equality of `str`, on the characters -/
def eq (a b : String) : Bool := decide (a.toList = b.toList)

end Py.Text
