import SwcVerif.Gen.AlgoViews
import SwcVerif.Model.Views
/-! Driver side of the imperative translator for C09 (see `AlgoRunSort.lean`): the definitions GENERATED from the current sources of
`Node.__getitem__/__setitem__`, `Path.__getitem__/get_ndata/detach/…`, `Tree.__getitem__/get_compartments`, `Branch.get_compartments`,
`DictSWC.copy` are run on the same operation histories as the hand-written heap model (`views …`) and the real classes.

The only thing this file adds is the REFERENCE structure of Python (trusted, stated in `harness/algo_specs/70_views.py`): an object is an
entry of `objs`; a view is (owner entry, idx) and is rebuilt from the owner's CURRENT value at every access (`Path.__init__`); after a call
that updates its receiver (`Node.__setitem__`) the receiver's `attach` is stored back into the owner's entry; `copy()` / `detach()` append a
new entry. -/
namespace AlgoRun
open Gen.Algo

structure VState where
  objs : List DictSWC
  views : List (Nat × List Int)

def stdNames : SWCNames := ⟨"id", "pid"⟩

/-- the view object `v` over the current value of its owner: `Path(owner, idx)` -/
def viewOf (s : VState) (v : Nat) : Option Path := do
  let (o, idx) ← s.views[v]?
  let ob ← s.objs[o]?
  (path_init default ob idx).map (·.1)

inductive GOp where
  | base (op : Views.Op)
  | slice (o : Nat) (s : Py.Slice)                       -- [n.id for n in tree[a:b:c]]
  | vslice (v : Nat) (s : Py.Slice)                      -- [n.id for n in path[a:b:c]]
  | vnodeWrite (v : Nat) (k : Int) (c : String) (x : Int)  -- path[k][c] = x

def outOf {α : Type} (s : VState) (r : Option α) (f : α → VState × Views.Out) : VState × Views.Out :=
  match r with
  | none => (s, .err)
  | some a => f a

def pairOf (l : List Int) : Option (Int × Int) :=
  match l with
  | [a, b] => some (a, b)
  | _ => none

def gstep (s : VState) : GOp → VState × Views.Out
  | .base (.readCol o c) => outOf s (s.objs[o]?.bind fun ob => tree_getitem_str ob c) fun l => (s, .vals l)
  | .base (.nodeRead o i c) =>
    outOf s (s.objs[o]?.bind fun ob => (tree_getitem_int ob i).bind fun n => tnode_getitem n c) fun x => (s, .vals [x])
  | .base (.nodeWrite o i c x) =>
    outOf s (s.objs[o]?.bind fun ob => (tree_getitem_int ob i).bind fun n => tnode_setitem n c x) fun r =>
      ({ s with objs := s.objs.set o r.1.attach }, .unit)
  | .base (.ownerWrite o k c x) =>
    -- not library code: the harness assigns into the owner's array directly
    outOf s (s.objs[o]?.bind fun ob => (Py.Dict.get? ob.ndata c).bind fun col =>
        if k < col.length then some { ob with ndata := Py.Dict.set ob.ndata c (col.set k x) } else none) fun ob' =>
      ({ s with objs := s.objs.set o ob' }, .unit)
  | .base (.mkView o idx) => ({ s with views := s.views ++ [(o, idx)] }, .newView s.views.length)
  | .base (.viewRead v c) => outOf s ((viewOf s v).bind fun p => path_getitem_str p c) fun l => (s, .vals l)
  | .base (.viewNodeRead v k c) =>
    outOf s ((viewOf s v).bind fun p => (path_getitem_int p k).bind fun n => pnode_getitem n c) fun x => (s, .vals [x])
  | .base (.copy o) => outOf s (s.objs[o]?.bind swc_copy) fun ob => ({ s with objs := s.objs ++ [ob] }, .newObj s.objs.length)
  | .base (.detach v) => outOf s ((viewOf s v).bind path_detach) fun p => ({ s with objs := s.objs ++ [p.attach] }, .newObj s.objs.length)
  | .base (.segments o) =>
    outOf s (s.objs[o]?.bind fun ob => (tree_get_compartments ob).bind fun cs =>
        cs.mapM fun c => (path_get_ndata c c.names.id).bind pairOf) fun ps => (s, .pairs ps)
  | .base (.viewSegments v) =>
    outOf s ((viewOf s v).bind fun p => (branch_get_compartments p).bind fun cs =>
        cs.mapM fun c => (ppath_get_ndata c c.names.id).bind pairOf) fun ps => (s, .pairs ps)
  | .slice o sl =>
    outOf s (s.objs[o]?.bind fun ob => (tree_getitem_slice ob sl).bind fun ns => ns.mapM fun n => tnode_getitem n n.names.id)
      fun l => (s, .vals l)
  | .vslice v sl =>
    outOf s ((viewOf s v).bind fun p => (path_getitem_slice p sl).bind fun ns => ns.mapM fun n => pnode_getitem n n.names.id)
      fun l => (s, .vals l)
  | .vnodeWrite v k c x =>
    -- the receiver's `attach` is the view (a temporary of this access); the owner entry is what the view was built from
    outOf s ((viewOf s v).bind fun p => (path_getitem_int p k).bind fun n => pnode_setitem n c x) fun r =>
      match s.views[v]? with
      | some (o, _) => ({ s with objs := s.objs.set o r.1.attach.attach }, .unit)
      | none => (s, .err)

def grun (s : VState) (ops : List GOp) : List Views.Out :=
  (ops.foldl (fun (acc : VState × List Views.Out) op => let r := gstep acc.1 op; (r.1, acc.2 ++ [r.2])) (s, [])).2

def optInt? (t : String) : Option (Option Int) := if t = "N" then some none else t.toInt?.map some

def parseGOp (t : String) : Option GOp :=
  match t.splitOn ":" with
  | ["sl", o, a, b, c] => do some (.slice (← o.toNat?) ((← optInt? a), (← optInt? b), (← optInt? c)))
  | ["vsl", v, a, b, c] => do some (.vslice (← v.toNat?) ((← optInt? a), (← optInt? b), (← optInt? c)))
  | ["pw", v, k, c, x] => do some (.vnodeWrite (← v.toNat?) (← k.toInt?) c (← x.toInt?))
  | _ => (Views.parseOp t).map .base

/-- `gviews id= pid= type= x= y= z= r= ops=op;op;…` → one output per op (the protocol of `views`, plus `sl` / `vsl` / `pw`) -/
def handleViews (args : List String) : String :=
  let g := fun k => Proto.argInts args k
  match g "id", g "pid", g "type", g "x", g "y", g "z", g "r", Proto.arg args "ops" with
  | some i, some p, some t, some x, some y, some z, some r, some ops =>
    match ((ops.splitOn ";").filter (· ≠ "")).mapM parseGOp with
    | none => "bad-ops"
    | some os =>
      let tree : DictSWC := ⟨[("id", i), ("type", t), ("x", x), ("y", y), ("z", z), ("r", r), ("pid", p)], stdNames⟩
      " ".intercalate ((grun ⟨[tree], []⟩ os).map Views.showOut)
  | _, _, _, _, _, _, _, _ => "bad-args"

/-- `gslice n= a= b= c=` (`N` = None) → `start,stop,step / i0,i1,…` of `range(*slice(a, b, c).indices(n))`; `E` = ValueError -/
def handleSlice (args : List String) : String :=
  match Proto.argInt args "n", (Proto.arg args "a").bind optInt?, (Proto.arg args "b").bind optInt?, (Proto.arg args "c").bind optInt? with
  | some n, some a, some b, some c =>
    match Py.sliceIndices (a, b, c) n with
    | none => "E"
    | some t => match Py.range3 t.1 t.2.1 t.2.2 with
      | none => "E"
      | some l => s!"{t.1},{t.2.1},{t.2.2} / {Proto.showInts l}"
  | _, _, _, _ => "bad-args"

end AlgoRun
