import SwcVerif.Model.Py
/-! Further semantics of the imperative translator (`harness/translate_algo.py`): dynamically typed scalar values, `str.upper`, object
heaps (kept apart from `Model/Py.lean` so that the generated modules that do not need it are not rebuilt; imported through
`MODULE_MODEL_IMPORTS`).  Mathlib-free: linked into the driver. -/
namespace Py
variable {α : Type}
/-! ### dynamically typed scalar values, strings, object heaps

A token / AST-node `value` of the ASC parser is dynamically typed in the source (`Any`): `Atom` is a scalar Python value (`None`, a
`str`, a `float` kept as an opaque payload — the parser never computes with it), `Val` a scalar or a (named) tuple of scalars. -/

inductive Atom where
  | none
  | str (s : String)
  | flt (k : Int)
deriving Repr, DecidableEq, Inhabited

inductive Val where
  | at (a : Atom)
  | tup (vs : List Atom)
deriving Repr, DecidableEq

instance : Inhabited Val := ⟨.at .none⟩

/-- `str.upper(s)` (ASCII letters; documents are ASCII, DESIGN §3) -/
def strUpper (s : String) : String := String.ofList (s.toList.map Char.toUpper)

/-- the receiver of an unbound `str` method: anything but a `str` is a TypeError -/
def Atom.str? : Atom → Option String
  | .str s => some s
  | _ => Option.none
def Val.str? : Val → Option String
  | .at a => a.str?
  | _ => Option.none

/-- `v == "literal"` -/
def Atom.eqStr (a : Atom) (s : String) : Bool := decide (a = .str s)
def Val.eqStr (v : Val) (s : String) : Bool := decide (v = .at (.str s))

/-- `a, b, … = v` with `n` targets: a tuple of exactly `n` items (a `str` of `n` characters unpacks into its characters) -/
def Val.unpack (v : Val) (n : Nat) : Option (List Atom) :=
  match v with
  | .tup vs => if vs.length = n then some vs else Option.none
  | .at (.str s) => if s.toList.length = n then some (s.toList.map fun c => Atom.str (String.singleton c)) else Option.none
  | _ => Option.none

/-- `C(...)` of a heap-allocated class: the new object's reference is its index in the heap -/
def alloc (heap : List α) (o : α) : List α × Int := (heap ++ [o], (heap.length : Int))

end Py
