import SwcVerif.Gen.AlgoVolume
import SwcVerif.Model.Num
import SwcVerif.Model.Basic
/-! Driver side of `Gen/AlgoVolume.lean`: `_get_volume_frustum_cone` as GENERATED from the current source (the `leave` closure, the list of
child results, the accuracy gating, the accumulation, through the generated `Tree.traverse`), run at `Float` with the primitive volumes the
real library computed for the same tree. -/
namespace AlgoRun
open Gen.Algo

private def floats (s : String) : Option (List Float) :=
  if s = "" || s = "_" then some [] else (s.splitOn ",").mapM Proto.float?

/-- `gvoltree acc=<a> ids=.. pids=.. sph=.. fr=.. pc=.. cc=..` (one number per row: the node's sphere; the frustum to its parent; the parent's
sphere ∩ that frustum; its own sphere ∩ that frustum) → the volume the GENERATED function reports; `E` = an exception -/
def handleVolTree (args : List String) : String :=
  match Proto.argInt args "acc", Proto.argInts args "ids", Proto.argInts args "pids",
        (Proto.arg args "sph").bind floats, (Proto.arg args "fr").bind floats, (Proto.arg args "pc").bind floats, (Proto.arg args "cc").bind floats with
  | some acc, some ids, some pids, some sph, some fr, some pc, some cc =>
    let nan : Float := 0.0 / 0.0
    let nth (l : List Float) (i : Int) : Float := if i < 0 then nan else l.getD i.toNat nan
    let volSphere : Int → Float := fun i => nth sph i
    let volFrustum : Int × Int → Float := fun f => nth fr f.2
    let volSF : Int → Int × Int → Float := fun s f => if s = f.1 then nth pc f.2 else nth cc f.2
    let volPairs : Int → List (Int × Int) → Float := fun _ _ => 0.0
    match get_volume_frustum_cone volSphere volFrustum volSF volPairs (fun _ => nan) (2 * ids.length + 3) ids pids acc with
    | none => "E"
    | some v => Proto.showFloat v
  | _, _, _, _, _, _, _ => "bad-args"

end AlgoRun
