import SwcVerif.Model.Population
/-! Heap model for C09: trees own one numpy array per column; node / path / branch / compartment handles
hold an owner and an index (array) and dereference it on every access; `copy()` / `detach()` allocate.

* `get_ndata(k)` of a tree / DictSWC returns the owner's array itself (alias);
* `Path.get_ndata(k)` = `attach.get_ndata(k)[self.idx]` is a fancy index ⇒ a fresh array;
* `Node.__getitem__/__setitem__` index / assign into `attach.get_ndata(k)` — for a node of a TREE that is the
  owner's array (write-through); for a node of a path it is a temporary (the write is lost);
* `DictSWC.copy()` is a deep copy; the `detach()`es build a new `DictSWC` from fancy-indexed columns. -/
namespace Views

abbrev ArrId := Nat
abbrev Col := String

structure Obj where
  cols : List (Col × ArrId)
deriving Repr

structure View where
  owner : Nat          -- object index
  idx : List Int       -- positions in the owner (as given, not normalised)
deriving Repr

structure Heap where
  arrs : List (List Int)       -- array id = position
  objs : List Obj
  views : List View
deriving Repr

def Heap.arr (h : Heap) (a : ArrId) : List Int := h.arrs.getD a []
def Obj.col? (o : Obj) (c : Col) : Option ArrId := (o.cols.find? (·.1 == c)).map (·.2)

/-- the owner's array of a column (`tree.get_ndata(c)`: an alias) -/
def Heap.colArr (h : Heap) (o : Nat) (c : Col) : Option ArrId := (h.objs[o]?).bind (·.col? c)

/-- numpy integer indexing of a 1-d array: negative indices wrap, out of range raises -/
def at? (l : List Int) (i : Int) : Option Int := (Pop.getIdx i l.length).map (l.getD · 0)

/-- fancy indexing `arr[idx]` (a copy) -/
def fancy (l : List Int) (idx : List Int) : Option (List Int) := idx.mapM (at? l)

def Heap.alloc (h : Heap) (data : List Int) : Heap × ArrId := ({ h with arrs := h.arrs ++ [data] }, h.arrs.length)

inductive Op where
  | readCol (o : Nat) (c : Col)                       -- tree.get_ndata(c) / tree[c]
  | nodeRead (o : Nat) (i : Int) (c : Col)            -- tree[i][c]  (index normalised by Tree.__getitem__)
  | nodeWrite (o : Nat) (i : Int) (c : Col) (v : Int) -- tree[i][c] = v
  | ownerWrite (o : Nat) (k : Nat) (c : Col) (v : Int)-- tree.ndata[c][k] = v
  | mkView (o : Nat) (idx : List Int)                 -- Path / Branch (tree, idx)
  | viewRead (v : Nat) (c : Col)                      -- view.get_ndata(c)
  | viewNodeRead (v : Nat) (k : Int) (c : Col)        -- view[k][c]
  | copy (o : Nat)                                    -- tree.copy()
  | detach (v : Nat)                                  -- view.detach(): a new object, id/pid renumbered
  | segments (o : Nat)                                -- tree.get_segments(): (pid i, i) for i ≥ 1
  | viewSegments (v : Nat)                            -- branch.get_segments(): consecutive node pairs
deriving Repr

inductive Out where
  | vals (l : List Int)
  | pairs (l : List (Int × Int))
  | newObj (o : Nat)
  | newView (v : Nat)
  | unit
  | err
deriving Repr, DecidableEq

def setArr (h : Heap) (a : ArrId) (k : Nat) (v : Int) : Heap :=
  { h with arrs := h.arrs.set a ((h.arr a).set k v) }

/-- allocate copies of a list of (column, data) and build the object -/
def newObject (h : Heap) (cols : List (Col × List Int)) : Heap × Nat :=
  let r := cols.foldl (fun (acc : Heap × List (Col × ArrId)) cd =>
    let a := acc.1.alloc cd.2
    (a.1, acc.2 ++ [(cd.1, a.2)])) (h, [])
  ({ r.1 with objs := r.1.objs ++ [⟨r.2⟩] }, r.1.objs.length)

def viewCol (h : Heap) (v : View) (c : Col) : Option (List Int) :=
  (h.colArr v.owner c).bind fun a => fancy (h.arr a) v.idx

def step (h : Heap) : Op → Heap × Out
  | .readCol o c => match h.colArr o c with
    | some a => (h, .vals (h.arr a)) | none => (h, .err)
  | .nodeRead o i c => match h.colArr o c with
    | some a => match at? (h.arr a) i with
      | some x => (h, .vals [x]) | none => (h, .err)
    | none => (h, .err)
  | .nodeWrite o i c v => match h.colArr o c with
    | some a => match Pop.getIdx i (h.arr a).length with
      | some k => (setArr h a k v, .unit) | none => (h, .err)
    | none => (h, .err)
  | .ownerWrite o k c v => match h.colArr o c with
    | some a => if k < (h.arr a).length then (setArr h a k v, .unit) else (h, .err)
    | none => (h, .err)
  | .mkView o idx => ({ h with views := h.views ++ [⟨o, idx⟩] }, .newView h.views.length)
  | .viewRead v c => match h.views[v]? with
    | some vw => match viewCol h vw c with
      | some l => (h, .vals l) | none => (h, .err)
    | none => (h, .err)
  | .viewNodeRead v k c => match h.views[v]? with
    | some vw => match viewCol h vw c with
      | some l => match at? l k with
        | some x => (h, .vals [x]) | none => (h, .err)
      | none => (h, .err)
    | none => (h, .err)
  | .copy o => match h.objs[o]? with
    | some ob =>
      let r := newObject h (ob.cols.map fun ca => (ca.1, h.arr ca.2))
      (r.1, .newObj r.2)
    | none => (h, .err)
  | .detach v => match h.views[v]? with
    | some vw => match h.objs[vw.owner]? with
      | some ob =>
        match ob.cols.mapM (fun ca => (fancy (h.arr ca.2) vw.idx).map fun d => (ca.1, d)) with
        | some cols =>
          let n := vw.idx.length
          let cols' := cols.map fun cd =>
            if cd.1 == "id" then (cd.1, (List.range n).map Int.ofNat)
            else if cd.1 == "pid" then (cd.1, (List.range n).map fun (k : Nat) => (k : Int) - 1)
            else cd
          let r := newObject h cols'
          (r.1, .newObj r.2)
        | none => (h, .err)
      | none => (h, .err)
    | none => (h, .err)
  | .segments o => match h.colArr o "pid", h.colArr o "id" with
    | some p, some i => (h, .pairs (((h.arr p).zip (h.arr i)).drop 1))
    | _, _ => (h, .err)
  | .viewSegments v => match h.views[v]? with
    | some vw => match viewCol h vw "id" with
      | some ids => (h, .pairs (ids.zip (ids.drop 1)))
      | none => (h, .err)
    | none => (h, .err)

def run (h : Heap) (ops : List Op) : Heap × List Out :=
  ops.foldl (fun acc op => let r := step acc.1 op; (r.1, acc.2 ++ [r.2])) (h, [])

/-- a tree with the given columns -/
def mkTree (cols : List (Col × List Int)) : Heap := (newObject ⟨[], [], []⟩ cols).1

/-! ## driver -/
def showOut : Out → String
  | .vals l => "[" ++ Proto.showInts l ++ "]"
  | .pairs l => "{" ++ ";".intercalate (l.map fun p => s!"{p.1}:{p.2}") ++ "}"
  | .newObj o => s!"obj{o}"
  | .newView v => s!"view{v}"
  | .unit => "ok"
  | .err => "E"

def parseOp (t : String) : Option Op :=
  match t.splitOn ":" with
  | ["r", o, c] => do some (.readCol (← o.toNat?) c)
  | ["nr", o, i, c] => do some (.nodeRead (← o.toNat?) (← i.toInt?) c)
  | ["nw", o, i, c, v] => do some (.nodeWrite (← o.toNat?) (← i.toInt?) c (← v.toInt?))
  | ["ow", o, k, c, v] => do some (.ownerWrite (← o.toNat?) (← k.toNat?) c (← v.toInt?))
  | ["mv", o, idx] => do some (.mkView (← o.toNat?) (← Proto.ints (idx.replace "." ",")))
  | ["vr", v, c] => do some (.viewRead (← v.toNat?) c)
  | ["vn", v, k, c] => do some (.viewNodeRead (← v.toNat?) (← k.toInt?) c)
  | ["cp", o] => do some (.copy (← o.toNat?))
  | ["dt", v] => do some (.detach (← v.toNat?))
  | ["sg", o] => do some (.segments (← o.toNat?))
  | ["vs", v] => do some (.viewSegments (← v.toNat?))
  | _ => none

/-- `views id= pid= type= x= y= z= r= ops=op;op;…` → one output per op -/
def handle (args : List String) : String :=
  let g := fun k => Proto.argInts args k
  match g "id", g "pid", g "type", g "x", g "y", g "z", g "r", Proto.arg args "ops" with
  | some i, some p, some t, some x, some y, some z, some r, some ops =>
    match ((ops.splitOn ";").filter (· ≠ "")).mapM parseOp with
    | none => "bad-ops"
    | some os =>
      let h := mkTree [("id", i), ("type", t), ("x", x), ("y", y), ("z", z), ("r", r), ("pid", p)]
      " ".intercalate ((run h os).2.map showOut)
  | _, _, _, _, _, _, _, _ => "bad-args"
end Views
