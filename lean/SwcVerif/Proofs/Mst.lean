import SwcVerif.Model.Mst
import Mathlib.Data.Finset.Card
import Mathlib.Algebra.Order.Field.Rat
/-! Generic lemmas for C17 (the greedy loop `Mst.step`): `getD`/`set`, counting, the first-minimum fold
behind `Mst.argmin`, a pigeonhole principle. -/
namespace Mst

/-! ## lists -/
theorem getD_set {α} (l : List α) (i j : Nat) (v d : α) :
    (l.set i v).getD j d = if i = j ∧ j < l.length then v else l.getD j d := by
  simp only [List.getD_eq_getElem?_getD, List.getElem?_set]
  by_cases h : i = j
  · subst h; by_cases h2 : i < l.length <;> simp [h2]
  · simp [h]

theorem getD_dflt {α} (l : List α) (i : Nat) (d d' : α) (h : i < l.length) : l.getD i d = l.getD i d' := by
  simp [List.getD_eq_getElem?_getD, List.getElem?_eq_getElem h]

theorem getD_mem {α} (l : List α) (i : Nat) (d : α) (h : i < l.length) : l.getD i d ∈ l := by
  simp [List.getD_eq_getElem?_getD, List.getElem?_eq_getElem h]

theorem getD_map {α β} (f : α → β) (l : List α) (i : Nat) (d : α) (d' : β) (h : i < l.length) :
    (l.map f).getD i d' = f (l.getD i d) := by
  simp [List.getD_eq_getElem?_getD, List.getElem?_eq_getElem h]

theorem getD_replicate {α} (n i : Nat) (v d : α) (h : i < n) : (List.replicate n v).getD i d = v := by
  simp [List.getD_eq_getElem?_getD, h]

theorem getD_range_map {β} (f : Nat → β) (n i : Nat) (d : β) (h : i < n) :
    ((List.range n).map f).getD i d = f i := by
  simp [List.getD_eq_getElem?_getD, h]

/-! ## pigeonhole -/
theorem pigeon (f : Nat → Nat) (m n : Nat) (hlt : ∀ k, k < m → f k < n)
    (hinj : ∀ a b, a < m → b < m → f a = f b → a = b) : m ≤ n := by
  have := Finset.card_le_card_of_injOn (s := Finset.range m) (t := Finset.range n) f
    (by intro k hk; simp at hk ⊢; exact hlt k hk)
    (by intro a ha b hb h; simp at ha hb; exact hinj a b ha hb h)
  simpa using this

/-! ## counting in Bool lists -/
theorem exists_false_of_filter_lt (l : List Bool) (h : (l.filter id).length < l.length) :
    ∃ j, j < l.length ∧ l.getD j false = false := by
  induction l with
  | nil => simp at h
  | cons b t ih =>
    cases b
    · exact ⟨0, by simp, by simp⟩
    · simp at h
      obtain ⟨j, hj, hj2⟩ := ih (by simpa using h)
      exact ⟨j + 1, by simp [hj], by simpa using hj2⟩

theorem filter_set_true (l : List Bool) (j : Nat) (hj : j < l.length) (h : l.getD j false = false) :
    ((l.set j true).filter id).length = (l.filter id).length + 1 := by
  induction l generalizing j with
  | nil => simp at hj
  | cons b t ih =>
    cases j with
    | zero => simp at h; subst h; simp
    | succ j =>
      simp at hj h
      have := ih j hj (by simpa using h)
      cases b <;> simp [this]

theorem all_true_of_filter_eq (l : List Bool) (h : (l.filter id).length = l.length) :
    ∀ j, j < l.length → l.getD j false = true := by
  intro j hj
  by_contra hc
  have hf : l.getD j false = false := by simpa using hc
  have h1 := filter_set_true l j hj hf
  have h2 : ((l.set j true).filter id).length ≤ (l.set j true).length := List.length_filter_le _ _
  simp at h2
  omega

theorem filter_id_range_eq_zero (n : Nat) (hn : 0 < n) :
    (((List.range n).map (· == 0)).filter id).length = 1 := by
  cases n with
  | zero => omega
  | succ m =>
    rw [List.range_succ_eq_map]
    simp [Function.comp_def]

/-! ## counting in Int lists -/
theorem count_set_new (l : List Int) (j : Nat) (v w : Int) (hj : j < l.length) (hold : l.getD j 0 ≠ w) :
    ((l.set j v).filter (· = w)).length = (l.filter (· = w)).length + if v = w then 1 else 0 := by
  induction l generalizing j with
  | nil => simp at hj
  | cons b t ih =>
    cases j with
    | zero =>
      simp at hold
      by_cases hv : v = w <;> simp [hv, hold]
    | succ j =>
      simp at hj hold
      have := ih j hj (by simpa using hold)
      by_cases hb : b = w <;> simp [hb, this]; omega

theorem filter_eq_zero (l : List Int) (w : Int) (h : ∀ a, a < l.length → l.getD a 0 ≠ w) :
    (l.filter (· = w)).length = 0 := by
  simp only [List.length_eq_zero_iff, List.filter_eq_nil_iff]
  intro x hx
  obtain ⟨a, ha, rfl⟩ := List.mem_iff_getElem.mp hx
  have := h a ha
  simpa [List.getD_eq_getElem?_getD, List.getElem?_eq_getElem ha] using this

/-! ## the first-minimum fold -/
def pick (masked : Nat → Nat → Bool) (cost : Nat → Nat → Rat)
    (b : Option (Rat × Nat × Nat)) (ij : Nat × Nat) : Option (Rat × Nat × Nat) :=
  if masked ij.1 ij.2 then b
  else
    let c := cost ij.1 ij.2
    match b with
    | none => some (c, ij.1, ij.2)
    | some (cb, _, _) => if c < cb then some (c, ij.1, ij.2) else b

def Good (masked : Nat → Nat → Bool) (cost : Nat → Nat → Rat) (seen : List (Nat × Nat)) :
    Option (Rat × Nat × Nat) → Prop
  | none => ∀ ij ∈ seen, masked ij.1 ij.2 = true
  | some (c, i, j) => (i, j) ∈ seen ∧ masked i j = false ∧ c = cost i j ∧
      ∀ ij ∈ seen, masked ij.1 ij.2 = false → c ≤ cost ij.1 ij.2

theorem good_pick (masked cost) (seen : List (Nat × Nat)) (b) (x : Nat × Nat) (h : Good masked cost seen b) :
    Good masked cost (seen ++ [x]) (pick masked cost b x) := by
  unfold pick
  by_cases hm : masked x.1 x.2 = true
  · simp only [hm, if_true]
    match b, h with
    | none, h =>
      simp only [Good] at h ⊢
      intro ij hij
      rcases List.mem_append.mp hij with h1 | h1
      · exact h ij h1
      · simp at h1; subst h1; exact hm
    | some (c, i, j), h =>
      simp only [Good] at h ⊢
      refine ⟨by simp [h.1], h.2.1, h.2.2.1, ?_⟩
      intro ij hij hf
      rcases List.mem_append.mp hij with h1 | h1
      · exact h.2.2.2 ij h1 hf
      · simp at h1; subst h1; simp [hm] at hf
  · have hm' : masked x.1 x.2 = false := by simpa using hm
    simp only [hm', Bool.false_eq_true, if_false]
    match b, h with
    | none, h =>
      simp only [Good] at h ⊢
      refine ⟨by simp, hm', trivial, ?_⟩
      intro ij hij hf
      rcases List.mem_append.mp hij with h1 | h1
      · have := h ij h1; simp [hf] at this
      · simp at h1; subst h1; exact le_refl _
    | some (c, i, j), h =>
      simp only [Good] at h
      by_cases hc : cost x.1 x.2 < c
      · simp only [hc, if_true, Good]
        refine ⟨by simp, hm', trivial, ?_⟩
        intro ij hij hf
        rcases List.mem_append.mp hij with h1 | h1
        · exact le_trans (le_of_lt hc) (h.2.2.2 ij h1 hf)
        · simp at h1; subst h1; exact le_refl _
      · simp only [hc, if_false, Good]
        refine ⟨by simp [h.1], h.2.1, h.2.2.1, ?_⟩
        intro ij hij hf
        rcases List.mem_append.mp hij with h1 | h1
        · exact h.2.2.2 ij h1 hf
        · simp at h1; subst h1; exact not_lt.mp hc

theorem good_foldl (masked cost) (l : List (Nat × Nat)) : ∀ (seen : List (Nat × Nat)) (b),
    Good masked cost seen b → Good masked cost (seen ++ l) (l.foldl (pick masked cost) b) := by
  induction l with
  | nil => intro seen b h; simpa using h
  | cons x t ih =>
    intro seen b h
    have := ih (seen ++ [x]) _ (good_pick masked cost seen b x h)
    simpa using this

def cells (n : Nat) : List (Nat × Nat) := (List.range n).flatMap fun i => (List.range n).map fun j => (i, j)

theorem mem_cells (n i j : Nat) : (i, j) ∈ cells n ↔ i < n ∧ j < n := by
  simp [cells, List.mem_flatMap, List.mem_map, List.mem_range]

def smask (s : St) (i j : Nat) : Bool := (s.mask.getD i []).getD j true

theorem argmin_eq (dis : List (List Rat)) (bf : Rat) (s : St) (n : Nat) :
    argmin dis bf s n = match (cells n).foldl (pick (smask s) (cellCost dis bf s)) none with
      | none => (0, 0)
      | some (_, i, j) => (i, j) := rfl

/-- if some cell is unmasked, `argmin` returns an unmasked cell of least cost -/
theorem argmin_spec (dis : List (List Rat)) (bf : Rat) (s : St) (n : Nat)
    (hex : ∃ i j, i < n ∧ j < n ∧ smask s i j = false) :
    (argmin dis bf s n).1 < n ∧ (argmin dis bf s n).2 < n ∧
    smask s (argmin dis bf s n).1 (argmin dis bf s n).2 = false ∧
    ∀ i j, i < n → j < n → smask s i j = false →
      cellCost dis bf s (argmin dis bf s n).1 (argmin dis bf s n).2 ≤ cellCost dis bf s i j := by
  have hg := good_foldl (smask s) (cellCost dis bf s) (cells n) [] none (by simp [Good])
  rw [argmin_eq]
  simp only [List.nil_append] at hg
  match hb : (cells n).foldl (pick (smask s) (cellCost dis bf s)) none, hg with
  | none, hg =>
    obtain ⟨i, j, hi, hj, ho⟩ := hex
    simp only [Good] at hg
    have := hg (i, j) ((mem_cells n i j).mpr ⟨hi, hj⟩)
    simp [ho] at this
  | some (c, i, j), hg =>
    simp only [Good] at hg
    obtain ⟨h1, h2, h3, h4⟩ := hg
    have := (mem_cells n i j).mp h1
    refine ⟨this.1, this.2, h2, ?_⟩
    intro a b ha hb' ho
    have := h4 (a, b) ((mem_cells n a b).mpr ⟨ha, hb'⟩) ho
    simpa [h3] using this

/-! ## masking a row and a column -/
def cross (m : List (List Bool)) (k : Nat) (r : List Bool) : List (List Bool) :=
  (m.set k r).map (fun row => row.set k true)

def Square (n : Nat) (m : List (List Bool)) : Prop := m.length = n ∧ ∀ r ∈ m, r.length = n

theorem cross_square {n : Nat} {m : List (List Bool)} {r : List Bool} (k : Nat)
    (hm : Square n m) (hr : r.length = n) : Square n (cross m k r) := by
  refine ⟨by simp [cross, hm.1], ?_⟩
  intro r' hr'
  simp only [cross, List.mem_map] at hr'
  obtain ⟨row, hrow, rfl⟩ := hr'
  rw [List.length_set]
  rcases List.mem_or_eq_of_mem_set hrow with h | h
  · exact hm.2 row h
  · rw [h]; exact hr

theorem cross_get {n : Nat} {m : List (List Bool)} {r : List Bool} {k a b : Nat}
    (hm : Square n m) (hr : r.length = n) (hk : k < n) (ha : a < n) (hb : b < n) :
    ((cross m k r).getD a []).getD b true =
      if b = k then true else if a = k then r.getD b true else (m.getD a []).getD b true := by
  have hlen : (m.set k r).length = n := by simp [hm.1]
  have hrow : ((m.set k r).getD a []).length = n := by
    have hmem := getD_mem (m.set k r) a [] (by omega)
    rcases List.mem_or_eq_of_mem_set hmem with h | h
    · exact hm.2 _ h
    · rw [h]; exact hr
  unfold cross
  rw [getD_map (fun row : List Bool => row.set k true) (m.set k r) a [] [] (by omega), getD_set]
  by_cases hbk : b = k
  · subst hbk
    rw [if_pos ⟨rfl, by omega⟩, if_pos rfl]
  · have : ¬ (k = b ∧ b < ((m.set k r).getD a []).length) := fun h => hbk h.1.symm
    rw [if_neg this, if_neg hbk, getD_set]
    by_cases hak : a = k
    · subst hak
      rw [if_pos ⟨rfl, by have := hm.1; omega⟩, if_pos rfl]
    · have : ¬ (k = a ∧ a < m.length) := fun h => hak h.1.symm
      rw [if_neg this, if_neg hak]

/-! ## one step, with the chosen cell as a parameter -/
def satFlag (limit : Option Nat) (excl : Bool) (f i : Nat) : Bool :=
  match limit with
  | none => false
  | some k => decide (f ≥ k) && (!excl || i != 0)

theorem satFlag_iff (limit : Option Nat) (excl : Bool) (f i : Nat) :
    satFlag limit excl f i = true ↔ ∃ k, limit = some k ∧ k ≤ f ∧ (excl = false ∨ i ≠ 0) := by
  cases limit with
  | none => simp [satFlag]
  | some k => cases excl <;> simp [satFlag]

def stepAt (dis : List (List Rat)) (limit : Option Nat) (excl : Bool) (n : Nat) (s : St) (i j : Nat) : St :=
  let furc := s.furc.set i (s.furc.getD i 0 + 1)
  let mask1 := if satFlag limit excl (furc.getD i 0) i then cross s.mask i (List.replicate n true) else s.mask
  let conn := s.conn.set j true
  ⟨s.pid.set j (i : Int), s.acc.set j (s.acc.getD i 0 + (dis.getD i []).getD j 0), furc, conn, cross mask1 j conn⟩

theorem step_eq (dis : List (List Rat)) (bf : Rat) (limit : Option Nat) (excl : Bool) (n : Nat) (s : St) :
    step dis bf limit excl n s = stepAt dis limit excl n s (argmin dis bf s n).1 (argmin dis bf s n).2 := rfl

end Mst
