import SwcVerif.Props.C10LmGeo
import SwcVerif.Props.C10NodeFeat
import SwcVerif.Props.C10Sholl
import SwcVerif.Props.C10Gen
import SwcVerif.Props.C11
/-! # C11 for the GENERATED measures: lemmas (T33 `invar`)

The generated geometric measures (`Gen/AlgoLmGeo`, `Gen/AlgoNodeFeat`, `Gen/AlgoSholl`) see the coordinates only through `norm` applied to
differences of coordinate rows (their refinement theorems, `Props/C10LmGeo`, `Props/C10NodeFeat`, say so).  Hence: if the coordinates are
replaced by others whose inter-node distances are `φ` of the old ones, with `φ` additive (`Homog`: the identity for a rigid motion,
`s * ·` for a uniform scaling by `s > 0`), every length-type measure becomes `φ` of the old one, and every ratio / count stays. -/
namespace Invar
open LmGeo Gen.Algo

section generic
variable {K : Type} [Inhabited K] [Add K] [Sub K] [Mul K] [OfNat K 0] [OfNat K 1] [LT K] [DecidableLT K] [LE K] [DecidableLE K]

/-- `i` is a node of a table of `n` rows -/
def VI (n : Nat) (i : Int) : Prop := 0 ≤ i ∧ i < (n : Int)

/-- what the measures need of the map `φ` old distance ↦ new distance: additive, and sign-preserving / ratio-preserving (for the zero-length
guards and the ratios).  The identity (rigid motions) and `s * ·`, `s > 0`, in an ordered field (uniform scaling) are instances. -/
structure Homog (F : Py.Fld K) (φ : K → K) : Prop where
  zero : φ 0 = 0
  add : ∀ a b, φ (a + b) = φ a + φ b
  neg : ∀ x, φ x < 0 ↔ x < 0
  pos : ∀ x, 0 < φ x ↔ 0 < x
  div : ∀ a b, F.div (φ a) (φ b) = F.div a b

theorem Homog.id (F : Py.Fld K) : Homog F (fun x : K => x) := ⟨rfl, fun _ _ => rfl, fun _ => Iff.rfl, fun _ => Iff.rfl, fun _ _ => rfl⟩

theorem Homog.fdiv {F : Py.Fld K} {φ : K → K} (h : Homog F φ) (a b : K) : Py.fdiv (φ a) (φ b) = Py.fdiv a b := by
  unfold Py.fdiv
  simp only [h.neg, h.pos, h.div]

theorem sumFrom_rel {α : Type} (φ : K → K) (hadd : ∀ a b, φ (a + b) = φ a + φ b) (f f' : α → K) :
    ∀ (l : List α) (acc : K), (∀ e ∈ l, f' e = φ (f e)) → sumFrom (φ acc) (l.map f') = φ (sumFrom acc (l.map f)) := by
  intro l
  induction l with
  | nil => intro acc _; rfl
  | cons x xs ih =>
    intro acc h
    simp only [List.map_cons, sumFrom, List.foldl_cons]
    rw [h x List.mem_cons_self, ← hadd]
    exact ih _ (fun e he => h e (List.mem_cons_of_mem _ he))

theorem sumFrom0_rel {α : Type} {F : Py.Fld K} {φ : K → K} (h : Homog F φ) (f f' : α → K) (l : List α) (hl : ∀ e ∈ l, f' e = φ (f e)) :
    sumFrom 0 (l.map f') = φ (sumFrom 0 (l.map f)) := by
  have := sumFrom_rel φ h.add f f' l 0 hl
  rwa [h.zero] at this

/-- the distances between the nodes of the new table `xs' ys' zs'` are `φ` of those of the old table -/
def DistRel (φ : K → K) (norm : List K → K) (n : Nat) (xs ys zs xs' ys' zs' : List K) : Prop :=
  ∀ a b : Int, VI n a → VI n b → dist norm xs' ys' zs' a b = φ (dist norm xs ys zs a b)

theorem rootPath_valid {pids : List Int} (hw : C07.WF pids) : ∀ (f : Nat) (k : Int), VI pids.length k →
    ∀ i ∈ Redir.rootPath pids f k, VI pids.length i := by
  intro f
  induction f with
  | zero => intro k hk i hi; simp [Redir.rootPath] at hi; subst hi; exact hk
  | succ f ih =>
    intro k hk i hi
    unfold Redir.rootPath at hi
    split at hi
    · simp at hi; subst hi; exact hk
    · rename_i hne
      simp only [List.mem_cons] at hi
      rcases hi with rfl | hi
      · exact hk
      · refine ih _ ?_ i hi
        obtain ⟨h0, h1⟩ := hk
        have hlt : k.toNat < pids.length := by omega
        have hg : pids.getD k.toNat (-1) = pids[k.toNat] := by simp [List.getD_eq_getElem?_getD, hlt]
        by_cases hz : k.toNat = 0
        · exfalso; apply hne
          have := hw.root
          rw [hg]; simp only [hz]
          rw [List.getElem?_eq_getElem (by omega)] at this
          exact Option.some.inj this
        · rw [hg]; exact (hw.2.1 k.toNat hlt (by omega))

/-! ## the generated L-Measure geometry (`Gen/AlgoLmGeo`): tables as columns -/

theorem steps_valid {n : Nat} {path : List Int} (h : ∀ i ∈ path, VI n i) : ∀ e ∈ steps path, VI n e.1 ∧ VI n e.2 := by
  intro e he
  have := List.of_mem_zip he
  exact ⟨h _ this.1, h _ (List.mem_of_mem_tail this.2)⟩

/-- **PathDistance** of the generated code under a change of coordinates -/
theorem path_distance_rel {F : Py.Fld K} {φ : K → K} (hφ : Homog F φ) (norm : List K → K) {xs ys zs xs' ys' zs' : List K} (pids : List Int)
    (hw : C07.WF pids) (hc : RefineLmGeo.Cols pids.length xs ys zs) (hc' : RefineLmGeo.Cols pids.length xs' ys' zs')
    (hd : DistRel φ norm pids.length xs ys zs xs' ys' zs') (k : Nat) (hk : k < pids.length) (Fu : Nat) :
    lm_path_distance norm (pids.length + 2 + Fu) pids xs' ys' zs' (k : Int) =
      (lm_path_distance norm (pids.length + 2 + Fu) pids xs ys zs (k : Int)).map φ := by
  rw [C10.generated_path_distance norm pids hw hc.1 hc.2 hc.3 k hk Fu, C10.generated_path_distance norm pids hw hc'.1 hc'.2 hc'.3 k hk Fu]
  simp only [Option.map_some]
  congr 1
  apply sumFrom0_rel hφ
  intro e he
  have hv := steps_valid (rootPath_valid hw pids.length (k : Int) ⟨by omega, by omega⟩) e he
  exact hd _ _ hv.1 hv.2

/-- **EucDistance** of the generated code under a change of coordinates (also when it raises) -/
theorem euc_distance_rel {φ : K → K} (norm : List K → K) {xs ys zs xs' ys' zs' : List K} (ids pids types : List Int)
    (hc : RefineLmGeo.Cols pids.length xs ys zs) (hc' : RefineLmGeo.Cols pids.length xs' ys' zs')
    (hd : DistRel φ norm pids.length xs ys zs xs' ys' zs') (k : Nat) (hk : k < pids.length) :
    lm_euc_distance norm ids pids types xs' ys' zs' (k : Int) = (lm_euc_distance norm ids pids types xs ys zs (k : Int)).map φ := by
  have h := C10.generated_euc_distance norm ids pids types hc.1 hc.2 hc.3 k hk
  have h' := C10.generated_euc_distance norm ids pids types hc'.1 hc'.2 hc'.3 k hk
  by_cases ht : types.head? = some Gen.Consts.type_soma
  · rw [h.1 ht, h'.1 ht]
    simp only [Option.map_some]
    congr 1
    exact hd _ _ ⟨by omega, by omega⟩ ⟨by omega, by omega⟩
  · rw [h.2 ht, h'.2 ht]; rfl

theorem branchLength_rel {F : Py.Fld K} {φ : K → K} (hφ : Homog F φ) (norm : List K → K) {n : Nat} {xs ys zs xs' ys' zs' : List K}
    (hd : DistRel φ norm n xs ys zs xs' ys' zs') (br : List Int) (hb : ∀ i ∈ br, VI n i) :
    branchLength norm xs' ys' zs' br = φ (branchLength norm xs ys zs br) := by
  unfold branchLength
  apply sumFrom0_rel hφ
  intro e he
  have := List.of_mem_zip he
  exact hd _ _ (hb _ (List.mem_of_mem_tail this.1)) (hb _ this.2)

/-- **Path.length / Branch_pathlength / Length / Contraction** of the generated code under a change of coordinates: lengths are mapped by `φ`,
the contraction (a ratio) is unchanged (also when it raises) -/
theorem branch_measures_rel {F : Py.Fld K} {φ : K → K} (hφ : Homog F φ) (norm : List K → K) {n : Nat} {xs ys zs xs' ys' zs' : List K}
    (hc : RefineLmGeo.Cols n xs ys zs) (hc' : RefineLmGeo.Cols n xs' ys' zs') (hd : DistRel φ norm n xs ys zs xs' ys' zs')
    (br : List Int) (hb : ∀ i ∈ br, VI n i) :
    path_length norm xs' ys' zs' br = (path_length norm xs ys zs br).map φ ∧
    lm_branch_pathlength norm xs' ys' zs' br = (lm_branch_pathlength norm xs ys zs br).map φ ∧
    lm_length norm xs' ys' zs' br = (lm_length norm xs ys zs br).map φ ∧
    lm_contraction F norm xs' ys' zs' br = lm_contraction F norm xs ys zs br := by
  have hr : ∀ i ∈ br, 0 ≤ i ∧ i < (n : Int) := hb
  have rs : ∀ (r : K) (x : K), some r = (some x).map φ ↔ r = φ x := by intro r x; simp
  have e := branchLength_rel hφ norm hd br hb
  refine ⟨?_, ?_, ?_, ?_⟩
  · rw [RefineLmGeo.pathLength_refines norm hc br hr, RefineLmGeo.pathLength_refines norm hc' br hr, e]; rfl
  · rw [RefineLmGeo.branchPathlength_refines norm hc br hr, RefineLmGeo.branchPathlength_refines norm hc' br hr, e]; rfl
  · rw [RefineLmGeo.length_refines norm hc br hr, RefineLmGeo.length_refines norm hc' br hr, e]; rfl
  · rw [RefineLmGeo.contraction_refines F norm hc br hr, RefineLmGeo.contraction_refines F norm hc' br hr]
    unfold contraction
    cases h1 : br.head? with
    | none => rfl
    | some a =>
      cases h2 : br.getLast? with
      | none => rfl
      | some b =>
        simp only []
        rw [e, hd a b (hb a (List.mem_of_mem_head? h1)) (hb b (List.mem_of_mem_getLast? h2)), hφ.fdiv]

/-! ## the generated feature geometry (`Gen/AlgoNodeFeat`): the table of coordinate rows `axyz`, mapped row by row by `g` -/
section rows
open RefineNf

/-- the row map `g` keeps the dimension `d` and turns the norm of every difference of two rows into `φ` of it -/
structure RowRel (φ : K → K) (norm : List K → K) (d : Nat) (g : List K → List K) : Prop where
  len : ∀ a, a.length = d → (g a).length = d
  dist : ∀ a b, a.length = d → b.length = d →
    norm (List.zipWith (fun x y => x - y) (g a) (g b)) = φ (norm (List.zipWith (fun x y => x - y) a b))

theorem row_map (g : List K → List K) (axyz : List (List K)) (i : Int) (h : Valid axyz i) : row (axyz.map g) i = g (row axyz i) := by
  unfold row
  simp [List.getD_eq_getElem?_getD, List.getElem?_map, List.getElem?_eq_getElem h.2]

theorem row_mem (axyz : List (List K)) (i : Int) (h : Valid axyz i) : row axyz i ∈ axyz := by
  unfold row
  rw [List.getD_eq_getElem?_getD, List.getElem?_eq_getElem h.2]
  simp

theorem valid_map (g : List K → List K) (axyz : List (List K)) (i : Int) : Valid (axyz.map g) i ↔ Valid axyz i := by
  simp [Valid]

theorem vec_map {φ : K → K} {norm : List K → K} {d : Nat} {g : List K → List K} (hg : RowRel φ norm d g) (axyz : List (List K))
    (hdim : ∀ r ∈ axyz, r.length = d) (a b : Int) (ha : Valid axyz a) (hb : Valid axyz b) :
    norm (vec (axyz.map g) a b) = φ (norm (vec axyz a b)) := by
  unfold vec
  rw [row_map g axyz a ha, row_map g axyz b hb]
  exact hg.dist _ _ (hdim _ (row_mem axyz b hb)) (hdim _ (row_mem axyz a ha))

theorem sumK_eq (l : List K) : Py.Nf.sumK l = sumFrom 0 l := rfl

theorem geoTree_map {φ : K → K} {norm : List K → K} {d : Nat} {g : List K → List K} (hg : RowRel φ norm d g) {pids : List Int}
    {axyz : List (List K)} (h : C10.GeoTree pids axyz d) : C10.GeoTree pids (axyz.map g) d :=
  ⟨by simpa using h.len, h.par, by
    intro r hr
    obtain ⟨r0, h0, rfl⟩ := List.mem_map.mp hr
    exact hg.len _ (h.dim _ h0)⟩

/-- **Tree.length** of the generated code under a row map -/
theorem tree_length_rel {F : Py.Fld K} {φ : K → K} (hφ : Homog F φ) {norm : List K → K} {d : Nat} {g : List K → List K} (hg : RowRel φ norm d g)
    (pids : List Int) (axyz : List (List K)) (h : C10.GeoTree pids axyz d) :
    nf_tree_length norm (Sub.rangeI pids.length) pids (axyz.map g) = (nf_tree_length norm (Sub.rangeI pids.length) pids axyz).map φ := by
  rw [C10.generated_tree_length norm pids axyz d h, C10.generated_tree_length norm pids (axyz.map g) d (geoTree_map hg h)]
  simp only [Option.map_some, sumK_eq]
  congr 1
  apply sumFrom0_rel hφ
  intro k hk
  have hk' : k + 1 < pids.length := by simp at hk; omega
  have hp : Valid axyz (pids.getD (k + 1) 0) := ⟨(h.par k hk').1, by rw [h.len]; exact (h.par k hk').2⟩
  have hc : Valid axyz ((k + 1 : Nat) : Int) := ⟨by omega, by rw [h.len]; simpa using hk'⟩
  simp only [sumFrom, List.foldl_cons, List.foldl_nil]
  rw [vec_map hg axyz h.dim _ _ hp hc, hφ.add, hφ.zero]

/-- **Path.straight_line_distance** of the generated code under a row map -/
theorem straight_rel {φ : K → K} {norm : List K → K} {d : Nat} {g : List K → List K} (hg : RowRel φ norm d g) (axyz : List (List K))
    (hdim : ∀ r ∈ axyz, r.length = d) (a : Int) (mid : List Int) (b : Int) (ha : Valid axyz a) (hb : Valid axyz b) :
    nf_path_straight norm (axyz.map g) (a :: (mid ++ [b])) = (nf_path_straight norm axyz (a :: (mid ++ [b]))).map φ := by
  have la := hdim _ (row_mem axyz a ha)
  have lb := hdim _ (row_mem axyz b hb)
  rw [straight_refines norm axyz a mid b ha hb (by rw [la, lb]),
    straight_refines norm (axyz.map g) a mid b ((valid_map g axyz a).2 ha) ((valid_map g axyz b).2 hb)
      (by rw [row_map g axyz a ha, row_map g axyz b hb, hg.len _ la, hg.len _ lb])]
  simp only [Option.map_some]
  rw [vec_map hg axyz hdim a b ha hb]

/-- **NodeFeatures.get_radial_distance** of the generated code under a row map (also when it raises) -/
theorem radial_rel {φ : K → K} {norm : List K → K} {d : Nat} {g : List K → List K} (hg : RowRel φ norm d g) (ids pids types : List Int)
    (axyz : List (List K)) (h0 : 0 < axyz.length) (hdim : ∀ r ∈ axyz, r.length = d) :
    nf_radial_distance norm ids pids types (axyz.map g) = (nf_radial_distance norm ids pids types axyz).map (List.map φ) := by
  have v0 : Valid axyz 0 := ⟨le_refl _, by simpa using h0⟩
  have l0 := hdim _ (row_mem axyz 0 v0)
  have h := radial_refines norm ids pids types axyz h0 (by intro r hr; rw [hdim r hr, l0])
  have h' := radial_refines norm ids pids types (axyz.map g) (by simpa using h0) (by
    intro r hr
    obtain ⟨r0, hr0, rfl⟩ := List.mem_map.mp hr
    rw [row_map g axyz 0 v0, hg.len _ (hdim _ hr0), hg.len _ l0])
  by_cases ht : types.head? = some Gen.Consts.type_soma
  · rw [h.1 ht, h'.1 ht, row_map g axyz 0 v0]
    simp only [Option.map_some, List.map_map]
    congr 1
    apply List.map_congr_left
    intro r hr
    exact hg.dist _ _ (hdim r hr) l0
  · rw [h.2 ht, h'.2 ht]; rfl

/-- **`Path.length` as translated, on ANY path** of rows of one dimension: the sum, in order, of the norms of `xyz[idx[j+1]] − xyz[idx[j]]` -/
theorem path_length_general (norm : List K → K) (axyz : List (List K)) (d : Nat) (hdim : ∀ r ∈ axyz, r.length = d) (idx : List Int)
    (hv : ∀ i ∈ idx, Valid axyz i) :
    nf_path_length norm axyz idx = some (sumFrom 0 (((idx.drop 1).zip (Py.dropEnd idx 1)).map fun e => norm (vec axyz e.2 e.1))) := by
  have ht := take_rows axyz idx hv
  have hz : Py.Nf.sub2 ((idx.map (row axyz)).drop 1) (Py.dropEnd (idx.map (row axyz)) 1)
      = some ((((idx.drop 1).zip (Py.dropEnd idx 1))).map fun e => vec axyz e.2 e.1) := by
    unfold Py.Nf.sub2
    rw [if_pos (by simp [Py.dropEnd])]
    have e : ((idx.map (row axyz)).drop 1).zip (Py.dropEnd (idx.map (row axyz)) 1)
        = ((idx.drop 1).zip (Py.dropEnd idx 1)).map fun e => (row axyz e.1, row axyz e.2) := by
      simp only [Py.dropEnd, List.length_map, ← List.map_drop, ← List.map_take, List.zip_map]
      rfl
    rw [e, Py.mapOpt_total _ (fun p : List K × List K => List.zipWith (fun x y => x - y) p.1 p.2)]
    · simp only [List.map_map]; rfl
    · intro p hp
      obtain ⟨e0, he0, rfl⟩ := List.mem_map.mp hp
      have hm := List.of_mem_zip he0
      have h1 := hdim _ (row_mem axyz _ (hv _ (List.mem_of_mem_drop hm.1)))
      have h2 := hdim _ (row_mem axyz _ (hv _ (List.mem_of_mem_take hm.2)))
      simp [Py.Nf.subVec, h1, h2]
  simp only [nf_path_length, nf_path_length.body, Py.seq, Py.bind, ht, hz]
  simp [Py.finish, Py.Nf.normRows, sumK_eq, List.map_map, Function.comp_def]

/-- **Path.length** (any path) of the generated code under a row map -/
theorem path_length_rel {F : Py.Fld K} {φ : K → K} (hφ : Homog F φ) {norm : List K → K} {d : Nat} {g : List K → List K} (hg : RowRel φ norm d g)
    (axyz : List (List K)) (hdim : ∀ r ∈ axyz, r.length = d) (idx : List Int) (hv : ∀ i ∈ idx, Valid axyz i) :
    nf_path_length norm (axyz.map g) idx = (nf_path_length norm axyz idx).map φ := by
  rw [path_length_general norm axyz d hdim idx hv, path_length_general norm (axyz.map g) d (by
    intro r hr
    obtain ⟨r0, hr0, rfl⟩ := List.mem_map.mp hr
    exact hg.len _ (hdim _ hr0)) idx (fun i hi => (valid_map g axyz i).2 (hv i hi))]
  simp only [Option.map_some]
  congr 1
  apply sumFrom0_rel hφ
  intro e he
  have hm := List.of_mem_zip he
  exact vec_map hg axyz hdim _ _ (hv _ (List.mem_of_mem_take hm.2)) (hv _ (List.mem_of_mem_drop hm.1))

/-- **Path.tortuosity** (any path with at least … any path) of the generated code under a row map: unchanged (also the zero-length guard and the
raising cases) -/
theorem tortuosity_rel {F : Py.Fld K} {φ : K → K} (hφ : Homog F φ) {norm : List K → K} {d : Nat} {g : List K → List K} (hg : RowRel φ norm d g)
    (axyz : List (List K)) (hdim : ∀ r ∈ axyz, r.length = d) (a : Int) (mid : List Int) (b : Int)
    (hv : ∀ i ∈ a :: (mid ++ [b]), Valid axyz i) :
    nf_path_tortuosity F norm (axyz.map g) (a :: (mid ++ [b])) = nf_path_tortuosity F norm axyz (a :: (mid ++ [b])) := by
  rw [tortuosity_refines, tortuosity_refines, path_length_rel hφ hg axyz hdim _ hv,
    straight_rel hg axyz hdim a mid b (hv a List.mem_cons_self) (hv b (by simp))]
  cases nf_path_length norm axyz (a :: (mid ++ [b])) with
  | none => rfl
  | some L =>
    simp only [Option.map_some, Option.bind_some, hφ.neg, hφ.pos]
    split
    · rfl
    · cases nf_path_straight norm axyz (a :: (mid ++ [b])) with
      | none => rfl
      | some S => simp only [Option.map_some, Option.bind_some, hφ.div]
end rows

/-! ## bifurcation angles: the hypothesis on the `angle` parameter is stated on the node triples of the two tables -/

/-- `angle` gives the same answer on the edge vectors `pos a − pos c`, `pos b − pos c` of the new table as on those of the old one -/
def AngleRel (angle : List K → List K → Option K) (n : Nat) (xs ys zs xs' ys' zs' : List K) : Prop :=
  ∀ a b c : Int, VI n a → VI n b → VI n c →
    angle (vsub (pos xs' ys' zs' a) (pos xs' ys' zs' c)) (vsub (pos xs' ys' zs' b) (pos xs' ys' zs' c)) =
    angle (vsub (pos xs ys zs a) (pos xs ys zs c)) (vsub (pos xs ys zs b) (pos xs ys zs c))

theorem kids_VI (pids : List Int) (k c : Int) (h : c ∈ RefineLmGeo.kids pids k) : VI pids.length c := by
  obtain ⟨j, rfl, hj⟩ := RefineLmGeo.kids_valid pids k c h
  exact ⟨by omega, by omega⟩

/-- **Bif_ampl_local** of the generated code at a bifurcation is unchanged when `angle` is (`AngleRel`) -/
theorem bif_ampl_local_rel (angle : List K → List K → Option K) (degrees : K → K) {xs ys zs xs' ys' zs' : List K} (pids : List Int)
    (hc : RefineLmGeo.Cols pids.length xs ys zs) (hc' : RefineLmGeo.Cols pids.length xs' ys' zs')
    (ha : AngleRel angle pids.length xs ys zs xs' ys' zs') (k : Nat) (hk : k < pids.length) (a b : Int)
    (hkids : RefineLmGeo.kids pids (k : Int) = [a, b]) :
    lm_bif_ampl_local angle degrees (Sub.rangeI pids.length) pids xs' ys' zs' (k : Int) =
      lm_bif_ampl_local angle degrees (Sub.rangeI pids.length) pids xs ys zs (k : Int) := by
  rw [((C10.generated_bif_ampl_local angle degrees pids hc.1 hc.2 hc.3 k hk).1 a b hkids).2,
    ((C10.generated_bif_ampl_local angle degrees pids hc'.1 hc'.2 hc'.3 k hk).1 a b hkids).2,
    ha a b k (kids_VI pids k a (by rw [hkids]; simp)) (kids_VI pids k b (by rw [hkids]; simp)) ⟨by omega, by omega⟩]

/-- **Bif_ampl_remote** of the generated code at a bifurcation of a well-formed tree is unchanged when `angle` is (`AngleRel`) -/
theorem bif_ampl_remote_rel (angle : List K → List K → Option K) (degrees : K → K) {xs ys zs xs' ys' zs' : List K} (pids : List Int)
    (hw : C07.WF pids) (hc : RefineLmGeo.Cols pids.length xs ys zs) (hc' : RefineLmGeo.Cols pids.length xs' ys' zs')
    (ha : AngleRel angle pids.length xs ys zs xs' ys' zs') (k : Nat) (hk : k < pids.length) (a b : Int)
    (hkids : RefineLmGeo.kids pids (k : Int) = [a, b]) (Fu : Nat) (hF : pids.length + 1 ≤ Fu) :
    lm_bif_ampl_remote angle degrees Fu (Sub.rangeI pids.length) pids xs' ys' zs' (k : Int) =
      lm_bif_ampl_remote angle degrees Fu (Sub.rangeI pids.length) pids xs ys zs (k : Int) := by
  obtain ⟨la, lb, hla, hlb, _, e⟩ := (C10.generated_bif_ampl_remote angle degrees pids hw hc.1 hc.2 hc.3 k hk Fu hF).1 a b hkids
  obtain ⟨la', lb', hla', hlb', _, e'⟩ := (C10.generated_bif_ampl_remote angle degrees pids hw hc'.1 hc'.2 hc'.3 k hk Fu hF).1 a b hkids
  have h1 : la' = la := by rw [hla] at hla'; simpa using hla'.symm
  have h2 : lb' = lb := by rw [hlb] at hlb'; simpa using hlb'.symm
  subst h1 h2
  have va := kids_VI pids k a (by rw [hkids]; simp)
  have vb := kids_VI pids k b (by rw [hkids]; simp)
  have last_valid : ∀ (c : Int) (l : Nat), VI pids.length c → (RefineNodeBranch.nodeBranch pids Fu c).getLast? = some (l : Int) →
      VI pids.length (l : Int) := by
    intro c l vc hl
    have hm := List.mem_of_mem_getLast? hl
    simp only [RefineNodeBranch.nodeBranch, List.mem_append, List.mem_reverse] at hm
    rcases hm with hm | hm
    · exact RefineNodeBranch.upC_valid hw Fu c vc.1 vc.2 _ hm
    · exact RefineNodeBranch.downC_valid hw Fu c vc.1 _ hm
  rw [e, e', ha _ _ k (last_valid a la' va hla) (last_valid b lb' vb hlb) ⟨by omega, by omega⟩]

/-! ## Sholl counts (`Gen/AlgoSholl`): the count at radius `φ r` over the root distances `φ rad` is the count at `r` over `rad` -/

theorem sholl_intersect_rel (φ : K → K) (hle : ∀ a b, φ a ≤ φ b ↔ a ≤ b) (hlt : ∀ a b, φ a < φ b ↔ a < b) (pairs : List (K × K)) (r : K) :
    sholl_intersect (RefineSholl.rows (pairs.map fun p => (φ p.1, φ p.2))) (φ r) = sholl_intersect (RefineSholl.rows pairs) r := by
  rw [RefineSholl.intersect_refines, RefineSholl.intersect_refines, List.filter_map, List.length_map]
  congr 4
  funext p
  simp [RefineSholl.straddle, hle, hlt]

/-! ## from a map `g` on coordinate rows to the column form -/

/-- column `j` of the table whose row `i` is `g (pos xs ys zs i)` -/
def mapCols (g : List K → List K) (xs ys zs : List K) (j : Nat) : List K :=
  (List.range xs.length).map fun (i : Nat) => (g (pos xs ys zs (i : Int))).getD j default

theorem mapCols_cols (g : List K → List K) {n : Nat} {xs ys zs : List K} (hc : RefineLmGeo.Cols n xs ys zs) :
    RefineLmGeo.Cols n (mapCols g xs ys zs 0) (mapCols g xs ys zs 1) (mapCols g xs ys zs 2) :=
  ⟨by simp [mapCols, hc.1], by simp [mapCols, hc.1], by simp [mapCols, hc.1]⟩

theorem pos_mapCols (g : List K → List K) (hlen : ∀ a, a.length = 3 → (g a).length = 3) {n : Nat} {xs ys zs : List K}
    (hc : RefineLmGeo.Cols n xs ys zs) (i : Int) (hi : VI n i) :
    pos (mapCols g xs ys zs 0) (mapCols g xs ys zs 1) (mapCols g xs ys zs 2) i = g (pos xs ys zs i) := by
  obtain ⟨h0, h1⟩ := hi
  have hlt : i.toNat < xs.length := by rw [hc.1]; omega
  have hi' : ((i.toNat : Nat) : Int) = i := by omega
  have hcol : ∀ j, (mapCols g xs ys zs j).getD i.toNat default = (g (pos xs ys zs i)).getD j default := by
    intro j
    unfold mapCols
    rw [List.getD_eq_getElem?_getD, List.getElem?_map, List.getElem?_range hlt, Option.map_some, Option.getD_some, hi']
  have h3 := hlen (pos xs ys zs i) (by simp [pos])
  obtain ⟨x, y, z, hxyz⟩ := List.length_eq_three.mp h3
  show [_, _, _] = _
  rw [hcol 0, hcol 1, hcol 2, hxyz]
  rfl

theorem distRel_of_rows {φ : K → K} {norm : List K → K} {g : List K → List K} (hg : RowRel φ norm 3 g) {n : Nat} {xs ys zs : List K}
    (hc : RefineLmGeo.Cols n xs ys zs) :
    DistRel φ norm n xs ys zs (mapCols g xs ys zs 0) (mapCols g xs ys zs 1) (mapCols g xs ys zs 2) := by
  intro a b ha hb
  unfold dist
  rw [pos_mapCols g hg.len hc a ha, pos_mapCols g hg.len hc b hb]
  exact hg.dist _ _ (by simp [pos]) (by simp [pos])

theorem angleRel_of_rows (angle : List K → List K → Option K) {g : List K → List K} (hlen : ∀ a, a.length = 3 → (g a).length = 3)
    (hang : ∀ u v w : List K, u.length = 3 → v.length = 3 → w.length = 3 →
      angle (vsub (g u) (g w)) (vsub (g v) (g w)) = angle (vsub u w) (vsub v w)) {n : Nat} {xs ys zs : List K}
    (hc : RefineLmGeo.Cols n xs ys zs) :
    AngleRel angle n xs ys zs (mapCols g xs ys zs 0) (mapCols g xs ys zs 1) (mapCols g xs ys zs 2) := by
  intro a b c ha hb hc'
  rw [pos_mapCols g hlen hc a ha, pos_mapCols g hlen hc b hb, pos_mapCols g hlen hc c hc']
  exact hang _ _ _ (by simp [pos]) (by simp [pos]) (by simp [pos])
end generic

/-! ## renumbering: the generated topological counts -/
section relabel

theorem tableKids_length_count (q : Int) : ∀ (ids pids : List Int), ids.length = pids.length → (tableKids ids pids q).length = pids.count q := by
  intro ids
  induction ids with
  | nil => intro pids h; cases pids with
    | nil => rfl
    | cons p ps => simp at h
  | cons i is ih =>
    intro pids h
    cases pids with
    | nil => simp at h
    | cons p ps =>
      have := ih ps (by simpa using h)
      by_cases hpq : p = q
      · simp [tableKids, hpq, this]
      · simp [tableKids, hpq, this, List.count_cons_of_ne hpq]

/-- a renumbering `σ` (injective, permuting the ids `0 .. n-1`) carries the parent column `pids` to `pids'` when `pids'` is, as a multiset, the
`σ`-image of `pids` — the table rows `(σ i, σ pids[i])` in any order (with `σ (-1) = -1` for the root row) -/
structure Renumbered (σ : Int → Int) (pids pids' : List Int) : Prop where
  inj : Function.Injective σ
  ids : ((Sub.rangeI pids.length).map σ).Perm (Sub.rangeI pids.length)
  par : pids'.Perm (pids.map σ)

theorem Renumbered.len {σ : Int → Int} {pids pids' : List Int} (h : Renumbered σ pids pids') : pids'.length = pids.length := by
  simpa using h.par.length_eq

theorem Renumbered.kids_len {σ : Int → Int} {pids pids' : List Int} (h : Renumbered σ pids pids') (i : Int) :
    (tableKids (Sub.rangeI pids'.length) pids' (σ i)).length = (tableKids (Sub.rangeI pids.length) pids i).length := by
  rw [tableKids_length_count _ _ _ (by simp [Sub.rangeI]), tableKids_length_count _ _ _ (by simp [Sub.rangeI]), h.par.count_eq]
  have : ∀ l : List Int, (l.map σ).count (σ i) = l.count i := by
    intro l
    induction l with
    | nil => rfl
    | cons x xs ih => simp [List.count_cons, ih, h.inj.eq_iff]
  exact this pids

/-- the number of ids whose number of children satisfies `P` does not depend on the numbering -/
theorem Renumbered.count_kids {σ : Int → Int} {pids pids' : List Int} (h : Renumbered σ pids pids') (P : Nat → Bool) :
    ((Sub.rangeI pids'.length).filter fun i => P (tableKids (Sub.rangeI pids'.length) pids' i).length).length =
    ((Sub.rangeI pids.length).filter fun i => P (tableKids (Sub.rangeI pids.length) pids i).length).length := by
  rw [h.len]
  have h1 := (h.ids.filter fun i => P (tableKids (Sub.rangeI pids'.length) pids' i).length).length_eq
  rw [h.len] at h1
  rw [← h1, List.filter_map, List.length_map]
  congr 2
  funext i
  simp only [Function.comp]
  have := h.kids_len i
  rw [h.len] at this
  rw [this]
end relabel

/-! ## ordered fields: `s * ·` is `Homog`; the Euclidean norm as `ψ (x² + y² + z²)` and the matrices GENERATED from the source -/
section field
variable {K : Type} [Field K] [LinearOrder K] [IsStrictOrderedRing K] [Inhabited K]

/-- **uniform scaling**: multiplication by `s > 0` in an ordered field whose `Py.Fld` division is the field division -/
theorem Homog.scale (F : Py.Fld K) (hF : ∀ a b : K, F.div a b = a / b) (s : K) (hs : 0 < s) : Homog F (fun x : K => s * x) where
  zero := mul_zero s
  add := mul_add s
  neg := fun x => ⟨fun h => by
    by_contra hx
    have := mul_nonneg hs.le (not_lt.mp hx)
    exact absurd h (not_lt.mpr this), fun h => mul_neg_of_pos_of_neg hs h⟩
  pos := fun x => ⟨fun h => by
    by_contra hx
    have := mul_nonpos_of_nonneg_of_nonpos hs.le (not_lt.mp hx)
    exact absurd h (not_lt.mpr this), fun h => mul_pos hs h⟩
  div := fun a b => by rw [hF, hF, mul_div_mul_left a b hs.ne']

theorem scale_le (s : K) (hs : 0 < s) (a b : K) : s * a ≤ s * b ↔ a ≤ b :=
  ⟨fun h => le_of_mul_le_mul_left h hs, fun h => mul_le_mul_of_nonneg_left h hs.le⟩
theorem scale_lt (s : K) (hs : 0 < s) (a b : K) : s * a < s * b ↔ a < b :=
  ⟨fun h => lt_of_mul_lt_mul_left h hs.le, fun h => mul_lt_mul_of_pos_left h hs⟩

/-- squared Euclidean length of a 3-vector -/
def sq3 (v : List K) : K := match v with
  | [x, y, z] => x * x + y * y + z * z
  | _ => 0

/-- a map on points `K × K × K` (e.g. `Gen.Affine.applyPoint M`) as a map on coordinate rows -/
def liftPt (f : K → K → K → K × K × K) (v : List K) : List K := match v with
  | [x, y, z] => [(f x y z).1, (f x y z).2.1, (f x y z).2.2]
  | _ => v

/-- a point map that multiplies all squared distances by `c`, read on rows, multiplies `norm = ψ ∘ sq3` of differences by `φ` as soon as
`ψ (c * q) = φ (ψ q)` (for `ψ` the square root: `c = 1`, `φ = id` for a rigid motion; `c = s²`, `φ = s * ·` for a scaling by `s ≥ 0`) -/
theorem rowRel_of_d2 (ψ : K → K) (φ : K → K) (c : K) (hψ : ∀ q, ψ (c * q) = φ (ψ q)) (f : K → K → K → K × K × K)
    (hf : ∀ x y z x' y' z', C12.d2 (f x y z) (f x' y' z') = c * C12.d2 (x, y, z) (x', y', z')) :
    RowRel φ (fun v => ψ (sq3 v)) 3 (liftPt f) := by
  refine ⟨?_, ?_⟩
  · intro a ha
    obtain ⟨x, y, z, rfl⟩ := List.length_eq_three.mp ha
    rfl
  · intro a b ha hb
    obtain ⟨x, y, z, rfl⟩ := List.length_eq_three.mp ha
    obtain ⟨x', y', z', rfl⟩ := List.length_eq_three.mp hb
    show ψ _ = φ (ψ _)
    rw [← hψ]
    congr 1
    have := hf x y z x' y' z'
    simp only [C12.d2] at this
    simp only [liftPt, sq3, List.zipWith_cons_cons, List.zipWith_nil_right]
    linear_combination this

/-- **the rigid motions generated from the source** (`Gen/Matrices`: translation, rotations about the x / y / z axis through any centre) are
`RowRel id`: they change no norm of a difference of rows, for the Euclidean norm `ψ (x² + y² + z²)` with ANY `ψ` (the square root) -/
theorem rigid_rowRel (ψ : K → K) (c s cx cy cz tx ty tz : K) (h : c * c + s * s = 1) :
    RowRel (fun x => x) (fun v => ψ (sq3 v)) 3 (liftPt (Gen.Affine.applyPoint (Gen.Mat.translate3d tx ty tz))) ∧
    RowRel (fun x => x) (fun v => ψ (sq3 v)) 3 (liftPt (Gen.Affine.applyPoint (Gen.Affine.aboutRoot (Gen.Mat.rotate3d_x c s) cx cy cz))) ∧
    RowRel (fun x => x) (fun v => ψ (sq3 v)) 3 (liftPt (Gen.Affine.applyPoint (Gen.Affine.aboutRoot (Gen.Mat.rotate3d_y c s) cx cy cz))) ∧
    RowRel (fun x => x) (fun v => ψ (sq3 v)) 3 (liftPt (Gen.Affine.applyPoint (Gen.Affine.aboutRoot (Gen.Mat.rotate3d_z c s) cx cy cz))) := by
  have key := fun x y z x' y' z' => C11.rigid_preserves_distances c s cx cy cz tx ty tz x y z x' y' z' h
  refine ⟨?_, ?_, ?_, ?_⟩ <;> apply rowRel_of_d2 ψ (fun x => x) 1 (fun q => by rw [one_mul]) <;> intro x y z x' y' z' <;> rw [one_mul]
  · exact (key x y z x' y' z').1
  · exact (key x y z x' y' z').2.1
  · exact (key x y z x' y' z').2.2.1
  · exact (key x y z x' y' z').2.2.2

/-- **the uniform scaling generated from the source** (`scale3d s s s`) is `RowRel (s * ·)` for the Euclidean norm `ψ (x² + y² + z²)` whenever
`ψ (s² q) = s ψ q` (the square root and `s ≥ 0`) -/
theorem scale_rowRel (ψ : K → K) (s : K) (hψ : ∀ q, ψ (s * s * q) = s * ψ q) :
    RowRel (fun x => s * x) (fun v => ψ (sq3 v)) 3 (liftPt (Gen.Affine.applyPoint (Gen.Mat.scale3d s s s))) :=
  rowRel_of_d2 ψ (fun x => s * x) (s * s) hψ _ (fun x y z x' y' z' => C11.scale_distances s x y z x' y' z')
end field
end Invar
