import SwcVerif.Props.C10LmGeo
import SwcVerif.Props.C10NodeFeat
import SwcVerif.Props.C10Sholl
import SwcVerif.Props.C10Gen
import SwcVerif.Props.C11
/-! # C11 for the GENERATED measures: lemmas (T33 `invar`)

The generated geometric measures (`Gen/AlgoLmGeo`, `Gen/AlgoNodeFeat`, `Gen/AlgoSholl`) see the coordinates only through `norm` applied to
differences of coordinate rows (their refinement theorems, `Props/C10LmGeo`, `Props/C10NodeFeat`, say so).  Hence: if the coordinates are
replaced by others whose inter-node distances are `φ` of the old ones, with `φ` additive (`Homog`: the identity for a rigid motion,
`s * ·` for a uniform scaling by `s > 0`), every length-type measure becomes `φ` of the old one, and every ratio / count stays. -/
namespace Invar
open LmGeo Gen.Algo

section generic
variable {K : Type} [Inhabited K] [Add K] [Sub K] [Mul K] [OfNat K 0] [OfNat K 1] [LT K] [DecidableLT K] [LE K] [DecidableLE K]

/-- `i` is a node of a table of `n` rows -/
def VI (n : Nat) (i : Int) : Prop := 0 ≤ i ∧ i < (n : Int)

/-- what the measures need of the map `φ` old distance ↦ new distance: additive, and sign-preserving / ratio-preserving (for the zero-length
guards and the ratios).  The identity (rigid motions) and `s * ·`, `s > 0`, in an ordered field (uniform scaling) are instances. -/
structure Homog (F : Py.Fld K) (φ : K → K) : Prop where
  zero : φ 0 = 0
  add : ∀ a b, φ (a + b) = φ a + φ b
  neg : ∀ x, φ x < 0 ↔ x < 0
  pos : ∀ x, 0 < φ x ↔ 0 < x
  div : ∀ a b, F.div (φ a) (φ b) = F.div a b

theorem Homog.id (F : Py.Fld K) : Homog F (fun x : K => x) := ⟨rfl, fun _ _ => rfl, fun _ => Iff.rfl, fun _ => Iff.rfl, fun _ _ => rfl⟩

theorem Homog.fdiv {F : Py.Fld K} {φ : K → K} (h : Homog F φ) (a b : K) : Py.fdiv (φ a) (φ b) = Py.fdiv a b := by
  unfold Py.fdiv
  simp only [h.neg, h.pos, h.div]

theorem sumFrom_rel {α : Type} (φ : K → K) (hadd : ∀ a b, φ (a + b) = φ a + φ b) (f f' : α → K) :
    ∀ (l : List α) (acc : K), (∀ e ∈ l, f' e = φ (f e)) → sumFrom (φ acc) (l.map f') = φ (sumFrom acc (l.map f)) := by
  intro l
  induction l with
  | nil => intro acc _; rfl
  | cons x xs ih =>
    intro acc h
    simp only [List.map_cons, sumFrom, List.foldl_cons]
    rw [h x List.mem_cons_self, ← hadd]
    exact ih _ (fun e he => h e (List.mem_cons_of_mem _ he))

theorem sumFrom0_rel {α : Type} {F : Py.Fld K} {φ : K → K} (h : Homog F φ) (f f' : α → K) (l : List α) (hl : ∀ e ∈ l, f' e = φ (f e)) :
    sumFrom 0 (l.map f') = φ (sumFrom 0 (l.map f)) := by
  have := sumFrom_rel φ h.add f f' l 0 hl
  rwa [h.zero] at this

/-- the distances between the nodes of the new table `xs' ys' zs'` are `φ` of those of the old table -/
def DistRel (φ : K → K) (norm : List K → K) (n : Nat) (xs ys zs xs' ys' zs' : List K) : Prop :=
  ∀ a b : Int, VI n a → VI n b → dist norm xs' ys' zs' a b = φ (dist norm xs ys zs a b)

theorem rootPath_valid {pids : List Int} (hw : C07.WF pids) : ∀ (f : Nat) (k : Int), VI pids.length k →
    ∀ i ∈ Redir.rootPath pids f k, VI pids.length i := by
  intro f
  induction f with
  | zero => intro k hk i hi; simp [Redir.rootPath] at hi; subst hi; exact hk
  | succ f ih =>
    intro k hk i hi
    unfold Redir.rootPath at hi
    split at hi
    · simp at hi; subst hi; exact hk
    · rename_i hne
      simp only [List.mem_cons] at hi
      rcases hi with rfl | hi
      · exact hk
      · refine ih _ ?_ i hi
        obtain ⟨h0, h1⟩ := hk
        have hlt : k.toNat < pids.length := by omega
        have hg : pids.getD k.toNat (-1) = pids[k.toNat] := by simp [List.getD_eq_getElem?_getD, hlt]
        by_cases hz : k.toNat = 0
        · exfalso; apply hne
          have := hw.root
          rw [hg]; simp only [hz]
          rw [List.getElem?_eq_getElem (by omega)] at this
          exact Option.some.inj this
        · rw [hg]; exact (hw.2.1 k.toNat hlt (by omega))

/-! ## the generated L-Measure geometry (`Gen/AlgoLmGeo`): tables as columns -/

theorem steps_valid {n : Nat} {path : List Int} (h : ∀ i ∈ path, VI n i) : ∀ e ∈ steps path, VI n e.1 ∧ VI n e.2 := by
  intro e he
  have := List.of_mem_zip he
  exact ⟨h _ this.1, h _ (List.mem_of_mem_tail this.2)⟩

/-- **PathDistance** of the generated code under a change of coordinates -/
theorem path_distance_rel {F : Py.Fld K} {φ : K → K} (hφ : Homog F φ) (norm : List K → K) {xs ys zs xs' ys' zs' : List K} (pids : List Int)
    (hw : C07.WF pids) (hc : RefineLmGeo.Cols pids.length xs ys zs) (hc' : RefineLmGeo.Cols pids.length xs' ys' zs')
    (hd : DistRel φ norm pids.length xs ys zs xs' ys' zs') (k : Nat) (hk : k < pids.length) (Fu : Nat) :
    lm_path_distance norm (pids.length + 2 + Fu) pids xs' ys' zs' (k : Int) =
      (lm_path_distance norm (pids.length + 2 + Fu) pids xs ys zs (k : Int)).map φ := by
  rw [C10.generated_path_distance norm pids hw hc.1 hc.2 hc.3 k hk Fu, C10.generated_path_distance norm pids hw hc'.1 hc'.2 hc'.3 k hk Fu]
  simp only [Option.map_some]
  congr 1
  apply sumFrom0_rel hφ
  intro e he
  have hv := steps_valid (rootPath_valid hw pids.length (k : Int) ⟨by omega, by omega⟩) e he
  exact hd _ _ hv.1 hv.2

/-- **EucDistance** of the generated code under a change of coordinates (also when it raises) -/
theorem euc_distance_rel {φ : K → K} (norm : List K → K) {xs ys zs xs' ys' zs' : List K} (ids pids types : List Int)
    (hc : RefineLmGeo.Cols pids.length xs ys zs) (hc' : RefineLmGeo.Cols pids.length xs' ys' zs')
    (hd : DistRel φ norm pids.length xs ys zs xs' ys' zs') (k : Nat) (hk : k < pids.length) :
    lm_euc_distance norm ids pids types xs' ys' zs' (k : Int) = (lm_euc_distance norm ids pids types xs ys zs (k : Int)).map φ := by
  have h := C10.generated_euc_distance norm ids pids types hc.1 hc.2 hc.3 k hk
  have h' := C10.generated_euc_distance norm ids pids types hc'.1 hc'.2 hc'.3 k hk
  by_cases ht : types.head? = some Gen.Consts.type_soma
  · rw [h.1 ht, h'.1 ht]
    simp only [Option.map_some]
    congr 1
    exact hd _ _ ⟨by omega, by omega⟩ ⟨by omega, by omega⟩
  · rw [h.2 ht, h'.2 ht]; rfl

theorem branchLength_rel {F : Py.Fld K} {φ : K → K} (hφ : Homog F φ) (norm : List K → K) {n : Nat} {xs ys zs xs' ys' zs' : List K}
    (hd : DistRel φ norm n xs ys zs xs' ys' zs') (br : List Int) (hb : ∀ i ∈ br, VI n i) :
    branchLength norm xs' ys' zs' br = φ (branchLength norm xs ys zs br) := by
  unfold branchLength
  apply sumFrom0_rel hφ
  intro e he
  have := List.of_mem_zip he
  exact hd _ _ (hb _ (List.mem_of_mem_tail this.1)) (hb _ this.2)

/-- **Path.length / Branch_pathlength / Length / Contraction** of the generated code under a change of coordinates: lengths are mapped by `φ`,
the contraction (a ratio) is unchanged (also when it raises) -/
theorem branch_measures_rel {F : Py.Fld K} {φ : K → K} (hφ : Homog F φ) (norm : List K → K) {n : Nat} {xs ys zs xs' ys' zs' : List K}
    (hc : RefineLmGeo.Cols n xs ys zs) (hc' : RefineLmGeo.Cols n xs' ys' zs') (hd : DistRel φ norm n xs ys zs xs' ys' zs')
    (br : List Int) (hb : ∀ i ∈ br, VI n i) :
    path_length norm xs' ys' zs' br = (path_length norm xs ys zs br).map φ ∧
    lm_branch_pathlength norm xs' ys' zs' br = (lm_branch_pathlength norm xs ys zs br).map φ ∧
    lm_length norm xs' ys' zs' br = (lm_length norm xs ys zs br).map φ ∧
    lm_contraction F norm xs' ys' zs' br = lm_contraction F norm xs ys zs br := by
  have hr : ∀ i ∈ br, 0 ≤ i ∧ i < (n : Int) := hb
  have rs : ∀ (r : K) (x : K), some r = (some x).map φ ↔ r = φ x := by intro r x; simp
  have e := branchLength_rel hφ norm hd br hb
  refine ⟨?_, ?_, ?_, ?_⟩
  · rw [RefineLmGeo.pathLength_refines norm hc br hr, RefineLmGeo.pathLength_refines norm hc' br hr, e]; rfl
  · rw [RefineLmGeo.branchPathlength_refines norm hc br hr, RefineLmGeo.branchPathlength_refines norm hc' br hr, e]; rfl
  · rw [RefineLmGeo.length_refines norm hc br hr, RefineLmGeo.length_refines norm hc' br hr, e]; rfl
  · rw [RefineLmGeo.contraction_refines F norm hc br hr, RefineLmGeo.contraction_refines F norm hc' br hr]
    unfold contraction
    cases h1 : br.head? with
    | none => rfl
    | some a =>
      cases h2 : br.getLast? with
      | none => rfl
      | some b =>
        simp only []
        rw [e, hd a b (hb a (List.mem_of_mem_head? h1)) (hb b (List.mem_of_mem_getLast? h2)), hφ.fdiv]
end generic
end Invar
