import Mathlib.Logic.Relation
import Mathlib.Data.List.Basic
/-! Graph lemmas for the exchange argument behind Prim's algorithm (used by `Props/C17.lean`).

A graph is a relation `B` (the edges already chosen — they stay inside the cut side `S`) together with a
list `R` of further edges (ordered pairs, read as undirected).  `Adj B R` is the union.  The lemmas say:
a walk that leaves `S` uses a crossing edge (`exists_crossing`), removing one edge splits a walk at most
at that edge (`walk_erase`), and among the crossing edges of `R` there is one on a cycle through any given
crossing edge `(i, j)` we add (`exists_exchange`). -/
namespace Graph
open Relation

/-- `(x, y)` is in the list in one of the two orientations -/
def adjL (R : List (Nat × Nat)) (x y : Nat) : Prop := (x, y) ∈ R ∨ (y, x) ∈ R

def Adj (B : Nat → Nat → Prop) (R : List (Nat × Nat)) (x y : Nat) : Prop := B x y ∨ adjL R x y

theorem adjL_symm {R : List (Nat × Nat)} {x y : Nat} (h : adjL R x y) : adjL R y x := h.symm

theorem Adj_symm {B : Nat → Nat → Prop} (hB : ∀ x y, B x y → B y x) {R : List (Nat × Nat)} {x y : Nat}
    (h : Adj B R x y) : Adj B R y x := h.elim (fun h => Or.inl (hB _ _ h)) (fun h => Or.inr h.symm)

theorem rtg_symm {A : Nat → Nat → Prop} (hA : ∀ x y, A x y → A y x) {x y : Nat}
    (h : ReflTransGen A x y) : ReflTransGen A y x := by
  induction h with
  | refl => exact ReflTransGen.refl
  | tail _ hbc ih => exact ReflTransGen.head (hA _ _ hbc) ih

theorem rtg_mono {A A' : Nat → Nat → Prop} (h : ∀ x y, A x y → A' x y) {x y : Nat}
    (hxy : ReflTransGen A x y) : ReflTransGen A' x y := ReflTransGen.mono h _ _ hxy

/-- a walk from inside `S` to outside `S` uses a crossing edge, and reaches it by edges inside `S` -/
theorem exists_crossing {A : Nat → Nat → Prop} (S : Nat → Prop) {i j : Nat}
    (h : ReflTransGen A i j) (hi : S i) (hj : ¬ S j) :
    ∃ a b, S a ∧ ¬ S b ∧ A a b ∧ ReflTransGen (fun x y => A x y ∧ S x ∧ S y) i a := by
  induction h using ReflTransGen.head_induction_on with
  | refl => exact absurd hi hj
  | @head a c hab _ ih =>
    by_cases hc : S c
    · obtain ⟨a', b', h1, h2, h3, h4⟩ := ih hc
      exact ⟨a', b', h1, h2, h3, ReflTransGen.head ⟨hab, hi, hc⟩ h4⟩
    · exact ⟨a, c, hi, hc, hab, ReflTransGen.refl⟩

/-- removing the edge `{a, b}`: a walk either survives or is split at that edge -/
theorem walk_erase {A A' : Nat → Nat → Prop} {a b : Nat}
    (hA : ∀ x y, A x y → A' x y ∨ (x = a ∧ y = b) ∨ (x = b ∧ y = a)) {x y : Nat}
    (h : ReflTransGen A x y) :
    ReflTransGen A' x y ∨ (ReflTransGen A' x a ∧ ReflTransGen A' b y) ∨
      (ReflTransGen A' x b ∧ ReflTransGen A' a y) := by
  induction h with
  | refl => exact Or.inl ReflTransGen.refl
  | @tail c d _ hcd ih =>
    rcases hA c d hcd with h' | ⟨rfl, rfl⟩ | ⟨rfl, rfl⟩
    · rcases ih with h1 | ⟨h1, h2⟩ | ⟨h1, h2⟩
      · exact Or.inl (h1.tail h')
      · exact Or.inr (Or.inl ⟨h1, h2.tail h'⟩)
      · exact Or.inr (Or.inr ⟨h1, h2.tail h'⟩)
    · -- the removed edge, walked from `a` to `b`
      rcases ih with h1 | ⟨h1, _⟩ | ⟨h1, _⟩
      · exact Or.inr (Or.inl ⟨h1, ReflTransGen.refl⟩)
      · exact Or.inr (Or.inl ⟨h1, ReflTransGen.refl⟩)
      · exact Or.inl h1
    · -- the removed edge, walked from `b` to `a`
      rcases ih with h1 | ⟨h1, _⟩ | ⟨h1, _⟩
      · exact Or.inr (Or.inr ⟨h1, ReflTransGen.refl⟩)
      · exact Or.inl h1
      · exact Or.inr (Or.inr ⟨h1, ReflTransGen.refl⟩)

/-- what erasing one occurrence of `f` from the list does to adjacency -/
theorem adjL_erase {R : List (Nat × Nat)} {f : Nat × Nat} {x y : Nat} (h : adjL R x y) :
    adjL (R.erase f) x y ∨ (x = f.1 ∧ y = f.2) ∨ (x = f.2 ∧ y = f.1) := by
  rcases h with h | h
  · by_cases hf : (x, y) = f
    · subst hf; exact Or.inr (Or.inl ⟨rfl, rfl⟩)
    · exact Or.inl (Or.inl ((List.mem_erase_of_ne hf).mpr h))
  · by_cases hf : (y, x) = f
    · subst hf; exact Or.inr (Or.inr ⟨rfl, rfl⟩)
    · exact Or.inl (Or.inr ((List.mem_erase_of_ne hf).mpr h))

theorem adjL_of_erase {R : List (Nat × Nat)} {f : Nat × Nat} {x y : Nat} (h : adjL (R.erase f) x y) :
    adjL R x y := h.elim (fun h => Or.inl (List.mem_of_mem_erase h)) (fun h => Or.inr (List.mem_of_mem_erase h))

/-- **the exchange edge**: if `i ∈ S` and `j ∉ S` are joined by a walk in `B ∪ R`, where the edges of `B`
stay inside `S`, then `R` contains a crossing edge `f = {a, b}` such that after removing (one copy of) it
`i` still reaches `a` and `b` still reaches `j` — so adding the edge `{i, j}` closes the gap again. -/
theorem exists_exchange (B : Nat → Nat → Prop) (S : Nat → Prop) (hBS : ∀ x y, B x y → S x ∧ S y) :
    ∀ (m : Nat) (R : List (Nat × Nat)), R.length = m → ∀ i j, S i → ¬ S j → ReflTransGen (Adj B R) i j →
      ∃ f ∈ R, ∃ a b, (f = (a, b) ∨ f = (b, a)) ∧ S a ∧ ¬ S b ∧
        ReflTransGen (Adj B (R.erase f)) i a ∧ ReflTransGen (Adj B (R.erase f)) b j := by
  intro m
  induction m with
  | zero =>
    intro R hR i j hi hj h
    obtain ⟨a, b, ha, hb, hab, _⟩ := exists_crossing S h hi hj
    rcases hab with hab | hab
    · exact absurd (hBS a b hab).2 hb
    · have : R = [] := List.length_eq_zero_iff.mp hR
      subst this
      rcases hab with hab | hab <;> simp at hab
  | succ m ih =>
    intro R hR i j hi hj h
    obtain ⟨a, b, ha, hb, hab, hpre⟩ := exists_crossing S h hi hj
    have habR : adjL R a b := by
      rcases hab with hab | hab
      · exact absurd (hBS a b hab).2 hb
      · exact hab
    -- the copy of the crossing edge that is in the list
    obtain ⟨f, hfR, hfab⟩ : ∃ f ∈ R, (f = (a, b) ∨ f = (b, a)) := by
      rcases habR with h' | h'
      · exact ⟨(a, b), h', Or.inl rfl⟩
      · exact ⟨(b, a), h', Or.inr rfl⟩
    have hne : a ≠ b := fun e => hb (e ▸ ha)
    -- adjacency after the removal
    have hstep : ∀ x y, Adj B R x y → Adj B (R.erase f) x y ∨ (x = a ∧ y = b) ∨ (x = b ∧ y = a) := by
      intro x y hxy
      rcases hxy with hxy | hxy
      · exact Or.inl (Or.inl hxy)
      · rcases adjL_erase (f := f) hxy with h' | h' | h'
        · exact Or.inl (Or.inr h')
        · rcases hfab with rfl | rfl
          · exact Or.inr (Or.inl h')
          · exact Or.inr (Or.inr h')
        · rcases hfab with rfl | rfl
          · exact Or.inr (Or.inr h')
          · exact Or.inr (Or.inl h')
    -- the prefix inside `S` does not use the crossing edge
    have hia : ReflTransGen (Adj B (R.erase f)) i a := by
      refine rtg_mono ?_ hpre
      intro x y ⟨hxy, hx, hy⟩
      rcases hstep x y hxy with h' | ⟨rfl, rfl⟩ | ⟨rfl, rfl⟩
      · exact h'
      · exact absurd hy hb
      · exact absurd hx hb
    -- if `i` still reaches `j` without `f`, look for the exchange edge in the smaller list
    have hrec : ReflTransGen (Adj B (R.erase f)) i j →
        ∃ f ∈ R, ∃ a b, (f = (a, b) ∨ f = (b, a)) ∧ S a ∧ ¬ S b ∧
          ReflTransGen (Adj B (R.erase f)) i a ∧ ReflTransGen (Adj B (R.erase f)) b j := by
      intro hij
      have hlen : (R.erase f).length = m := by
        rw [List.length_erase_of_mem hfR, hR]; rfl
      obtain ⟨f1, hf1, a1, b1, h1, h2, h3, h4, h5⟩ := ih (R.erase f) hlen i j hi hj hij
      have hmono : ∀ x y, Adj B ((R.erase f).erase f1) x y → Adj B (R.erase f1) x y := by
        intro x y hxy
        rcases hxy with hxy | hxy
        · exact Or.inl hxy
        · rw [List.erase_comm] at hxy
          exact Or.inr (adjL_of_erase hxy)
      exact ⟨f1, List.mem_of_mem_erase hf1, a1, b1, h1, h2, h3, rtg_mono hmono h4,
        rtg_mono hmono h5⟩
    rcases walk_erase hstep h with h1 | ⟨_, h2⟩ | ⟨_, h2⟩
    · exact hrec h1
    · exact ⟨f, hfR, a, b, hfab, ha, hb, hia, h2⟩
    · exact hrec (hia.trans h2)
end Graph
