import SwcVerif.Proofs.Dsu
import Mathlib.Algebra.BigOperators.Group.List.Basic
import Mathlib.Tactic.Linarith
/-! Pointer jumping (`get_dsu`) on an ARBITRARY forest — any numbering, parents before or after children.

`f` is the initial pointer function (parent, or the node itself for a root).  Acyclicity is given by a
measure `dp` ("depth") that drops along every parent pointer.  The in-place passes keep the invariant "the
label of `i` is a proper ancestor of `i` (or `i` itself when `i` is a root)" and strictly decrease
`Σ dp (label i)` whenever they change anything, so the `while` loop stops within `n² + 1` passes, and at the
fixed point every label is the root of its node's tree. -/
namespace Dsu

def iter (f : Nat → Nat) : Nat → Nat → Nat
  | 0, x => x
  | k+1, x => iter f k (f x)

theorem iter_add (f : Nat → Nat) : ∀ (a b x : Nat), iter f (a + b) x = iter f b (iter f a x)
  | 0, b, x => by simp [iter]
  | a+1, b, x => by
    have : a + 1 + b = (a + b) + 1 := by omega
    rw [this, iter, iter, iter_add f a b]

theorem iter_succ' (f : Nat → Nat) (k x : Nat) : iter f (k + 1) x = f (iter f k x) := by
  rw [iter_add f k 1 x]; rfl

/-- acyclic pointer function on `0..n-1`: `dp` drops along every non-root pointer -/
structure Forest (n : Nat) (f : Nat → Nat) (dp : Nat → Nat) : Prop where
  closed : ∀ i, i < n → f i < n
  drop : ∀ i, i < n → f i = i ∨ dp (f i) < dp i
  bound : ∀ i, i < n → dp i < n

namespace Forest
variable {n : Nat} {f : Nat → Nat} {dp : Nat → Nat}

theorem iter_lt (h : Forest n f dp) : ∀ (k i : Nat), i < n → iter f k i < n
  | 0, i, hi => hi
  | k+1, i, hi => iter_lt h k (f i) (h.closed i hi)

theorem iter_root (h : Forest n f dp) (i : Nat) (hr : f i = i) : ∀ k, iter f k i = i
  | 0 => rfl
  | k+1 => by rw [iter, hr, iter_root h i hr k]

/-- going up never increases the depth, and strictly decreases it unless we stay where we are -/
theorem dp_iter (h : Forest n f dp) : ∀ (k i : Nat), i < n →
    dp (iter f k i) ≤ dp i ∧ (iter f k i ≠ i → dp (iter f k i) < dp i)
  | 0, i, _ => ⟨Nat.le_refl _, fun hne => absurd rfl hne⟩
  | k+1, i, hi => by
    rw [iter]
    rcases h.drop i hi with hr | hd
    · rw [hr]; exact dp_iter h k i hi
    · have ih := dp_iter h k (f i) (h.closed i hi)
      exact ⟨by omega, fun _ => by omega⟩

/-- a node that is its own proper ancestor is a root -/
theorem root_of_cycle (h : Forest n f dp) (a : Nat) (ha : a < n) (k : Nat) (hk : 1 ≤ k) (e : iter f k a = a) : f a = a := by
  rcases h.drop a ha with hr | hd
  · exact hr
  · obtain ⟨k', rfl⟩ : ∃ k', k = k' + 1 := ⟨k - 1, by omega⟩
    rw [iter] at e
    have := (dp_iter h k' (f a) (h.closed a ha)).1
    rw [e] at this
    omega

/-- the root of `i`'s tree: `dp i` steps up -/
def rootFn (f : Nat → Nat) (dp : Nat → Nat) (i : Nat) : Nat := iter f (dp i) i

theorem rootFn_is_root (h : Forest n f dp) : ∀ (d i : Nat), i < n → dp i ≤ d → f (iter f d i) = iter f d i := by
  intro d
  induction d with
  | zero =>
    intro i hi hd
    rcases h.drop i hi with hr | hlt
    · exact hr
    · omega
  | succ d ih =>
    intro i hi hd
    rw [iter]
    rcases h.drop i hi with hr | hlt
    · rw [hr, iter_root h i hr d]; exact hr
    · exact ih (f i) (h.closed i hi) (by omega)

/-- every ancestor that is a root is THE root -/
theorem root_unique (h : Forest n f dp) (i : Nat) (hi : i < n) (k : Nat) (hr : f (iter f k i) = iter f k i) :
    iter f k i = rootFn f dp i := by
  unfold rootFn
  have hroot := rootFn_is_root h (dp i) i hi (Nat.le_refl _)
  rcases Nat.le_total k (dp i) with hle | hle
  · obtain ⟨m, hm⟩ : ∃ m, dp i = k + m := ⟨dp i - k, by omega⟩
    rw [hm, iter_add, iter_root h _ hr m]
  · obtain ⟨m, hm⟩ : ∃ m, k = dp i + m := ⟨k - dp i, by omega⟩
    rw [hm, iter_add, iter_root h _ hroot m]

end Forest

/-- the labels are proper ancestors (roots: themselves) -/
def Anc (n : Nat) (f g : Nat → Nat) : Prop := ∀ i, i < n → ∃ k, 1 ≤ k ∧ g i = iter f k i

theorem anc_step {n : Nat} {f dp g : Nat → Nat} (h : Forest n f dp) (ha : Anc n f g) (i : Nat) (hi : i < n) :
    Anc n f (updN g i (g (g i))) := by
  intro j hj
  by_cases hji : j = i
  · subst hji
    rw [updN_same]
    obtain ⟨k, hk, e⟩ := ha j hj
    have hgj : g j < n := by rw [e]; exact h.iter_lt k j hj
    obtain ⟨k', hk', e'⟩ := ha (g j) hgj
    exact ⟨k + k', by omega, by rw [e', e, ← iter_add]⟩
  · rw [updN_other _ _ _ _ hji]; exact ha j hj

/-- total depth of the labels -/
def total (dp g : Nat → Nat) (n : Nat) : Nat := ((List.range n).map fun i => dp (g i)).sum

theorem total_upd_le {dp g : Nat → Nat} (n i v : Nat) (hi : i < n) (hv : dp v ≤ dp (g i)) :
    total dp (updN g i v) n + (dp (g i) - dp v) = total dp g n := by
  unfold total
  induction n with
  | zero => omega
  | succ n ih =>
    rw [List.range_succ, List.map_append, List.map_append, List.sum_append, List.sum_append]
    simp only [List.map_cons, List.map_nil, List.sum_cons, List.sum_nil, Nat.add_zero]
    by_cases hin : i = n
    · subst hin
      rw [updN_same]
      have : (List.range i).map (fun j => dp (updN g i v j)) = (List.range i).map (fun j => dp (g j)) := by
        apply List.map_congr_left
        intro j hj
        rw [updN_other _ _ _ _ (by have := List.mem_range.mp hj; omega)]
      rw [this]; omega
    · rw [updN_other _ _ _ _ (Ne.symm hin)]
      have := ih (by omega)
      omega

/-- one step of a pass: invariant kept, total depth not increased, strictly decreased when the step fires -/
theorem jumpStep_forest {n : Nat} {f dp g : Nat → Nat} (h : Forest n f dp) {acc : List Nat × Bool} {i : Nat}
    (ht : Tab acc.1 n g) (ha : Anc n f g) (hi : i < n) :
    ∃ g', Tab (jumpStep acc i).1 n g' ∧ Anc n f g' ∧ total dp g' n ≤ total dp g n ∧
      ((jumpStep acc i).2 = false → acc.2 = false ∨ total dp g' n < total dp g n) ∧
      ((jumpStep acc i).2 = true → acc.2 = true) := by
  obtain ⟨k, hk, e⟩ := ha i hi
  have hgi : g i < n := by rw [e]; exact h.iter_lt k i hi
  obtain ⟨k', hk', e'⟩ := ha (g i) hgi
  refine ⟨updN g i (g (g i)), jumpStep_tab ht hi hgi, anc_step h ha i hi, ?_, ?_, ?_⟩
  · have hle : dp (g (g i)) ≤ dp (g i) := by rw [e']; exact (h.dp_iter k' (g i) hgi).1
    have := total_upd_le (dp := dp) (g := g) n i (g (g i)) hi hle
    omega
  · intro hf
    have e1 : acc.1.getD i 0 = g i := ht.2 i hi
    have e2 : acc.1.getD (g i) 0 = g (g i) := ht.2 (g i) hgi
    unfold jumpStep at hf
    rw [e1, e2] at hf
    by_cases hp : g i ≠ g (g i)
    · right
      have hlt : dp (g (g i)) < dp (g i) := by
        rw [e']; exact (h.dp_iter k' (g i) hgi).2 (by rw [← e']; exact fun x => hp x.symm)
      have := total_upd_le (dp := dp) (g := g) n i (g (g i)) hi hlt.le
      omega
    · left; rw [if_neg hp] at hf; exact hf
  · intro ht'
    unfold jumpStep at ht'
    split at ht'
    · simp at ht'
    · exact ht'

theorem jumpFold_forest {n : Nat} {f dp : Nat → Nat} (h : Forest n f dp) :
    ∀ (is : List Nat) (acc : List Nat × Bool) (g : Nat → Nat), (∀ i ∈ is, i < n) → Tab acc.1 n g → Anc n f g →
      ∃ g', Tab (is.foldl jumpStep acc).1 n g' ∧ Anc n f g' ∧ total dp g' n ≤ total dp g n ∧
        ((is.foldl jumpStep acc).2 = false → acc.2 = false ∨ total dp g' n < total dp g n) := by
  intro is
  induction is with
  | nil => intro acc g _ ht ha; exact ⟨g, ht, ha, Nat.le_refl _, fun hf => Or.inl hf⟩
  | cons i t ih =>
    intro acc g his ht ha
    obtain ⟨g1, t1, a1, le1, f1, tr1⟩ := jumpStep_forest h ht ha (his i List.mem_cons_self)
    obtain ⟨g2, t2, a2, le2, f2⟩ := ih (jumpStep acc i) g1 (fun j hj => his j (List.mem_cons_of_mem _ hj)) t1 a1
    rw [List.foldl_cons]
    refine ⟨g2, t2, a2, by omega, ?_⟩
    intro hf
    rcases f2 hf with hff | hlt
    · rcases f1 hff with h' | h'
      · exact Or.inl h'
      · exact Or.inr (by omega)
    · exact Or.inr (by omega)

/-- **the loop stops, at the labelling "root of my tree"** -/
theorem jumpLoop_forest {n : Nat} {f dp : Nat → Nat} (h : Forest n f dp) :
    ∀ (fuel : Nat) (l : List Nat) (g : Nat → Nat), Tab l n g → Anc n f g → total dp g n < fuel →
      jumpLoop fuel l = some ((List.range n).map (Forest.rootFn f dp)) := by
  intro fuel
  induction fuel with
  | zero => intro l g _ _ hlt; omega
  | succ fuel ih =>
    intro l g ht ha hlt
    obtain ⟨g', t', a', le', f'⟩ := jumpFold_forest h (List.range l.length) (l, true) g
      (fun i hi => by rw [ht.1] at hi; exact List.mem_range.mp hi) ht ha
    rw [← jumpPass_eq] at t' f'
    simp only [jumpLoop]
    by_cases hflag : (jumpPass l).2 = true
    · rw [if_pos hflag]
      obtain ⟨e, hfix⟩ := jumpPass_true l hflag
      -- fixed point + ancestors ⇒ roots
      rw [e]
      congr 1
      apply List.ext_getElem
      · simp [ht.1]
      · intro j h1 h2
        have hj : j < n := by rw [ht.1] at h1; exact h1
        simp only [List.getElem_map, List.getElem_range]
        have hlj : l[j] = g j := by
          have := ht.2 j hj
          simpa [List.getD_eq_getElem?_getD, h1] using this
        obtain ⟨k, hk, ek⟩ := ha j hj
        have hgj : g j < n := by rw [ek]; exact h.iter_lt k j hj
        have hfx : g (g j) = g j := by
          have := hfix j h1
          rw [hlj, ht.2 (g j) hgj] at this
          exact this
        obtain ⟨k', hk', ek'⟩ := ha (g j) hgj
        have hroot : f (g j) = g j := h.root_of_cycle (g j) hgj k' hk' (by rw [← ek', hfx])
        rw [hlj, ek]
        exact h.root_unique j hj k (by rw [← ek]; exact hroot)
    · rw [if_neg hflag]
      have hff : (jumpPass l).2 = false := by
        cases hb : (jumpPass l).2 with
        | true => exact absurd hb hflag
        | false => rfl
      rcases f' hff with h0 | hdec
      · simp at h0
      · exact ih _ g' t' a' (by omega)

end Dsu
