import SwcVerif.Model.SwcText
/-! Helper lemmas about the SWC text models (shared by Props/C01 and Props/C02). -/
namespace SwcText

/-! ## characters -/

theorem lt10_cases (d : Nat) (h : d < 10) :
    d = 0 ∨ d = 1 ∨ d = 2 ∨ d = 3 ∨ d = 4 ∨ d = 5 ∨ d = 6 ∨ d = 7 ∨ d = 8 ∨ d = 9 := by omega

theorem isDig_digitChar (d : Nat) (h : d < 10) : isDig (digitChar d) = true := by
  rcases lt10_cases d h with h|h|h|h|h|h|h|h|h|h <;> subst h <;> decide

theorem digVal_digitChar (d : Nat) (h : d < 10) : digVal (digitChar d) = d := by
  rcases lt10_cases d h with h|h|h|h|h|h|h|h|h|h <;> subst h <;> decide

/-- a digit is none of the other characters the recognisers look at -/
theorem isDig_ne (c : Char) (h : isDig c = true) :
    c ≠ '.' ∧ c ≠ '-' ∧ c ≠ '+' ∧ c ≠ 'e' ∧ c ≠ 'E' ∧ c ≠ '#' ∧ c ≠ '\n' ∧ isWs c = false := by
  refine ⟨?_, ?_, ?_, ?_, ?_, ?_, ?_, ?_⟩
  · rintro rfl; revert h; decide
  · rintro rfl; revert h; decide
  · rintro rfl; revert h; decide
  · rintro rfl; revert h; decide
  · rintro rfl; revert h; decide
  · rintro rfl; revert h; decide
  · rintro rfl; revert h; decide
  · cases hw : isWs c with
    | false => rfl
    | true =>
      exfalso
      simp only [isWs, Bool.or_eq_true, decide_eq_true_eq] at hw
      rcases hw with (((((((((rfl|rfl)|rfl)|rfl)|rfl)|rfl)|rfl)|rfl)|rfl)|rfl) <;> revert h <;> decide

/-- a whitespace character is none of the characters a number can contain, nor `#` -/
theorem isWs_ne (c : Char) (h : isWs c = true) :
    isDig c = false ∧ c ≠ '.' ∧ c ≠ '-' ∧ c ≠ '+' ∧ c ≠ 'e' ∧ c ≠ 'E' ∧ c ≠ '#' := by
  simp only [isWs, Bool.or_eq_true, decide_eq_true_eq] at h
  rcases h with (((((((((rfl|rfl)|rfl)|rfl)|rfl)|rfl)|rfl)|rfl)|rfl)|rfl) <;> decide

/-! ## head conditions -/

/-- `rest` is empty or starts with a non-digit -/
def NoDig (rest : Str) : Prop := ∀ c, rest.head? = some c → isDig c = false
/-- `rest` is empty or starts with a character no number token can continue with -/
def NoNum (rest : Str) : Prop :=
  ∀ c, rest.head? = some c → isDig c = false ∧ c ≠ '.' ∧ c ≠ 'e' ∧ c ≠ 'E' ∧ c ≠ '+' ∧ c ≠ '-'
/-- `rest` is empty or starts with a whitespace character -/
def WsHead (rest : Str) : Prop := ∀ c, rest.head? = some c → isWs c = true
/-- `rest` is empty or starts with a non-whitespace character -/
def NoWsHead (rest : Str) : Prop := ∀ c, rest.head? = some c → isWs c = false

theorem WsHead.noNum {rest : Str} (h : WsHead rest) : NoNum rest := by
  intro c hc
  have := isWs_ne c (h c hc)
  exact ⟨this.1, this.2.1, this.2.2.2.2.1, this.2.2.2.2.2.1, this.2.2.2.1, this.2.2.1⟩
theorem NoNum.noDig {rest : Str} (h : NoNum rest) : NoDig rest := fun c hc => (h c hc).1
theorem WsHead.noDig {rest : Str} (h : WsHead rest) : NoDig rest := h.noNum.noDig
theorem noNum_nil : NoNum [] := by intro c hc; simp at hc
theorem noDig_nil : NoDig [] := by intro c hc; simp at hc
theorem wsHead_nil : WsHead [] := by intro c hc; simp at hc
theorem wsHead_cons {c : Char} {cs : Str} (h : isWs c = true) : WsHead (c :: cs) := by
  intro d hd; simp at hd; subst hd; exact h
theorem wsHead_append {w s : Str} (hw : w ≠ []) (h : ∀ c ∈ w, isWs c = true) : WsHead (w ++ s) := by
  cases w with
  | nil => exact absurd rfl hw
  | cons c cs => exact wsHead_cons (h c (by simp))

/-! ## dropWs / needWs -/

theorem dropWs_of_noWsHead (s : Str) (h : NoWsHead s) : dropWs s = s := by
  cases s with
  | nil => rfl
  | cons c cs => simp [dropWs, h c rfl]

theorem dropWs_append (w s : Str) (hw : ∀ c ∈ w, isWs c = true) (h : NoWsHead s) : dropWs (w ++ s) = s := by
  induction w with
  | nil => exact dropWs_of_noWsHead s h
  | cons c cs ih =>
    simp only [List.cons_append, dropWs, hw c (by simp), if_true]
    exact ih (fun d hd => hw d (by simp [hd]))

theorem dropWs_allWs (w : Str) (hw : ∀ c ∈ w, isWs c = true) : dropWs w = [] := by
  simpa using dropWs_append w [] hw (by intro c hc; simp at hc)

theorem needWs_append (w s : Str) (hne : w ≠ []) (hw : ∀ c ∈ w, isWs c = true) (h : NoWsHead s) :
    needWs (w ++ s) = some s := by
  cases w with
  | nil => exact absurd rfl hne
  | cons c cs =>
    simp only [List.cons_append, needWs, hw c (by simp), if_true]
    rw [dropWs_append cs s (fun d hd => hw d (by simp [hd])) h]

theorem noWsHead_dropWs (s : Str) : NoWsHead (dropWs s) := by
  induction s with
  | nil => intro c hc; simp [dropWs] at hc
  | cons c cs ih =>
    simp only [dropWs]
    split
    · exact ih
    · rename_i h; intro d hd; simp at hd; subst hd; simpa using h

theorem dropWs_idem (s : Str) : dropWs (dropWs s) = dropWs s :=
  dropWs_of_noWsHead _ (noWsHead_dropWs s)

theorem mem_dropWs {s : Str} {c : Char} (h : c ∈ dropWs s) : c ∈ s := by
  induction s with
  | nil => simp [dropWs] at h
  | cons d ds ih =>
    simp only [dropWs] at h
    split at h
    · exact List.mem_cons_of_mem _ (ih h)
    · exact h

/-! ## takeDigs / natOf -/

theorem takeDigs_append (s rest : Str) (h : NoDig rest) :
    takeDigs (s ++ rest) = ((takeDigs s).1, (takeDigs s).2 ++ rest) := by
  induction s with
  | nil =>
    cases rest with
    | nil => simp [takeDigs]
    | cons c cs => have := h c rfl; simp [takeDigs, this]
  | cons c cs ih =>
    simp only [List.cons_append, takeDigs]
    split <;> simp [ih]

theorem takeDigs_allDig (ds : Str) (h : ∀ c ∈ ds, isDig c = true) : takeDigs ds = (ds, []) := by
  induction ds with
  | nil => rfl
  | cons c cs ih =>
    simp [takeDigs, h c (by simp), ih (fun d hd => h d (by simp [hd]))]

theorem takeDigs_digs_append (ds rest : Str) (h : ∀ c ∈ ds, isDig c = true) (hr : NoDig rest) :
    takeDigs (ds ++ rest) = (ds, rest) := by
  rw [takeDigs_append _ _ hr, takeDigs_allDig ds h]; simp

theorem takeDigs_fst_allDig (s : Str) : ∀ c ∈ (takeDigs s).1, isDig c = true := by
  induction s with
  | nil => simp [takeDigs]
  | cons c cs ih =>
    simp only [takeDigs]
    split
    · rename_i h; intro d hd; simp at hd; rcases hd with rfl | hd
      · exact h
      · exact ih d hd
    · simp

theorem takeDigs_eq_append (s : Str) : (takeDigs s).1 ++ (takeDigs s).2 = s := by
  induction s with
  | nil => simp [takeDigs]
  | cons c cs ih =>
    simp only [takeDigs]
    split <;> simp [ih]

theorem foldl_natOf (ds : Str) (acc : Nat) :
    ds.foldl (fun a c => a * 10 + digVal c) acc = acc * 10 ^ ds.length + natOf ds := by
  induction ds generalizing acc with
  | nil => simp [natOf]
  | cons c cs ih =>
    simp only [natOf, List.foldl_cons, List.length_cons]
    rw [ih, ih (0 * 10 + digVal c)]
    simp only [natOf, Nat.pow_succ]
    grind

theorem natOf_append (a b : Str) : natOf (a ++ b) = natOf a * 10 ^ b.length + natOf b := by
  simp only [natOf, List.foldl_append]
  exact foldl_natOf b _

theorem natOf_cons (c : Char) (cs : Str) : natOf (c :: cs) = digVal c * 10 ^ cs.length + natOf cs := by
  have := natOf_append [c] cs
  simpa [natOf] using this

theorem natOf_singleton (c : Char) : natOf [c] = digVal c := by simp [natOf]

/-! ## digits / pad4 -/

theorem digits_allDig (n : Nat) : ∀ c ∈ digits n, isDig c = true := by
  induction n using Nat.strongRecOn with
  | _ n ih =>
    intro c hc
    rw [digits] at hc
    split at hc
    · rename_i h; simp at hc; subst hc; exact isDig_digitChar n h
    · rename_i h
      simp at hc
      rcases hc with hc | hc
      · exact ih (n/10) (by omega) c hc
      · subst hc; exact isDig_digitChar _ (by omega)

theorem digits_ne_nil (n : Nat) : digits n ≠ [] := by
  rw [digits]; split <;> simp

theorem natOf_digits (n : Nat) : natOf (digits n) = n := by
  induction n using Nat.strongRecOn with
  | _ n ih =>
    rw [digits]
    split
    · rename_i h; simp [natOf_singleton, digVal_digitChar n h]
    · rename_i h
      rw [natOf_append, ih (n/10) (by omega)]
      simp [natOf_singleton, digVal_digitChar (n % 10) (by omega)]
      omega

theorem pad4_allDig (m : Nat) : ∀ c ∈ pad4 m, isDig c = true := by
  intro c hc
  simp only [pad4, List.mem_cons, List.not_mem_nil, or_false] at hc
  rcases hc with rfl|rfl|rfl|rfl <;> exact isDig_digitChar _ (by omega)

theorem pad4_length (m : Nat) : (pad4 m).length = 4 := rfl

theorem natOf_pad4 (m : Nat) (h : m < 10000) : natOf (pad4 m) = m := by
  simp [pad4, natOf, digVal_digitChar _ (Nat.mod_lt _ (by decide : 10 > 0))]
  omega

/-! ## token stability: appending text that cannot continue a number -/

theorem optSign_other (c : Char) (cs : Str) (hp : c ≠ '+') (hm : c ≠ '-') :
    optSign (c :: cs) = (false, c :: cs) := by
  unfold optSign; split
  · rename_i heq; simp at heq; exact absurd heq.1 hp
  · rename_i heq; simp at heq; exact absurd heq.1 hm
  · rfl

theorem optSign_append (s rest : Str) (h : NoNum rest) :
    optSign (s ++ rest) = ((optSign s).1, (optSign s).2 ++ rest) := by
  cases s with
  | nil =>
    cases rest with
    | nil => rfl
    | cons c cs =>
      obtain ⟨-, -, -, -, hp, hm⟩ := h c rfl
      simp only [List.nil_append]
      rw [optSign_other c cs hp hm]; rfl
  | cons c cs =>
    by_cases hp : c = '+'
    · subst hp; rfl
    · by_cases hm : c = '-'
      · subst hm; rfl
      · simp [optSign_other _ _ hp hm]

theorem optSign_of_dig (c : Char) (cs : Str) (h : isDig c = true) : optSign (c :: cs) = (false, c :: cs) := by
  obtain ⟨-, hm, hp, -⟩ := isDig_ne c h
  exact optSign_other c cs hp hm

theorem expPart_append (s rest : Str) (h : NoNum rest) :
    expPart (s ++ rest) = ((expPart s).1, (expPart s).2 ++ rest) := by
  cases s with
  | nil =>
    cases rest with
    | nil => rfl
    | cons c cs =>
      obtain ⟨-, -, he, hE, -, -⟩ := h c rfl
      simp [expPart, he, hE]
  | cons c cs =>
    simp only [List.cons_append, expPart]
    split
    · rw [optSign_append cs rest h]
      simp only []
      rw [takeDigs_append _ rest h.noDig]
      simp only []
      split <;> simp
    · simp

/-- `(?:[.]\d*)?` -/
def fracPart : Str → Str × Str
  | '.' :: t => takeDigs t
  | t => ([], t)

theorem fracPart_dot (t : Str) : fracPart ('.' :: t) = takeDigs t := rfl
theorem fracPart_nil : fracPart [] = ([], []) := rfl
theorem fracPart_other (c : Char) (cs : Str) (hd : c ≠ '.') : fracPart (c :: cs) = ([], c :: cs) := by
  unfold fracPart; split
  · rename_i heq; simp at heq; exact absurd heq.1 hd
  · rfl

theorem fracPart_append (s rest : Str) (h : NoNum rest) :
    fracPart (s ++ rest) = ((fracPart s).1, (fracPart s).2 ++ rest) := by
  cases s with
  | nil =>
    cases rest with
    | nil => rfl
    | cons c cs =>
      obtain ⟨-, hd, -⟩ := h c rfl
      simp [fracPart_other c cs hd, fracPart_nil]
  | cons c cs =>
    by_cases hd : c = '.'
    · subst hd; simp [fracPart_dot, takeDigs_append _ rest h.noDig]
    · simp [fracPart_other _ _ hd]

/-- `[.]\d+(?:[eE][+-]?\d+)?` after the sign, when there is no integer part -/
def dotForm (neg : Bool) : Str → Option (Sci × Str)
  | '.' :: t =>
    let fp := takeDigs t
    if fp.1.isEmpty then none
    else
      let e := expPart fp.2
      some (⟨neg, natOf fp.1, e.1 - fp.1.length⟩, e.2)
  | _ => none

theorem dotForm_other (neg : Bool) (c : Char) (cs : Str) (hd : c ≠ '.') : dotForm neg (c :: cs) = none := by
  unfold dotForm; split
  · rename_i heq; simp at heq; exact absurd heq.1 hd
  · rfl

theorem dotForm_append (neg : Bool) (s rest : Str) (h : NoNum rest) :
    dotForm neg (s ++ rest) = (dotForm neg s).map (fun vr => (vr.1, vr.2 ++ rest)) := by
  cases s with
  | nil =>
    cases rest with
    | nil => rfl
    | cons c cs =>
      obtain ⟨-, hd, -⟩ := h c rfl
      simp [dotForm_other neg c cs hd]; rfl
  | cons c cs =>
    by_cases hd : c = '.'
    · subst hd
      simp only [List.cons_append, dotForm]
      rw [takeDigs_append _ rest h.noDig]
      simp only []
      split
      · simp
      · rw [expPart_append _ rest h]; simp
    · simp [dotForm_other _ _ _ hd]

theorem floatPrefix_eq (s : Str) : floatPrefix s =
    (if !(takeDigs (optSign s).2).1.isEmpty then
      some (⟨(optSign s).1, natOf ((takeDigs (optSign s).2).1 ++ (fracPart (takeDigs (optSign s).2).2).1),
          (expPart (fracPart (takeDigs (optSign s).2).2).2).1 - (fracPart (takeDigs (optSign s).2).2).1.length⟩,
        (expPart (fracPart (takeDigs (optSign s).2).2).2).2)
    else dotForm (optSign s).1 (takeDigs (optSign s).2).2) := by
  rfl

theorem floatPrefix_append (s rest : Str) (h : NoNum rest) :
    floatPrefix (s ++ rest) = (floatPrefix s).map (fun vr => (vr.1, vr.2 ++ rest)) := by
  rw [floatPrefix_eq, floatPrefix_eq]
  rw [optSign_append s rest h]
  simp only []
  rw [takeDigs_append _ rest h.noDig]
  simp only []
  split
  · rw [fracPart_append _ rest h]
    simp only []
    rw [expPart_append _ rest h]
    simp
  · exact dotForm_append _ _ rest h

theorem intTok_append (s rest : Str) (h : NoDig rest) :
    intTok (s ++ rest) = (intTok s).map (fun vr => (vr.1, vr.2 ++ rest)) := by
  unfold intTok
  simp only []
  rw [takeDigs_append _ rest h]
  simp only []
  split <;> simp

theorem pidTok_append (s rest : Str) (h : NoNum rest) :
    pidTok (s ++ rest) = (pidTok s).map (fun vr => (vr.1, vr.2 ++ rest)) := by
  cases s with
  | nil =>
    have e0 : pidTok [] = none := by simp [pidTok, intTok, takeDigs]
    rw [e0]
    cases rest with
    | nil => simpa using e0
    | cons c cs =>
      obtain ⟨hd, -, -, -, -, hm⟩ := h c rfl
      simp only [List.nil_append]
      unfold pidTok
      split
      · rename_i heq; simp at heq; exact absurd heq.1 hm
      · simp [intTok, takeDigs, hd]
  | cons c cs =>
    by_cases hm : c = '-'
    · subst hm
      simp only [List.cons_append, pidTok]
      rw [intTok_append _ rest h.noDig]
      cases intTok cs <;> simp
    · have e1 : ∀ t, pidTok (c :: t) = (intTok (c :: t)).map (fun nr => ((nr.1 : Int), nr.2)) := by
        intro t; unfold pidTok; split
        · rename_i heq; simp at heq; exact absurd heq.1 hm
        · rfl
      simp only [List.cons_append, e1]
      rw [← List.cons_append, intTok_append _ rest h.noDig]
      cases intTok (c :: cs) <;> simp

/-! ## tokens accepted in full -/

theorem intTok_full {t : Str} {a : Nat} (h : intTok t = some (a, [])) :
    t ≠ [] ∧ (∀ c ∈ t, isDig c = true) ∧ a = natOf t := by
  unfold intTok at h
  simp only [] at h
  split at h
  · simp at h
  · rename_i hne
    simp only [Option.some.injEq, Prod.mk.injEq] at h
    have e := takeDigs_eq_append t
    rw [h.2, List.append_nil] at e
    refine ⟨?_, ?_, ?_⟩
    · rintro rfl; simp [takeDigs] at hne
    · rw [← e]; exact takeDigs_fst_allDig t
    · rw [← h.1, e]

theorem intTok_digs (ds : Str) (hne : ds ≠ []) (h : ∀ c ∈ ds, isDig c = true) :
    intTok ds = some (natOf ds, []) := by
  unfold intTok
  simp only [takeDigs_allDig ds h]
  cases ds with
  | nil => exact absurd rfl hne
  | cons c cs => simp

theorem intTok_full_head {t : Str} {a : Nat} (h : intTok t = some (a, [])) :
    ∃ c cs, t = c :: cs ∧ isDig c = true := by
  obtain ⟨hne, hd, -⟩ := intTok_full h
  cases t with
  | nil => exact absurd rfl hne
  | cons c cs => exact ⟨c, cs, rfl, hd c (by simp)⟩

/-- a list starting with a non-whitespace character -/
def NonWsStart (t : Str) : Prop := ∃ c cs, t = c :: cs ∧ isWs c = false ∧ c ≠ '#'

theorem NonWsStart.append {t : Str} (h : NonWsStart t) (s : Str) : NonWsStart (t ++ s) := by
  obtain ⟨c, cs, rfl, hc⟩ := h
  exact ⟨c, cs ++ s, rfl, hc⟩
theorem NonWsStart.noWsHead {t : Str} (h : NonWsStart t) : NoWsHead t := by
  obtain ⟨c, cs, rfl, hc, -⟩ := h
  intro d hd; simp at hd; subst hd; exact hc
theorem NonWsStart.dropWs {t : Str} (h : NonWsStart t) : SwcText.dropWs t = t :=
  dropWs_of_noWsHead t h.noWsHead

theorem nonWsStart_of_dig {c : Char} {cs : Str} (h : isDig c = true) : NonWsStart (c :: cs) :=
  ⟨c, cs, rfl, (isDig_ne c h).2.2.2.2.2.2.2, (isDig_ne c h).2.2.2.2.2.1⟩

theorem intTok_some_start {t : Str} {v : Nat × Str} (h : intTok t = some v) : NonWsStart t := by
  cases t with
  | nil => simp [intTok, takeDigs] at h
  | cons c cs =>
    by_cases hd : isDig c = true
    · exact nonWsStart_of_dig hd
    · simp [intTok, takeDigs, hd] at h

theorem pidTok_some_start {t : Str} {v : Int × Str} (h : pidTok t = some v) : NonWsStart t := by
  cases t with
  | nil => simp [pidTok, intTok, takeDigs] at h
  | cons c cs =>
    by_cases hm : c = '-'
    · subst hm; exact ⟨'-', cs, rfl, by decide, by decide⟩
    · have e1 : pidTok (c :: cs) = (intTok (c :: cs)).map (fun nr => ((nr.1 : Int), nr.2)) := by
        unfold pidTok; split
        · rename_i heq; simp at heq; exact absurd heq.1 hm
        · rfl
      rw [e1] at h
      cases hi : intTok (c :: cs) with
      | none => simp [hi] at h
      | some v => exact intTok_some_start hi

theorem floatPrefix_some_start {t : Str} {v : Sci × Str} (h : floatPrefix t = some v) : NonWsStart t := by
  cases t with
  | nil => simp [floatPrefix, optSign, takeDigs] at h
  | cons c cs =>
    by_cases hp : c = '+'
    · subst hp; exact ⟨_, cs, rfl, by decide, by decide⟩
    by_cases hm : c = '-'
    · subst hm; exact ⟨_, cs, rfl, by decide, by decide⟩
    by_cases hd : c = '.'
    · subst hd; exact ⟨_, cs, rfl, by decide, by decide⟩
    by_cases hg : isDig c = true
    · exact nonWsStart_of_dig hg
    · exfalso
      have e1 : optSign (c :: cs) = (false, c :: cs) := by
        unfold optSign; split
        · rename_i heq; simp at heq; exact absurd heq.1 hp
        · rename_i heq; simp at heq; exact absurd heq.1 hm
        · rfl
      unfold floatPrefix at h
      simp only [e1, takeDigs, hg] at h
      simp at h
      split at h
      · rename_i heq; simp at heq; exact absurd heq.1 hd
      · simp at h

/-! ## stripNl, `#` lines -/

theorem stripNl_append_nl (t : Str) : stripNl (t ++ ['\n']) = t := by
  induction t with
  | nil => simp [stripNl]
  | cons c cs ih =>
    cases cs with
    | nil => simp [stripNl]
    | cons d ds =>
      simp only [List.cons_append] at ih ⊢
      rw [stripNl]
      · rw [ih]
      · simp

theorem intTok_hash (t : Str) : intTok ('#' :: t) = none := by
  simp [intTok, takeDigs, show isDig '#' = false by decide]

theorem parseData_of_dropWs_hash (nx : Nat) (l t : Str) (h : dropWs l = '#' :: t) : parseData nx l = none := by
  simp [parseData, h, intTok_hash]

theorem classify_hash (nx : Nat) (l t : Str) (h : dropWs l = '#' :: t) :
    classify nx l = .comment (stripNl t) := by
  simp [classify, parseData_of_dropWs_hash nx l t h, h]

/-! ## splitLines -/

theorem splitLines_line (b rest : Str) (hb : '\n' ∉ b) :
    splitLines (b ++ '\n' :: rest) = (b ++ ['\n']) :: splitLines rest := by
  induction b with
  | nil => simp [splitLines]
  | cons c cs ih =>
    have hc : c ≠ '\n' := fun e => hb (by simp [e])
    have hcs : '\n' ∉ cs := fun e => hb (by simp [e])
    simp only [List.cons_append, splitLines, hc, if_false]
    rw [ih hcs]

/-- a complete line: text without line break, then the line break -/
def IsLine (l : Str) : Prop := ∃ b, l = b ++ ['\n'] ∧ '\n' ∉ b

theorem splitLines_flatten (ls : List Str) (h : ∀ l ∈ ls, IsLine l) : splitLines ls.flatten = ls := by
  induction ls with
  | nil => rfl
  | cons l ls ih =>
    obtain ⟨b, rfl, hb⟩ := h l (by simp)
    simp only [List.flatten_cons, List.append_assoc, List.singleton_append]
    rw [splitLines_line b _ hb, ih (fun l hl => h l (by simp [hl]))]

theorem digitChar_ne_nl (d : Nat) (h : d < 10) : digitChar d ≠ '\n' :=
  (isDig_ne _ (isDig_digitChar d h)).2.2.2.2.2.2.1

theorem nl_not_mem_of_allDig (ds : Str) (h : ∀ c ∈ ds, isDig c = true) : '\n' ∉ ds := by
  intro hm; have := h _ hm; revert this; decide

theorem nl_not_mem_digits (n : Nat) : '\n' ∉ digits n := nl_not_mem_of_allDig _ (digits_allDig n)

theorem nl_not_mem_fmt4 (neg : Bool) (k : Nat) : '\n' ∉ fmt4 neg k := by
  have h1 := nl_not_mem_digits (k / 10000)
  have h2 := nl_not_mem_of_allDig _ (pad4_allDig (k % 10000))
  cases neg <;> simp [fmt4, h1, h2]

theorem nl_not_mem_showInt (i : Int) : '\n' ∉ showInt i := by
  unfold showInt
  split <;> simp [nl_not_mem_digits]

theorem isLine_formatRow (off : Nat) (w : WRow) : IsLine (formatRow off w) := by
  refine ⟨_, rfl, ?_⟩
  simp [nl_not_mem_digits, nl_not_mem_fmt4, nl_not_mem_showInt]

theorem isLine_commentLine (c : Str) (h : '\n' ∉ c) : IsLine (commentLine c) := by
  unfold commentLine
  split
  · exact ⟨['#'], rfl, by decide⟩
  · refine ⟨'#' :: ' ' :: dropWs c, by simp, ?_⟩
    intro hm
    simp only [List.mem_cons] at hm
    rcases hm with hm | hm | hm
    · revert hm; decide
    · revert hm; decide
    · exact h (mem_dropWs hm)

theorem headerText_eq : headerText = "id type x y z r pid".toList := by decide +kernel

theorem isLine_headerLine : IsLine headerLine := by
  refine ⟨'#' :: ' ' :: headerText, by simp [headerLine], ?_⟩
  rw [headerText_eq]; decide +kernel

/-! ## the reader loop -/

/-- the row a line contributes, if it is a data line -/
def rowOf (nx : Nat) (l : Str) : Option Row :=
  match classify nx l with
  | .data r _ => some r
  | _ => none
/-- the comment a line contributes (the writer's column header is dropped) -/
def cmtOf (nx : Nat) (l : Str) : Option Str :=
  match classify nx l with
  | .comment c => if keepComment c then some c else none
  | _ => none
def tlOf (nx : Nat) (l : Str) : Bool :=
  match classify nx l with
  | .data _ t => t
  | _ => false

/-- the accumulator after reading the (valid) lines `ls` -/
def accAfter (nx : Nat) (ls : List Str) (a : Acc) : Acc :=
  ⟨(ls.filterMap (rowOf nx)).reverse ++ a.rows, (ls.filterMap (cmtOf nx)).reverse ++ a.comments,
   a.warned || ls.any (tlOf nx)⟩

theorem accAfter_nil (nx : Nat) (a : Acc) : accAfter nx [] a = a := by
  cases a; simp [accAfter]

theorem readLoop_valid (sw : Bool) (nx : Nat) (ls : List Str) (i : Nat) (a : Acc)
    (h : ∀ l ∈ ls, classify nx l ≠ .invalid) :
    readLoop sw nx ls i a = .ok (accAfter nx ls a) := by
  induction ls generalizing i a with
  | nil => rw [accAfter_nil]; rfl
  | cons l ls ih =>
    have hl := h l (by simp)
    have ih' := fun i a => ih i a (fun l hl => h l (by simp [hl]))
    cases hc : classify nx l with
    | data row tl =>
      simp only [readLoop, hc, ih']
      simp [accAfter, rowOf, cmtOf, tlOf, hc, Bool.or_assoc]
    | comment c =>
      simp only [readLoop, hc, ih']
      by_cases hk : keepComment c = true <;> simp [accAfter, rowOf, cmtOf, tlOf, hc, hk]
    | blank =>
      simp only [readLoop, hc, ih']
      simp [accAfter, rowOf, cmtOf, tlOf, hc]
    | invalid => exact absurd hc hl

theorem readLoop_invalid (sw : Bool) (nx : Nat) (pre : List Str) (bad : Str) (post : List Str) (i : Nat) (a : Acc)
    (hpre : ∀ l ∈ pre, classify nx l ≠ .invalid) (hbad : classify nx bad = .invalid) :
    readLoop sw nx (pre ++ bad :: post) i a =
      if sw then .ok (accAfter nx pre a) else .error (.invalidRow (i + pre.length + 1)) := by
  induction pre generalizing i a with
  | nil => simp [readLoop, hbad, accAfter_nil]
  | cons l ls ih =>
    have hl := hpre l (by simp)
    have ih' := fun i a => ih i a (fun l hl => hpre l (by simp [hl]))
    have e : i + 1 + ls.length + 1 = i + (ls.length + 1) + 1 := by omega
    cases hc : classify nx l with
    | data row tl =>
      simp only [List.cons_append, readLoop, hc, ih', List.length_cons, e]
      cases sw <;> simp [accAfter, rowOf, cmtOf, tlOf, hc, Bool.or_assoc]
    | comment c =>
      simp only [List.cons_append, readLoop, hc, ih', List.length_cons, e]
      cases sw <;> by_cases hk : keepComment c = true <;> simp [accAfter, rowOf, cmtOf, tlOf, hc, hk]
    | blank =>
      simp only [List.cons_append, readLoop, hc, ih', List.length_cons, e]
      cases sw <;> simp [accAfter, rowOf, cmtOf, tlOf, hc]
    | invalid => exact absurd hc hl

/-- a list either has no invalid line or splits at its first invalid line -/
theorem first_invalid (nx : Nat) (ls : List Str) :
    (∀ l ∈ ls, classify nx l ≠ .invalid) ∨
    ∃ pre bad post, ls = pre ++ bad :: post ∧ (∀ l ∈ pre, classify nx l ≠ .invalid) ∧ classify nx bad = .invalid := by
  induction ls with
  | nil => left; simp
  | cons l ls ih =>
    by_cases hl : classify nx l = .invalid
    · right; exact ⟨[], l, ls, rfl, by simp, hl⟩
    · rcases ih with ih | ⟨pre, bad, post, rfl, hpre, hbad⟩
      · left; intro m hm; simp at hm; rcases hm with rfl | hm
        · exact hl
        · exact ih m hm
      · right; refine ⟨l :: pre, bad, post, rfl, ?_, hbad⟩
        intro m hm; simp at hm; rcases hm with rfl | hm
        · exact hl
        · exact hpre m hm

theorem readLinesWith_valid (sw : Bool) (nx : Nat) (ls : List Str) (h : ∀ l ∈ ls, classify nx l ≠ .invalid) :
    readLinesWith sw nx ls = .ok ⟨ls.filterMap (rowOf nx), ls.filterMap (cmtOf nx), ls.any (tlOf nx)⟩ := by
  simp [readLinesWith, readLoop_valid sw nx ls 0 _ h, accAfter]

theorem readLinesWith_invalid (sw : Bool) (nx : Nat) (pre : List Str) (bad : Str) (post : List Str)
    (hpre : ∀ l ∈ pre, classify nx l ≠ .invalid) (hbad : classify nx bad = .invalid) :
    readLinesWith sw nx (pre ++ bad :: post) =
      if sw then .ok ⟨pre.filterMap (rowOf nx), pre.filterMap (cmtOf nx), pre.any (tlOf nx)⟩
      else .error (.invalidRow (pre.length + 1)) := by
  cases sw <;> simp [readLinesWith, readLoop_invalid _ nx pre bad post 0 _ hpre hbad, accAfter]

theorem readLines_eq (nx : Nat) (ls : List Str) : readLines nx ls = readLinesWith false nx ls := rfl

/-! ## chaining tokens through `parseData` -/

theorem wsHead_of_allWs {w : Str} (h : ∀ c ∈ w, isWs c = true) : WsHead w := by
  cases w with
  | nil => exact wsHead_nil
  | cons c cs => exact wsHead_cons (h c (by simp))

theorem intTok_step {t rest : Str} {a : Nat} (e : intTok t = some (a, [])) (h : NoDig rest) :
    intTok (t ++ rest) = some (a, rest) := by
  rw [intTok_append t rest h, e]; simp

theorem floatPrefix_step {t rest : Str} {v : Sci} (e : floatPrefix t = some (v, [])) (h : NoNum rest) :
    floatPrefix (t ++ rest) = some (v, rest) := by
  rw [floatPrefix_append t rest h, e]; simp

theorem pidTok_step {t rest : Str} {p : Int} (e : pidTok t = some (p, [])) (h : NoNum rest) :
    pidTok (t ++ rest) = some (p, rest) := by
  rw [pidTok_append t rest h, e]; simp

theorem needWs_step {w s : Str} (hne : w ≠ []) (hw : ∀ c ∈ w, isWs c = true) (h : NonWsStart s) :
    needWs (w ++ s) = some s := needWs_append w s hne hw h.noWsHead

theorem not_tailTok_of_ws {c : Char} (h : isWs c = true) : isTailTok c = false := by
  simp only [isWs, Bool.or_eq_true, decide_eq_true_eq] at h
  rcases h with ((((((((h | h) | h) | h) | h) | h) | h) | h) | h) | h <;> subst h <;> decide

/-- blanks only after the last field: the trailing group is empty -/
theorem tailFields_allWs (t : Str) (h : ∀ c ∈ t, isWs c = true) : tailFields t = some false := by
  unfold tailFields
  have h1 : t.all (fun c => isWs c || isTailTok c) = true := by
    rw [List.all_eq_true]; intro c hc; rw [h c hc]; rfl
  have h3 : t.any isTailTok = false := by
    rw [List.any_eq_false]; intro c hc; rw [not_tailTok_of_ws (h c hc)]; simp
  rw [h1, h3]
  cases t with
  | nil => rfl
  | cons c _ => simp [h c List.mem_cons_self]

/-- what the end of `re_swc` accepts starts with a blank (or is empty) -/
theorem wsHead_of_tailFields {t : Str} {tl : Bool} (h : tailFields t = some tl) : WsHead t := by
  unfold tailFields at h
  cases t with
  | nil => exact wsHead_nil
  | cons c cs =>
    by_cases hc : isWs c = true
    · exact wsHead_cons hc
    · simp [hc] at h

/-- a trailing part that starts with a character other than a blank is not accepted -/
theorem tailFields_none_of_head {c : Char} {cs : Str} (hc : isWs c = false) : tailFields (c :: cs) = none := by
  unfold tailFields; simp [hc]

/-- blank-separated fields made of trailing characters (digits, signs, dot, comma, `e`, `E`) are accepted, with the warning flag -/
theorem tailFields_fields (w f rest : Str) (hw : w ≠ []) (hws : ∀ c ∈ w, isWs c = true) (hf : f ≠ []) (hft : ∀ c ∈ f, isTailTok c = true)
    (tl : Bool) (hr : tailFields rest = some tl) : tailFields (w ++ f ++ rest) = some true := by
  unfold tailFields at hr ⊢
  have hrall : rest.all (fun c => isWs c || isTailTok c) = true := by
    cases hb : rest.all (fun c => isWs c || isTailTok c) with
    | true => rfl
    | false => rw [hb] at hr; simp at hr
  have hall : (w ++ f ++ rest).all (fun c => isWs c || isTailTok c) = true := by
    rw [List.all_append, List.all_append, hrall]
    have h1 : w.all (fun c => isWs c || isTailTok c) = true := by
      rw [List.all_eq_true]; intro c hc; simp [hws c hc]
    have h2 : f.all (fun c => isWs c || isTailTok c) = true := by
      rw [List.all_eq_true]; intro c hc; simp [hft c hc]
    rw [h1, h2]; rfl
  have hany : (w ++ f ++ rest).any isTailTok = true := by
    rw [List.any_append, List.any_append]
    have : f.any isTailTok = true := by
      cases f with
      | nil => exact absurd rfl hf
      | cons c cs => simp [hft c List.mem_cons_self]
    rw [this]; simp
  rw [hall, hany]
  cases w with
  | nil => exact absurd rfl hw
  | cons c cs => simp [hws c List.mem_cons_self]

/-- seven tokens, each accepted in full by its recogniser, separated by whitespace: a data line -/
theorem parseData_seven (lead w1 w2 w3 w4 w5 w6 trail t1 t2 t3 t4 t5 t6 t7 : Str)
    (a b : Nat) (x y z r : Sci) (p : Int)
    (hl : ∀ c ∈ lead, isWs c = true) (ht : ∀ c ∈ trail, isWs c = true)
    (n1 : w1 ≠ []) (h1 : ∀ c ∈ w1, isWs c = true) (n2 : w2 ≠ []) (h2 : ∀ c ∈ w2, isWs c = true)
    (n3 : w3 ≠ []) (h3 : ∀ c ∈ w3, isWs c = true) (n4 : w4 ≠ []) (h4 : ∀ c ∈ w4, isWs c = true)
    (n5 : w5 ≠ []) (h5 : ∀ c ∈ w5, isWs c = true) (n6 : w6 ≠ []) (h6 : ∀ c ∈ w6, isWs c = true)
    (e1 : intTok t1 = some (a, [])) (e2 : intTok t2 = some (b, []))
    (e3 : floatPrefix t3 = some (x, [])) (e4 : floatPrefix t4 = some (y, []))
    (e5 : floatPrefix t5 = some (z, [])) (e6 : floatPrefix t6 = some (r, []))
    (e7 : pidTok t7 = some (p, [])) :
    parseData 0 (lead ++ (t1 ++ (w1 ++ (t2 ++ (w2 ++ (t3 ++ (w3 ++ (t4 ++ (w4 ++ (t5 ++ (w5 ++ (t6 ++ (w6 ++ (t7 ++ trail))))))))))))))
      = some (⟨a, b, x, y, z, r, p, []⟩, false) := by
  have s1 := intTok_some_start e1
  have s2 := intTok_some_start e2
  have s3 := floatPrefix_some_start e3
  have s4 := floatPrefix_some_start e4
  have s5 := floatPrefix_some_start e5
  have s6 := floatPrefix_some_start e6
  have s7 := pidTok_some_start e7
  have d0 := dropWs_append lead _ hl (s1.append (w1 ++ (t2 ++ (w2 ++ (t3 ++ (w3 ++ (t4 ++ (w4 ++ (t5 ++ (w5 ++ (t6 ++ (w6 ++ (t7 ++ trail))))))))))))).noWsHead
  have a1 := intTok_step e1 (wsHead_append (s := t2 ++ (w2 ++ (t3 ++ (w3 ++ (t4 ++ (w4 ++ (t5 ++ (w5 ++ (t6 ++ (w6 ++ (t7 ++ trail))))))))))) n1 h1).noDig
  have b1 := needWs_step n1 h1 (s2.append (w2 ++ (t3 ++ (w3 ++ (t4 ++ (w4 ++ (t5 ++ (w5 ++ (t6 ++ (w6 ++ (t7 ++ trail)))))))))))
  have a2 := intTok_step e2 (wsHead_append (s := t3 ++ (w3 ++ (t4 ++ (w4 ++ (t5 ++ (w5 ++ (t6 ++ (w6 ++ (t7 ++ trail))))))))) n2 h2).noDig
  have b2 := needWs_step n2 h2 (s3.append (w3 ++ (t4 ++ (w4 ++ (t5 ++ (w5 ++ (t6 ++ (w6 ++ (t7 ++ trail)))))))))
  have a3 := floatPrefix_step e3 (wsHead_append (s := t4 ++ (w4 ++ (t5 ++ (w5 ++ (t6 ++ (w6 ++ (t7 ++ trail))))))) n3 h3).noNum
  have b3 := needWs_step n3 h3 (s4.append (w4 ++ (t5 ++ (w5 ++ (t6 ++ (w6 ++ (t7 ++ trail)))))))
  have a4 := floatPrefix_step e4 (wsHead_append (s := t5 ++ (w5 ++ (t6 ++ (w6 ++ (t7 ++ trail))))) n4 h4).noNum
  have b4 := needWs_step n4 h4 (s5.append (w5 ++ (t6 ++ (w6 ++ (t7 ++ trail)))))
  have a5 := floatPrefix_step e5 (wsHead_append (s := t6 ++ (w6 ++ (t7 ++ trail))) n5 h5).noNum
  have b5 := needWs_step n5 h5 (s6.append (w6 ++ (t7 ++ trail)))
  have a6 := floatPrefix_step e6 (wsHead_append (s := t7 ++ trail) n6 h6).noNum
  have b6 := needWs_step n6 h6 (s7.append trail)
  have a7 := pidTok_step e7 (wsHead_of_allWs ht).noNum
  have d8 := tailFields_allWs trail ht
  simp [parseData, d0, a1, b1, a2, b2, a3, b3, a4, b4, a5, b5, a6, b6, a7, extras, d8]

/-- … followed by any trailing part the end of `re_swc` accepts (`tailFields`): a data line, with the warning flag of that part -/
theorem parseData_seven_tail (lead w1 w2 w3 w4 w5 w6 trail t1 t2 t3 t4 t5 t6 t7 : Str)
    (a b : Nat) (x y z r : Sci) (p : Int)
    (tl : Bool) (hl : ∀ c ∈ lead, isWs c = true) (ht : tailFields trail = some tl)
    (n1 : w1 ≠ []) (h1 : ∀ c ∈ w1, isWs c = true) (n2 : w2 ≠ []) (h2 : ∀ c ∈ w2, isWs c = true)
    (n3 : w3 ≠ []) (h3 : ∀ c ∈ w3, isWs c = true) (n4 : w4 ≠ []) (h4 : ∀ c ∈ w4, isWs c = true)
    (n5 : w5 ≠ []) (h5 : ∀ c ∈ w5, isWs c = true) (n6 : w6 ≠ []) (h6 : ∀ c ∈ w6, isWs c = true)
    (e1 : intTok t1 = some (a, [])) (e2 : intTok t2 = some (b, []))
    (e3 : floatPrefix t3 = some (x, [])) (e4 : floatPrefix t4 = some (y, []))
    (e5 : floatPrefix t5 = some (z, [])) (e6 : floatPrefix t6 = some (r, []))
    (e7 : pidTok t7 = some (p, [])) :
    parseData 0 (lead ++ (t1 ++ (w1 ++ (t2 ++ (w2 ++ (t3 ++ (w3 ++ (t4 ++ (w4 ++ (t5 ++ (w5 ++ (t6 ++ (w6 ++ (t7 ++ trail))))))))))))))
      = some (⟨a, b, x, y, z, r, p, []⟩, tl) := by
  have s1 := intTok_some_start e1
  have s2 := intTok_some_start e2
  have s3 := floatPrefix_some_start e3
  have s4 := floatPrefix_some_start e4
  have s5 := floatPrefix_some_start e5
  have s6 := floatPrefix_some_start e6
  have s7 := pidTok_some_start e7
  have d0 := dropWs_append lead _ hl (s1.append (w1 ++ (t2 ++ (w2 ++ (t3 ++ (w3 ++ (t4 ++ (w4 ++ (t5 ++ (w5 ++ (t6 ++ (w6 ++ (t7 ++ trail))))))))))))).noWsHead
  have a1 := intTok_step e1 (wsHead_append (s := t2 ++ (w2 ++ (t3 ++ (w3 ++ (t4 ++ (w4 ++ (t5 ++ (w5 ++ (t6 ++ (w6 ++ (t7 ++ trail))))))))))) n1 h1).noDig
  have b1 := needWs_step n1 h1 (s2.append (w2 ++ (t3 ++ (w3 ++ (t4 ++ (w4 ++ (t5 ++ (w5 ++ (t6 ++ (w6 ++ (t7 ++ trail)))))))))))
  have a2 := intTok_step e2 (wsHead_append (s := t3 ++ (w3 ++ (t4 ++ (w4 ++ (t5 ++ (w5 ++ (t6 ++ (w6 ++ (t7 ++ trail))))))))) n2 h2).noDig
  have b2 := needWs_step n2 h2 (s3.append (w3 ++ (t4 ++ (w4 ++ (t5 ++ (w5 ++ (t6 ++ (w6 ++ (t7 ++ trail)))))))))
  have a3 := floatPrefix_step e3 (wsHead_append (s := t4 ++ (w4 ++ (t5 ++ (w5 ++ (t6 ++ (w6 ++ (t7 ++ trail))))))) n3 h3).noNum
  have b3 := needWs_step n3 h3 (s4.append (w4 ++ (t5 ++ (w5 ++ (t6 ++ (w6 ++ (t7 ++ trail)))))))
  have a4 := floatPrefix_step e4 (wsHead_append (s := t5 ++ (w5 ++ (t6 ++ (w6 ++ (t7 ++ trail))))) n4 h4).noNum
  have b4 := needWs_step n4 h4 (s5.append (w5 ++ (t6 ++ (w6 ++ (t7 ++ trail)))))
  have a5 := floatPrefix_step e5 (wsHead_append (s := t6 ++ (w6 ++ (t7 ++ trail))) n5 h5).noNum
  have b5 := needWs_step n5 h5 (s6.append (w6 ++ (t7 ++ trail)))
  have a6 := floatPrefix_step e6 (wsHead_append (s := t7 ++ trail) n6 h6).noNum
  have b6 := needWs_step n6 h6 (s7.append trail)
  have a7 := pidTok_step e7 (wsHead_of_tailFields ht).noNum
  have d8 := ht
  simp [parseData, d0, a1, b1, a2, b2, a3, b3, a4, b4, a5, b5, a6, b6, a7, extras, d8]

theorem classify_of_parseData {nx : Nat} {l : Str} {row : Row} {tl : Bool}
    (h : parseData nx l = some (row, tl)) : classify nx l = .data row tl := by
  simp [classify, h]

/-! ## the writer's tokens are accepted in full -/

theorem digits_head (n : Nat) : ∃ c cs, digits n = c :: cs ∧ isDig c = true := by
  have hne := digits_ne_nil n
  have hd := digits_allDig n
  cases h : digits n with
  | nil => exact absurd h hne
  | cons c cs => exact ⟨c, cs, rfl, hd c (by simp [h])⟩

theorem intTok_digits (n : Nat) : intTok (digits n) = some (n, []) := by
  rw [intTok_digs _ (digits_ne_nil n) (digits_allDig n), natOf_digits]

theorem noDig_dot (t : Str) : NoDig ('.' :: t) := by
  intro c hc; simp at hc; subst hc; decide

theorem floatPrefix_unsigned4 (neg : Bool) (k : Nat) (s : Str) (hs : optSign s = (neg, digits (k / 10000) ++ '.' :: pad4 (k % 10000))) :
    floatPrefix s = some (⟨neg, k, -4⟩, []) := by
  rw [floatPrefix_eq, hs]
  simp only []
  rw [takeDigs_digs_append _ _ (digits_allDig _) (noDig_dot _)]
  simp only [fracPart_dot, takeDigs_allDig _ (pad4_allDig _)]
  have hne : (digits (k / 10000)).isEmpty = false := by
    cases h : digits (k / 10000) with
    | nil => exact absurd h (digits_ne_nil _)
    | cons c cs => rfl
  have hv : natOf (digits (k / 10000) ++ pad4 (k % 10000)) = k := by
    rw [natOf_append, natOf_digits, natOf_pad4 _ (Nat.mod_lt _ (by decide)), pad4_length]
    omega
  simp [hne, hv, expPart, pad4_length]

theorem floatPrefix_fmt4 (neg : Bool) (k : Nat) : floatPrefix (fmt4 neg k) = some (⟨neg, k, -4⟩, []) := by
  apply floatPrefix_unsigned4
  cases neg with
  | true => simp [fmt4, optSign]
  | false =>
    obtain ⟨c, cs, hc, hd⟩ := digits_head (k / 10000)
    simp only [fmt4, Bool.false_eq_true, if_false, List.nil_append, hc, List.cons_append]
    exact optSign_of_dig c _ hd

theorem pidTok_digits (n : Nat) : pidTok (digits n) = some ((n : Int), []) := by
  obtain ⟨c, cs, hc, hd⟩ := digits_head n
  have hm : c ≠ '-' := (isDig_ne c hd).2.1
  have e1 : pidTok (c :: cs) = (intTok (c :: cs)).map (fun nr => ((nr.1 : Int), nr.2)) := by
    unfold pidTok; split
    · rename_i heq; simp at heq; exact absurd heq.1 hm
    · rfl
  rw [hc, e1, ← hc, intTok_digits]; rfl

theorem pidTok_showInt (i : Int) : pidTok (showInt i) = some (i, []) := by
  unfold showInt
  split
  · rename_i h
    simp only [pidTok, intTok_digits, Option.map_some]
    congr 2; omega
  · rename_i h
    rw [pidTok_digits]; congr 2; omega

/-! ## the value of a float token, spelled out -/

/-- an optional sign and the sign bit it denotes -/
def SignOf (sg : Str) (neg : Bool) : Prop :=
  (sg = [] ∧ neg = false) ∨ (sg = ['+'] ∧ neg = false) ∨ (sg = ['-'] ∧ neg = true)

theorem optSign_signed {sg : Str} {neg : Bool} (h : SignOf sg neg) (ds rest : Str) (hne : ds ≠ [])
    (hd : ∀ c ∈ ds, isDig c = true) : optSign (sg ++ (ds ++ rest)) = (neg, ds ++ rest) := by
  rcases h with ⟨rfl, rfl⟩ | ⟨rfl, rfl⟩ | ⟨rfl, rfl⟩
  · cases ds with
    | nil => exact absurd rfl hne
    | cons c cs => exact optSign_of_dig c _ (hd c (by simp))
  · rfl
  · rfl

theorem isEmpty_false_of_ne {ds : Str} (hne : ds ≠ []) : ds.isEmpty = false := by
  cases ds with
  | nil => exact absurd rfl hne
  | cons c cs => rfl

theorem floatPrefix_shape {sg : Str} {neg : Bool} (h : SignOf sg neg) (ip tail : Str) (hne : ip ≠ [])
    (hd : ∀ c ∈ ip, isDig c = true) (ht : NoDig tail) :
    floatPrefix (sg ++ (ip ++ tail)) =
      some (⟨neg, natOf (ip ++ (fracPart tail).1), (expPart (fracPart tail).2).1 - (fracPart tail).1.length⟩,
        (expPart (fracPart tail).2).2) := by
  rw [floatPrefix_eq, optSign_signed h ip tail hne hd]
  simp only []
  rw [takeDigs_digs_append ip tail hd ht]
  simp [isEmpty_false_of_ne hne]

theorem expPart_exp {esg : Str} {eneg : Bool} (h : SignOf esg eneg) (c : Char) (hc : c = 'e' ∨ c = 'E')
    (ex : Str) (hne : ex ≠ []) (hd : ∀ c ∈ ex, isDig c = true) :
    expPart (c :: (esg ++ ex)) = ((if eneg then -(natOf ex : Int) else (natOf ex : Int)), []) := by
  have := optSign_signed h ex [] hne hd
  simp only [List.append_nil] at this
  have hc' : (decide (c = 'e') || decide (c = 'E')) = true := by simpa using hc
  simp only [expPart, hc', if_true, this, takeDigs_allDig ex hd, isEmpty_false_of_ne hne]
  simp

theorem noDig_cons {c : Char} (t : Str) (h : isDig c = false) : NoDig (c :: t) := by
  intro d hd; simp at hd; subst hd; exact h

theorem classify_invalid_of (nx : Nat) (l : Str) (hp : parseData nx l = none) (hs : NonWsStart (dropWs l)) :
    classify nx l = .invalid := by
  obtain ⟨c, cs, hc, -, hh⟩ := hs
  unfold classify
  rw [hp]
  simp only []
  rw [hc]
  split
  · rename_i heq; simp at heq; exact absurd heq.1 hh
  · rename_i heq; simp at heq
  · rfl

theorem floatPrefix_nil : floatPrefix [] = none := rfl

end SwcText
