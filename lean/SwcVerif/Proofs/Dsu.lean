import SwcVerif.Model.Dsu
/-! Helper lemmas about the union-find / checker models (C18). -/
namespace Dsu

end Dsu
