import SwcVerif.Model.Dsu
/-! Helper lemmas about the union-find / checker models (C18). -/
namespace Dsu

@[simp] theorem updN_same (f : Nat → Nat) (k v : Nat) : updN f k v k = v := by simp [updN]
theorem updN_other (f : Nat → Nat) (k v j : Nat) (h : j ≠ k) : updN f k v j = f j := by simp [updN, h]

/-- root by plain pointer chasing, same fuel discipline as `find` -/
def rootOf : Nat → (Nat → Nat) → Nat → Nat
  | 0, par, x => par x
  | f+1, par, x => if par x = x then x else rootOf f par (par x)

/-- invariant: ranks strictly increase along parent pointers and are bounded by `B` -/
structure DInv (par rank : Nat → Nat) (B : Nat) : Prop where
  incr : ∀ x, par x ≠ x → rank x < rank (par x)
  bnd  : ∀ x, rank x ≤ B

theorem rootOf_succ (f : Nat) (par : Nat → Nat) (x : Nat) :
    rootOf (f+1) par x = if par x = x then x else rootOf f par (par x) := rfl

theorem rootOf_self {par : Nat → Nat} {x : Nat} (h : par x = x) : ∀ f, rootOf f par x = x := by
  intro f; cases f <;> simp [rootOf, h]

theorem rootOf_is_root {par rank : Nat → Nat} {B : Nat} (h : DInv par rank B) :
    ∀ (f x : Nat), B - rank x < f → par (rootOf f par x) = rootOf f par x := by
  intro f
  induction f with
  | zero => intro x hx; omega
  | succ f ih =>
    intro x hx
    simp only [rootOf]
    split
    · assumption
    · rename_i hne
      apply ih
      have := h.incr x hne
      have := h.bnd (par x)
      omega

/-- enough fuel: result independent of the amount of fuel -/
theorem rootOf_fuel {par rank : Nat → Nat} {B : Nat} (h : DInv par rank B) :
    ∀ (f g x : Nat), B - rank x < f → B - rank x < g → rootOf f par x = rootOf g par x := by
  intro f
  induction f with
  | zero => intro g x hx; omega
  | succ f ih =>
    intro g x hf hg
    cases g with
    | zero => omega
    | succ g =>
      simp only [rootOf]
      split
      · rfl
      · rename_i hne
        have := h.incr x hne
        have := h.bnd (par x)
        apply ih <;> omega

theorem rank_le_root {par rank : Nat → Nat} {B : Nat} (h : DInv par rank B) :
    ∀ (f x : Nat), B - rank x < f → rank x ≤ rank (rootOf f par x) := by
  intro f
  induction f with
  | zero => intro x hx; omega
  | succ f ih =>
    intro x hx
    simp only [rootOf]
    split
    · exact Nat.le_refl _
    · rename_i hne
      have h1 := h.incr x hne
      have h2 := h.bnd (par x)
      have := ih (par x) (by omega)
      omega

/-- `find` returns the root, -/
theorem find_root {par rank : Nat → Nat} {B : Nat} (h : DInv par rank B) :
    ∀ (f x : Nat), B - rank x < f → (find f par x).2 = rootOf f par x := by
  intro f
  induction f with
  | zero => intro x hx; omega
  | succ f ih =>
    intro x hx
    simp only [find, rootOf]
    split
    · rfl
    · rename_i hne
      have := h.incr x hne
      have := h.bnd (par x)
      exact ih (par x) (by omega)

/-- and every cell it rewrites is rewritten to a root reachable from that cell -/
theorem find_par {par rank : Nat → Nat} {B : Nat} (h : DInv par rank B) :
    ∀ (f x : Nat), B - rank x < f →
      ∀ y, (find f par x).1 y = par y ∨
           ((find f par x).1 y = rootOf (B + 1) par y ∧ par y ≠ y) := by
  intro f
  induction f with
  | zero => intro x hx; omega
  | succ f ih =>
    intro x hx y
    simp only [find]
    split
    · left; rfl
    · rename_i hne
      have h1 := h.incr x hne
      have h2 := h.bnd (par x)
      by_cases hy : y = x
      · subst hy
        right
        refine ⟨?_, hne⟩
        simp only [updN_same]
        rw [find_root h f (par y) (by omega)]
        have e1 : rootOf (B+1) par y = rootOf f par (par y) := by
          have : rootOf (B+1) par y = rootOf (f+1) par y :=
            rootOf_fuel h (B+1) (f+1) y (by omega) (by omega)
          rw [this]; simp [rootOf, hne]
        exact e1.symm
      · have e : (updN (find f par (par x)).1 x (find f par (par x)).2, (find f par (par x)).2).1 y
            = (find f par (par x)).1 y := updN_other _ _ _ _ hy
        rw [e]
        exact ih (par x) (by omega) y

/-- compression preserves the invariant -/
theorem find_inv {par rank : Nat → Nat} {B : Nat} (h : DInv par rank B) (f x : Nat)
    (hf : B - rank x < f) : DInv (find f par x).1 rank B := by
  refine ⟨?_, h.bnd⟩
  intro y hy
  rcases find_par h f x hf y with e | ⟨e, hne⟩
  · rw [e] at hy ⊢; exact h.incr y hy
  · rw [e]
    have h1 := h.incr y hne
    have h2 := h.bnd (par y)
    have e1 : rootOf (B+1) par y = rootOf B par (par y) := by
      simp [rootOf, hne]
    rw [e1]
    have := rank_le_root h B (par y) (by omega)
    omega

/-- compression preserves every node's root -/
theorem find_rootOf {par rank : Nat → Nat} {B : Nat} (h : DInv par rank B) (f x : Nat)
    (hf : B - rank x < f) :
    ∀ (g y : Nat), B - rank y < g →
      rootOf g (find f par x).1 y = rootOf (B+1) par y := by
  intro g
  induction g with
  | zero => intro y hy; omega
  | succ g ih =>
    intro y hy
    have hroot : par (rootOf (B+1) par y) = rootOf (B+1) par y :=
      rootOf_is_root h (B+1) y (by omega)
    rw [rootOf_succ g]
    rcases find_par h f x hf y with e | ⟨e, hne⟩
    · rw [e]
      by_cases hp : par y = y
      · rw [if_pos hp, rootOf_succ B par y, if_pos hp]
      · rw [if_neg hp]
        have h1 := h.incr y hp
        have h2 := h.bnd (par y)
        rw [ih (par y) (by omega), rootOf_succ B par y, if_neg hp]
        exact rootOf_fuel h (B+1) B (par y) (by omega) (by omega)
    · rw [e]
      by_cases hp : rootOf (B+1) par y = y
      · rw [if_pos hp]; exact hp.symm
      · rw [if_neg hp]
        have hr : (find f par x).1 (rootOf (B+1) par y) = rootOf (B+1) par y := by
          rcases find_par h f x hf (rootOf (B+1) par y) with e' | ⟨_, hne'⟩
          · rw [e', hroot]
          · exact absurd hroot hne'
        cases g with
        | zero =>
          have h1 := h.incr y hne
          have h2 := h.bnd (par y)
          omega
        | succ g => rw [rootOf_succ g, if_pos hr]

/-- the two `find`s of `same` / `union`: invariant kept, every root kept, the answers are the roots -/
theorem find2 {par rank : Nat → Nat} {B : Nat} (h : DInv par rank B) (a b : Nat) :
    DInv (find (B+1) (find (B+1) par a).1 b).1 rank B ∧
    (∀ g y, B - rank y < g → rootOf g (find (B+1) (find (B+1) par a).1 b).1 y = rootOf (B+1) par y) ∧
    (find (B+1) par a).2 = rootOf (B+1) par a ∧
    (find (B+1) (find (B+1) par a).1 b).2 = rootOf (B+1) par b := by
  have ha : B - rank a < B + 1 := by omega
  have hb : B - rank b < B + 1 := by omega
  have i1 := find_inv h (B+1) a ha
  have i2 := find_inv i1 (B+1) b hb
  refine ⟨i2, ?_, find_root h _ _ ha, ?_⟩
  · intro g y hg
    rw [find_rootOf i1 (B+1) b hb g y hg]
    exact find_rootOf h (B+1) a ha (B+1) y (by omega)
  · rw [find_root i1 _ _ hb]
    exact find_rootOf h (B+1) a ha (B+1) b hb

/-- re-pointing the root `r1` to the root `r2`: every node whose root was `r1` now has root `r2`,
all other roots are unchanged -/
theorem rootOf_link {par rank par' rank' : Nat → Nat} {B B' r1 r2 : Nat}
    (h : DInv par rank B) (h' : DInv par' rank' B') (hp : par' = updN par r1 r2)
    (h1 : par r1 = r1) (h2 : par r2 = r2) (hne : r1 ≠ r2) :
    ∀ (f z : Nat), B - rank z < f →
      rootOf (B'+1) par' z = if rootOf f par z = r1 then r2 else rootOf f par z := by
  have hr2 : par' r2 = r2 := by rw [hp, updN_other _ _ _ _ (Ne.symm hne), h2]
  have hr1 : par' r1 = r2 := by rw [hp, updN_same]
  intro f
  induction f with
  | zero => intro z hz; omega
  | succ f ih =>
    intro z hz
    rw [rootOf_succ f par z]
    by_cases hpz : par z = z
    · rw [if_pos hpz]
      by_cases hz1 : z = r1
      · subst hz1
        rw [if_pos rfl, rootOf_succ, hr1, if_neg (Ne.symm hne)]
        exact rootOf_self hr2 _
      · rw [if_neg hz1]
        have : par' z = z := by rw [hp, updN_other _ _ _ _ hz1, hpz]
        exact rootOf_self this _
    · rw [if_neg hpz]
      have hz1 : z ≠ r1 := fun e => hpz (e ▸ h1)
      have e : par' z = par z := by rw [hp, updN_other _ _ _ _ hz1]
      have hpz' : par' z ≠ z := by rw [e]; exact hpz
      have i1 := h.incr z hpz
      have i2 := h.bnd (par z)
      have i1' := h'.incr z hpz'
      have i2' := h'.bnd (par' z)
      rw [e] at i1' i2'
      rw [rootOf_succ, if_neg hpz', e,
        rootOf_fuel h' B' (B'+1) (par z) (by omega) (by omega)]
      exact ih (par z) (by omega)

theorem link_rel {par rank par' rank' : Nat → Nat} {B B' r1 r2 : Nat}
    (h : DInv par rank B) (h' : DInv par' rank' B') (hp : par' = updN par r1 r2)
    (h1 : par r1 = r1) (h2 : par r2 = r2) (hne : r1 ≠ r2) (x y : Nat) :
    rootOf (B'+1) par' x = rootOf (B'+1) par' y ↔
      (rootOf (B+1) par x = rootOf (B+1) par y ∨
       (rootOf (B+1) par x = r1 ∧ rootOf (B+1) par y = r2) ∨
       (rootOf (B+1) par x = r2 ∧ rootOf (B+1) par y = r1)) := by
  rw [rootOf_link h h' hp h1 h2 hne (B+1) x (by omega), rootOf_link h h' hp h1 h2 hne (B+1) y (by omega)]
  split <;> split <;> omega

/-! ## the state-level invariant -/

def root (d : D) (x : Nat) : Nat := rootOf (d.b + 1) d.par x

/-- the structure `d` on `n` nodes represents the relation `R` (on the nodes `< n`) -/
structure DsuInv (d : D) (n : Nat) (R : Nat → Nat → Prop) : Prop where
  inv : DInv d.par d.rank d.b
  hn  : d.n = n
  rel : ∀ x y, x < n → y < n → (root d x = root d y ↔ R x y)

theorem DsuInv.congr {d : D} {n : Nat} {R R' : Nat → Nat → Prop} (h : DsuInv d n R)
    (e : ∀ x y, x < n → y < n → (R x y ↔ R' x y)) : DsuInv d n R' :=
  ⟨h.inv, h.hn, fun x y hx hy => (h.rel x y hx hy).trans (e x y hx hy)⟩

theorem init_inv (n : Nat) : DsuInv (init n) n (fun x y => x = y) := by
  refine ⟨⟨?_, ?_⟩, rfl, ?_⟩
  · intro x hx; exact absurd rfl hx
  · intro x; exact Nat.le_refl _
  · intro x y _ _
    simp [root, init, rootOf]

theorem same_fst {d : D} {n : Nat} {R : Nat → Nat → Prop} (h : DsuInv d n R) (a b : Nat)
    (ha : a < n) (hb : b < n) : (same d a b).1 = true ↔ R a b := by
  obtain ⟨_, _, ea, eb⟩ := find2 h.inv a b
  simp only [same, beq_iff_eq]
  rw [ea, eb]
  exact h.rel a b ha hb

theorem same_inv {d : D} {n : Nat} {R : Nat → Nat → Prop} (h : DsuInv d n R) (a b : Nat) :
    DsuInv (same d a b).2 n R := by
  obtain ⟨i2, hro, _, _⟩ := find2 h.inv a b
  refine ⟨i2, h.hn, ?_⟩
  intro x y hx hy
  have ex : root (same d a b).2 x = root d x := hro (d.b+1) x (by omega)
  have ey : root (same d a b).2 y = root d y := hro (d.b+1) y (by omega)
  rw [ex, ey]
  exact h.rel x y hx hy

theorem union_inv {d : D} {n : Nat} {R : Nat → Nat → Prop} (h : DsuInv d n R) (a b : Nat)
    (ha : a < n) (hb : b < n) :
    DsuInv (union d a b) n (fun x y => R x y ∨ (R x a ∧ R y b) ∨ (R x b ∧ R y a)) := by
  obtain ⟨i2, hro, ea, eb⟩ := find2 h.inv a b
  have hra : (find (d.b+1) (find (d.b+1) d.par a).1 b).1 (root d a) = root d a := by
    have := rootOf_is_root i2 (d.b+1) a (by omega)
    rwa [hro (d.b+1) a (by omega)] at this
  have hrb : (find (d.b+1) (find (d.b+1) d.par a).1 b).1 (root d b) = root d b := by
    have := rootOf_is_root i2 (d.b+1) b (by omega)
    rwa [hro (d.b+1) b (by omega)] at this
  have hR : ∀ x y, x < n → y < n → (root d x = root d y ↔ R x y) := h.rel
  have hroot : ∀ z, rootOf (d.b+1) (find (d.b+1) (find (d.b+1) d.par a).1 b).1 z = root d z :=
    fun z => hro (d.b+1) z (by omega)
  have fin : ∀ x y, x < n → y < n → ∀ P : Prop,
      (P ↔ (root d x = root d y ∨ (root d x = root d a ∧ root d y = root d b) ∨
        (root d x = root d b ∧ root d y = root d a))) →
      (P ↔ (R x y ∨ (R x a ∧ R y b) ∨ (R x b ∧ R y a))) := by
    intro x y hx hy P hP
    rw [hP, hR x y hx hy, hR x a hx ha, hR y b hy hb, hR x b hx hb, hR y a hy ha]
  simp only [union]
  rw [ea, eb]
  split
  · rename_i hc
    refine ⟨i2, h.hn, ?_⟩
    intro x y hx hy
    apply fin x y hx hy
    show rootOf (d.b+1) _ x = rootOf (d.b+1) _ y ↔ _
    rw [hroot x, hroot y]
    unfold root at *
    omega
  · rename_i hc
    split
    · rename_i hlt
      have h' : DInv (updN (find (d.b+1) (find (d.b+1) d.par a).1 b).1 (root d a) (root d b)) d.rank d.b := by
        refine ⟨?_, h.inv.bnd⟩
        intro z hz
        by_cases e : z = root d a
        · subst e; rw [updN_same]; exact hlt
        · rw [updN_other _ _ _ _ e] at hz ⊢; exact i2.incr z hz
      refine ⟨h', h.hn, ?_⟩
      intro x y hx hy
      apply fin x y hx hy
      have := link_rel i2 h' rfl hra hrb hc x y
      rw [hroot x, hroot y] at this
      exact this
    · rename_i hnlt
      split
      · rename_i hgt
        have h' : DInv (updN (find (d.b+1) (find (d.b+1) d.par a).1 b).1 (root d b) (root d a)) d.rank d.b := by
          refine ⟨?_, h.inv.bnd⟩
          intro z hz
          by_cases e : z = root d b
          · subst e; rw [updN_same]; exact hgt
          · rw [updN_other _ _ _ _ e] at hz ⊢; exact i2.incr z hz
        refine ⟨h', h.hn, ?_⟩
        intro x y hx hy
        apply fin x y hx hy
        have := link_rel i2 h' rfl hrb hra (Ne.symm hc) x y
        rw [hroot x, hroot y] at this
        refine Iff.trans this ?_
        unfold root at *
        omega
      · rename_i hngt
        have heq : d.rank (root d a) = d.rank (root d b) := by
          unfold root at *; omega
        have h' : DInv (updN (find (d.b+1) (find (d.b+1) d.par a).1 b).1 (root d b) (root d a))
            (updN d.rank (root d a) (d.rank (root d a) + 1)) (d.b + 1) := by
          refine ⟨?_, ?_⟩
          · intro z hz
            by_cases e : z = root d b
            · subst e
              have hc' : root d b ≠ root d a := Ne.symm hc
              rw [updN_same, updN_same, updN_other _ _ _ _ hc']
              omega
            · rw [updN_other _ _ _ _ e] at hz ⊢
              have hza : z ≠ root d a := fun e' => hz (e' ▸ hra)
              rw [updN_other _ _ _ _ hza]
              have := i2.incr z hz
              by_cases e2 : (find (d.b+1) (find (d.b+1) d.par a).1 b).1 z = root d a
              · rw [e2] at this ⊢; rw [updN_same]; omega
              · rw [updN_other _ _ _ _ e2]; exact this
          · intro z
            have := h.inv.bnd z
            have := h.inv.bnd (root d a)
            simp only [updN]
            split <;> omega
        refine ⟨h', h.hn, ?_⟩
        intro x y hx hy
        apply fin x y hx hy
        have := link_rel i2 h' rfl hrb hra (Ne.symm hc) x y
        rw [hroot x, hroot y] at this
        refine Iff.trans this ?_
        unfold root at *
        omega

/-! ## pointer jumping -/

def jumpStep (acc : List Nat × Bool) (i : Nat) : List Nat × Bool :=
  if acc.1.getD i 0 ≠ acc.1.getD (acc.1.getD i 0) 0 then (acc.1.set i (acc.1.getD (acc.1.getD i 0) 0), false)
  else acc

theorem jumpPass_eq (dsu : List Nat) :
    jumpPass dsu = (List.range dsu.length).foldl jumpStep (dsu, true) := rfl

theorem jumpStep_length (acc : List Nat × Bool) (i : Nat) : (jumpStep acc i).1.length = acc.1.length := by
  unfold jumpStep; split <;> simp

theorem jumpFold_length : ∀ (is : List Nat) (acc : List Nat × Bool),
    (is.foldl jumpStep acc).1.length = acc.1.length
  | [], _ => rfl
  | i :: t, acc => by rw [List.foldl_cons, jumpFold_length t, jumpStep_length]

theorem jumpPass_length (dsu : List Nat) : (jumpPass dsu).1.length = dsu.length := by
  rw [jumpPass_eq, jumpFold_length]

/-- the flag survives a pass only if no step fired: nothing changed, every visited entry was a fixed point -/
theorem jumpFold_true : ∀ (is : List Nat) (acc : List Nat × Bool), (is.foldl jumpStep acc).2 = true →
    acc.2 = true ∧ is.foldl jumpStep acc = acc ∧
      ∀ i ∈ is, acc.1.getD (acc.1.getD i 0) 0 = acc.1.getD i 0 := by
  intro is
  induction is with
  | nil => intro acc h; exact ⟨h, rfl, by simp⟩
  | cons i t ih =>
    intro acc h
    rw [List.foldl_cons] at h ⊢
    obtain ⟨h1, h2, h3⟩ := ih (jumpStep acc i) h
    by_cases hp : acc.1.getD i 0 ≠ acc.1.getD (acc.1.getD i 0) 0
    · have e : jumpStep acc i = (acc.1.set i (acc.1.getD (acc.1.getD i 0) 0), false) := by
        simp only [jumpStep, if_pos hp]
      rw [e] at h1
      exact absurd h1 (by simp)
    · have e : jumpStep acc i = acc := by simp only [jumpStep, if_neg hp]
      rw [e] at h1 h2 h3 ⊢
      refine ⟨h1, h2, ?_⟩
      intro j hj
      rcases List.mem_cons.1 hj with rfl | hj
      · exact (Decidable.not_not.1 hp).symm
      · exact h3 j hj

theorem jumpPass_true (dsu : List Nat) (h : (jumpPass dsu).2 = true) :
    (jumpPass dsu).1 = dsu ∧ ∀ i (hi : i < dsu.length), dsu.getD (dsu[i]) 0 = dsu[i] := by
  rw [jumpPass_eq] at h ⊢
  obtain ⟨_, h2, h3⟩ := jumpFold_true _ _ h
  refine ⟨by rw [h2], ?_⟩
  intro i hi
  have := h3 i (List.mem_range.2 hi)
  simpa [List.getD_eq_getElem?_getD, hi] using this

theorem jumpLoop_spec : ∀ (f : Nat) (dsu l : List Nat), jumpLoop f dsu = some l →
    l.length = dsu.length ∧ ∀ i (hi : i < l.length), l.getD (l[i]) 0 = l[i] := by
  intro f
  induction f with
  | zero => intro dsu l h; simp [jumpLoop] at h
  | succ f ih =>
    intro dsu l h
    simp only [jumpLoop] at h
    split at h
    · rename_i hf
      obtain ⟨e, hfix⟩ := jumpPass_true dsu hf
      have : l = dsu := by rw [← e]; exact (Option.some.inj h).symm
      subst this
      exact ⟨rfl, hfix⟩
    · obtain ⟨e, hfix⟩ := ih _ l h
      exact ⟨by rw [e, jumpPass_length], hfix⟩

theorem mapM_option_length {α β : Type} (f : α → Option β) : ∀ (xs : List α) (ys : List β),
    xs.mapM f = some ys → ys.length = xs.length := by
  intro xs
  induction xs with
  | nil => intro ys h; simp at h; subst h; rfl
  | cons x t ih =>
    intro ys h
    rw [List.mapM_cons] at h
    cases hx : f x with
    | none => simp [hx] at h
    | some y =>
      cases ht : t.mapM f with
      | none => simp [hx, ht] at h
      | some ys' =>
        simp [hx, ht] at h
        subst h
        simp [ih ys' ht]

theorem dsuInit_length (ids pids : List Int) (l : List Nat) (h : dsuInit ids pids = some l) :
    l.length = min ids.length pids.length := by
  have := mapM_option_length _ _ _ h
  simpa using this

/-! ## pointer jumping on a sorted forest -/

/-- the list `l` tabulates `g` on `0..n-1` -/
def Tab (l : List Nat) (n : Nat) (g : Nat → Nat) : Prop :=
  l.length = n ∧ ∀ j, j < n → l.getD j 0 = g j

theorem Tab.congr {l : List Nat} {n : Nat} {g g' : Nat → Nat} (h : Tab l n g)
    (e : ∀ j, j < n → g j = g' j) : Tab l n g' :=
  ⟨h.1, fun j hj => (h.2 j hj).trans (e j hj)⟩

theorem jumpStep_tab {acc : List Nat × Bool} {n : Nat} {g : Nat → Nat} {i : Nat}
    (h : Tab acc.1 n g) (hi : i < n) (hg : g i < n) :
    Tab (jumpStep acc i).1 n (updN g i (g (g i))) := by
  have e1 : acc.1.getD i 0 = g i := h.2 i hi
  have e2 : acc.1.getD (g i) 0 = g (g i) := h.2 (g i) hg
  unfold jumpStep
  rw [e1, e2]
  by_cases hp : g i ≠ g (g i)
  · rw [if_pos hp]
    refine ⟨by simp [h.1], ?_⟩
    intro j hj
    by_cases hji : j = i
    · subst hji
      have : j < acc.1.length := by rw [h.1]; exact hj
      simp [List.getD_eq_getElem?_getD, List.getElem?_set, this]
    · rw [updN_other _ _ _ _ hji, ← h.2 j hj]
      simp [List.getD_eq_getElem?_getD, List.getElem?_set, Ne.symm hji]
  · rw [if_neg hp]
    refine ⟨h.1, ?_⟩
    intro j hj
    by_cases hji : j = i
    · subst hji
      rw [updN_same, h.2 j hj]
      exact Decidable.not_not.1 hp
    · rw [updN_other _ _ _ _ hji, h.2 j hj]

theorem jumpFold_range_tab (n : Nat) (l0 : List Nat) (G : Nat → Nat → Nat)
    (h0 : Tab l0 n (G 0))
    (hG : ∀ i, i < n → G i i < n ∧ ∀ j, j < n → updN (G i) i (G i (G i i)) j = G (i+1) j) :
    ∀ i, i ≤ n → Tab ((List.range i).foldl jumpStep (l0, true)).1 n (G i) := by
  intro i
  induction i with
  | zero => intro _; exact h0
  | succ i ih =>
    intro hi
    rw [List.range_succ, List.foldl_append, List.foldl_cons, List.foldl_nil]
    have := jumpStep_tab (ih (by omega)) (by omega : i < n) (hG i (by omega)).1
    exact this.congr (hG i (by omega)).2

theorem jumpFold_fix : ∀ (is : List Nat) (acc : List Nat × Bool),
    (∀ i ∈ is, acc.1.getD (acc.1.getD i 0) 0 = acc.1.getD i 0) → is.foldl jumpStep acc = acc := by
  intro is
  induction is with
  | nil => intro acc _; rfl
  | cons i t ih =>
    intro acc h
    have e : jumpStep acc i = acc := by
      unfold jumpStep
      rw [if_neg]
      intro hne
      exact hne (h i List.mem_cons_self).symm
    rw [List.foldl_cons, e]
    exact ih acc (fun j hj => h j (List.mem_cons_of_mem _ hj))

theorem jumpLoop_two (f : Nat) (l0 : List Nat)
    (hfix : ∀ i, i < (jumpPass l0).1.length →
      (jumpPass l0).1.getD ((jumpPass l0).1.getD i 0) 0 = (jumpPass l0).1.getD i 0) :
    jumpLoop (f+2) l0 = some (jumpPass l0).1 := by
  have e : jumpPass (jumpPass l0).1 = ((jumpPass l0).1, true) := by
    rw [jumpPass_eq (jumpPass l0).1]
    exact jumpFold_fix _ _ (fun i hi => hfix i (List.mem_range.1 hi))
  simp only [jumpLoop]
  split
  · rfl
  · rw [e]; simp

theorem mapM_option_eq_some {α β : Type} (f : α → Option β) (g : α → β) : ∀ (xs : List α),
    (∀ x ∈ xs, f x = some (g x)) → xs.mapM f = some (xs.map g) := by
  intro xs
  induction xs with
  | nil => intro _; simp
  | cons x t ih =>
    intro h
    rw [List.mapM_cons, h x List.mem_cons_self, ih (fun y hy => h y (List.mem_cons_of_mem _ hy))]
    simp

theorem idxOf?_range (n m : Nat) (h : m < n) :
    idxOf? ((List.range n).map Int.ofNat) (m : Int) = some m := by
  have nd : ((List.range n).map Int.ofNat).Nodup := by
    rw [List.Nodup, List.pairwise_map]
    exact List.nodup_range.imp (fun hne e => hne (Int.ofNat.inj e))
  have := nd.idxOf_getElem m (by simpa using h)
  simp only [List.getElem_map, List.getElem_range] at this
  unfold idxOf?
  simp only []
  rw [show ((m : Nat) : Int) = Int.ofNat m from rfl, this]
  simp [h]

/-! ## root repair -/

theorem foldl_choice {α : Type} (g : α → α → α) (hg : ∀ a x, g a x = a ∨ g a x = x) :
    ∀ (l : List α) (a : α), l.foldl g a = a ∨ l.foldl g a ∈ l := by
  intro l
  induction l with
  | nil => intro a; exact Or.inl rfl
  | cons x t ih =>
    intro a
    rw [List.foldl_cons]
    rcases ih (g a x) with e | e
    · rcases hg a x with e' | e'
      · left; rw [e, e']
      · right; rw [e, e']; exact List.mem_cons_self
    · exact Or.inr (List.mem_cons_of_mem _ e)

theorem argminOpt_lt (l : List (Option Int)) (h : 0 < l.length) : argminOpt l < l.length := by
  unfold argminOpt
  simp only []
  split
  · exact h
  · rename_i m hm
    apply List.idxOf_lt_length_of_mem
    have key : ∀ g : Option Int → Option Int → Option Int, (∀ a x, g a x = a ∨ g a x = x) →
        l.foldl g none = some m → some m ∈ l := by
      intro g hg hm
      have := foldl_choice g hg l none
      rw [hm] at this
      rcases this with e | e
      · exact absurd e (by simp)
      · exact e
    refine key _ ?_ hm
    intro a x
    cases a with
    | none => exact Or.inr rfl
    | some a =>
      cases x with
      | none => exact Or.inl rfl
      | some b =>
        by_cases hlt : b < a
        · right; simp [hlt]
        · left; simp [hlt]

/-- the row chosen for root `i` -/
def nearestOf (ids : List Int) (dist2 : Nat → Nat → Int) (i : Nat) (dsu : List Nat) : Nat :=
  argminOpt ((List.range ids.length).map fun j =>
    if dsu.getD j 0 = dsu.getD i 0 then none else some (dist2 i j))

theorem linkLoop_cons (ids : List Int) (dist2 : Nat → Nat → Int) (i : Nat) (rest : List Nat)
    (pids : List Int) (dsu : List Nat) :
    linkLoop ids dist2 (i :: rest) pids dsu =
      linkLoop ids dist2 rest (pids.set i (ids.getD (nearestOf ids dist2 i dsu) 0))
        (dsu.map fun l => if l = dsu.getD i 0 then dsu.getD (nearestOf ids dist2 i dsu) 0 else l) := rfl

theorem nearestOf_lt (ids : List Int) (dist2 : Nat → Nat → Int) (i : Nat) (dsu : List Nat)
    (hpos : 0 < ids.length) : nearestOf ids dist2 i dsu < ids.length := by
  have := argminOpt_lt ((List.range ids.length).map fun j =>
    if dsu.getD j 0 = dsu.getD i 0 then none else some (dist2 i j)) (by simpa using hpos)
  simpa [nearestOf] using this

theorem linkLoop_spec (ids : List Int) (dist2 : Nat → Nat → Int) (hpos : 0 < ids.length) :
    ∀ (rs : List Nat) (pids : List Int) (dsu : List Nat),
      (linkLoop ids dist2 rs pids dsu).length = pids.length ∧
      (∀ k (h1 : k < (linkLoop ids dist2 rs pids dsu).length) (h2 : k < pids.length), k ∉ rs →
        (linkLoop ids dist2 rs pids dsu)[k] = pids[k]) ∧
      (∀ k (h1 : k < (linkLoop ids dist2 rs pids dsu).length), k ∈ rs →
        (linkLoop ids dist2 rs pids dsu)[k] ∈ ids) := by
  intro rs
  induction rs with
  | nil => intro pids dsu; simp [linkLoop]
  | cons i rest ih =>
    intro pids dsu
    rw [linkLoop_cons]
    have hklt := nearestOf_lt ids dist2 i dsu hpos
    generalize nearestOf ids dist2 i dsu = k at hklt ⊢
    have hv : ids.getD k 0 ∈ ids := by
      have : ids.getD k 0 = ids[k] := by simp [List.getD_eq_getElem?_getD, hklt]
      rw [this]; exact List.getElem_mem hklt
    obtain ⟨l1, l2, l3⟩ := ih (pids.set i (ids.getD k 0))
      (dsu.map fun l => if l = dsu.getD i 0 then dsu.getD k 0 else l)
    refine ⟨by rw [l1, List.length_set], ?_, ?_⟩
    · intro j h1 h2 hj
      have hji : j ≠ i := fun e => hj (e ▸ List.mem_cons_self)
      have hjr : j ∉ rest := fun e => hj (List.mem_cons_of_mem _ e)
      rw [l2 j h1 (by rw [List.length_set]; exact h2) hjr, List.getElem_set_ne (Ne.symm hji)]
    · intro j h1 hj
      by_cases hjr : j ∈ rest
      · exact l3 j h1 hjr
      · have hji : j = i := by
          rcases List.mem_cons.1 hj with e | e
          · exact e
          · exact absurd e hjr
        have h2 : j < (pids.set i (ids.getD k 0)).length := by rw [← l1]; exact h1
        rw [l2 j h1 h2 hjr]
        subst hji
        rw [List.getElem_set_self]
        exact hv

theorem firstRootLoc_min : ∀ (pids : List Int) (k : Nat), pids.getD k 0 = -1 → firstRootLoc pids ≤ k
  | [], k, h => by simp [firstRootLoc]
  | p :: ps, k, h => by
    by_cases e : p = -1
    · simp [firstRootLoc, e]
    · simp only [firstRootLoc, if_neg e]
      cases k with
      | zero => simp at h; exact absurd h e
      | succ k =>
        have := firstRootLoc_min ps k (by simpa using h)
        omega

theorem mem_drop_one_of_sorted {l : List Nat} (hs : l.Pairwise (· < ·)) {m : Nat} (hm : m ∈ l)
    (hmin : ∀ x ∈ l, m ≤ x) (x : Nat) : x ∈ l.drop 1 ↔ x ∈ l ∧ x ≠ m := by
  cases l with
  | nil => simp at hm
  | cons h t =>
    rw [List.pairwise_cons] at hs
    have hmh : m = h := by
      rcases List.mem_cons.1 hm with e | e
      · exact e
      · have := hs.1 m e
        have := hmin h List.mem_cons_self
        omega
    subst hmh
    simp only [List.drop_one, List.tail_cons, List.mem_cons]
    constructor
    · intro hx
      have := hs.1 x hx
      exact ⟨Or.inr hx, by omega⟩
    · rintro ⟨e | e, hne⟩
      · exact absurd e hne
      · exact e

end Dsu
