import SwcVerif.Proofs.Dsu
/-! `link_roots_to_nearest_` keeps the table a forest.

The loop state is the parent column and the component labels.  Invariant `LInv`: the column is a valid
table, some measure `dp` drops along every parent pointer (acyclic), labels are constant along every
parent pointer, and two different roots never share a label.  Linking a root `i` below any row `k` whose
label differs from `i`'s keeps all four (new measure: the whole tree of `i` is shifted below `k`), and the
masked `argmin` always returns such a row as long as one other root is left. -/
namespace Dsu

/-! ## the masked argmin picks an unmasked row whenever there is one -/

theorem amFold_some (g : Option Int → Option Int → Option Int)
    (hg : ∀ a x, ∃ m, g (some a) x = some m) : ∀ (l : List (Option Int)) (a : Int), ∃ m, l.foldl g (some a) = some m
  | [], a => ⟨a, rfl⟩
  | x :: t, a => by
    obtain ⟨m, hm⟩ := hg a x
    rw [List.foldl_cons, hm]
    exact amFold_some g hg t m

theorem amFold_none (g : Option Int → Option Int → Option Int)
    (hg : ∀ a x, ∃ m, g (some a) x = some m) (hn : ∀ x, g none x = x) :
    ∀ (l : List (Option Int)), (∃ x ∈ l, x ≠ none) → ∃ m, l.foldl g none = some m
  | [], h => by obtain ⟨x, hx, _⟩ := h; simp at hx
  | x :: t, h => by
    rw [List.foldl_cons, hn]
    cases x with
    | some a => exact amFold_some g hg t a
    | none =>
      apply amFold_none g hg hn t
      obtain ⟨y, hy, hne⟩ := h
      rcases List.mem_cons.1 hy with e | e
      · exact absurd e hne
      · exact ⟨y, e, hne⟩

/-- the fold step of `argminOpt`, named -/
def amStep (acc x : Option Int) : Option Int :=
  match acc, x with
  | none, x => x
  | some a, some b => if b < a then some b else some a
  | some a, none => some a

theorem argminOpt_eq (l : List (Option Int)) :
    argminOpt l = match l.foldl amStep none with
      | none => 0
      | some m => l.idxOf (some m) := rfl

theorem amStep_some (a : Int) (x : Option Int) : ∃ m, amStep (some a) x = some m := by
  cases x with
  | none => exact ⟨a, rfl⟩
  | some b =>
    by_cases hlt : b < a
    · exact ⟨b, by simp [amStep, hlt]⟩
    · exact ⟨a, by simp [amStep, hlt]⟩

theorem amStep_choice (a x : Option Int) : amStep a x = a ∨ amStep a x = x := by
  cases a with
  | none => exact Or.inr rfl
  | some a =>
    cases x with
    | none => exact Or.inl rfl
    | some b =>
      by_cases hlt : b < a
      · right; simp [amStep, hlt]
      · left; simp [amStep, hlt]

theorem argminOpt_some (l : List (Option Int)) (h : ∃ x ∈ l, x ≠ none) :
    ∃ (hk : argminOpt l < l.length) (m : Int), l[argminOpt l] = some m := by
  rw [argminOpt_eq]
  obtain ⟨m, hm⟩ := amFold_none amStep amStep_some (fun x => rfl) l h
  rw [hm]
  simp only []
  have hmem : some m ∈ l := by
    have := foldl_choice amStep amStep_choice l none
    rw [hm] at this
    rcases this with e | e
    · exact absurd e (by simp)
    · exact e
  have hlt := List.idxOf_lt_length_of_mem hmem
  exact ⟨hlt, m, List.getElem_idxOf hlt⟩

/-- the row chosen for root `i` carries another label, as long as some row does -/
theorem nearestOf_other (ids : List Int) (dist2 : Nat → Nat → Int) (i : Nat) (dsu : List Nat)
    (h : ∃ j, j < ids.length ∧ dsu.getD j 0 ≠ dsu.getD i 0) :
    nearestOf ids dist2 i dsu < ids.length ∧ dsu.getD (nearestOf ids dist2 i dsu) 0 ≠ dsu.getD i 0 := by
  obtain ⟨j, hj, hne⟩ := h
  have hex : ∃ x ∈ ((List.range ids.length).map fun j =>
      if dsu.getD j 0 = dsu.getD i 0 then none else some (dist2 i j)), x ≠ none := by
    refine ⟨some (dist2 i j), ?_, by simp⟩
    rw [List.mem_map]
    exact ⟨j, List.mem_range.2 hj, by rw [if_neg hne]⟩
  obtain ⟨hk, m, hm⟩ := argminOpt_some _ hex
  have hk' : nearestOf ids dist2 i dsu < ids.length := by simpa [nearestOf] using hk
  refine ⟨hk', ?_⟩
  intro e
  have : ((List.range ids.length).map fun j =>
      if dsu.getD j 0 = dsu.getD i 0 then none else some (dist2 i j))[nearestOf ids dist2 i dsu]'(by simpa using hk') = none := by
    simp only [List.getElem_map, List.getElem_range]
    rw [if_pos e]
  unfold nearestOf at this
  rw [hm] at this
  exact absurd this (by simp)

/-! ## the loop invariant -/

structure LInv (n : Nat) (pids : List Int) (dsu : List Nat) (dp : Nat → Nat) : Prop where
  lp : pids.length = n
  ld : dsu.length = n
  valid : ∀ k (h : k < pids.length), pids[k] = -1 ∨ (0 ≤ pids[k] ∧ pids[k] < n)
  drop : ∀ k (h : k < pids.length), pids[k] ≠ -1 → dp (pids[k]).toNat < dp k
  edge : ∀ k (h : k < pids.length), pids[k] ≠ -1 → dsu.getD (pids[k]).toNat 0 = dsu.getD k 0
  roots : ∀ a b (ha : a < pids.length) (hb : b < pids.length), pids[a] = -1 → pids[b] = -1 →
    dsu.getD a 0 = dsu.getD b 0 → a = b

theorem getD_relabel (dsu : List Nat) (lab newLab x : Nat) (hx : x < dsu.length) :
    (dsu.map fun l => if l = lab then newLab else l).getD x 0 = if dsu.getD x 0 = lab then newLab else dsu.getD x 0 := by
  simp [List.getD_eq_getElem?_getD, hx]

/-- linking root `i` below a row `k` of another label keeps the invariant -/
theorem LInv.link {n : Nat} {pids : List Int} {dsu : List Nat} {dp : Nat → Nat} (h : LInv n pids dsu dp)
    (i k : Nat) (hi : i < pids.length) (hroot : pids[i] = -1) (hk : k < n) (hne : dsu.getD k 0 ≠ dsu.getD i 0) :
    LInv n (pids.set i (k : Int)) (dsu.map fun l => if l = dsu.getD i 0 then dsu.getD k 0 else l)
      (fun x => if dsu.getD x 0 = dsu.getD i 0 then dp x + dp k + 1 else dp x) := by
  have hn : pids.length = n := h.lp
  have hlab : ∀ x, x < n → (dsu.map fun l => if l = dsu.getD i 0 then dsu.getD k 0 else l).getD x 0
      = if dsu.getD x 0 = dsu.getD i 0 then dsu.getD k 0 else dsu.getD x 0 :=
    fun x hx => getD_relabel dsu _ _ x (by rw [h.ld]; exact hx)
  have hget : ∀ x (hx : x < (pids.set i (k : Int)).length), (pids.set i (k : Int))[x] =
      if i = x then (k : Int) else pids[x]'(by simpa using hx) := by
    intro x hx; rw [List.getElem_set]
  refine ⟨by simp [hn], by simp [h.ld], ?_, ?_, ?_, ?_⟩
  · intro x hx
    have hx' : x < pids.length := by simpa using hx
    rw [hget x hx]
    by_cases e : i = x
    · rw [if_pos e]; right; omega
    · rw [if_neg e]; exact h.valid x hx'
  · intro x hx hnr
    have hx' : x < pids.length := by simpa using hx
    rw [hget x hx] at hnr ⊢
    by_cases e : i = x
    · subst e
      rw [if_pos rfl]
      simp only [Int.toNat_natCast]
      simp only [if_neg hne, if_true]
      omega
    · rw [if_neg e] at hnr ⊢
      have hd := h.drop x hx' hnr
      have he := h.edge x hx' hnr
      rw [he]
      by_cases c : dsu.getD x 0 = dsu.getD i 0
      · rw [if_pos c, if_pos c]; omega
      · rw [if_neg c, if_neg c]; exact hd
  · intro x hx hnr
    have hx' : x < pids.length := by simpa using hx
    have hxn : x < n := hn ▸ hx'
    rw [hget x hx] at hnr ⊢
    by_cases e : i = x
    · subst e
      rw [if_pos rfl]
      simp only [Int.toNat_natCast]
      rw [hlab k hk, hlab i hxn, if_neg hne, if_pos rfl]
    · rw [if_neg e] at hnr ⊢
      have he := h.edge x hx' hnr
      have hpn : (pids[x]).toNat < n := by
        rcases h.valid x hx' with c | ⟨c0, c1⟩
        · exact absurd c hnr
        · omega
      rw [hlab _ hpn, hlab x hxn, he]
  · intro a b ha hb ra rb hab
    have ha' : a < pids.length := by simpa using ha
    have hb' : b < pids.length := by simpa using hb
    rw [hget a ha] at ra
    rw [hget b hb] at rb
    have hai : i ≠ a := by
      intro e; rw [if_pos e] at ra; omega
    have hbi : i ≠ b := by
      intro e; rw [if_pos e] at rb; omega
    rw [if_neg hai] at ra
    rw [if_neg hbi] at rb
    have la : dsu.getD a 0 ≠ dsu.getD i 0 := fun e => hai (h.roots a i ha' hi ra hroot e).symm
    have lb : dsu.getD b 0 ≠ dsu.getD i 0 := fun e => hbi (h.roots b i hb' hi rb hroot e).symm
    rw [hlab a (hn ▸ ha'), hlab b (hn ▸ hb'), if_neg la, if_neg lb] at hab
    exact h.roots a b ha' hb' ra rb hab

theorem getD_range_ofNat (n k : Nat) (hk : k < n) : ((List.range n).map Int.ofNat).getD k 0 = (k : Int) := by
  simp [List.getD_eq_getElem?_getD, hk]

/-- **the whole loop**: every listed root is linked; the invariant holds at the end -/
theorem linkLoop_inv (n : Nat) (dist2 : Nat → Nat → Int) :
    ∀ (rs : List Nat) (pids : List Int) (dsu : List Nat) (dp : Nat → Nat), LInv n pids dsu dp → rs.Nodup →
      (∀ i ∈ rs, ∃ h : i < pids.length, pids[i] = -1) →
      (∃ r, ∃ h : r < pids.length, pids[r] = -1 ∧ r ∉ rs) →
      ∃ dsu' dp', LInv n (linkLoop ((List.range n).map Int.ofNat) dist2 rs pids dsu) dsu' dp' := by
  intro rs
  induction rs with
  | nil => intro pids dsu dp h _ _ _; exact ⟨dsu, dp, by simpa [linkLoop] using h⟩
  | cons i rest ih =>
    intro pids dsu dp h hnd hrs hfirst
    obtain ⟨hi, hroot⟩ := hrs i List.mem_cons_self
    obtain ⟨r, hr, hrroot, hrn⟩ := hfirst
    have hri : r ≠ i := fun e => hrn (e ▸ List.mem_cons_self)
    have hlen : ((List.range n).map Int.ofNat).length = n := by simp
    have hother : ∃ j, j < ((List.range n).map Int.ofNat).length ∧ dsu.getD j 0 ≠ dsu.getD i 0 :=
      ⟨r, by rw [hlen, ← h.lp]; exact hr, fun e => hri (h.roots r i hr hi hrroot hroot e)⟩
    obtain ⟨hk, hne⟩ := nearestOf_other _ dist2 i dsu hother
    rw [linkLoop_cons]
    generalize nearestOf ((List.range n).map Int.ofNat) dist2 i dsu = k at hk hne ⊢
    rw [hlen] at hk
    rw [getD_range_ofNat n k hk]
    have hstep := h.link i k hi hroot hk hne
    rw [List.nodup_cons] at hnd
    apply ih _ _ _ hstep hnd.2
    · intro j hj
      obtain ⟨hj1, hj2⟩ := hrs j (List.mem_cons_of_mem _ hj)
      have hji : i ≠ j := fun e => hnd.1 (e ▸ hj)
      exact ⟨by simpa using hj1, by rw [List.getElem_set_ne hji]; exact hj2⟩
    · exact ⟨r, by simpa using hr, by rw [List.getElem_set_ne (Ne.symm hri)]; exact hrroot,
        fun e => hrn (List.mem_cons_of_mem _ e)⟩

end Dsu
