import SwcVerif.Props.C05
import Mathlib.Data.List.Nodup
/-! Renaming the ids of a tree table by an injective map that keeps the "no parent" marker `-1`:
the table of the renamed tree is the renamed table.  Used to carry the representation lemma from
position-indexed tables (ids `0..n-1`) to tables whose ids have gaps (`cat_tree` after a junction row was
deleted). -/
namespace Relabel
open SortM

mutual
def mapRose (g : Int → Int) : Rose → Rose
  | .node i ks => .node (g i) (mapRoseL g ks)
def mapRoseL (g : Int → Int) : List Rose → List Rose
  | [] => []
  | r :: rs => mapRose g r :: mapRoseL g rs
end

theorem mapRose_id (g : Int → Int) : ∀ r : Rose, (mapRose g r).id = g r.id
  | .node i ks => by simp [mapRose, Rose.id]

theorem mapRoseL_ids (g : Int → Int) : ∀ ks : List Rose, (mapRoseL g ks).map Rose.id = (ks.map Rose.id).map g
  | [] => rfl
  | r :: rs => by simp [mapRoseL, mapRose_id, mapRoseL_ids g rs]

mutual
theorem mapRose_allIds (g : Int → Int) : ∀ r : Rose, (mapRose g r).ids = r.ids.map g
  | .node i ks => by simp [mapRose, Rose.ids, mapRoseL_allIds g ks]
theorem mapRoseL_allIds (g : Int → Int) : ∀ ks : List Rose, idsL (mapRoseL g ks) = (idsL ks).map g
  | [] => rfl
  | r :: rs => by simp [mapRoseL, idsL, mapRose_allIds g r, mapRoseL_allIds g rs]
end

theorem tableKids_map (g : Int → Int) (hg : Function.Injective g) :
    ∀ (ids pids : List Int) (q : Int), tableKids (ids.map g) (pids.map g) (g q) = (tableKids ids pids q).map g
  | [], _, _ => by simp [tableKids]
  | _ :: _, [], _ => by simp [tableKids]
  | i :: is, p :: ps, q => by
    simp only [List.map_cons, tableKids]
    by_cases h : p = q
    · rw [if_pos h, if_pos (congrArg g h), List.map_cons, tableKids_map g hg is ps q]
    · rw [if_neg h, if_neg (fun e => h (hg e)), tableKids_map g hg is ps q]

mutual
theorem agrees_map (g : Int → Int) (hg : Function.Injective g) (ids pids : List Int) :
    ∀ r : Rose, Agrees (tableKids ids pids) r → Agrees (tableKids (ids.map g) (pids.map g)) (mapRose g r)
  | .node i ks, h => by
    simp only [mapRose, Agrees] at h ⊢
    refine ⟨?_, agreesL_map g hg ids pids ks h.2⟩
    rw [tableKids_map g hg, h.1, mapRoseL_ids]
theorem agreesL_map (g : Int → Int) (hg : Function.Injective g) (ids pids : List Int) :
    ∀ ks : List Rose, AgreesL (tableKids ids pids) ks → AgreesL (tableKids (ids.map g) (pids.map g)) (mapRoseL g ks)
  | [], _ => trivial
  | r :: rs, h => ⟨agrees_map g hg ids pids r h.1, agreesL_map g hg ids pids rs h.2⟩
end

theorem countRoots_map (g : Int → Int) (hg : Function.Injective g) (h1 : g (-1) = -1) (pids : List Int) :
    countRoots (pids.map g) = countRoots pids := by
  unfold countRoots
  induction pids with
  | nil => rfl
  | cons p ps ih =>
    have e : (g p = -1) ↔ (p = -1) := ⟨fun h => hg (h.trans h1.symm), fun h => by rw [h, h1]⟩
    simp only [List.map_cons, List.filter_cons]
    by_cases hp : p = -1
    · simp [hp, h1, ih]
    · have : ¬ g p = -1 := fun h => hp (e.mp h)
      simp [hp, this, ih]

theorem firstRoot_map (g : Int → Int) (hg : Function.Injective g) (h1 : g (-1) = -1) :
    ∀ (ids pids : List Int), firstRoot (ids.map g) (pids.map g) = (firstRoot ids pids).map g
  | [], _ => by simp [firstRoot]
  | _ :: _, [] => by simp [firstRoot]
  | i :: is, p :: ps => by
    simp only [List.map_cons, firstRoot]
    by_cases hp : p = -1
    · rw [if_pos hp, if_pos (by rw [hp, h1])]; rfl
    · rw [if_neg hp, if_neg (fun h => hp (hg (h.trans h1.symm))), firstRoot_map g hg h1 is ps]

/-- **the renamed tree is the tree of the renamed table** -/
theorem isTreeTable_map (g : Int → Int) (hg : Function.Injective g) (h1 : g (-1) = -1) (r : Rose) (ids pids : List Int)
    (h : C05.IsTreeTable r ids pids) : C05.IsTreeTable (mapRose g r) (ids.map g) (pids.map g) := by
  obtain ⟨⟨hA, hnd⟩, hperm, hlen, hroots, hfirst⟩ := h
  refine ⟨⟨agrees_map g hg ids pids r hA, ?_⟩, ?_, by simpa using hlen, ?_, ?_⟩
  · rw [mapRose_allIds]; exact List.Nodup.map hg hnd
  · rw [mapRose_allIds]; exact hperm.map g
  · rw [countRoots_map g hg h1]; exact hroots
  · rw [firstRoot_map g hg h1, hfirst, mapRose_id]; rfl

end Relabel
