import SwcVerif.Proofs.Represent
import SwcVerif.Props.C05
import SwcVerif.Props.C09
/-! Helper lemmas for C03 (`Props/C03.lean`): walks in parent tables (fuel, measures), root counting,
pre-order positions, compaction bounds. -/
namespace Pipeline
open Redir SortM Sub

/-! ## walks -/

/-- a walk that has stopped at a parentless node needs no more fuel than its length -/
theorem rp_lower (q : List Int) (z : Int) (hz : q.getD z.toNat (-1) = -1) :
    ∀ (f : Nat) (v : Int), (rootPath q f v).getLast? = some z →
      ∀ g, (rootPath q f v).length ≤ g + 1 → rootPath q g v = rootPath q f v := by
  intro f
  induction f with
  | zero =>
    intro v h g _
    simp [rp_zero] at h
    subst h
    cases g with
    | zero => rfl
    | succ g => rw [rp_succ, if_pos hz, rp_zero]
  | succ f ih =>
    intro v h g hl
    rw [rp_succ] at h hl ⊢
    by_cases hp : q.getD v.toNat (-1) = -1
    · rw [if_pos hp]
      cases g with
      | zero => rfl
      | succ g => rw [rp_succ, if_pos hp]
    · rw [if_neg hp] at h hl ⊢
      rw [getLast?_cons_of_ne_nil _ _ (rp_ne_nil _ _ _)] at h
      have hpos : 0 < (rootPath q f (q.getD v.toNat (-1))).length :=
        List.length_pos_iff.2 (rp_ne_nil _ _ _)
      rw [List.length_cons] at hl
      cases g with
      | zero => omega
      | succ g => rw [rp_succ, if_neg hp, ih _ h g (by omega)]

theorem getD_nat (q : List Int) (v : Nat) (hv : v < q.length) : q.getD (v : Int).toNat (-1) = q[v] := by
  simp [List.getD_eq_getElem?_getD, hv]

theorem reach_aux (q : List Int) (ρ : Nat) (hroot : q[ρ]? = some (-1))
    (hvalid : ∀ k (h : k < q.length), k ≠ ρ → 0 ≤ q[k] ∧ q[k] < q.length)
    (μ : Nat → Nat) (hμ : ∀ k (h : k < q.length), k ≠ ρ → μ (q[k]).toNat < μ k) :
    ∀ (f v : Nat), v < q.length → μ v ≤ f →
      (rootPath q f (v : Int)).getLast? = some (ρ : Int) ∧
      (∀ w ∈ rootPath q f (v : Int), 0 ≤ w ∧ w.toNat < q.length ∧ μ w.toNat ≤ μ v) ∧
      (rootPath q f (v : Int)).Nodup := by
  intro f
  induction f with
  | zero =>
    intro v hv hf
    have : v = ρ := by
      apply Decidable.byContradiction
      intro hne
      have := hμ v hv hne
      omega
    subst this
    simp [rp_zero, hv]
  | succ f ih =>
    intro v hv hf
    rw [rp_succ]
    by_cases hvr : v = ρ
    · subst hvr
      have : q.getD (v : Int).toNat (-1) = -1 := by simp [List.getD_eq_getElem?_getD, hroot]
      rw [if_pos this]
      simp [hv]
    · obtain ⟨h1, h2⟩ := hvalid v hv hvr
      rw [getD_nat q v hv, if_neg (by omega)]
      have hm := hμ v hv hvr
      obtain ⟨a, b, c⟩ := ih (q[v]).toNat (by omega) (by omega)
      have e : (((q[v]).toNat : Nat) : Int) = q[v] := by omega
      rw [e] at a b c
      refine ⟨?_, ?_, ?_⟩
      · rw [getLast?_cons_of_ne_nil _ _ (rp_ne_nil _ _ _)]; exact a
      · intro w hw
        rcases List.mem_cons.1 hw with rfl | hw
        · simp [hv]
        · have := b w hw
          exact ⟨this.1, this.2.1, by omega⟩
      · rw [List.nodup_cons]
        refine ⟨?_, c⟩
        intro hmem
        have := (b _ hmem).2.2
        simp at this
        omega

/-- **acyclic ⇒ every node reaches the root**: if some measure strictly decreases from every non-root node to its
parent, every walk ends at the root within `length` steps -/
theorem reach_of_measure (q : List Int) (ρ : Nat) (hroot : q[ρ]? = some (-1))
    (hvalid : ∀ k (h : k < q.length), k ≠ ρ → 0 ≤ q[k] ∧ q[k] < q.length)
    (μ : Nat → Nat) (hμ : ∀ k (h : k < q.length), k ≠ ρ → μ (q[k]).toNat < μ k) :
    ∀ k, k < q.length → (rootPath q q.length (k : Int)).getLast? = some (ρ : Int) := by
  intro k hk
  obtain ⟨a, b, c⟩ := reach_aux q ρ hroot hvalid μ hμ (μ k) k hk (Nat.le_refl _)
  have hlen : (rootPath q (μ k) (k : Int)).length ≤ q.length :=
    C06.nodup_bound _ _ c (fun w hw => ⟨(b w hw).1, (b w hw).2.1⟩)
  have hz : q.getD ((ρ : Int)).toNat (-1) = -1 := by simp [List.getD_eq_getElem?_getD, hroot]
  rw [rp_lower q ρ hz (μ k) k a q.length (by omega)]
  exact a

/-- a sorted table with root 0 and valid parents is well formed -/
theorem wf_of_sorted (pids : List Int) (h0 : pids.head? = some (-1))
    (hs : ∀ k (h : k < pids.length), 0 < k → pids[k] < (k : Int))
    (hv : ∀ k (h : k < pids.length), 0 < k → 0 ≤ pids[k]) : C07.WF pids := by
  refine ⟨h0, ?_, ?_⟩
  · intro k hk hk0
    have := hs k hk hk0
    exact ⟨hv k hk hk0, by omega⟩
  · have hroot : pids[0]? = some (-1) := by rwa [List.head?_eq_getElem?] at h0
    intro k hk
    have := reach_of_measure pids 0 hroot (fun k hk hk0 => by
      have := hs k hk (by omega)
      exact ⟨hv k hk (by omega), by omega⟩) id (fun k hk hk0 => by
      have := hs k hk (by omega)
      have := hv k hk (by omega)
      simp only [id]
      omega) k hk
    simpa using this

/-! ## root counting -/

theorem countRoots_one : ∀ (ps : List Int) (ρ : Nat), ps[ρ]? = some (-1) →
    (∀ v (h : v < ps.length), ps[v] = -1 → v = ρ) → countRoots ps = 1
  | [], ρ, h, _ => by simp at h
  | p :: ps, 0, h, hu => by
    simp only [List.getElem?_cons_zero, Option.some.injEq] at h
    subst h
    have : ps.filter (· = -1) = [] := by
      rw [List.filter_eq_nil_iff]
      intro x hx
      obtain ⟨i, hi, rfl⟩ := List.getElem_of_mem hx
      have := hu (i+1) (by simp; omega)
      simp only [List.getElem_cons_succ] at this
      simp only [decide_eq_true_eq]
      intro e
      have := this e
      omega
    simp [countRoots, this]
  | p :: ps, ρ+1, h, hu => by
    have hp : p ≠ -1 := fun e => by
      have := hu 0 (by simp) (by simpa using e)
      omega
    have ih := countRoots_one ps ρ (by simpa using h) (fun v hv e => by
      have := hu (v+1) (by simpa using hv) (by simpa using e)
      omega)
    simpa [countRoots, List.filter_cons, hp] using ih

theorem firstRoot_range' : ∀ (ps : List Int) (m ρ : Nat), ps[ρ]? = some (-1) →
    (∀ v (h : v < ps.length), ps[v] = -1 → v = ρ) →
    firstRoot ((List.range' m ps.length).map Int.ofNat) ps = some ((m + ρ : Nat) : Int)
  | [], m, ρ, h, _ => by simp at h
  | p :: ps, m, 0, h, hu => by
    simp only [List.getElem?_cons_zero, Option.some.injEq] at h
    subst h
    simp [List.range'_succ, firstRoot]
  | p :: ps, m, ρ+1, h, hu => by
    have hp : p ≠ -1 := fun e => by
      have := hu 0 (by simp) (by simpa using e)
      omega
    have ih := firstRoot_range' ps (m+1) ρ (by simpa using h) (fun v hv e => by
      have := hu (v+1) (by simpa using hv) (by simpa using e)
      omega)
    simp only [List.length_cons, List.range'_succ, List.map_cons, firstRoot, if_neg hp]
    rw [ih]
    congr 2; omega

theorem firstRoot_rangeI (ps : List Int) (ρ : Nat) (h : ps[ρ]? = some (-1))
    (hu : ∀ v (h : v < ps.length), ps[v] = -1 → v = ρ) :
    firstRoot (rangeI ps.length) ps = some (ρ : Int) := by
  have := firstRoot_range' ps 0 ρ h hu
  rw [rangeI, List.range_eq_range', this]
  simp

/-- a rose over all rows of a table `(0..n-1, ps)` with a single parentless row is a tree table in C05's sense -/
theorem isTreeTable_of (r : Rose) (ps : List Int) (ρ : Nat) (hrep : Represents r (rangeI ps.length) ps)
    (hperm : r.ids.Perm (rangeI ps.length)) (hid : r.id = (ρ : Int)) (hroot : ps[ρ]? = some (-1))
    (hu : ∀ v (h : v < ps.length), ps[v] = -1 → v = ρ) :
    C05.IsTreeTable r (rangeI ps.length) ps :=
  ⟨hrep, hperm, by simp [rangeI], countRoots_one ps ρ hroot hu, by rw [firstRoot_rangeI ps ρ hroot hu, hid]⟩

/-- sorting a tree table `(0..n-1, ps)` succeeds and yields a sorted well-formed parent list -/
theorem sorted_wf (r : Rose) (ps : List Int) (h : C05.IsTreeTable r (rangeI ps.length) ps) :
    ∃ res, sortNodesImpl (rangeI ps.length) ps = .ok res ∧ C07.WF res.newPids ∧
      (∀ k (h : k < res.newPids.length), 0 < k → res.newPids[k] < (k : Int)) ∧
      res.newPids.length = ps.length := by
  refine ⟨_, C05.sort_ok r _ _ h, ?_⟩
  have hs := C05.sort_sorted r _ _ h _ (C05.sort_ok r _ _ h)
  have hp := C05.sort_perm r _ _ h _ (C05.sort_ok r _ _ h)
  refine ⟨wf_of_sorted _ hs.1 (fun k hk hk0 => (hs.2 k hk hk0).2) (fun k hk hk0 => (hs.2 k hk hk0).1),
    fun k hk hk0 => (hs.2 k hk hk0).2, ?_⟩
  rw [hp.2.2.2]; simp [rangeI]

/-! ## compaction: bounds on the new parents -/

theorem toSubTopology_bound (subId subPid : List Int) (res : SubTopo) (h : toSubTopology subId subPid = some res) :
    res.newPid.length = res.mapping.length ∧
    ∀ k (hk : k < res.newPid.length),
      res.newPid[k] = -1 ∨ (0 ≤ res.newPid[k] ∧ res.newPid[k].toNat < res.mapping.length) := by
  unfold toSubTopology at h
  simp only [Option.map_eq_some_iff] at h
  obtain ⟨np, hnp, rfl⟩ := h
  rw [C06.mapM_some_iff] at hnp
  obtain ⟨hlen, hk⟩ := hnp
  refine ⟨by simp [hlen], ?_⟩
  intro k hkn
  simp only at hkn ⊢
  have hkk := hk k (by omega) hkn
  split at hkk
  · left; simpa using hkk.symm
  · right
    obtain ⟨h0, hj, _⟩ := C06.pos?_some _ _ _ hkk
    exact ⟨h0, by simpa using hj⟩

/-! ## pre-order: every entered node but the first has its parent entered earlier -/

theorem enterOrder_head (r : Rose) : (C04.enterOrder r)[0]? = some r.id := by
  cases r; simp [C04.enterOrder, Rose.id]

mutual
theorem enterOrder_parent : ∀ (r : Rose) (k : Nat) (v : Int), (C04.enterOrder r)[k]? = some v → 0 < k →
    ∃ j u, j < k ∧ (C04.enterOrder r)[j]? = some u ∧ (u, v) ∈ C05.edges r
  | .node i ks, k, v, h, hk => by
    cases k with
    | zero => omega
    | succ k =>
      simp only [C04.enterOrder, List.getElem?_cons_succ] at h
      rcases enterOrderRev_parent ks k v h with hv | ⟨j, u, hj, hu, he⟩
      · refine ⟨0, i, by omega, by simp [C04.enterOrder], ?_⟩
        simp only [C05.edges, List.mem_append, List.mem_map]
        left
        obtain ⟨c, hc, rfl⟩ := List.mem_map.1 hv
        exact ⟨c, hc, rfl⟩
      · exact ⟨j+1, u, by omega, by simpa [C04.enterOrder] using hu, by simp [C05.edges, he]⟩
theorem enterOrderRev_parent : ∀ (ks : List Rose) (k : Nat) (v : Int), (C04.enterOrderRev ks)[k]? = some v →
    v ∈ ks.map Rose.id ∨ ∃ j u, j < k ∧ (C04.enterOrderRev ks)[j]? = some u ∧ (u, v) ∈ C05.edgesL ks
  | [], k, v, h => by simp [C04.enterOrderRev] at h
  | r :: rs, k, v, h => by
    simp only [C04.enterOrderRev] at h ⊢
    by_cases hlt : k < (C04.enterOrderRev rs).length
    · rw [List.getElem?_append_left hlt] at h
      rcases enterOrderRev_parent rs k v h with hv | ⟨j, u, hj, hu, he⟩
      · left; simp only [List.map_cons, List.mem_cons]; exact Or.inr hv
      · right
        exact ⟨j, u, hj, by rw [List.getElem?_append_left (by omega)]; exact hu, by simp [C05.edgesL, he]⟩
    · rw [List.getElem?_append_right (by omega)] at h
      cases hj' : k - (C04.enterOrderRev rs).length with
      | zero =>
        rw [hj', enterOrder_head] at h
        simp only [Option.some.injEq] at h
        left; simp [h]
      | succ j'' =>
        rw [hj'] at h
        obtain ⟨j, u, hj, hu, he⟩ := enterOrder_parent r (j''+1) v h (by omega)
        right
        refine ⟨(C04.enterOrderRev rs).length + j, u, by omega, ?_, by simp [C05.edgesL, he]⟩
        rw [List.getElem?_append_right (by omega)]
        simpa using hu
end

/-- the subtree at a node, as extracted by `get_subtree`, has root 0 and parents before children -/
theorem subtree_sorted (pids : List Int) (s : Rose) (h : Represents s (rangeI pids.length) pids)
    (hin : ∀ i ∈ s.ids, 0 ≤ i ∧ i.toNat < pids.length) :
    ∃ res, getSubtree pids s.id = some res ∧ res.newPid.head? = some (-1) ∧
      ∀ k (hk : k < res.newPid.length), 0 < k → 0 ≤ res.newPid[k] ∧ res.newPid[k] < (k : Int) := by
  obtain ⟨res, hres, hmap, hperm, hhead, hrows⟩ := C06.subtree_nodes pids s h hin
  have hb : res.newPid.length = res.mapping.length ∧
      ∀ k (hk : k < res.newPid.length),
        res.newPid[k] = -1 ∨ (0 ≤ res.newPid[k] ∧ res.newPid[k].toNat < res.mapping.length) := by
    have h2 := hres
    unfold getSubtree at h2
    exact toSubTopology_bound _ _ _ h2
  have hnd : res.mapping.Nodup := hperm.nodup_iff.2 h.2
  refine ⟨res, hres, hhead, ?_⟩
  intro k hk hk0
  obtain ⟨h0, hpar⟩ := hrows k hk hk0
  refine ⟨h0, ?_⟩
  have hkm : k < res.mapping.length := by omega
  have hq : res.newPid[k].toNat < res.mapping.length := by
    rcases hb.2 k hk with e | ⟨_, hlt⟩
    · omega
    · exact hlt
  have hrow : (C04.enterOrder s)[k]? = some (res.mapping[k]) := by
    rw [← hmap, List.getElem?_eq_getElem hkm]
  obtain ⟨j, u, hj, hu, he⟩ := enterOrder_parent s k _ hrow hk0
  rw [← hmap] at hu
  have hjm : j < res.mapping.length := by omega
  rw [List.getElem?_eq_getElem hjm] at hu
  have hu' : res.mapping[j] = u := Option.some.inj hu
  have hp := (C06.edge_parent pids s h u _ he).2.2
  rw [C06.getD_eq_getElem _ _ hq, C06.getD_eq_getElem _ _ hkm, hp, ← hu'] at hpar
  have := (C07.nodup_getElem_inj hnd _ _ hq hjm).1 hpar
  omega

/-! ## heap: writes to a copy never reach the original's arrays -/

theorem write_step_frame (g : Views.Heap) (N : Nat) (op : Views.Op)
    (hop : (∃ i c v, op = Views.Op.nodeWrite N i c v) ∨ (∃ k c v, op = Views.Op.ownerWrite N k c v)) :
    (Views.step g op).1.objs = g.objs ∧
    ∀ a, (∀ c a', g.colArr N c = some a' → a ≠ a') → (Views.step g op).1.arr a = g.arr a := by
  rcases hop with ⟨i, c, v, rfl⟩ | ⟨k, c, v, rfl⟩
  · simp only [Views.step]
    split
    · rename_i a' ha'
      split
      · exact ⟨rfl, fun a hne => C09.setArr_arr_ne g a' a _ v (hne c a' ha')⟩
      · exact ⟨rfl, fun _ _ => rfl⟩
    · exact ⟨rfl, fun _ _ => rfl⟩
  · simp only [Views.step]
    split
    · rename_i a' ha'
      split
      · exact ⟨rfl, fun a hne => C09.setArr_arr_ne g a' a _ v (hne c a' ha')⟩
      · exact ⟨rfl, fun _ _ => rfl⟩
    · exact ⟨rfl, fun _ _ => rfl⟩

theorem copy_cols_fresh (h : Views.Heap) (o : Nat) (ho : o < h.objs.length) (c : Views.Col) (a' : Nat)
    (hca : (Views.step h (.copy o)).1.colArr h.objs.length c = some a') : h.arrs.length ≤ a' := by
  have hob : h.objs[o]? = some h.objs[o] := List.getElem?_eq_getElem ho
  simp only [Views.step, hob] at hca
  rw [C09.newObject_eq] at hca
  obtain ⟨hN, hm⟩ := C09.colArr_mem _ _ _ _ hca
  simp only [List.getElem_append_right (Nat.le_refl _), Nat.sub_self, List.getElem_cons_zero] at hm
  obtain ⟨k, hk, e⟩ := C09.objCols_mem _ _ _ hm
  have : a' = h.arrs.length + k := congrArg Prod.snd e
  omega

theorem colArr_congr (g g' : Views.Heap) (e : g.objs = g'.objs) (N : Nat) (c : Views.Col) :
    g.colArr N c = g'.colArr N c := by
  unfold Views.Heap.colArr; rw [e]

theorem copy_then_writes (h : Views.Heap) (hw : C09.WFHeap h) (o : Nat) (ho : o < h.objs.length) (later : List Views.Op)
    (hl : ∀ op ∈ later, (∃ i c v, op = Views.Op.nodeWrite h.objs.length i c v) ∨
      (∃ k c v, op = Views.Op.ownerWrite h.objs.length k c v)) :
    ∀ a, a < h.arrs.length → (Views.run (Views.step h (.copy o)).1 later).1.arr a = h.arr a := by
  have hc := (C09.copy_fresh h hw o ho).2.2.1
  generalize hh1 : (Views.step h (.copy o)).1 = h1 at hc
  have hge : ∀ c a', h1.colArr h.objs.length c = some a' → h.arrs.length ≤ a' := by
    intro c a' hca; rw [← hh1] at hca; exact copy_cols_fresh h o ho c a' hca
  unfold Views.run
  suffices ∀ (acc : Views.Heap × List Views.Out),
      (acc.1.objs = h1.objs ∧ ∀ a, a < h.arrs.length → acc.1.arr a = h.arr a) →
      ((later.foldl (fun acc op => let r := Views.step acc.1 op; (r.1, acc.2 ++ [r.2])) acc).1.objs = h1.objs ∧
        ∀ a, a < h.arrs.length →
          (later.foldl (fun acc op => let r := Views.step acc.1 op; (r.1, acc.2 ++ [r.2])) acc).1.arr a = h.arr a) from
    (this (h1, []) ⟨rfl, hc⟩).2
  induction later with
  | nil => intro acc hacc; exact hacc
  | cons op ops ih =>
    intro acc hacc
    rw [List.foldl_cons]
    apply ih (fun op' hop' => hl op' (List.mem_cons_of_mem _ hop'))
    obtain ⟨f1, f2⟩ := write_step_frame acc.1 h.objs.length op (hl op (by simp))
    refine ⟨f1.trans hacc.1, fun a ha => ?_⟩
    rw [f2 a ?_]
    · exact hacc.2 a ha
    · intro c a' hca
      rw [colArr_congr _ _ hacc.1] at hca
      have := hge c a' hca
      intro e
      subst e
      exact Nat.lt_irrefl _ (Nat.lt_of_lt_of_le ha this)

/-! ## pruning -/

/-- a compacted table whose kept rows (old ids `m`, the root first) are closed under "parent of" is well formed -/
theorem prune_table_wf (pids : List Int) (hw : C07.WF pids) (m q : List Int)
    (hlen : q.length = m.length) (hm0 : m[0]? = some 0) (hnd : m.Nodup)
    (hval : ∀ v ∈ m, 0 ≤ v ∧ v < pids.length)
    (hrows : ∀ k (hk : k < q.length),
        let p := pids.getD (m.getD k 0).toNat (-1)
        (p = -1 → q[k] = -1) ∧ (p ≠ -1 → 0 ≤ q[k] ∧ m.getD q[k].toNat 0 = p))
    (hb : ∀ k (hk : k < q.length), q[k] = -1 ∨ (0 ≤ q[k] ∧ q[k].toNat < m.length)) : C07.WF q := by
  have hpos : 0 < m.length := by
    cases m with
    | nil => simp at hm0
    | cons a l => simp
  have hm0' : m[0] = 0 := by
    rw [List.getElem?_eq_getElem hpos] at hm0; exact Option.some.inj hm0
  have key : ∀ k (hk : k < q.length), k ≠ 0 →
      0 ≤ q[k] ∧ q[k].toNat < m.length ∧
      m.getD q[k].toNat 0 = pids.getD (m.getD k 0).toNat (-1) ∧ 0 < m.getD k 0 ∧ m.getD k 0 < pids.length := by
    intro k hk hk0
    have hkm : k < m.length := by omega
    have hmk : m.getD k 0 = m[k] := C06.getD_eq_getElem _ _ hkm
    have hne : m[k] ≠ 0 := by
      intro e
      rw [← hm0'] at e
      have := (C07.nodup_getElem_inj hnd k 0 hkm hpos).1 e
      exact hk0 this
    have hv := hval _ (List.getElem_mem hkm)
    have hp0 : 0 < m[k] := by omega
    have hpv := hw.par_valid' m[k] hp0 hv.2
    have hr := (hrows k hk).2
    simp only [hmk] at hr ⊢
    obtain ⟨h0, he⟩ := hr (by omega)
    refine ⟨h0, ?_, he, hp0, hv.2⟩
    rcases hb k hk with e | ⟨_, hlt⟩
    · omega
    · exact hlt
  have hq0 : q[0]'(by omega) = -1 := by
    apply (hrows 0 (by omega)).1
    rw [C06.getD_eq_getElem _ _ hpos, hm0']
    exact hw.par_root
  have hroot : q[0]? = some (-1) := by
    rw [List.getElem?_eq_getElem (by omega), hq0]
  refine ⟨by rw [List.head?_eq_getElem?]; exact hroot, ?_, ?_⟩
  · intro k hk hk0
    obtain ⟨h0, hlt, _⟩ := key k hk (by omega)
    exact ⟨h0, by omega⟩
  · apply reach_of_measure q 0 hroot (fun k hk hk0 => by
      obtain ⟨h0, hlt, _⟩ := key k hk hk0
      exact ⟨h0, by omega⟩) (fun j => Represent.D pids (m.getD j 0))
    intro k hk hk0
    obtain ⟨h0, hlt, he, hp0, hpl⟩ := key k hk hk0
    show Represent.D pids (m.getD (q[k]).toNat 0) < Represent.D pids (m.getD k 0)
    rw [he]
    have := congrArg List.length (hw.path_cons _ hp0 hpl)
    rw [List.length_cons] at this
    unfold Represent.D
    omega

/-- the root of a tree is never in the removed set when it is not marked itself -/
theorem root_not_removed (pids : List Int) (hw : C07.WF pids) (r : Rose) (h : C06.IsTree r pids)
    (marked : Int → Bool) (hm : marked 0 = false) : (0 : Int) ∉ C06.removedSet marked r false := by
  intro hin
  rcases C06.removedSet_sound marked r 0 hin with h1 | ⟨a, ha, he⟩
  · rw [hm] at h1; cases h1
  · have hp := (C06.edge_parent pids r h.1 a 0 he).2.2
    have ha' := (C06.isTree_mem h a).1 (C06.edges_src r a 0 he)
    rw [hw.par_root] at hp
    omega

/-- **pruning a well-formed tree (root spared) gives a well-formed tree** -/
theorem prune_wf (pids : List Int) (hw : C07.WF pids) (rm : List Int) (hr : ∀ v ∈ rm, 0 < v ∧ v < pids.length) :
    ∃ res, toSubtree pids rm = some res ∧ C07.WF res.newPid := by
  obtain ⟨r, hT⟩ := Represent.wf_represented pids hw
  obtain ⟨res, hres, hmap, hlen, hrows⟩ := C06.toSubtree_kept pids r hT rm
  have hb := by
    have h2 := hres
    unfold toSubtree at h2
    exact toSubTopology_bound _ _ _ h2
  refine ⟨res, hres, ?_⟩
  have hmark : (fun i => rm.contains i) (0 : Int) = false := by
    simp only [List.contains_eq_mem, decide_eq_false_iff_not]
    intro h0
    have := (hr 0 h0).1
    omega
  have h0keep := root_not_removed pids hw r hT (fun i => rm.contains i) hmark
  have hmem : ∀ v ∈ res.mapping, 0 ≤ v ∧ v < pids.length := by
    intro v hv
    rw [hmap] at hv
    have := (C06.mem_rangeI _ _).1 (List.mem_filter.1 hv).1
    omega
  have hnd : res.mapping.Nodup := by
    rw [hmap]
    exact List.filter_sublist.nodup (Represent.rangeI_nodup _)
  have hm0 : res.mapping[0]? = some 0 := by
    rw [hmap]
    obtain ⟨n, hn⟩ : ∃ n, pids.length = n + 1 := ⟨pids.length - 1, by have := hw.pos; omega⟩
    rw [hn]
    have hp : (fun v => !decide (v ∈ C06.removedSet (fun i => rm.contains i) r false)) (Int.ofNat 0) = true := by
      show (!decide ((0 : Int) ∈ _)) = true
      rw [decide_eq_false h0keep]; rfl
    rw [rangeI, List.range_succ_eq_map, List.map_cons, List.filter_cons, if_pos hp]
    rfl
  exact prune_table_wf pids hw res.mapping res.newPid hlen hm0 hnd hmem hrows hb.2

/-! ## the representation lemma for a tree rooted anywhere

`Represent.wf_represented` with the root at position `ρ` instead of 0 (the table between re-rooting and the
final sort). -/

/-- well-formed parent list with the root at position `ρ` -/
structure WFr (ps : List Int) (ρ : Nat) : Prop where
  root : ps[ρ]? = some (-1)
  valid : ∀ k (h : k < ps.length), k ≠ ρ → 0 ≤ ps[k] ∧ ps[k] < ps.length
  reach : ∀ k, k < ps.length → (rootPath ps ps.length (k : Int)).getLast? = some (ρ : Int)

namespace WFr
variable {ps : List Int} {ρ : Nat}

theorem lt (hw : WFr ps ρ) : ρ < ps.length := (List.getElem?_eq_some_iff.1 hw.root).1

theorem par_root (hw : WFr ps ρ) : ps.getD (ρ : Int).toNat (-1) = -1 := by
  simp [List.getD_eq_getElem?_getD, hw.root]

theorem par_valid' (hw : WFr ps ρ) (v : Int) (h0 : 0 ≤ v) (hne : v ≠ ρ) (hv : v < ps.length) :
    0 ≤ ps.getD v.toNat (-1) ∧ ps.getD v.toNat (-1) < ps.length := by
  have hlt : v.toNat < ps.length := by omega
  rw [C06.getD_eq_getElem _ _ hlt]
  exact hw.valid v.toNat hlt (by omega)

theorem unique (hw : WFr ps ρ) (v : Nat) (h : v < ps.length) (e : ps[v] = -1) : v = ρ := by
  apply Decidable.byContradiction
  intro hne
  have := (hw.valid v h hne).1
  omega

theorem path_cons (hw : WFr ps ρ) (v : Int) (h0 : 0 ≤ v) (hne : v ≠ ρ) (hv : v < ps.length) :
    rootPath ps ps.length v = v :: rootPath ps ps.length (ps.getD v.toNat (-1)) := by
  have hlast := hw.reach v.toNat (by omega)
  have hvv : ((v.toNat : Nat) : Int) = v := by omega
  rw [hvv] at hlast
  have hpv := hw.par_valid' v h0 hne hv
  have hne' : ps.getD v.toNat (-1) ≠ -1 := by omega
  obtain ⟨m, hm⟩ : ∃ m, ps.length = m + 1 := ⟨ps.length - 1, by have := hw.lt; omega⟩
  rw [hm] at hlast ⊢
  rw [rp_succ, if_neg hne'] at hlast
  rw [getLast?_cons_of_ne_nil _ _ (rp_ne_nil _ _ _)] at hlast
  rw [rp_stable ps ρ hw.par_root m _ hlast, rp_succ, if_neg hne']

theorem walk (hw : WFr ps ρ) : ∀ (f : Nat) (v : Int), 0 ≤ v → v < ps.length →
    (∀ w ∈ rootPath ps f v, 0 ≤ w ∧ w < ps.length ∧
        (rootPath ps ps.length w).length ≤ (rootPath ps ps.length v).length) ∧
    (rootPath ps f v).Nodup := by
  intro f
  induction f with
  | zero =>
    intro v h0 hv
    simp [rp_zero, h0, hv]
  | succ f ih =>
    intro v h0 hv
    rw [rp_succ]
    by_cases hp : ps.getD v.toNat (-1) = -1
    · rw [if_pos hp]; simp [h0, hv]
    · rw [if_neg hp]
      have hv0 : v ≠ ρ := by
        intro h; subst h; exact hp hw.par_root
      have hpv := hw.par_valid' v h0 hv0 hv
      have ihp := ih _ hpv.1 hpv.2
      have hlen := congrArg List.length (hw.path_cons v h0 hv0 hv)
      rw [List.length_cons] at hlen
      constructor
      · intro w hwm
        rcases List.mem_cons.mp hwm with h | h
        · subst h; exact ⟨h0, hv, Nat.le_refl _⟩
        · have := ihp.1 w h
          exact ⟨this.1, this.2.1, by omega⟩
      · rw [List.nodup_cons]
        refine ⟨?_, ihp.2⟩
        intro hmem
        have := (ihp.1 v hmem).2.2
        omega

theorem D_le (hw : WFr ps ρ) (v : Int) (h0 : 0 ≤ v) (hv : v < ps.length) :
    Represent.D ps v ≤ ps.length := by
  have hwalk := hw.walk ps.length v h0 hv
  refine C06.nodup_bound _ _ hwalk.2 (fun i hi => ?_)
  have := hwalk.1 i hi
  omega

theorem kid_facts (hw : WFr ps ρ) (v j : Int) (hv0 : 0 ≤ v)
    (hj : j ∈ tableKids (rangeI ps.length) ps v) :
    0 ≤ j ∧ j < ps.length ∧ ps.getD j.toNat (-1) = v ∧
      rootPath ps ps.length j = j :: rootPath ps ps.length v := by
  obtain ⟨h0, hlt, hq⟩ := (C06.mem_tableKids ps v j).1 hj
  have hne : j ≠ ρ := by
    intro e
    subst e
    have := hw.root
    simp only [Int.toNat_natCast] at hq hlt
    rw [List.getElem?_eq_getElem hlt, hq] at this
    have := Option.some.inj this
    omega
  have hjl : j < ps.length := by omega
  have hpar : ps.getD j.toNat (-1) = v := by rw [C06.getD_eq_getElem _ _ hlt]; exact hq
  refine ⟨h0, hjl, hpar, ?_⟩
  rw [hw.path_cons j h0 hne hjl, hpar]

theorem kid_D (hw : WFr ps ρ) (v j : Int) (hv0 : 0 ≤ v)
    (hj : j ∈ tableKids (rangeI ps.length) ps v) :
    Represent.D ps j = Represent.D ps v + 1 ∧ Represent.D ps j ≤ ps.length := by
  obtain ⟨h0, hlt, _, hp⟩ := hw.kid_facts v j hv0 hj
  refine ⟨?_, hw.D_le j h0 hlt⟩
  unfold Represent.D
  rw [hp, List.length_cons]

open Represent in
theorem roseOf_agrees (hw : WFr ps ρ) : ∀ (f : Nat) (v : Int), 0 ≤ v → v < ps.length →
    ps.length - D ps v ≤ f →
    Agrees (tableKids (rangeI ps.length) ps) (roseOf (rangeI ps.length) ps f v) := by
  intro f
  induction f with
  | zero =>
    intro v h0 hv hf
    rw [roseOf_zero]
    simp only [Agrees, AgreesL, List.map_nil, and_true]
    apply List.eq_nil_iff_forall_not_mem.2
    intro j hj
    have := hw.kid_D v j h0 hj
    have := hw.D_le v h0 hv
    omega
  | succ f ih =>
    intro v h0 hv hf
    rw [roseOf_succ]
    simp only [Agrees]
    constructor
    · rw [List.map_map]
      have : ∀ j ∈ tableKids (rangeI ps.length) ps v,
          (Rose.id ∘ roseOf (rangeI ps.length) ps f) j = j := fun j _ => roseOf_id _ _ _ _
      rw [List.map_congr_left this, List.map_id'']
      intro x; rfl
    · apply agreesL_map
      intro j hj
      obtain ⟨hj0, hjl, _, _⟩ := hw.kid_facts v j h0 hj
      have := hw.kid_D v j h0 hj
      exact ih j hj0 hjl (by omega)

open Represent in
theorem roseOf_ids_inv (hw : WFr ps ρ) : ∀ (f : Nat) (v : Int), 0 ≤ v → v < ps.length →
    ∀ w ∈ (roseOf (rangeI ps.length) ps f v).ids,
      (0 ≤ w ∧ w < ps.length) ∧ rootPath ps ps.length v <:+ rootPath ps ps.length w := by
  intro f
  induction f with
  | zero =>
    intro v h0 hv w hwm
    rw [mem_ids_roseOf_zero] at hwm
    subst hwm
    exact ⟨⟨h0, hv⟩, List.suffix_refl _⟩
  | succ f ih =>
    intro v h0 hv w hwm
    rw [mem_ids_roseOf_succ] at hwm
    rcases hwm with rfl | ⟨j, hj, hwj⟩
    · exact ⟨⟨h0, hv⟩, List.suffix_refl _⟩
    · obtain ⟨hj0, hjl, _, hp⟩ := hw.kid_facts v j h0 hj
      obtain ⟨hval, hsuf⟩ := ih j hj0 hjl w hwj
      refine ⟨hval, List.IsSuffix.trans ?_ hsuf⟩
      rw [hp]
      exact List.suffix_cons _ _

open Represent in
theorem roseOf_nodup (hw : WFr ps ρ) : ∀ (f : Nat) (v : Int), 0 ≤ v → v < ps.length →
    (roseOf (rangeI ps.length) ps f v).ids.Nodup := by
  intro f
  induction f with
  | zero =>
    intro v _ _
    simp [roseOf_zero, Rose.ids, idsL]
  | succ f ih =>
    intro v h0 hv
    rw [roseOf_succ]
    simp only [Rose.ids, List.nodup_cons]
    constructor
    · intro hmem
      obtain ⟨j, hj, hvj⟩ := (mem_idsL_map _ _ _).1 hmem
      obtain ⟨hj0, hjl, _, _⟩ := hw.kid_facts v j h0 hj
      have hsuf := (hw.roseOf_ids_inv f j hj0 hjl v hvj).2
      have hlen := hsuf.length_le
      have := (hw.kid_D v j h0 hj).1
      unfold D at this
      omega
    · apply nodup_idsL_map _ _ (tableKids_nodup _ _ _)
      · intro j hj
        obtain ⟨hj0, hjl, _, _⟩ := hw.kid_facts v j h0 hj
        exact ih j hj0 hjl
      · intro j1 h1 j2 h2 w hw1 hw2
        obtain ⟨h10, h1l, _, hp1⟩ := hw.kid_facts v j1 h0 h1
        obtain ⟨h20, h2l, _, hp2⟩ := hw.kid_facts v j2 h0 h2
        have s1 := (hw.roseOf_ids_inv f j1 h10 h1l w hw1).2
        have s2 := (hw.roseOf_ids_inv f j2 h20 h2l w hw2).2
        have hle : (rootPath ps ps.length j1).length ≤ (rootPath ps ps.length j2).length := by
          rw [hp1, hp2]; simp
        have hs := List.suffix_of_suffix_length_le s1 s2 hle
        have heq := hs.eq_of_length (by rw [hp1, hp2]; simp)
        rw [hp1, hp2] at heq
        exact (List.cons.inj heq).1

open Represent in
theorem roseOf_closed (hw : WFr ps ρ) : ∀ (f : Nat) (v : Int), 0 ≤ v → v < ps.length →
    ps.length - D ps v ≤ f →
    ∀ p ∈ (roseOf (rangeI ps.length) ps f v).ids, ∀ w ∈ tableKids (rangeI ps.length) ps p,
      w ∈ (roseOf (rangeI ps.length) ps f v).ids := by
  intro f
  induction f with
  | zero =>
    intro v h0 hv hf p hp w hwk
    rw [mem_ids_roseOf_zero] at hp
    subst hp
    have := hw.kid_D p w h0 hwk
    have := hw.D_le p h0 hv
    omega
  | succ f ih =>
    intro v h0 hv hf p hp w hwk
    rw [mem_ids_roseOf_succ] at hp ⊢
    right
    rcases hp with rfl | ⟨j, hj, hpj⟩
    · refine ⟨w, hwk, ?_⟩
      have := Trav.ids_head (roseOf (rangeI ps.length) ps f w)
      rwa [roseOf_id] at this
    · obtain ⟨hj0, hjl, _, _⟩ := hw.kid_facts v j h0 hj
      have := hw.kid_D v j h0 hj
      exact ⟨j, hj, ih j hj0 hjl (by omega) p hpj w hwk⟩

open Represent in
theorem roseOf_covers (hw : WFr ps ρ) : ∀ (m : Nat) (w : Int), 0 ≤ w → w < ps.length →
    D ps w = m → w ∈ (roseOf (rangeI ps.length) ps ps.length (ρ : Int)).ids := by
  intro m
  induction m with
  | zero =>
    intro w _ _ hD
    have := D_pos ps w
    omega
  | succ m ih =>
    intro w h0 hv hD
    by_cases hw0 : w = (ρ : Int)
    · subst hw0
      have := Trav.ids_head (roseOf (rangeI ps.length) ps ps.length (ρ : Int))
      rwa [roseOf_id] at this
    · have hpv := hw.par_valid' w h0 hw0 hv
      have hpc := hw.path_cons w h0 hw0 hv
      have hDp : D ps (ps.getD w.toNat (-1)) = m := by
        have := congrArg List.length hpc
        rw [List.length_cons] at this
        unfold D at hD ⊢
        omega
      have hp := ih _ hpv.1 hpv.2 hDp
      have hkid : w ∈ tableKids (rangeI ps.length) ps (ps.getD w.toNat (-1)) := by
        rw [C06.mem_tableKids]
        have hlt : w.toNat < ps.length := by omega
        exact ⟨h0, hlt, (C06.getD_eq_getElem _ _ hlt).symm⟩
      exact hw.roseOf_closed ps.length (ρ : Int) (by omega) (by have := hw.lt; omega) (by omega) _ hp w hkid

end WFr

/-- **every well-formed tree, rooted anywhere, is represented by a rose** -/
theorem wfr_represented (ps : List Int) (ρ : Nat) (hw : WFr ps ρ) :
    ∃ r : Rose, Represents r (rangeI ps.length) ps ∧ r.ids.Perm (rangeI ps.length) ∧ r.id = (ρ : Int) := by
  have hρ := hw.lt
  have h0 : (0 : Int) ≤ (ρ : Int) := by omega
  have h0l : (ρ : Int) < ps.length := by omega
  refine ⟨roseOf (rangeI ps.length) ps ps.length (ρ : Int), ⟨?_, ?_⟩, ?_, Represent.roseOf_id _ _ _ _⟩
  · exact hw.roseOf_agrees _ _ h0 h0l (by omega)
  · exact hw.roseOf_nodup _ _ h0 h0l
  · rw [List.perm_ext_iff_of_nodup (hw.roseOf_nodup _ _ h0 h0l) (Represent.rangeI_nodup _)]
    intro a
    rw [C06.mem_rangeI]
    constructor
    · intro ha
      have := (hw.roseOf_ids_inv _ _ h0 h0l a ha).1
      omega
    · rintro ⟨ha0, hal⟩
      exact hw.roseOf_covers _ a ha0 (by omega) rfl

/-- sorting a well-formed table rooted anywhere gives a sorted well-formed tree of the same size -/
theorem wfr_sorted (ps : List Int) (ρ : Nat) (hw : WFr ps ρ) :
    ∃ res, sortNodesImpl (rangeI ps.length) ps = .ok res ∧ C07.WF res.newPids ∧
      (∀ k (h : k < res.newPids.length), 0 < k → res.newPids[k] < (k : Int)) ∧
      res.newPids.length = ps.length := by
  obtain ⟨r, hrep, hperm, hid⟩ := wfr_represented ps ρ hw
  exact sorted_wf r ps (isTreeTable_of r ps ρ hrep hperm hid hw.root hw.unique)

/-! ## the re-rooted table (before the final sort) is a well-formed tree rooted at the requested node -/

theorem idxOf_getElem_nodup {l : List Int} (hnd : l.Nodup) (i : Nat) (hi : i < l.length) : l.idxOf l[i] = i := by
  have h1 : l.idxOf l[i] < l.length := List.idxOf_lt_length_of_mem (List.getElem_mem hi)
  exact (C07.nodup_getElem_inj hnd _ _ h1 hi).1 (List.getElem_idxOf h1)

/-- the measure that decreases along the new parent pointers: position on the reversed path, or (off the path)
`n` plus the old depth -/
def redMu (pids path : List Int) (w : Nat) : Nat :=
  if (w : Int) ∈ path then path.idxOf (w : Int) else pids.length + Represent.D pids (w : Int)

theorem wfr_abstract (pids P path : List Int) (k : Nat) (hw : C07.WF pids) (hk : k < pids.length)
    (hhead : path.head? = some (k : Int)) (hlast : path.getLast? = some 0) (hnd : path.Nodup)
    (hval : ∀ v ∈ path, 0 ≤ v ∧ v < pids.length)
    (hlen : P.length = pids.length) (hk1 : P.getD k 0 = -1)
    (hrev : ∀ i (h : i + 1 < path.length), P.getD (path[i+1]).toNat 0 = path[i])
    (hoff : ∀ v, v < pids.length → (v : Int) ∉ path → P.getD v 0 = pids.getD v 0) : WFr P k := by
  have hplen : 0 < path.length := by
    cases path with
    | nil => simp at hhead
    | cons a l => simp
  have hp0 : path[0] = (k : Int) := by
    rw [List.head?_eq_getElem?, List.getElem?_eq_getElem hplen] at hhead
    exact Option.some.inj hhead
  have h0mem : (0 : Int) ∈ path := List.mem_of_getLast? hlast
  have hpl : path.length ≤ pids.length :=
    C06.nodup_bound _ _ hnd (fun v hv => by have := hval v hv; omega)
  have hA : ∀ v (hv : v < P.length), v ≠ k → (v : Int) ∈ path →
      ∃ i, ∃ (hi : i + 1 < path.length), path[i+1] = (v : Int) ∧ P[v] = path[i] := by
    intro v hv hvk hm
    obtain ⟨i, hi, e⟩ := List.getElem_of_mem hm
    cases i with
    | zero => rw [hp0] at e; omega
    | succ i =>
      refine ⟨i, hi, e, ?_⟩
      have := hrev i hi
      rw [e, Int.toNat_natCast, C06.getD_eq_getElem _ _ hv] at this
      exact this
  have hB : ∀ v (hv : v < P.length), (v : Int) ∉ path → 0 < v ∧ P[v] = pids[v]'(by omega) := by
    intro v hv hm
    have hv' : v < pids.length := by omega
    have := hoff v hv' hm
    rw [C06.getD_eq_getElem _ _ hv, C06.getD_eq_getElem _ _ hv'] at this
    refine ⟨?_, this⟩
    apply Nat.pos_of_ne_zero
    intro e
    subst e
    exact hm (by simpa using h0mem)
  have hkP : k < P.length := by omega
  have hroot : P[k]? = some (-1) := by
    rw [List.getElem?_eq_getElem hkP, ← C06.getD_eq_getElem P 0 hkP, hk1]
  have hvalid : ∀ v (h : v < P.length), v ≠ k → 0 ≤ P[v] ∧ P[v] < P.length := by
    intro v hv hvk
    by_cases hm : (v : Int) ∈ path
    · obtain ⟨i, hi, _, e⟩ := hA v hv hvk hm
      rw [e]
      have := hval _ (List.getElem_mem (by omega : i < path.length))
      omega
    · obtain ⟨h0, e⟩ := hB v hv hm
      rw [e]
      have := hw.2.1 v (by omega) h0
      omega
  refine ⟨hroot, hvalid, reach_of_measure P k hroot hvalid (redMu pids path) ?_⟩
  intro v hv hvk
  by_cases hm : (v : Int) ∈ path
  · obtain ⟨i, hi, e1, e2⟩ := hA v hv hvk hm
    have hi0 := (hval _ (List.getElem_mem (by omega : i < path.length))).1
    have hc : (((P[v]).toNat : Nat) : Int) = path[i] := by rw [e2]; omega
    unfold redMu
    rw [if_pos hm, hc, if_pos (List.getElem_mem _), ← e1, idxOf_getElem_nodup hnd, idxOf_getElem_nodup hnd]
    omega
  · obtain ⟨h0, e⟩ := hB v hv hm
    have hv' : v < pids.length := by omega
    have hpv := hw.2.1 v hv' h0
    have hc : (((P[v]).toNat : Nat) : Int) = pids[v] := by rw [e]; omega
    have hD : Represent.D pids (v : Int) = Represent.D pids pids[v] + 1 := by
      have := congrArg List.length (hw.path_cons (v : Int) (by omega) (by omega))
      rw [List.length_cons, getD_nat pids v hv'] at this
      exact this
    have hDpos := Represent.D_pos pids (v : Int)
    unfold redMu
    rw [if_neg hm, hc]
    split
    · rename_i hin
      have := List.idxOf_lt_length_of_mem hin
      omega
    · omega

theorem redirect_wfr (pids types : List Int) (hw : C07.WF pids) (k : Nat) (hk : k < pids.length) :
    WFr (redirect pids types (k : Int)).pids k := by
  obtain ⟨hhead, hlast, hnd, hval, hchain⟩ := C07.rootPath_spec pids hw k hk
  obtain ⟨hlen, hk1, hrev, hoff⟩ := C07.redirect_pids pids types hw k hk
  exact wfr_abstract pids _ _ k hw hk hhead hlast hnd hval hlen hk1 hrev hoff

end Pipeline
