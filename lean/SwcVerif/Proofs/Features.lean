import SwcVerif.Model.Features
import SwcVerif.Props.C08
import SwcVerif.Props.C06
import SwcVerif.Props.C07
import Mathlib.Algebra.Order.Field.Rat
import Mathlib.Tactic.Linarith
import Mathlib.Tactic.FieldSimp
import Mathlib.Tactic.Ring
/-! Lemmas about the feature models of `Model/Features.lean` (used by `Props/C10.lean`). -/
namespace FeatP
open Feat

theorem rangeI_eq : Feat.rangeI = Sub.rangeI := rfl

/-! ## sums -/
theorem foldl_add_eq_sum (elen : Int → Rat) : ∀ (l : List Int) (a : Rat),
    l.foldl (fun a i => a + elen i) a = a + (l.map elen).sum
  | [], a => by simp
  | x :: l, a => by
    simp only [List.foldl_cons, List.map_cons, List.sum_cons]
    rw [foldl_add_eq_sum elen l]
    ring

theorem chainLength_eq (elen : Int → Rat) : ∀ b : List Int,
    chainLength elen b = ((C08.pairs b).map (fun e => elen e.2)).sum
  | [] => by simp [chainLength, C08.pairs]
  | [a] => by simp [chainLength, C08.pairs]
  | a :: b :: t => by
    have ih := chainLength_eq elen (b :: t)
    simp only [chainLength, C08.pairs_cons_cons, List.map_cons, List.sum_cons, List.foldl_cons] at ih ⊢
    rw [foldl_add_eq_sum] at ih ⊢
    rw [← ih]
    ring

theorem pairs_length : ∀ b : List Int, (C08.pairs b).length = b.length - 1
  | [] => rfl
  | [a] => rfl
  | a :: b :: t => by
    have ih := pairs_length (b :: t)
    simp only [C08.pairs_cons_cons, List.length_cons] at ih ⊢
    omega

theorem sum_flatMap_pairs (f : Int × Int → Rat) : ∀ l : List (List Int),
    (l.map (fun b => ((C08.pairs b).map f).sum)).sum = ((l.flatMap C08.pairs).map f).sum
  | [] => by simp
  | b :: l => by
    simp only [List.map_cons, List.sum_cons, List.flatMap_cons, List.map_append, List.sum_append]
    rw [sum_flatMap_pairs f l]

/-! ## the edges' child ends are the non-root nodes -/
mutual
theorem edges_snd : ∀ r : Rose, (r.id :: (C08.edges r).map (·.2)).Perm r.ids
  | .node i ks => by
    have := edgesL_snd ks
    have e : (ks.map (fun k => (i, k.id))).map (·.2) = ks.map Rose.id := by
      rw [List.map_map]; apply List.map_congr_left; intro k _; rfl
    rw [C08.edges, List.map_append, e]
    exact List.Perm.cons _ this
theorem edgesL_snd : ∀ ks : List Rose, (ks.map Rose.id ++ (C08.edgesL ks).map (·.2)).Perm (idsL ks)
  | [] => by simp [C08.edgesL, idsL]
  | r :: rs => by
    have h1 := edges_snd r
    have h2 := edgesL_snd rs
    simp only [C08.edgesL, idsL, List.map_cons, List.map_append]
    rw [List.perm_iff_count]; intro a
    have c1 := h1.count_eq a
    have c2 := h2.count_eq a
    simp only [List.count_append, List.count_cons, List.cons_append] at c1 c2 ⊢
    omega
end

theorem rangeI_succ (n : Nat) : rangeI (n+1) = 0 :: (rangeI (n+1)).drop 1 := by
  simp [rangeI_eq, Sub.rangeI, List.range_succ_eq_map]

theorem edges_snd_tree {r : Rose} {pids : List Int} (h : C06.IsTree r pids) :
    ((C08.edges r).map (·.2)).Perm ((rangeI pids.length).drop 1) := by
  obtain ⟨_, hperm, hroot, hhead⟩ := h
  have h1 := (edges_snd r).trans hperm
  obtain ⟨m, hm⟩ : ∃ m, pids.length = m + 1 := by
    cases pids with
    | nil => simp at hhead
    | cons a l => exact ⟨l.length, rfl⟩
  rw [hm] at h1 ⊢
  rw [hroot, ← rangeI_eq, rangeI_succ] at h1
  exact h1.cons_inv

/-! ## fuel -/
theorem getBranches_tree {r : Rose} {pids : List Int} (h : C06.IsTree r pids) :
    branches pids = C08.branchesOf r := by
  have e := C08.getBranches_eq _ _ r h.1
  have hs := C06.isTree_size h
  have hf := C04.fuel_suffices _ _ r h.1 Branches.bEnter Branches.bLeave () 2
  rw [h.2.2.1, hs] at e hf
  unfold branches Branches.getBranches
  rw [rangeI_eq]
  unfold Branches.getBranches at e
  rw [hf]; exact e

theorem getPaths_tree {r : Rose} {pids : List Int} (h : C06.IsTree r pids) :
    paths pids = C08.pathsOf r := by
  have e := C08.getPaths_eq _ _ r h.1
  have hs := C06.isTree_size h
  have hf := C04.fuel_suffices _ _ r h.1 Branches.pEnter Branches.pLeave (fun _ => none) 2
  rw [h.2.2.1, hs] at e hf
  unfold paths Branches.getPaths
  rw [rangeI_eq]
  unfold Branches.getPaths at e
  rw [hf]; exact e

theorem getFurcations_tree {r : Rose} {pids : List Int} (h : C06.IsTree r pids) :
    (furcations pids).Perm (C08.furcsOf r) := by
  have e := C08.furcations_eq _ _ r h.1
  have hs := C06.isTree_size h
  have hf := C04.fuel_suffices _ _ r h.1 Branches.fEnter Branches.fLeave [] 2
  rw [h.2.2.1, hs] at e hf
  unfold furcations Branches.getFurcations
  rw [rangeI_eq]
  unfold Branches.getFurcations at e
  rw [hf]; exact e

/-! ## tips -/
mutual
theorem tipsOf_sublist : ∀ r : Rose, (C08.tipsOf r).Sublist r.ids
  | .node i [] => by simp [C08.tipsOf, Rose.ids, idsL]
  | .node i (k :: ks) => by
    simp only [C08.tipsOf, Rose.ids]
    exact (tipsOfL_sublist (k :: ks)).trans (List.sublist_cons_self _ _)
theorem tipsOfL_sublist : ∀ ks : List Rose, (C08.tipsOfL ks).Sublist (idsL ks)
  | [] => by simp [C08.tipsOfL, idsL]
  | r :: rs => by
    simp only [C08.tipsOfL, idsL]
    exact (tipsOf_sublist r).append (tipsOfL_sublist rs)
end

theorem rangeI_nodup (n : Nat) : (rangeI n).Nodup := by
  unfold rangeI Sub.rangeI
  exact List.Pairwise.map _ (fun a b hab h => hab (Int.ofNat.inj h)) List.nodup_range

theorem tips_perm {r : Rose} {pids : List Int} (h : C06.IsTree r pids) :
    (tips pids).Perm (C08.tipsOf r) := by
  have hl : (rangeI pids.length).length = pids.length := by simp [rangeI, Sub.rangeI]
  have hd1 : (tips pids).Nodup := by
    unfold tips Branches.getTips
    exact (rangeI_nodup _).filter _
  have hd2 : (C08.tipsOf r).Nodup := (tipsOf_sublist r).nodup h.1.2
  rw [List.perm_ext_iff_of_nodup hd1 hd2]
  intro j
  unfold tips
  rw [C08.tips_eq_childless _ _ hl, C08.tipsOf_childless _ r h.1.1, h.2.1.mem_iff, rangeI_eq]

theorem nStems_eq (pids : List Int) : nStems pids = (tableKids (rangeI pids.length) pids 0).length := by
  unfold nStems rangeI
  rw [C06.tableKids_rangeI, C06.tk_length]

/-! ## walks to the root -/
open Redir in
theorem rootPath_root {pids : List Int} (hw : C07.WF pids) : rootPath pids pids.length 0 = [0] := by
  obtain ⟨m, hm⟩ : ∃ m, pids.length = m + 1 := ⟨pids.length - 1, by have := hw.pos; omega⟩
  rw [hm, rp_succ, if_pos hw.par_root]

open Redir in
theorem rootPath_len {pids : List Int} (hw : C07.WF pids) (v : Int) (h0 : 0 ≤ v) (hv : v < pids.length) :
    (rootPath pids pids.length v).length ≤ pids.length := by
  have hwalk := hw.walk pids.length v h0 hv
  refine C06.nodup_bound _ _ hwalk.2 ?_
  intro i hi
  have := hwalk.1 i hi
  exact ⟨this.1, by omega⟩

theorem pd_succ (pids : List Int) (elen : Int → Rat) (f : Nat) (i : Int) :
    pathDistance pids elen (f+1) i =
      if pids.getD i.toNat (-1) = -1 then 0 else elen i + pathDistance pids elen f (pids.getD i.toNat (-1)) := by
  rw [pathDistance]
  split
  · next h => rw [if_pos h]
  · next h => rw [if_neg (by intro h'; exact h h')]

theorem bo_succ (pids : List Int) (f : Nat) (i : Int) :
    branchOrder pids (f+1) i = (if Sub.isFurcation pids i then 1 else 0) +
      (if pids.getD i.toNat (-1) = -1 then 0 else branchOrder pids f (pids.getD i.toNat (-1))) := by
  rw [branchOrder]
  congr 1
  split
  · next h => rw [if_pos h]
  · next h => rw [if_neg (by intro h'; exact h h')]

open Redir in
theorem pd_eq {pids : List Int} (hw : C07.WF pids) (elen : Int → Rat) : ∀ (f : Nat) (v : Int), 0 ≤ v → v < pids.length →
    (rootPath pids pids.length v).length ≤ f →
    pathDistance pids elen f v = (((rootPath pids pids.length v).dropLast).map elen).sum := by
  intro f
  induction f with
  | zero =>
    intro v _ _ hl
    have := rp_ne_nil pids pids.length v
    cases hp : rootPath pids pids.length v with
    | nil => exact absurd hp this
    | cons a l => rw [hp] at hl; simp at hl
  | succ f ih =>
    intro v h0 hv hl
    by_cases hv0 : v = 0
    · subst hv0
      rw [rootPath_root hw, pd_succ, if_pos hw.par_root]
      simp
    · have hpos : 0 < v := by omega
      have hpv := hw.par_valid' v hpos hv
      have hne : pids.getD v.toNat (-1) ≠ -1 := by omega
      have hc := hw.path_cons v hpos hv
      rw [hc] at hl ⊢
      rw [pd_succ, if_neg hne, List.dropLast_cons_of_ne_nil (rp_ne_nil _ _ _), List.map_cons, List.sum_cons,
        ih _ hpv.1 hpv.2 (by simpa using hl)]

open Redir in
theorem bo_eq {pids : List Int} (hw : C07.WF pids) : ∀ (f : Nat) (v : Int), 0 ≤ v → v < pids.length →
    (rootPath pids pids.length v).length ≤ f →
    branchOrder pids f v = ((rootPath pids pids.length v).filter (Sub.isFurcation pids)).length := by
  intro f
  induction f with
  | zero =>
    intro v _ _ hl
    have := rp_ne_nil pids pids.length v
    cases hp : rootPath pids pids.length v with
    | nil => exact absurd hp this
    | cons a l => rw [hp] at hl; simp at hl
  | succ f ih =>
    intro v h0 hv hl
    by_cases hv0 : v = 0
    · subst hv0
      rw [rootPath_root hw, bo_succ, if_pos hw.par_root]
      cases h : Sub.isFurcation pids 0 <;> simp [h]
    · have hpos : 0 < v := by omega
      have hpv := hw.par_valid' v hpos hv
      have hne : pids.getD v.toNat (-1) ≠ -1 := by omega
      have hc := hw.path_cons v hpos hv
      rw [hc] at hl ⊢
      rw [bo_succ, if_neg hne, ih _ hpv.1 hpv.2 (by simpa using hl), List.filter_cons]
      cases Sub.isFurcation pids v
      · simp
      · simp; omega

/-! ## terminal degree -/
theorem td_eq (pids : List Int) (s : Rose) (h : Represents s (rangeI pids.length) pids)
    (hin : ∀ i ∈ s.ids, 0 ≤ i ∧ i.toNat < pids.length) :
    terminalDegree pids s.id = (s.ids.filter fun v => !pids.contains v).length := by
  obtain ⟨res, hres, _, hperm, _⟩ := C06.subtree_nodes pids s h hin
  unfold terminalDegree
  rw [hres]
  exact (hperm.filter _).length_eq

/-! ## partition asymmetry -/
theorem absK_eq (x : Rat) : absK x = |x| := by
  unfold absK
  split
  · next h => rw [abs_of_neg h]
  · next h => rw [abs_of_nonneg (not_lt.1 h)]

theorem pa_eq (n1 n2 : Rat) :
    Gen.LM.partitionAsymmetry n1 n2 = if n1 = n2 then 0 else |n1 - n2| / (n1 + n2 - 2) := by
  unfold Gen.LM.partitionAsymmetry
  rw [absK_eq]

/-! ## padding -/
theorem foldl_max_ge : ∀ (vals : List (List Rat)) (a : Nat),
    a ≤ vals.foldl (fun a v => max a v.length) a ∧ ∀ v ∈ vals, v.length ≤ vals.foldl (fun a v => max a v.length) a
  | [], a => by simp
  | w :: vals, a => by
    obtain ⟨h1, h2⟩ := foldl_max_ge vals (max a w.length)
    simp only [List.foldl_cons, List.mem_cons]
    refine ⟨by omega, ?_⟩
    rintro v (rfl | hv)
    · omega
    · exact h2 v hv

theorem pad_eq (m : Nat) (v : List Rat) (h : v.length ≤ m) : pad m v = v ++ List.replicate (m - v.length) 0 := by
  unfold pad
  rw [List.take_append, List.take_of_length_le h, List.take_replicate]
  congr 2
  omega

end FeatP
