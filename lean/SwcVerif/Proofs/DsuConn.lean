import SwcVerif.Proofs.Dsu
import Mathlib.Logic.Relation
/-! Pointer jumping (`get_dsu`) on ANY table — cycles included: partial correctness.

The in-place updates `L[i] := L[L[i]]` never change the weakly connected components of the pointer graph
`i ↦ L[i]`; and a pointer graph at a fixed point (`L[L[i]] = L[i]` for all `i`) has exactly one label per
component.  So whenever the `while` loop stops, two rows carry the same label exactly when they are weakly
connected in the table the loop started from.  (That the loop stops is proved for every forest in
`Proofs/DsuForest.lean` and for EVERY table, cycles included, in `Proofs/DsuTerm.lean`.) -/
namespace Dsu
open Relation

/-- the pointer graph of `g` on `0..n-1` -/
def Ptr (n : Nat) (g : Nat → Nat) (i j : Nat) : Prop := i < n ∧ g i = j

/-- weakly connected in the pointer graph -/
def WConn (n : Nat) (g : Nat → Nat) : Nat → Nat → Prop := EqvGen (Ptr n g)

/-- one in-place update keeps the weak components -/
theorem wconn_step (n : Nat) (g : Nat → Nat) (hcl : ∀ i, i < n → g i < n) (i : Nat) (hi : i < n) (a b : Nat) :
    WConn n (updN g i (g (g i))) a b ↔ WConn n g a b := by
  have hgi : g i < n := hcl i hi
  constructor
  · intro h
    induction h with
    | rel x y hxy =>
      obtain ⟨hx, e⟩ := hxy
      by_cases hxi : x = i
      · subst hxi
        rw [updN_same] at e
        subst e
        exact EqvGen.trans _ _ _ (EqvGen.rel _ _ ⟨hx, rfl⟩) (EqvGen.rel _ _ ⟨hgi, rfl⟩)
      · rw [updN_other _ _ _ _ hxi] at e
        exact EqvGen.rel _ _ ⟨hx, e⟩
    | refl x => exact EqvGen.refl x
    | symm _ _ _ ih => exact EqvGen.symm _ _ ih
    | trans _ _ _ _ _ ih1 ih2 => exact EqvGen.trans _ _ _ ih1 ih2
  · intro h
    induction h with
    | rel x y hxy =>
      obtain ⟨hx, e⟩ := hxy
      by_cases hxi : x = i
      · subst hxi
        subst e
        -- the edge `x → g x` of the old graph: in the new graph `x → g (g x)` and (when `g x ≠ x`) `g x → g (g x)`
        by_cases hself : g x = x
        · have : updN g x (g (g x)) x = x := by rw [updN_same, hself, hself]
          rw [hself]; exact EqvGen.refl x
        · have e1 : Ptr n (updN g x (g (g x))) x (g (g x)) := ⟨hx, by rw [updN_same]⟩
          have e2 : Ptr n (updN g x (g (g x))) (g x) (g (g x)) := ⟨hgi, by rw [updN_other _ _ _ _ hself]⟩
          exact EqvGen.trans _ _ _ (EqvGen.rel _ _ e1) (EqvGen.symm _ _ (EqvGen.rel _ _ e2))
      · exact EqvGen.rel _ _ ⟨hx, by rw [updN_other _ _ _ _ hxi]; exact e⟩
    | refl x => exact EqvGen.refl x
    | symm _ _ _ ih => exact EqvGen.symm _ _ ih
    | trans _ _ _ _ _ ih1 ih2 => exact EqvGen.trans _ _ _ ih1 ih2

theorem closed_step (n : Nat) (g : Nat → Nat) (hcl : ∀ i, i < n → g i < n) (i : Nat) (hi : i < n) :
    ∀ j, j < n → updN g i (g (g i)) j < n := by
  intro j hj
  by_cases hji : j = i
  · subst hji; rw [updN_same]; exact hcl _ (hcl j hj)
  · rw [updN_other _ _ _ _ hji]; exact hcl j hj

/-- at a fixed point two rows have the same label exactly when they are weakly connected -/
theorem fix_labels (n : Nat) (g : Nat → Nat) (hcl : ∀ i, i < n → g i < n) (hfix : ∀ i, i < n → g (g i) = g i)
    (a b : Nat) (ha : a < n) (hb : b < n) : g a = g b ↔ WConn n g a b := by
  constructor
  · intro e
    exact EqvGen.trans _ _ _ (EqvGen.rel _ _ ⟨ha, rfl⟩) (e ▸ EqvGen.symm _ _ (EqvGen.rel _ _ ⟨hb, rfl⟩))
  · intro h
    -- labels are constant along every edge, hence on every component (for rows of the table)
    have key : ∀ x y, WConn n g x y → (x < n → y < n ∧ g x = g y) ∧ (y < n → x < n ∧ g x = g y) := by
      intro x y hxy
      induction hxy with
      | rel x y hxy =>
        obtain ⟨hx, e⟩ := hxy
        subst e
        exact ⟨fun _ => ⟨hcl x hx, (hfix x hx).symm⟩, fun _ => ⟨hx, (hfix x hx).symm⟩⟩
      | refl x => exact ⟨fun h => ⟨h, rfl⟩, fun h => ⟨h, rfl⟩⟩
      | symm x y _ ih => exact ⟨fun h => let r := ih.2 h; ⟨r.1, r.2.symm⟩, fun h => let r := ih.1 h; ⟨r.1, r.2.symm⟩⟩
      | trans x y z _ _ ih1 ih2 =>
        exact ⟨fun h => let r1 := ih1.1 h; let r2 := ih2.1 r1.1; ⟨r2.1, r1.2.trans r2.2⟩,
               fun h => let r2 := ih2.2 h; let r1 := ih1.2 r2.1; ⟨r1.1, r1.2.trans r2.2⟩⟩
    exact ((key a b h).1 ha).2

/-- a pass keeps: tabulation, closedness and the weak components -/
theorem jumpFold_conn (n : Nat) (f : Nat → Nat) :
    ∀ (is : List Nat) (acc : List Nat × Bool) (g : Nat → Nat), (∀ i ∈ is, i < n) → Tab acc.1 n g → (∀ i, i < n → g i < n) →
      (∀ a b, WConn n g a b ↔ WConn n f a b) →
      ∃ g', Tab (is.foldl jumpStep acc).1 n g' ∧ (∀ i, i < n → g' i < n) ∧ (∀ a b, WConn n g' a b ↔ WConn n f a b) := by
  intro is
  induction is with
  | nil => intro acc g _ ht hcl hw; exact ⟨g, ht, hcl, hw⟩
  | cons i t ih =>
    intro acc g his ht hcl hw
    have hi := his i List.mem_cons_self
    rw [List.foldl_cons]
    exact ih (jumpStep acc i) (updN g i (g (g i))) (fun j hj => his j (List.mem_cons_of_mem _ hj))
      (jumpStep_tab ht hi (hcl i hi)) (closed_step n g hcl i hi)
      (fun a b => (wconn_step n g hcl i hi a b).trans (hw a b))

/-- **whenever the loop stops, the labels are the weak components of the table it started from** -/
theorem jumpLoop_conn (n : Nat) (f : Nat → Nat) :
    ∀ (fuel : Nat) (l res : List Nat) (g : Nat → Nat), Tab l n g → (∀ i, i < n → g i < n) →
      (∀ a b, WConn n g a b ↔ WConn n f a b) → jumpLoop fuel l = some res →
      res.length = n ∧ ∀ a b, a < n → b < n → (res.getD a 0 = res.getD b 0 ↔ WConn n f a b) := by
  intro fuel
  induction fuel with
  | zero => intro l res g _ _ _ h; simp [jumpLoop] at h
  | succ fuel ih =>
    intro l res g ht hcl hw h
    simp only [jumpLoop] at h
    by_cases hflag : (jumpPass l).2 = true
    · rw [if_pos hflag] at h
      obtain ⟨e, hfix⟩ := jumpPass_true l hflag
      have hres : res = l := by rw [← e]; exact (Option.some.inj h).symm
      subst hres
      have hfix' : ∀ i, i < n → g (g i) = g i := by
        intro i hi
        have hi' : i < res.length := by rw [ht.1]; exact hi
        have := hfix i hi'
        have e1 : res[i] = g i := by
          have := ht.2 i hi
          simpa [List.getD_eq_getElem?_getD, hi'] using this
        rw [e1, ht.2 (g i) (hcl i hi)] at this
        exact this
      refine ⟨ht.1, fun a b ha hb => ?_⟩
      rw [ht.2 a ha, ht.2 b hb, fix_labels n g hcl hfix' a b ha hb]
      exact hw a b
    · rw [if_neg hflag] at h
      obtain ⟨g', t', c', w'⟩ := jumpFold_conn n f (List.range l.length) (l, true) g
        (fun i hi => by rw [ht.1] at hi; exact List.mem_range.mp hi) ht hcl hw
      rw [← jumpPass_eq] at t'
      exact ih _ res g' t' c' w' h

end Dsu
