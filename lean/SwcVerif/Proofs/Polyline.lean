import SwcVerif.Model.Resample
import Mathlib.Analysis.InnerProductSpace.PiL2
/-! Resampling never makes a polyline longer (used by `Props/C16.lean`).

`goV` is `np.interp`'s segment search (`Resample.interp1.go`) acting on *points* of a real normed space
instead of on one coordinate column.  For sorted abscissae `xp` (whatever they are — the code uses the
cumulated segment lengths it computed in floating point) the sampled points run along the original
polyline in order, so by the triangle inequality the polyline through them is no longer than the original
one (`plen_samples_le`).  Two bridges connect this to the rational, column-wise model: a linear map commutes
with `goV` (`goV_map`, used with the coordinate projections) and the cast ℚ → ℝ commutes with the scalar
model (`go_cast`). -/
set_option linter.unusedSectionVars false
set_option linter.unusedVariables false
namespace Polyline
open Resample

variable {E : Type*} [SeminormedAddCommGroup E] [NormedSpace ℝ E]

/-- `Resample.interp1.go` on points -/
noncomputable def goV (x : ℝ) : ℝ → E → List ℝ → List E → E
  | xa, fa, xb :: xr, fb :: fr =>
    if x < xb then fa + ((x - xa) / (xb - xa)) • (fb - fa) else goV x xb fb xr fr
  | _, fa, _, _ => fa

/-- `np.interp` for one abscissa, on points -/
noncomputable def interpV (xp : List ℝ) (fp : List E) (x : ℝ) : E :=
  match xp, fp with
  | x0 :: xr, f0 :: fr => if x < x0 then f0 else goV x x0 f0 xr fr
  | _, _ => 0

/-- true arc length of the original polyline from its first point to the sample at `x` -/
noncomputable def arc (x : ℝ) : ℝ → E → List ℝ → List E → ℝ
  | xa, fa, xb :: xr, fb :: fr =>
    if x < xb then ((x - xa) / (xb - xa)) * ‖fb - fa‖ else ‖fb - fa‖ + arc x xb fb xr fr
  | _, _, _, _ => 0

/-- length of the polyline through the points -/
noncomputable def plen : List E → ℝ
  | a :: b :: t => ‖b - a‖ + plen (b :: t)
  | _ => 0

/-- nondecreasing -/
def MonoR : List ℝ → Prop
  | a :: b :: t => a ≤ b ∧ MonoR (b :: t)
  | _ => True

theorem plen_nonneg : ∀ l : List E, 0 ≤ plen l
  | [] => le_rfl
  | [_] => le_rfl
  | a :: b :: t => add_nonneg (norm_nonneg _) (plen_nonneg (b :: t))

private theorem frac_bounds {x xa xb : ℝ} (h0 : xa ≤ x) (h1 : x < xb) :
    0 ≤ (x - xa) / (xb - xa) ∧ (x - xa) / (xb - xa) ≤ 1 := by
  have hpos : 0 < xb - xa := by linarith
  refine ⟨div_nonneg (by linarith) hpos.le, ?_⟩
  rw [div_le_one hpos]; linarith

/-- the sample is no farther from the first point than its arc length, which lies between 0 and the total -/
theorem start_le_arc (x : ℝ) : ∀ (xr : List ℝ) (fr : List E) (xa : ℝ) (fa : E), MonoR (xa :: xr) → xa ≤ x →
    ‖goV x xa fa xr fr - fa‖ ≤ arc x xa fa xr fr ∧ 0 ≤ arc x xa fa xr fr ∧
      arc x xa fa xr fr ≤ plen (fa :: fr)
  | [], fr, xa, fa, _, _ => by
    cases fr <;> simp [goV, arc, plen_nonneg]
  | xb :: xr, [], xa, fa, _, _ => by simp [goV, arc, plen]
  | xb :: xr, fb :: fr, xa, fa, hm, hx => by
    by_cases h : x < xb
    · obtain ⟨h0, h1⟩ := frac_bounds hx h
      simp only [goV, arc, if_pos h, plen, add_sub_cancel_left]
      refine ⟨?_, mul_nonneg h0 (norm_nonneg _), ?_⟩
      · rw [norm_smul, Real.norm_of_nonneg h0]
      · have := plen_nonneg (fb :: fr)
        nlinarith [norm_nonneg (fb - fa)]
    · obtain ⟨i1, i2, i3⟩ := start_le_arc x xr fr xb fb hm.2 (not_lt.mp h)
      simp only [goV, arc, if_neg h, plen]
      refine ⟨?_, add_nonneg (norm_nonneg _) i2, by linarith⟩
      calc ‖goV x xb fb xr fr - fa‖ = ‖(goV x xb fb xr fr - fb) + (fb - fa)‖ := by
            congr 1; abel
        _ ≤ ‖goV x xb fb xr fr - fb‖ + ‖fb - fa‖ := norm_add_le _ _
        _ ≤ ‖fb - fa‖ + arc x xb fb xr fr := by linarith

/-- **1-Lipschitz in arc length**: two samples are no farther apart than the arc between them -/
theorem dist_le_arc (x x' : ℝ) (hxx : x ≤ x') : ∀ (xr : List ℝ) (fr : List E) (xa : ℝ) (fa : E),
    MonoR (xa :: xr) → xa ≤ x →
    ‖goV x' xa fa xr fr - goV x xa fa xr fr‖ ≤ arc x' xa fa xr fr - arc x xa fa xr fr
  | [], fr, xa, fa, _, _ => by
    cases fr <;> simp [goV, arc]
  | xb :: xr, [], xa, fa, _, _ => by simp [goV, arc]
  | xb :: xr, fb :: fr, xa, fa, hm, hx => by
    by_cases h : x < xb
    · by_cases h' : x' < xb
      · -- both on the segment `fa — fb`
        simp only [goV, arc, if_pos h, if_pos h']
        have hpos : 0 < xb - xa := by linarith
        have e : fa + ((x' - xa) / (xb - xa)) • (fb - fa) - (fa + ((x - xa) / (xb - xa)) • (fb - fa)) =
            ((x' - x) / (xb - xa)) • (fb - fa) := by
          rw [add_sub_add_left_eq_sub, ← sub_smul]; congr 1; field_simp; ring
        rw [e, norm_smul, Real.norm_of_nonneg (div_nonneg (by linarith) hpos.le)]
        apply le_of_eq; field_simp; ring
      · -- `x` on the first segment, `x'` later: go through `fb`
        obtain ⟨h0, h1⟩ := frac_bounds hx h
        obtain ⟨i1, _, _⟩ := start_le_arc x' xr fr xb fb hm.2 (not_lt.mp h')
        simp only [goV, arc, if_pos h, if_neg h']
        have e : goV x' xb fb xr fr - (fa + ((x - xa) / (xb - xa)) • (fb - fa)) =
            (goV x' xb fb xr fr - fb) + (1 - (x - xa) / (xb - xa)) • (fb - fa) := by
          rw [sub_smul, one_smul]; abel
        rw [e]
        calc ‖(goV x' xb fb xr fr - fb) + (1 - (x - xa) / (xb - xa)) • (fb - fa)‖
            ≤ ‖goV x' xb fb xr fr - fb‖ + ‖(1 - (x - xa) / (xb - xa)) • (fb - fa)‖ := norm_add_le _ _
          _ = ‖goV x' xb fb xr fr - fb‖ + (1 - (x - xa) / (xb - xa)) * ‖fb - fa‖ := by
            rw [norm_smul, Real.norm_of_nonneg (by linarith)]
          _ ≤ _ := by linarith
    · have h' : ¬ x' < xb := by intro h'; exact h (lt_of_le_of_lt hxx h')
      simp only [goV, arc, if_neg h, if_neg h']
      have := dist_le_arc x x' hxx xr fr xb fb hm.2 (not_lt.mp h)
      linarith

/-- samples taken at nondecreasing abscissae: the polyline through them is no longer than the arc between
the first and the last of them -/
theorem plen_samples (xr : List ℝ) (fr : List E) (xa : ℝ) (fa : E) (hm : MonoR (xa :: xr)) :
    ∀ (s : List ℝ) (a : ℝ), MonoR (a :: s) → xa ≤ a →
      plen ((a :: s).map fun x => goV x xa fa xr fr) ≤
        arc ((a :: s).getLast (List.cons_ne_nil _ _)) xa fa xr fr - arc a xa fa xr fr
  | [], a, _, _ => by simp [plen]
  | b :: s, a, hs, ha => by
    have ih := plen_samples xr fr xa fa hm s b hs.2 (le_trans ha hs.1)
    have d := dist_le_arc a b hs.1 xr fr xa fa hm ha
    simp only [List.map_cons, plen] at ih ⊢
    rw [List.getLast_cons (List.cons_ne_nil _ _)]
    linarith

/-- **resampling never makes a polyline longer** -/
theorem plen_samples_le (xp : List ℝ) (fp : List E) (hm : MonoR xp) (s : List ℝ) (hs : MonoR s)
    (h0 : ∀ x0 ∈ xp.head?, ∀ a ∈ s.head?, x0 ≤ a) :
    plen (s.map (interpV xp fp)) ≤ plen fp := by
  cases s with
  | nil => simpa [plen] using plen_nonneg fp
  | cons a s =>
    cases xp with
    | nil =>
      have : (a :: s).map (interpV ([] : List ℝ) fp) = (a :: s).map fun _ => (0 : E) := by
        apply List.map_congr_left; intro x _; simp [interpV]
      rw [this]
      have hz : ∀ l : List ℝ, plen (l.map fun _ => (0 : E)) = 0 := by
        intro l
        induction l with
        | nil => rfl
        | cons x l ih => cases l with
          | nil => rfl
          | cons y l => simp only [List.map_cons, plen, sub_self, norm_zero, zero_add] at ih ⊢; exact ih
      rw [hz]; exact plen_nonneg fp
    | cons x0 xr =>
      cases fp with
      | nil =>
        have : (a :: s).map (interpV (x0 :: xr) ([] : List E)) = (a :: s).map fun _ => (0 : E) := by
          apply List.map_congr_left; intro x _; simp [interpV]
        rw [this]
        have hz : ∀ l : List ℝ, plen (l.map fun _ => (0 : E)) = 0 := by
          intro l
          induction l with
          | nil => rfl
          | cons x l ih => cases l with
            | nil => rfl
            | cons y l => simp only [List.map_cons, plen, sub_self, norm_zero, zero_add] at ih ⊢; exact ih
        rw [hz]; rfl
      | cons f0 fr =>
        have ha : x0 ≤ a := h0 x0 (by simp) a (by simp)
        -- all samples are at or after `x0`, so the clamp at the left end is never taken
        have hall : ∀ x ∈ a :: s, x0 ≤ x := by
          have : ∀ (l : List ℝ) (b : ℝ), MonoR (b :: l) → ∀ x ∈ b :: l, b ≤ x := by
            intro l
            induction l with
            | nil => intro b _ x hx; simp at hx; rw [hx]
            | cons c l ih =>
              intro b hb x hx
              rcases List.mem_cons.mp hx with rfl | hx
              · exact le_rfl
              · exact le_trans hb.1 (ih c hb.2 x hx)
          intro x hx; exact le_trans ha (this s a hs x hx)
        have e : (a :: s).map (interpV (x0 :: xr) (f0 :: fr)) = (a :: s).map fun x => goV x x0 f0 xr fr := by
          apply List.map_congr_left
          intro x hx
          simp [interpV, not_lt.mpr (hall x hx)]
        rw [e]
        have h1 := plen_samples xr fr x0 f0 hm s a hs ha
        obtain ⟨_, i2, _⟩ := start_le_arc a xr fr x0 f0 hm ha
        have hl : x0 ≤ (a :: s).getLast (List.cons_ne_nil _ _) := hall _ (List.getLast_mem _)
        obtain ⟨_, _, i3⟩ := start_le_arc ((a :: s).getLast (List.cons_ne_nil _ _)) xr fr x0 f0 hm hl
        linarith

/-! ## bridges to the column-wise rational model -/

/-- a linear map commutes with the interpolation (used with the coordinate projections) -/
theorem goV_map {F : Type*} [SeminormedAddCommGroup F] [NormedSpace ℝ F] (φ : E →ₗ[ℝ] F) (x : ℝ) :
    ∀ (xr : List ℝ) (fr : List E) (xa : ℝ) (fa : E),
      φ (goV x xa fa xr fr) = goV x xa (φ fa) xr (fr.map φ)
  | [], fr, xa, fa => by cases fr <;> simp [goV]
  | xb :: xr, [], xa, fa => by simp [goV]
  | xb :: xr, fb :: fr, xa, fa => by
    simp only [goV, List.map_cons]
    split
    · simp [map_add, map_smul, map_sub]
    · exact goV_map φ x xr fr xb fb

/-- the cast ℚ → ℝ commutes with the scalar model of `np.interp` -/
theorem go_cast (x : ℚ) : ∀ (xr fr : List ℚ) (xa fa : ℚ),
    ((interp1.go x xa fa xr fr : ℚ) : ℝ) =
      goV (x : ℝ) (xa : ℝ) (fa : ℝ) (xr.map (fun q : ℚ => (q : ℝ))) (fr.map (fun q : ℚ => (q : ℝ)))
  | [], fr, xa, fa => by cases fr <;> simp [interp1.go, goV]
  | xb :: xr, [], xa, fa => by simp [interp1.go, goV]
  | xb :: xr, fb :: fr, xa, fa => by
    simp only [interp1.go, goV, List.map_cons]
    by_cases h : x < xb
    · have h' : (x : ℝ) < (xb : ℝ) := by exact_mod_cast h
      rw [if_pos h, if_pos h']
      push_cast
      rw [smul_eq_mul]; ring
    · have h' : ¬ (x : ℝ) < (xb : ℝ) := by exact_mod_cast h
      rw [if_neg h, if_neg h']
      exact go_cast x xr fr xb fb

end Polyline
