import SwcVerif.Model.Redirect
/-! Generic lemmas about the executable model `Model/Redirect.lean` (used by `Props/C07.lean`). -/
namespace Redir

/-! ## rootPath -/
theorem rp_zero (pids : List Int) (k : Int) : rootPath pids 0 k = [k] := rfl

theorem rp_succ (pids : List Int) (f : Nat) (k : Int) :
    rootPath pids (f+1) k =
      if pids.getD k.toNat (-1) = -1 then [k] else k :: rootPath pids f (pids.getD k.toNat (-1)) := by
  rw [rootPath]
  split
  · next h => rw [if_pos h]
  · next h => rw [if_neg (by intro h'; exact h h')]

theorem rp_ne_nil (pids : List Int) (f : Nat) (k : Int) : rootPath pids f k ≠ [] := by
  cases f with
  | zero => simp [rp_zero]
  | succ f => rw [rp_succ]; split <;> simp

theorem rp_head (pids : List Int) (f : Nat) (k : Int) : (rootPath pids f k).head? = some k := by
  cases f with
  | zero => simp [rp_zero]
  | succ f => rw [rp_succ]; split <;> simp

theorem getLast?_cons_of_ne_nil {α} (a : α) (l : List α) (h : l ≠ []) : (a :: l).getLast? = l.getLast? := by
  cases l with
  | nil => exact absurd rfl h
  | cons b l => simp [List.getLast?_cons_cons]

/-- once the walk has stopped at a parentless node, more fuel changes nothing -/
theorem rp_stable (pids : List Int) (z : Int) (hz : pids.getD z.toNat (-1) = -1) :
    ∀ (f : Nat) (v : Int), (rootPath pids f v).getLast? = some z → rootPath pids (f+1) v = rootPath pids f v := by
  intro f
  induction f with
  | zero =>
    intro v h
    simp [rp_zero] at h
    subst h
    rw [rp_succ, if_pos hz, rp_zero]
  | succ f ih =>
    intro v h
    rw [rp_succ] at h
    rw [rp_succ pids (f+1) v, rp_succ pids f v]
    by_cases hp : pids.getD v.toNat (-1) = -1
    · rw [if_pos hp, if_pos hp]
    · rw [if_neg hp] at h
      rw [if_neg hp, if_neg hp]
      rw [getLast?_cons_of_ne_nil _ _ (rp_ne_nil _ _ _)] at h
      rw [ih _ h]

/-- consecutive elements of the walk are child → parent -/
theorem rp_chain (pids : List Int) : ∀ (f : Nat) (k : Int) (i : Nat) (h : i + 1 < (rootPath pids f k).length),
    pids.getD ((rootPath pids f k)[i]'(by omega)).toNat (-1) = (rootPath pids f k)[i+1] := by
  intro f
  induction f with
  | zero => intro k i h; simp [rp_zero] at h
  | succ f ih =>
    intro k i h
    have e := rp_succ pids f k
    by_cases hp : pids.getD k.toNat (-1) = -1
    · rw [if_pos hp] at e
      rw [e] at h; simp at h
    · rw [if_neg hp] at e
      have hl : (rootPath pids (f+1) k).length = (rootPath pids f (pids.getD k.toNat (-1))).length + 1 := by
        rw [e]; rfl
      cases i with
      | zero =>
        simp only [e, List.getElem_cons_zero, List.getElem_cons_succ]
        have := rp_head pids f (pids.getD k.toNat (-1))
        rw [List.head?_eq_getElem?] at this
        have h0 : 0 < (rootPath pids f (pids.getD k.toNat (-1))).length := by omega
        rw [List.getElem?_eq_getElem h0] at this
        exact (Option.some.inj this).symm
      | succ i =>
        simp only [e, List.getElem_cons_succ]
        exact ih _ i (by omega)

/-! ## setAt / reversePath -/
theorem setAt_length {α} (l : List α) (i : Int) (v : α) : (setAt l i v).length = l.length := by
  unfold setAt; split <;> simp

theorem setAt_getElem?_ne {α} (l : List α) (i : Int) (v : α) (j : Nat) (h : (j : Int) ≠ i) :
    (setAt l i v)[j]? = l[j]? := by
  unfold setAt; split
  · rfl
  · rw [List.getElem?_set_ne]; omega

theorem setAt_getElem?_self {α} (l : List α) (j : Nat) (v : α) (h : j < l.length) :
    (setAt l (j : Int) v)[j]? = some v := by
  unfold setAt
  rw [if_neg (by omega)]
  simp [h]

theorem reversePath_cons_cons (ps : List Int) (c p : Int) (rest : List Int) :
    reversePath ps (c :: p :: rest) = reversePath (setAt ps p c) (p :: rest) := by
  rw [reversePath]

theorem reversePath_nil (ps : List Int) : reversePath ps [] = ps := by rw [reversePath]; intros; simp_all
theorem reversePath_single (ps : List Int) (c : Int) : reversePath ps [c] = ps := by
  rw [reversePath]; intros; simp_all

theorem reversePath_length : ∀ (l : List Int) (ps : List Int), (reversePath ps l).length = ps.length := by
  intro l
  induction l with
  | nil => intro ps; rw [reversePath_nil]
  | cons c l ih =>
    intro ps
    cases l with
    | nil => rw [reversePath_single]
    | cons p rest => rw [reversePath_cons_cons, ih, setAt_length]

/-- rows that are not a later element of the path are not written -/
theorem reversePath_frame : ∀ (l : List Int) (ps : List Int) (v : Nat), (v : Int) ∉ l.tail →
    (reversePath ps l)[v]? = ps[v]? := by
  intro l
  induction l with
  | nil => intro ps v _; rw [reversePath_nil]
  | cons c l ih =>
    intro ps v hv
    cases l with
    | nil => rw [reversePath_single]
    | cons p rest =>
      rw [reversePath_cons_cons, ih]
      · apply setAt_getElem?_ne
        intro h; apply hv; simp [h]
      · intro h; apply hv; simp at h ⊢; exact Or.inr h

/-- every later element of a duplicate-free path now points to its predecessor -/
theorem reversePath_rev : ∀ (l : List Int) (ps : List Int), l.Nodup → (∀ v ∈ l, 0 ≤ v ∧ v < ps.length) →
    ∀ i (h : i + 1 < l.length), (reversePath ps l)[(l[i+1]).toNat]? = some (l[i]'(by omega)) := by
  intro l
  induction l with
  | nil => intro ps _ _ i h; simp at h
  | cons c l ih =>
    intro ps hnd hval i h
    cases l with
    | nil => simp at h
    | cons p rest =>
      rw [reversePath_cons_cons]
      have hp := hval p (by simp)
      have hnd' : (p :: rest).Nodup := (List.nodup_cons.mp hnd).2
      cases i with
      | zero =>
        simp only [List.getElem_cons_zero, List.getElem_cons_succ]
        rw [reversePath_frame]
        · have : p = ((p.toNat : Nat) : Int) := by omega
          rw [this]
          simp only [Int.toNat_natCast]
          apply setAt_getElem?_self
          omega
        · have : ((p.toNat : Nat) : Int) = p := by omega
          rw [this]
          exact (List.nodup_cons.mp hnd').1
      | succ i =>
        simp only [List.getElem_cons_succ]
        have := ih (setAt ps p c) hnd' (by
          intro v hv; rw [setAt_length]; exact hval v (List.mem_cons_of_mem _ hv)) i (by simpa using h)
        simpa using this

/-! ## foldl of setAt -/
theorem foldl_setAt_length {α} (v : α) : ∀ (L : List Int) (ps : List α),
    (L.foldl (fun ps n => setAt ps n v) ps).length = ps.length := by
  intro L
  induction L with
  | nil => intro ps; rfl
  | cons a L ih => intro ps; rw [List.foldl_cons, ih, setAt_length]

theorem foldl_setAt_not_mem {α} (v : α) : ∀ (L : List Int) (ps : List α) (i : Nat), (i : Int) ∉ L →
    (L.foldl (fun ps n => setAt ps n v) ps)[i]? = ps[i]? := by
  intro L
  induction L with
  | nil => intro ps i _; rfl
  | cons a L ih =>
    intro ps i hi
    rw [List.foldl_cons, ih _ _ (fun h => hi (List.mem_cons_of_mem _ h))]
    exact setAt_getElem?_ne _ _ _ _ (fun h => hi (by simp [h]))

theorem foldl_setAt_mem {α} (v : α) : ∀ (L : List Int) (ps : List α) (i : Nat), (i : Int) ∈ L → i < ps.length →
    (L.foldl (fun ps n => setAt ps n v) ps)[i]? = some v := by
  intro L
  induction L with
  | nil => intro ps i h; simp at h
  | cons a L ih =>
    intro ps i hi hlt
    rw [List.foldl_cons]
    by_cases hL : (i : Int) ∈ L
    · exact ih _ _ hL (by rw [setAt_length]; exact hlt)
    · rw [foldl_setAt_not_mem v L _ i hL]
      have : a = (i : Int) := by
        rcases List.mem_cons.mp hi with h | h
        · exact h.symm
        · exact absurd h hL
      rw [this]
      exact setAt_getElem?_self _ _ _ hlt

/-! ## eraseAt -/
theorem eraseAt_length {α} (l : List α) (k : Nat) (h : k < l.length) : (eraseAt l k).length = l.length - 1 := by
  unfold eraseAt; simp; omega

theorem eraseAt_getElem?_lt {α} (l : List α) (k i : Nat) (h : i < k) : (eraseAt l k)[i]? = l[i]? := by
  unfold eraseAt
  by_cases hk : k ≤ l.length
  · rw [List.getElem?_append_left (by simp; omega)]
    simp [List.getElem?_take, h]
  · have : l.drop (k+1) = [] := by simp; omega
    rw [this, List.append_nil, List.getElem?_take, if_pos h]

theorem eraseAt_getElem?_ge {α} (l : List α) (k i : Nat) (h : k ≤ i) (hk : k ≤ l.length) :
    (eraseAt l k)[i]? = l[i+1]? := by
  unfold eraseAt
  rw [List.getElem?_append_right (by simp; omega)]
  simp
  congr 1; omega

/-! ## tableKids over `range` ids -/
theorem mem_tableKids_aux : ∀ (ps : List Int) (m n : Nat) (q : Int) (j : Nat),
    (j : Int) ∈ tableKids ((List.range' m n).map Int.ofNat) ps q ↔
      ∃ i, i < n ∧ j = m + i ∧ ps[i]? = some q := by
  intro ps
  induction ps with
  | nil =>
    intro m n q j
    cases n <;> simp [tableKids, List.range'_succ]
  | cons p ps ih =>
    intro m n q j
    cases n with
    | zero => simp [tableKids]
    | succ n =>
      simp only [List.range'_succ, List.map_cons, tableKids]
      have key : (∃ i, i < n + 1 ∧ j = m + i ∧ (p :: ps)[i]? = some q) ↔
          ((j = m ∧ p = q) ∨ ∃ i, i < n ∧ j = (m + 1) + i ∧ ps[i]? = some q) := by
        constructor
        · rintro ⟨i, hi, hj, hq⟩
          cases i with
          | zero => left; simp at hq; exact ⟨by omega, hq⟩
          | succ i => right; exact ⟨i, by omega, by omega, by simpa using hq⟩
        · rintro (⟨hj, hq⟩ | ⟨i, hi, hj, hq⟩)
          · exact ⟨0, by omega, by omega, by simp [hq]⟩
          · exact ⟨i + 1, by omega, by omega, by simpa using hq⟩
      rw [key]
      by_cases hp : p = q
      · rw [if_pos hp, List.mem_cons, ih]
        have : (j : Int) = Int.ofNat m ↔ j = m := by
          constructor
          · intro h; exact Int.ofNat.inj h
          · intro h; rw [h]; rfl
        rw [this]; simp [hp]
      · rw [if_neg hp, ih]; simp [hp]

theorem mem_tableKids_range (ps : List Int) (n : Nat) (q : Int) (j : Nat) :
    (j : Int) ∈ tableKids ((List.range n).map Int.ofNat) ps q ↔ (j < n ∧ ps[j]? = some q) := by
  rw [List.range_eq_range', mem_tableKids_aux]
  constructor
  · rintro ⟨i, hi, hj, hq⟩
    have : j = i := by omega
    subst this; exact ⟨hi, hq⟩
  · rintro ⟨hj, hq⟩; exact ⟨j, hj, by omega, hq⟩

/-- every child listed is a row index -/
theorem tableKids_nonneg : ∀ (ids ps : List Int) (q : Int), (∀ i ∈ ids, 0 ≤ i) → ∀ i ∈ tableKids ids ps q, 0 ≤ i := by
  intro ids
  induction ids with
  | nil => intro ps q _ i h; simp [tableKids] at h
  | cons a ids ih =>
    intro ps q hids i h
    cases ps with
    | nil => simp [tableKids] at h
    | cons p ps =>
      simp only [tableKids] at h
      split at h
      · rcases List.mem_cons.mp h with h | h
        · subst h; exact hids _ (by simp)
        · exact ih ps q (fun i hi => hids i (List.mem_cons_of_mem _ hi)) i h
      · exact ih ps q (fun i hi => hids i (List.mem_cons_of_mem _ hi)) i h

end Redir
