import SwcVerif.Props.C06
import SwcVerif.Props.C07
/-! # The representation lemma

Every well-formed parent list (node 0 the only root, every other parent a node, every node reaches 0 —
`C07.WF`, the well-formedness the properties speak of) is the table of a rose tree: the hypothesis
`Represents r … / IsTree r pids` under which C04–C08, C10, C14 are proved by structural induction is
satisfiable for EVERY well-formed tree, so those theorems quantify over all well-formed trees. -/
namespace Represent
open Sub Redir

/-! ## generic facts about `roseOf`, `idsL`, `AgreesL`, `tableKids`, `rangeI` -/

theorem roseOf_id (ids pids : List Int) (f : Nat) (i : Int) : (roseOf ids pids f i).id = i := by
  cases f <;> rfl

theorem roseOf_zero (ids pids : List Int) (i : Int) : roseOf ids pids 0 i = .node i [] := rfl

theorem roseOf_succ (ids pids : List Int) (f : Nat) (i : Int) :
    roseOf ids pids (f+1) i = .node i ((tableKids ids pids i).map (roseOf ids pids f)) := rfl

theorem agreesL_map (kf : Int → List Int) (g : Int → Rose) : ∀ l : List Int,
    (∀ j ∈ l, Agrees kf (g j)) → AgreesL kf (l.map g)
  | [], _ => by simp [AgreesL]
  | a :: l, h => by
    simp only [List.map_cons, AgreesL]
    exact ⟨h a (by simp), agreesL_map kf g l (fun j hj => h j (List.mem_cons_of_mem _ hj))⟩

theorem mem_idsL_map (g : Int → Rose) (w : Int) : ∀ l : List Int,
    w ∈ idsL (l.map g) ↔ ∃ j ∈ l, w ∈ (g j).ids
  | [] => by simp [idsL]
  | a :: l => by
    simp only [List.map_cons, idsL, List.mem_append, mem_idsL_map g w l, List.mem_cons]
    constructor
    · rintro (h | ⟨j, hj, h⟩)
      · exact ⟨a, Or.inl rfl, h⟩
      · exact ⟨j, Or.inr hj, h⟩
    · rintro ⟨j, rfl | hj, h⟩
      · exact Or.inl h
      · exact Or.inr ⟨j, hj, h⟩

theorem nodup_idsL_map (g : Int → Rose) : ∀ l : List Int, l.Nodup →
    (∀ j ∈ l, (g j).ids.Nodup) →
    (∀ j1 ∈ l, ∀ j2 ∈ l, ∀ w, w ∈ (g j1).ids → w ∈ (g j2).ids → j1 = j2) →
    (idsL (l.map g)).Nodup
  | [], _, _, _ => by simp [idsL]
  | a :: l, hd, hn, hdis => by
    rw [List.nodup_cons] at hd
    simp only [List.map_cons, idsL, List.nodup_append]
    refine ⟨hn a (by simp), ?_, ?_⟩
    · exact nodup_idsL_map g l hd.2 (fun j hj => hn j (List.mem_cons_of_mem _ hj))
        (fun j1 h1 j2 h2 => hdis j1 (List.mem_cons_of_mem _ h1) j2 (List.mem_cons_of_mem _ h2))
    · intro x hx y hy hxy
      subst hxy
      obtain ⟨j, hj, hxj⟩ := (mem_idsL_map g x l).1 hy
      have := hdis a (by simp) j (List.mem_cons_of_mem _ hj) x hx hxj
      exact hd.1 (this ▸ hj)

theorem mem_ids_roseOf_zero (ids pids : List Int) (v w : Int) :
    w ∈ (roseOf ids pids 0 v).ids ↔ w = v := by
  simp [roseOf_zero, Rose.ids, idsL]

theorem mem_ids_roseOf_succ (ids pids : List Int) (f : Nat) (v w : Int) :
    w ∈ (roseOf ids pids (f+1) v).ids ↔
      w = v ∨ ∃ j ∈ tableKids ids pids v, w ∈ (roseOf ids pids f j).ids := by
  rw [roseOf_succ]
  simp only [Rose.ids, List.mem_cons, mem_idsL_map]

theorem tableKids_sublist : ∀ (ids pids : List Int) (q : Int), (tableKids ids pids q).Sublist ids
  | [], _, _ => by simp [tableKids]
  | i :: is, [], _ => by simp [tableKids]
  | i :: is, p :: ps, q => by
    simp only [tableKids]
    split
    · exact (tableKids_sublist is ps q).cons_cons i
    · exact (tableKids_sublist is ps q).cons i

theorem rangeI_nodup (n : Nat) : (rangeI n).Nodup := by
  unfold rangeI
  rw [List.Nodup, List.pairwise_map]
  exact (List.nodup_range (n := n)).imp (fun h e => h (Int.ofNat.inj e))

theorem tableKids_nodup (n : Nat) (pids : List Int) (q : Int) : (tableKids (rangeI n) pids q).Nodup :=
  (tableKids_sublist _ _ _).nodup (rangeI_nodup n)

/-! ## depth of a node of a well-formed table: length of its root path -/

/-- depth + 1 -/
def D (pids : List Int) (v : Int) : Nat := (rootPath pids pids.length v).length

theorem D_pos (pids : List Int) (v : Int) : 0 < D pids v :=
  List.length_pos_iff.2 (rp_ne_nil _ _ _)

theorem D_le {pids : List Int} (hw : C07.WF pids) (v : Int) (h0 : 0 ≤ v) (hv : v < pids.length) :
    D pids v ≤ pids.length := by
  have hwalk := hw.walk pids.length v h0 hv
  refine C06.nodup_bound _ _ hwalk.2 (fun i hi => ?_)
  have := hwalk.1 i hi
  omega

/-- a row of the table: a child of a node `v ≥ 0` is a non-root node whose parent is `v`, one level deeper -/
theorem kid_facts {pids : List Int} (hw : C07.WF pids) (v j : Int) (hv0 : 0 ≤ v)
    (hj : j ∈ tableKids (rangeI pids.length) pids v) :
    0 < j ∧ j < pids.length ∧ pids.getD j.toNat (-1) = v ∧
      rootPath pids pids.length j = j :: rootPath pids pids.length v := by
  obtain ⟨h0, hlt, hq⟩ := (C06.mem_tableKids pids v j).1 hj
  have hne : j ≠ 0 := by
    intro e
    subst e
    have := hw.root
    simp only [Int.toNat_zero] at hq hlt
    rw [List.getElem?_eq_getElem hlt, hq] at this
    have := Option.some.inj this
    omega
  have hpos : 0 < j := by omega
  have hjl : j < pids.length := by omega
  have hpar : pids.getD j.toNat (-1) = v := by rw [C06.getD_eq_getElem _ _ hlt]; exact hq
  refine ⟨hpos, hjl, hpar, ?_⟩
  rw [hw.path_cons j hpos hjl, hpar]

theorem kid_D {pids : List Int} (hw : C07.WF pids) (v j : Int) (hv0 : 0 ≤ v)
    (hj : j ∈ tableKids (rangeI pids.length) pids v) :
    D pids j = D pids v + 1 ∧ D pids j ≤ pids.length := by
  obtain ⟨h0, hlt, _, hp⟩ := kid_facts hw v j hv0 hj
  refine ⟨?_, D_le hw j (by omega) hlt⟩
  unfold D
  rw [hp, List.length_cons]

/-! ## the rose read off the table -/

theorem roseOf_agrees {pids : List Int} (hw : C07.WF pids) : ∀ (f : Nat) (v : Int), 0 ≤ v → v < pids.length →
    pids.length - D pids v ≤ f →
    Agrees (tableKids (rangeI pids.length) pids) (roseOf (rangeI pids.length) pids f v) := by
  intro f
  induction f with
  | zero =>
    intro v h0 hv hf
    rw [roseOf_zero]
    simp only [Agrees, AgreesL, List.map_nil, and_true]
    apply List.eq_nil_iff_forall_not_mem.2
    intro j hj
    have := kid_D hw v j h0 hj
    have := D_le hw v h0 hv
    omega
  | succ f ih =>
    intro v h0 hv hf
    rw [roseOf_succ]
    simp only [Agrees]
    constructor
    · rw [List.map_map]
      have : ∀ j ∈ tableKids (rangeI pids.length) pids v,
          (Rose.id ∘ roseOf (rangeI pids.length) pids f) j = j := fun j _ => roseOf_id _ _ _ _
      rw [List.map_congr_left this, List.map_id'']
      intro x; rfl
    · apply agreesL_map
      intro j hj
      obtain ⟨hj0, hjl, _, _⟩ := kid_facts hw v j h0 hj
      have := kid_D hw v j h0 hj
      exact ih j (by omega) hjl (by omega)

/-- every id of the rose at `v` is a node and has `v` on its root path -/
theorem roseOf_ids_inv {pids : List Int} (hw : C07.WF pids) : ∀ (f : Nat) (v : Int), 0 ≤ v → v < pids.length →
    ∀ w ∈ (roseOf (rangeI pids.length) pids f v).ids,
      (0 ≤ w ∧ w < pids.length) ∧ rootPath pids pids.length v <:+ rootPath pids pids.length w := by
  intro f
  induction f with
  | zero =>
    intro v h0 hv w hwm
    rw [mem_ids_roseOf_zero] at hwm
    subst hwm
    exact ⟨⟨h0, hv⟩, List.suffix_refl _⟩
  | succ f ih =>
    intro v h0 hv w hwm
    rw [mem_ids_roseOf_succ] at hwm
    rcases hwm with rfl | ⟨j, hj, hwj⟩
    · exact ⟨⟨h0, hv⟩, List.suffix_refl _⟩
    · obtain ⟨hj0, hjl, _, hp⟩ := kid_facts hw v j h0 hj
      obtain ⟨hval, hsuf⟩ := ih j (by omega) hjl w hwj
      refine ⟨hval, List.IsSuffix.trans ?_ hsuf⟩
      rw [hp]
      exact List.suffix_cons _ _

theorem roseOf_nodup {pids : List Int} (hw : C07.WF pids) : ∀ (f : Nat) (v : Int), 0 ≤ v → v < pids.length →
    (roseOf (rangeI pids.length) pids f v).ids.Nodup := by
  intro f
  induction f with
  | zero =>
    intro v _ _
    simp [roseOf_zero, Rose.ids, idsL]
  | succ f ih =>
    intro v h0 hv
    rw [roseOf_succ]
    simp only [Rose.ids, List.nodup_cons]
    constructor
    · intro hmem
      obtain ⟨j, hj, hvj⟩ := (mem_idsL_map _ _ _).1 hmem
      obtain ⟨hj0, hjl, _, _⟩ := kid_facts hw v j h0 hj
      have hsuf := (roseOf_ids_inv hw f j (by omega) hjl v hvj).2
      have hlen := hsuf.length_le
      have := (kid_D hw v j h0 hj).1
      unfold D at this
      omega
    · apply nodup_idsL_map _ _ (tableKids_nodup _ _ _)
      · intro j hj
        obtain ⟨hj0, hjl, _, _⟩ := kid_facts hw v j h0 hj
        exact ih j (by omega) hjl
      · intro j1 h1 j2 h2 w hw1 hw2
        obtain ⟨h10, h1l, _, hp1⟩ := kid_facts hw v j1 h0 h1
        obtain ⟨h20, h2l, _, hp2⟩ := kid_facts hw v j2 h0 h2
        have s1 := (roseOf_ids_inv hw f j1 (by omega) h1l w hw1).2
        have s2 := (roseOf_ids_inv hw f j2 (by omega) h2l w hw2).2
        have hle : (rootPath pids pids.length j1).length ≤ (rootPath pids pids.length j2).length := by
          rw [hp1, hp2]; simp
        have hs := List.suffix_of_suffix_length_le s1 s2 hle
        have heq := hs.eq_of_length (by rw [hp1, hp2]; simp)
        rw [hp1, hp2] at heq
        exact (List.cons.inj heq).1

/-- with enough fuel the ids of the rose are closed under "child of" -/
theorem roseOf_closed {pids : List Int} (hw : C07.WF pids) : ∀ (f : Nat) (v : Int), 0 ≤ v → v < pids.length →
    pids.length - D pids v ≤ f →
    ∀ p ∈ (roseOf (rangeI pids.length) pids f v).ids, ∀ w ∈ tableKids (rangeI pids.length) pids p,
      w ∈ (roseOf (rangeI pids.length) pids f v).ids := by
  intro f
  induction f with
  | zero =>
    intro v h0 hv hf p hp w hwk
    rw [mem_ids_roseOf_zero] at hp
    subst hp
    have := kid_D hw p w h0 hwk
    have := D_le hw p h0 hv
    omega
  | succ f ih =>
    intro v h0 hv hf p hp w hwk
    rw [mem_ids_roseOf_succ] at hp ⊢
    right
    rcases hp with rfl | ⟨j, hj, hpj⟩
    · refine ⟨w, hwk, ?_⟩
      have := Trav.ids_head (roseOf (rangeI pids.length) pids f w)
      rwa [roseOf_id] at this
    · obtain ⟨hj0, hjl, _, _⟩ := kid_facts hw v j h0 hj
      have := kid_D hw v j h0 hj
      exact ⟨j, hj, ih j (by omega) hjl (by omega) p hpj w hwk⟩

/-- every node occurs in the rose at the root -/
theorem roseOf_covers {pids : List Int} (hw : C07.WF pids) : ∀ (m : Nat) (w : Int), 0 ≤ w → w < pids.length →
    D pids w = m → w ∈ (roseOf (rangeI pids.length) pids pids.length 0).ids := by
  intro m
  induction m with
  | zero =>
    intro w _ _ hD
    have := D_pos pids w
    omega
  | succ m ih =>
    intro w h0 hv hD
    by_cases hw0 : w = 0
    · subst hw0
      have := Trav.ids_head (roseOf (rangeI pids.length) pids pids.length 0)
      rwa [roseOf_id] at this
    · have hpos : 0 < w := by omega
      have hpv := hw.par_valid' w hpos hv
      have hpc := hw.path_cons w hpos hv
      have hDp : D pids (pids.getD w.toNat (-1)) = m := by
        have := congrArg List.length hpc
        rw [List.length_cons] at this
        unfold D at hD ⊢
        omega
      have hp := ih _ hpv.1 hpv.2 hDp
      have hkid : w ∈ tableKids (rangeI pids.length) pids (pids.getD w.toNat (-1)) := by
        rw [C06.mem_tableKids]
        have hlt : w.toNat < pids.length := by omega
        exact ⟨h0, hlt, (C06.getD_eq_getElem _ _ hlt).symm⟩
      exact roseOf_closed hw pids.length 0 (Int.le_refl 0) (by have := hw.pos; omega) (by omega) _ hp w hkid

/-- **every well-formed tree is represented by a rose** (`roseOf` with enough fuel) -/
theorem wf_represented (pids : List Int) (hw : C07.WF pids) : ∃ r : Rose, C06.IsTree r pids := by
  have hpos := hw.pos
  have h0l : (0 : Int) < pids.length := by omega
  refine ⟨roseOf (rangeI pids.length) pids pids.length 0, ⟨?_, ?_⟩, ?_, roseOf_id _ _ _ _, hw.1⟩
  · exact roseOf_agrees hw _ 0 (Int.le_refl 0) h0l (by omega)
  · exact roseOf_nodup hw _ 0 (Int.le_refl 0) h0l
  · rw [List.perm_ext_iff_of_nodup (roseOf_nodup hw _ 0 (Int.le_refl 0) h0l) (rangeI_nodup _)]
    intro a
    rw [C06.mem_rangeI]
    constructor
    · intro ha
      have := (roseOf_ids_inv hw _ 0 (Int.le_refl 0) h0l a ha).1
      omega
    · rintro ⟨ha0, hal⟩
      exact roseOf_covers hw _ a ha0 (by omega) rfl

/-! ## the converse -/

theorem rp_root (pids : List Int) (h : pids.getD (0 : Int).toNat (-1) = -1) (f : Nat) : rootPath pids f 0 = [0] := by
  cases f with
  | zero => rfl
  | succ f => rw [rp_succ, if_pos h]

-- the walk from any id of a rose that agrees with the table reaches the rose's root, in fewer steps than its size
mutual
theorem path_in_rose (pids : List Int) : ∀ (s : Rose), Agrees (tableKids (rangeI pids.length) pids) s →
    (∀ i ∈ s.ids, 0 ≤ i) → ∀ w ∈ s.ids,
    ∃ (d : Nat) (pre : List Int), d < s.size ∧ ∀ f, rootPath pids (d + f) w = pre ++ rootPath pids f s.id
  | .node i ks, ha, hnn, w, hwm => by
    simp only [Agrees] at ha
    simp only [Rose.ids, List.mem_cons] at hwm
    rcases hwm with rfl | hwm
    · exact ⟨0, [], by simp only [Rose.size]; omega, fun f => by simp [Rose.id]⟩
    · obtain ⟨c, hc, d, pre, hd, hpath⟩ := path_in_roseL pids ks ha.2
        (fun j hj => hnn j (by simp [Rose.ids, hj])) w hwm
      have hi0 : 0 ≤ i := hnn i (by simp [Rose.ids])
      have hck : c.id ∈ tableKids (rangeI pids.length) pids i := by
        rw [ha.1]; exact List.mem_map.2 ⟨c, hc, rfl⟩
      obtain ⟨_, hlt, hq⟩ := (C06.mem_tableKids pids i c.id).1 hck
      have hpar : pids.getD c.id.toNat (-1) = i := by rw [C06.getD_eq_getElem _ _ hlt]; exact hq
      refine ⟨d + 1, pre ++ [c.id], by simp only [Rose.size]; omega, fun f => ?_⟩
      have e : d + 1 + f = d + (f + 1) := by omega
      rw [e, hpath (f + 1), rp_succ, hpar, if_neg (by omega)]
      simp [Rose.id]
theorem path_in_roseL (pids : List Int) : ∀ (ks : List Rose), AgreesL (tableKids (rangeI pids.length) pids) ks →
    (∀ i ∈ idsL ks, 0 ≤ i) → ∀ w ∈ idsL ks,
    ∃ c ∈ ks, ∃ (d : Nat) (pre : List Int), d < sizeL ks ∧
      ∀ f, rootPath pids (d + f) w = pre ++ rootPath pids f c.id
  | [], _, _, w, hwm => by simp [idsL] at hwm
  | r :: rs, ha, hnn, w, hwm => by
    simp only [AgreesL] at ha
    simp only [idsL, List.mem_append] at hwm
    rcases hwm with hwm | hwm
    · obtain ⟨d, pre, hd, hp⟩ := path_in_rose pids r ha.1 (fun j hj => hnn j (by simp [idsL, hj])) w hwm
      exact ⟨r, by simp, d, pre, by simp only [sizeL]; omega, hp⟩
    · obtain ⟨c, hc, d, pre, hd, hp⟩ := path_in_roseL pids rs ha.2 (fun j hj => hnn j (by simp [idsL, hj])) w hwm
      exact ⟨c, by simp [hc], d, pre, by simp only [sizeL]; omega, hp⟩
end

/-- and conversely the table of a rose rooted at 0 over ids `0..n-1` is well formed -/
theorem represented_wf (pids : List Int) (r : Rose) (h : C06.IsTree r pids) : C07.WF pids := by
  obtain ⟨hrep, hperm, hroot, hhead⟩ := id h
  have hpar0 : pids.getD (0 : Int).toNat (-1) = -1 := by
    rw [List.head?_eq_getElem?] at hhead
    simp [List.getD_eq_getElem?_getD, hhead]
  refine ⟨hhead, ?_, ?_⟩
  · intro k hk hk0
    have hmem : (k : Int) ∈ r.ids := (C06.isTree_mem h _).2 ⟨by omega, by simpa using hk⟩
    rcases C06.edge_of_mem r _ hmem with hr | ⟨a, ha, he⟩
    · rw [hroot] at hr; omega
    · have hp := (C06.edge_parent pids r hrep a _ he).2.2
      simp only [Int.toNat_natCast] at hp
      rw [C06.getD_eq_getElem _ _ hk] at hp
      rw [hp]
      have := (C06.isTree_mem h a).1 ha
      omega
  · intro k hk
    have hmem : (k : Int) ∈ r.ids := (C06.isTree_mem h _).2 ⟨by omega, by simpa using hk⟩
    obtain ⟨d, pre, hd, hpath⟩ := path_in_rose pids r hrep.1
      (fun i hi => ((C06.isTree_mem h i).1 hi).1) _ hmem
    rw [C06.isTree_size h] at hd
    have e : pids.length = d + (pids.length - d) := by omega
    rw [e, hpath, hroot, rp_root pids hpar0]
    simp

/-- the subtree hanging at any node of a well-formed tree is represented as well (what `Tree.Node.traverse`,
`get_subtree` and `Node.subtree` need) -/
theorem wf_subtree_represented (pids : List Int) (hw : C07.WF pids) (k : Nat) (hk : k < pids.length) :
    ∃ s : Rose, s.id = (k : Int) ∧ Represents s (Sub.rangeI pids.length) pids ∧
      ∀ i ∈ s.ids, 0 ≤ i ∧ i.toNat < pids.length := by
  have hk0 : (0 : Int) ≤ k := by omega
  have hkl : (k : Int) < pids.length := by omega
  refine ⟨roseOf (rangeI pids.length) pids pids.length k, roseOf_id _ _ _ _, ⟨?_, ?_⟩, ?_⟩
  · exact roseOf_agrees hw _ _ hk0 hkl (by omega)
  · exact roseOf_nodup hw _ _ hk0 hkl
  · intro i hi
    have := (roseOf_ids_inv hw _ _ hk0 hkl i hi).1
    omega

end Represent
