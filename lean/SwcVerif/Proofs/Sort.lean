import SwcVerif.Model.Sort
/-! Helper lemmas for C05 that do not mention the specification functions of `Props/C05.lean`:
the machine (`run`), rose bookkeeping, and `tableKids` on a table whose ids are `k, k+1, …`. -/
namespace SortM

theorem run_succ_some {kidsOf : Int → List Int} {st st' : St} (n : Nat) (h : step kidsOf st = some st') :
    run kidsOf (n+1) st = run kidsOf n st' := by simp [run, h]

theorem run_none {kidsOf : Int → List Int} {st : St} (h : step kidsOf st = none) (n : Nat) :
    run kidsOf n st = st := by
  cases n <;> simp [run, h]

theorem run_add (kidsOf : Int → List Int) (a b : Nat) (st : St) :
    run kidsOf (a + b) st = run kidsOf b (run kidsOf a st) := by
  induction a generalizing st with
  | zero => simp [run]
  | succ a ih =>
    cases hs : step kidsOf st with
    | none => rw [run_none hs, run_none hs, run_none hs]
    | some st' =>
      have : a + 1 + b = (a + b) + 1 := by omega
      rw [this, run_succ_some _ hs, run_succ_some _ hs]
      exact ih st'

theorem run_empty (kidsOf : Int → List Int) (n : Nat) (out : List (Int × Int)) :
    run kidsOf n ⟨[], out⟩ = ⟨[], out⟩ := run_none (by simp [step]) n

/-! ### roses -/

mutual
theorem ids_length : ∀ r : Rose, r.ids.length = r.size
  | .node i ks => by simp [Rose.ids, Rose.size, idsL_length ks]; omega
theorem idsL_length : ∀ ks : List Rose, (idsL ks).length = sizeL ks
  | [] => by simp [idsL, sizeL]
  | r :: rs => by simp [idsL, sizeL, ids_length r, idsL_length rs]
end

theorem size_pos (r : Rose) : 0 < r.size := by cases r; simp [Rose.size]; omega

theorem idsL_append (a b : List Rose) : idsL (a ++ b) = idsL a ++ idsL b := by
  induction a with
  | nil => simp [idsL]
  | cons r rs ih => simp [idsL, ih]

theorem sizeL_append (a b : List Rose) : sizeL (a ++ b) = sizeL a + sizeL b := by
  induction a with
  | nil => simp [sizeL]
  | cons r rs ih => simp [sizeL, ih]; omega

theorem agreesL_append (kidsOf : Int → List Int) (a b : List Rose) :
    AgreesL kidsOf (a ++ b) ↔ AgreesL kidsOf a ∧ AgreesL kidsOf b := by
  induction a with
  | nil => simp [AgreesL]
  | cons r rs ih => simp [AgreesL, ih, and_assoc]

theorem ids_head (r : Rose) : r.id ∈ r.ids := by
  cases r; simp [Rose.id, Rose.ids]

/-! ### `tableKids` on the table with ids `k, k+1, …` -/

/-- new ids (counted from `k`) of the rows whose parent is `q` -/
def tk : List Int → Nat → Int → List Int
  | [], _, _ => []
  | p :: ps, k, q => if p = q then (k : Int) :: tk ps (k + 1) q else tk ps (k + 1) q

theorem tableKids_range' (ps : List Int) (k : Nat) (q : Int) :
    tableKids ((List.range' k ps.length).map Int.ofNat) ps q = tk ps k q := by
  induction ps generalizing k with
  | nil => simp [tableKids, tk]
  | cons p ps ih =>
    simp only [List.length_cons, List.range'_succ, List.map_cons, tableKids, tk, ih]
    rfl

theorem tableKids_range (ps : List Int) (n : Nat) (hn : n = ps.length) (q : Int) :
    tableKids ((List.range n).map Int.ofNat) ps q = tk ps 0 q := by
  subst hn; rw [List.range_eq_range', tableKids_range']

theorem tk_append (a b : List Int) (k : Nat) (q : Int) :
    tk (a ++ b) k q = tk a k q ++ tk b (k + a.length) q := by
  induction a generalizing k with
  | nil => simp [tk]
  | cons p ps ih =>
    simp only [List.cons_append, tk, ih, List.length_cons]
    have e : k + 1 + ps.length = k + (ps.length + 1) := by omega
    split <;> simp [e]

theorem tk_eq_nil (l : List Int) (k : Nat) (q : Int) (h : q ∉ l) : tk l k q = [] := by
  induction l generalizing k with
  | nil => simp [tk]
  | cons p ps ih =>
    simp only [List.mem_cons, not_or] at h
    simp only [tk]
    rw [if_neg (fun e => h.1 e.symm)]
    exact ih _ h.2

/-! ### `isSorted`, `indexOf` -/

theorem isSorted_iff (ids pids : List Int) (hl : ids.length = pids.length) :
    isSorted ids pids = true ↔ ∀ k (h1 : k < ids.length) (h2 : k < pids.length), pids[k] < ids[k] := by
  induction ids generalizing pids with
  | nil => simp [isSorted]
  | cons i is ih =>
    cases pids with
    | nil => simp at hl
    | cons p ps =>
      simp only [List.length_cons, Nat.add_right_cancel_iff] at hl
      have ih' := ih ps hl
      simp only [isSorted] at ih' ⊢
      simp only [List.zipWith_cons_cons, List.all_cons, Bool.and_eq_true, ih', id, decide_eq_true_eq]
      constructor
      · rintro ⟨h0, hs⟩ k h1 h2
        cases k with
        | zero => simpa using h0
        | succ k => simpa using hs k (by simpa using h1) (by simpa using h2)
      · intro h
        refine ⟨?_, fun k h1 h2 => ?_⟩
        · have := h 0 (by simp) (by simp)
          simp only [List.getElem_cons_zero] at this
          exact this
        · have := h (k + 1) (by simpa using h1) (by simpa using h2)
          simp only [List.getElem_cons_succ] at this
          exact this

theorem indexOf_spec (ids : List Int) (x : Int) (h : x ∈ ids) :
    ∃ hi : indexOf ids x < ids.length, ids[indexOf ids x] = x := by
  refine ⟨List.idxOf_lt_length_of_mem h, ?_⟩
  simp [indexOf, List.getElem_idxOf]

end SortM
