import SwcVerif.Proofs.DsuForest
import Mathlib.Algebra.Order.BigOperators.Group.Finset
import Mathlib.Data.Finset.Card
/-! Pointer jumping (`get_dsu`) stops on EVERY table — cycles included.

Variant: `Φ g = Σ_x |orbit of x under g|`.  An in-place update `g[i] := g[g[i]]` never enlarges an orbit
(every new step is one or two old steps).  It strictly shrinks the orbit of `i` unless `g i` lies on a cycle
of length ≥ 2 that does not contain `i`; such a cycle is still there when the pass reaches its first node
`z`, and the update at `z` removes `g z` from the orbit of `z`.  So every pass that changes anything lowers
`Φ ≤ n²`, and the `while` loop stops within `n² + 1` passes. -/
namespace Dsu
open Classical

def Closed (n : Nat) (g : Nat → Nat) : Prop := ∀ i, i < n → g i < n

def Reach (g : Nat → Nat) (x y : Nat) : Prop := ∃ k, iter g k x = y

/-- the in-place update at `i` (the identity when `g (g i) = g i`) -/
def stepF (g : Nat → Nat) (i : Nat) : Nat → Nat := updN g i (g (g i))

theorem stepF_closed {n : Nat} {g : Nat → Nat} (h : Closed n g) (i : Nat) (hi : i < n) : Closed n (stepF g i) := by
  intro j hj
  unfold stepF
  by_cases e : j = i
  · subst e; rw [updN_same]; exact h _ (h j hj)
  · rw [updN_other _ _ _ _ e]; exact h j hj

theorem stepF_id {g : Nat → Nat} {i : Nat} (h : g (g i) = g i) : stepF g i = g := by
  funext j
  unfold stepF
  by_cases e : j = i
  · subst e; rw [updN_same, h]
  · rw [updN_other _ _ _ _ e]

theorem iter_closed {n : Nat} {g : Nat → Nat} (h : Closed n g) : ∀ (k x : Nat), x < n → iter g k x < n
  | 0, x, hx => hx
  | k+1, x, hx => iter_closed h k (g x) (h x hx)

/-- every path of the updated function is a path of the old one -/
theorem iter_stepF (g : Nat → Nat) (i : Nat) : ∀ (k x : Nat), ∃ m, iter (stepF g i) k x = iter g m x
  | 0, x => ⟨0, rfl⟩
  | k+1, x => by
    obtain ⟨m, hm⟩ := iter_stepF g i k (stepF g i x)
    show ∃ m, iter (stepF g i) k (stepF g i x) = iter g m x
    rw [hm]
    by_cases e : x = i
    · subst e
      refine ⟨m + 2, ?_⟩
      unfold stepF
      rw [updN_same]
      rfl
    · refine ⟨m + 1, ?_⟩
      unfold stepF
      rw [updN_other _ _ _ _ e]
      rfl

theorem reach_stepF {g : Nat → Nat} {i x y : Nat} (h : Reach (stepF g i) x y) : Reach g x y := by
  obtain ⟨k, hk⟩ := h
  obtain ⟨m, hm⟩ := iter_stepF g i k x
  exact ⟨m, by rw [← hm, hk]⟩

noncomputable def orbF (n : Nat) (g : Nat → Nat) (x : Nat) : Finset Nat :=
  (Finset.range n).filter (fun y => Reach g x y)

noncomputable def Phi (n : Nat) (g : Nat → Nat) : Nat := ∑ x ∈ Finset.range n, (orbF n g x).card

theorem orbF_subset (n : Nat) (g : Nat → Nat) (i x : Nat) : orbF n (stepF g i) x ⊆ orbF n g x := by
  intro y hy
  simp only [orbF, Finset.mem_filter] at hy ⊢
  exact ⟨hy.1, reach_stepF hy.2⟩

theorem Phi_le (n : Nat) (g : Nat → Nat) (i : Nat) : Phi n (stepF g i) ≤ Phi n g :=
  Finset.sum_le_sum (fun x _ => Finset.card_le_card (orbF_subset n g i x))

theorem Phi_lt (n : Nat) (g : Nat → Nat) (i x y : Nat) (hx : x < n) (hy : y < n) (h1 : Reach g x y)
    (h2 : ¬ Reach (stepF g i) x y) : Phi n (stepF g i) < Phi n g := by
  apply Finset.sum_lt_sum (fun x _ => Finset.card_le_card (orbF_subset n g i x))
  refine ⟨x, Finset.mem_range.2 hx, ?_⟩
  apply Finset.card_lt_card
  refine ⟨orbF_subset n g i x, ?_⟩
  intro hsub
  have : y ∈ orbF n g x := by simp only [orbF, Finset.mem_filter, Finset.mem_range]; exact ⟨hy, h1⟩
  have := hsub this
  simp only [orbF, Finset.mem_filter] at this
  exact h2 this.2

theorem Phi_bound (n : Nat) (g : Nat → Nat) : Phi n g ≤ n * n := by
  unfold Phi
  have : ∀ x ∈ Finset.range n, (orbF n g x).card ≤ n := by
    intro x _
    have := Finset.card_le_card (Finset.filter_subset (fun y => Reach g x y) (Finset.range n))
    simpa [orbF] using this
  have := Finset.sum_le_sum this
  simpa using this

/-- `p` lies on a cycle of length at least two -/
def CycAt (g : Nat → Nat) (p : Nat) : Prop := (∃ m, 1 ≤ m ∧ iter g m p = p) ∧ g p ≠ p

theorem iter_fixed {g : Nat → Nat} {x : Nat} (h : g x = x) : ∀ k, iter g k x = x
  | 0 => rfl
  | k+1 => by show iter g k (g x) = x; rw [h]; exact iter_fixed h k

theorem iter_period {g : Nat → Nat} {p m : Nat} (h : iter g m p = p) : ∀ j, iter g (m * j) p = p
  | 0 => rfl
  | j+1 => by
    rw [Nat.mul_succ, iter_add, iter_period h j, h]

theorem iter_comm (g : Nat → Nat) (a b x : Nat) : iter g a (iter g b x) = iter g b (iter g a x) := by
  rw [← iter_add, ← iter_add, Nat.add_comm]

/-- every node of the cycle of `p` lies on a cycle of length at least two, and reaches `p` -/
theorem CycAt.iter {g : Nat → Nat} {p : Nat} (h : CycAt g p) (j : Nat) :
    CycAt g (Dsu.iter g j p) ∧ Reach g (Dsu.iter g j p) p := by
  obtain ⟨⟨m, hm, e⟩, hne⟩ := h
  have hback : Reach g (Dsu.iter g j p) p := by
    -- m*j ≥ j steps in total bring `p` back to `p`
    refine ⟨m * j - j, ?_⟩
    have hle : j ≤ m * j := Nat.le_mul_of_pos_left j hm
    have : j + (m * j - j) = m * j := by omega
    rw [← iter_add, this, iter_period e j]
  refine ⟨⟨⟨m, hm, by rw [iter_comm, e]⟩, ?_⟩, hback⟩
  intro hfix
  obtain ⟨k, hk⟩ := hback
  rw [iter_fixed hfix k] at hk
  apply hne
  have : g (Dsu.iter g j p) = g p := by rw [hk]
  rw [hfix, hk] at this
  exact this.symm

/-- a node that would not be updated is not on a cycle of length at least two -/
theorem CycAt.updates {g : Nat → Nat} {i : Nat} (h : CycAt g i) : g (g i) ≠ g i := by
  intro hfix
  have h1 := (h.iter 1).1
  exact h1.2 hfix

/-- **updating a node of a cycle (length ≥ 2) removes its successor from its orbit** -/
theorem cycle_strict {g : Nat → Nat} {i : Nat} (h : CycAt g i) : ¬ Reach (stepF g i) i (g i) := by
  obtain ⟨hex, hne⟩ := h
  -- minimal period
  have hc1 := (Nat.find_spec hex).1
  have hc2 := (Nat.find_spec hex).2
  have hmin : ∀ m, m < Nat.find hex → ¬ (1 ≤ m ∧ iter g m i = i) := fun m hm => Nat.find_min hex hm
  generalize Nat.find hex = c at hc1 hc2 hmin
  have hc : 2 ≤ c := by
    apply Decidable.byContradiction
    intro hlt
    have : c = 1 := by omega
    subst this
    exact hne hc2
  have hdist : ∀ a b, a < b → b < c → iter g a i ≠ iter g b i := by
    intro a b hab hbc e
    apply hmin (a + (c - b)) (by omega)
    refine ⟨by omega, ?_⟩
    rw [iter_add, e, ← iter_add]
    have : b + (c - b) = c := by omega
    rw [this, hc2]
  have key : ∀ k, ∃ j, j < c ∧ j ≠ 1 ∧ iter (stepF g i) k i = iter g j i := by
    intro k
    induction k with
    | zero => exact ⟨0, by omega, by omega, rfl⟩
    | succ k ih =>
      obtain ⟨j, hj, hj1, e⟩ := ih
      rw [iter_succ', e]
      by_cases hj0 : j = 0
      · subst hj0
        show ∃ j, j < c ∧ j ≠ 1 ∧ stepF g i i = iter g j i
        unfold stepF
        rw [updN_same]
        by_cases hc2' : c = 2
        · subst hc2'
          exact ⟨0, by omega, by omega, hc2⟩
        · exact ⟨2, by omega, by omega, rfl⟩
      · have hni : iter g j i ≠ i := fun e' => hdist 0 j (by omega) hj e'.symm
        unfold stepF
        rw [updN_other _ _ _ _ hni, ← iter_succ' g j i]
        by_cases hlast : j + 1 = c
        · rw [hlast, hc2]
          exact ⟨0, by omega, by omega, rfl⟩
        · exact ⟨j + 1, by omega, by omega, rfl⟩
  rintro ⟨k, hk⟩
  obtain ⟨j, hj, hj1, e⟩ := key k
  rw [e] at hk
  have h1 : iter g 1 i = g i := rfl
  rw [← h1] at hk
  rcases Nat.lt_or_gt_of_ne hj1 with hlt | hgt
  · exact hdist j 1 hlt (by omega) hk
  · exact hdist 1 j hgt hj hk.symm

/-- an update that does NOT shrink the orbit of `i` reveals a cycle of length ≥ 2 through `g i` -/
theorem cyc_of_not_strict {g : Nat → Nat} {i : Nat} (hupd : g i ≠ g (g i)) (h : Reach (stepF g i) i (g i)) :
    CycAt g (g i) := by
  have hpi : g i ≠ i := by
    intro e; apply hupd; rw [e, e]
  obtain ⟨k, hk⟩ := h
  cases k with
  | zero => exact absurd hk.symm hpi
  | succ k =>
    have e : stepF g i i = g (g i) := by unfold stepF; rw [updN_same]
    have hk' : iter (stepF g i) k (g (g i)) = g i := by rw [← e]; exact hk
    obtain ⟨m, hm⟩ := reach_stepF ⟨k, hk'⟩
    exact ⟨⟨m + 1, by omega, hm⟩, fun e' => hupd e'.symm⟩

/-! ## a whole pass, at the level of functions -/

theorem foldF_le (n : Nat) : ∀ (is : List Nat) (g : Nat → Nat), Phi n (is.foldl stepF g) ≤ Phi n g
  | [], g => Nat.le_refl _
  | i :: t, g => Nat.le_trans (foldF_le n t (stepF g i)) (Phi_le n g i)

theorem foldF_closed {n : Nat} : ∀ (is : List Nat) (g : Nat → Nat), (∀ i ∈ is, i < n) → Closed n g →
    Closed n (is.foldl stepF g)
  | [], g, _, h => h
  | i :: t, g, his, h => foldF_closed t (stepF g i) (fun j hj => his j (List.mem_cons_of_mem _ hj))
      (stepF_closed h i (his i List.mem_cons_self))

/-- a cycle (length ≥ 2) all of whose nodes are still to be processed makes the pass strict -/
theorem foldF_cycle_strict (n : Nat) : ∀ (is : List Nat) (g : Nat → Nat) (p : Nat), (∀ i ∈ is, i < n) → Closed n g →
    CycAt g p → (∀ j, iter g j p ∈ is) → Phi n (is.foldl stepF g) < Phi n g := by
  intro is
  induction is with
  | nil => intro g p _ _ _ hall; exact absurd (hall 0) (by simp)
  | cons i t ih =>
    intro g p his hcl hcyc hall
    have hi := his i List.mem_cons_self
    rw [List.foldl_cons]
    by_cases hon : ∃ j, iter g j p = i
    · obtain ⟨j, hj⟩ := hon
      have hci : CycAt g i := hj ▸ (hcyc.iter j).1
      have hstrict := Phi_lt n g i i (g i) hi (hcl i hi) ⟨1, rfl⟩ (cycle_strict hci)
      exact Nat.lt_of_le_of_lt (foldF_le n t _) hstrict
    · have hoff : ∀ j, iter g j p ≠ i := fun j e => hon ⟨j, e⟩
      have hsame : ∀ j, iter (stepF g i) j p = iter g j p := by
        intro j
        induction j with
        | zero => rfl
        | succ j ihj =>
          rw [iter_succ', ihj, iter_succ']
          unfold stepF
          rw [updN_other _ _ _ _ (hoff j)]
      have hcyc' : CycAt (stepF g i) p := by
        obtain ⟨⟨m, hm, e⟩, hne⟩ := hcyc
        refine ⟨⟨m, hm, by rw [hsame, e]⟩, ?_⟩
        have := hsame 1
        have e1 : iter (stepF g i) 1 p = stepF g i p := rfl
        have e2 : iter g 1 p = g p := rfl
        rw [e1, e2] at this
        rw [this]; exact hne
      have := ih (stepF g i) p (fun j hj => his j (List.mem_cons_of_mem _ hj)) (stepF_closed hcl i hi) hcyc'
        (fun j => by
          rw [hsame]
          rcases List.mem_cons.1 (hall j) with e | e
          · exact absurd e (hoff j)
          · exact e)
      exact Nat.lt_of_lt_of_le this (Phi_le n g i)

/-! ## a whole pass, on the list -/

theorem jumpFold_tabF {n : Nat} : ∀ (is : List Nat) (acc : List Nat × Bool) (g : Nat → Nat), (∀ i ∈ is, i < n) →
    Tab acc.1 n g → Closed n g → Tab (is.foldl jumpStep acc).1 n (is.foldl stepF g)
  | [], acc, g, _, ht, _ => ht
  | i :: t, acc, g, his, ht, hcl => by
    have hi := his i List.mem_cons_self
    rw [List.foldl_cons, List.foldl_cons]
    exact jumpFold_tabF t (jumpStep acc i) (stepF g i) (fun j hj => his j (List.mem_cons_of_mem _ hj))
      (jumpStep_tab ht hi (hcl i hi)) (stepF_closed hcl i hi)

/-- **a pass that changes anything lowers `Φ`** -/
theorem jumpFold_strict {n : Nat} : ∀ (is : List Nat) (acc : List Nat × Bool) (g : Nat → Nat), (∀ i ∈ is, i < n) →
    Tab acc.1 n g → Closed n g → (∀ x, x < n → CycAt g x → x ∈ is) →
    (is.foldl jumpStep acc).2 = false → acc.2 = false ∨ Phi n (is.foldl stepF g) < Phi n g := by
  intro is
  induction is with
  | nil => intro acc g _ _ _ _ hf; exact Or.inl hf
  | cons i t ih =>
    intro acc g his ht hcl hH hf
    have hi := his i List.mem_cons_self
    have e1 : acc.1.getD i 0 = g i := ht.2 i hi
    have e2 : acc.1.getD (g i) 0 = g (g i) := ht.2 (g i) (hcl i hi)
    rw [List.foldl_cons] at hf ⊢
    by_cases hupd : g i ≠ g (g i)
    · right
      by_cases hs : Reach (stepF g i) i (g i)
      · -- not strict at `i`: a cycle through `g i`, all of it still to come
        have hcyc := cyc_of_not_strict hupd hs
        have := foldF_cycle_strict n (i :: t) g (g i) his hcl hcyc (fun j =>
          hH _ (iter_closed hcl j (g i) (hcl i hi)) (hcyc.iter j).1)
        rw [List.foldl_cons] at this
        exact this
      · exact Nat.lt_of_le_of_lt (foldF_le n t _) (Phi_lt n g i i (g i) hi (hcl i hi) ⟨1, rfl⟩ hs)
    · have hfix : g (g i) = g i := (Decidable.not_not.1 hupd).symm
      have hacc : jumpStep acc i = acc := by
        unfold jumpStep
        rw [e1, e2, if_neg hupd]
      rw [hacc] at hf
      rw [stepF_id hfix]
      apply ih acc g (fun j hj => his j (List.mem_cons_of_mem _ hj)) ht hcl _ hf
      intro x hx hc
      rcases List.mem_cons.1 (hH x hx hc) with e | e
      · subst e; exact absurd hfix hc.updates
      · exact e

/-- **the `while` loop of `get_dsu` stops on every closed pointer array**, within `Φ + 1` passes -/
theorem jumpLoop_terminates {n : Nat} : ∀ (fuel : Nat) (l : List Nat) (g : Nat → Nat), Tab l n g → Closed n g →
    Phi n g < fuel → ∃ res, jumpLoop fuel l = some res := by
  intro fuel
  induction fuel with
  | zero => intro l g _ _ hlt; omega
  | succ fuel ih =>
    intro l g ht hcl hlt
    simp only [jumpLoop]
    by_cases hflag : (jumpPass l).2 = true
    · rw [if_pos hflag]; exact ⟨_, rfl⟩
    · rw [if_neg hflag]
      have hrange : ∀ i ∈ List.range l.length, i < n := fun i hi => by rw [ht.1] at hi; exact List.mem_range.mp hi
      have htab := jumpFold_tabF (List.range l.length) (l, true) g hrange ht hcl
      have hstr := jumpFold_strict (List.range l.length) (l, true) g hrange ht hcl
        (fun x hx _ => by rw [ht.1]; exact List.mem_range.2 hx)
        (by rw [← jumpPass_eq]; simpa using hflag)
      rw [← jumpPass_eq] at htab
      rcases hstr with h' | h'
      · simp at h'
      · exact ih _ _ htab (foldF_closed _ g hrange hcl) (by omega)

end Dsu
