import SwcVerif.Model.Traverse
/-! The loop of `_traverse_dfs` run for `2·size` steps equals structural recursion. -/
namespace Trav
variable {σ T K : Type}

section
variable (kidsOf : Int → List Int) (enter : σ → Int → Option T → σ × T) (leave : σ → Int → List K → σ × K)

theorem run_succ_some {st st' : St σ T K} (n : Nat) (h : step kidsOf enter leave st = some st') :
    run kidsOf enter leave (n+1) st = run kidsOf enter leave n st' := by
  simp [run, h]

theorem run_none {st : St σ T K} (h : step kidsOf enter leave st = none) (n : Nat) :
    run kidsOf enter leave n st = st := by
  cases n <;> simp [run, h]

theorem run_add (a b : Nat) (st : St σ T K) :
    run kidsOf enter leave (a + b) st = run kidsOf enter leave b (run kidsOf enter leave a st) := by
  induction a generalizing st with
  | zero => simp [run]
  | succ a ih =>
    cases hs : step kidsOf enter leave st with
    | none =>
      rw [run_none _ _ _ hs, run_none _ _ _ hs, run_none _ _ _ hs]
    | some st' =>
      have : a + 1 + b = (a + b) + 1 := by omega
      rw [this, run_succ_some _ _ _ _ hs, run_succ_some _ _ _ _ hs]
      exact ih st'

/-- Post-state after fully processing a rose from the top of the stack. -/
def Post (r : Rose) (pv : Option T) (rest : List (Int × Bool)) (P : Int → Option T) (V : Int → Option K) (s : σ)
    (st' : St σ T K) : Prop :=
  st'.stack = rest ∧
  st'.s = (spec enter leave r pv s).1 ∧
  st'.vals r.id = some (spec enter leave r pv s).2 ∧
  (∀ j, j ∉ r.ids → st'.vals j = V j) ∧
  (∀ j, j ∉ r.ids → st'.params j = P j)

def PostL (ks : List Rose) (cur : T) (rest : List (Int × Bool)) (P : Int → Option T) (V : Int → Option K) (s : σ)
    (st' : St σ T K) : Prop :=
  st'.stack = rest ∧
  st'.s = (specRev enter leave ks cur s).1 ∧
  ks.map (fun k => st'.vals k.id) = (specRev enter leave ks cur s).2.map some ∧
  (∀ j, j ∉ idsL ks → st'.vals j = V j) ∧
  (∀ j, j ∉ idsL ks → st'.params j = P j)
end

theorem foldl_upd_not_mem {α} (cs : List Int) (f : Int → α) (v : α) (j : Int) (h : j ∉ cs) :
    (cs.foldl (fun p c => upd p c v) f) j = f j := by
  induction cs generalizing f with
  | nil => rfl
  | cons c cs ih =>
    simp only [List.foldl_cons]
    rw [ih _ (by simp at h; exact h.2)]
    simp only [upd]; simp at h; simp [h.1]

theorem foldl_upd_mem {α} (cs : List Int) (f : Int → α) (v : α) (j : Int) (h : j ∈ cs) :
    (cs.foldl (fun p c => upd p c v) f) j = v := by
  induction cs generalizing f with
  | nil => simp at h
  | cons c cs ih =>
    simp only [List.foldl_cons]
    by_cases hj : j ∈ cs
    · exact ih _ hj
    · rw [foldl_upd_not_mem _ _ _ _ hj]
      simp at h
      rcases h with h | h
      · simp [upd, h]
      · exact absurd h hj

theorem ids_head (r : Rose) : r.id ∈ r.ids := by
  cases r; simp [Rose.id, Rose.ids]

theorem mem_idsL_of_mem {ks : List Rose} {k : Rose} (h : k ∈ ks) : k.id ∈ idsL ks := by
  induction ks with
  | nil => simp at h
  | cons r rs ih =>
    simp only [idsL, List.mem_append]
    simp at h
    rcases h with h | h
    · left; rw [h]; exact ids_head r
    · right; exact ih h

section main2
variable (kidsOf : Int → List Int) (enter : σ → Int → Option T → σ × T) (leave : σ → Int → List K → σ × K)

mutual
theorem main (r : Rose) (hA : Agrees kidsOf r) (hD : r.ids.Nodup)
    (rest : List (Int × Bool)) (P : Int → Option T) (V : Int → Option K) (s : σ) :
    Post enter leave r (P r.id) rest P V s
      (run kidsOf enter leave (2 * r.size) ⟨(r.id, true) :: rest, P, V, s⟩) := by
  match r, hA, hD with
  | .node i ks, hA, hD =>
    simp only [Agrees] at hA
    obtain ⟨hk, hAL⟩ := hA
    simp only [Rose.ids, List.nodup_cons] at hD
    obtain ⟨hi, hDL⟩ := hD
    have e1 : 2 * (Rose.node i ks).size = 1 + (2 * sizeL ks + 1) := by simp [Rose.size]; omega
    rw [e1, run_add, run_add]
    simp only [Rose.id]
    have hstep1 : run kidsOf enter leave 1 ⟨(i, true) :: rest, P, V, s⟩ =
        ⟨(ks.map (fun k => (k.id, true))).reverse ++ (i, false) :: rest,
         (ks.map Rose.id).foldl (fun p c => upd p c (some (enter s i (P i)).2)) (upd P i none),
         V, (enter s i (P i)).1⟩ := by
      simp [run, step, hk, List.map_map, Function.comp_def]
    rw [hstep1]
    have hP : ∀ k ∈ ks, ((ks.map Rose.id).foldl (fun p c => upd p c (some (enter s i (P i)).2)) (upd P i none)) k.id
        = some (enter s i (P i)).2 := by
      intro k hk'
      exact foldl_upd_mem _ _ _ _ (List.mem_map_of_mem hk')
    have hL := mainL ks hAL hDL ((i, false) :: rest) _ V (enter s i (P i)).1 (enter s i (P i)).2 hP
    obtain ⟨h1, h2, h3, h4, h5⟩ := hL
    generalize hst : run kidsOf enter leave (2 * sizeL ks) _ = st' at h1 h2 h3 h4 h5
    have hfm : (kidsOf i).filterMap st'.vals = (specRev enter leave ks (enter s i (P i)).2 (enter s i (P i)).1).2 := by
      rw [hk]
      have : ∀ (l : List Rose) (vs : List K), l.map (fun k => st'.vals k.id) = vs.map some →
          (l.map Rose.id).filterMap st'.vals = vs := by
        intro l
        induction l with
        | nil => intro vs h; cases vs <;> simp_all
        | cons a l ih =>
          intro vs h
          cases vs with
          | nil => simp at h
          | cons v vs =>
            simp only [List.map_cons, List.cons.injEq] at h
            simp [List.filterMap_cons, h.1, ih vs h.2]
      exact this ks _ h3
    have hstep2 : run kidsOf enter leave 1 st' =
        ⟨rest, st'.params,
         upd ((kidsOf i).foldl (fun v c => upd v c none) st'.vals) i
           (some (leave st'.s i ((kidsOf i).filterMap st'.vals)).2),
         (leave st'.s i ((kidsOf i).filterMap st'.vals)).1⟩ := by
      cases st' with
      | mk stk pp vv ss =>
        simp only at h1
        subst h1
        simp [run, step]
    rw [hstep2, hfm, h2]
    refine ⟨rfl, ?_, ?_, ?_, ?_⟩
    · simp [spec]
    · simp [spec, upd, Rose.id]
    · intro j hj
      simp only [Rose.ids, List.mem_cons, not_or] at hj
      simp only [upd, hj.1, if_false]
      rw [foldl_upd_not_mem]
      · exact h4 j hj.2
      · rw [hk]; intro hmem
        obtain ⟨k, hk1, hk2⟩ := List.mem_map.1 hmem
        exact hj.2 (hk2 ▸ mem_idsL_of_mem hk1)
    · intro j hj
      simp only [Rose.ids, List.mem_cons, not_or] at hj
      rw [h5 j hj.2, foldl_upd_not_mem]
      · simp [upd, hj.1]
      · intro hmem
        obtain ⟨k, hk1, hk2⟩ := List.mem_map.1 hmem
        exact hj.2 (hk2 ▸ mem_idsL_of_mem hk1)

theorem mainL (ks : List Rose) (hA : AgreesL kidsOf ks) (hD : (idsL ks).Nodup)
    (rest : List (Int × Bool)) (P : Int → Option T) (V : Int → Option K) (s : σ) (cur : T)
    (hP : ∀ k ∈ ks, P k.id = some cur) :
    PostL enter leave ks cur rest P V s
      (run kidsOf enter leave (2 * sizeL ks)
        ⟨(ks.map (fun k => (k.id, true))).reverse ++ rest, P, V, s⟩) := by
  match ks, hA, hD, hP with
  | [], _, _, _ => simp [PostL, sizeL, run, specRev, idsL]
  | r :: rs, hA, hD, hP =>
    simp only [AgreesL] at hA
    obtain ⟨hAr, hArs⟩ := hA
    simp only [idsL, List.nodup_append] at hD
    obtain ⟨hDr, hDrs, hdisj⟩ := hD
    have e : 2 * sizeL (r :: rs) = 2 * sizeL rs + 2 * r.size := by simp [sizeL]; omega
    rw [e, run_add]
    have hstack : ((r :: rs).map (fun k => (k.id, true))).reverse ++ rest
        = (rs.map (fun k => (k.id, true))).reverse ++ ((r.id, true) :: rest) := by simp
    rw [hstack]
    have hL := mainL rs hArs hDrs ((r.id, true) :: rest) P V s cur (fun k hk => hP k (List.mem_cons_of_mem _ hk))
    obtain ⟨h1, h2, h3, h4, h5⟩ := hL
    generalize hst : run kidsOf enter leave (2 * sizeL rs) _ = st1 at h1 h2 h3 h4 h5
    have hrid : r.id ∉ idsL rs := fun hm => hdisj _ (ids_head r) _ hm rfl
    have hst1 : st1 = ⟨(r.id, true) :: rest, st1.params, st1.vals, st1.s⟩ := by
      cases st1; simp_all
    rw [hst1]
    have hM := main r hAr hDr rest st1.params st1.vals st1.s
    obtain ⟨g1, g2, g3, g4, g5⟩ := hM
    have hpr : st1.params r.id = some cur := by rw [h5 _ hrid]; exact hP r (List.mem_cons_self ..)
    rw [hpr] at g2 g3
    generalize run kidsOf enter leave (2 * r.size) _ = st2 at g1 g2 g3 g4 g5
    refine ⟨g1, ?_, ?_, ?_, ?_⟩
    · simp [specRev, g2, h2]
    · simp only [List.map_cons, specRev, List.cons.injEq]
      refine ⟨by rw [g3, h2], ?_⟩
      rw [← h3]
      apply List.map_congr_left
      intro k hk
      apply g4
      intro hm
      exact hdisj _ hm _ (mem_idsL_of_mem hk) rfl
    · intro j hj
      simp only [idsL, List.mem_append, not_or] at hj
      rw [g4 j hj.1, h4 j hj.2]
    · intro j hj
      simp only [idsL, List.mem_append, not_or] at hj
      rw [g5 j hj.1, h5 j hj.2]
end

end main2
end Trav
