import Mathlib.Data.Set.Lattice
import Mathlib.Data.Real.Basic
import Mathlib.Tactic.Linarith
/-! Finitely additive set functions: the only property of "volume" the inclusion–exclusion
arguments of C13 / C14 use. -/
namespace Additive
variable {α : Type}

/-- `m` is finitely additive on disjoint sets -/
def FinAdd (m : Set α → ℝ) : Prop := ∀ A B : Set α, Disjoint A B → m (A ∪ B) = m A + m B

theorem FinAdd.empty {m : Set α → ℝ} (hm : FinAdd m) : m ∅ = 0 := by
  have := hm ∅ ∅ (by simp)
  simp at this
  linarith

/-- inclusion–exclusion for two sets -/
theorem FinAdd.union_inter {m : Set α → ℝ} (hm : FinAdd m) (A B : Set α) :
    m (A ∪ B) = m A + m B - m (A ∩ B) := by
  have h1 : A ∪ B = A ∪ (B \ A) := by ext x; simp
  have h2 : B = (B \ A) ∪ (A ∩ B) := by
    ext x; constructor
    · intro hx; by_cases hxa : x ∈ A
      · right; exact ⟨hxa, hx⟩
      · left; exact ⟨hx, hxa⟩
    · rintro (hx | hx)
      · exact hx.1
      · exact hx.2
  have e1 : m (A ∪ (B \ A)) = m A + m (B \ A) := hm _ _ (Set.disjoint_sdiff_right)
  have e2 : m ((B \ A) ∪ (A ∩ B)) = m (B \ A) + m (A ∩ B) := by
    apply hm
    rw [Set.disjoint_left]
    intro x hx hx'
    exact hx.2 hx'.1
  rw [h1, e1]
  have : m B = m (B \ A) + m (A ∩ B) := by
    conv_lhs => rw [h2]
    exact e2
  linarith

/-- monotone consequence used for "is contained in, hence same measure of the intersection" -/
theorem FinAdd.union_of_inter_eq {m : Set α → ℝ} (hm : FinAdd m) (A B C : Set α) (h : A ∩ B = C) :
    m (A ∪ B) = m A + m B - m C := by
  rw [hm.union_inter, h]
end Additive
