import SwcVerif.Gen.AlgoBranches
import SwcVerif.Refine.Closures
import SwcVerif.Model.Branches
/-! Refinement for C08: the closures of `Tree.get_branches`, `get_furcations`, `get_paths` (`swcgeom/core/tree.py`), translated from
the source on every run, compute what the callback models of `Model/Branches.lean` compute; with the translated traversal the
translated `get_branches` / `get_furcations` are exactly the structural recursions the C08 theorems speak about. -/
namespace RefineBranches
open Gen.Algo Branches Trav Py

/-! ### `collect_branches` -/

theorem cb_loop : ∀ (pre : List BVal) (v : collect_branches.V),
    ∃ sb ch, forEach collect_branches.for1 pre v =
      .next { v with branches := v.branches ++ pre.flatMap (fun sc => (sc.1 ++ [(sc.2 ++ [v.node]).reverse]).reverse),
                     sub_branches := sb, child := ch } := by
  intro pre
  induction pre with
  | nil => intro v; exact ⟨v.sub_branches, v.child, by simp [forEach]⟩
  | cons p pre ih =>
    intro v
    obtain ⟨sb, ch, e⟩ := ih
      { v with sub_branches := (p.1 ++ [(p.2 ++ [v.node]).reverse]).reverse, child := (p.2 ++ [v.node]).reverse,
               branches := v.branches ++ (p.1 ++ [(p.2 ++ [v.node]).reverse]).reverse }
    refine ⟨sb, ch, ?_⟩
    simp only [forEach, collect_branches.for1, seq]
    rw [e]
    simp [List.flatMap_cons, List.append_assoc]

/-- the translated closure is the model callback (it never raises) -/
theorem collectBranches_refines (s : Unit) (i : Int) (pre : List BVal) :
    collect_branches s i pre = some ((), collectBranches i pre) := by
  match pre with
  | [] =>
    simp [collect_branches, collect_branches.body, seq, skip, forEach, Py.finish, collectBranches]
  | [p] =>
    obtain ⟨b, c⟩ := p
    simp [collect_branches, collect_branches.body, seq, Py.bind, Py.idx, Py.normIdx, Py.finish, collectBranches]
  | p :: q :: t =>
    obtain ⟨sb, ch, e⟩ := cb_loop (p :: q :: t)
      { (default : collect_branches.V) with node := i, pre := p :: q :: t, branches := [] }
    have hlen : ¬ ((((p :: q :: t).length : Nat) : Int) = 1) := by simp; omega
    simp only [collect_branches, collect_branches.body, seq, len_eq, hlen, decide_false, Bool.false_eq_true, if_false, skip]
    rw [e]
    simp [Py.finish, collectBranches]

/-- **`Tree.get_branches` as translated**: on every table that represents a tree rooted at its first… root `r.id = 0`, the translated
method (translated closure + translated traversal + the stem fix-up) returns `finish` of the structural value -/
theorem getBranches_refines (ids pids : List Int) (r : Rose) (hR : Represents r ids pids) (h0 : r.id = 0) (F : Nat) :
    get_branches (2 * r.size + F + 1) ids pids = some (Branches.finish (spec bEnter bLeave r none ()).2) := by
  have hcall := RefineClosures.traverse_closures (S := Unit) (T := Unit) (K := BVal) noEnter collect_branches bEnter bLeave
    (fun s n pv => by cases s; rfl) (fun s n ks => by cases s; rw [collectBranches_refines]; rfl) ids pids r hR () F
  rw [h0] at hcall
  simp only [get_branches, get_branches.body, seq, Py.bind, hcall]
  simp only [Branches.finish, len_eq]
  by_cases hl : (spec bEnter bLeave r none ()).2.2.length > 1
  · have : (((spec bEnter bLeave r none ()).2.2.length : Nat) : Int) > 1 := by omega
    simp [hl, this, Py.finish]
  · have : ¬ (((spec bEnter bLeave r none ()).2.2.length : Nat) : Int) > 1 := by omega
    simp [hl, this, Py.finish, skip]

/-! ### `collect_furcations` -/

theorem collectFurcations_refines (acc : List Int) (n : Int) (ch : List Unit) :
    collect_furcations acc n ch = some (fLeave acc n ch) := by
  by_cases h : ch.length > 1
  · have : ((ch.length : Nat) : Int) > 1 := by omega
    simp [collect_furcations, collect_furcations.body, Py.finish, fLeave, h, this]
  · have : ¬ ((ch.length : Nat) : Int) > 1 := by omega
    simp [collect_furcations, collect_furcations.body, Py.finish, fLeave, h, this, skip]

/-- **`Tree.get_furcations` as translated** returns the ids collected by the structural recursion -/
theorem getFurcations_refines (ids pids : List Int) (r : Rose) (hR : Represents r ids pids) (h0 : r.id = 0) (F : Nat) :
    get_furcations (2 * r.size + F + 1) ids pids = some (spec fEnter fLeave r none []).1 := by
  have hcall := RefineClosures.traverse_closures (S := List Int) (T := Unit) (K := Unit) noEnter collect_furcations fEnter fLeave
    (fun s n pv => rfl) (fun s n ks => collectFurcations_refines s n ks) ids pids r hR [] F
  rw [h0] at hcall
  have hloop : ∀ (xs : List Int) (v : get_furcations.V),
      forEach get_furcations.for1 xs v = .next (xs.foldl (fun v x => { v with c1_ := v.c1_ ++ [x], i := x }) v) :=
    forEach_pure _ _ (fun _ _ => rfl)
  have hf : ∀ (xs : List Int) (v : get_furcations.V),
      (xs.foldl (fun (v : get_furcations.V) x => { v with c1_ := v.c1_ ++ [x], i := x }) v).c1_ = v.c1_ ++ xs := by
    intro xs
    induction xs with
    | nil => intro v; simp
    | cons x xs ih => intro v; simp [ih]
  simp only [get_furcations, get_furcations.body, seq, Py.bind, hcall, bindS, hloop]
  simp [Py.finish, hf]

/-! ### the closures of `get_paths` -/

/-- `assign_path` never raises: it stores the extended copy of the parent's path under the node and returns it -/
theorem assignPath_refines (d : Dict Int (List Int)) (n : Int) (pre : Option (List Int)) :
    assign_path d n pre = some (Dict.set d n (pre.getD [] ++ [n]), pre.getD [] ++ [n]) := by
  simp [assign_path, assign_path.body, seq, Py.finish]

/-- `collect_path`: the stored path at a tip (KeyError if the node was never entered), the children's lists chained otherwise -/
theorem collectPath_refines (d : Dict Int (List Int)) (n : Int) (ch : List (List (List Int))) :
    collect_path d n ch = match ch with
      | [] => (Dict.get? d n).map (fun p => (d, [p]))
      | _ :: _ => some (d, ch.flatten) := by
  cases ch with
  | nil =>
    cases h : Dict.get? d n <;> simp [collect_path, collect_path.body, seq, Py.bind, Py.finish, h]
  | cons c cs =>
    have : ¬ ((((c :: cs).length : Nat) : Int) = 0) := by simp; omega
    simp only [collect_path, collect_path.body, seq, len_eq, this, decide_false, Bool.false_eq_true, if_false, skip, Py.finish, Option.map]

end RefineBranches
