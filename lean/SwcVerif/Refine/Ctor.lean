import SwcVerif.Gen.AlgoCtor
/-! Refinement for the wrappers of `Gen/AlgoCtor.lean` (session 4, T26): the deprecated spellings are their targets, `_copy_and_apply`
allocates one frame and runs the procedure on IT, and the copying spellings of the normalizer are the in-place procedures on a copy. -/
namespace RefineCtor
open Gen.Algo Py

/-! ### the deprecated spellings -/

/-- `is_binary_tree(df, exclude_root)` is `is_bifurcate((ids, pids), exclude_root)` -/
theorem is_binary_tree_eq (ids pids : List Int) (excl : Bool) :
    is_binary_tree ids pids excl = is_bifurcate (ids, pids) excl := by
  simp only [is_binary_tree, is_binary_tree.body, Py.seq, Py.bind]
  cases is_bifurcate (ids, pids) excl <;> rfl

/-- `check_single_root(df)` is `is_single_root(df)` -/
theorem check_single_root_eq (fuel : Nat) (ids pids : List Int) :
    check_single_root fuel ids pids = is_single_root fuel ids pids := by
  simp only [check_single_root, check_single_root.body, Py.bind]
  cases is_single_root fuel ids pids <;> rfl

/-! ### frames as objects: `_copy_and_apply` -/

theorem get?_new (heap : Frames) (fr : Frame) : Frames.get? (heap ++ [fr]) (heap.length : Int) = some fr := by
  simp [Frames.get?]

/-- a reference that was valid before an allocation still names the same frame -/
theorem get?_old (heap : Frames) (x : Frame) (q : Int) (f : Frame) (h : Frames.get? heap q = some f) :
    Frames.get? (heap ++ [x]) q = some f := by
  unfold Frames.get? at h ⊢
  split at h
  · exact absurd h (by simp)
  · rename_i hq
    rw [if_neg hq]
    have hlt : q.toNat < heap.length := by
      rcases Nat.lt_or_ge q.toNat heap.length with c | c
      · exact c
      · rw [List.getElem?_eq_none c] at h; exact absurd h (by simp)
    rw [List.getElem?_append_left hlt]; exact h

/-- the reference a copy returns was not a reference before -/
theorem get?_fresh (heap : Frames) : Frames.get? heap (heap.length : Int) = none := by
  simp [Frames.get?]

theorem apply_new (heap : Frames) (fr : Frame) (P : Frame → Option Frame) :
    Frames.apply (heap ++ [fr]) (heap.length : Int) P = (P fr).map fun fr' => heap ++ [fr'] := by
  simp only [Frames.apply, get?_new, Option.bind_some]
  cases P fr <;> simp

/-- **`_copy_and_apply(fn, df, …)`**: `df.copy()` allocates ONE new frame (a copy of the frame `df` refers to) at the end of the heap, `fn` is run
with the reference of THAT frame, and that reference is returned (`none` = `df` dangles or `fn` raised) -/
theorem copy_and_apply_spec (fn : Frames → Int → Option Frames) (heap : Frames) (df : Int) :
    copy_and_apply fn heap df =
      (Frames.get? heap df).bind fun fr => (fn (heap ++ [fr]) (heap.length : Int)).map fun h' => (h', (heap.length : Int)) := by
  simp only [copy_and_apply, copy_and_apply.body, Py.seq, Py.bind, Frames.copy]
  cases Frames.get? heap df with
  | none => rfl
  | some fr =>
    simp only [Option.map_some, Option.bind_some]
    cases fn (heap ++ [fr]) (heap.length : Int) <;> rfl

/-- with an in-place frame procedure `P` lifted to the heap (what the copying spellings pass): the old heap is a PREFIX of the new one, the
new last object is `P` of a copy of the input frame -/
theorem copy_and_apply_lift (P : Frame → Option Frame) (heap : Frames) (df : Int) :
    copy_and_apply (fun h d => Frames.apply h d P) heap df =
      (Frames.get? heap df).bind fun fr => (P fr).map fun fr' => (heap ++ [fr'], (heap.length : Int)) := by
  rw [copy_and_apply_spec]
  cases Frames.get? heap df with
  | none => rfl
  | some fr =>
    simp only [Option.bind_some, apply_new]
    cases P fr <;> rfl

/-- the frame condition of a copying call, in words: every reference that was valid before the call names the same frame afterwards (the
input and every bystander), the returned reference is new, and it names the procedure's result on the input's columns -/
structure Pure (P : Frame → Option Frame) (heap : Frames) (df : Int) (h' : Frames) (r : Int) : Prop where
  frame : ∀ q f, Frames.get? heap q = some f → Frames.get? h' q = some f
  fresh : Frames.get? heap r = none
  one_new : h'.length = heap.length + 1
  result : ∃ fr fr', Frames.get? heap df = some fr ∧ P fr = some fr' ∧ Frames.get? h' r = some fr'

theorem pure_of_eq (P : Frame → Option Frame) (heap : Frames) (df : Int) (h' : Frames) (r : Int)
    (h : ((Frames.get? heap df).bind fun fr => (P fr).map fun fr' => (heap ++ [fr'], (heap.length : Int))) = some (h', r)) :
    Pure P heap df h' r := by
  cases hg : Frames.get? heap df with
  | none => rw [hg] at h; exact absurd h (by simp)
  | some fr =>
    rw [hg] at h
    simp only [Option.bind_some] at h
    cases hp : P fr with
    | none => rw [hp] at h; exact absurd h (by simp)
    | some fr' =>
      rw [hp] at h
      simp only [Option.map_some, Option.some.injEq, Prod.mk.injEq] at h
      obtain ⟨rfl, rfl⟩ := h
      exact ⟨fun q f hq => get?_old heap fr' q f hq, get?_fresh heap, by simp, fr, fr', hg, hp, get?_new heap fr'⟩

/-! ### the copying spellings of the normalizer -/

/-- `mark_roots_as_somas_` on the columns of a frame -/
@[reducible] def somasP (ut : Option Int) (fr : Frame) : Option Frame :=
  (mark_roots_as_somas_ fr.ids fr.pids fr.types ut).map fun r => { fr with pids := r.1, types := r.2.1 }
/-- `reset_index_` on the columns of a frame -/
@[reducible] def resetP (fr : Frame) : Option Frame :=
  (reset_index_ fr.ids fr.pids).map fun r => { fr with ids := r.1, pids := r.2.1 }
/-- `sort_nodes_` on the columns of a frame -/
@[reducible] def sortP (fuel : Nat) (fr : Frame) : Option Frame :=
  (sort_nodes_ fuel fr.ids fr.pids fr.types fr.rs).map fun r => { fr with ids := r.1, pids := r.2.1, types := r.2.2.1, rs := r.2.2.2.1 }
/-- `link_roots_to_nearest_` on the columns of a frame -/
@[reducible] def nearestP {σ : Type} [Inhabited σ] (norm : σ → Int → σ × List Int) (fuel : Nat) (cbs : σ) (fr : Frame) : Option Frame :=
  (link_roots_to_nearest_ norm fuel fr.ids fr.pids cbs).map fun r => { fr with pids := r.1 }

theorem mark_roots_as_somas_eq (heap : Frames) (df : Int) (ut : Option Int) :
    mark_roots_as_somas heap df ut =
      (Frames.get? heap df).bind fun fr => (somasP ut fr).map fun fr' => (heap ++ [fr'], (heap.length : Int)) := by
  rw [← copy_and_apply_lift]
  simp only [mark_roots_as_somas, mark_roots_as_somas.body, Py.bind]
  cases copy_and_apply _ heap df <;> rfl

theorem reset_index_eq (heap : Frames) (df : Int) :
    reset_index heap df = (Frames.get? heap df).bind fun fr => (resetP fr).map fun fr' => (heap ++ [fr'], (heap.length : Int)) := by
  rw [← copy_and_apply_lift]
  simp only [reset_index, reset_index.body, Py.bind]
  cases copy_and_apply _ heap df <;> rfl

theorem sort_nodes_eq (fuel : Nat) (heap : Frames) (df : Int) :
    sort_nodes fuel heap df = (Frames.get? heap df).bind fun fr => (sortP fuel fr).map fun fr' => (heap ++ [fr'], (heap.length : Int)) := by
  rw [← copy_and_apply_lift]
  simp only [sort_nodes, sort_nodes.body, Py.bind]
  cases copy_and_apply _ heap df <;> rfl

theorem link_roots_to_nearest_eq {σ : Type} [Inhabited σ] (norm : σ → Int → σ × List Int) (fuel : Nat) (heap : Frames) (df : Int) (cbs : σ) :
    link_roots_to_nearest norm fuel heap df cbs =
      (Frames.get? heap df).bind fun fr => (nearestP norm fuel cbs fr).map fun fr' => (heap ++ [fr'], cbs, (heap.length : Int)) := by
  have h := copy_and_apply_lift (nearestP norm fuel cbs) heap df
  have e : link_roots_to_nearest norm fuel heap df cbs =
      (copy_and_apply (fun h d => Frames.apply h d (nearestP norm fuel cbs)) heap df).map fun t => (t.1, cbs, t.2) := by
    simp only [link_roots_to_nearest, link_roots_to_nearest.body, Py.bind]
    cases copy_and_apply _ heap df <;> rfl
  rw [e, h]
  cases Frames.get? heap df with
  | none => rfl
  | some fr =>
    simp only [Option.bind_some]
    cases nearestP norm fuel cbs fr <;> rfl

end RefineCtor
