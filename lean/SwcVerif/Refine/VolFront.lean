import SwcVerif.Gen.AlgoVolFront
import SwcVerif.Refine.Volume
/-! Refinement for C14, the FRONT of the volume computation: the definitions GENERATED (on this run) from
`swcgeom/analysis/volume.py::get_volume` (the accuracy-name table `ACCURACY_LEVELS`, the assertion `0 < accuracy <= 10`, the `match method:`
dispatch, the call of the generated `_get_volume_frustum_cone`) and `::_get_volume_frustum_cone_mc_only` (the scene built by its `leave` closure
over the generated `Tree.traverse`) are characterised for EVERY input: which exception is raised exactly when, which level is computed, and the
scene handed to the sampler = one sphere per node followed by the frusta to its children, nodes in traversal (post-)order. -/
namespace RefineVolFront
open Gen.Algo Trav Py Vol C14 RefineTravFront RefineVolume

section front
variable {K : Type} [Inhabited K] [Add K] [Sub K] [Mul K] [OfNat K 0] [OfNat K 1] [LT K] [DecidableLT K] [LE K] [DecidableLE K]
variable (volSphere : Int → K) (volFrustum : Int × Int → K) (volSF : Int → Int × Int → K) (volPairs : Int → List (Int × Int) → K) (mcScene : List Py.Shape → K)

def assertionError : Py.Exc := ⟨"AssertionError", "", []⟩
def keyError : Py.Exc := ⟨"KeyError", "", []⟩
def unsupportedMethod : Py.Exc := ⟨"ValueError", "Unsupported method: {method}", []⟩

/-- **`get_volume` with an integer accuracy, as translated on this run, EVERY input**: `AssertionError` exactly when the accuracy is outside
`1 … 10` (checked first); otherwise `ValueError("Unsupported method: …")` exactly when `method` is not `"frustum_cone"`; otherwise whatever the
generated `_get_volume_frustum_cone` does on the same tree at that accuracy (same fuel) -/
theorem get_volume_int_eq (fuel : Nat) (ids pids : List Int) (method : String) (acc : Int) :
    get_volume_int volSphere volFrustum volSF volPairs mcScene fuel ids pids method acc
      = if ¬ (0 < acc ∧ acc ≤ 10) then some (.error assertionError)
        else if method ≠ "frustum_cone" then some (.error unsupportedMethod)
        else (get_volume_frustum_cone volSphere volFrustum volSF volPairs mcScene fuel ids pids acc).map .ok := by
  by_cases h1 : 0 < acc <;> by_cases h2 : acc ≤ 10 <;> by_cases hm : method = "frustum_cone" <;>
    simp [get_volume_int, get_volume_int.body, Py.seq, Py.skip, Py.raise, Py.finishX, Py.bind, h1, h2, hm, assertionError, unsupportedMethod] <;>
    cases get_volume_frustum_cone volSphere volFrustum volSF volPairs mcScene fuel ids pids acc <;> simp [Py.finishX]

/-- **`get_volume` with a string accuracy, EVERY input**: `KeyError` exactly when the string is no key of the table read from the source
(checked before everything else); otherwise `get_volume` at the integer the table gives -/
theorem get_volume_str_eq (fuel : Nat) (ids pids : List Int) (method : String) (acc : String) :
    get_volume_str volSphere volFrustum volSF volPairs mcScene fuel ids pids method acc
      = match Py.strLookup [("low", 3), ("middle", 5), ("high", 8)] acc with
        | none => some (.error keyError)
        | some a => get_volume_int volSphere volFrustum volSF volPairs mcScene fuel ids pids method a := by
  rw [get_volume_str]
  simp only [get_volume_str.body, Py.seq, Py.bindOrRaise]
  cases h : Py.strLookup [("low", 3), ("middle", 5), ("high", 8)] acc with
  | none => simp [Py.finishX, keyError]
  | some a =>
    simp only [get_volume_int_eq]
    by_cases h1 : 0 < a <;> by_cases h2 : a ≤ 10 <;> by_cases hm : method = "frustum_cone" <;>
      simp [Py.seq, Py.skip, Py.raise, Py.finishX, Py.bind, h1, h2, hm, assertionError, unsupportedMethod] <;>
      cases get_volume_frustum_cone volSphere volFrustum volSF volPairs mcScene fuel ids pids a <;> simp [Py.finishX]

/-- the three names and what they select; every other string is no key -/
theorem accuracy_names :
    Py.strLookup [("low", 3), ("middle", 5), ("high", 8)] "low" = some 3 ∧ Py.strLookup [("low", 3), ("middle", 5), ("high", 8)] "middle" = some 5
      ∧ Py.strLookup [("low", 3), ("middle", 5), ("high", 8)] "high" = some 8
      ∧ ∀ s : String, s ≠ "low" → s ≠ "middle" → s ≠ "high" → Py.strLookup [("low", 3), ("middle", 5), ("high", 8)] s = none := by
  refine ⟨by decide, by decide, by decide, ?_⟩
  intro s h1 h2 h3
  simp [Py.strLookup, Ne.symm h1, Ne.symm h2, Ne.symm h3]

end front

/-! ### the Monte-Carlo-only path: the scene -/

mutual
/-- the scene of a subtree: the scenes of the children's subtrees, LAST child first (the traversal's stack order), then the node's sphere and the
frusta to its children in table order -/
def sceneOf : Rose → List Py.Shape
  | .node i ks => sceneOfL ks ++ (Py.Shape.sphere i :: ks.map fun k => Py.Shape.frustum i k.id)
def sceneOfL : List Rose → List Py.Shape
  | [] => []
  | r :: rs => sceneOfL rs ++ sceneOf r
end

section mc
variable {K : Type} [Inhabited K] [Add K] [Sub K] [Mul K] [OfNat K 0] [OfNat K 1] [LT K] [DecidableLT K] [LE K] [DecidableLE K]
variable (mcScene : List Py.Shape → K)

theorem mc_for1_loop (n : Int) : ∀ (cs : List Py.Shape) (v : mc_leave.V K), v.n = n →
    ∃ c fc, forEach (mc_leave.for1 mcScene) cs v
      = .next { v with scene := v.scene ++ cs.map (fun c => Py.Shape.frustum n c.node), c := c, fc := fc } := by
  intro cs
  induction cs with
  | nil => intro v _; exact ⟨v.c, v.fc, by simp [forEach]⟩
  | cons c cs ih =>
    intro v hn
    simp only [forEach, mc_leave.for1, Py.seq]
    obtain ⟨c', fc', e⟩ := ih { v with c := c, fc := Py.Shape.frustum v.n c.node, scene := v.scene ++ [Py.Shape.frustum v.n c.node] } hn
    refine ⟨c', fc', ?_⟩
    rw [e]
    simp [hn]

/-- **the `leave` closure of the Monte-Carlo path as translated**: it never raises, appends the node's sphere and then one frustum per child (in
the order of `children`) to the scene, and returns the sphere -/
theorem mc_leave_eq (scene : List Py.Shape) (n : Int) (cs : List Py.Shape) :
    mc_leave mcScene scene n cs
      = some (scene ++ (Py.Shape.sphere n :: cs.map fun c => Py.Shape.frustum n c.node), Py.Shape.sphere n) := by
  obtain ⟨c, fc, e⟩ := mc_for1_loop mcScene n cs
    { (default : mc_leave.V K) with n := n, children := cs, scene := scene ++ [Py.Shape.sphere n], sphere := Py.Shape.sphere n } rfl
  simp [mc_leave, mc_leave.body, Py.seq, e, Py.finish]

/-- the closure as a total callback -/
def mcLeaveTotal : List Py.Shape → Int → List Py.Shape → List Py.Shape × Py.Shape :=
  fun st n cs => (st ++ (Py.Shape.sphere n :: cs.map fun c => Py.Shape.frustum n c.node), Py.Shape.sphere n)

mutual
theorem spec_scene : ∀ (r : Rose) (pv : Option Unit) (st : List Py.Shape),
    spec Py.absent2 mcLeaveTotal r pv st = (st ++ sceneOf r, Py.Shape.sphere r.id)
  | .node i ks, pv, st => by
    simp only [spec, Py.absent2, mcLeaveTotal, sceneOf, Rose.id]
    rw [specRev_scene ks () st]
    simp [List.map_map, Function.comp_def, Py.Shape.node, List.append_assoc]
    intro a _
    cases a
    rfl
theorem specRev_scene : ∀ (ks : List Rose) (cur : Unit) (st : List Py.Shape),
    specRev Py.absent2 mcLeaveTotal ks cur st = (st ++ sceneOfL ks, ks.map fun k => Py.Shape.sphere k.id)
  | [], _, st => by simp [specRev, sceneOfL]
  | r :: rs, cur, st => by
    simp only [specRev, sceneOfL]
    rw [specRev_scene rs cur st, spec_scene r (some cur) (st ++ sceneOfL rs)]
    simp [List.append_assoc]
end

/-- the traversal with the wrapped closure: the scene grows by `sceneOf r` -/
theorem spec_mc_leave (r : Rose) (st : List Py.Shape) :
    spec Py.absent2 (Py.wrap2 (mc_leave mcScene)) r none (some st) = (some (st ++ sceneOf r), Py.Shape.sphere r.id) := by
  rw [absent2_eq_wrapE, wrap2_eq_wrapL]
  have h1 := RefineClosures.spec_wrap_on (fun _ : List Py.Shape => True) (fun _ => True)
    (fun st n pv => some (Py.absent2 st n pv)) (mc_leave mcScene) Py.absent2 mcLeaveTotal
    (fun st n pv _ _ => ⟨rfl, trivial⟩)
    (fun st n ks _ _ => ⟨by rw [mc_leave_eq]; rfl, trivial⟩)
    r none st trivial (fun _ _ => trivial)
  rw [h1.1, spec_scene]

/-- **`_get_volume_frustum_cone_mc_only` as translated on this run**: on every tree (a table whose subtree at node 0 is `r`, all of whose nodes are
rows) the call returns — never raises, never runs out of fuel — the Monte-Carlo estimate `mcScene` of exactly the scene `sceneOf r`: one sphere
per node and one frustum per parent-child pair, in traversal order -/
theorem mc_only_refines (ids pids : List Int) (r : Rose) (hR : Represents r ids pids) (h0 : r.id = 0) (hok : Rows r ids) (F : Nat) :
    get_volume_mc_only mcScene (2 * r.size + F + 1) ids pids = some (mcScene (sceneOf r)) := by
  have hlen : ids ≠ [] := by
    have := hok r.id (by cases r; simp [Rose.ids, Rose.id])
    intro h
    simp [h] at this
    omega
  simp [get_volume_mc_only, get_volume_mc_only.body, Py.seq, Py.skip, Py.bind, Py.len, hlen,
    tree_traverse_l_refines _ ids pids r hR h0 hok _ F, spec_mc_leave, Py.unwrapCb, Py.finish]

/-- the empty table: the early `return 0`, whatever the fuel -/
theorem mc_only_empty (pids : List Int) (fuel : Nat) : get_volume_mc_only mcScene fuel [] pids = some (0 : K) := by
  simp [get_volume_mc_only, get_volume_mc_only.body, Py.seq, Py.len, Py.finish]

end mc

/-- non-vacuity: the scene of the tree of `C04.lean` (root 0 with the children 2, 3; node 3 with 1, 4), kernel-evaluated through the generated
function at `K = Nat`-like `Int` with `mcScene` = an injective code of the scene -/
example : get_volume_mc_only (K := Int) (fun l => l.foldl (fun a s => match s with
      | .sphere n => 100 * a + 10 + n | .frustum x y => 100 * a + 50 + 7 * x + y) 0) 11 [0, 1, 2, 3, 4] [-1, 3, 0, 0, 3]
    = some ((sceneOf (.node 0 [.node 2 [], .node 3 [.node 1 [], .node 4 []]])).foldl (fun a s => match s with
      | .sphere n => 100 * a + 10 + n | .frustum x y => 100 * a + 50 + 7 * x + y) 0) := by
  decide +kernel

/-! ### the dispatch layer of `utils/volumetric_object.py` -/
section objects

/-- the class hierarchy of `utils/volumetric_object.py` as the translator read it on this run (it is written into every generated `isinstance`
test; when a `class` statement of the file changes, the generated tests change and the theorems below no longer apply) -/
local notation "HIER" => ([("VolObject", ["ABC"]), ("VolMCObject", ["VolObject", "ABC"]), ("VolSDFObject", ["VolMCObject"]), ("VolSDFIntersection", ["VolSDFObject", "ABC", "Generic"]), ("VolSDFUnion", ["VolSDFObject", "ABC", "Generic"]), ("VolSDFDifference", ["VolSDFObject", "ABC", "Generic"]), ("VolSphere", ["VolSDFObject"]), ("VolFrustumCone", ["VolSDFObject"]), ("VolSphere2Intersection", ["VolSDFIntersection"]), ("VolSphere2Union", ["VolSDFUnion"]), ("VolSphereFrustumConeIntersection", ["VolSDFIntersection"]), ("VolSphereFrustumConeUnion", ["VolSDFUnion"])] : List (String × List String))

/-- the classes whose instances are the terms `Py.VObj` -/
def objClasses : List String :=
  ["VolSphere", "VolFrustumCone", "VolSDFUnion", "VolSDFIntersection", "VolSDFDifference", "VolSphere2Union", "VolSphere2Intersection",
   "VolSphereFrustumConeUnion", "VolSphereFrustumConeIntersection"]

/-- what the generated `isinstance` tests answer on the known classes: only a sphere is a `VolSphere`, only a frustum a `VolFrustumCone`, every
object is a `VolSDFObject` -/
theorem class_facts : ∀ c ∈ objClasses,
    Py.subclassF HIER (HIER).length c "VolSphere" = (c == "VolSphere") ∧ Py.subclassF HIER (HIER).length c "VolFrustumCone" = (c == "VolFrustumCone")
      ∧ Py.subclassF HIER (HIER).length c "VolSDFObject" = true := by
  decide +kernel

/-- the classes of the composite objects -/
def compositeClasses : List String :=
  ["VolSDFUnion", "VolSDFIntersection", "VolSDFDifference", "VolSphere2Union", "VolSphere2Intersection",
   "VolSphereFrustumConeUnion", "VolSphereFrustumConeIntersection"]

/-- an object of the library: a sphere, a frustum, or a composite whose class is one of the composite classes of the file -/
def Known : Py.VObj → Prop
  | .node c _ _ => c ∈ compositeClasses
  | _ => True

theorem known_cls (x : Py.VObj) (h : Known x) : x.cls ∈ objClasses := by
  cases x with
  | sphere n => simp [Py.VObj.cls, objClasses]
  | frustum a b => simp [Py.VObj.cls, objClasses]
  | node c a b =>
    have hc : c ∈ compositeClasses := h
    simp [compositeClasses] at hc
    simp [Py.VObj.cls, objClasses]
    tauto

theorem composite_ne (c : String) (hc : c ∈ compositeClasses) : c ≠ "VolSphere" ∧ c ≠ "VolFrustumCone" := by
  simp [compositeClasses] at hc
  rcases hc with rfl | rfl | rfl | rfl | rfl | rfl | rfl <;> decide

theorem isA_facts (x : Py.VObj) (hk : Known x) :
    Py.VObj.isA HIER x "VolSphere" = (x.cls == "VolSphere") ∧ Py.VObj.isA HIER x "VolFrustumCone" = (x.cls == "VolFrustumCone")
      ∧ Py.VObj.isA HIER x "VolSDFObject" = true :=
  class_facts x.cls (known_cls x hk)

def notImplemented : Py.Exc := ⟨"NotImplementedError", "", []⟩

/-- `VolSDFObject.union / intersect / subtract` (inherited by every composite): the generic SDF composite of the two operands, in this order -/
theorem sdf_ops_eq (self obj : Py.VObj) (hx : Known obj) :
    sdf_union self obj = some (.ok (.node "VolSDFUnion" self obj)) ∧ sdf_intersect self obj = some (.ok (.node "VolSDFIntersection" self obj))
      ∧ sdf_subtract self obj = some (.ok (.node "VolSDFDifference" self obj)) := by
  obtain ⟨-, -, h3⟩ := isA_facts obj hx
  simp [sdf_union, sdf_union.body, sdf_intersect, sdf_intersect.body, sdf_subtract, sdf_subtract.body, Py.seq, Py.skip, Py.finishX, h3]

/-- an object that is no `VolSDFObject` (no class of the file): `NotImplementedError` -/
theorem sdf_union_foreign (self obj : Py.VObj) (hx : Py.VObj.isA HIER obj "VolSDFObject" = false) :
    sdf_union self obj = some (.error notImplemented) := by
  simp [sdf_union, sdf_union.body, Py.seq, Py.skip, Py.raise, Py.finishX, hx, notImplemented]

/-- **`VolSphere.union`**: with a sphere the two-sphere union, with a frustum the sphere-frustum union (sphere first), with anything else the
generic SDF union; never an exception on the library's own objects -/
theorem sphere_union_eq (self obj : Py.VObj) (hx : Known obj) :
    sphere_union self obj = some (.ok (match obj with
      | .sphere _ => .node "VolSphere2Union" self obj
      | .frustum _ _ => .node "VolSphereFrustumConeUnion" self obj
      | .node _ _ _ => .node "VolSDFUnion" self obj)) := by
  obtain ⟨h1, h2, -⟩ := isA_facts obj hx
  have h3 := (sdf_ops_eq self obj hx).1
  cases obj with
  | sphere n => simp [sphere_union, sphere_union.body, Py.seq, Py.skip, Py.finishX, h1, Py.VObj.cls]
  | frustum a b =>
    have e1 : Py.VObj.isA HIER (Py.VObj.frustum a b) "VolSphere" = false := by rw [h1]; simp [Py.VObj.cls]
    simp [sphere_union, sphere_union.body, Py.seq, Py.skip, Py.finishX, e1, h2, Py.VObj.cls]
  | node c a b =>
    have hc := composite_ne c hx
    have e1 : Py.VObj.isA HIER (Py.VObj.node c a b) "VolSphere" = false := by rw [h1]; simp [Py.VObj.cls, hc.1]
    have e2 : Py.VObj.isA HIER (Py.VObj.node c a b) "VolFrustumCone" = false := by rw [h2]; simp [Py.VObj.cls, hc.2]
    simp [sphere_union, sphere_union.body, Py.seq, Py.skip, Py.finishX, Py.bindX, e1, e2, h3]

/-- **`VolSphere.intersect`** -/
theorem sphere_intersect_eq (self obj : Py.VObj) (hx : Known obj) :
    sphere_intersect self obj = some (.ok (match obj with
      | .sphere _ => .node "VolSphere2Intersection" self obj
      | .frustum _ _ => .node "VolSphereFrustumConeIntersection" self obj
      | .node _ _ _ => .node "VolSDFIntersection" self obj)) := by
  obtain ⟨h1, h2, -⟩ := isA_facts obj hx
  have h3 := (sdf_ops_eq self obj hx).2.1
  cases obj with
  | sphere n => simp [sphere_intersect, sphere_intersect.body, Py.seq, Py.skip, Py.finishX, h1, Py.VObj.cls]
  | frustum a b =>
    have e1 : Py.VObj.isA HIER (Py.VObj.frustum a b) "VolSphere" = false := by rw [h1]; simp [Py.VObj.cls]
    simp [sphere_intersect, sphere_intersect.body, Py.seq, Py.skip, Py.finishX, e1, h2, Py.VObj.cls]
  | node c a b =>
    have hc := composite_ne c hx
    have e1 : Py.VObj.isA HIER (Py.VObj.node c a b) "VolSphere" = false := by rw [h1]; simp [Py.VObj.cls, hc.1]
    have e2 : Py.VObj.isA HIER (Py.VObj.node c a b) "VolFrustumCone" = false := by rw [h2]; simp [Py.VObj.cls, hc.2]
    simp [sphere_intersect, sphere_intersect.body, Py.seq, Py.skip, Py.finishX, Py.bindX, e1, e2, h3]

/-- **`VolFrustumCone.union / intersect`**: with a sphere the sphere-frustum union WITH THE SPHERE FIRST; otherwise the generic SDF union; the
intersection is always the generic SDF intersection (no closed form is selected from the frustum's side) -/
theorem frustum_ops_eq (self obj : Py.VObj) (hx : Known obj) :
    frustum_union self obj = some (.ok (match obj with
      | .sphere _ => .node "VolSphereFrustumConeUnion" obj self
      | _ => .node "VolSDFUnion" self obj))
    ∧ frustum_intersect self obj = some (.ok (.node "VolSDFIntersection" self obj)) := by
  obtain ⟨h1, -, -⟩ := isA_facts obj hx
  obtain ⟨h3, h4, -⟩ := sdf_ops_eq self obj hx
  refine ⟨?_, by simp [frustum_intersect, frustum_intersect.body, Py.finishX, Py.bindX, h4]⟩
  cases obj with
  | sphere n => simp [frustum_union, frustum_union.body, Py.seq, Py.skip, Py.finishX, h1, Py.VObj.cls]
  | frustum a b =>
    have e1 : Py.VObj.isA HIER (Py.VObj.frustum a b) "VolSphere" = false := by rw [h1]; simp [Py.VObj.cls]
    simp [frustum_union, frustum_union.body, Py.seq, Py.skip, Py.finishX, Py.bindX, e1, h3]
  | node c a b =>
    have hc := (composite_ne c hx).1
    have e1 : Py.VObj.isA HIER (Py.VObj.node c a b) "VolSphere" = false := by rw [h1]; simp [Py.VObj.cls, hc]
    simp [frustum_union, frustum_union.body, Py.seq, Py.skip, Py.finishX, Py.bindX, e1, h3]

variable {K : Type} [Inhabited K] [Add K] [Sub K] [Mul K] [OfNat K 0] [OfNat K 1] [LT K] [DecidableLT K] [LE K] [DecidableLE K]
variable (getVolume : Py.VObj → K) (concentric lens : Py.VObj → Py.VObj → K) (mcVolume : Py.VObj → K) (sameC1 sameR1 sameC2 sameR2 : Py.VObj → Py.VObj → Bool)

/-- **inclusion–exclusion at the union nodes**: `V(obj1) + V(obj2) − V(obj1 ∩ obj2)`, the intersection by the closed form of the class -/
theorem union_get_volume_eq (c : String) (a b : Py.VObj) :
    sfu_get_volume getVolume concentric lens mcVolume sameC1 sameR1 sameC2 sameR2 (.node c a b) = some (getVolume a + getVolume b - concentric a b)
    ∧ s2u_get_volume getVolume concentric lens mcVolume sameC1 sameR1 sameC2 sameR2 (.node c a b) = some (getVolume a + getVolume b - lens a b) := by
  simp [sfu_get_volume, sfu_get_volume.body, s2u_get_volume, s2u_get_volume.body, Py.bind, Py.VObj.obj1, Py.VObj.obj2, Py.finish]

/-- **sphere ∩ frustum**: the closed form exactly when the sphere coincides (centre AND radius, `np.allclose`) with the first or with the second
end of the frustum; the Monte-Carlo estimate of the object otherwise -/
theorem sfi_get_volume_eq (c : String) (a b : Py.VObj) :
    sfi_get_volume getVolume concentric lens mcVolume sameC1 sameR1 sameC2 sameR2 (.node c a b)
      = some (if (sameC1 a b && sameR1 a b) || (sameC2 a b && sameR2 a b) then concentric a b else mcVolume (.node c a b)) := by
  cases h1 : sameC1 a b <;> cases h2 : sameR1 a b <;> cases h3 : sameC2 a b <;> cases h4 : sameR2 a b <;>
    simp [sfi_get_volume, sfi_get_volume.body, Py.seq, Py.skip, Py.bind, Py.VObj.obj1, Py.VObj.obj2, Py.finish, h1, h2, h3, h4]

/-- **the cache of `VolObject.get_volume`** (no keyword arguments): a cached value is returned without computing; otherwise the computed value is
returned and stored -/
theorem obj_get_volume_eq (compute : K) (vol : Option K) :
    obj_get_volume compute vol = some (some (vol.getD compute), vol.getD compute) := by
  cases vol <;> simp [obj_get_volume, obj_get_volume.body, Py.seq, Py.skip, Py.bind, Py.finish]

/-- **what `leave` requests**: `sphere.intersect(fc).get_volume()` for a sphere and a frustum one of whose ends IS that sphere (the `np.allclose`
tests of that end succeed) — the object built is the sphere-frustum intersection and its volume is the closed form; Monte Carlo is not used -/
theorem leave_intersection_closed_form (n a b : Int)
    (hend : ((sameC1 (.sphere n) (.frustum a b) && sameR1 (.sphere n) (.frustum a b)) || (sameC2 (.sphere n) (.frustum a b) && sameR2 (.sphere n) (.frustum a b))) = true) :
    ∃ o, sphere_intersect (.sphere n) (.frustum a b) = some (.ok o)
      ∧ sfi_get_volume getVolume concentric lens mcVolume sameC1 sameR1 sameC2 sameR2 o = some (concentric (.sphere n) (.frustum a b)) := by
  refine ⟨_, sphere_intersect_eq (.sphere n) (.frustum a b) trivial, ?_⟩
  simp only [sfi_get_volume_eq]
  simp [hend]

end objects

/-- non-vacuity of the dispatch theorems: kernel-evaluated calls of the generated methods -/
example : [sphere_union (.sphere 1) (.sphere 2), sphere_union (.sphere 1) (.frustum 1 2), frustum_union (.frustum 1 2) (.sphere 2),
           frustum_intersect (.frustum 1 2) (.sphere 1), sphere_intersect (.sphere 1) (.node "VolSphere2Union" (.sphere 1) (.sphere 2)),
           sdf_union (.sphere 1) (.node "Foreign" (.sphere 1) (.sphere 2))]
    = [some (.ok (.node "VolSphere2Union" (.sphere 1) (.sphere 2))), some (.ok (.node "VolSphereFrustumConeUnion" (.sphere 1) (.frustum 1 2))),
       some (.ok (.node "VolSphereFrustumConeUnion" (.sphere 2) (.frustum 1 2))), some (.ok (.node "VolSDFIntersection" (.frustum 1 2) (.sphere 1))),
       some (.ok (.node "VolSDFIntersection" (.sphere 1) (.node "VolSphere2Union" (.sphere 1) (.sphere 2)))), some (.error notImplemented)] := by
  decide +kernel

end RefineVolFront
