import SwcVerif.Gen.AlgoCtorInit
import SwcVerif.Refine.PyLemmas
/-! Refinement for `Gen/AlgoCtorInit.lean` (session 4, T26): what `padding1d` / `Tree.__init__` as translated allocate, and what they alias. -/
namespace RefineCtorInit
open Gen.Algo Py

/-- `v is None`: a new zero-filled buffer of length `n` (the padding value plays no role) -/
theorem pad_none (h : Bufs) (n pad dt : Int) (hn : 0 ≤ n) :
    padding1d h n none pad (some dt) = some (h ++ [List.replicate n.toNat 0], ⟨(h.length : Int), n, dt⟩) := by
  have h1 : ¬ n < 0 := by omega
  have h2 : ((n.toNat : Nat) : Int) = n := Int.toNat_of_nonneg hn
  simp [padding1d, padding1d.body, Py.seq, Py.bind, Py.skip, Py.finish, Bufs.full, Bufs.alloc, Arr.pre, h1, h2]

/-- the dtype asked for and long enough: NO allocation, the result is a view `a[:n]` of the array handed in -/
theorem pad_alias (h : Bufs) (n pad dt : Int) (a : Arr) (hd : a.dtype = dt) (hl : n ≤ a.len) :
    padding1d h n (some a) pad (some dt) = some (h, a.pre n) := by
  simp [padding1d, padding1d.body, Py.seq, Py.bind, Py.skip, Py.finish, hd, hl]

/-- an array that shows `l` still shows `l` after any allocations -/
theorem vals_append (h x : Bufs) (a : Arr) (l : List Int) (hv : Bufs.vals h a = some l) : Bufs.vals (h ++ x) a = some l := by
  unfold Bufs.vals at hv ⊢
  split at hv
  · exact absurd hv (by simp)
  · rename_i hb
    rw [if_neg hb]
    have hlt : a.buf.toNat < h.length := by
      rcases Nat.lt_or_ge a.buf.toNat h.length with c | c
      · exact c
      · rw [List.getElem?_eq_none c] at hv; exact absurd hv (by simp)
    rw [List.getElem?_append_left hlt]; exact hv

theorem vals_new (h : Bufs) (l : List Int) (dt : Int) : Bufs.vals (h ++ [l]) ⟨(h.length : Int), (l.length : Int), dt⟩ = some l := by
  simp [Bufs.vals]

/-- the dtype asked for but too short: TWO new buffers (the padding, then the concatenation); the result is the second one -/
theorem pad_short (h : Bufs) (n pad dt : Int) (a : Arr) (l : List Int) (hd : a.dtype = dt) (hl : a.len < n)
    (hv : Bufs.vals h a = some l) :
    padding1d h n (some a) pad (some dt) =
      some (h ++ [List.replicate (n - a.len).toNat pad] ++ [l ++ List.replicate (n - a.len).toNat pad],
            ⟨(h.length : Int) + 1, ((l ++ List.replicate (n - a.len).toNat pad).length : Int), dt⟩) := by
  have h1 : ¬ n ≤ a.len := by omega
  have h2 : ¬ n - a.len < 0 := by omega
  have hv' := vals_append h [List.replicate (n - a.len).toNat pad] a l hv
  have hm : max (n - a.len) 0 = n - a.len := by omega
  have hk : (((n - a.len).toNat : Nat) : Int) = n - a.len := Int.toNat_of_nonneg (by omega)
  have hp : Bufs.vals (h ++ [List.replicate (n - a.len).toNat pad]) ⟨(h.length : Int), n - a.len, dt⟩ =
      some (List.replicate (n - a.len).toNat pad) := by
    have := vals_new h (List.replicate (n - a.len).toNat pad) dt
    simpa only [List.length_replicate, hk] using this
  simp [padding1d, padding1d.body, Py.seq, Py.bind, Py.skip, Py.finish, hd, h1, h2, Bufs.full, Bufs.alloc, Bufs.concat, hv', hm, hp, hk]

/-- another dtype: `astype` copies the values into a NEW buffer first; the rest is `padding1d` of that copy (so the result never shares
storage with the array handed in) -/
theorem pad_cast (h : Bufs) (n pad dt : Int) (a : Arr) (l : List Int) (hd : a.dtype ≠ dt) (hv : Bufs.vals h a = some l) :
    padding1d h n (some a) pad (some dt) = padding1d (h ++ [l]) n (some ⟨(h.length : Int), (l.length : Int), dt⟩) pad (some dt) := by
  simp [padding1d, padding1d.body, Py.seq, Py.bind, Py.skip, Py.finish, hd, Bufs.astype, Bufs.alloc, hv]

theorem vals_pre (h : Bufs) (a : Arr) (l : List Int) (n : Int) (hv : Bufs.vals h a = some l) (h0 : 0 ≤ n) (hn : n ≤ a.len) :
    Bufs.vals h (a.pre n) = some (l.take n.toNat) ∧ (a.pre n).len = n := by
  have hlen : (a.pre n).len = n := by
    simp only [Arr.pre]; split
    · omega
    · split <;> omega
  refine ⟨?_, hlen⟩
  unfold Bufs.vals at hv ⊢
  have hb : (a.pre n).buf = a.buf := rfl
  rw [hb, hlen]
  split at hv
  · exact absurd hv (by simp)
  · rename_i hneg
    rw [if_neg hneg]
    cases hg : h[a.buf.toNat]? with
    | none => rw [hg] at hv; exact absurd hv (by simp)
    | some b =>
      rw [hg] at hv
      simp only [Option.map_some, Option.some.injEq] at hv ⊢
      rw [← hv, List.take_take]
      congr 1
      omega

/-- the values of a column of the new tree: zeros when nothing was given, else what was given, cut to `n` or padded to `n` with `pad` -/
def colVals (n : Int) (given : Option (List Int)) (pad : Int) : List Int :=
  match given with
  | none => List.replicate n.toNat 0
  | some l => (l ++ List.replicate (n.toNat - l.length) pad).take n.toNat

/-- what one `padding1d(n, v, padding_value=pad, dtype=dt)` does to the heap of buffers -/
structure PadOk (h : Bufs) (n : Int) (v : Option Arr) (given : Option (List Int)) (pad dt : Int) (h' : Bufs) (r : Arr) : Prop where
  /-- existing buffers are not written and keep their places -/
  frame : ∃ ext, h' = h ++ ext
  dtype : r.dtype = dt
  len : r.len = n
  vals : Bufs.vals h' r = some (colVals n given pad)
  /-- the result shares storage with a buffer that existed before exactly when an array of the right dtype and at least `n` long was
  handed in — and then it is the view `a[:n]` of THAT array and nothing was allocated -/
  alias_iff : r.buf < (h.length : Int) ↔ ∃ a, v = some a ∧ a.dtype = dt ∧ n ≤ a.len
  alias_is : ∀ a, v = some a → a.dtype = dt → n ≤ a.len → r = a.pre n ∧ h' = h

theorem padding1d_none_ok (h : Bufs) (n pad dt : Int) (hn : 0 ≤ n) :
    ∃ h' r, padding1d h n none pad (some dt) = some (h', r) ∧ PadOk h n none none pad dt h' r := by
  refine ⟨_, _, pad_none h n pad dt hn, ⟨_, rfl⟩, rfl, rfl, ?_, ?_, ?_⟩
  · have := vals_new h (List.replicate n.toNat 0) dt
    simpa [Int.toNat_of_nonneg hn, colVals] using this
  · simp
  · intro a ha; exact absurd ha (by simp)

/-- the same-dtype part, on any heap in which the array is valid (used directly and after `astype`) -/
theorem padding1d_same (h : Bufs) (n pad dt : Int) (a : Arr) (l : List Int) (hn : 0 ≤ n) (hd : a.dtype = dt)
    (hv : Bufs.vals h a = some l) (hlen : (l.length : Int) = a.len) :
    ∃ h' r, padding1d h n (some a) pad (some dt) = some (h', r) ∧ (∃ ext, h' = h ++ ext) ∧ r.dtype = dt ∧ r.len = n ∧
      Bufs.vals h' r = some (colVals n (some l) pad) ∧
      (n ≤ a.len → r = a.pre n ∧ h' = h) ∧ (a.len < n → r.buf = (h.length : Int) + 1) := by
  rcases (by omega : a.len < n ∨ n ≤ a.len) with hs | hl
  · refine ⟨_, _, pad_short h n pad dt a l hd hs hv, ⟨_, by rw [List.append_assoc]⟩, rfl, ?_, ?_, fun c => absurd c (by omega), fun _ => rfl⟩
    · simp only [List.length_append, List.length_replicate]
      have : (((n - a.len).toNat : Nat) : Int) = n - a.len := Int.toNat_of_nonneg (by omega)
      push_cast; omega
    · have e : (n - a.len).toNat = n.toNat - l.length := by omega
      have hnew := vals_new (h ++ [List.replicate (n - a.len).toNat pad]) (l ++ List.replicate (n - a.len).toNat pad) dt
      simp only [List.length_append, List.length_singleton] at hnew
      rw [show ((h.length : Int) + 1) = ((h.length + 1 : Nat) : Int) by push_cast; rfl]
      have hall : colVals n (some l) pad = l ++ List.replicate (n - a.len).toNat pad := by
        simp only [colVals, e]
        apply List.take_of_length_le
        simp only [List.length_append, List.length_replicate]; omega
      rw [hall]
      simpa [List.length_append] using hnew
  · have hp := vals_pre h a l n hv hn hl
    refine ⟨_, _, pad_alias h n pad dt a hd hl, ⟨[], by simp⟩, ?_, hp.2, ?_, fun _ => ⟨rfl, rfl⟩, fun c => absurd c (by omega)⟩
    · simp [Arr.pre, hd]
    · rw [hp.1]
      simp only [colVals]
      congr 1
      rw [List.take_append_of_le_length (by omega)]

theorem vals_valid (h : Bufs) (a : Arr) (l : List Int) (hv : Bufs.vals h a = some l) : 0 ≤ a.buf ∧ a.buf < (h.length : Int) := by
  unfold Bufs.vals at hv
  split at hv
  · exact absurd hv (by simp)
  · rename_i hb
    have hlt : a.buf.toNat < h.length := by
      rcases Nat.lt_or_ge a.buf.toNat h.length with c | c
      · exact c
      · rw [List.getElem?_eq_none c] at hv; exact absurd hv (by simp)
    omega

/-- **`padding1d` as translated, on an array that is valid in the heap** (`l` = the values it shows) -/
theorem padding1d_some_ok (h : Bufs) (n pad dt : Int) (a : Arr) (l : List Int) (hn : 0 ≤ n)
    (hv : Bufs.vals h a = some l) (hlen : (l.length : Int) = a.len) :
    ∃ h' r, padding1d h n (some a) pad (some dt) = some (h', r) ∧ PadOk h n (some a) (some l) pad dt h' r := by
  have hval := vals_valid h a l hv
  by_cases hd : a.dtype = dt
  · obtain ⟨h', r, he, hf, hdt, hl, hvs, hal, hsh⟩ := padding1d_same h n pad dt a l hn hd hv hlen
    refine ⟨h', r, he, hf, hdt, hl, hvs, ?_, ?_⟩
    · constructor
      · intro hb
        refine ⟨a, rfl, hd, ?_⟩
        rcases (by omega : a.len < n ∨ n ≤ a.len) with c | c
        · have := hsh c; omega
        · exact c
      · rintro ⟨a', ha', _, hle⟩
        cases ha'
        have := (hal hle).1
        rw [this]; exact hval.2
    · intro a' ha' _ hle
      cases ha'
      exact hal hle
  · rw [pad_cast h n pad dt a l hd hv]
    obtain ⟨h', r, he, ⟨ext, hf⟩, hdt, hl, hvs, hal, hsh⟩ :=
      padding1d_same (h ++ [l]) n pad dt ⟨(h.length : Int), (l.length : Int), dt⟩ l hn rfl (vals_new h l dt) rfl
    refine ⟨h', r, he, ⟨[l] ++ ext, by rw [hf, List.append_assoc]⟩, hdt, hl, hvs, ?_, ?_⟩
    · constructor
      · intro hb
        exfalso
        rcases (by omega : (l.length : Int) < n ∨ n ≤ (l.length : Int)) with c | c
        · have := hsh c; simp only [List.length_append, List.length_singleton] at this; push_cast at this; omega
        · have := (hal c).1
          rw [this] at hb; simp [Arr.pre] at hb
      · rintro ⟨a', ha', hd', _⟩
        cases ha'; exact absurd hd' hd
    · intro a' ha' hd' _
      cases ha'; exact absurd hd' hd

/-! ### `Tree.__init__` -/

/-- the standard columns in the order of the `ndata` literal: (name, padding value, dtype tag) -/
def STD : List (String × Int × Int) :=
  [("id", 0, 0), ("type", 0, 0), ("x", 0, 1), ("y", 0, 1), ("z", 0, 1), ("r", 1, 1), ("pid", 0, 0)]

/-- `k: padding1d(n, kwargs.pop(k, None), padding_value=pad, dtype=dt)` for the listed columns, left to right -/
def padAll (n : Int) : List (String × Int × Int) → Bufs → Dict String Arr → Dict String Arr → Option (Bufs × Dict String Arr × Dict String Arr)
  | [], h, kw, acc => some (h, kw, acc)
  | (k, pad, dt) :: rest, h, kw, acc =>
    (padding1d h n (dictPopD kw k).2 pad (some dt)).bind fun p => padAll n rest p.1 (dictPopD kw k).1 (Dict.set acc k p.2)

/-- the missing-`id` / missing-`pid` defaults: `np.arange(a, b, step=1, dtype=np.int32)` stored under the key -/
def withDefault (h : Bufs) (kw : Dict String Arr) (k : String) (a b : Int) : Bufs × Dict String Arr :=
  if Dict.contains kw k then (h, kw) else ((Bufs.arange h a b 0).1, Dict.set kw k (Bufs.arange h a b 0).2)

/-- what `Py.seq s1 s2` does with the outcome of `s1` -/
def after {V R : Type} (r : Res V R) (s2 : V → Res V R) : Res V R :=
  match r with
  | .next v' => s2 v'
  | .brk v' => .brk v'
  | .cont v' => .cont v'
  | .ret v' x => .ret v' x
  | .err => .err

theorem seq_after {V R : Type} (s1 s2 : V → Res V R) (v : V) : Py.seq s1 s2 v = after (s1 v) s2 := rfl

@[simp] theorem after_next {V R : Type} (v : V) (s2 : V → Res V R) : after (.next v) s2 = s2 v := rfl

/-- one fallible call in front of the rest of a statement -/
theorem peel {V β γ : Type} (g : V × Unit → γ) (S : V → Res V Unit) (o : Option β) (K : β → Res V Unit) (K' : β → Option γ)
    (h : ∀ a, Option.map g (Py.finish default (after (K a) S)) = K' a) :
    Option.map g (Py.finish default (after (Py.bind o K) S)) = o.bind K' := by
  cases o with
  | none => rfl
  | some a => simpa [Py.bind] using h a

theorem contains_set_ne (d : Dict String Arr) (k k' : String) (x : Arr) (hk : k' ≠ k) :
    Dict.contains (Dict.set d k x) k' = Dict.contains d k' := by
  simp [Dict.contains, Py.Dict.get?_set, hk]

/-- **`Tree.__init__` as translated is**: default `id` / `pid` when missing, the seven `padding1d` calls in order (each popping its key),
then `ndata` followed by the columns that are left -/
theorem tree_init_eq (h : Bufs) (n : Int) (kw : Dict String Arr) :
    tree_init h n kw =
      (padAll n STD (withDefault (withDefault h kw "id" 0 n).1 (withDefault h kw "id" 0 n).2 "pid" (-1) (n - 1)).1
          (withDefault (withDefault h kw "id" 0 n).1 (withDefault h kw "id" 0 n).2 "pid" (-1) (n - 1)).2 []).map
        fun p => (p.1, dictMerge p.2.2 p.2.1, ()) := by
  simp only [tree_init, tree_init.body, padAll, STD, withDefault, Option.map_bind]
  by_cases h1 : Dict.contains kw "id" = true <;> by_cases h2 : Dict.contains kw "pid" = true <;>
    simp only [seq_after, after_next, h1, h2, Bool.not_true, Bool.not_false, Bool.false_eq_true, if_false, if_true, Py.skip,
      contains_set_ne _ "id" "pid" _ (by decide)] <;>
    (refine peel _ _ _ _ _ (fun a1 => ?_)
     simp only [Function.comp_apply, Option.map_bind]
     refine peel _ _ _ _ _ (fun a2 => ?_)
     simp only [Function.comp_apply, Option.map_bind]
     refine peel _ _ _ _ _ (fun a3 => ?_)
     simp only [Function.comp_apply, Option.map_bind]
     refine peel _ _ _ _ _ (fun a4 => ?_)
     simp only [Function.comp_apply, Option.map_bind]
     refine peel _ _ _ _ _ (fun a5 => ?_)
     simp only [Function.comp_apply, Option.map_bind]
     refine peel _ _ _ _ _ (fun a6 => ?_)
     simp only [Function.comp_apply, Option.map_bind]
     refine peel _ _ _ _ _ (fun a7 => ?_)
     rfl)

/-! ### the seven columns, by induction over the list of columns -/

/-- every array of the dict is valid in the heap: it shows values, and its window lies inside its buffer -/
def AllValid (h : Bufs) (kw : Dict String Arr) : Prop := ∀ p ∈ kw, ∃ l, Bufs.vals h p.2 = some l ∧ (l.length : Int) = p.2.len

theorem get?_mem (d : Dict String Arr) (k : String) (a : Arr) (hg : Dict.get? d k = some a) : (k, a) ∈ d := by
  simp only [Dict.get?, Option.map_eq_some_iff] at hg
  obtain ⟨p, hp, rfl⟩ := hg
  have h1 := List.mem_of_find?_eq_some hp
  have h2 := List.find?_some hp
  simp only [decide_eq_true_eq] at h2
  cases p; simp only at h2; subst h2; exact h1

theorem AllValid.grow {h : Bufs} {kw : Dict String Arr} (hv : AllValid h kw) (ext : Bufs) : AllValid (h ++ ext) kw := by
  intro p hp
  obtain ⟨l, hl, hlen⟩ := hv p hp
  exact ⟨l, vals_append h ext p.2 l hl, hlen⟩

theorem AllValid.filter {h : Bufs} {kw : Dict String Arr} (hv : AllValid h kw) (f : String × Arr → Bool) : AllValid h (kw.filter f) :=
  fun p hp => hv p (List.mem_filter.1 hp).1

/-- one column: the call succeeds and does what `PadOk` says; what is left of `kwargs` stays valid -/
theorem step_ok (h : Bufs) (n pad dt : Int) (kw : Dict String Arr) (k : String) (hn : 0 ≤ n) (hv : AllValid h kw) :
    ∃ h' r, padding1d h n (dictPopD kw k).2 pad (some dt) = some (h', r) ∧
      PadOk h n (Dict.get? kw k) ((Dict.get? kw k).bind (Bufs.vals h)) pad dt h' r ∧ AllValid h' (dictPopD kw k).1 := by
  have hpop : (dictPopD kw k).2 = Dict.get? kw k := rfl
  rw [hpop]
  cases hg : Dict.get? kw k with
  | none =>
    obtain ⟨h', r, he, ok⟩ := padding1d_none_ok h n pad dt hn
    obtain ⟨ext, hext⟩ := ok.frame
    exact ⟨h', r, he, ok, by rw [hext]; exact (hv.filter _).grow ext⟩
  | some a =>
    obtain ⟨l, hl, hlen⟩ := hv (k, a) (get?_mem kw k a hg)
    obtain ⟨h', r, he, ok⟩ := padding1d_some_ok h n pad dt a l hn hl hlen
    obtain ⟨ext, hext⟩ := ok.frame
    refine ⟨h', r, he, ?_, by rw [hext]; exact (hv.filter _).grow ext⟩
    simpa [Option.bind, hl] using ok

/-- a column `r` of the new tree, relative to the heap `h` before the constructor ran and the heap `hF` after it: dtype, length, values; it
shares storage with a buffer that existed before exactly when an array of the right dtype and at least `n` long was handed in, and then it IS
the view `a[:n]` of that array -/
structure ColOk (h hF : Bufs) (n : Int) (given : Option Arr) (pad dt : Int) (r : Arr) : Prop where
  dtype : r.dtype = dt
  len : r.len = n
  vals : Bufs.vals hF r = some (colVals n (given.bind (Bufs.vals h)) pad)
  alias_iff : r.buf < (h.length : Int) ↔ ∃ a, given = some a ∧ a.dtype = dt ∧ n ≤ a.len
  alias_is : ∀ a, given = some a → a.dtype = dt → n ≤ a.len → r = a.pre n

theorem set_fresh (d : Dict String Arr) (k : String) (r : Arr) (hk : k ∉ d.map (·.1)) : Dict.set d k r = d ++ [(k, r)] := by
  simp [Dict.set, Dict.contains, Py.Dict.get?_none_of_not_mem d k hk]

theorem padAll_ok (n : Int) (hn : 0 ≤ n) : ∀ (specs : List (String × Int × Int)) (h : Bufs) (kw acc : Dict String Arr),
    (specs.map (·.1)).Nodup → AllValid h kw → (∀ k ∈ specs.map (·.1), k ∉ acc.map (·.1)) →
    ∃ hF accF, padAll n specs h kw acc = some (hF, kw.filter (fun p => decide (p.1 ∉ specs.map (·.1))), accF) ∧
      (∃ ext, hF = h ++ ext) ∧
      accF.map (·.1) = acc.map (·.1) ++ specs.map (·.1) ∧
      (∀ k', k' ∉ specs.map (·.1) → Dict.get? accF k' = Dict.get? acc k') ∧
      (∀ s ∈ specs, ∃ r, Dict.get? accF s.1 = some r ∧ ColOk h hF n (Dict.get? kw s.1) s.2.1 s.2.2 r) := by
  intro specs
  induction specs with
  | nil =>
    intro h kw acc _ _ _
    have hft : kw = List.filter (fun p => true) kw := (List.filter_eq_self.2 (fun _ _ => rfl)).symm
    exact ⟨h, acc, by simpa [padAll] using hft, ⟨[], by simp⟩, by simp, fun _ _ => rfl, fun s hs => absurd hs (by simp)⟩
  | cons s rest ih =>
    obtain ⟨k, pad, dt⟩ := s
    intro h kw acc hnd hv hacc
    simp only [List.map_cons, List.nodup_cons] at hnd
    obtain ⟨h1, r, he, ok, hv1⟩ := step_ok h n pad dt kw k hn hv
    obtain ⟨ext, hext⟩ := ok.frame
    have hk_acc : k ∉ acc.map (·.1) := hacc k (by simp)
    have hacc1 : ∀ k2 ∈ rest.map (·.1), k2 ∉ (Dict.set acc k r).map (·.1) := by
      intro k2 hk2
      rw [set_fresh acc k r hk_acc]
      simp only [List.map_append, List.map_cons, List.map_nil, List.mem_append, List.mem_singleton, not_or]
      exact ⟨hacc k2 (by simp [hk2]), fun c => hnd.1 (c ▸ hk2)⟩
    obtain ⟨hF, accF, hpa, ⟨ext', hext'⟩, hkeys, hget, hcols⟩ := ih h1 (dictPopD kw k).1 (Dict.set acc k r) hnd.2 hv1 hacc1
    refine ⟨hF, accF, ?_, ⟨ext ++ ext', by rw [hext', hext, List.append_assoc]⟩, ?_, ?_, ?_⟩
    · simp only [padAll, he, Option.bind_some, hpa]
      congr 3
      simp only [dictPopD, List.filter_filter, List.map_cons, List.mem_cons, not_or]
      apply List.filter_congr
      intro p _
      by_cases c1 : p.1 = k <;> by_cases c2 : p.1 ∈ rest.map (·.1) <;> simp [c1, c2]
    · rw [hkeys, set_fresh acc k r hk_acc]; simp
    · intro k' hk'
      simp only [List.map_cons, List.mem_cons, not_or] at hk'
      rw [hget k' hk'.2, Py.Dict.get?_set, if_neg hk'.1]
    · intro s hs
      rcases List.mem_cons.1 hs with rfl | hs
      · refine ⟨r, ?_, ok.dtype, ok.len, ?_, ok.alias_iff, fun a ha hd hl => (ok.alias_is a ha hd hl).1⟩
        · rw [hget k hnd.1, Py.Dict.get?_set, if_pos rfl]
        · rw [hext']; exact vals_append h1 ext' r _ ok.vals
      · obtain ⟨r2, hr2, c⟩ := hcols s hs
        have hne : s.1 ≠ k := fun e => hnd.1 (e ▸ List.mem_map_of_mem hs)
        have hgk : Dict.get? (dictPopD kw k).1 s.1 = Dict.get? kw s.1 := by
          simp only [dictPopD]; rw [Py.Dict.get?_filter_ne, if_neg hne]
        rw [hgk] at c
        have hvals : (Dict.get? kw s.1).bind (Bufs.vals h1) = (Dict.get? kw s.1).bind (Bufs.vals h) := by
          cases hg : Dict.get? kw s.1 with
          | none => rfl
          | some a =>
            obtain ⟨l, hl, _⟩ := hv (s.1, a) (get?_mem kw s.1 a hg)
            simp only [Option.bind_some, hl, hext, vals_append h ext a l hl]
        refine ⟨r2, hr2, c.dtype, c.len, by rw [← hvals]; exact c.vals, ?_, c.alias_is⟩
        constructor
        · intro hb
          apply c.alias_iff.1
          rw [hext]; simp only [List.length_append]; push_cast; omega
        · rintro ⟨a, ha, hd, hl⟩
          have := c.alias_is a ha hd hl
          obtain ⟨l, hl', _⟩ := hv (s.1, a) (get?_mem kw s.1 a ha)
          rw [this]
          exact (vals_valid h a l hl').2

/-! ### the whole constructor -/

theorem get?_merge_not_mem : ∀ (b a : Dict String Arr) (k : String), k ∉ b.map (·.1) → Dict.get? (dictMerge a b) k = Dict.get? a k
  | [], _, _, _ => rfl
  | p :: t, a, k, hk => by
    simp only [List.map_cons, List.mem_cons, not_or] at hk
    have := get?_merge_not_mem t (Dict.set a p.1 p.2) k hk.2
    simp only [dictMerge, List.foldl_cons] at this ⊢
    rw [this, Py.Dict.get?_set, if_neg hk.1]

theorem get?_merge_mem : ∀ (b a : Dict String Arr) (k : String), (b.map (·.1)).Nodup → k ∈ b.map (·.1) →
    Dict.get? (dictMerge a b) k = Dict.get? b k
  | [], _, _, _, hk => absurd hk (by simp)
  | p :: t, a, k, hnd, hk => by
    simp only [List.map_cons, List.nodup_cons] at hnd
    simp only [List.map_cons, List.mem_cons] at hk
    rw [Py.Dict.get?_cons]
    by_cases c : p.1 = k
    · rw [if_pos c]
      have := get?_merge_not_mem t (Dict.set a p.1 p.2) k (c ▸ hnd.1)
      simp only [dictMerge, List.foldl_cons] at this ⊢
      rw [this, Py.Dict.get?_set, if_pos c.symm]
    · rw [if_neg c]
      have hk' : k ∈ t.map (·.1) := by
        rcases hk with e | e
        · exact absurd e.symm c
        · exact e
      have := get?_merge_mem t (Dict.set a p.1 p.2) k hnd.2 hk'
      simp only [dictMerge, List.foldl_cons] at this ⊢
      exact this

theorem merge_keys : ∀ (b a : Dict String Arr), (b.map (·.1)).Nodup → (∀ k ∈ b.map (·.1), k ∉ a.map (·.1)) →
    (dictMerge a b).map (·.1) = a.map (·.1) ++ b.map (·.1)
  | [], a, _, _ => by simp [dictMerge]
  | p :: t, a, hnd, hdis => by
    simp only [List.map_cons, List.nodup_cons] at hnd
    have hp : p.1 ∉ a.map (·.1) := hdis p.1 (by simp)
    have ih := merge_keys t (Dict.set a p.1 p.2) hnd.2 (by
      intro k hk
      rw [set_fresh a p.1 p.2 hp]
      simp only [List.map_append, List.map_cons, List.map_nil, List.mem_append, List.mem_singleton, not_or]
      exact ⟨hdis k (by simp [hk]), fun c => hnd.1 (c ▸ hk)⟩)
    simp only [dictMerge, List.foldl_cons] at ih ⊢
    rw [ih, set_fresh a p.1 p.2 hp]; simp

theorem get?_filter_pred (f : String → Bool) (k : String) (hf : f k = true) : ∀ (d : Dict String Arr),
    Dict.get? (d.filter (fun p => f p.1)) k = Dict.get? d k
  | [] => rfl
  | p :: t => by
    by_cases c : p.1 = k
    · have : f p.1 = true := c ▸ hf
      simp [List.filter_cons, this, hf, Py.Dict.get?_cons, c]
    · by_cases c2 : f p.1 = true
      · simp [List.filter_cons, c2, Py.Dict.get?_cons, c, get?_filter_pred f k hf t]
      · simp [List.filter_cons, c2, Py.Dict.get?_cons, c, get?_filter_pred f k hf t]

/-- the heap and the keyword dict after the two defaults (`id = arange(0, n)`, `pid = arange(-1, n - 1)` when missing) -/
def defaults (h : Bufs) (n : Int) (kw : Dict String Arr) : Bufs × Dict String Arr :=
  withDefault (withDefault h kw "id" 0 n).1 (withDefault h kw "id" 0 n).2 "pid" (-1) (n - 1)

/-- when both `id` and `pid` are handed in (every tree built from a table or from another tree) nothing happens here -/
theorem defaults_given (h : Bufs) (n : Int) (kw : Dict String Arr) (h1 : Dict.contains kw "id" = true) (h2 : Dict.contains kw "pid" = true) :
    defaults h n kw = (h, kw) := by
  simp [defaults, withDefault, h1, h2]

/-- **`Tree.__init__` as translated** (every heap, every `n ≥ 0`, every dict of valid arrays with distinct keys), stated on the heap / dict
`(h₂, kw₂) = defaults h n kw` (= `(h, kw)` when `id` and `pid` are given): it succeeds; NO existing buffer is written (`hF = h₂ ++ ext`); the
first seven columns of the new `ndata` are `id, type, x, y, z, r, pid` with the dtypes int32 / float32, length `n` and the values `colVals`
(what was given, cut or padded — with 1 for `r`, 0 otherwise; zeros when nothing was given); a standard column SHARES STORAGE with a buffer that
existed before exactly when an array of the right dtype and at least `n` long was handed in, and is then the view `a[:n]` of it; every other
column handed in is stored as it is (the same array object). -/
theorem tree_init_ok (h : Bufs) (n : Int) (kw : Dict String Arr) (hn : 0 ≤ n)
    (hv : AllValid (defaults h n kw).1 (defaults h n kw).2) (hnd : ((defaults h n kw).2.map (·.1)).Nodup) :
    ∃ hF nd, tree_init h n kw = some (hF, nd, ()) ∧ (∃ ext, hF = (defaults h n kw).1 ++ ext) ∧
      nd.map (·.1) = STD.map (·.1) ++ ((defaults h n kw).2.filter fun p => decide (p.1 ∉ STD.map (·.1))).map (·.1) ∧
      (∀ s ∈ STD, ∃ r, Dict.get? nd s.1 = some r ∧
        ColOk (defaults h n kw).1 hF n (Dict.get? (defaults h n kw).2 s.1) s.2.1 s.2.2 r) ∧
      (∀ k, k ∉ STD.map (·.1) → Dict.get? nd k = Dict.get? (defaults h n kw).2 k) := by
  obtain ⟨hF, accF, hpa, hfr, hkeys, hget, hcols⟩ :=
    padAll_ok n hn STD (defaults h n kw).1 (defaults h n kw).2 [] (by decide) hv (by simp)
  have hrest_nd : (((defaults h n kw).2.filter fun p => decide (p.1 ∉ STD.map (·.1))).map (·.1)).Nodup :=
    (List.filter_sublist.map _).nodup hnd
  have hrest_not : ∀ k ∈ STD.map (·.1), k ∉ ((defaults h n kw).2.filter fun p => decide (p.1 ∉ STD.map (·.1))).map (·.1) := by
    intro k hk hm
    obtain ⟨p, hp, rfl⟩ := List.mem_map.1 hm
    have := (List.mem_filter.1 hp).2
    simp only [decide_eq_true_eq] at this
    exact this hk
  refine ⟨hF, dictMerge accF ((defaults h n kw).2.filter fun p => decide (p.1 ∉ STD.map (·.1))), ?_, hfr, ?_, ?_, ?_⟩
  · rw [tree_init_eq]; simp only [defaults] at hpa ⊢; rw [hpa]; rfl
  · rw [merge_keys _ _ hrest_nd (by rw [hkeys]; intro k hk hm; exact hrest_not k (by simpa using hm) hk), hkeys]; simp
  · intro s hs
    obtain ⟨r, hr, c⟩ := hcols s hs
    exact ⟨r, by rw [get?_merge_not_mem _ _ _ (hrest_not s.1 (List.mem_map_of_mem hs))]; exact hr, c⟩
  · intro k hk
    have hfk := get?_filter_pred (fun q => decide (q ∉ STD.map (·.1))) k (by simpa using hk) (defaults h n kw).2
    by_cases hm : k ∈ ((defaults h n kw).2.filter fun p => decide (p.1 ∉ STD.map (·.1))).map (·.1)
    · rw [get?_merge_mem _ _ _ hrest_nd hm]; exact hfk
    · rw [get?_merge_not_mem _ _ _ hm, hget k hk, ← hfk, Py.Dict.get?_none_of_not_mem _ k hm]; rfl

end RefineCtorInit
