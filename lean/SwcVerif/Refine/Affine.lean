import SwcVerif.Gen.AlgoAffine
import SwcVerif.Gen.Matrices
import SwcVerif.Refine.PyLemmas
import Mathlib.Tactic.Ring
import Mathlib.Tactic.FieldSimp
import Mathlib.Algebra.Order.Field.Basic
/-! # Refinement: the GENERATED affine transform classes (`Gen/AlgoAffine.lean`) against the arithmetic of `Gen/Matrices.lean`

`Gen/AlgoAffine.lean` is the translation of the control flow of `swcgeom/transforms/geometry.py` (constructors, `__call__`, `apply`,
`TranslateOrigin.transform`), of the matrix builders of `swcgeom/utils/transforms.py`, of `SWCLike.xyz / xyzw` and of
`Transforms.__call__`.  Here: over any linearly ordered field `K` (true division of the float type = field division) the generated
functions move row `i` of a tree to `applyPoint M (xᵢ, yᵢ, zᵢ)` with `M = aboutRoot tm root` for `center ∈ {root, soma}` (root = the FIRST
row whose parent is −1) and `M = tm` otherwise, and return ids / parents / types / radii as they are.  Trees of every size ≥ 1. -/
namespace RefineAffine
open Gen.Algo Gen.Mat Gen.Affine

variable {K : Type} [Field K] [LinearOrder K] [Inhabited K]

/-- a point of a tree -/
abbrev Pt (K : Type) := K × K × K

/-- the three coordinate columns of a list of points -/
def colX (pts : List (Pt K)) : List K := pts.map (·.1)
def colY (pts : List (Pt K)) : List K := pts.map (·.2.1)
def colZ (pts : List (Pt K)) : List K := pts.map (·.2.2)

/-- a 4×4 matrix as a list of rows -/
def Is44 (m : List (List K)) : Prop := m.length = 4 ∧ ∀ r ∈ m, r.length = 4

theorem is44_explicit {m : List (List K)} (h : Is44 m) :
    ∃ a0 a1 a2 a3 b0 b1 b2 b3 c0 c1 c2 c3 d0 d1 d2 d3 : K,
      m = [[a0, a1, a2, a3], [b0, b1, b2, b3], [c0, c1, c2, c3], [d0, d1, d2, d3]] := by
  obtain ⟨hl, hr⟩ := h
  match m, hl, hr with
  | [r0, r1, r2, r3], _, hr =>
    have h0 := hr r0 (by simp); have h1 := hr r1 (by simp); have h2 := hr r2 (by simp); have h3 := hr r3 (by simp)
    match r0, r1, r2, r3, h0, h1, h2, h3 with
    | [a0, a1, a2, a3], [b0, b1, b2, b3], [c0, c1, c2, c3], [d0, d1, d2, d3], _, _, _, _ =>
      exact ⟨a0, a1, a2, a3, b0, b1, b2, b3, c0, c1, c2, c3, d0, d1, d2, d3, rfl⟩

theorem is44_mmul (a b : List (List K)) (ha : Is44 a) : Is44 (mmul a b) := by
  refine ⟨by simp [mmul, ha.1], ?_⟩
  intro r hr
  simp only [mmul, List.mem_map] at hr
  obtain ⟨_, _, rfl⟩ := hr
  simp

/-! ### the matrix builders, translated a second time, are the builders of `Gen/Matrices.lean` -/

theorem fneg_eq (x : K) : Py.fneg x = -x := by simp [Py.fneg]

theorem translate3d_refines (tx ty tz : K) : af_translate3d tx ty tz = some (translate3d tx ty tz) := rfl
theorem scale3d_refines (sx sy sz : K) : af_scale3d sx sy sz = some (scale3d sx sy sz) := rfl
theorem rotate3d_x_refines (c s : K) : af_rotate3d_x c s = some (rotate3d_x c s) := by
  simp [af_rotate3d_x, af_rotate3d_x.body, Py.finish, rotate3d_x, fneg_eq]
theorem rotate3d_y_refines (c s : K) : af_rotate3d_y c s = some (rotate3d_y c s) := by
  simp [af_rotate3d_y, af_rotate3d_y.body, Py.finish, rotate3d_y, fneg_eq]
theorem rotate3d_z_refines (c s : K) : af_rotate3d_z c s = some (rotate3d_z c s) := by
  simp [af_rotate3d_z, af_rotate3d_z.body, Py.finish, rotate3d_z, fneg_eq]

theorem is44_translate3d (tx ty tz : K) : Is44 (translate3d tx ty tz) := by simp [Is44, translate3d]
theorem is44_scale3d (sx sy sz : K) : Is44 (scale3d sx sy sz) := by simp [Is44, scale3d]
theorem is44_rotate3d_x (c s : K) : Is44 (rotate3d_x c s) := by simp [Is44, rotate3d_x]
theorem is44_rotate3d_y (c s : K) : Is44 (rotate3d_y c s) := by simp [Is44, rotate3d_y]
theorem is44_rotate3d_z (c s : K) : Is44 (rotate3d_z c s) := by simp [Is44, rotate3d_z]
theorem is44_rotate3d (nx ny nz c s : K) : Is44 (rotate3d nx ny nz c s) := by simp [Is44, rotate3d, rodrigues]

/-! ### numpy `dot` on 4×4 matrices is `mmul` -/

theorem dot2_eq_mmul (a b : List (List K)) (ha : Is44 a) (hb : Is44 b) : Py.dot2 a b = some (mmul a b) := by
  obtain ⟨a0, a1, a2, a3, b0, b1, b2, b3, c0, c1, c2, c3, d0, d1, d2, d3, rfl⟩ := is44_explicit ha
  obtain ⟨e0, e1, e2, e3, f0, f1, f2, f3, g0, g1, g2, g3, h0, h1, h2, h3, rfl⟩ := is44_explicit hb
  simp [Py.dot2, Py.transpose2, mmul, dotK, colK, Py.dotRow, List.range_succ]

/-! ### `np.stack(…, axis=1)` / `.T` on the columns of a tree -/

theorem filterMap_getElem?_map {α β : Type} (l : List α) (row : α → List β) (j : Nat) (x : α → β)
    (h : ∀ a, (row a)[j]? = some (x a)) : (l.map row).filterMap (·[j]?) = l.map x := by
  induction l with
  | nil => rfl
  | cons a l ih => simp [List.filterMap_cons, h, ih]

/-- three columns of equal length stacked as rows of three -/
theorem transpose2_cols3 {α : Type} (pts : List α) (f g h : α → K) :
    Py.transpose2 [pts.map f, pts.map g, pts.map h] = some (pts.map fun p => [f p, g p, h p]) := by
  simp only [Py.transpose2, List.all_cons, List.length_map, List.all_nil, decide_true, Bool.and_self, if_true]
  congr 1
  apply List.ext_getElem
  · simp
  · intro i h1 h2
    simp at h1
    simp [List.filterMap_cons, h1]

theorem transpose2_cols4 {α : Type} (pts : List α) (f g h k : α → K) :
    Py.transpose2 [pts.map f, pts.map g, pts.map h, pts.map k] = some (pts.map fun p => [f p, g p, h p, k p]) := by
  simp only [Py.transpose2, List.all_cons, List.length_map, List.all_nil, decide_true, Bool.and_self, if_true]
  congr 1
  apply List.ext_getElem
  · simp
  · intro i h1 h2
    simp at h1
    simp [List.filterMap_cons, h1]

/-- `n ≥ 1` rows of four, transposed: the four columns -/
theorem transpose2_rows4 {α : Type} (pts : List α) (hne : pts ≠ []) (f g h k : α → K) :
    Py.transpose2 (pts.map fun p => [f p, g p, h p, k p]) = some [pts.map f, pts.map g, pts.map h, pts.map k] := by
  match pts, hne with
  | p :: ps, _ =>
    have e : ∀ j (x : α → K), (∀ a, ([f a, g a, h a, k a] : List K)[j]? = some (x a)) →
        ((p :: ps).map fun p => [f p, g p, h p, k p]).filterMap (·[j]?) = (p :: ps).map x :=
      fun j x hx => filterMap_getElem?_map (p :: ps) (fun p => [f p, g p, h p, k p]) j x hx
    have e0 := e 0 f (by simp); have e1 := e 1 g (by simp); have e2 := e 2 h (by simp); have e3 := e 3 k (by simp)
    simp only [List.map_cons] at e0 e1 e2 e3
    simp [Py.transpose2, List.range_succ, e0, e1, e2, e3]

theorem xyz_refines (pts : List (Pt K)) :
    swc_xyz (colX pts) (colY pts) (colZ pts) = some (pts.map fun p => [p.1, p.2.1, p.2.2]) := by
  simp [swc_xyz, swc_xyz.body, Py.finish, Py.bind, Py.stack1, colX, colY, colZ, transpose2_cols3]

theorem xyzw_refines (pts : List (Pt K)) :
    swc_xyzw (colX pts) (colY pts) (colZ pts) = some (pts.map fun p => [p.1, p.2.1, p.2.2, 1]) := by
  have h : Py.onesLike (colX pts) = pts.map (fun _ => (1 : K)) := by
    simp only [Py.onesLike, colX, List.map_map]; rfl
  have t := transpose2_cols4 pts (·.1) (·.2.1) (·.2.2) (fun _ => (1 : K))
  simp only [swc_xyzw, swc_xyzw.body, Py.seq, Py.bind, Py.stack1, h, List.isEmpty_cons, Bool.false_eq_true, if_false]
  simp only [colX, colY, colZ, t, Py.finish, Option.map_some]

/-! ### `AffineTransform.apply` -/

/-- the homogeneous coordinate `w` of the image of a point -/
def wOf (tm : List (List K)) (p : Pt K) : K := dotK (tm.getD 3 []) [p.1, p.2.1, p.2.2, 1]

/-- the stated map on every point: `Gen.Affine.applyPoint` (the arithmetic of `apply` on one node, `Gen/Matrices.lean`) -/
def mapPts (tm : List (List K)) (pts : List (Pt K)) : List (Pt K) := pts.map fun p => applyPoint tm p.1 p.2.1 p.2.2

theorem dotRow_eq_dotK (u v : List K) : Py.dotRow u v = dotK v u := by
  simp only [Py.dotRow, dotK]
  rw [List.zipWith_comm]
  have : (fun (b a : K) => a * b) = (fun x1 x2 => x1 * x2) := by funext a b; exact mul_comm _ _
  rw [this]

theorem transpose2_44 (tm : List (List K)) (h44 : Is44 tm) : ∃ tmT, Py.transpose2 tm = some tmT ∧ Is44 tmT ∧ Py.transpose2 tmT = some tm := by
  obtain ⟨a0, a1, a2, a3, b0, b1, b2, b3, c0, c1, c2, c3, d0, d1, d2, d3, rfl⟩ := is44_explicit h44
  refine ⟨[[a0, b0, c0, d0], [a1, b1, c1, d1], [a2, b2, c2, d2], [a3, b3, c3, d3]], ?_, ?_, ?_⟩
  · simp [Py.transpose2, List.range_succ]
  · simp [Is44]
  · simp [Py.transpose2, List.range_succ]

theorem dot2_rows (X : List (List K)) (hX : ∀ r ∈ X, r.length = 4) (tm tmT : List (List K)) (hT : Is44 tmT)
    (hTT : Py.transpose2 tmT = some tm) :
    Py.dot2 X tmT = some (X.map fun r => tm.map fun c => Py.dotRow r c) := by
  have : (X.all fun r => decide (r.length = tmT.length)) = true := by
    simp only [List.all_eq_true, decide_eq_true_eq, hT.1]
    exact hX
  simp [Py.dot2, hTT, this]

theorem mapOpt_fdiv {α : Type} (F : Py.Fld K) (hF : ∀ a b : K, F.div a b = a / b) (pts : List α) (f g : α → K)
    (hg : ∀ p ∈ pts, g p ≠ 0) :
    Py.mapOpt (fun p => Py.fdiv p.1 p.2) (List.zip (pts.map f) (pts.map g)) = some (pts.map fun p => f p / g p) := by
  have hfun : (fun p : K × K => Py.fdiv p.1 p.2) = fun p => if p.2 = 0 then none else some (p.1 / p.2) := by
    funext p
    by_cases h : p.2 = 0
    · simp [Py.fdiv, h]
    · simp [Py.fdiv, h, lt_or_gt_of_ne h, hF]
  rw [hfun]
  induction pts with
  | nil => rfl
  | cons p ps ih =>
    have h0 : g p ≠ 0 := hg p (by simp)
    have := ih (fun q hq => hg q (by simp [hq]))
    simp only [List.map_cons, List.zip_cons_cons, Py.mapOpt, h0, if_false, this]

theorem idx_four {α : Type} (a b c d : α) :
    Py.idx [a, b, c, d] 0 = some a ∧ Py.idx [a, b, c, d] 1 = some b ∧ Py.idx [a, b, c, d] 2 = some c ∧ Py.idx [a, b, c, d] 3 = some d := by
  simp [Py.idx, Py.normIdx]

/-- **`AffineTransform.apply`** (generated): on a tree with at least one node whose points all have `w ≠ 0` under the 4×4 matrix `tm`,
row `i` moves to `applyPoint tm (xᵢ, yᵢ, zᵢ)`; ids, parents, types, radii are returned as they are (so is the number of rows). -/
theorem apply_refines (F : Py.Fld K) (hF : ∀ a b : K, F.div a b = a / b) (ids pids types : List Int) (rs : List K)
    (pts : List (Pt K)) (hne : pts ≠ []) (tm : List (List K)) (h44 : Is44 tm) (hw : ∀ p ∈ pts, wOf tm p ≠ 0) :
    affine_apply F ids pids types (colX pts) (colY pts) (colZ pts) rs tm
      = some (ids, pids, types, colX (mapPts tm pts), colY (mapPts tm pts), colZ (mapPts tm pts), rs) := by
  obtain ⟨tmT, hT, hT44, hTT⟩ := transpose2_44 tm h44
  have hd := dot2_rows (pts.map fun p => [p.1, p.2.1, p.2.2, (1 : K)])
    (by intro r hr; simp only [List.mem_map] at hr; obtain ⟨_, _, rfl⟩ := hr; rfl) tm tmT hT44 hTT
  obtain ⟨r0, r1, r2, r3, rfl⟩ : ∃ r0 r1 r2 r3, tm = [r0, r1, r2, r3] := by
    obtain ⟨a0, a1, a2, a3, b0, b1, b2, b3, c0, c1, c2, c3, d0, d1, d2, d3, rfl⟩ := is44_explicit h44
    exact ⟨_, _, _, _, rfl⟩
  simp only [List.map_map, List.map_cons, List.map_nil] at hd
  have ht := transpose2_rows4 pts hne (fun p => Py.dotRow [p.1, p.2.1, p.2.2, (1 : K)] r0)
    (fun p => Py.dotRow [p.1, p.2.1, p.2.2, (1 : K)] r1) (fun p => Py.dotRow [p.1, p.2.1, p.2.2, (1 : K)] r2)
    (fun p => Py.dotRow [p.1, p.2.1, p.2.2, (1 : K)] r3)
  have hw' : ∀ p ∈ pts, Py.dotRow [p.1, p.2.1, p.2.2, (1 : K)] r3 ≠ 0 := by
    intro p hp
    have := hw p hp
    simpa [wOf, dotRow_eq_dotK] using this
  have hdiv := fun f => mapOpt_fdiv F hF pts f (fun p => Py.dotRow [p.1, p.2.1, p.2.2, (1 : K)] r3) hw'
  obtain ⟨i0, i1, i2, i3⟩ := idx_four (pts.map fun p => Py.dotRow [p.1, p.2.1, p.2.2, (1 : K)] r0)
    (pts.map fun p => Py.dotRow [p.1, p.2.1, p.2.2, (1 : K)] r1) (pts.map fun p => Py.dotRow [p.1, p.2.1, p.2.2, (1 : K)] r2)
    (pts.map fun p => Py.dotRow [p.1, p.2.1, p.2.2, (1 : K)] r3)
  simp only [affine_apply, affine_apply.body, Py.seq, Py.bind, xyzw_refines, hT, Function.comp_def, hd, ht, i3, Py.idivRows, Py.mapOpt,
    List.length_map, if_true, hdiv]
  obtain ⟨j0, j1, j2, _⟩ := idx_four (pts.map fun p => Py.dotRow [p.1, p.2.1, p.2.2, (1 : K)] r0 / Py.dotRow [p.1, p.2.1, p.2.2, (1 : K)] r3)
    (pts.map fun p => Py.dotRow [p.1, p.2.1, p.2.2, (1 : K)] r1 / Py.dotRow [p.1, p.2.1, p.2.2, (1 : K)] r3)
    (pts.map fun p => Py.dotRow [p.1, p.2.1, p.2.2, (1 : K)] r2 / Py.dotRow [p.1, p.2.1, p.2.2, (1 : K)] r3)
    (pts.map fun p => Py.dotRow [p.1, p.2.1, p.2.2, (1 : K)] r3 / Py.dotRow [p.1, p.2.1, p.2.2, (1 : K)] r3)
  simp only [j0, j1, j2, Py.finish, Option.map_some]
  simp [colX, colY, colZ, mapPts, applyPoint, mapply, dotRow_eq_dotK]

/-! ### `AffineTransform.__call__` -/

/-- `np.nonzero(pid == -1)[0][0]`: the position of the FIRST row whose parent is −1 -/
theorem nonzeroFrom_eqMask (l : List Int) : ∀ (k : Int), (-1) ∈ l →
    Py.idx (Py.nonzeroFrom k (Py.eqMask l (-1))) 0 = some (k + (l.idxOf (-1) : Nat)) := by
  induction l with
  | nil => intro k h; simp at h
  | cons a l ih =>
    intro k h
    by_cases ha : a = -1
    · subst ha
      simp [Py.eqMask, Py.nonzeroFrom, Py.idx, Py.normIdx]
    · have hl : (-1) ∈ l := by
        rcases List.mem_cons.1 h with h | h
        · exact absurd h.symm ha
        · exact h
      have := ih (k + 1) hl
      simp only [Py.eqMask] at this
      have hne : ¬ (a == -1) = true := by simpa using ha
      simp only [Py.eqMask, List.map_cons, ha, decide_false, Py.nonzeroFrom, Bool.false_eq_true, if_false, this,
        List.idxOf_cons, hne, cond_false]
      congr 1
      push_cast
      ring

theorem root_index (pids : List Int) (h : (-1) ∈ pids) :
    Py.idx (Py.nonzero (Py.eqMask pids (-1))) 0 = some ((pids.idxOf (-1) : Nat) : Int) := by
  simpa [Py.nonzero] using nonzeroFrom_eqMask pids 0 h

/-- `center` other than `"root"` / `"soma"` (in particular `"origin"`): `__call__` applies `self.tm` as it is -/
theorem call_origin (F : Py.Fld K) (center : String) (h1 : center ≠ "root") (h2 : center ≠ "soma") (tm0 : List (List K))
    (ids pids types : List Int) (xs ys zs rs : List K) :
    affine_call F center tm0 ids pids types xs ys zs rs = affine_apply F ids pids types xs ys zs rs tm0 := by
  simp only [affine_call, affine_call.body, Py.seq, Py.bind, h1, h2, decide_false, Bool.or_self, Bool.false_eq_true, if_false]
  cases affine_apply F ids pids types xs ys zs rs tm0 <;> rfl

/-- `center ∈ {"root", "soma"}`: `__call__` applies `self.tm` conjugated by the translation to the root (the first row whose parent
is −1; without such a row the call raises: `Py.idx … = none`) -/
theorem call_root (F : Py.Fld K) (center : String) (hc : center = "root" ∨ center = "soma") (tm0 : List (List K)) (h44 : Is44 tm0)
    (ids pids types : List Int) (rs : List K) (pts : List (Pt K)) (hroot : (-1) ∈ pids) (root : Pt K)
    (hr : pts[pids.idxOf (-1)]? = some root) :
    affine_call F center tm0 ids pids types (colX pts) (colY pts) (colZ pts) rs
      = affine_apply F ids pids types (colX pts) (colY pts) (colZ pts) rs (aboutRoot tm0 root.1 root.2.1 root.2.2) := by
  have hcen : (decide (center = "root") || decide (center = "soma")) = true := by
    rcases hc with rfl | rfl <;> decide
  have hk : pids.idxOf (-1) < pts.length := by
    by_contra hn
    rw [List.getElem?_eq_none (by omega)] at hr
    exact absurd hr (by simp)
  have hrow : Py.idx (pts.map fun p => [p.1, p.2.1, p.2.2]) ((pids.idxOf (-1) : Nat) : Int) = some [root.1, root.2.1, root.2.2] := by
    rw [Py.idx_nat _ _ (by simpa using hk)]
    simp [hr]
  obtain ⟨x, y, z⟩ := root
  have i3 : Py.idx [x, y, z] 0 = some x ∧ Py.idx [x, y, z] 1 = some y ∧ Py.idx [x, y, z] 2 = some z := by
    simp [Py.idx, Py.normIdx]
  have d1 := dot2_eq_mmul (translate3d x y z) tm0 (is44_translate3d x y z) h44
  have d2 := dot2_eq_mmul (mmul (translate3d x y z) tm0) (translate3d (-x) (-y) (-z)) (is44_mmul _ _ (is44_translate3d x y z))
    (is44_translate3d _ _ _)
  simp only [affine_call, affine_call.body, Py.seq, Py.bind, hcen, if_true, root_index pids hroot, xyz_refines, hrow, i3.1, i3.2.1,
    i3.2.2, translate3d_refines, fneg_eq, d1, d2, aboutRoot]
  cases affine_apply F ids pids types (colX pts) (colY pts) (colZ pts) rs
    (mmul (mmul (translate3d x y z) tm0) (translate3d (-x) (-y) (-z))) <;> rfl

/-- **`AffineTransform.__call__` ∘ `apply`** (generated), `center ∈ {root, soma}`: row `i` moves to
`applyPoint (aboutRoot tm root) (xᵢ, yᵢ, zᵢ)` where `root` is the position of the FIRST row whose parent is −1;
ids, parents, types, radii (and the number of rows) are unchanged. -/
theorem call_root_refines (F : Py.Fld K) (hF : ∀ a b : K, F.div a b = a / b) (center : String) (hc : center = "root" ∨ center = "soma")
    (tm0 : List (List K)) (h44 : Is44 tm0) (ids pids types : List Int) (rs : List K) (pts : List (Pt K)) (hroot : (-1) ∈ pids)
    (root : Pt K) (hr : pts[pids.idxOf (-1)]? = some root)
    (hw : ∀ p ∈ pts, wOf (aboutRoot tm0 root.1 root.2.1 root.2.2) p ≠ 0) :
    affine_call F center tm0 ids pids types (colX pts) (colY pts) (colZ pts) rs
      = some (ids, pids, types, colX (mapPts (aboutRoot tm0 root.1 root.2.1 root.2.2) pts),
          colY (mapPts (aboutRoot tm0 root.1 root.2.1 root.2.2) pts), colZ (mapPts (aboutRoot tm0 root.1 root.2.1 root.2.2) pts), rs) := by
  rw [call_root F center hc tm0 h44 ids pids types rs pts hroot root hr]
  have hne : pts ≠ [] := by rintro rfl; simp at hr
  exact apply_refines F hF ids pids types rs pts hne _ (is44_mmul _ _ (is44_mmul _ _ (is44_translate3d _ _ _))) hw

/-- … and for any other `center` (`"origin"`): row `i` moves to `applyPoint tm (xᵢ, yᵢ, zᵢ)`. -/
theorem call_origin_refines (F : Py.Fld K) (hF : ∀ a b : K, F.div a b = a / b) (center : String) (h1 : center ≠ "root")
    (h2 : center ≠ "soma") (tm0 : List (List K)) (h44 : Is44 tm0) (ids pids types : List Int) (rs : List K) (pts : List (Pt K))
    (hne : pts ≠ []) (hw : ∀ p ∈ pts, wOf tm0 p ≠ 0) :
    affine_call F center tm0 ids pids types (colX pts) (colY pts) (colZ pts) rs
      = some (ids, pids, types, colX (mapPts tm0 pts), colY (mapPts tm0 pts), colZ (mapPts tm0 pts), rs) := by
  rw [call_origin F center h1 h2]
  exact apply_refines F hF ids pids types rs pts hne tm0 h44 hw

/-! ### affine matrices (last row `0 0 0 1`): `w = 1` at every point, so `apply` never divides by zero -/

def IsAffine (m : List (List K)) : Prop := Is44 m ∧ m.getD 3 [] = [0, 0, 0, 1]

theorem wOf_affine {m : List (List K)} (h : IsAffine m) (p : Pt K) : wOf m p = 1 := by
  have h2 := h.2
  simp only [wOf, h2, dotK]
  simp

theorem aboutRoot_affine {m : List (List K)} (h : IsAffine m) (x y z : K) : IsAffine (aboutRoot m x y z) := by
  refine ⟨is44_mmul _ _ (is44_mmul _ _ (is44_translate3d _ _ _)), ?_⟩
  obtain ⟨a0, a1, a2, a3, b0, b1, b2, b3, c0, c1, c2, c3, d0, d1, d2, d3, rfl⟩ := is44_explicit h.1
  have h3 := h.2
  simp only [List.getD_eq_getElem?_getD, List.getElem?_cons_succ, List.getElem?_cons_zero, Option.getD_some, List.cons.injEq,
    and_true] at h3
  obtain ⟨rfl, rfl, rfl, rfl⟩ := h3
  simp [aboutRoot, mmul, dotK, colK, translate3d]

theorem affine_translate3d (tx ty tz : K) : IsAffine (translate3d tx ty tz) := ⟨is44_translate3d _ _ _, by simp [translate3d]⟩
theorem affine_scale3d (sx sy sz : K) : IsAffine (scale3d sx sy sz) := ⟨is44_scale3d _ _ _, by simp [scale3d]⟩
theorem affine_rotate3d_x (c s : K) : IsAffine (rotate3d_x c s) := ⟨is44_rotate3d_x _ _, by simp [rotate3d_x]⟩
theorem affine_rotate3d_y (c s : K) : IsAffine (rotate3d_y c s) := ⟨is44_rotate3d_y _ _, by simp [rotate3d_y]⟩
theorem affine_rotate3d_z (c s : K) : IsAffine (rotate3d_z c s) := ⟨is44_rotate3d_z _ _, by simp [rotate3d_z]⟩
theorem affine_rotate3d (nx ny nz c s : K) : IsAffine (rotate3d nx ny nz c s) :=
  ⟨is44_rotate3d _ _ _ _ _, by simp [rotate3d, rodrigues]⟩

/-- the whole class on an AFFINE matrix, both centre modes in one statement: the matrix applied is `aboutRoot tm root` for
`center ∈ {root, soma}` and `tm` otherwise -/
def effective (center : String) (tm : List (List K)) (root : Pt K) : List (List K) :=
  if center = "root" ∨ center = "soma" then aboutRoot tm root.1 root.2.1 root.2.2 else tm

/-- **the generated `AffineTransform.__call__` on an affine matrix**: every tree with a root row (first parent −1) at position `< n`;
row `i` ↦ `applyPoint (effective center tm root) (xᵢ, yᵢ, zᵢ)`; ids / parents / types / radii unchanged; no exception. -/
theorem call_affine (F : Py.Fld K) (hF : ∀ a b : K, F.div a b = a / b) (center : String) (tm : List (List K)) (ha : IsAffine tm)
    (ids pids types : List Int) (rs : List K) (pts : List (Pt K)) (hroot : (-1) ∈ pids) (root : Pt K)
    (hr : pts[pids.idxOf (-1)]? = some root) :
    affine_call F center tm ids pids types (colX pts) (colY pts) (colZ pts) rs
      = some (ids, pids, types, colX (mapPts (effective center tm root) pts), colY (mapPts (effective center tm root) pts),
          colZ (mapPts (effective center tm root) pts), rs) := by
  by_cases hc : center = "root" ∨ center = "soma"
  · simp only [effective, hc, if_true]
    exact call_root_refines F hF center hc tm ha.1 ids pids types rs pts hroot root hr
      (fun p _ => by rw [wOf_affine (aboutRoot_affine ha _ _ _)]; exact one_ne_zero)
  · simp only [effective, hc, if_false]
    have hne : pts ≠ [] := by rintro rfl; simp at hr
    exact call_origin_refines F hF center (fun h => hc (Or.inl h)) (fun h => hc (Or.inr h)) tm ha.1 ids pids types rs pts hne
      (fun p _ => by rw [wOf_affine ha]; exact one_ne_zero)

/-! ### `TranslateOrigin.transform` -/

theorem translate_origin_refines (F : Py.Fld K) (hF : ∀ a b : K, F.div a b = a / b) (ids pids types : List Int) (rs : List K)
    (pts : List (Pt K)) (hroot : (-1) ∈ pids) (root : Pt K) (hr : pts[pids.idxOf (-1)]? = some root) :
    translate_origin F ids pids types (colX pts) (colY pts) (colZ pts) rs
      = some (ids, pids, types, colX (mapPts (translate3d (-root.1) (-root.2.1) (-root.2.2)) pts),
          colY (mapPts (translate3d (-root.1) (-root.2.1) (-root.2.2)) pts),
          colZ (mapPts (translate3d (-root.1) (-root.2.1) (-root.2.2)) pts), rs) := by
  have hk : pids.idxOf (-1) < pts.length := by
    by_contra hn
    rw [List.getElem?_eq_none (by omega)] at hr
    exact absurd hr (by simp)
  have hne : pts ≠ [] := by rintro rfl; simp at hr
  obtain ⟨x, y, z⟩ := root
  have hrow : ∀ j : Int, Py.idx2 (pts.map fun p => [p.1, p.2.1, p.2.2, (1 : K)]) ((pids.idxOf (-1) : Nat) : Int) j
      = Py.idx [x, y, z, (1 : K)] j := by
    intro j
    simp only [Py.idx2]
    rw [Py.idx_nat _ _ (by simpa using hk)]
    simp [hr]
  obtain ⟨i0, i1, i2, _⟩ := idx_four x y z (1 : K)
  have hap := apply_refines F hF ids pids types rs pts hne (translate3d (-x) (-y) (-z)) (is44_translate3d _ _ _)
    (fun p _ => by rw [wOf_affine (affine_translate3d _ _ _)]; exact one_ne_zero)
  simp only [translate_origin, translate_origin.body, Py.seq, Py.bind, root_index pids hroot, xyzw_refines, hrow, i0, i1, i2,
    fneg_eq, translate3d_refines, hap, Py.finish, Option.map_some]

/-! ### the constructors: which matrix, which centre -/

theorem affine_init_eq (tm : List (List K)) (center : String) :
    affine_init tm center none none = some (tm, center, [], ()) := rfl

theorem translate_init_default (tx ty tz : K) :
    translate_init tx ty tz [] = some (translate3d tx ty tz, defaultCenterAffineTransform, [], ()) := rfl

theorem translate_init_center (tx ty tz : K) (c : String) :
    translate_init tx ty tz [("center", c)] = some (translate3d tx ty tz, c, [], ()) := by
  simp [translate_init, translate_init.body, Py.bind, Py.finish, translate3d_refines, Py.kwOnly, Py.Dict.getD, Py.Dict.get?, affine_init_eq]

theorem scale_init_eq (sx sy sz : K) (c : String) :
    scale_init sx sy sz c [] = some (scale3d sx sy sz, c, [], ()) := rfl

theorem rotate_x_init_eq (c s : K) (cen : String) : rotate_x_init c s cen [] = some (rotate3d_x c s, cen, [], ()) := by
  simp [rotate_x_init, rotate_x_init.body, Py.bind, Py.seq, Py.finish, rotate3d_x_refines, Py.kwOnly, affine_init_eq]
theorem rotate_y_init_eq (c s : K) (cen : String) : rotate_y_init c s cen [] = some (rotate3d_y c s, cen, [], ()) := by
  simp [rotate_y_init, rotate_y_init.body, Py.bind, Py.seq, Py.finish, rotate3d_y_refines, Py.kwOnly, affine_init_eq]
theorem rotate_z_init_eq (c s : K) (cen : String) : rotate_z_init c s cen [] = some (rotate3d_z c s, cen, [], ()) := by
  simp [rotate_z_init, rotate_z_init.body, Py.bind, Py.seq, Py.finish, rotate3d_z_refines, Py.kwOnly, affine_init_eq]
/-- `Rotate(n, θ)`: the matrix `rotate3d(n, θ)` (the parameter `rot`), the stated centre, and — always — the deprecation warning of the
`fmt` parameter (call site 0), because the constructor passes `fmt=` on -/
theorem rotate_init_eq (rot : List (List K)) (cen : String) : rotate_init rot cen [] = some (rot, cen, [0], ()) := rfl

/-! ### `Transforms.__call__`: left-to-right composition -/

theorem transforms_call_refines {X : Type} [Inhabited X] (fs : List (X → Option X)) (x : X) :
    transforms_call fs x = fs.foldlM (fun x f => f x) x := by
  have key : ∀ (fs : List (X → Option X)) (v : transforms_call.V X),
      Py.forEach transforms_call.for1 fs v
        = match fs.foldlM (fun x f => f x) v.x with
          | some y => .next { v with x := y, transform := fs.getLastD v.transform }
          | none => .err := by
    intro fs
    induction fs with
    | nil => intro v; rfl
    | cons f fs ih =>
      intro v
      simp only [Py.forEach, transforms_call.for1, Py.bind, List.foldlM_cons]
      cases hf : f v.x with
      | none => simp
      | some y =>
        simp only [Option.bind_some, Option.bind_eq_bind]
        rw [ih]
        cases fs with
        | nil => rfl
        | cons g gs => simp [List.getLastD]
  simp only [transforms_call, transforms_call.body, Py.seq, key]
  cases fs.foldlM (fun x f => f x) x <;> rfl

end RefineAffine
