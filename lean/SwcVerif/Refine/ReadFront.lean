import SwcVerif.Model.AlgoRunReadFront
import SwcVerif.Refine.Parse
import SwcVerif.Refine.Repair
/-! Refinement for the FRONT END of the SWC reader (C02 / C01, T37 `readfront`): the definitions GENERATED from
`swcgeom/utils/file.py::detect_encoding`, `FileReader.__init__`, `FileReader.__enter__` and the `extras = …` statement of
`swcgeom/core/swc_utils/io.py::parse_swc` (Gen/AlgoReadFront.lean) equal closed-form specifications for EVERY input, and their composition
with the generated read loop (Gen/AlgoParse) and the generated tail of `read_swc` (Gen/AlgoRepair) - `ReadFront.readSwcFull` - is the
composition of the specifications. -/
namespace RefineReadFront
open Gen.Algo Py ReadFront

variable {F : Type} [Inhabited F] [Add F] [Sub F] [Mul F] [OfNat F 0] [OfNat F 1] [LT F] [DecidableLT F] [LE F] [DecidableLE F]

/-! ## specifications -/

/-- the encoding the reader finally uses: a text stream's own encoding (the argument is ignored: "skip detect"), else the argument, with
`"detect"` replaced by chardet's answer (`utf-8` when chardet has none / an empty one) -/
def effEncoding (src : Src) (encoding : String) (det : Option String) : String :=
  match src.encoding with
  | some e => e
  | none => if encoding = "detect" then strOr det "utf-8" else encoding

/-- the low-confidence warning (call site 0 of `detect_encoding`): only when detection really ran -/
def detectWarn (src : Src) (encoding : String) (lowc : F) (chardet : Option String × F) : List Int :=
  if src.encoding.isNone ∧ encoding = "detect" ∧ chardet.2 < lowc then [0] else []

/-- the object `FileReader(fname, encoding=…)` constructs: exactly one of the three slots holds the source -/
def initSpec (src : Src) (encoding : String) (det : Option String) : FileReaderFull :=
  { fname := if src.isText || src.isBytes then .path "" else src,
    fb := if !src.isText && src.isBytes then some src else none,
    f := if src.isText then some src else none,
    encoding := effEncoding src encoding det, kwargs := () }

/-- the text stream `__enter__` returns: the caller's own text stream, the `TextIOWrapper` of the caller's `BytesIO`, or the file opened by
name - the last two with the effective encoding -/
def streamOf (src : Src) (enc : String) : Src :=
  match src with
  | .bytes h => .wrapped h enc
  | .path n => .opened n enc
  | s => s

/-- `extras = list(extra_cols) if extra_cols else []` -/
def normExtras : Option (List String) → List String
  | some l => l
  | none => []

/-! ## the generated stages -/

theorem detect_encoding_eq (src : Src) (lowc : F) (chardet : Option String × F) (ws : List Int) :
    detect_encoding src lowc chardet ws =
      some (match src.encoding with
        | some e => (ws, e)
        | none => (if chardet.2 < lowc then ws ++ [0] else ws, strOr chardet.1 "utf-8")) := by
  by_cases hc : chardet.2 < lowc <;> cases src <;>
    simp [detect_encoding, detect_encoding.body, Py.seq, Py.bind, Py.skip, Py.finish, Src.isText, Src.isBytes, Src.encoding, hc]

theorem file_reader_init_eq (self0 : FileReaderFull) (src : Src) (encoding : String) (lowc : F) (chardet : Option String × F) (ws : List Int) :
    file_reader_init self0 src encoding lowc () chardet ws =
      some (initSpec src encoding chardet.1, ws ++ detectWarn src encoding lowc chardet, ()) := by
  by_cases hd : encoding = "detect" <;> by_cases hc : chardet.2 < lowc <;> cases src <;>
    simp [file_reader_init, file_reader_init.body, Py.seq, Py.bind, Py.skip, Py.finish, Src.isText, Src.isBytes, Src.encoding,
      detect_encoding_eq, initSpec, effEncoding, detectWarn, hd, hc]

theorem file_reader_enter_init (src : Src) (encoding : String) (det : Option String) :
    file_reader_enter (initSpec src encoding det) =
      some ({ initSpec src encoding det with f := some (streamOf src (effEncoding src encoding det)) },
        some (streamOf src (effEncoding src encoding det))) := by
  cases src <;>
    simp [file_reader_enter, file_reader_enter.body, Py.seq, Py.bind, Py.skip, Py.finish, initSpec, Src.isText, Src.isBytes,
      Src.optIsBytes, Src.wrap, Src.openR, streamOf]

theorem parse_swc_extras_eq (xs : Option (List String)) : parse_swc_extras xs = some (normExtras xs, ()) := by
  rcases xs with _ | ⟨_ | ⟨a, l⟩⟩ <;>
    simp [parse_swc_extras, parse_swc_extras.body, Py.bind, Py.finish, Py.optListTruthy, Py.optList, normExtras]

/-- **`FileReader(fname, encoding=encoding).__enter__()` never fails** (on a codec name Python knows), whatever the source and the options;
it returns the stream `streamOf`, read with the effective encoding -/
theorem openReader_eq (src : Src) (encoding : String) (lowc : F) (chardet : Option String × F) :
    openReader src encoding lowc chardet =
      some (detectWarn src encoding lowc chardet,
        { initSpec src encoding chardet.1 with f := some (streamOf src (effEncoding src encoding chardet.1)) },
        streamOf src (effEncoding src encoding chardet.1)) := by
  simp [openReader, file_reader_init_eq, file_reader_enter_init]

/-! ## `SWCNames.cols`, `get_names`, the first half of `read_swc`, the prologue of `parse_swc` -/

/-- `names.cols()`: id, type, x, y, z, r, pid - in this order -/
def namesCols (nm : SWCNames7) : List String := [nm.id, nm.type, nm.x, nm.y, nm.z, nm.r, nm.pid]

/-- `swc_names = SWCNames()`: the defaults of the class (extracted from the source on every run) -/
def defaultNames : SWCNames7 :=
  ⟨Gen.Consts.name_id, Gen.Consts.name_type, Gen.Consts.name_x, Gen.Consts.name_y, Gen.Consts.name_z, Gen.Consts.name_r, Gen.Consts.name_pid⟩

theorem swc_names_cols_eq (nm : SWCNames7) : swc_names_cols nm = some (namesCols nm) := rfl

theorem namesCols_length (nm : SWCNames7) : (namesCols nm).length = 7 := rfl

theorem get_names_eq (names : Option SWCNames7) : get_names names = some (names.getD defaultNames) := rfl

/-- **the first half of `read_swc`**: the names are defaulted, and `parse_swc` receives the file, THESE names, `extra_cols` and `encoding` -/
theorem read_swc_front_eq {DF CM : Type} [Inhabited DF] [Inhabited CM]
    (P : Src → SWCNames7 → Option (List String) → String → Option (DF × CM)) (src : Src) (xs : Option (List String)) (encoding : String)
    (names : Option SWCNames7) :
    read_swc_front P src xs encoding names =
      (P src (names.getD defaultNames) xs encoding).map fun r => (names.getD defaultNames, r.1, r.2, ()) := by
  simp only [read_swc_front, read_swc_front.body, Py.seq, Py.bind, get_names_eq]
  cases P src (names.getD defaultNames) xs encoding <;> rfl

/-- the seven fixed groups of the regular expression -/
def reCols7 : List String :=
  ["([0-9]+)", "([0-9]+)", Gen.Consts.reFloat, Gen.Consts.reFloat, Gen.Consts.reFloat, Gen.Consts.reFloat, "(-?[0-9]+)"]

/-- the TEXT of `re_swc` for `k` extra columns: leading blanks, the `7 + k` groups separated by `\s+`, the optional tail, trailing blanks -/
def reSwcText (k : Nat) : String :=
  "^\\s*" ++ Py.strJoin "\\s+" (reCols7 ++ List.replicate k Gen.Consts.reFloat) ++ "((?:\\s+[+-.0-9eE]+)*)\\s*$"

/-- the value a loop variable is left with -/
def lastOr {α : Type} : List α → α → α
  | [], d => d
  | x :: xs, _ => lastOr xs x

theorem prologue_for1 : ∀ (xs : List String) (v : parse_swc_prologue.V),
    Py.forEach parse_swc_prologue.for1 xs v =
      .next { v with c0_ := v.c0_ ++ List.replicate xs.length 1, underscore_ := lastOr xs v.underscore_ } := by
  intro xs
  induction xs with
  | nil => intro v; simp [Py.forEach, lastOr]
  | cons x xs ih =>
    intro v
    simp [Py.forEach, parse_swc_prologue.for1, ih, List.replicate_succ, lastOr]

theorem prologue_for2 : ∀ (xs : List String) (v : parse_swc_prologue.V),
    Py.forEach parse_swc_prologue.for2 xs v =
      .next { v with c2_ := v.c2_ ++ List.replicate xs.length Gen.Consts.reFloat, underscore_ := lastOr xs v.underscore_ } := by
  intro xs
  induction xs with
  | nil => intro v; simp [Py.forEach, lastOr]
  | cons x xs ih =>
    intro v
    simp [Py.forEach, parse_swc_prologue.for2, ih, List.replicate_succ, lastOr]

/-- **the prologue of `parse_swc`**: `int, int, float ×4, int` then `float` per extra column (0 = int, 1 = float); the regular expression
text depends on the extras only through their NUMBER; the trailing group is group `7 + k + 1`; the header is `' '.join(names.cols())` -/
theorem parse_swc_prologue_eq (nm : SWCNames7) (extras : List String) :
    parse_swc_prologue nm extras =
      some ([0, 0, 1, 1, 1, 1, 0] ++ List.replicate extras.length 1, reSwcText extras.length, 7 + (extras.length : Int) + 1,
        Py.strJoin " " (namesCols nm), ()) := by
  simp [parse_swc_prologue, parse_swc_prologue.body, Py.seq, Py.bindS, Py.bind, prologue_for1, prologue_for2, swc_names_cols_eq,
    Py.finish, Py.len, reSwcText, reCols7]

/-! ## `Tree.from_swc`, the `extra_cols` of `Tree.from_eswc` -/

/-- the names of `eswc_cols` (core/swc.py), in order -/
def eswcNames : List String := ["level", "mode", "timestamp", "teraflyindex", "feature_value"]

/-- **`Tree.from_eswc` hands `from_swc` the caller's extra columns (none for `None`) FOLLOWED by the five eswc columns, in a NEW list** -/
theorem from_eswc_extras_eq (xs : Option (List String)) : from_eswc_extras xs = some (normExtras xs ++ eswcNames, ()) := by
  cases xs <;>
    simp [from_eswc_extras, from_eswc_extras.body, from_eswc_extras.for1, Py.seq, Py.bind, Py.bindS, Py.forEach, Py.optList, Py.finish,
      normExtras, eswcNames]

/-- the exception `Tree.from_swc` raises instead of whatever `read_swc` raised -/
def wrapExc : Py.Exc := ⟨"ValueError", "fails to read swc: {swc_file}", []⟩

/-- `source`: the absolute path of a `str` file name, `""` for a stream -/
def sourceOf (abspath : String → String) : Src → String
  | .path n => abspath n
  | _ => ""

/-- **`Tree.from_swc`**: every `Exception` of `read_swc` becomes `ValueError("fails to read swc: …")` (the table is never built from a failed
read); otherwise `from_data_frame` receives exactly the table and the comments `read_swc` returned and `source`, and its own exceptions
propagate unwrapped -/
theorem tree_from_swc_eq {KW DF CM T : Type} [Inhabited KW] [Inhabited DF] [Inhabited CM] [Inhabited T]
    (R : Src → KW → Except Py.Exc (DF × CM)) (Fd : DF → String → CM → Except Py.Exc T) (abspath : String → String) (src : Src) (kw : KW) :
    tree_from_swc R Fd abspath src kw =
      some (match R src kw with
        | .error e => if e.isA "Exception" then .error wrapExc else .error e
        | .ok r => Fd r.1 (sourceOf abspath src) r.2) := by
  simp only [tree_from_swc, tree_from_swc.body, tree_from_swc.try1_body, tree_from_swc.try1_handler, Py.seq, Py.tryExcept, Py.raise, Py.bind]
  cases hR : R src kw with
  | error e => by_cases hi : e.isA "Exception" <;> simp [hi, Py.finishX, wrapExc]
  | ok r =>
    cases src <;> simp [Py.Src.isStr, Py.Src.strName, sourceOf, Py.finishX] <;>
      (cases Fd r.1 _ r.2 <;> simp [Py.finishX])

/-! ## `dict(zip(keys, vals))` with distinct keys: the value under the `j`-th key is the `j`-th value -/

theorem get?_foldl_set_not_mem {κ ν : Type} [DecidableEq κ] : ∀ (zs : List (κ × ν)) (d : Dict κ ν) (k : κ), k ∉ zs.map (·.1) →
    Dict.get? (zs.foldl (fun d p => Dict.set d p.1 p.2) d) k = Dict.get? d k := by
  intro zs
  induction zs with
  | nil => intro d k _; rfl
  | cons z zs ih =>
    intro d k hk
    simp only [List.map_cons, List.mem_cons, not_or] at hk
    simp only [List.foldl_cons]
    rw [ih _ k hk.2, Dict.get?_set, if_neg hk.1]

theorem get?_foldl_set_zip {κ ν : Type} [DecidableEq κ] : ∀ (ks : List κ) (vs : List ν) (d : Dict κ ν), ks.Nodup → ks.length ≤ vs.length →
    ∀ (j : Nat) (hj : j < ks.length), Dict.get? ((List.zip ks vs).foldl (fun d p => Dict.set d p.1 p.2) d) ks[j] = vs[j]? := by
  intro ks
  induction ks with
  | nil => intro vs d _ _ j hj; simp at hj
  | cons k ks ih =>
    intro vs d hnd hlen j hj
    cases vs with
    | nil => simp at hlen
    | cons w ws =>
      rw [List.nodup_cons] at hnd
      simp only [List.zip_cons_cons, List.foldl_cons]
      cases j with
      | zero =>
        have : k ∉ (List.zip ks ws).map (·.1) := by
          intro hm
          obtain ⟨z, hz, rfl⟩ := List.mem_map.1 hm
          exact hnd.1 (List.of_mem_zip hz).1
        simp only [List.getElem_cons_zero]
        rw [get?_foldl_set_not_mem _ _ _ this, Dict.get?_set]
        simp
      | succ j =>
        simp only [List.getElem_cons_succ, List.getElem?_cons_succ]
        exact ih ws _ hnd.2 (by simpa using hlen) j (by simpa using hj)

theorem get?_ofZip {κ ν : Type} [DecidableEq κ] (ks : List κ) (vs : List ν) (hnd : ks.Nodup) (hlen : ks.length ≤ vs.length)
    (j : Nat) (hj : j < ks.length) : Dict.get? (Dict.ofZip ks vs) ks[j] = vs[j]? :=
  get?_foldl_set_zip ks vs [] hnd hlen j hj

/-! ## the composition -/
section compose
variable {L Val C σ : Type} [Inhabited L] [Inhabited Val] [Inhabited C] [Inhabited σ]
variable (linesOf : Src → Py.Stream L) (rowOf : L → Option (List Val × Bool)) (commentOf : L → Option C) (isHeader : C → Bool)
  (blank : L → Bool)

/-- the stream the read loop iterates: the lines of what `__enter__` returned -/
def linesRead (src : Src) (encoding : String) (det : Option String) : Py.Stream L :=
  linesOf (streamOf src (effEncoding src encoding det))

/-- **`parse_swc` front to back is the generated read loop on the keys `names.cols()`, the normalised extra columns, an OPEN reader and the
lines of the stream `__enter__` returned** - for every source kind and every option; the only further effect of the front end is the
low-confidence warning -/
theorem parseSwcFull_eq (nm : SWCNames7) (xs : Option (List String)) (src : Src) (encoding : String) (lowc : F)
    (chardet : Option String × F) :
    parseSwcFull linesOf rowOf commentOf isHeader blank nm xs src encoding lowc chardet =
      (parse_swc rowOf commentOf isHeader blank (namesCols nm) (normExtras xs) ⟨some (), false⟩ (linesRead linesOf src encoding chardet.1)).map
        fun p => (detectWarn src encoding lowc chardet, p) := by
  simp [parseSwcFull, parse_swc_extras_eq, swc_names_cols_eq, openReader_eq, toParseReader, linesRead]

/-- the tail of `read_swc` on the columns of a parsed table -/
def backStages (intOf : Val → Int) (norm : σ → Int → σ × List Int) (fuel : Nat) (nm : SWCNames7) (mode : Option String) (srt rst : Bool)
    (cbs : σ) (wd : List Int) (wp : List Py.Exc) (df : Py.Dict String (List Val)) (cs : List C) : Option (Except Py.Exc (Out Val C σ)) :=
  (colInt intOf df nm.id).bind fun ids => (colInt intOf df nm.pid).bind fun pids =>
  (colInt intOf df nm.type).bind fun types => (colInt intOf df nm.r).bind fun rs =>
  (RefineRepair.fixStage norm fuel ids pids types mode cbs).bind fun f =>
    (RefineRepair.normStage fuel ids f.1 f.2.1 rs srt rst).bind fun g =>
      (RefineRepair.checkStage fuel g.1 g.2.1 g.2.2.2).map fun w =>
        .ok ⟨df, cs, g.1, g.2.1, g.2.2.1, g.2.2.2, wd, wp, w, f.2.2⟩

/-- **`read_swc` is: the generated read loop (as above, under the defaulted names); an exception of the loop is the exception of the call,
whatever the options; otherwise repair → normalisation → checks of the translated callees on the columns `df[names.id]`, `df[names.pid]`,
`df[names.type]`, `df[names.r]`** -/
theorem readSwcFull_eq (intOf : Val → Int) (norm : σ → Int → σ × List Int) (fuel : Nat) (src : Src)
    (xs : Option (List String)) (mode : Option String) (srt rst : Bool) (encoding : String) (names : Option SWCNames7) (lowc : F)
    (chardet : Option String × F) (cbs : σ) :
    readSwcFull linesOf rowOf commentOf isHeader blank intOf norm fuel src xs mode srt rst encoding names lowc chardet cbs =
      (parse_swc rowOf commentOf isHeader blank (namesCols (names.getD defaultNames)) (normExtras xs) ⟨some (), false⟩
          (linesRead linesOf src encoding chardet.1)).bind
        fun p => match p.2.2 with
          | .error e => some (.error e)
          | .ok (df, cs) =>
            backStages intOf norm fuel (names.getD defaultNames) mode srt rst cbs (detectWarn src encoding lowc chardet) p.1 df cs := by
  simp only [readSwcFull, read_swc_front_eq, parseSwcFull_eq, Option.bind_map, Option.map_map]
  congr 1
  funext p
  rcases p with ⟨ws, rd, (e | ⟨df, cs⟩)⟩
  · rfl
  · simp only [Function.comp, backStages, RefineRepair.readFix_stages]
    refine congrArg _ (funext fun ids => congrArg _ (funext fun pids => congrArg _ (funext fun types => congrArg _ (funext fun rs => ?_))))
    cases RefineRepair.fixStage norm fuel ids pids types mode cbs with
    | none => rfl
    | some f =>
      simp only [Option.bind_some]
      cases RefineRepair.normStage fuel ids f.1 f.2.1 rs srt rst with
      | none => rfl
      | some g =>
        simp only [Option.bind_some]
        cases RefineRepair.checkStage fuel g.1 g.2.1 g.2.2.2 <;> rfl

end compose

end RefineReadFront
