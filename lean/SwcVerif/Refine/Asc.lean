import SwcVerif.Gen.AlgoAsc
import SwcVerif.Refine.PyLemmas
/-! Refinement for C15, part 1: `NeurolucidaAscToSwc.from_ast` / `walk_ast` AS TRANSLATED from the current source
(`Gen/AlgoAsc.lean`) on every AST heap that unfolds to a tree: the explicit-stack loop produces exactly the rows of the structural
recursion `rows` — pre-order, one row per NODE, ids consecutive, `pid` = the id of the nearest enclosing NODE (−1 directly under a
TREE / the ROOT), typed by the enclosing TREE's label — and the fuel `cost` (one unit per visited AST node plus one per TREE) + 1
suffices. -/
namespace RefineAsc
open Gen.Algo Py

/-- the unfolding of an AST heap from a reference: the reference and the unfoldings of its children -/
inductive AT where
  | mk (ref : Nat) (kids : List AT)

def AT.ref : AT → Nat | .mk r _ => r
def AT.kids : AT → List AT | .mk _ ks => ks

/-- `types.axon` / `types.basal_dendrite` for the labels `walk_ast` knows -/
def labelCode (v : Val) : Option Int :=
  if Val.eqStr v "AXON" then some Gen.Consts.type_axon
  else if Val.eqStr v "DENDRITE" then some Gen.Consts.type_basal_dendrite else none

/-- one row of the table (`ndata`) -/
structure Row where
  id : Int
  type : Int
  x : Atom
  y : Atom
  z : Atom
  r : Atom
  pid : Int
deriving Repr, DecidableEq

def coord (v : Val) (k : Nat) : Atom := ((Val.unpack v 4).getD []).getD k default

mutual
/-- the heap unfolds to `t`, and is well-formed for the walk: a TREE carries a label the walk knows, a NODE a 4-tuple -/
def Agrees (nodes : List ASTNode) : AT → Prop
  | .mk r kids => ∃ o, nodes[r]? = some o ∧ o.children = kids.map (fun k => (k.ref : Int)) ∧
      (o.type = 2 → (labelCode o.value).isSome) ∧ (o.type = 3 → (Val.unpack o.value 4).isSome) ∧ AgreesL nodes kids
def AgreesL (nodes : List ASTNode) : List AT → Prop
  | [] => True
  | t :: ts => Agrees nodes t ∧ AgreesL nodes ts
end

mutual
/-- **the table the walk must produce**, by structural recursion: `pid` = id of the nearest enclosing NODE (−1 under a TREE / ROOT),
`ty` = code of the enclosing TREE's label, `next` = the next free id; COLOR / COMMENT nodes contribute nothing -/
def rows (nodes : List ASTNode) : AT → Int → Int → Nat → List Row
  | .mk r kids, pid, ty, next =>
    match nodes[r]? with
    | none => []
    | some o =>
      if o.type = 1 then rowsL nodes kids (-1) ty next
      else if o.type = 2 then rowsL nodes kids (-1) ((labelCode o.value).getD ty) next
      else if o.type = 3 then
        ⟨next, ty, coord o.value 0, coord o.value 1, coord o.value 2, coord o.value 3, pid⟩ :: rowsL nodes kids next ty (next + 1)
      else []
def rowsL (nodes : List ASTNode) : List AT → Int → Int → Nat → List Row
  | [], _, _, _ => []
  | t :: ts, pid, ty, next => rows nodes t pid ty next ++ rowsL nodes ts pid ty (next + (rows nodes t pid ty next).length)
end

mutual
/-- iterations of the `while` loop spent on a subtree: one per visited node, one more per TREE (its sentinel) -/
def cost (nodes : List ASTNode) : AT → Nat
  | .mk r kids =>
    match nodes[r]? with
    | none => 1
    | some o =>
      if o.type = 1 then 1 + costL nodes kids
      else if o.type = 2 then 2 + costL nodes kids
      else if o.type = 3 then 1 + costL nodes kids
      else 1
def costL (nodes : List ASTNode) : List AT → Nat
  | [] => 0
  | t :: ts => cost nodes t + costL nodes ts
end

theorem idx_of_get {α : Type} (l : List α) (k : Nat) (o : α) (h : l[k]? = some o) : Py.idx l (k : Int) = some o := by
  have hk : k < l.length := by
    rcases Nat.lt_or_ge k l.length with h' | h'
    · exact h'
    · simp [List.getElem?_eq_none h'] at h
  rw [idx_nat _ _ hk, h]

abbrev Stk := List (Option Int × Int)

theorem for1_loop : ∀ (l : List Int) (v : walk_ast.V),
    forEach walk_ast.for1 l v = .next { v with c9_ := v.c9_ ++ l.map (fun n => (some n, v.idx)), n := l.getLast?.getD v.n } := by
  intro l
  induction l with
  | nil => intro v; simp [forEach]
  | cons a l ih =>
    intro v
    simp only [forEach, walk_ast.for1]
    rw [ih]
    simp [List.getLast?_cons]

theorem for2_loop : ∀ (l : List Int) (v : walk_ast.V),
    forEach walk_ast.for2 l v = .next { v with c16_ := v.c16_ ++ l.map (fun n => (some n, (-1 : Int))), n := l.getLast?.getD v.n } := by
  intro l
  induction l with
  | nil => intro v; simp [forEach]
  | cons a l ih =>
    intro v
    simp only [forEach, walk_ast.for2]
    rw [ih]
    simp [List.getLast?_cons]

theorem for3_loop : ∀ (l : List Int) (v : walk_ast.V),
    forEach walk_ast.for3 l v = .next { v with c20_ := v.c20_ ++ l.map (fun n => (some n, (-1 : Int))), n := l.getLast?.getD v.n } := by
  intro l
  induction l with
  | nil => intro v; simp [forEach]
  | cons a l ih =>
    intro v
    simp only [forEach, walk_ast.for3]
    rw [ih]
    simp [List.getLast?_cons]

/-- the fields of the loop state that matter outside one iteration are unchanged -/
def Same (v v' : walk_ast.V) : Prop :=
  v'.nodes = v.nodes ∧ v'.typee = v.typee ∧ v'.next_id = v.next_id ∧ v'.col_id = v.col_id ∧ v'.col_type = v.col_type ∧
  v'.col_x = v.col_x ∧ v'.col_y = v.col_y ∧ v'.col_z = v.col_z ∧ v'.col_r = v.col_r ∧ v'.col_pid = v.col_pid

theorem step_root (v : walk_ast.V) (rest : Stk) (k : Nat) (pid : Int) (o : ASTNode)
    (hs : v.stack = rest ++ [(some (k : Int), pid)]) (ho : v.nodes[k]? = some o) (ht : o.type = 1) :
    ∃ v', walk_ast.while4_body v = .next v' ∧ v'.stack = rest ++ o.children.reverse.map (fun n => (some n, (-1 : Int))) ∧ Same v v' := by
  simp [walk_ast.while4_body, Py.seq, Py.bind, Py.bindS, hs, pop_append, idx_of_get _ _ _ ho, ht, Py.skip, for1_loop, for2_loop, for3_loop, Same]

theorem idx_last {α : Type} (l : List α) (x : α) : Py.idx (l ++ [x]) (-1 : Int) = some x := by
  simp [Py.idx, Py.normIdx]

theorem step_other (v : walk_ast.V) (rest : Stk) (k : Nat) (pid : Int) (o : ASTNode)
    (hs : v.stack = rest ++ [(some (k : Int), pid)]) (ho : v.nodes[k]? = some o) (h1 : o.type ≠ 1) (h2 : o.type ≠ 2) (h3 : o.type ≠ 3) :
    ∃ v', walk_ast.while4_body v = .next v' ∧ v'.stack = rest ∧ Same v v' := by
  simp [walk_ast.while4_body, Py.seq, Py.bind, Py.bindS, hs, pop_append, idx_of_get _ _ _ ho, h1, h2, h3, Py.skip, Same]

theorem step_tree (v : walk_ast.V) (rest : Stk) (k : Nat) (pid : Int) (o : ASTNode) (c : Int)
    (hs : v.stack = rest ++ [(some (k : Int), pid)]) (ho : v.nodes[k]? = some o) (ht : o.type = 2) (hl : labelCode o.value = some c) :
    ∃ v', walk_ast.while4_body v = .next v' ∧
      v'.stack = rest ++ [(none, (-1 : Int))] ++ o.children.reverse.map (fun n => (some n, (-1 : Int))) ∧
      v'.nodes = v.nodes ∧ v'.typee = v.typee ++ [c] ∧ v'.next_id = v.next_id ∧ v'.col_id = v.col_id ∧ v'.col_type = v.col_type ∧
      v'.col_x = v.col_x ∧ v'.col_y = v.col_y ∧ v'.col_z = v.col_z ∧ v'.col_r = v.col_r ∧ v'.col_pid = v.col_pid := by
  unfold labelCode at hl
  by_cases ha : Val.eqStr o.value "AXON" = true
  · simp only [ha, if_true, Option.some.injEq] at hl
    simp [walk_ast.while4_body, Py.seq, Py.bind, Py.bindS, hs, pop_append, idx_of_get _ _ _ ho, ht, Py.skip, for1_loop, for2_loop, for3_loop, ha, hl]
  · by_cases hd : Val.eqStr o.value "DENDRITE" = true
    · simp [ha, hd] at hl
      simp [walk_ast.while4_body, Py.seq, Py.bind, Py.bindS, hs, pop_append, idx_of_get _ _ _ ho, ht, Py.skip, for1_loop, for2_loop, for3_loop, ha, hd, hl]
    · simp [ha, hd] at hl

theorem step_node (v : walk_ast.V) (rest : Stk) (k : Nat) (pid : Int) (o : ASTNode) (tys : List Int) (ty : Int)
    (hs : v.stack = rest ++ [(some (k : Int), pid)]) (ho : v.nodes[k]? = some o) (ht : o.type = 3)
    (hu : (Val.unpack o.value 4).isSome) (hty : v.typee = tys ++ [ty]) :
    ∃ v', walk_ast.while4_body v = .next v' ∧
      v'.stack = rest ++ o.children.reverse.map (fun n => (some n, v.next_id)) ∧
      v'.nodes = v.nodes ∧ v'.typee = v.typee ∧ v'.next_id = v.next_id + 1 ∧ v'.col_id = v.col_id ++ [v.next_id] ∧
      v'.col_type = v.col_type ++ [ty] ∧ v'.col_x = v.col_x ++ [coord o.value 0] ∧ v'.col_y = v.col_y ++ [coord o.value 1] ∧
      v'.col_z = v.col_z ++ [coord o.value 2] ∧ v'.col_r = v.col_r ++ [coord o.value 3] ∧ v'.col_pid = v.col_pid ++ [pid] := by
  obtain ⟨l, hl⟩ := Option.isSome_iff_exists.mp hu
  simp [walk_ast.while4_body, Py.seq, Py.bind, Py.bindS, hs, pop_append, idx_of_get _ _ _ ho, ht, Py.skip, for1_loop, for2_loop, for3_loop, hl, hty, idx_last,
    coord]

theorem step_leave (v : walk_ast.V) (rest : Stk) (pid : Int) (tys : List Int) (ty : Int)
    (hs : v.stack = rest ++ [(none, pid)]) (hty : v.typee = tys ++ [ty]) :
    ∃ v', walk_ast.while4_body v = .cont v' ∧ v'.stack = rest ∧
      v'.nodes = v.nodes ∧ v'.typee = tys ∧ v'.next_id = v.next_id ∧ v'.col_id = v.col_id ∧ v'.col_type = v.col_type ∧
      v'.col_x = v.col_x ∧ v'.col_y = v.col_y ∧ v'.col_z = v.col_z ∧ v'.col_r = v.col_r ∧ v'.col_pid = v.col_pid := by
  simp [walk_ast.while4_body, Py.seq, Py.bind, Py.bindS, hs, pop_append, hty, Py.skip]

/-- the loop of `walk_ast` -/
abbrev W (f : Nat) (v : walk_ast.V) : Res walk_ast.V Unit := whileF walk_ast.while4_cond walk_ast.while4_body f v

theorem W_next (f : Nat) (v v' : walk_ast.V) (x : Option Int × Int) (rest : Stk) (hs : v.stack = rest ++ [x])
    (hb : walk_ast.while4_body v = .next v') : W (f + 1) v = W f v' := by
  simp [W, whileF, walk_ast.while4_cond, hs, hb, show ¬ ((rest.length : Int) + 1 = 0) by omega]

theorem W_cont (f : Nat) (v v' : walk_ast.V) (x : Option Int × Int) (rest : Stk) (hs : v.stack = rest ++ [x])
    (hb : walk_ast.while4_body v = .cont v') : W (f + 1) v = W f v' := by
  simp [W, whileF, walk_ast.while4_cond, hs, hb, show ¬ ((rest.length : Int) + 1 = 0) by omega]

/-- the table grew by the rows `rs` (ids consecutive from `next_id`), nothing else that matters changed -/
def Ext (v v' : walk_ast.V) (rs : List Row) : Prop :=
  v'.nodes = v.nodes ∧ v'.typee = v.typee ∧ v'.next_id = v.next_id + rs.length ∧ v'.col_id = v.col_id ++ rs.map (·.id) ∧
  v'.col_type = v.col_type ++ rs.map (·.type) ∧ v'.col_x = v.col_x ++ rs.map (·.x) ∧ v'.col_y = v.col_y ++ rs.map (·.y) ∧
  v'.col_z = v.col_z ++ rs.map (·.z) ∧ v'.col_r = v.col_r ++ rs.map (·.r) ∧ v'.col_pid = v.col_pid ++ rs.map (·.pid)

theorem Ext.of_same {v v' : walk_ast.V} (h : Same v v') : Ext v v' [] := by
  obtain ⟨a, b, c, d, e, f, g, h, i, j⟩ := h
  simp [Ext, *]

theorem Ext.trans {v v1 v2 : walk_ast.V} {r1 r2 : List Row} (h1 : Ext v v1 r1) (h2 : Ext v1 v2 r2) : Ext v v2 (r1 ++ r2) := by
  obtain ⟨a, b, c, d, e, f, g, h, i, j⟩ := h1
  obtain ⟨a', b', c', d', e', f', g', h', i', j'⟩ := h2
  refine ⟨by rw [a', a], by rw [b', b], ?_, ?_, ?_, ?_, ?_, ?_, ?_, ?_⟩
  · rw [c', c]; simp; omega
  all_goals simp [*]

theorem kids_stack (kids : List AT) (p : Int) :
    (kids.map (fun k => (k.ref : Int))).reverse.map (fun n => (some n, p)) = kids.reverse.map (fun t => ((some (t.ref : Int), p) : Option Int × Int)) := by
  simp [List.map_reverse]

mutual
theorem visit : ∀ (t : AT) (v : walk_ast.V) (rest : Stk) (pid ty : Int) (tys : List Int) (next f : Nat),
    Agrees v.nodes t → v.stack = rest ++ [(some (t.ref : Int), pid)] → v.typee = tys ++ [ty] → v.next_id = (next : Int) →
    ∃ v', W (cost v.nodes t + f) v = W f v' ∧ v'.stack = rest ∧ Ext v v' (rows v.nodes t pid ty next)
  | .mk r kids, v, rest, pid, ty, tys, next, f, hA, hs, hty, hn => by
    unfold Agrees at hA
    obtain ⟨o, ho, hch, hlab, hval, hK⟩ := hA
    simp only [AT.ref] at hs
    by_cases h1 : o.type = 1
    · obtain ⟨v1, hb, hs1, hsame⟩ := step_root v rest r pid o hs ho h1
      have hn1 : v1.nodes = v.nodes := hsame.1
      rw [hch, kids_stack] at hs1
      obtain ⟨v2, hw, hs2, hext⟩ := visitL kids v1 rest (-1) ty tys next f (hn1 ▸ hK) hs1 (by rw [hsame.2.1, hty]) (by rw [hsame.2.2.1, hn])
      refine ⟨v2, ?_, hs2, ?_⟩
      · simp only [cost, ho]; rw [if_pos h1]
        rw [show 1 + costL v.nodes kids + f = (costL v.nodes kids + f) + 1 by omega, W_next _ _ _ _ _ hs hb, ← hn1]
        exact hw
      · have := (Ext.of_same hsame).trans hext
        simp only [rows, ho]; rw [if_pos h1]
        simpa [hn1] using this
    · by_cases h2 : o.type = 2
      · obtain ⟨c, hc⟩ := Option.isSome_iff_exists.mp (hlab h2)
        obtain ⟨v1, hb, hs1, hn1, hty1, hnx1, e1, e2, e3, e4, e5, e6, e7⟩ := step_tree v rest r pid o c hs ho h2 hc
        rw [hch, kids_stack] at hs1
        obtain ⟨v2, hw, hs2, hext⟩ := visitL kids v1 (rest ++ [(none, (-1 : Int))]) (-1) c (tys ++ [ty]) next (f + 1) (hn1 ▸ hK) hs1
          (by rw [hty1, hty]) (by rw [hnx1, hn])
        obtain ⟨x1, x2, x3, x4, x5, x6, x7, x8, x9, x10⟩ := hext
        obtain ⟨v3, hb3, hs3, y1, y2, y3, y4, y5, y6, y7, y8, y9, y10⟩ := step_leave v2 rest (-1) (tys ++ [ty]) c hs2 (by rw [x2, hty1, hty])
        refine ⟨v3, ?_, hs3, ?_⟩
        · simp only [cost, ho]; rw [if_neg h1, if_pos h2]
          rw [show 2 + costL v.nodes kids + f = (costL v.nodes kids + (f + 1)) + 1 by omega, W_next _ _ _ _ _ hs hb, ← hn1, hw,
            W_cont _ _ _ _ _ hs2 hb3]
        · simp only [rows, ho]; rw [if_neg h1, if_pos h2]; simp only [hc, Option.getD_some]
          rw [hn1] at x3 x4 x5 x6 x7 x8 x9 x10
          refine ⟨by rw [y1, x1, hn1], by rw [y2, hty], ?_, ?_, ?_, ?_, ?_, ?_, ?_, ?_⟩
          · rw [y3, x3, hnx1]
          · rw [y4, x4, e1]
          · rw [y5, x5, e2]
          · rw [y6, x6, e3]
          · rw [y7, x7, e4]
          · rw [y8, x8, e5]
          · rw [y9, x9, e6]
          · rw [y10, x10, e7]
      · by_cases h3 : o.type = 3
        · obtain ⟨v1, hb, hs1, hn1, hty1, hnx1, e1, e2, e3, e4, e5, e6, e7⟩ := step_node v rest r pid o tys ty hs ho h3 (hval h3) hty
          rw [hch, kids_stack, hn] at hs1
          obtain ⟨v2, hw, hs2, hext⟩ := visitL kids v1 rest (next : Int) ty tys (next + 1) f (hn1 ▸ hK) hs1 (by rw [hty1, hty])
            (by rw [hnx1, hn]; push_cast; rfl)
          obtain ⟨x1, x2, x3, x4, x5, x6, x7, x8, x9, x10⟩ := hext
          refine ⟨v2, ?_, hs2, ?_⟩
          · simp only [cost, ho]; rw [if_neg h1, if_neg h2, if_pos h3]
            rw [show 1 + costL v.nodes kids + f = (costL v.nodes kids + f) + 1 by omega, W_next _ _ _ _ _ hs hb, ← hn1]
            exact hw
          · simp only [rows, ho]; rw [if_neg h1, if_neg h2, if_pos h3]
            rw [hn1] at x4 x5 x6 x7 x8 x9 x10
            refine ⟨by rw [x1, hn1], by rw [x2, hty1], ?_, ?_, ?_, ?_, ?_, ?_, ?_, ?_⟩
            · rw [x3, hnx1, hn1]; simp; omega
            · rw [x4, e1, hn]; simp
            · rw [x5, e2]; simp
            · rw [x6, e3]; simp
            · rw [x7, e4]; simp
            · rw [x8, e5]; simp
            · rw [x9, e6]; simp
            · rw [x10, e7]; simp
        · obtain ⟨v1, hb, hs1, hsame⟩ := step_other v rest r pid o hs ho h1 h2 h3
          refine ⟨v1, ?_, hs1, ?_⟩
          · simp only [cost, ho]; rw [if_neg h1, if_neg h2, if_neg h3]
            rw [show 1 + f = f + 1 by omega, W_next _ _ _ _ _ hs hb]
          · simp only [rows, ho]; rw [if_neg h1, if_neg h2, if_neg h3]
            exact Ext.of_same hsame
theorem visitL : ∀ (ts : List AT) (v : walk_ast.V) (rest : Stk) (pid ty : Int) (tys : List Int) (next f : Nat),
    AgreesL v.nodes ts → v.stack = rest ++ ts.reverse.map (fun t => ((some (t.ref : Int), pid) : Option Int × Int)) →
    v.typee = tys ++ [ty] → v.next_id = (next : Int) →
    ∃ v', W (costL v.nodes ts + f) v = W f v' ∧ v'.stack = rest ∧ Ext v v' (rowsL v.nodes ts pid ty next)
  | [], v, rest, pid, ty, tys, next, f, _, hs, _, _ => by
    refine ⟨v, by simp [costL], by simpa using hs, ?_⟩
    simp [rowsL, Ext]
  | t :: ts, v, rest, pid, ty, tys, next, f, hA, hs, hty, hn => by
    unfold AgreesL at hA
    have hs' : v.stack = (rest ++ ts.reverse.map (fun t => ((some (t.ref : Int), pid) : Option Int × Int))) ++ [(some (t.ref : Int), pid)] := by
      rw [hs]; simp
    obtain ⟨v1, hw1, hs1, hext1⟩ := visit t v _ pid ty tys next (costL v.nodes ts + f) hA.1 hs' hty hn
    have hn1 : v1.nodes = v.nodes := hext1.1
    obtain ⟨v2, hw2, hs2, hext2⟩ := visitL ts v1 rest pid ty tys (next + (rows v.nodes t pid ty next).length) f (hn1 ▸ hA.2) hs1
      (by rw [hext1.2.1, hty]) (by rw [hext1.2.2.1, hn]; push_cast; rfl)
    refine ⟨v2, ?_, hs2, ?_⟩
    · simp only [costL]
      rw [Nat.add_assoc, hw1, ← hn1, hw2]
    · rw [hn1] at hext2
      simpa [rowsL] using hext1.trans hext2
end

theorem W_done (f : Nat) (v : walk_ast.V) (hs : v.stack = []) : W (f + 1) v = .next v := by
  simp [W, whileF, walk_ast.while4_cond, hs]

/-- the columns of a list of rows -/
def colsOf (rs : List Row) : List Int × List Int × List Atom × List Atom × List Atom × List Atom × List Int :=
  (rs.map (·.id), rs.map (·.type), rs.map (·.x), rs.map (·.y), rs.map (·.z), rs.map (·.r), rs.map (·.pid))

/-- **`walk_ast` as translated** (the closure over `next_id`, `typee`, `ndata`): on every heap that unfolds to a tree `t` from `root`,
with `cost + 1` units of fuel or more, it appends exactly `rows` to the seven columns, advances `next_id` by their number and leaves
the type stack as it was. -/
theorem walk_ast_refines (nodes : List ASTNode) (t : AT) (hA : Agrees nodes t) (fuel : Nat) (hf : cost nodes t + 1 ≤ fuel)
    (next : Nat) (tys : List Int) (ty : Int) (ci ct : List Int) (cx cy cz cr : List Atom) (cp : List Int) :
    let rs := rows nodes t (-1) ty next
    walk_ast fuel (nodes, (next : Int), tys ++ [ty], ci, ct, cx, cy, cz, cr, cp) (t.ref : Int) =
      some ((nodes, (next : Int) + rs.length, tys ++ [ty], ci ++ rs.map (·.id), ct ++ rs.map (·.type), cx ++ rs.map (·.x),
        cy ++ rs.map (·.y), cz ++ rs.map (·.z), cr ++ rs.map (·.r), cp ++ rs.map (·.pid)), ()) := by
  intro rs
  obtain ⟨f, rfl⟩ : ∃ f, fuel = cost nodes t + (f + 1) := ⟨fuel - cost nodes t - 1, by omega⟩
  let v0 : walk_ast.V := { (default : walk_ast.V) with root := (t.ref : Int), nodes := nodes, next_id := (next : Int), typee := tys ++ [ty], col_id := ci, col_type := ct, col_x := cx, col_y := cy, col_z := cz, col_r := cr, col_pid := cp, stack := [(some (t.ref : Int), (-1 : Int))] }
  obtain ⟨v', hw, hs, hn, hty, hnx, e1, e2, e3, e4, e5, e6, e7⟩ := visit t v0 [] (-1) ty tys next (f + 1) hA (by simp [v0]) rfl rfl
  have hw' : whileF walk_ast.while4_cond walk_ast.while4_body (cost nodes t + (f + 1)) v0 = .next v' := by
    have := hw
    rw [W_done f v' hs] at this
    exact this
  simp only [walk_ast, walk_ast.body, Py.seq]
  show (Py.finish default (whileF walk_ast.while4_cond walk_ast.while4_body (cost nodes t + (f + 1)) v0)).map _ = _
  rw [hw']
  simp only [Py.finish, Option.map_some, hn, hty, hnx, e1, e2, e3, e4, e5, e6, e7]
  rfl

/-- **`NeurolucidaAscToSwc.from_ast` as translated**: on every AST heap that unfolds to a tree from `root`, with `cost + 1` units of fuel
or more, the result is the number of rows and the seven columns of `rows` (ids from 0, `types.undefined` outside every TREE). -/
theorem from_ast_refines (nodes : List ASTNode) (t : AT) (hA : Agrees nodes t) (fuel : Nat) (hf : cost nodes t + 1 ≤ fuel) :
    let rs := rows nodes t (-1) Gen.Consts.type_undefined 0
    from_ast fuel nodes (t.ref : Int) = some ((rs.length : Int), colsOf rs) := by
  intro rs
  have h := walk_ast_refines nodes t hA fuel hf 0 [] Gen.Consts.type_undefined [] [] [] [] [] [] []
  simp only [List.nil_append, Int.natCast_zero, Int.zero_add] at h
  simp only [from_ast, from_ast.body, Py.seq, Py.bind]
  have hd : ((default : from_ast.V).col_id, (default : from_ast.V).col_type, (default : from_ast.V).col_x, (default : from_ast.V).col_y,
      (default : from_ast.V).col_z, (default : from_ast.V).col_r, (default : from_ast.V).col_pid) = ([], [], [], [], [], [], []) := rfl
  simp only [Prod.mk.injEq] at hd
  obtain ⟨d1, d2, d3, d4, d5, d6, d7⟩ := hd
  simp only [d1, d2, d3, d4, d5, d6, d7, h]
  simp [Py.finish, colsOf, rs]

mutual
/-- number of AST nodes of the unfolding -/
def AT.size : AT → Nat
  | .mk _ kids => 1 + sizeL kids
def sizeL : List AT → Nat
  | [] => 0
  | t :: ts => t.size + sizeL ts
end

mutual
/-- number of TREE nodes of the unfolding -/
def trees (nodes : List ASTNode) : AT → Nat
  | .mk r kids => (match nodes[r]? with | some o => if o.type = 2 then 1 else 0 | none => 0) + treesL nodes kids
def treesL (nodes : List ASTNode) : List AT → Nat
  | [] => 0
  | t :: ts => trees nodes t + treesL nodes ts
end

mutual
/-- the fuel needed is at most (number of AST nodes) + (number of TREE nodes) -/
theorem cost_le (nodes : List ASTNode) : ∀ t : AT, cost nodes t ≤ t.size + trees nodes t
  | .mk r kids => by
    have := costL_le nodes kids
    simp only [cost, AT.size, trees]
    cases nodes[r]? with
    | none => simp; omega
    | some o =>
      simp only
      by_cases h1 : o.type = 1
      · have h2 : o.type ≠ 2 := by omega
        rw [if_pos h1, if_neg h2]; omega
      · by_cases h2 : o.type = 2
        · rw [if_neg h1, if_pos h2, if_pos h2]; omega
        · by_cases h3 : o.type = 3
          · rw [if_neg h1, if_neg h2, if_pos h3, if_neg h2]; omega
          · rw [if_neg h1, if_neg h2, if_neg h3, if_neg h2]; omega
theorem costL_le (nodes : List ASTNode) : ∀ ts : List AT, costL nodes ts ≤ sizeL ts + treesL nodes ts
  | [] => by simp [costL]
  | t :: ts => by
    have := cost_le nodes t
    have := costL_le nodes ts
    simp only [costL, sizeL, treesL]; omega
end

mutual
/-- ids are consecutive: the k-th row produced has id `next + k` -/
theorem rows_ids (nodes : List ASTNode) : ∀ (t : AT) (pid ty : Int) (next : Nat),
    (rows nodes t pid ty next).map (·.id) = (List.range' next (rows nodes t pid ty next).length).map (fun (k : Nat) => (k : Int))
  | .mk r kids, pid, ty, next => by
    simp only [rows]
    cases nodes[r]? with
    | none => simp
    | some o =>
      simp only
      by_cases h1 : o.type = 1
      · rw [if_pos h1]; exact rowsL_ids nodes kids _ _ _
      · by_cases h2 : o.type = 2
        · rw [if_neg h1, if_pos h2]; exact rowsL_ids nodes kids _ _ _
        · by_cases h3 : o.type = 3
          · rw [if_neg h1, if_neg h2, if_pos h3]
            simp [List.range'_succ, rowsL_ids nodes kids (next : Int) ty (next + 1)]
          · rw [if_neg h1, if_neg h2, if_neg h3]; simp
theorem rowsL_ids (nodes : List ASTNode) : ∀ (ts : List AT) (pid ty : Int) (next : Nat),
    (rowsL nodes ts pid ty next).map (·.id) = (List.range' next (rowsL nodes ts pid ty next).length).map (fun (k : Nat) => (k : Int))
  | [], _, _, _ => by simp [rowsL]
  | t :: ts, pid, ty, next => by
    simp only [rowsL, List.map_append, List.length_append]
    rw [rows_ids nodes t, rowsL_ids nodes ts, ← List.map_append, List.range'_append_1]
end

/-- non-vacuity (kernel-evaluated): the heap of `( (Axon) (p0) ( (p1) | (p2) ) )` with a COLOR marker — ROOT 0, TREE 1, NODE 2 under the
TREE, COLOR 3 and NODEs 4, 5 under NODE 2 — gives three rows, typed axon, parents −1, 0, 0 -/
def exHeap : List ASTNode :=
  [⟨1, .at .none, [1], none⟩, ⟨2, .at (.str "AXON"), [2], some 0⟩, ⟨3, .tup [.flt 0, .flt 1, .flt 2, .flt 3], [3, 4, 5], some 1⟩,
   ⟨4, .tup [.str "Red"], [], some 2⟩, ⟨3, .tup [.flt 4, .flt 5, .flt 6, .flt 7], [], some 2⟩, ⟨3, .tup [.flt 8, .flt 9, .flt 10, .flt 11], [], some 2⟩]
def exTree : AT := .mk 0 [.mk 1 [.mk 2 [.mk 3 [], .mk 4 [], .mk 5 []]]]
example : (from_ast 8 exHeap 0).map (fun r => (r.1, r.2.1, r.2.2.1, r.2.2.2.2.2.2.2)) = some (3, [0, 1, 2], [2, 2, 2], [-1, 0, 0]) := by
  decide +kernel
example : (from_ast 8 exHeap 0).map (fun r => (r.2.2.2.1, r.2.2.2.2.1, r.2.2.2.2.2.1, r.2.2.2.2.2.2.1)) =
    some ([.flt 0, .flt 4, .flt 8], [.flt 1, .flt 5, .flt 9], [.flt 2, .flt 6, .flt 10], [.flt 3, .flt 7, .flt 11]) := by decide +kernel
example : (from_ast 7 exHeap 0).isNone := by decide +kernel
example : cost exHeap exTree + 1 = 8 ∧ (rows exHeap exTree (-1) 0 0).map (·.pid) = [-1, 0, 0] := by decide +kernel
example : Agrees exHeap exTree := by
  simp [Agrees, AgreesL, exHeap, exTree, AT.ref, labelCode, Val.eqStr, Val.unpack, Gen.Consts.type_axon]

end RefineAsc
