import SwcVerif.Gen.AlgoNodeBranch
import SwcVerif.Refine.Node
import SwcVerif.Model.Branches
import SwcVerif.Proofs.Represent
/-! Refinement for C08's node-level methods, generated from `swcgeom/core/tree.py` on every run (`Gen/AlgoNodeBranch.lean`):
`Tree.get_tips` and `Tree.Node.branch` (on the node methods of `Gen/AlgoNode.lean`, specified in `Refine/Node.lean`). -/
namespace RefineNodeBranch
open Gen.Algo Py Sub Branches

/-! ### `Tree.get_tips` -/

theorem tips_loop : ∀ (xs : List Int) (v : get_tips.V),
    ∃ ix, forEach get_tips.for1 xs v = .next { v with c1_ := v.c1_ ++ xs, i := ix } := by
  intro xs
  induction xs with
  | nil => intro v; exact ⟨v.i, by simp [forEach]⟩
  | cons x xs ih =>
    intro v
    obtain ⟨ix, e⟩ := ih { v with i := x, c1_ := v.c1_ ++ [x] }
    refine ⟨ix, ?_⟩
    simp only [forEach, get_tips.for1]
    rw [e]
    simp

theorem distinct_iff : ∀ l : List Int, Py.distinct l = true ↔ l.Nodup := by
  intro l
  induction l with
  | nil => simp [Py.distinct]
  | cons x xs ih => simp [Py.distinct, ih]

/-- **`Tree.get_tips` as translated** never raises and returns `np.setdiff1d(ids, pids, assume_unique=True)` = the model `getTips`
(the ids that never occur in the parent column, in table order) — for any two columns with distinct ids (what numpy returns when
the FIRST array repeats a value depends on the algorithm it picks: no claim is made there, `Py.setdiff1dUnique`) -/
theorem getTips_refines (ids pids : List Int) (hd : ids.Nodup) : get_tips ids pids = some (getTips ids pids) := by
  obtain ⟨ix, e⟩ := tips_loop (ids.filter fun x => !pids.contains x)
    { (default : get_tips.V) with ids := ids, pids := pids, tip_ids := ids.filter fun x => !pids.contains x, c1_ := [] }
  simp only [get_tips, get_tips.body, Py.seq, Py.bind, Py.bindS, Py.setdiff1dUnique, (distinct_iff ids).2 hd, if_true]
  rw [e]
  simp [Py.finish, getTips]

/-! ### `Tree.Node.branch`

The method walks UP from the node while the last node is not a furcation and has a parent, reverses, then walks DOWN through first
children while the last node is neither a furcation nor a tip.  `upC` / `downC` are the two chains as recursions with fuel. -/

/-- the chain the first loop collects (bottom-up): stop at a furcation or at a node without parent -/
def upC (K : Int → List Int) (pids : List Int) : Nat → Int → List Int
  | 0, c => [c]
  | f+1, c => if 2 ≤ (K c).length then [c] else
      if pids.getD c.toNat (-1) = -1 then [c] else c :: upC K pids f (pids.getD c.toNat (-1))

/-- the nodes the second loop appends below `c`: the only child, as long as there is exactly one -/
def downC (K : Int → List Int) : Nat → Int → List Int
  | 0, _ => []
  | f+1, c => match K c with
    | [j] => j :: downC K f j
    | _ => []

/-- children lists of a `Tree` object with parent column `pids` -/
abbrev KK (pids : List Int) : Int → List Int := tableKids (rangeI pids.length) pids

/-- **model of `Tree.Node.branch`** on a `Tree` object with parent column `pids` -/
def nodeBranch (pids : List Int) (F : Nat) (k : Int) : List Int :=
  (upC (KK pids) pids F k).reverse ++ downC (KK pids) F k

theorem idx_last (pre : List Int) (c : Int) : Py.idx (pre ++ [c]) (-1) = some c := by
  simp [Py.idx, Py.normIdx]

theorem node_parent_getD (pids : List Int) (c : Int) (h0 : 0 ≤ c) (hc : c < pids.length) :
    node_parent pids c = some (if pids.getD c.toNat (-1) = -1 then none else some (pids.getD c.toNat (-1))) := by
  rw [RefineNode.node_parent_spec pids c h0 hc, C06.getD_eq_getElem _ _ (by omega)]

theorem body1_eq (pids : List Int) (v : node_branch.V) (pre : List Int) (c : Int) (hids : v.ids = rangeI pids.length)
    (hp : v.pids = pids) (hns : v.ns = pre ++ [c]) (h0 : 0 ≤ c) (hc : c < pids.length) :
    node_branch.while1_body v =
      if 2 ≤ (KK pids c).length then .brk v
      else if pids.getD c.toNat (-1) = -1 then .brk { v with p := none }
      else .next { v with p := some (pids.getD c.toNat (-1)), ns := pre ++ [c] ++ [pids.getD c.toNat (-1)] } := by
  obtain ⟨ids_, pids_, self_, ns_, p_, n_, c_⟩ := v
  simp only at hids hp hns
  have hp := hp.symm
  subst hids hp hns
  simp only [node_branch.while1_body, Py.seq, Py.bind, idx_last,
    RefineNode.node_is_furcation_spec pids.length pids (Nat.le_refl _) c h0 hc, node_parent_getD pids c h0 hc]
  by_cases hF : 2 ≤ (KK pids c).length
  · simp [hF]
  · by_cases hP : pids.getD c.toNat (-1) = -1
    · rw [List.getD_eq_getElem?_getD] at hP
      simp [hF, hP, Py.skip, idx_last, node_parent_getD pids c h0 hc]
    · rw [List.getD_eq_getElem?_getD] at hP
      simp [hF, hP, Py.skip, idx_last, node_parent_getD pids c h0 hc]

theorem up_loop {pids : List Int} (hw : C07.WF pids) :
    ∀ (f : Nat) (c : Int) (pre : List Int) (v : node_branch.V), v.ids = rangeI pids.length → v.pids = pids → v.ns = pre ++ [c] →
      0 ≤ c → c < pids.length → Represent.D pids c ≤ f →
      ∃ p', whileF node_branch.while1_cond node_branch.while1_body f v =
        .next { v with ns := pre ++ upC (KK pids) pids f c, p := p' } := by
  intro f
  induction f with
  | zero => intro c pre v _ _ _ _ _ hD; have := Represent.D_pos pids c; omega
  | succ f ih =>
    intro c pre v hids hp hns h0 hc hD
    have hb := body1_eq pids v pre c hids hp hns h0 hc
    simp only [whileF, node_branch.while1_cond]
    by_cases hF : 2 ≤ (KK pids c).length
    · rw [hb]; simp only [hF, if_true, upC]
      exact ⟨v.p, by rw [← hns]⟩
    · by_cases hP : pids.getD c.toNat (-1) = -1
      · rw [hb]; simp only [hF, hP, if_true, if_false, upC]
        exact ⟨none, by rw [← hns]⟩
      · have hpos : 0 < c := by
          rcases Int.lt_or_eq_of_le h0 with h | h
          · exact h
          · exfalso; apply hP; rw [← h]; exact hw.par_root
        have hv := hw.par_valid' c hpos hc
        have hD' : Represent.D pids (pids.getD c.toNat (-1)) ≤ f := by
          have := hw.path_cons c hpos hc
          unfold Represent.D at hD ⊢
          rw [this, List.length_cons] at hD
          omega
        obtain ⟨p', e⟩ := ih (pids.getD c.toNat (-1)) (pre ++ [c])
          { v with p := some (pids.getD c.toNat (-1)), ns := pre ++ [c] ++ [pids.getD c.toNat (-1)] } hids hp rfl hv.1 hv.2 hD'
        rw [hb]; simp only [hF, hP, if_false, upC]
        rw [e]
        exact ⟨p', by simp⟩

/-! the second loop -/

theorem cond2_eq (pids : List Int) (v : node_branch.V) (pre : List Int) (c : Int) (hids : v.ids = rangeI pids.length)
    (hp : v.pids = pids) (hns : v.ns = pre ++ [c]) (h0 : 0 ≤ c) (hc : c < pids.length) :
    node_branch.while2_cond v = some (!(decide (2 ≤ (KK pids c).length) || decide ((KK pids c).length = 0))) := by
  obtain ⟨ids_, pids_, self_, ns_, p_, n_, c_⟩ := v
  simp only at hids hp hns
  have hp := hp.symm
  subst hids hp hns
  simp only [node_branch.while2_cond, idx_last, Option.bind_some,
    RefineNode.node_is_furcation_spec pids.length pids (Nat.le_refl _) c h0 hc,
    RefineNode.node_is_tip_spec pids.length pids (Nat.le_refl _) c h0 hc]
  by_cases hF : 2 ≤ (KK pids c).length <;> simp [hF]

theorem body2_eq (pids : List Int) (v : node_branch.V) (pre : List Int) (c j : Int) (hids : v.ids = rangeI pids.length)
    (hp : v.pids = pids) (hns : v.ns = pre ++ [c]) (h0 : 0 ≤ c) (hc : c < pids.length) (hK : KK pids c = [j]) :
    node_branch.while2_body v = .next { v with ns := pre ++ [c] ++ [j] } := by
  obtain ⟨ids_, pids_, self_, ns_, p_, n_, c_⟩ := v
  simp only at hids hp hns
  have hp := hp.symm
  subst hids hp hns
  simp only [node_branch.while2_body, Py.bind, idx_last, RefineNode.node_children_spec pids.length pids c h0 hc]
  rw [show tableKids (rangeI pids.length) pids c = [j] from hK]
  simp [Py.idx, Py.normIdx]

theorem down_loop {pids : List Int} (hw : C07.WF pids) :
    ∀ (f : Nat) (c : Int) (pre : List Int) (v : node_branch.V), v.ids = rangeI pids.length → v.pids = pids → v.ns = pre ++ [c] →
      0 ≤ c → c < pids.length → pids.length - Represent.D pids c < f →
      whileF node_branch.while2_cond node_branch.while2_body f v =
        .next { v with ns := pre ++ [c] ++ downC (KK pids) f c } := by
  intro f
  induction f with
  | zero => intro c pre v _ _ _ _ _ hD; omega
  | succ f ih =>
    intro c pre v hids hp hns h0 hc hD
    have hcnd := cond2_eq pids v pre c hids hp hns h0 hc
    simp only [whileF, hcnd]
    match hK : KK pids c with
    | [] => simp [downC, hK, ← hns]
    | [j] =>
      have hj : j ∈ tableKids (rangeI pids.length) pids c := by rw [show tableKids (rangeI pids.length) pids c = [j] from hK]; simp
      obtain ⟨hj0, hjl, _, _⟩ := Represent.kid_facts hw c j h0 hj
      have hDj := Represent.kid_D hw c j h0 hj
      have e := ih j (pre ++ [c]) { v with ns := pre ++ [c] ++ [j] } hids hp rfl (by omega) hjl (by omega)
      rw [body2_eq pids v pre c j hids hp hns h0 hc hK]
      simp only [List.length_cons, List.length_nil, downC, hK]
      simp only [show ¬ (2 ≤ 0 + 1) by omega, decide_false, Bool.false_or, show ¬ (0 + 1 = 0) by omega, Bool.not_false]
      rw [e]
      simp
    | a :: b :: t => simp [downC, hK, ← hns]

/-! validity of the collected handles, then the final comprehension `[n.id for n in ns]` -/

theorem upC_valid {pids : List Int} (hw : C07.WF pids) : ∀ (f : Nat) (c : Int), 0 ≤ c → c < pids.length →
    ∀ x ∈ upC (KK pids) pids f c, 0 ≤ x ∧ x < pids.length := by
  intro f
  induction f with
  | zero => intro c h0 hc x hx; simp only [upC, List.mem_singleton] at hx; subst hx; exact ⟨h0, hc⟩
  | succ f ih =>
    intro c h0 hc x hx
    simp only [upC] at hx
    split at hx
    · simp only [List.mem_singleton] at hx; subst hx; exact ⟨h0, hc⟩
    · split at hx
      · simp only [List.mem_singleton] at hx; subst hx; exact ⟨h0, hc⟩
      · rename_i hP
        have hpos : 0 < c := by
          rcases Int.lt_or_eq_of_le h0 with h | h
          · exact h
          · exfalso; apply hP; rw [← h]; exact hw.par_root
        have hv := hw.par_valid' c hpos hc
        simp only [List.mem_cons] at hx
        rcases hx with rfl | hx
        · exact ⟨h0, hc⟩
        · exact ih _ hv.1 hv.2 x hx

theorem downC_valid {pids : List Int} (hw : C07.WF pids) : ∀ (f : Nat) (c : Int), 0 ≤ c →
    ∀ x ∈ downC (KK pids) f c, 0 ≤ x ∧ x < pids.length := by
  intro f
  induction f with
  | zero => intro c _ x hx; simp [downC] at hx
  | succ f ih =>
    intro c h0 x hx
    simp only [downC] at hx
    split at hx
    · rename_i j hK
      have hj : j ∈ tableKids (rangeI pids.length) pids c := by rw [show tableKids (rangeI pids.length) pids c = [j] from hK]; simp
      obtain ⟨hj0, hjl, _, _⟩ := Represent.kid_facts hw c j h0 hj
      simp only [List.mem_cons] at hx
      rcases hx with rfl | hx
      · exact ⟨by omega, hjl⟩
      · exact ih j (by omega) x hx
    · simp at hx

theorem ids_loop (n : Nat) : ∀ (xs : List Int) (v : node_branch.V), v.ids = rangeI n → (∀ x ∈ xs, 0 ≤ x ∧ x < n) →
    ∃ nn, forEach node_branch.for3 xs v = .next { v with c13_ := v.c13_ ++ xs, n := nn } := by
  intro xs
  induction xs with
  | nil => intro v _ _; exact ⟨v.n, by simp [forEach]⟩
  | cons x xs ih =>
    intro v hids hx
    have hx0 := hx x (by simp)
    obtain ⟨ids_, pids_, self_, ns_, p_, n_, c_⟩ := v
    simp only at hids
    subst hids
    obtain ⟨nn, e⟩ := ih ⟨rangeI n, pids_, self_, ns_, p_, x, c_ ++ [x]⟩ rfl (fun y hy => hx y (by simp [hy]))
    refine ⟨nn, ?_⟩
    simp only [forEach, node_branch.for3, Py.bind, RefineNode.idx_rangeI n x hx0.1 hx0.2]
    rw [e]
    simp

/-- **`Tree.Node.branch` as translated equals the model** on every well-formed `Tree` object (ids = positions), for every valid node
handle and every fuel `F ≥ n + 1` (fuel sufficiency included: neither loop runs out, no handle is invalid, nothing raises) -/
theorem nodeBranch_refines {pids : List Int} (hw : C07.WF pids) (k : Int) (h0 : 0 ≤ k) (hk : k < pids.length) (F : Nat)
    (hF : pids.length + 1 ≤ F) :
    node_branch F (rangeI pids.length) pids k = some (nodeBranch pids F k) := by
  have hD := Represent.D_le hw k h0 hk
  have hDp := Represent.D_pos pids k
  obtain ⟨p', e1⟩ := up_loop hw F k [] { (default : node_branch.V) with ids := rangeI pids.length, pids := pids, self := k, ns := [k] }
    rfl rfl rfl h0 hk (by omega)
  -- the chain starts with the node itself: after `reverse` the node is the last element
  have hup : ∃ t, upC (KK pids) pids F k = k :: t := by
    cases F with
    | zero => omega
    | succ F => simp only [upC]; split; exact ⟨[], rfl⟩; split; exact ⟨[], rfl⟩; exact ⟨_, rfl⟩
  obtain ⟨t, ht⟩ := hup
  have e2 := down_loop hw F k t.reverse
    { (default : node_branch.V) with ids := rangeI pids.length, pids := pids, self := k, ns := (upC (KK pids) pids F k).reverse, p := p' }
    rfl rfl (by simp [ht]) h0 hk (by omega)
  have hval : ∀ x ∈ t.reverse ++ [k] ++ downC (KK pids) F k, 0 ≤ x ∧ x < pids.length := by
    intro x hx
    simp only [List.mem_append, List.mem_reverse, List.mem_singleton] at hx
    rcases hx with (hx | rfl) | hx
    · exact upC_valid hw F k h0 hk x (by rw [ht]; simp [hx])
    · exact ⟨h0, hk⟩
    · exact downC_valid hw F k h0 x hx
  obtain ⟨nn, e3⟩ := ids_loop pids.length (t.reverse ++ [k] ++ downC (KK pids) F k)
    { (default : node_branch.V) with ids := rangeI pids.length, pids := pids, self := k, ns := t.reverse ++ [k] ++ downC (KK pids) F k, p := p', c13_ := [] } rfl hval
  simp only [node_branch, node_branch.body, Py.seq, Py.bindS] at e1 e2 e3 ⊢
  simp only [List.nil_append] at e1
  rw [e1]
  simp only []
  rw [e2]
  simp only []
  rw [e3]
  simp [Py.finish, nodeBranch, ht]

/-! ### what the model chain is -/

/-- a bottom-up chain as the first loop builds it: every node is followed by its parent (of which it is a child in the table), every
node but the last is not a furcation, and the last (the top) is a furcation or has no parent (the root) -/
inductive UpOK (K : Int → List Int) (pids : List Int) : List Int → Prop
  | top (c : Int) : (2 ≤ (K c).length ∨ pids.getD c.toNat (-1) = -1) → UpOK K pids [c]
  | step (c y : Int) (rest : List Int) : ¬ 2 ≤ (K c).length → pids.getD c.toNat (-1) = y → y ≠ -1 → c ∈ K y →
      UpOK K pids (y :: rest) → UpOK K pids (c :: y :: rest)

/-- the nodes the second loop appends below `c`: each is the ONLY child of its predecessor, and the last node of `c :: l` is a tip or a
furcation -/
inductive DownOK (K : Int → List Int) : Int → List Int → Prop
  | stop (c : Int) : ((K c).length = 0 ∨ 2 ≤ (K c).length) → DownOK K c []
  | step (c j : Int) (rest : List Int) : K c = [j] → DownOK K j rest → DownOK K c (j :: rest)

theorem upC_ok {pids : List Int} (hw : C07.WF pids) : ∀ (f : Nat) (c : Int), 0 ≤ c → c < pids.length → Represent.D pids c ≤ f →
    UpOK (KK pids) pids (upC (KK pids) pids f c) ∧ (upC (KK pids) pids f c).head? = some c := by
  intro f
  induction f with
  | zero => intro c _ _ hD; have := Represent.D_pos pids c; omega
  | succ f ih =>
    intro c h0 hc hD
    simp only [upC]
    by_cases hF : 2 ≤ (KK pids c).length
    · simp only [hF, if_true]; exact ⟨.top c (Or.inl hF), rfl⟩
    · by_cases hP : pids.getD c.toNat (-1) = -1
      · simp only [hF, hP, if_true, if_false]; exact ⟨.top c (Or.inr hP), rfl⟩
      · have hpos : 0 < c := by
          rcases Int.lt_or_eq_of_le h0 with h | h
          · exact h
          · exfalso; apply hP; rw [← h]; exact hw.par_root
        have hv := hw.par_valid' c hpos hc
        have hD' : Represent.D pids (pids.getD c.toNat (-1)) ≤ f := by
          have := hw.path_cons c hpos hc
          unfold Represent.D at hD ⊢
          rw [this, List.length_cons] at hD
          omega
        obtain ⟨h1, h2⟩ := ih _ hv.1 hv.2 hD'
        simp only [hF, hP, if_false]
        refine ⟨?_, rfl⟩
        have hmem : c ∈ KK pids (pids.getD c.toNat (-1)) := by
          rw [C06.mem_tableKids]
          exact ⟨h0, by omega, by rw [C06.getD_eq_getElem _ _ (by omega)]⟩
        cases hu : upC (KK pids) pids f (pids.getD c.toNat (-1)) with
        | nil => rw [hu] at h2; simp at h2
        | cons y rest =>
          rw [hu] at h1 h2
          simp only [List.head?_cons, Option.some.injEq] at h2
          subst h2
          exact .step c _ rest hF rfl hP hmem h1

theorem downC_ok {pids : List Int} (hw : C07.WF pids) : ∀ (f : Nat) (c : Int), 0 ≤ c → c < pids.length →
    pids.length - Represent.D pids c < f → DownOK (KK pids) c (downC (KK pids) f c) := by
  intro f
  induction f with
  | zero => intro c _ _ hD; omega
  | succ f ih =>
    intro c h0 hc hD
    simp only [downC]
    match hK : KK pids c with
    | [] => exact .stop c (Or.inl (by rw [hK]; rfl))
    | [j] =>
      have hj : j ∈ tableKids (rangeI pids.length) pids c := by rw [show tableKids (rangeI pids.length) pids c = [j] from hK]; simp
      obtain ⟨hj0, hjl, _, _⟩ := Represent.kid_facts hw c j h0 hj
      have hDj := Represent.kid_D hw c j h0 hj
      exact .step c j _ hK (ih j (by omega) hjl (by omega))
    | a :: b :: t => exact .stop c (Or.inr (by rw [hK]; simp))

/-- **shape of `Tree.Node.branch`** (model level): the node's chain up to the nearest furcation / the root, reversed, followed by the chain
of only children down to the next furcation / tip -/
theorem nodeBranch_shape {pids : List Int} (hw : C07.WF pids) (k : Int) (h0 : 0 ≤ k) (hk : k < pids.length) (F : Nat)
    (hF : pids.length + 1 ≤ F) :
    ∃ up down, nodeBranch pids F k = up.reverse ++ down ∧ up.head? = some k ∧ UpOK (KK pids) pids up ∧ DownOK (KK pids) k down := by
  have hD := Represent.D_le hw k h0 hk
  have hDp := Represent.D_pos pids k
  obtain ⟨h1, h2⟩ := upC_ok hw F k h0 hk (by omega)
  exact ⟨_, _, rfl, h2, h1, downC_ok hw F k h0 hk (by omega)⟩

/-- the quirk recorded in DESIGN.md §6: the branch of a furcation is the one-node branch -/
theorem nodeBranch_furcation (pids : List Int) (k : Int) (F : Nat) (hF : 2 ≤ (KK pids k).length) :
    nodeBranch pids (F + 1) k = [k] := by
  have h1 : upC (KK pids) pids (F + 1) k = [k] := by simp [upC, hF]
  have h2 : downC (KK pids) (F + 1) k = [] := by
    simp only [downC]
    split
    · rename_i j hj; rw [hj] at hF; simp at hF
    · rfl
  simp [nodeBranch, h1, h2]

end RefineNodeBranch
