import SwcVerif.Gen.AlgoNodeBranch
import SwcVerif.Refine.Node
import SwcVerif.Model.Branches
/-! Refinement for C08's node-level methods, generated from `swcgeom/core/tree.py` on every run (`Gen/AlgoNodeBranch.lean`):
`Tree.get_tips` and `Tree.Node.branch` (on the node methods of `Gen/AlgoNode.lean`, specified in `Refine/Node.lean`). -/
namespace RefineNodeBranch
open Gen.Algo Py Sub Branches

/-! ### `Tree.get_tips` -/

theorem tips_loop : ∀ (xs : List Int) (v : get_tips.V),
    ∃ ix, forEach get_tips.for1 xs v = .next { v with c0_ := v.c0_ ++ xs, i := ix } := by
  intro xs
  induction xs with
  | nil => intro v; exact ⟨v.i, by simp [forEach]⟩
  | cons x xs ih =>
    intro v
    obtain ⟨ix, e⟩ := ih { v with i := x, c0_ := v.c0_ ++ [x] }
    refine ⟨ix, ?_⟩
    simp only [forEach, get_tips.for1]
    rw [e]
    simp

/-- **`Tree.get_tips` as translated** never raises and returns `np.setdiff1d(ids, pids, assume_unique=True)` = the model `getTips`
(the ids that never occur in the parent column, in table order) — for ANY two columns -/
theorem getTips_refines (ids pids : List Int) : get_tips ids pids = some (getTips ids pids) := by
  obtain ⟨ix, e⟩ := tips_loop (Py.setdiff1dAU ids pids)
    { (default : get_tips.V) with ids := ids, pids := pids, tip_ids := Py.setdiff1dAU ids pids, c0_ := [] }
  simp only [get_tips, get_tips.body, Py.seq, Py.bindS]
  rw [e]
  simp [Py.finish, Py.setdiff1dAU, getTips]

end RefineNodeBranch
