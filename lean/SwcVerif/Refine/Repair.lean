import SwcVerif.Gen.AlgoRepair
import SwcVerif.Refine.Checkers
import SwcVerif.Refine.Normalizer
import SwcVerif.Proofs.DsuLink
/-! Refinement for C18 (root repair): the definitions GENERATED from `checker.py::is_single_root`,
`normalizer.py::link_roots_to_nearest_` (DataFrame columns as variables, `df[mask].iterrows()` / `next`, float arrays with `inf`,
`argmin`, the distances as a callback) and from the tail of `io.py::read_swc` (the `match` on `fix_roots`, `sort_nodes_` / `reset_index_`,
the three warnings) compute what the models `Dsu.isSingleRoot`, `Dsu.linkRootsToNearest` compute / are the composition of the translated
callees. -/
namespace RefineRepair
open Gen.Algo Dsu Py RefineCheckers

/-! ### `is_single_root` -/

theorem filter_castL (a : Nat) (t : List Nat) :
    (castL t).filter (fun b => !b == (a : Int)) = castL (t.filter (fun b => !b == a)) := by
  induction t with
  | nil => rfl
  | cons x xs ih =>
    simp only [castL, List.map_cons] at ih ⊢
    by_cases h : x = a
    · subst h; simp [ih]
    · have : ¬ ((x : Int) = (a : Int)) := fun c => h (Int.ofNat_inj.1 c)
      simp [h, this, ih]

theorem eraseDups_castL : ∀ (n : Nat) (l : List Nat), l.length ≤ n → (castL l).eraseDups = castL l.eraseDups
  | _, [], _ => by simp [castL]
  | 0, _ :: _, h => by simp at h
  | n + 1, a :: t, h => by
    have hlen : (t.filter (fun b => !b == a)).length ≤ n := by
      have := List.length_filter_le (fun b => !b == a) t
      simp at h; omega
    have e : castL (a :: t) = (a : Int) :: castL t := rfl
    rw [e, List.eraseDups_cons, filter_castL, eraseDups_castL n _ hlen, List.eraseDups_cons]
    rfl

/-- **`is_single_root` as translated equals the model** (any fuel, failures included), on every table with distinct ids -/
theorem isSingleRoot_refines (ids pids : List Int) (hnd : ids.Nodup) (hl : ids.length = pids.length) (fuel : Nat) :
    is_single_root fuel ids pids = ((dsuInit ids pids).bind (jumpLoop fuel)).map (fun l => l.eraseDups.length == 1) := by
  simp only [is_single_root, is_single_root.body, getDsu_refines ids pids hnd hl fuel]
  cases h : (dsuInit ids pids).bind (jumpLoop fuel) with
  | none => simp [Py.bind, finish]
  | some l =>
    simp only [Option.map_some, Py.bind, finish, uniqueCount, eraseDups_castL l.length l (Nat.le_refl _), castL_length]
    by_cases e : l.eraseDups.length = 1
    · simp [e]
    · have : ¬ ((l.eraseDups.length : Int) = 1) := by omega
      simp [e, this]

/-! ### `link_roots_to_nearest_` -/

/-- the callback standing for `np.linalg.norm(df[[x, y, z]] - row[[x, y, z]], axis=1)`: the distances of all `n` rows to row `i`, given by an
arbitrary function `dist2` (it does not touch the callback state) -/
def normOf {σ : Type} (n : Nat) (dist2 : Nat → Nat → Int) : σ → Int → σ × List Int :=
  fun s i => (s, (List.range n).map (fun j => dist2 i.toNat j))

theorem whereA_map3 {α β : Type} (l : List α) (c : α → Bool) (f g : α → β) :
    whereA (l.map c) (l.map f) (l.map g) = l.map (fun x => if c x then f x else g x) := by
  induction l with
  | nil => simp [whereA]
  | cons x xs ih =>
    simp only [whereA] at ih ⊢
    simp [ih]

theorem eq_range_map (l : List Nat) : l = (List.range l.length).map (fun j => l.getD j 0) := by
  apply List.ext_getElem
  · simp
  · intro i h1 h2
    simp [List.getD_eq_getElem?_getD, h1]

theorem minInf_eq (l : List (Option Int)) : minInf l = l.foldl amStep none := by
  unfold minInf
  congr 1

theorem argminInf_eq (l : List (Option Int)) (h : l ≠ []) : argminInf l = some ((argminOpt l : Nat) : Int) := by
  have : l.isEmpty = false := by cases l <;> simp_all
  rw [argminOpt_eq]
  unfold argminInf
  simp only [this, Bool.false_eq_true, if_false, minInf_eq]
  cases l.foldl amStep none <;> rfl

theorem eqMask_castL (dsu : List Nat) (lab : Nat) :
    eqMask (castL dsu) (lab : Int) = dsu.map (fun x => decide (x = lab)) := by
  simp [eqMask, castL, List.map_map, Function.comp_def, Int.natCast_inj]

theorem whereA_dis (dsu : List Nat) (n lab : Nat) (hd : dsu.length = n) (f : Nat → Int) :
    whereA (eqMask (castL dsu) (lab : Int)) ((eqMask (castL dsu) (lab : Int)).map fun _ => (none : Option Int)) (((List.range n).map f).map some)
      = (List.range n).map fun j => if dsu.getD j 0 = lab then none else some (f j) := by
  rw [eqMask_castL]
  conv => lhs; rw [eq_range_map dsu]
  simp only [List.map_map, hd]
  have := whereA_map3 (List.range n) (fun j => decide (dsu.getD j 0 = lab)) (fun _ => (none : Option Int)) (fun j => some (f j))
  simpa [Function.comp_def] using this

/-- one iteration of the loop of `link_roots_to_nearest_`, as translated -/
theorem for1_step {σ : Type} [Inhabited σ] (ids : List Int) (dist2 : Nat → Nat → Int) (n : Nat) (hn : ids.length = n)
    (k : Nat) (hk : k < n) (pids : List Int) (dsu : List Nat) (hp : pids.length = n) (hd : dsu.length = n)
    (v : link_roots_to_nearest_.V σ) (h1 : v.ids = ids) (h2 : v.pids = pids) (h3 : v.dsu = castL dsu) :
    link_roots_to_nearest_.for1 (normOf n dist2) ((k : Int), (k : Int)) v =
      .next { v with i := k, row := k, vs := k,
                     dis := (List.range ids.length).map fun j => if dsu.getD j 0 = dsu.getD k 0 then none else some (dist2 k j),
                     subtree := eqMask (castL dsu) (dsu.getD k 0 : Nat),
                     dsu := castL (dsu.map fun l => if l = dsu.getD k 0 then
                       dsu.getD (argminOpt ((List.range ids.length).map fun j => if dsu.getD j 0 = dsu.getD k 0 then none else some (dist2 k j))) 0 else l),
                     pids := pids.set k (ids.getD (argminOpt ((List.range ids.length).map fun j => if dsu.getD j 0 = dsu.getD k 0 then none else some (dist2 k j))) 0) } := by
  generalize hdis : ((List.range ids.length).map fun j => if dsu.getD j 0 = dsu.getD k 0 then none else some (dist2 k j) : List (Option Int)) = dis
  have hdl : dis.length = n := by rw [← hdis]; simp [hn]
  have hne : dis ≠ [] := by intro c; rw [c] at hdl; simp at hdl; omega
  have hkk : argminOpt dis < n := by have := argminOpt_lt dis (by omega); omega
  have hw : whereA (eqMask (castL dsu) (dsu.getD k 0 : Nat)) ((eqMask (castL dsu) (dsu.getD k 0 : Nat)).map fun _ => (none : Option Int))
      (((List.range n).map fun j => dist2 k j).map some) = dis := by
    rw [← hdis, hn]; exact whereA_dis dsu n _ hd _
  have hw2 : where_ (eqMask (castL dsu) (dsu.getD k 0 : Nat)) ((eqMask (castL dsu) (dsu.getD k 0 : Nat)).map fun _ => ((dsu.getD (argminOpt dis) 0 : Nat) : Int)) (castL dsu)
      = castL (dsu.map fun l => if l = dsu.getD k 0 then dsu.getD (argminOpt dis) 0 else l) := by
    rw [eqMask_castL]
    have := RefineNorm.where_map3 dsu (fun x => decide (x = dsu.getD k 0)) (fun _ => ((dsu.getD (argminOpt dis) 0 : Nat) : Int)) (fun x => (x : Int))
    simp only [List.map_map, Function.comp_def, castL] at this ⊢
    rw [this]
    apply List.map_congr_left
    intro x _
    split <;> simp_all
  have hidx : idx ids ((argminOpt dis : Nat) : Int) = some (ids.getD (argminOpt dis) 0) := by
    rw [idx_nat _ _ (by omega)]; simp [List.getD, hn, hkk]
  simp only [link_roots_to_nearest_.for1, seq, Py.bind, normOf, h1, h2, h3, Int.toNat_natCast, idx_castL dsu k (by omega), hw,
    argminInf_eq dis hne, idx_castL dsu (argminOpt dis) (by omega), hw2, hidx, setIdx_nat pids k _ (by omega)]

/-- the loop of `link_roots_to_nearest_`, as translated, is the model's `linkLoop` -/
theorem for1_loop {σ : Type} [Inhabited σ] (ids : List Int) (dist2 : Nat → Nat → Int) (n : Nat) (hn : ids.length = n) :
    ∀ (is : List Nat) (pids : List Int) (dsu : List Nat) (v : link_roots_to_nearest_.V σ),
      (∀ i ∈ is, i < n) → pids.length = n → dsu.length = n → v.ids = ids → v.pids = pids → v.dsu = castL dsu →
      ∃ dsu' i' row' vs' dis' sub',
        forEach (link_roots_to_nearest_.for1 (normOf n dist2)) (is.map (fun (k : Nat) => ((k : Int), (k : Int)))) v =
          .next { v with pids := linkLoop ids dist2 is pids dsu, dsu := dsu', i := i', row := row', vs := vs', dis := dis', subtree := sub' } := by
  intro is
  induction is with
  | nil =>
    intro pids dsu v _ _ _ _ h2 _
    exact ⟨v.dsu, v.i, v.row, v.vs, v.dis, v.subtree, by subst h2; rfl⟩
  | cons k rest ih =>
    intro pids dsu v his hp hd h1 h2 h3
    have hk : k < n := his k List.mem_cons_self
    have hstep := for1_step ids dist2 n hn k hk pids dsu hp hd v h1 h2 h3
    simp only [List.map_cons, forEach, hstep]
    exact ih _ _ _ (fun i hi => his i (List.mem_cons_of_mem _ hi)) (by simpa using hp) (by simpa using hd) h1 rfl rfl

theorem firstRootLoc_spec' : ∀ (pids : List Int) (h : firstRootLoc pids < pids.length), pids[firstRootLoc pids] = -1
  | [], h => by simp at h
  | p :: ps, h => by
    by_cases e : p = -1
    · simp [firstRootLoc, e]
    · simp only [firstRootLoc, if_neg e] at h ⊢
      simpa using firstRootLoc_spec' ps (by simpa using h)

theorem eqMask_getD (pids : List Int) (k : Nat) (hk : k < pids.length) :
    (eqMask pids (-1)).getD k false = decide (pids.getD k 0 = -1) := by
  simp [eqMask, List.getD_eq_getElem?_getD, hk]

theorem iterrows_roots (pids : List Int) :
    iterrows (eqMask pids (-1)) =
      ((List.range pids.length).filter (fun k => pids.getD k 0 = -1)).map (fun (k : Nat) => ((k : Int), (k : Int))) := by
  unfold iterrows
  congr 1
  have hl : (eqMask pids (-1)).length = pids.length := by simp [eqMask]
  rw [hl]
  apply List.filter_congr
  intro k hk
  rw [eqMask_getD pids k (List.mem_range.1 hk)]

theorem getDsu_length (ids pids : List Int) (hl : ids.length = pids.length) (l : List Nat) (h : getDsu ids pids = some l) :
    l.length = ids.length := by
  unfold getDsu at h
  cases hi : dsuInit ids pids with
  | none => simp [hi] at h
  | some l0 =>
    simp only [hi, Option.bind_some] at h
    have := (jumpLoop_spec _ _ _ h).1
    rw [this, dsuInit_length ids pids l0 hi]; omega

/-- **`link_roots_to_nearest_` as translated equals the model `Dsu.linkRootsToNearest`** — for every table with distinct ids that has a
root, and every distance function (the callback state is returned untouched); `none` on both sides when `get_dsu` raises (KeyError) or
does not stop within the pass budget -/
theorem linkRoots_refines {σ : Type} [Inhabited σ] (ids pids : List Int) (hnd : ids.Nodup) (hl : ids.length = pids.length)
    (hr : (-1 : Int) ∈ pids) (dist2 : Nat → Nat → Int) (cbs : σ) :
    link_roots_to_nearest_ (normOf ids.length dist2) (ids.length * ids.length + 2) ids pids cbs =
      (linkRootsToNearest ids pids dist2).map (fun p => (p, cbs, ())) := by
  have hg : get_dsu (ids.length * ids.length + 2) ids pids = (getDsu ids pids).map castL := by
    rw [getDsu_refines ids pids hnd hl]; rfl
  unfold linkRootsToNearest
  simp only [link_roots_to_nearest_, link_roots_to_nearest_.body, seq, hg]
  cases hd : getDsu ids pids with
  | none => simp [Py.bind, finish]
  | some dsu =>
    have hdl := getDsu_length ids pids hl dsu hd
    obtain ⟨_, hloc⟩ := RefineNorm.argmax_firstRoot pids hr
    have hmem : firstRootLoc pids ∈ (List.range pids.length).filter (fun k => pids.getD k 0 = -1) := by
      simp only [List.mem_filter, List.mem_range, decide_eq_true_eq]
      refine ⟨hloc, ?_⟩
      have := firstRootLoc_spec' pids hloc
      simp [List.getD_eq_getElem?_getD, hloc, this]
    cases hroots : (List.range pids.length).filter (fun k => pids.getD k 0 = -1) with
    | nil => rw [hroots] at hmem; simp at hmem
    | cons r0 rest =>
      have hrest : ∀ i ∈ rest, i < ids.length := by
        intro i hi
        have : i ∈ (List.range pids.length).filter (fun k => pids.getD k 0 = -1) := by rw [hroots]; exact List.mem_cons_of_mem _ hi
        rw [hl]; exact List.mem_range.1 (List.mem_filter.1 this).1
      obtain ⟨dsu', i', row', vs', dis', sub', e⟩ := for1_loop (σ := σ) ids dist2 ids.length rfl rest pids dsu
        { (default : link_roots_to_nearest_.V σ) with ids := ids, pids := pids, cbs := cbs, dsu := castL dsu, roots := [] }
        hrest hl.symm hdl rfl rfl rfl
      simp only [Option.map_some, Py.bind, iterrows_roots, hroots, List.map_cons, Py.next, List.drop_succ_cons, List.drop_zero]
      rw [e]
      simp [finish]

/-! ### the tail of `read_swc` (from `# fix swc`): a composition of the translated callees -/

section stages
variable {σ : Type} [Inhabited σ]

/-- a state of the translated tail of `read_swc` (no warning issued yet) -/
@[simp] def mkV (ids pids types rs : List Int) (mode : Option String) (srt rst : Bool) (cbs : σ) : read_swc_fix.V σ :=
  { ids := ids, pids := pids, types := types, rs := rs, fix_roots := mode, sort_nodes := srt, reset_index := rst, warnings_ := [], cbs := cbs }

theorem seq_of_next {V R : Type} (s1 s2 : V → Res V R) (v v' : V) (h : s1 v = .next v') : seq s1 s2 v = s2 v' := by simp [seq, h]
theorem seq_of_err {V R : Type} (s1 s2 : V → Res V R) (v : V) (h : s1 v = .err) : seq s1 s2 v = .err := by simp [seq, h]

/-- `# fix swc`: the `match` on `fix_roots`, entered only with several roots; returns the parent column, the type column and the callback state -/
def fixStage (norm : σ → Int → σ × List Int) (fuel : Nat) (ids pids types : List Int) (mode : Option String) (cbs : σ) :
    Option (List Int × List Int × σ) :=
  match mode with
  | none => some (pids, types, cbs)
  | some m =>
    if countNonzero (eqMask pids (-1)) > 1 then
      if m = "somas" then (mark_roots_as_somas_ ids pids types (some 1)).map fun r => (r.1, r.2.1, cbs)
      else if m = "nearest" then (link_roots_to_nearest_ norm fuel ids pids cbs).map fun r => (r.1, types, r.2.1)
      else none
    else some (pids, types, cbs)

/-- `sort_nodes_` or else `reset_index_` -/
def normStage (fuel : Nat) (ids pids types rs : List Int) (srt rst : Bool) : Option (List Int × List Int × List Int × List Int) :=
  if srt then (sort_nodes_ fuel ids pids types rs).map fun r => (r.1, r.2.1, r.2.2.1, r.2.2.2.1)
  else if rst then (reset_index_ ids pids).map fun r => (r.1, r.2.1, types, rs)
  else some (ids, pids, types, rs)

/-- `# check swc`: the warnings issued, as call-site numbers (0 = not a simple tree, 1 = root is not the first node, 2 = non-positive radius) -/
def checkStage (fuel : Nat) (ids pids rs : List Int) : Option (List Int) :=
  (is_single_root fuel ids pids).bind fun b => (argmaxMask (eqMask pids (-1))).map fun loc =>
    (if b then [] else [(0 : Int)]) ++ (if loc ≠ 0 then [(1 : Int)] else []) ++ (if Py.any (leMask rs 0) then [(2 : Int)] else [])

/-- **the tail of `read_swc` as translated is the composition repair → normalisation → checks of the translated callees, for EVERY input and
every option** (an exception anywhere is an exception of the whole) -/
theorem readFix_stages (norm : σ → Int → σ × List Int) (fuel : Nat) (ids pids types rs : List Int) (mode : Option String)
    (srt rst : Bool) (cbs : σ) :
    read_swc_fix norm fuel ids pids types rs mode srt rst cbs =
      (fixStage norm fuel ids pids types mode cbs).bind fun f =>
        (normStage fuel ids f.1 f.2.1 rs srt rst).bind fun g =>
          (checkStage fuel g.1 g.2.1 g.2.2.2).map fun w => (g.1, g.2.1, g.2.2.1, g.2.2.2, w, f.2.2, ()) := by
  -- the three checks, for any state reached
  have tail : ∀ (v : read_swc_fix.V σ), v.warnings_ = [] →
      (Py.finish () ((Py.seq (fun (v : read_swc_fix.V σ) =>
        Py.bind (is_single_root fuel v.ids v.pids) fun t5 =>
        if (!t5) then (fun (v : read_swc_fix.V σ) => Res.next (R := Unit) { v with warnings_ := v.warnings_ ++ [(0 : Int)] }) v else Py.skip v)
      (Py.seq (fun (v : read_swc_fix.V σ) =>
        Py.bind (Py.argmaxMask (Py.eqMask v.pids (-(1 : Int)))) fun t6 =>
        if (decide (t6 ≠ (0 : Int))) then (fun (v : read_swc_fix.V σ) => Res.next { v with warnings_ := v.warnings_ ++ [(1 : Int)] }) v else Py.skip v)
      (Py.seq (fun (v : read_swc_fix.V σ) =>
        if (Py.any (Py.leMask v.rs (0 : Int))) then (fun (v : read_swc_fix.V σ) => Res.next { v with warnings_ := v.warnings_ ++ [(2 : Int)] }) v else Py.skip v)
      (fun (v : read_swc_fix.V σ) => Res.ret v ())))) v)).map (fun r => (r.1.ids, r.1.pids, r.1.types, r.1.rs, r.1.warnings_, r.1.cbs, r.2)) =
      (checkStage fuel v.ids v.pids v.rs).map fun w => (v.ids, v.pids, v.types, v.rs, w, v.cbs, ()) := by
    intro v hw
    unfold checkStage
    cases h1 : is_single_root fuel v.ids v.pids with
    | none => simp [seq, Py.bind, finish, h1]
    | some b =>
      cases h2 : argmaxMask (eqMask v.pids (-1)) with
      | none => cases b <;> simp [seq, Py.bind, finish, h1, h2, skip]
      | some loc =>
        cases b <;> by_cases h3 : loc = 0 <;> cases h4 : Py.any (leMask v.rs 0) <;>
          simp [seq, Py.bind, finish, h1, h2, skip, h3, h4, hw]
  unfold read_swc_fix read_swc_fix.body
  cases hf : fixStage norm fuel ids pids types mode cbs with
  | none =>
    rw [seq_of_err]
    · simp [finish]
    · revert hf; unfold fixStage
      cases mode with
      | none => simp
      | some m =>
        by_cases hc : countNonzero (eqMask pids (-1)) > 1
        · by_cases h1 : m = "somas"
          · subst h1; cases hm : mark_roots_as_somas_ ids pids types (some 1) <;> simp [hc, hm, Py.bind]
          · by_cases h2 : m = "nearest"
            · subst h2; cases hm : link_roots_to_nearest_ norm fuel ids pids cbs <;> simp [hc, hm, Py.bind]
            · simp [hc, h1, h2]
        · simp [hc]
  | some f =>
    rw [seq_of_next (v' := mkV ids f.1 f.2.1 rs mode srt rst f.2.2)]
    · simp only [Option.bind_some]
      cases hg : normStage fuel ids f.1 f.2.1 rs srt rst with
      | none =>
        rw [seq_of_err]
        · simp [finish]
        · revert hg; unfold normStage
          cases srt with
          | true => cases hm : sort_nodes_ fuel ids f.1 f.2.1 rs <;> simp [hm, Py.bind]
          | false =>
            cases rst with
            | true => cases hm : reset_index_ ids f.1 <;> simp [hm, Py.bind]
            | false => simp
      | some g =>
        rw [seq_of_next (v' := mkV g.1 g.2.1 g.2.2.1 g.2.2.2 mode srt rst f.2.2)]
        · simp only [Option.bind_some]
          exact tail _ rfl
        · revert hg; unfold normStage
          cases srt with
          | true => cases hm : sort_nodes_ fuel ids f.1 f.2.1 rs <;> simp [hm, Py.bind] <;> (intro h; subst h; simp <;> rfl)
          | false =>
            cases rst with
            | true => cases hm : reset_index_ ids f.1 <;> simp [hm, Py.bind, skip] <;> (intro h; subst h; simp <;> rfl)
            | false => simp [skip]; intro h; subst h; simp <;> rfl
    · revert hf; unfold fixStage
      cases mode with
      | none => simp [skip]; intro h; subst h; simp <;> rfl
      | some m =>
        by_cases hc : countNonzero (eqMask pids (-1)) > 1
        · by_cases h1 : m = "somas"
          · subst h1; cases hm : mark_roots_as_somas_ ids pids types (some 1) <;> simp [hc, hm, Py.bind] <;> (intro h; subst h; simp <;> rfl)
          · by_cases h2 : m = "nearest"
            · subst h2; cases hm : link_roots_to_nearest_ norm fuel ids pids cbs <;> simp [hc, hm, Py.bind] <;> (intro h; subst h; simp <;> rfl)
            · simp [hc, h1, h2]
        · simp [hc, skip]; intro h; subst h; simp <;> rfl

end stages

end RefineRepair
