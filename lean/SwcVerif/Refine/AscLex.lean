import SwcVerif.Gen.AlgoAscLex
import SwcVerif.Model.AlgoRunAscLex
import SwcVerif.Model.Asc
import SwcVerif.Refine.AscParse
/-! Refinement for C15, character level: the `Lexer` AS TRANSLATED (`Gen/AlgoAscLex.lean`: `__init__`, `_read_char`, `_read_word`,
`_read_line`, `_token`, `__next__`) against the hand-written lexer model of `Model/Asc.lean` (`skipSpaces`, `takeWord`, `takeLine`,
`classify`, `lex`).

The lexer object that still has the characters `s` to deliver is `mk s ln col`: `next_char` = the first character (or `""`), the
stream `r` = the rest.  Line / column are carried existentially (the hand model has no positions; they are compared with the real
lexer by the `gasclex` correspondence lines). -/
namespace RefineAscLex
open Gen.Algo Py Asc

def mk (s : List Char) (ln col : Int) : Lexer :=
  { r := String.ofList s.tail, lineno := ln, column := col, next_char := String.ofList (s.take 1) }

@[simp] theorem mk_nc_nil (ln col : Int) : (mk [] ln col).next_char = "" := by simp [mk]
@[simp] theorem mk_nc_cons (c : Char) (t : List Char) (ln col : Int) : (mk (c :: t) ln col).next_char = String.singleton c := by simp [mk]
@[simp] theorem mk_lineno (s : List Char) (ln col : Int) : (mk s ln col).lineno = ln := rfl
@[simp] theorem mk_column (s : List Char) (ln col : Int) : (mk s ln col).column = col := rfl
@[simp] theorem tl_nl : ("\n" : String).toList = ['\n'] := rfl
@[simp] theorem tl_sp : (" \t\n" : String).toList = [' ', '\t', '\n'] := rfl
@[simp] theorem tl_delim : (" \t\n();|" : String).toList = [' ', '\t', '\n', '(', ')', ';', '|'] := rfl
@[simp] theorem tl_lp : ("(" : String).toList = ['('] := rfl
@[simp] theorem tl_rp : (")" : String).toList = [')'] := rfl
@[simp] theorem tl_semi : (";" : String).toList = [';'] := rfl
@[simp] theorem tl_bar : ("|" : String).toList = ['|'] := rfl

/-- `_read_char` as translated: the next character becomes current -/
theorem read_char_mk (c : Char) (t : List Char) (ln col : Int) :
    ∃ ln' col', lexer_read_char (mk (c :: t) ln col) = some (mk t ln' col', !t.isEmpty) := by
  cases t with
  | nil =>
    exact ⟨ln, col, by simp [lexer_read_char, lexer_read_char.body, Py.seq, Py.finish, mk, Py.Text.read1, Py.Text.read1L, Py.Text.eq, Py.skip]⟩
  | cons d t' =>
    by_cases hd : d = '\n'
    · exact ⟨ln + 1, 1, by simp [lexer_read_char, lexer_read_char.body, Py.seq, Py.finish, mk, Py.Text.read1, Py.Text.read1L, Py.Text.eq, Py.skip, hd]⟩
    · exact ⟨ln, col + 1, by simp [lexer_read_char, lexer_read_char.body, Py.seq, Py.finish, mk, Py.Text.read1, Py.Text.read1L, Py.Text.eq, Py.skip, hd]⟩

@[simp] theorem strIn_space (c : Char) : Py.Text.strIn (String.singleton c) " \t\n" = isSpace c := by
  simp [Py.Text.strIn, Py.Text.isInfixL, List.isPrefixOf, isSpace, Bool.or_assoc]
  rfl

@[simp] theorem strIn_delim (c : Char) : Py.Text.strIn (String.singleton c) " \t\n();|" = isDelim c := by
  simp [Py.Text.strIn, Py.Text.isInfixL, List.isPrefixOf, isDelim, isSpace, Bool.or_assoc]
  rfl

/-- first loop of `_read_word`: skip blanks -/
theorem while1_loop (s : List Char) : ∀ (fuel : Nat) (ln col : Int) (tk ch : String), s.length + 1 ≤ fuel →
    ∃ ln' col', Py.whileF lexer_read_word.while1_cond lexer_read_word.while1_body fuel { self := mk s ln col, token := tk, ch := ch } =
      .next { self := mk (skipSpaces s) ln' col', token := tk, ch := ch } := by
  induction s with
  | nil =>
    intro fuel ln col tk ch hf
    obtain ⟨f, rfl⟩ : ∃ f, fuel = f + 1 := ⟨fuel - 1, by omega⟩
    exact ⟨ln, col, by simp [Py.whileF, lexer_read_word.while1_cond, mk, Py.Text.eq, skipSpaces]⟩
  | cons c t ih =>
    intro fuel ln col tk ch hf
    obtain ⟨f, rfl⟩ : ∃ f, fuel = f + 1 := ⟨fuel - 1, by omega⟩
    by_cases hc : isSpace c
    · obtain ⟨l1, c1, h1⟩ := read_char_mk c t ln col
      obtain ⟨l2, c2, h2⟩ := ih f l1 c1 tk ch (by simp at hf; omega)
      refine ⟨l2, c2, ?_⟩
      have hcond : lexer_read_word.while1_cond { self := mk (c :: t) ln col, token := tk, ch := ch } = some true := by
        simp [lexer_read_word.while1_cond, mk, Py.Text.eq, strIn_space, hc]
      have hbody : lexer_read_word.while1_body { self := mk (c :: t) ln col, token := tk, ch := ch } =
          .next { self := mk t l1 c1, token := tk, ch := ch } := by
        simp [lexer_read_word.while1_body, h1, Py.bind]
      simp only [Py.whileF, hcond, hbody, h2, skipSpaces, hc, if_true]
    · refine ⟨ln, col, ?_⟩
      have hcond : lexer_read_word.while1_cond { self := mk (c :: t) ln col, token := tk, ch := ch } = some false := by
        simp [lexer_read_word.while1_cond, mk, Py.Text.eq, strIn_space, hc]
      simp [Py.whileF, hcond, skipSpaces, hc]

/-- second loop of `_read_word`: collect the characters up to the next delimiter -/
theorem while2_loop (s : List Char) : ∀ (fuel : Nat) (ln col : Int) (w : List Char) (ch : String), s.length + 1 ≤ fuel →
    ∃ ln' col', Py.whileF lexer_read_word.while2_cond lexer_read_word.while2_body fuel
        { self := mk s ln col, token := String.ofList w, ch := ch } =
      .next { self := mk (takeWord s).2 ln' col', token := String.ofList (w ++ (takeWord s).1), ch := ch } := by
  induction s with
  | nil =>
    intro fuel ln col w ch hf
    obtain ⟨f, rfl⟩ : ∃ f, fuel = f + 1 := ⟨fuel - 1, by omega⟩
    exact ⟨ln, col, by simp [Py.whileF, lexer_read_word.while2_cond, mk, Py.Text.eq, takeWord]⟩
  | cons c t ih =>
    intro fuel ln col w ch hf
    obtain ⟨f, rfl⟩ : ∃ f, fuel = f + 1 := ⟨fuel - 1, by omega⟩
    by_cases hc : isDelim c
    · refine ⟨ln, col, ?_⟩
      have hcond : lexer_read_word.while2_cond { self := mk (c :: t) ln col, token := String.ofList w, ch := ch } = some false := by
        simp [lexer_read_word.while2_cond, mk, Py.Text.eq, hc]
      simp [Py.whileF, hcond, takeWord, hc]
    · obtain ⟨l1, c1, h1⟩ := read_char_mk c t ln col
      obtain ⟨l2, c2, h2⟩ := ih f l1 c1 (w ++ [c]) ch (by simp at hf; omega)
      refine ⟨l2, c2, ?_⟩
      have hcond : lexer_read_word.while2_cond { self := mk (c :: t) ln col, token := String.ofList w, ch := ch } = some true := by
        simp [lexer_read_word.while2_cond, mk, Py.Text.eq, hc]
      have hbody : lexer_read_word.while2_body { self := mk (c :: t) ln col, token := String.ofList w, ch := ch } =
          .next { self := mk t l1 c1, token := String.ofList (w ++ [c]), ch := ch } := by
        simp [lexer_read_word.while2_body, Py.seq, h1, Py.bind, Py.Text.cat]
      simp only [Py.whileF, hcond, hbody, h2, takeWord, hc]
      simp

theorem skipSpaces_length (s : List Char) : (skipSpaces s).length ≤ s.length := by
  induction s with
  | nil => simp [skipSpaces]
  | cons c t ih => by_cases hc : isSpace c <;> simp [skipSpaces, hc]; omega

theorem takeWord_length (s : List Char) : (takeWord s).1.length + (takeWord s).2.length = s.length := by
  induction s with
  | nil => simp [takeWord]
  | cons c t ih => by_cases hc : isDelim c <;> simp [takeWord, hc]; omega

theorem takeLine_length (s : List Char) : (takeLine s).2.length ≤ s.length := by
  induction s with
  | nil => simp [takeLine]
  | cons c t ih => by_cases hc : c = '\n' <;> simp [takeLine, hc]; omega

/-- what `_read_word` returns on the characters `s`: (the word, the characters left) -/
def wordOf (s : List Char) : List Char × List Char :=
  let wr := takeWord (skipSpaces s)
  if !wr.1.isEmpty then wr else
    match wr.2 with
    | [] => ([], [])
    | c :: t => ([c], t)

/-- `_read_word` as translated -/
theorem read_word_mk (s : List Char) (fuel : Nat) (ln col : Int) (hf : s.length + 1 ≤ fuel) :
    ∃ ln' col', lexer_read_word fuel (mk s ln col) = some (mk (wordOf s).2 ln' col', String.ofList (wordOf s).1) := by
  obtain ⟨l1, c1, h1⟩ := while1_loop s fuel ln col "" "" hf
  obtain ⟨l2, c2, h2⟩ := while2_loop (skipSpaces s) fuel l1 c1 [] "" (by have := skipSpaces_length s; omega)
  have hinit : ({ (default : lexer_read_word.V) with self := mk s ln col } : lexer_read_word.V) = { self := mk s ln col, token := "", ch := "" } := rfl
  have h2' : Py.whileF lexer_read_word.while2_cond lexer_read_word.while2_body fuel
        { self := mk (skipSpaces s) l1 c1, token := "", ch := "" } =
      .next { self := mk (takeWord (skipSpaces s)).2 l2 c2, token := String.ofList (takeWord (skipSpaces s)).1, ch := "" } := by
    simpa using h2
  unfold lexer_read_word
  rw [hinit]
  simp only [lexer_read_word.body, Py.seq, h1, h2']
  by_cases hw : (takeWord (skipSpaces s)).1 = []
  · cases hr : (takeWord (skipSpaces s)).2 with
    | nil =>
      refine ⟨l2, c2, ?_⟩
      simp [Py.finish, Py.Text.eq, Py.skip, hw, hr, wordOf]
    | cons c t =>
      obtain ⟨l3, c3, h3⟩ := read_char_mk c t l2 c2
      refine ⟨l3, c3, ?_⟩
      simp [Py.finish, Py.Text.eq, Py.skip, hw, hr, wordOf, h3, Py.bind]
  · refine ⟨l2, c2, ?_⟩
    simp [Py.finish, Py.Text.eq, Py.skip, hw, wordOf]

theorem endswith_nl (a : String) : Py.Text.endswith a "\n" = (a.toList.getLast? == some '\n') := by
  simp only [Py.Text.endswith, tl_nl, List.reverse_singleton, ← List.head?_reverse]
  cases a.toList.reverse with
  | nil => simp [List.isPrefixOf]
  | cons a t => simp [List.isPrefixOf]; exact BEq.comm

theorem dropEnd_one (a : String) : Py.Text.dropEnd a 1 = String.ofList a.toList.dropLast := by
  simp [Py.Text.dropEnd, List.dropLast_eq_take]

/-- `line = next_char + readline(); if line.endswith("\n"): line = line[:-1]` on character lists -/
def lineOf (l : List Char) : List Char := if l.getLast? == some '\n' then l.dropLast else l

theorem readline_takeLine (t : List Char) : ∀ c : Char, c ≠ '\n' →
    lineOf (c :: (Py.Text.readlineL t).1) = c :: (takeLine t).1 ∧ (Py.Text.readlineL t).2 = (takeLine t).2 := by
  induction t with
  | nil => intro c hc; simp [Py.Text.readlineL, takeLine, lineOf, hc]
  | cons d t ih =>
    intro c hc
    by_cases hd : d = '\n'
    · simp [Py.Text.readlineL, takeLine, lineOf, hd]
    · obtain ⟨h1, h2⟩ := ih d hd
      simp only [Py.Text.readlineL, takeLine, hd, if_false]
      refine ⟨?_, h2⟩
      rw [← h1]
      simp only [lineOf, List.getLast?_cons_cons]
      split <;> simp

/-- `_read_line` as translated: the rest of the line without its newline, the stream continues after the newline -/
theorem read_line_mk (s : List Char) (ln col : Int) :
    ∃ ln' col', lexer_read_line (mk s ln col) = some (mk (takeLine s).2 ln' col', String.ofList (takeLine s).1) := by
  refine ⟨ln + 1, 1, ?_⟩
  cases s with
  | nil =>
    simp [lexer_read_line, lexer_read_line.body, Py.seq, Py.finish, mk, Py.Text.eq, Py.Text.readline, Py.Text.readlineL, Py.Text.cat,
      Py.Text.read1, Py.Text.read1L, takeLine, Py.skip, endswith_nl]
  | cons c t =>
    by_cases hc : c = '\n'
    · simp [lexer_read_line, lexer_read_line.body, Py.seq, Py.finish, mk, Py.Text.eq, Py.Text.read1, Py.Text.read1L, takeLine, hc]
      cases t <;> simp
    · obtain ⟨h1, h2⟩ := readline_takeLine t c hc
      simp only [lineOf] at h1
      simp [lexer_read_line, lexer_read_line.body, Py.seq, Py.finish, mk, Py.Text.eq, Py.Text.readline, Py.Text.cat,
        Py.Text.read1, takeLine, Py.skip, endswith_nl, dropEnd_one, hc]
      have hr1 : ∀ l : List Char, Py.Text.read1L l = (l.take 1, l.tail) := by intro l; cases l <;> rfl
      rw [h2]
      by_cases hg : (c :: (Py.Text.readlineL t).fst).getLast? = some '\n'
      · simp [hg] at h1
        simp [hg, h1, hr1]
      · simp [hg] at h1
        rw [h1] at hg
        simp [hg, h1, hr1]

/-! ### `__next__` -/

/-- one `__next__` call on the characters `s`, on the model's data: the token and the characters left (`none` = StopIteration) -/
def stepOf (s : List Char) : Option (Tok × List Char) :=
  let w := (wordOf s).1
  let rest := (wordOf s).2
  if w = [] then none
  else if w = ['('] then some (.lp, rest)
  else if w = [')'] then some (.rp, rest)
  else if w = [';'] then some (.comment (takeLine rest).1, (takeLine rest).2)
  else if w = ['|'] then some (.bar, rest)
  else some (classify w, rest)

def stopIteration : Py.Exc := ⟨"StopIteration", "", []⟩

variable (encF : SwcText.Sci → Int)

/-- the token record `_token` builds for a model token -/
def tokAt (tk : Tok) (l c : Int) : LexToken :=
  ⟨(RefineAscParse.enc encF tk).type, (RefineAscParse.enc encF tk).value, l, c⟩

theorem classify_cases (w : List Char) :
    (looksFloat w = false ∧ classify w = .literal w) ∨
    (looksFloat w = true ∧ ∃ v, SwcText.floatPrefix w = some (v, []) ∧ classify w = .float v) ∨
    (looksFloat w = true ∧ classify w = .bad ∧ AlgoRun.ascParseNumber encF (String.ofList w) = none) := by
  unfold classify AlgoRun.ascParseNumber
  cases hl : looksFloat w with
  | false => simp
  | true =>
    simp only [if_true, String.toList_ofList]
    cases hf : SwcText.floatPrefix w with
    | none => simp
    | some p =>
      obtain ⟨v, r⟩ := p
      cases r with
      | nil => simp
      | cons a b => simp

/-- **`__next__` as translated**, for every remaining text `s` and every fuel `g ≥ |s| + 1` of the loops of `_read_word`: StopIteration
exactly when the model has no further token, an (untracked) exception exactly when the model's token is `.bad`, and otherwise the
model's token (type and value; some line / column) with the model's remaining characters -/
theorem next_mk (s : List Char) (g : Nat) (ln col : Int) (hg : s.length + 1 ≤ g) :
    ∃ ln' col' l c, lexer_next AlgoRun.ascIsNumber (AlgoRun.ascParseNumber encF) g (mk s ln col) =
      match stepOf s with
      | none => some (mk (wordOf s).2 ln' col', .error stopIteration)
      | some (tk, s') => if tk = .bad then none else some (mk s' ln' col', .ok (tokAt encF tk l c)) := by
  obtain ⟨l1, c1, h1⟩ := read_word_mk s g ln col hg
  have hinit : ({ (default : lexer_next.V) with self := mk s ln col } : lexer_next.V) = { self := mk s ln col, word := "" } := rfl
  unfold lexer_next
  rw [hinit]
  simp only [lexer_next.body, Py.seq, h1, Py.bind]
  unfold stepOf
  by_cases h0 : (wordOf s).1 = []
  · exact ⟨l1, c1, 0, 0, by simp [h0, Py.Text.eq, Py.raise, Py.finishX, stopIteration]⟩
  by_cases hlp : (wordOf s).1 = ['(']
  · exact ⟨l1, c1, l1, c1, by simp [h0, hlp, Py.Text.eq, Py.finishX, lexer_token, lexer_token.body, Py.finish, Py.bind, tokAt, RefineAscParse.enc]⟩
  by_cases hrp : (wordOf s).1 = [')']
  · exact ⟨l1, c1, l1, c1, by simp [h0, hlp, hrp, Py.Text.eq, Py.finishX, lexer_token, lexer_token.body, Py.finish, Py.bind, tokAt, RefineAscParse.enc]⟩
  by_cases hsc : (wordOf s).1 = [';']
  · obtain ⟨l2, c2, h2⟩ := read_line_mk (wordOf s).2 l1 c1
    exact ⟨l2, c2, l2, c2, by simp [h0, hlp, hrp, hsc, h2, Py.Text.eq, Py.finishX, lexer_token, lexer_token.body, Py.finish, Py.bind, tokAt, RefineAscParse.enc]⟩
  by_cases hbar : (wordOf s).1 = ['|']
  · exact ⟨l1, c1, l1, c1, by simp [h0, hlp, hrp, hsc, hbar, Py.Text.eq, Py.finishX, lexer_token, lexer_token.body, Py.finish, Py.bind, tokAt, RefineAscParse.enc]⟩
  refine ⟨l1, c1, l1, c1, ?_⟩
  rcases classify_cases encF (wordOf s).1 with ⟨hl, hcl⟩ | ⟨hl, v, hv, hcl⟩ | ⟨hl, hcl, hp⟩
  · simp [h0, hlp, hrp, hsc, hbar, hl, hcl, Py.Text.eq, Py.finishX, lexer_token, lexer_token.body, Py.finish, Py.bind, tokAt, RefineAscParse.enc,
      AlgoRun.ascIsNumber]
  · simp [h0, hlp, hrp, hsc, hbar, hl, hcl, hv, Py.Text.eq, Py.finishX, lexer_token, lexer_token.body, Py.finish, Py.bind, tokAt, RefineAscParse.enc,
      AlgoRun.ascIsNumber, AlgoRun.ascParseNumber]
  · simp [h0, hlp, hrp, hsc, hbar, hl, hcl, hp, Py.Text.eq, Py.finishX, Py.bind, AlgoRun.ascIsNumber]

/-! ### the model's `lex` is the iteration of `stepOf` -/

theorem takeWord_head (s : List Char) (c : Char) (w : List Char) (h : (takeWord s).1 = c :: w) : isDelim c = false := by
  cases s with
  | nil => simp [takeWord] at h
  | cons d t =>
    by_cases hd : isDelim d
    · simp [takeWord, hd] at h
    · simp [takeWord, hd] at h
      rw [← h.1]; simpa using hd

theorem takeWord_nil (s : List Char) (h : (takeWord s).1 = []) : (takeWord s).2 = s ∧ ∀ c t, s = c :: t → isDelim c = true := by
  cases s with
  | nil => simp [takeWord]
  | cons d t =>
    by_cases hd : isDelim d
    · simp [takeWord, hd]
    · simp [takeWord, hd] at h

theorem skipSpaces_head (s : List Char) : ∀ c t, skipSpaces s = c :: t → isSpace c = false := by
  induction s with
  | nil => intro c t h; simp [skipSpaces] at h
  | cons d u ih =>
    intro c t h
    by_cases hd : isSpace d
    · simp [skipSpaces, hd] at h; exact ih c t h
    · simp [skipSpaces, hd] at h
      rw [← h.1]; simpa using hd

theorem lex_succ (f : Nat) (s : List Char) :
    lex (f + 1) s = match stepOf s with
      | none => []
      | some (tk, s') => tk :: lex f s' := by
  rw [lex.eq_2]
  unfold stepOf wordOf
  cases hw : (takeWord (skipSpaces s)).1 with
  | cons c w =>
    have hd := takeWord_head _ c w hw
    have h1 : c ≠ '(' := by rintro rfl; simp [isDelim] at hd
    have h2 : c ≠ ')' := by rintro rfl; simp [isDelim] at hd
    have h3 : c ≠ ';' := by rintro rfl; simp [isDelim] at hd
    have h4 : c ≠ '|' := by rintro rfl; simp [isDelim] at hd
    simp [hw, h1, h2, h3, h4]
  | nil =>
    obtain ⟨hr, hdel⟩ := takeWord_nil _ hw
    cases hs : skipSpaces s with
    | nil => simp [takeWord]
    | cons c t =>
      have hsp := skipSpaces_head s c t hs
      have hdl := hdel c t hs
      rw [hs] at hr hw
      simp only [hs, hr, hw]
      simp only [isDelim, hsp, Bool.false_or, Bool.or_eq_true, decide_eq_true_eq] at hdl
      rcases hdl with ((rfl | rfl) | rfl) | rfl <;> simp

theorem wordOf_length (s : List Char) : (wordOf s).1 ≠ [] → (wordOf s).2.length < s.length := by
  unfold wordOf
  have h1 := skipSpaces_length s
  have h2 := takeWord_length (skipSpaces s)
  by_cases hw : (takeWord (skipSpaces s)).1 = []
  · cases hr : (takeWord (skipSpaces s)).2 with
    | nil => simp [hw, hr]
    | cons c t => simp [hw, hr] at h2 ⊢; omega
  · intro _
    have : 0 < (takeWord (skipSpaces s)).1.length := List.length_pos_iff.mpr hw
    simp [hw]; omega

theorem stepOf_length (s : List Char) (tk : Tok) (s' : List Char) (h : stepOf s = some (tk, s')) : s'.length < s.length := by
  unfold stepOf at h
  by_cases h0 : (wordOf s).1 = []
  · simp [h0] at h
  have hl := wordOf_length s h0
  have ht := takeLine_length (wordOf s).2
  simp only [h0, if_false] at h
  split at h
  · simp at h; obtain ⟨_, rfl⟩ := h; omega
  split at h
  · simp at h; obtain ⟨_, rfl⟩ := h; omega
  split at h
  · simp at h; obtain ⟨_, rfl⟩ := h; omega
  split at h
  · simp at h; obtain ⟨_, rfl⟩ := h; omega
  · simp at h; obtain ⟨_, rfl⟩ := h; omega

/-! ### the iteration: all tokens -/

/-- the model's tokens up to the first lexer failure (`.bad`), and whether the stream ended without one -/
def goodPrefix : List Tok → List Tok × Bool
  | [] => ([], true)
  | t :: ts => if t = .bad then ([], false) else (t :: (goodPrefix ts).1, (goodPrefix ts).2)

theorem goodPrefix_noBad (toks : List Tok) (h : RefineAscParse.NoBad toks) : goodPrefix toks = (toks, true) := by
  induction toks with
  | nil => rfl
  | cons t ts ih =>
    have ht : t ≠ .bad := h t (by simp)
    simp [goodPrefix, ht, ih h.tail]

theorem goodPrefix_snd (toks : List Tok) : (goodPrefix toks).2 = false ↔ Tok.bad ∈ toks := by
  induction toks with
  | nil => simp [goodPrefix]
  | cons t ts ih =>
    by_cases ht : t = .bad
    · simp [goodPrefix, ht]
    · simp [goodPrefix, ht, ih, Ne.symm ht]

theorem toToken_tokAt (tk : Tok) (l c : Int) : AlgoRun.LexToken.toToken (tokAt encF tk l c) = RefineAscParse.enc encF tk := rfl

/-- the iteration protocol on `__next__` as translated yields exactly the model's tokens up to the first `.bad` -/
theorem lex_loop (g : Nat) : ∀ (f : Nat) (s : List Char) (ln col : Int), s.length + 1 ≤ f → s.length + 1 ≤ g →
    (AlgoRun.ascLexLoop AlgoRun.ascIsNumber (AlgoRun.ascParseNumber encF) g f (mk s ln col)).1.map AlgoRun.LexToken.toToken =
      (goodPrefix (lex f s)).1.map (RefineAscParse.enc encF) ∧
    (AlgoRun.ascLexLoop AlgoRun.ascIsNumber (AlgoRun.ascParseNumber encF) g f (mk s ln col)).2 = (goodPrefix (lex f s)).2 := by
  intro f
  induction f with
  | zero => intro s ln col hf; omega
  | succ f ih =>
    intro s ln col hf hg
    obtain ⟨l1, c1, l, c, hn⟩ := next_mk encF s g ln col hg
    rw [AlgoRun.ascLexLoop, hn, lex_succ]
    cases hs : stepOf s with
    | none => simp [goodPrefix, stopIteration]
    | some p =>
      obtain ⟨tk, s'⟩ := p
      have hlen := stepOf_length s tk s' hs
      by_cases hb : tk = .bad
      · simp [hb, goodPrefix]
      · obtain ⟨i1, i2⟩ := ih s' l1 c1 (by omega) (by omega)
        simp [hb, goodPrefix, i1, i2, toToken_tokAt]

/-- `Lexer(io.StringIO(text))` as translated -/
theorem init_mk (s : List Char) : AlgoRun.ascLexer s = some (mk s 1 1) := by
  cases s <;> simp [AlgoRun.ascLexer, lexer_init, lexer_init.body, Py.seq, Py.finish, mk, Py.Text.read1, Py.Text.read1L]

theorem lexAll_eq (s : List Char) :
    (AlgoRun.ascLexAll encF s).1.map AlgoRun.LexToken.toToken = (goodPrefix (tokens s)).1.map (RefineAscParse.enc encF) ∧
    (AlgoRun.ascLexAll encF s).2 = (goodPrefix (tokens s)).2 := by
  unfold AlgoRun.ascLexAll tokens
  rw [init_mk]
  exact lex_loop encF (s.length + 1) (s.length + 1) s 1 1 (by omega) (by omega)

end RefineAscLex
