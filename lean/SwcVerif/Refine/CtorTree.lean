import SwcVerif.Gen.AlgoCtorTree
/-! Refinement for `Gen/AlgoCtorTree.lean` (session 4, T26): the deprecated spellings `Tree.get_bifurcations`, `Node.is_bifurcation` are their
targets. -/
namespace RefineCtor
open Gen.Algo Py

/-- `Tree.get_bifurcations()` is `Tree.get_furcations()` -/
theorem get_bifurcations_eq (fuel : Nat) (ids pids : List Int) :
    get_bifurcations fuel ids pids = get_furcations fuel ids pids := by
  simp only [get_bifurcations, get_bifurcations.body, Py.bind]
  cases get_furcations fuel ids pids <;> rfl

/-- `Node.is_bifurcation()` is `Node.is_furcation()` -/
theorem node_is_bifurcation_eq (ids pids : List Int) (k : Int) :
    node_is_bifurcation ids pids k = node_is_furcation ids pids k := by
  simp only [node_is_bifurcation, node_is_bifurcation.body, Py.bind]
  cases node_is_furcation ids pids k <;> rfl

end RefineCtor
