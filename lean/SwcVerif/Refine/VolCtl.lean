import SwcVerif.Gen.AlgoVolCtl
import SwcVerif.Props.C13
/-! # C13 — the GENERATED control flow of the closed-form volumes (`Gen/AlgoVolCtl.lean`, T39 `volctl`) selects the cases of C13's model

`Gen.Algo.vc_sphere2` is `VolSphere2Intersection.calc_intersect_volume` translated statement by statement (imperative translator); here it is run at
`ℝ` (`Py.Fld ℝ` = real division) with ANY `norm` and proved equal to the arithmetic translator's `Gen.Vol.lensVolume` at `d = norm (ca - cb)`, case by
case; composing with `C13.lens_volume` the true volume of the lens is what the generated control flow returns. -/
namespace RefineVolCtl
open Gen.Algo

noncomputable instance realFld : Py.Fld ℝ := ⟨fun a b => a / b, fun i => (i : ℝ), fun x => ⌈x⌉⟩

/-- `a - b` on coordinate vectors -/
def vsub (a b : List ℝ) : List ℝ := List.zipWith (fun x y => x - y) a b

theorem pyAbs_eq (x : ℝ) : Py.VC.absK x = |x| := by
  unfold Py.VC.absK
  split_ifs with h
  · rw [abs_of_neg h]; ring
  · exact (abs_of_nonneg (not_lt.mp h)).symm

theorem pyMin_eq (a b : ℝ) : Py.VC.minK a b = min a b := by
  unfold Py.VC.minK
  split_ifs with h
  · exact (min_eq_right h.le).symm
  · exact (min_eq_left (not_lt.mp h)).symm

theorem sphere_volume_gen (pi r : ℝ) : vc_sphere_volume realFld pi r = some (Gen.Vol.sphereVolume pi r) := by
  simp [vc_sphere_volume, vc_sphere_volume.body, Py.bind, Py.finish, Py.fdiv, Py.LG.powInt, Gen.Vol.sphereVolume, Py.Fld.div, Py.Fld.ofInt,
    List.replicate]

/-- **the generated two-sphere control flow selects the cases of the model**: for centres of equal dimension the translated
`calc_intersect_volume` returns (never raises) the arithmetic translator's `lensVolume` at `d = norm (ca - cb)`: `0` when `d > r1 + r2`, the smaller
ball when `d ≤ |r1 - r2|`, else the lens polynomial.  Hypothesis: `0 ≤ norm _` (any norm). -/
theorem generated_sphere2_cases (norm : List ℝ → ℝ) (hn : ∀ v, 0 ≤ norm v) (pi ra rb : ℝ) (ca cb : List ℝ) (hl : ca.length = cb.length) :
    vc_sphere2 realFld norm pi ca ra cb rb = some (Gen.Vol.lensVolume pi ra rb (norm (vsub ca cb))) := by
  have hd := hn (vsub ca cb)
  have hsv := sphere_volume_gen pi (Py.VC.minK ra rb)
  rw [pyMin_eq] at hsv
  have hsub : Py.LG.subArr ca cb = some (vsub ca cb) := by simp [Py.LG.subArr, hl, vsub]
  unfold Gen.Vol.lensVolume
  by_cases h1 : ra + rb < norm (vsub ca cb)
  · simp [vc_sphere2, vc_sphere2.body, Py.seq, Py.bind, Py.finish, hsub, h1]
  · by_cases h2 : norm (vsub ca cb) ≤ |ra - rb|
    · have h2' : norm (vsub ca cb) ≤ Py.VC.absK (ra - rb) := by rw [pyAbs_eq]; exact h2
      simp [vc_sphere2, vc_sphere2.body, Py.seq, Py.bind, Py.finish, hsub, h1, Py.skip, h2', hsv, C13.absK_eq, h2, pyMin_eq, C13.minK_eq]
    · have h2' : ¬ norm (vsub ca cb) ≤ Py.VC.absK (ra - rb) := by rw [pyAbs_eq]; exact h2
      have hpos : 0 < norm (vsub ca cb) := lt_of_le_of_lt (abs_nonneg _) (not_le.mp h2)
      have h12 : (0:ℝ) < 12 * norm (vsub ca cb) := by linarith
      simp [vc_sphere2, vc_sphere2.body, Py.seq, Py.bind, Py.finish, hsub, h1, Py.skip, Py.fdiv, Py.LG.powInt, Py.Fld.div,
        Py.Fld.ofInt, List.replicate, h2', C13.absK_eq, h2, hpos]

/-- **C13 about the generated control flow**: what the translated `calc_intersect_volume` returns is the true volume of the lens (`π∫ρ²`), for every
pair of radii and every distance (apart, tangent, nested, proper). -/
theorem generated_sphere2_true_volume (norm : List ℝ → ℝ) (hn : ∀ v, 0 ≤ norm v) (ra rb : ℝ) (ca cb : List ℝ) (hl : ca.length = cb.length)
    (h1 : 0 ≤ ra) (h2 : 0 ≤ rb) :
    vc_sphere2 realFld norm Real.pi ca ra cb rb
      = some (Real.pi * ∫ z in (-ra)..ra, C13.lensProfile ra rb (norm (vsub ca cb)) z) := by
  rw [generated_sphere2_cases norm hn _ _ _ _ _ hl, C13.lens_volume ra rb _ h1 h2 (hn _)]

/-- non-vacuity: the hypotheses are satisfiable (two unit balls, distance 3) -/
example : vc_sphere2 realFld (fun _ => 3) Real.pi [0] 1 [3] 1 = some (Gen.Vol.lensVolume Real.pi 1 1 3) :=
  generated_sphere2_cases (fun _ => 3) (fun _ => by norm_num) Real.pi 1 1 [0] [3] rfl

end RefineVolCtl
