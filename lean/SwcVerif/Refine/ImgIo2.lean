import SwcVerif.Gen.AlgoImgIo2
import SwcVerif.Refine.ImgIo
import SwcVerif.Refine.Raster
/-! # C20 (image I/O, second part): the definitions GENERATED (on this run) from `swcgeom/transforms/image_stack.py` (`ToImageStack.__call__`,
`save_tif`, `transform_and_save`, `transform` with the frame conversion translated) and `swcgeom/images/io.py` (`NrrdImageStack` / `V3d*ImageStack`
constructors, `ImageStack.get_full`, `GrayImageStack.get_full`) (`Gen/AlgoImgIo2.lean`) equal closed-form models, for EVERY input. -/
set_option linter.unusedSimpArgs false
set_option linter.unusedSectionVars false
namespace RefineImgIo2
open Gen.Algo Py RefineImgIo

section generic
variable {K : Type} [Inhabited K] [Add K] [Sub K] [Mul K] [OfNat K 0] [OfNat K 1] [LT K] [DecidableLT K] [LE K] [DecidableLE K]

/-! ## `ToImageStack.__call__` -/

/-- **`ToImageStack.__call__` as translated**: `np.stack(frames, axis=0)` of the frames of `transform`, for every list of frames -/
theorem tostack_call_eq (frames : List (NdArr K)) : tostack_call frames = stack0 frames := by
  simp only [tostack_call, tostack_call.body, Py.bind]
  cases stack0 frames <;> rfl

/-- `np.stack(·, axis=0)` of `n ≥ 1` arrays of one shape: shape `n :: shape`, element `[z, i…]` = element `[i…]` of the `z`-th array -/
theorem stack0_spec (a : NdArr K) (r : List (NdArr K)) (sh : List Nat) (h : ∀ b ∈ a :: r, b.shape = sh) :
    ∃ s, stack0 (a :: r) = some s ∧ s.shape = (r.length + 1) :: sh ∧ s.dtype = a.dtype ∧
      ∀ (z : Nat) (i : List Nat), z < r.length + 1 → s.get (z :: i) = ((a :: r)[z]?.getD a).get i := by
  have ha : a.shape = sh := h a List.mem_cons_self
  have hall : (r.all fun b => b.shape == a.shape) = true := by
    simp only [List.all_eq_true, beq_iff_eq]
    intro b hb
    rw [ha]; exact h b (List.mem_cons_of_mem _ hb)
  refine ⟨{ shape := (a :: r).length :: a.shape, get := fun i => ((a :: r).getD (i.headD 0) a).get i.tail, dtype := a.dtype },
    by simp only [stack0, hall, if_true], by simp [ha], rfl, ?_⟩
  intro z i _
  simp [List.getD_eq_getElem?_getD]

/-- `np.stack` of no array, or of arrays of different shapes, raises ValueError -/
theorem stack0_nil : stack0 ([] : List (NdArr K)) = none := rfl
theorem stack0_ragged (a : NdArr K) (r : List (NdArr K)) (b : NdArr K) (hb : b ∈ r) (hne : b.shape ≠ a.shape) : stack0 (a :: r) = none := by
  have : (r.all fun b => b.shape == a.shape) = false := by
    rw [Bool.eq_false_iff]
    intro hall
    simp only [List.all_eq_true, beq_iff_eq] at hall
    exact hne (hall b hb)
  simp [stack0, this]

/-! ## `ToImageStack.save_tif`, `transform_and_save` -/

/-- the `write` call `save_tif` makes for one frame -/
def tifWriteOf (f : NdArr K) : TifWrite K := { frame := f, contiguous := true, photometric := "minisblack", axes := ['Z', 'X', 'Y'] }

theorem save_for1_loop : ∀ (l : List (NdArr K)) (v : tostack_save_tif.V K),
    ∃ f', Py.forEach tostack_save_tif.for1 l v = .next { v with frame := f', written_ := v.written_ ++ l.map tifWriteOf }
  | [], v => ⟨v.frame, by cases v; simp [Py.forEach]⟩
  | f :: l, v => by
    obtain ⟨f', e⟩ := save_for1_loop l { v with frame := f, written_ := v.written_ ++ [tifWriteOf f] }
    refine ⟨f', ?_⟩
    simp only [Py.forEach, tostack_save_tif.for1]
    have : ("ZXY" : String).toList = ['Z', 'X', 'Y'] := by decide
    simp only [this]
    rw [show ({ frame := f, contiguous := true, photometric := "minisblack", axes := ['Z', 'X', 'Y'] } : TifWrite K) = tifWriteOf f from rfl]
    rw [e]
    simp

/-- **`ToImageStack.save_tif` as translated**: one contiguous `minisblack` write with the axes string `ZXY` per frame, in order; never raises -/
theorem save_tif_eq (frames : List (NdArr K)) : tostack_save_tif frames = some (frames.map tifWriteOf, ()) := by
  obtain ⟨f', e⟩ := save_for1_loop frames { (default : tostack_save_tif.V K) with frames := frames }
  simp only [tostack_save_tif, tostack_save_tif.body, e, Py.finish, Option.map_some]
  simp [show (default : tostack_save_tif.V K).written_ = [] from rfl]

/-- **`ToImageStack.transform_and_save` as translated**: the writes of `save_tif` on the frames of `transform` -/
theorem transform_and_save_eq (fname : String) (frames : List (NdArr K)) :
    tostack_transform_and_save fname frames = some (frames.map tifWriteOf, ()) := by
  simp only [tostack_transform_and_save, tostack_transform_and_save.body, save_tif_eq, Py.bind, Py.finish, Option.map_some]
  simp [show (default : tostack_transform_and_save.V K).written_ = [] from rfl]

/-! ## the codec-backed constructors -/

/-- **`NrrdImageStack.__init__` as translated** = the model of `NDArrayImageStack.__init__` on the array the codec returns -/
theorem nrrd_init_eq (F : Py.Fld K) (cast : DType → K → K) (imgs : NdArr K) (dt : Option DType) :
    nrrd_init F cast imgs dt = ndModel F cast imgs dt := by
  simp only [nrrd_init, nrrd_init.body, Py.bind, ndarray_init_eq]
  cases ndModel F cast imgs dt <;> rfl

/-- **`V3dImageStack.__init__` as translated** -/
theorem v3d_init_eq (F : Py.Fld K) (cast : DType → K → K) (imgs : NdArr K) (dt : Option DType) :
    v3d_init F cast imgs dt = ndModel F cast imgs dt := by
  simp only [v3d_init, v3d_init.body, Py.bind, ndarray_init_eq]
  cases ndModel F cast imgs dt <;> rfl

/-- **`V3drawImageStack.__init__`, `V3dpbdImageStack.__init__` as translated** -/
theorem v3draw_init_eq (F : Py.Fld K) (cast : DType → K → K) (imgs : NdArr K) (dt : Option DType) :
    v3draw_init F cast imgs dt = ndModel F cast imgs dt := by
  simp only [v3draw_init, v3draw_init.body, Py.bind, v3d_init_eq]
  cases ndModel F cast imgs dt <;> rfl
theorem v3dpbd_init_eq (F : Py.Fld K) (cast : DType → K → K) (imgs : NdArr K) (dt : Option DType) :
    v3dpbd_init F cast imgs dt = ndModel F cast imgs dt := by
  simp only [v3dpbd_init, v3dpbd_init.body, Py.bind, v3d_init_eq]
  cases ndModel F cast imgs dt <;> rfl

/-! ## `get_full` -/

/-- **`ImageStack.get_full` (`self[:, :, :, :]`) as translated**, on an object that is its array: the array itself when it has at least four
axes, IndexError (too many indices) otherwise -/
theorem imagestack_get_full_eq (imgs : NdArr K) :
    imagestack_get_full imgs = if 4 ≤ imgs.shape.length then some imgs else none := by
  simp only [imagestack_get_full, imagestack_get_full.body, Py.bind, sliceThenInts]
  by_cases h : 4 ≤ imgs.shape.length
  · simp [h, Py.finish]
  · simp [h, Py.finish]

/-- **`GrayImageStack.get_full` as translated** -/
theorem gray_get_full_eq (imgs : NdArr K) : gray_get_full imgs = sliceThenInts imgs 3 [0] := by
  simp only [gray_get_full, gray_get_full.body, Py.bind, ndarray_get_full_eq]
  cases sliceThenInts imgs 3 [0] <;> rfl

/-- `a[:, :, :, 0]` of an `(X, Y, Z, C)` array: the `(X, Y, Z)` array of the first channel; IndexError exactly when `C = 0` -/
theorem gray_spec (imgs : NdArr K) (X Y Z C : Nat) (hs : imgs.shape = [X, Y, Z, C]) :
    (0 < C → ∃ g, gray_get_full imgs = some g ∧ g.shape = [X, Y, Z] ∧ g.dtype = imgs.dtype ∧
        ∀ x y z, g.get [x, y, z] = imgs.get [x, y, z, 0]) ∧ (C = 0 → gray_get_full imgs = none) := by
  rw [gray_get_full_eq]
  constructor
  · intro hC
    refine ⟨{ imgs with shape := [X, Y, Z], get := fun i => imgs.get (i.take 3 ++ [0] ++ i.drop 3) },
      by simp only [sliceThenInts, hs]; simp [hC], rfl, rfl, by intro x y z; simp⟩
  · intro hC
    simp [sliceThenInts, hs, hC]

/-! ## `GrayImageStack.__getitem__`, `__init__` -/

/-- **`GrayImageStack.__getitem__` as translated NEVER returns**: its first statement `v = self[key]` is a call of the method itself, so for every
key and every recursion depth allowed there is no result (Python: RecursionError for every key).  Reported in design_notes/session4/imgio.md /
imgio2.md; `self.imgs[key]` was presumably meant. -/
theorem gray_getitem_never_returns : ∀ (fuel : Nat) (key : Int × Int × Int), gray_getitem (K := K) fuel key = none
  | 0, _ => rfl
  | fuel + 1, key => by
    unfold gray_getitem
    simp only [Py.seq, Py.bind, gray_getitem_never_returns fuel, Py.finish, Option.map_none]

theorem gray_init_eq (imgs : NdArr K) : gray_init imgs = some imgs := rfl

/-! ## `ToImageStack.__init__` -/

/-- **`ToImageStack.__init__` as translated, `resolution` a number**: the field is the float32 conversion of three copies; never raises -/
theorem tostack_init_scalar_eq (cast : DType → K → K) (a : K) :
    tostack_init_scalar cast a = some ([cast .f32 a, cast .f32 a, cast .f32 a], ()) := by
  simp [tostack_init_scalar, tostack_init_scalar.body, Py.seq, Py.finish, Py.len]

/-- **`ToImageStack.__init__` as translated, `resolution` a sequence**: its float32 conversion when it has exactly three entries, AssertionError
otherwise -/
theorem tostack_init_array_eq (cast : DType → K → K) (l : List K) :
    tostack_init_array cast l = if l.length = 3 then some (l.map (cast .f32), ()) else none := by
  have e3 : ((l.length : Int) = 3) ↔ l.length = 3 := by omega
  by_cases h : l.length = 3 <;> simp [tostack_init_array, tostack_init_array.body, Py.seq, Py.skip, Py.finish, Py.len, h, e3]

/-! ## `NDArrayImageStack.__getitem__`, the other key forms -/

theorem ndarray_getitem_int_eq (imgs : NdArr K) (k : Int) : ndarray_getitem_int imgs k = ndIndexPrefix imgs [k] := by
  simp only [ndarray_getitem_int, ndarray_getitem_int.body, Py.bind]; cases ndIndexPrefix imgs [k] <;> rfl
theorem ndarray_getitem_int2_eq (imgs : NdArr K) (k : Int × Int) : ndarray_getitem_int2 imgs k = ndIndexPrefix imgs [k.1, k.2] := by
  simp only [ndarray_getitem_int2, ndarray_getitem_int2.body, Py.bind]; cases ndIndexPrefix imgs [k.1, k.2] <;> rfl
theorem ndarray_getitem_int3_eq (imgs : NdArr K) (k : Int × Int × Int) :
    ndarray_getitem_int3 imgs k = ndIndexPrefix imgs [k.1, k.2.1, k.2.2] := by
  simp only [ndarray_getitem_int3, ndarray_getitem_int3.body, Py.bind]; cases ndIndexPrefix imgs [k.1, k.2.1, k.2.2] <;> rfl
theorem ndarray_getitem_slice_eq (imgs : NdArr K) (k : Slice) : ndarray_getitem_slice imgs k = ndSlice imgs [k] := by
  simp only [ndarray_getitem_slice, ndarray_getitem_slice.body, Py.bind]; cases ndSlice imgs [k] <;> rfl
theorem ndarray_getitem_slice2_eq (imgs : NdArr K) (k : Slice × Slice) : ndarray_getitem_slice2 imgs k = ndSlice imgs [k.1, k.2] := by
  simp only [ndarray_getitem_slice2, ndarray_getitem_slice2.body, Py.bind]; cases ndSlice imgs [k.1, k.2] <;> rfl
theorem ndarray_getitem_slice3_eq (imgs : NdArr K) (k : Slice × Slice × Slice) :
    ndarray_getitem_slice3 imgs k = ndSlice imgs [k.1, k.2.1, k.2.2] := by
  simp only [ndarray_getitem_slice3, ndarray_getitem_slice3.body, Py.bind]; cases ndSlice imgs [k.1, k.2.1, k.2.2] <;> rfl
theorem ndarray_getitem_slice4_eq (imgs : NdArr K) (k : Slice × Slice × Slice × Slice) :
    ndarray_getitem_slice4 imgs k = ndSlice imgs [k.1, k.2.1, k.2.2.1, k.2.2.2] := by
  simp only [ndarray_getitem_slice4, ndarray_getitem_slice4.body, Py.bind]; cases ndSlice imgs [k.1, k.2.1, k.2.2.1, k.2.2.2] <;> rfl

/-- **`stack[x]` on an `(X, Y, Z, C)` stack**: for `0 ≤ x < X` the `(Y, Z, C)` array `g[y, z, c] = imgs[x, y, z, c]`; IndexError exactly when
`x` is outside `-X ≤ x < X` -/
theorem getitem_int_spec (imgs : NdArr K) (X Y Z C : Nat) (hs : imgs.shape = [X, Y, Z, C]) (x : Nat) (hx : x < X) :
    ∃ g, ndarray_getitem_int imgs (x : Int) = some g ∧ g.shape = [Y, Z, C] ∧ ∀ y z c, g.get [y, z, c] = imgs.get [x, y, z, c] := by
  have hn : ndNormIdx X (x : Int) = some x := by
    have : (0 : Int) ≤ x ∧ (x : Int) < X := by omega
    simp [ndNormIdx, this]
  refine ⟨{ imgs with shape := [Y, Z, C], get := fun i => imgs.get ([x] ++ i) }, ?_, rfl, fun y z c => rfl⟩
  rw [ndarray_getitem_int_eq]
  simp [ndIndexPrefix, hs, hn]

theorem getitem_int_out_of_range (imgs : NdArr K) (X Y Z C : Nat) (hs : imgs.shape = [X, Y, Z, C]) (x : Int) (hx : x < -(X : Int) ∨ (X : Int) ≤ x) :
    ndarray_getitem_int imgs x = none := by
  have hn : ndNormIdx X x = none := by
    have h1 : ¬ (0 ≤ x ∧ x < X) := by omega
    have h2 : ¬ (-(X : Int) ≤ x ∧ x < 0) := by omega
    simp [ndNormIdx, h1, h2]
  rw [ndarray_getitem_int_eq]
  simp [ndIndexPrefix, hs, hn]

/-- **the key `[:, :, :, :]`** (what `ImageStack.get_full` passes) through the slice overload: shape and every element of a 4-d stack unchanged -/
theorem getitem_full_slices (imgs : NdArr K) (X Y Z C : Nat) (hs : imgs.shape = [X, Y, Z, C]) :
    ∃ g, ndarray_getitem_slice4 imgs ((none, none, none), (none, none, none), (none, none, none), (none, none, none)) = some g ∧
      g.shape = [X, Y, Z, C] ∧ ∀ x y z c, g.get [x, y, z, c] = imgs.get [x, y, z, c] := by
  have key : ∀ n : Nat, sliceSpan n (none, none, none) = some (0, 1, n) := by
    intro n
    have h0 : ¬ ((n : Int) < 0) := by omega
    simp only [sliceSpan, sliceIndices, Option.getD_none, sliceClamp, rangeLen]
    by_cases hn : n = 0
    · subst hn; simp
    · have : (0 : Int) < n := by omega
      simp [h0, this]
      omega
  rw [ndarray_getitem_slice4_eq]
  refine ⟨{ imgs with shape := [X, Y, Z, C], get := fun i => imgs.get (List.zipWith (fun (p : Int × Int × Nat) (j : Nat) => (p.1 + p.2.1 * j).toNat)
      [(0, 1, X), (0, 1, Y), (0, 1, Z), (0, 1, C)] i ++ i.drop 4) }, ?_, rfl, ?_⟩
  · simp [ndSlice, hs, key]
  · intro x y z c; simp

end generic

/-! ## `transform` with the frame conversion `(255 * voxel[..., 0, 0]).astype(np.uint8)` translated -/

section transform
open RefineRaster Img
variable {σ : Type} [Inhabited σ]
variable (sample : σ → Py.RangeSampler Rat → List (Py.Sdf Rat) → σ × NdArr Rat) (cast : DType → Rat → Rat)

/-- **the frame conversion as translated**: `(255 * voxel[..., 0, 0]).astype(np.uint8)` (`none` = IndexError of the subscript) -/
def frameOpt (v : NdArr Rat) : Option (NdArr Rat) :=
  (ellipsisThenInts v [0, 0]).map fun t => astype cast (mulScalarL (Py.ratFld.ofInt 255) t) .u8

/-- the conversion as a total function (the value where the subscript succeeds) -/
def frameOf (v : NdArr Rat) : NdArr Rat := (frameOpt cast v).getD default

/-- every answer of the sampler can be subscripted by `[..., 0, 0]`: at least two axes, the last two non-empty (sdflit answers `(x, y, 1, 3)`) -/
def VoxOk : Prop := ∀ st s sc, (ellipsisThenInts (sample st s sc).2 [0, 0]).isSome

/-- the frame of an `(X, Y, A, B)` answer with `A, B > 0`: the `(X, Y)` uint8 array of `cast u8 (255 · voxel[x, y, 0, 0])` -/
theorem frameOpt_spec (v : NdArr Rat) (X Y A B : Nat) (hs : v.shape = [X, Y, A, B]) (hA : 0 < A) (hB : 0 < B) :
    ∃ f, frameOpt cast v = some f ∧ f.shape = [X, Y] ∧ f.dtype = .u8 ∧ ∀ x y, f.get [x, y] = cast .u8 (255 * v.get [x, y, 0, 0]) := by
  refine ⟨astype cast (mulScalarL (Py.ratFld.ofInt 255) { v with shape := [X, Y], get := fun i => v.get (i.take 2 ++ [0, 0] ++ i.drop 2) }) .u8,
    ?_, rfl, rfl, ?_⟩
  · simp only [frameOpt, ellipsisThenInts, sliceThenInts, hs]
    simp [hA, hB]
  · intro x y
    have : (Py.ratFld.ofInt 255 : Rat) = 255 := by show ((255 : Int) : Rat) = 255; norm_num
    simp [astype, mulScalarL, this]

theorem nd_frames_loop (hv : VoxOk sample) (dist : Int → Int → Rat) : ∀ (ss : List (Py.RangeSampler Rat)) (v : raster_transform_nd.V σ Rat),
    ∃ s' x' f', Py.forEach (raster_transform_nd.for1 sample Py.ratFld Py.ratFlr dist cast) ss v
      = .next { v with sampler := s', voxel := x', frame := f',
                       cbs := (runFrames sample (frameOf cast) v.scene ss (v.cbs, v.yielded_)).1,
                       yielded_ := (runFrames sample (frameOf cast) v.scene ss (v.cbs, v.yielded_)).2 }
  | [], v => ⟨v.sampler, v.voxel, v.frame, by cases v; simp [Py.forEach, runFrames]⟩
  | s :: ss, v => by
    obtain ⟨t, ht⟩ := Option.isSome_iff_exists.mp (hv v.cbs s v.scene)
    have hf : frameOf cast (sample v.cbs s v.scene).2 = astype cast (mulScalarL (Py.ratFld.ofInt 255) t) .u8 := by
      simp [frameOf, frameOpt, ht]
    obtain ⟨s', x', f', e⟩ := nd_frames_loop hv dist ss
      { v with sampler := s, cbs := (sample v.cbs s v.scene).1, voxel := (sample v.cbs s v.scene).2,
               frame := frameOf cast (sample v.cbs s v.scene).2, yielded_ := v.yielded_ ++ [frameOf cast (sample v.cbs s v.scene).2] }
    refine ⟨s', x', f', ?_⟩
    simp only [Py.forEach, raster_transform_nd.for1, Py.seq, Py.bind, ht]
    rw [← hf, e]
    simp [runFrames]

theorem nd_frames_finish (hv : VoxOk sample) (dist : Int → Int → Rat) (ss : List (Py.RangeSampler Rat)) (v : raster_transform_nd.V σ Rat) :
    (Py.finish (default : Unit) (Py.forEach (raster_transform_nd.for1 sample Py.ratFld Py.ratFlr dist cast) ss v)).map
        (fun r => (r.1.yielded_, r.1.cbs, r.2))
      = some ((runFrames sample (frameOf cast) v.scene ss (v.cbs, v.yielded_)).2,
              (runFrames sample (frameOf cast) v.scene ss (v.cbs, v.yielded_)).1, ()) := by
  obtain ⟨s', x', f', e⟩ := nd_frames_loop sample cast hv dist ss v
  rw [e]
  rfl

/-- **`ToImageStack.transform` as translated with its frame conversion** (`verbose` falsy, no `ranges`, the sampler answering n-d arrays that can
be subscripted by `[..., 0, 0]`): exactly one frame per model sampler — the slices `Img.axisCentres` of the model's bounding box, in order of
increasing z —, the frame being `frameOf` = `(255 * voxel[..., 0, 0]).astype(np.uint8)` of the sampler's answer; fuel = slices + 1 suffices -/
theorem transform_nd_refines (hv : VoxOk sample) (dist : Int → Int → Rat) (pts : List Pt) (hne : pts ≠ []) (sx sy sz : Rat) (hsz : 0 < sz)
    (ids pids : List Int) (scene : List (Py.Sdf Rat)) (F : Nat) (s0 : σ)
    (hsc : raster_get_scene dist (nSlices pts sz + 1 + F) ids pids (rowsOf pts) (radii pts) = some scene) :
    raster_transform_nd sample Py.ratFld Py.ratFlr dist cast (nSlices pts sz + 1 + F) ids pids (rowsOf pts) (radii pts) [sx, sy, sz] s0
      = some ((runFrames sample (frameOf cast) scene (modelSamplers (boxLo pts) (boxHi pts) (sx, sy, sz)) (s0, [])).2,
              (runFrames sample (frameOf cast) scene (modelSamplers (boxLo pts) (boxHi pts) (sx, sy, sz)) (s0, [])).1, ()) := by
  obtain ⟨hmin, hmax⟩ := bbox_refines pts hne
  rw [bcast_rows] at hmin hmax
  simp only [Option.bind_some] at hmin hmax
  obtain ⟨t2, h2, h2'⟩ := Option.map_eq_some_iff.mp hmin
  obtain ⟨t4, h4, h4'⟩ := Option.map_eq_some_iff.mp hmax
  have hs := samplers_refines (boxLo pts).1 (boxLo pts).2.1 (boxLo pts).2.2 (boxHi pts).1 (boxHi pts).2.1 (boxHi pts).2.2 sx sy sz hsz F
  simp only [raster_transform_nd, raster_transform_nd.body, Py.seq, Py.bind, hsc, bcast_rows, h2, h2', h4, h4']
  simp only [boxLo, boxHi, nSlices] at hs ⊢
  rw [hs]
  simp only
  rw [nd_frames_finish sample cast hv]
  rfl

/-- the generated `transform` of 18_raster.py (frame conversion a function parameter) instantiated at the translated conversion IS the
generated `transform` of 18c_imgio2.py: the glue entry `toFrame` is discharged -/
theorem transform_nd_eq_transform (hv : VoxOk sample) (dist : Int → Int → Rat) (pts : List Pt) (hne : pts ≠ []) (sx sy sz : Rat) (hsz : 0 < sz)
    (ids pids : List Int) (scene : List (Py.Sdf Rat)) (F : Nat) (s0 : σ)
    (hsc : raster_get_scene dist (nSlices pts sz + 1 + F) ids pids (rowsOf pts) (radii pts) = some scene) :
    raster_transform_nd sample Py.ratFld Py.ratFlr dist cast (nSlices pts sz + 1 + F) ids pids (rowsOf pts) (radii pts) [sx, sy, sz] s0
      = raster_transform sample Py.ratFld Py.ratFlr dist (frameOf cast) (nSlices pts sz + 1 + F) ids pids (rowsOf pts) (radii pts) [sx, sy, sz] s0 := by
  rw [transform_nd_refines sample cast hv dist pts hne sx sy sz hsz ids pids scene F s0 hsc,
    transform_refines sample (frameOf cast) dist pts hne sx sy sz hsz ids pids scene F s0 hsc]

/-- the answers of the sampler, in order (the state threaded through) -/
def answers (scene : List (Py.Sdf Rat)) : List (Py.RangeSampler Rat) → σ → List (NdArr Rat)
  | [], _ => []
  | s :: ss, st => (sample st s scene).2 :: answers scene ss (sample st s scene).1

theorem runFrames_answers {φ : Type} (toFrame : NdArr Rat → φ) (scene : List (Py.Sdf Rat)) :
    ∀ (ss : List (Py.RangeSampler Rat)) (st : σ) (acc : List φ),
      (runFrames sample toFrame scene ss (st, acc)).2 = acc ++ (answers sample scene ss st).map toFrame
  | [], st, acc => by simp [runFrames, answers]
  | s :: ss, st, acc => by
    simp only [runFrames, answers]
    rw [runFrames_answers toFrame scene ss]
    simp

theorem answers_length (scene : List (Py.Sdf Rat)) : ∀ (ss : List (Py.RangeSampler Rat)) (st : σ), (answers sample scene ss st).length = ss.length
  | [], _ => rfl
  | s :: ss, st => by simp [answers, answers_length scene ss]

end transform

end RefineImgIo2
