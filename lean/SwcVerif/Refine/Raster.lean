import SwcVerif.Gen.AlgoRaster
import SwcVerif.Refine.TravFront
import SwcVerif.Refine.PyLemmas
import SwcVerif.Props.C20
/-! # C20: the definitions GENERATED (on this run) from `swcgeom/transforms/image_stack.py` (`Gen/AlgoRaster.lean`) refine the hand-written
raster model of `Model/Images.lean`, at `K = Rat`:

* `samplers_refines` — `ToImageStack._get_samplers`: the `while z < zmax` loop with `z += stride[2]` yields exactly one sampler per element of
  `Img.axisCentres zmin zmax sz` (count and positions), each with the box `(xmin + sx/2, ymin + sy/2, z) … (xmax, ymax, z + sz - 10⁻⁶)`; fuel
  `count + 1` suffices;
* `bbox_refines` — the bounding box of `ToImageStack.transform` is `Img.bbox` of every coordinate column;
* `leave_refines`, `getScene_refines` — `_get_scene`: through the generated `Tree.traverse`, the scene is the list of `edgeSolid`s of all edges
  (post-order of the traversal), `edgeSolid` = the model's `Img.edgeIsBall` / `Img.edgeBall` rule when `dist` is the Euclidean distance;
* `transform_refines` — `transform` as a whole: one frame per model sampler, every sampler handed the scene of `_get_scene`. -/
namespace RefineRaster
open Gen.Algo Trav Py Img RefineTravFront

/-! ## `_tp3f` -/

theorem tp3f_eq (a b c : Rat) : tp3f [a, b, c] = some (a, b, c) := by
  simp [tp3f, tp3f.body, Py.seq, Py.bind, Py.idx, Py.normIdx, Py.finish]

/-- anything but three entries fails the `assert` -/
theorem tp3f_none (l : List Rat) (h : l.length ≠ 3) : tp3f l = none := by
  have : ¬ ((l.length : Int) = 3) := by omega
  simp [tp3f, tp3f.body, Py.seq, Py.finish, this]

/-! ## `_get_samplers` -/

/-- the sampler of the slice at `z` -/
def slice (lo hi st : Rat × Rat × Rat) (z : Rat) : Py.RangeSampler Rat :=
  ⟨(lo.1, lo.2.1, z), (hi.1, hi.2.1, z + st.2.2 - 1 / 1000000), st⟩

/-- **the model of `_get_samplers`**: one sampler per voxel centre along z (`Img.axisCentres`), over the x/y box shifted by half a voxel -/
def modelSamplers (lo hi st : Rat × Rat × Rat) : List (Py.RangeSampler Rat) :=
  (axisCentres lo.2.2 hi.2.2 st.2.2).map (slice (lo.1 + st.1 / 2, lo.2.1 + st.2.1 / 2, 0) hi st)

/-- the `k`-th slice position -/
def centre (z0 sz : Rat) (k : Nat) : Rat := z0 + sz / 2 + (k : Rat) * sz

theorem axisCentres_eq (z0 z1 sz : Rat) :
    axisCentres z0 z1 sz = (List.range (axisCentres z0 z1 sz).length).map (centre z0 sz) := by
  simp [axisCentres, centre]

theorem centre_lt (z0 z1 sz : Rat) (hsz : 0 < sz) (k : Nat) (h : k < (axisCentres z0 z1 sz).length) : centre z0 sz k < z1 := by
  have g := (C20.grid_covers z0 z1 sz hsz).1 k h
  have e : (axisCentres z0 z1 sz)[k] = centre z0 sz k := by simp [axisCentres, centre]
  rw [e] at g
  exact g.2.2

theorem centre_ge (z0 z1 sz : Rat) (hsz : 0 < sz) : z1 ≤ centre z0 sz (axisCentres z0 z1 sz).length := by
  have g := (C20.grid_covers z0 z1 sz hsz).2
  simp only [centre]
  linarith

/-- **the `while z < zmax` loop**: started at the `k`-th centre with `m` centres to go, it appends exactly those `m` slices and stops (fuel `m + 1`) -/
theorem while_loop (z0 z1 sx sy sz : Rat) (hsz : 0 < sz) (F : Nat) :
    ∀ (m k : Nat) (v : raster_get_samplers.V Rat), k + m = (axisCentres z0 z1 sz).length → v.z = centre z0 sz k → v.zmax = z1 →
      v.stride = [sx, sy, sz] → v.eps = 1 / 1000000 →
      Py.whileF (raster_get_samplers.while1_cond Py.ratFld) (raster_get_samplers.while1_body Py.ratFld) (m + 1 + F) v
        = .next { v with z := centre z0 sz (k + m),
                         yielded_ := v.yielded_ ++ (List.range' k m).map fun i =>
                           slice (v.xmin, v.ymin, 0) (v.xmax, v.ymax, 0) (sx, sy, sz) (centre z0 sz i) } := by
  intro m
  induction m with
  | zero =>
    intro k v hk hz hzm hst _
    have hge := centre_ge z0 z1 sz hsz
    have hk' : k = (axisCentres z0 z1 sz).length := by omega
    have hc : ¬ (v.z < v.zmax) := by rw [hz, hzm, hk']; exact not_lt.mpr hge
    rw [show 0 + 1 + F = F + 1 by omega]
    simp only [Py.whileF, raster_get_samplers.while1_cond, hc, decide_false]
    cases v
    simp_all
  | succ m ih =>
    intro k v hk hz hzm hst he
    have hlt := centre_lt z0 z1 sz hsz k (by omega)
    have hc : v.z < v.zmax := by rw [hz, hzm]; exact hlt
    rw [show m + 1 + 1 + F = (m + 1 + F) + 1 by omega]
    simp only [Py.whileF, raster_get_samplers.while1_cond, hc, decide_true]
    have hb : raster_get_samplers.while1_body Py.ratFld v
        = .next { v with z := v.z + sz,
                         yielded_ := v.yielded_ ++ [slice (v.xmin, v.ymin, 0) (v.xmax, v.ymax, 0) (sx, sy, sz) v.z] } := by
      simp [raster_get_samplers.while1_body, Py.seq, Py.bind, hst, Py.idx, Py.normIdx, tp3f_eq, slice, he]
    rw [hb]
    simp only
    refine (ih (k + 1) { v with z := v.z + sz, yielded_ := v.yielded_ ++ [slice (v.xmin, v.ymin, 0) (v.xmax, v.ymax, 0) (sx, sy, sz) v.z] }
      (by omega) ?_ hzm hst he).trans ?_
    · show v.z + sz = centre z0 sz (k + 1)
      rw [hz]; simp only [centre]; push_cast; ring
    · have e : k + 1 + m = k + (m + 1) := by omega
      simp only [List.range'_succ, List.map_cons, List.append_assoc, List.singleton_append, hz, e]

theorem default_yielded : (default : raster_get_samplers.V Rat).yielded_ = [] := rfl

/-- **`ToImageStack._get_samplers` as translated on this run** equals the model for every box, every resolution with a positive z component
and every fuel ≥ number of slices + 1 (the loop never runs out of fuel) -/
theorem samplers_refines (x0 y0 z0 x1 y1 z1 sx sy sz : Rat) (hsz : 0 < sz) (F : Nat) :
    raster_get_samplers Py.ratFld ((axisCentres z0 z1 sz).length + 1 + F) [x0, y0, z0] [x1, y1, z1] [sx, sy, sz]
      = some (modelSamplers (x0, y0, z0) (x1, y1, z1) (sx, sy, sz), ()) := by
  have h2 : ((2 : Int) : Rat) < 0 ∨ (0 : Rat) < ((2 : Int) : Rat) := Or.inr (by norm_num)
  have hd : Py.divScalar [sx, sy, sz] (Py.Fld.ofInt (2 : Int) : Rat) = some [sx / 2, sy / 2, sz / 2] := by
    simp [Py.divScalar, Py.mapOpt, Py.fdiv, Py.Fld.ofInt, Py.Fld.div]
  have ha : Py.addArr [x0, y0, z0] [sx / 2, sy / 2, sz / 2] = some [x0 + sx / 2, y0 + sy / 2, z0 + sz / 2] := by
    simp [Py.addArr]
  have hw := while_loop z0 z1 sx sy sz hsz F (axisCentres z0 z1 sz).length 0
  simp only [raster_get_samplers, raster_get_samplers.body, Py.seq, Py.bind, hd, ha, tp3f_eq]
  rw [hw _ (by simp) (by simp [centre]) rfl rfl (by simp [Py.Fld.div, Py.Fld.ofInt])]
  simp only [Py.finish, Option.map_some, modelSamplers, default_yielded, List.nil_append]
  rw [axisCentres_eq z0 z1 sz, List.range_eq_range']
  simp [slice, List.map_map, Function.comp_def]

/-- non-vacuity: the box `[-1, 2] × [-1, 2] × [-1, 4]` at resolution `(1, 1/2, 2)` has the three slices `z = 0, 2` … -/
example : (raster_get_samplers Py.ratFld 10 [-1, -1, -1] [2, 2, 4] [1, 1/2, 2]).map (fun r => r.1.map (·.lo.2.2)) = some [0, 2] := by
  decide +kernel

/-! ## the bounding box of `transform` -/

/-- a node: its centre and its radius -/
abbrev Pt := (Rat × Rat × Rat) × Rat

/-- the `(n, 3)` coordinate array `x.xyz()` and the radius column `x.r()` of the nodes -/
def rowsOf (pts : List Pt) : List (List Rat) := pts.map fun p => [p.1.1, p.1.2.1, p.1.2.2]
def radii (pts : List Pt) : List Rat := pts.map (·.2)

/-- the model's bounding box along one coordinate (`Img.bbox` of that coordinate column and the radii) -/
def bboxAx (cx : Pt → Rat) (pts : List Pt) : Rat × Rat := Img.bbox (pts.map cx) (radii pts)

theorem zipWith_map_map {α β γ δ : Type} (g : β → γ → δ) (a : α → β) (b : α → γ) :
    ∀ ps : List α, List.zipWith g (ps.map a) (ps.map b) = ps.map fun p => g (a p) (b p)
  | [] => rfl
  | p :: ps => by simp [zipWith_map_map g a b ps]

theorem bcast_rows (f : Rat → Rat → Rat) (pts : List Pt) :
    Py.bcastCol f (rowsOf pts) (radii pts) = some (pts.map fun p => [f p.1.1 p.2, f p.1.2.1 p.2, f p.1.2.2 p.2]) := by
  simp [Py.bcastCol, rowsOf, radii, zipWith_map_map]

theorem foldl_zipWith3 (f : Rat → Rat → Rat) (gx gy gz : Pt → Rat) : ∀ (ps : List Pt) (a b c : Rat),
    (ps.map fun p => [gx p, gy p, gz p]).foldl (fun acc row => List.zipWith f acc row) [a, b, c]
      = [(ps.map gx).foldl f a, (ps.map gy).foldl f b, (ps.map gz).foldl f c]
  | [], _, _, _ => rfl
  | p :: ps, a, b, c => by simp [foldl_zipWith3 f gx gy gz ps]

theorem reduce_rows (f : Rat → Rat → Rat) (gx gy gz : Pt → Rat) (p : Pt) (ps : List Pt) :
    Py.reduceAxis0 f ((p :: ps).map fun p => [gx p, gy p, gz p])
      = some [(ps.map gx).foldl f (gx p), (ps.map gy).foldl f (gy p), (ps.map gz).foldl f (gz p)] := by
  simp [Py.reduceAxis0, foldl_zipWith3]

theorem bbox_cons (cx : Pt → Rat) (p : Pt) (ps : List Pt) :
    bboxAx cx (p :: ps) = ((((ps.map fun q => cx q - q.2).foldl Py.minK (cx p - p.2)).floor : Rat),
                           (((ps.map fun q => cx q + q.2).foldl Py.maxK (cx p + p.2)).ceil : Rat)) := by
  have e1 : ∀ l : List Rat, ∀ a : Rat, l.foldl (fun a b => if b < a then b else a) a = l.foldl Py.minK a := fun _ _ => rfl
  have e2 : ∀ l : List Rat, ∀ a : Rat, l.foldl (fun a b => if b > a then b else a) a = l.foldl Py.maxK a := fun _ _ => rfl
  simp only [bboxAx, Img.bbox, radii, List.map_cons, List.zip_cons_cons, List.headD_cons, List.foldl_cons, lt_self_iff_false, if_false,
    gt_iff_lt, List.zip_map', List.map_map, Function.comp_def, e1]
  have e3 : ∀ a : Rat, Py.minK a a = a := fun a => by simp [Py.minK]
  rw [e3]
  rfl

/-- **the bounding box of `transform` as translated**: `np.floor(np.min(xyz - r, axis=0))` / `np.ceil(np.max(xyz + r, axis=0))` are the model's
`Img.bbox` of every coordinate column — for every non-empty list of nodes -/
theorem bbox_refines (pts : List Pt) (hne : pts ≠ []) :
    ((Py.bcastCol (fun x y => x - y) (rowsOf pts) (radii pts)).bind Py.minAxis0).map Py.floorArr
      = some [(bboxAx (·.1.1) pts).1, (bboxAx (·.1.2.1) pts).1, (bboxAx (·.1.2.2) pts).1] ∧
    ((Py.bcastCol (fun x y => x + y) (rowsOf pts) (radii pts)).bind Py.maxAxis0).map Py.ceilArr
      = some [(bboxAx (·.1.1) pts).2, (bboxAx (·.1.2.1) pts).2, (bboxAx (·.1.2.2) pts).2] := by
  obtain ⟨p, ps, rfl⟩ := List.exists_cons_of_ne_nil hne
  rw [bcast_rows, bcast_rows, bbox_cons, bbox_cons, bbox_cons]
  simp only [Option.bind_some, Py.minAxis0, Py.maxAxis0]
  rw [reduce_rows Py.minK (fun p => p.1.1 - p.2) (fun p => p.1.2.1 - p.2) (fun p => p.1.2.2 - p.2),
    reduce_rows Py.maxK (fun p => p.1.1 + p.2) (fun p => p.1.2.1 + p.2) (fun p => p.1.2.2 + p.2)]
  simp [Py.floorArr, Py.ceilArr, Py.Flr.floor, Py.Fld.ofInt, Py.Fld.ceil]

/-! ## `_get_scene`: the per-edge case analysis of `leave` -/

/-- row `i` of the table (a default node outside it) -/
def P (pts : List Pt) (i : Int) : Pt := pts.getD i.toNat default

/-- `i` is a row index of the table -/
def ok (pts : List Pt) (i : Int) : Prop := 0 ≤ i ∧ i < pts.length

/-- **the solid `leave` adds for the edge parent `n` → child `c`**: when the distance handed to the comparison is at most `|r_n - r_c|` the
ball of the larger radius (the parent's on a tie), else the round cone -/
def edgeSolid (dist : Int → Int → Rat) (pts : List Pt) (n c : Int) : Py.Sdf Rat :=
  if dist c n ≤ |(P pts n).2 - (P pts c).2| then
    (if (P pts n).2 ≥ (P pts c).2 then .sphere (P pts n).1 (P pts n).2 else .sphere (P pts c).1 (P pts c).2)
  else .cone (P pts n).1 (P pts c).1 (P pts n).2 (P pts c).2

theorem absK_eq (x : Rat) : Py.absK x = |x| := by
  unfold Py.absK
  split
  · rw [abs_of_neg ‹_›]; ring
  · rw [abs_of_nonneg (not_lt.mp ‹_›)]

theorem idx_radii (pts : List Pt) (i : Int) (h : ok pts i) : Py.idx (radii pts) i = some (P pts i).2 := by
  obtain ⟨k, rfl⟩ := Int.eq_ofNat_of_zero_le h.1
  have hk : k < pts.length := by have := h.2; omega
  rw [Py.idx_nat _ _ (by simpa [radii] using hk)]
  simp [radii, P, hk]

theorem idx_rows (pts : List Pt) (i : Int) (h : ok pts i) :
    Py.idx (rowsOf pts) i = some [(P pts i).1.1, (P pts i).1.2.1, (P pts i).1.2.2] := by
  obtain ⟨k, rfl⟩ := Int.eq_ofNat_of_zero_le h.1
  have hk : k < pts.length := by have := h.2; omega
  rw [Py.idx_nat _ _ (by simpa [rowsOf] using hk)]
  simp [rowsOf, P, hk]

/-- one iteration of `for c in children` -/
theorem for1_step (dist : Int → Int → Rat) (pts : List Pt) (c : Int) (v : raster_leave.V Rat) (hx : v.xyz = rowsOf pts) (hr : v.rs = radii pts)
    (hn : ok pts v.n) (hc : ok pts c) :
    ∃ big' sdf', raster_leave.for1 dist c v = .next { v with c := c, big := big', sdf := sdf', scene := v.scene ++ [edgeSolid dist pts v.n c] } := by
  have ige : ∀ a b : Rat, (a ≥ b) = (b ≤ a) := fun _ _ => rfl
  by_cases h1 : dist c v.n ≤ |(P pts v.n).2 - (P pts c).2|
  · by_cases h2 : (P pts c).2 ≤ (P pts v.n).2
    · refine ⟨v.n, .sphere (P pts v.n).1 (P pts v.n).2, ?_⟩
      simp [raster_leave.for1, Py.seq, Py.bind, hx, hr, idx_radii, idx_rows, hn, hc, absK_eq, h1, h2, tp3f_eq, edgeSolid, ige]
    · refine ⟨c, .sphere (P pts c).1 (P pts c).2, ?_⟩
      simp [raster_leave.for1, Py.seq, Py.bind, hx, hr, idx_radii, idx_rows, hn, hc, absK_eq, h1, h2, tp3f_eq, edgeSolid, ige]
  · refine ⟨v.big, .cone (P pts v.n).1 (P pts c).1 (P pts v.n).2 (P pts c).2, ?_⟩
    simp [raster_leave.for1, Py.seq, Py.bind, hx, hr, idx_radii, idx_rows, hn, hc, absK_eq, h1, tp3f_eq, edgeSolid]

/-- the loop `for c in children` of `leave` appends the solids of the edges to the children, in order -/
theorem for1_loop (dist : Int → Int → Rat) (pts : List Pt) : ∀ (cs : List Int) (v : raster_leave.V Rat), v.xyz = rowsOf pts → v.rs = radii pts →
    ok pts v.n → (∀ c ∈ cs, ok pts c) →
    ∃ c' big' sdf', Py.forEach (raster_leave.for1 dist) cs v
      = .next { v with c := c', big := big', sdf := sdf', scene := v.scene ++ cs.map (edgeSolid dist pts v.n) }
  | [], v, _, _, _, _ => ⟨v.c, v.big, v.sdf, by cases v; simp [Py.forEach]⟩
  | c :: cs, v, hx, hr, hn, hcs => by
    obtain ⟨b1, s1, e1⟩ := for1_step dist pts c v hx hr hn (hcs c List.mem_cons_self)
    obtain ⟨c2, b2, s2, e2⟩ := for1_loop dist pts cs
      { v with c := c, big := b1, sdf := s1, scene := v.scene ++ [edgeSolid dist pts v.n c] } hx hr hn
      (fun c' h => hcs c' (List.mem_cons_of_mem _ h))
    refine ⟨c2, b2, s2, ?_⟩
    simp only [Py.forEach, e1]
    rw [e2]
    simp

/-- **the `leave` closure as translated on this run**: on rows of the table it never raises, leaves the coordinate / radius columns alone,
appends the solid of every edge to a child (in the order of the children) and returns the node -/
theorem leave_refines (dist : Int → Int → Rat) (pts : List Pt) (sc : List (Py.Sdf Rat)) (n : Int) (ks : List Int)
    (hn : ok pts n) (hks : ∀ c ∈ ks, ok pts c) :
    raster_leave dist (sc, rowsOf pts, radii pts) n ks
      = some ((sc ++ ks.map (edgeSolid dist pts n), rowsOf pts, radii pts), n) := by
  obtain ⟨c', b', s', e⟩ := for1_loop dist pts ks
    { (default : raster_leave.V Rat) with n := n, children := ks, scene := sc, xyz := rowsOf pts, rs := radii pts } rfl rfl hn hks
  simp only [raster_leave, raster_leave.body, Py.seq, e, Py.finish, Option.map_some]

/-! ### the whole scene, through the generated `Tree.traverse` -/

mutual
/-- **the model scene of a tree**: the solids in the order `_get_scene` adds them — the subtrees of the children from the last to the first,
then the edges from the node to its children in table order -/
def sceneRose (E : Int → Int → Py.Sdf Rat) : Rose → List (Py.Sdf Rat)
  | .node i ks => sceneRoseL E ks ++ (ks.map Rose.id).map (E i)
def sceneRoseL (E : Int → Int → Py.Sdf Rat) : List Rose → List (Py.Sdf Rat)
  | [] => []
  | r :: rs => sceneRoseL E rs ++ sceneRose E r
end

mutual
theorem spec_scene (dist : Int → Int → Rat) (pts : List Pt) :
    ∀ (r : Rose) (pv : Option Unit) (sc : List (Py.Sdf Rat)), (∀ j ∈ r.ids, ok pts j) →
      spec Py.absent2 (Py.wrap2 (raster_leave dist)) r pv (some (sc, rowsOf pts, radii pts))
        = (some (sc ++ sceneRose (edgeSolid dist pts) r, rowsOf pts, radii pts), r.id)
  | .node i ks, pv, sc, hok => by
    have hi : ok pts i := hok i (by simp [Rose.ids])
    have hks : ∀ c ∈ ks.map Rose.id, ok pts c := by
      intro c hc
      obtain ⟨k, hk, rfl⟩ := List.mem_map.mp hc
      exact hok _ (by simp [Rose.ids, mem_idsL_of_mem hk])
    simp only [spec, Py.absent2]
    rw [specRev_scene dist pts ks () sc (fun j hj => hok j (by simp [Rose.ids, hj]))]
    simp only [Py.wrap2, leave_refines dist pts _ i _ hi hks, sceneRose, Rose.id, List.append_assoc]
theorem specRev_scene (dist : Int → Int → Rat) (pts : List Pt) :
    ∀ (ks : List Rose) (cur : Unit) (sc : List (Py.Sdf Rat)), (∀ j ∈ idsL ks, ok pts j) →
      specRev Py.absent2 (Py.wrap2 (raster_leave dist)) ks cur (some (sc, rowsOf pts, radii pts))
        = (some (sc ++ sceneRoseL (edgeSolid dist pts) ks, rowsOf pts, radii pts), ks.map Rose.id)
  | [], _, sc, _ => by simp [specRev, sceneRoseL]
  | r :: rs, cur, sc, hok => by
    simp only [specRev]
    rw [specRev_scene dist pts rs cur sc (fun j hj => hok j (by simp [idsL, hj]))]
    simp only
    rw [spec_scene dist pts r (some cur) _ (fun j hj => hok j (by simp [idsL, hj]))]
    simp [sceneRoseL, List.append_assoc]
end

/-- **`ToImageStack._get_scene` as translated on this run**: on every tree (a table whose subtree at node 0 is `r`, every node a row of the
coordinate table) the call — through the generated `Tree.traverse` and `_traverse_dfs` — never raises, never runs out of fuel
(`2·size + 1` suffices) and returns the model scene: one solid per edge, chosen by `edgeSolid` -/
theorem getScene_refines (dist : Int → Int → Rat) (pts : List Pt) (ids pids : List Int) (r : Rose) (hR : Represents r ids pids) (h0 : r.id = 0)
    (hrows : Rows r ids) (hok : ∀ j ∈ r.ids, ok pts j) (F : Nat) :
    raster_get_scene dist (2 * r.size + F + 1) ids pids (rowsOf pts) (radii pts) = some (sceneRose (edgeSolid dist pts) r) := by
  simp [raster_get_scene, raster_get_scene.body, Py.seq, Py.bind, tree_traverse_l_refines _ ids pids r hR h0 hrows _ F,
    spec_scene dist pts r none [] hok, Py.unwrapCb, Py.finish]

/-! ### the case analysis is the model's `edgeIsBall` / `edgeBall` rule -/

/-- the solid of the model for an edge between the balls `(a, ra)` and `(b, rb)` (`Model/Images.lean`): the larger ball when one end ball
contains the other (`Img.edgeIsBall`, `Img.edgeBall`), else the round cone -/
def modelSolid (a b : Rat × Rat × Rat) (ra rb : Rat) : Py.Sdf Rat :=
  if Img.edgeIsBall a b ra rb then .sphere (Img.edgeBall a b ra rb).1 (Img.edgeBall a b ra rb).2 else .cone a b ra rb

/-- **the generated edge case analysis is the model's rule** whenever the distance handed to the comparison is the Euclidean distance of the two
centres (non-negative, its square the squared distance) -/
theorem edgeSolid_model (dist : Int → Int → Rat) (pts : List Pt) (n c : Int) (hd0 : 0 ≤ dist c n)
    (hd : dist c n * dist c n = Img.sqd (P pts n).1 (P pts c).1) :
    edgeSolid dist pts n c = modelSolid (P pts n).1 (P pts c).1 (P pts n).2 (P pts c).2 := by
  have key : dist c n ≤ |(P pts n).2 - (P pts c).2|
      ↔ Img.sqd (P pts n).1 (P pts c).1 ≤ ((P pts n).2 - (P pts c).2) * ((P pts n).2 - (P pts c).2) := by
    rw [← hd, ← abs_mul_abs_self ((P pts n).2 - (P pts c).2)]
    exact mul_self_le_mul_self_iff hd0 (abs_nonneg _)
  unfold edgeSolid modelSolid Img.edgeIsBall Img.edgeBall
  by_cases h : dist c n ≤ |(P pts n).2 - (P pts c).2|
  · have h' := key.mp h
    by_cases h2 : (P pts n).2 ≥ (P pts c).2 <;> simp [h, h', h2]
  · have h' : ¬ _ := fun x => h (key.mpr x)
    simp [h, h']

/-! ## `transform` as a whole -/

section transform
variable {σ ψ φ : Type} [Inhabited σ] [Inhabited ψ] [Inhabited φ]
variable (sample : σ → Py.RangeSampler Rat → List (Py.Sdf Rat) → σ × ψ) (toFrame : ψ → φ)

/-- the model of the frame loop: every sampler is handed to the (stateful) `sample` callback together with the scene, in order; one frame each -/
def runFrames (scene : List (Py.Sdf Rat)) : List (Py.RangeSampler Rat) → σ × List φ → σ × List φ
  | [], acc => acc
  | s :: ss, acc => runFrames scene ss ((sample acc.1 s scene).1, acc.2 ++ [toFrame (sample acc.1 s scene).2])

theorem frames_loop (dist : Int → Int → Rat) : ∀ (ss : List (Py.RangeSampler Rat)) (v : raster_transform.V σ ψ φ Rat),
    ∃ s' x' f', Py.forEach (raster_transform.for1 sample Py.ratFld Py.ratFlr dist toFrame) ss v
      = .next { v with sampler := s', voxel := x', frame := f',
                       cbs := (runFrames sample toFrame v.scene ss (v.cbs, v.yielded_)).1,
                       yielded_ := (runFrames sample toFrame v.scene ss (v.cbs, v.yielded_)).2 }
  | [], v => ⟨v.sampler, v.voxel, v.frame, by cases v; simp [Py.forEach, runFrames]⟩
  | s :: ss, v => by
    obtain ⟨s', x', f', e⟩ := frames_loop dist ss
      { v with sampler := s, cbs := (sample v.cbs s v.scene).1, voxel := (sample v.cbs s v.scene).2, frame := toFrame (sample v.cbs s v.scene).2,
               yielded_ := v.yielded_ ++ [toFrame (sample v.cbs s v.scene).2] }
    refine ⟨s', x', f', ?_⟩
    simp only [Py.forEach, raster_transform.for1, Py.seq]
    rw [e]
    simp [runFrames]

theorem frames_finish (dist : Int → Int → Rat) (ss : List (Py.RangeSampler Rat)) (v : raster_transform.V σ ψ φ Rat) :
    (Py.finish (default : Unit) (Py.forEach (raster_transform.for1 sample Py.ratFld Py.ratFlr dist toFrame) ss v)).map
        (fun r => (r.1.yielded_, r.1.cbs, r.2))
      = some ((runFrames sample toFrame v.scene ss (v.cbs, v.yielded_)).2, (runFrames sample toFrame v.scene ss (v.cbs, v.yielded_)).1, ()) := by
  obtain ⟨s', x', f', e⟩ := frames_loop sample toFrame dist ss v
  rw [e]
  rfl

/-- the corners of the model's bounding box -/
def boxLo (pts : List Pt) : Rat × Rat × Rat := ((bboxAx (·.1.1) pts).1, (bboxAx (·.1.2.1) pts).1, (bboxAx (·.1.2.2) pts).1)
def boxHi (pts : List Pt) : Rat × Rat × Rat := ((bboxAx (·.1.1) pts).2, (bboxAx (·.1.2.1) pts).2, (bboxAx (·.1.2.2) pts).2)

/-- number of z slices of the raster -/
def nSlices (pts : List Pt) (sz : Rat) : Nat := (axisCentres (boxLo pts).2.2 (boxHi pts).2.2 sz).length

/-- **`ToImageStack.transform` as translated on this run** (`verbose` falsy, no `ranges`): for every non-empty table of nodes, every resolution
with a positive z component, every stateful sampler callback and whatever scene the generated `_get_scene` returns, the generator yields exactly
one frame per model sampler — the slices `Img.axisCentres` of the model's bounding box `Img.bbox`, in order of increasing z —, every sampler
being handed that scene; fuel = number of slices + 1 suffices for the slice loop -/
theorem transform_refines (dist : Int → Int → Rat) (pts : List Pt) (hne : pts ≠ []) (sx sy sz : Rat) (hsz : 0 < sz) (ids pids : List Int)
    (scene : List (Py.Sdf Rat)) (F : Nat) (s0 : σ)
    (hsc : raster_get_scene dist (nSlices pts sz + 1 + F) ids pids (rowsOf pts) (radii pts) = some scene) :
    raster_transform sample Py.ratFld Py.ratFlr dist toFrame (nSlices pts sz + 1 + F) ids pids (rowsOf pts) (radii pts) [sx, sy, sz] s0
      = some ((runFrames sample toFrame scene (modelSamplers (boxLo pts) (boxHi pts) (sx, sy, sz)) (s0, [])).2,
              (runFrames sample toFrame scene (modelSamplers (boxLo pts) (boxHi pts) (sx, sy, sz)) (s0, [])).1, ()) := by
  obtain ⟨hmin, hmax⟩ := bbox_refines pts hne
  rw [bcast_rows] at hmin hmax
  simp only [Option.bind_some] at hmin hmax
  obtain ⟨t2, h2, h2'⟩ := Option.map_eq_some_iff.mp hmin
  obtain ⟨t4, h4, h4'⟩ := Option.map_eq_some_iff.mp hmax
  have hs := samplers_refines (boxLo pts).1 (boxLo pts).2.1 (boxLo pts).2.2 (boxHi pts).1 (boxHi pts).2.1 (boxHi pts).2.2 sx sy sz hsz F
  simp only [raster_transform, raster_transform.body, Py.seq, Py.bind, hsc, bcast_rows, h2, h2', h4, h4']
  simp only [boxLo, boxHi, nSlices] at hs ⊢
  rw [hs]
  simp only
  rw [frames_finish]
  rfl

end transform

end RefineRaster
