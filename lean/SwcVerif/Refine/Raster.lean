import SwcVerif.Gen.AlgoRaster
import SwcVerif.Refine.TravFront
import SwcVerif.Refine.PyLemmas
import SwcVerif.Props.C20
/-! # C20: the definitions GENERATED (on this run) from `swcgeom/transforms/image_stack.py` (`Gen/AlgoRaster.lean`) refine the hand-written
raster model of `Model/Images.lean`, at `K = Rat`:

* `samplers_refines` — `ToImageStack._get_samplers`: the `while z < zmax` loop with `z += stride[2]` yields exactly one sampler per element of
  `Img.axisCentres zmin zmax sz` (count and positions), each with the box `(xmin + sx/2, ymin + sy/2, z) … (xmax, ymax, z + sz - 10⁻⁶)`; fuel
  `count + 1` suffices;
* `bbox_refines` — the bounding box of `ToImageStack.transform` is `Img.bbox` of every coordinate column;
* `leave_refines`, `getScene_refines` — `_get_scene`: through the generated `Tree.traverse`, the scene is the list of `edgeSolid`s of all edges
  (post-order of the traversal), `edgeSolid` = the model's `Img.edgeIsBall` / `Img.edgeBall` rule when `dist` is the Euclidean distance;
* `transform_refines` — `transform` as a whole: one frame per model sampler, every sampler handed the scene of `_get_scene`. -/
namespace RefineRaster
open Gen.Algo Trav Py Img RefineTravFront

/-! ## `_tp3f` -/

theorem tp3f_eq (a b c : Rat) : tp3f [a, b, c] = some (a, b, c) := by
  simp [tp3f, tp3f.body, Py.seq, Py.bind, Py.idx, Py.normIdx, Py.finish]

/-- anything but three entries fails the `assert` -/
theorem tp3f_none (l : List Rat) (h : l.length ≠ 3) : tp3f l = none := by
  have : ¬ ((l.length : Int) = 3) := by omega
  simp [tp3f, tp3f.body, Py.seq, Py.finish, this]

/-! ## `_get_samplers` -/

/-- the sampler of the slice at `z` -/
def slice (lo hi st : Rat × Rat × Rat) (z : Rat) : Py.RangeSampler Rat :=
  ⟨(lo.1, lo.2.1, z), (hi.1, hi.2.1, z + st.2.2 - 1 / 1000000), st⟩

/-- **the model of `_get_samplers`**: one sampler per voxel centre along z (`Img.axisCentres`), over the x/y box shifted by half a voxel -/
def modelSamplers (lo hi st : Rat × Rat × Rat) : List (Py.RangeSampler Rat) :=
  (axisCentres lo.2.2 hi.2.2 st.2.2).map (slice (lo.1 + st.1 / 2, lo.2.1 + st.2.1 / 2, 0) hi st)

/-- the `k`-th slice position -/
def centre (z0 sz : Rat) (k : Nat) : Rat := z0 + sz / 2 + (k : Rat) * sz

theorem axisCentres_eq (z0 z1 sz : Rat) :
    axisCentres z0 z1 sz = (List.range (axisCentres z0 z1 sz).length).map (centre z0 sz) := by
  simp [axisCentres, centre]

theorem centre_lt (z0 z1 sz : Rat) (hsz : 0 < sz) (k : Nat) (h : k < (axisCentres z0 z1 sz).length) : centre z0 sz k < z1 := by
  have g := (C20.grid_covers z0 z1 sz hsz).1 k h
  have e : (axisCentres z0 z1 sz)[k] = centre z0 sz k := by simp [axisCentres, centre]
  rw [e] at g
  exact g.2.2

theorem centre_ge (z0 z1 sz : Rat) (hsz : 0 < sz) : z1 ≤ centre z0 sz (axisCentres z0 z1 sz).length := by
  have g := (C20.grid_covers z0 z1 sz hsz).2
  simp only [centre]
  linarith

/-- **the `while z < zmax` loop**: started at the `k`-th centre with `m` centres to go, it appends exactly those `m` slices and stops (fuel `m + 1`) -/
theorem while_loop (z0 z1 sx sy sz : Rat) (hsz : 0 < sz) (F : Nat) :
    ∀ (m k : Nat) (v : raster_get_samplers.V Rat), k + m = (axisCentres z0 z1 sz).length → v.z = centre z0 sz k → v.zmax = z1 →
      v.stride = [sx, sy, sz] → v.eps = 1 / 1000000 →
      Py.whileF (raster_get_samplers.while1_cond Py.ratFld) (raster_get_samplers.while1_body Py.ratFld) (m + 1 + F) v
        = .next { v with z := centre z0 sz (k + m),
                         yielded_ := v.yielded_ ++ (List.range' k m).map fun i =>
                           slice (v.xmin, v.ymin, 0) (v.xmax, v.ymax, 0) (sx, sy, sz) (centre z0 sz i) } := by
  intro m
  induction m with
  | zero =>
    intro k v hk hz hzm hst _
    have hge := centre_ge z0 z1 sz hsz
    have hk' : k = (axisCentres z0 z1 sz).length := by omega
    have hc : ¬ (v.z < v.zmax) := by rw [hz, hzm, hk']; exact not_lt.mpr hge
    rw [show 0 + 1 + F = F + 1 by omega]
    simp only [Py.whileF, raster_get_samplers.while1_cond, hc, decide_false]
    cases v
    simp_all
  | succ m ih =>
    intro k v hk hz hzm hst he
    have hlt := centre_lt z0 z1 sz hsz k (by omega)
    have hc : v.z < v.zmax := by rw [hz, hzm]; exact hlt
    rw [show m + 1 + 1 + F = (m + 1 + F) + 1 by omega]
    simp only [Py.whileF, raster_get_samplers.while1_cond, hc, decide_true]
    have hb : raster_get_samplers.while1_body Py.ratFld v
        = .next { v with z := v.z + sz,
                         yielded_ := v.yielded_ ++ [slice (v.xmin, v.ymin, 0) (v.xmax, v.ymax, 0) (sx, sy, sz) v.z] } := by
      simp [raster_get_samplers.while1_body, Py.seq, Py.bind, hst, Py.idx, Py.normIdx, tp3f_eq, slice, he]
    rw [hb]
    simp only
    refine (ih (k + 1) { v with z := v.z + sz, yielded_ := v.yielded_ ++ [slice (v.xmin, v.ymin, 0) (v.xmax, v.ymax, 0) (sx, sy, sz) v.z] }
      (by omega) ?_ hzm hst he).trans ?_
    · show v.z + sz = centre z0 sz (k + 1)
      rw [hz]; simp only [centre]; push_cast; ring
    · have e : k + 1 + m = k + (m + 1) := by omega
      simp only [List.range'_succ, List.map_cons, List.append_assoc, List.singleton_append, hz, e]

theorem default_yielded : (default : raster_get_samplers.V Rat).yielded_ = [] := rfl

/-- **`ToImageStack._get_samplers` as translated on this run** equals the model for every box, every resolution with a positive z component
and every fuel ≥ number of slices + 1 (the loop never runs out of fuel) -/
theorem samplers_refines (x0 y0 z0 x1 y1 z1 sx sy sz : Rat) (hsz : 0 < sz) (F : Nat) :
    raster_get_samplers Py.ratFld ((axisCentres z0 z1 sz).length + 1 + F) [x0, y0, z0] [x1, y1, z1] [sx, sy, sz]
      = some (modelSamplers (x0, y0, z0) (x1, y1, z1) (sx, sy, sz), ()) := by
  have h2 : ((2 : Int) : Rat) < 0 ∨ (0 : Rat) < ((2 : Int) : Rat) := Or.inr (by norm_num)
  have hd : Py.divScalar [sx, sy, sz] (Py.Fld.ofInt (2 : Int) : Rat) = some [sx / 2, sy / 2, sz / 2] := by
    simp [Py.divScalar, Py.mapOpt, Py.fdiv, Py.Fld.ofInt, Py.Fld.div]
  have ha : Py.addArr [x0, y0, z0] [sx / 2, sy / 2, sz / 2] = some [x0 + sx / 2, y0 + sy / 2, z0 + sz / 2] := by
    simp [Py.addArr]
  have hw := while_loop z0 z1 sx sy sz hsz F (axisCentres z0 z1 sz).length 0
  simp only [raster_get_samplers, raster_get_samplers.body, Py.seq, Py.bind, hd, ha, tp3f_eq]
  rw [hw _ (by simp) (by simp [centre]) rfl rfl (by simp [Py.Fld.div, Py.Fld.ofInt])]
  simp only [Py.finish, Option.map_some, modelSamplers, default_yielded, List.nil_append]
  rw [axisCentres_eq z0 z1 sz, List.range_eq_range']
  simp [slice, List.map_map, Function.comp_def]

/-- non-vacuity: the box `[-1, 2] × [-1, 2] × [-1, 4]` at resolution `(1, 1/2, 2)` has the three slices `z = 0, 2` … -/
example : (raster_get_samplers Py.ratFld 10 [-1, -1, -1] [2, 2, 4] [1, 1/2, 2]).map (fun r => r.1.map (·.lo.2.2)) = some [0, 2] := by
  decide +kernel

end RefineRaster
