import SwcVerif.Model.PyPopFront
import Mathlib.Data.List.Sort
import Mathlib.Tactic.Ring
import Mathlib.Tactic.Linarith
/-! # `range(*slice(a, b, c).indices(n))` is the sub-sequence the slice designates — for EVERY `n`, bounds and step

`Py.PF.sliceIndices` is CPython's clamping algorithm and `Py.PF.range3` the arithmetic progression `range(start, stop, step)`; the
theorems here identify their composition with an independent set-builder over `range(n)` (the positions between the normalised
bounds that lie on the step lattice, ascending for a positive and descending for a negative step).  Used by `C19.generated_pop_slice`. -/
namespace RefineSlice
open Py

/-- two strictly increasing lists with the same members are equal -/
theorem eq_of_lt_sorted {l₁ l₂ : List Int} (h₁ : l₁.Pairwise (· < ·)) (h₂ : l₂.Pairwise (· < ·)) (hm : ∀ x, x ∈ l₁ ↔ x ∈ l₂) :
    l₁ = l₂ := by
  have n₁ : l₁.Nodup := h₁.imp (fun h => ne_of_lt h)
  have n₂ : l₂.Nodup := h₂.imp (fun h => ne_of_lt h)
  exact List.Perm.eq_of_pairwise (le := (· < ·)) (fun a b _ _ hab hba => absurd hab (not_lt.mpr (le_of_lt hba)))
    h₁ h₂ ((List.perm_ext_iff_of_nodup n₁ n₂).2 hm)

/-- two strictly decreasing lists with the same members are equal -/
theorem eq_of_gt_sorted {l₁ l₂ : List Int} (h₁ : l₁.Pairwise (· > ·)) (h₂ : l₂.Pairwise (· > ·)) (hm : ∀ x, x ∈ l₁ ↔ x ∈ l₂) :
    l₁ = l₂ := by
  have n₁ : l₁.Nodup := h₁.imp (fun h => ne_of_gt h)
  have n₂ : l₂.Nodup := h₂.imp (fun h => ne_of_gt h)
  exact List.Perm.eq_of_pairwise (le := (· > ·)) (fun a b _ _ hab hba => absurd hab (not_lt.mpr (le_of_lt hba)))
    h₁ h₂ ((List.perm_ext_iff_of_nodup n₁ n₂).2 hm)

theorem range_sorted (n : Int) : (Py.range n).Pairwise (· < ·) := by
  unfold Py.range
  exact List.Pairwise.map _ (fun a b hab => by exact_mod_cast hab) List.pairwise_lt_range

theorem mem_range {n x : Int} : x ∈ Py.range n ↔ 0 ≤ x ∧ x < n := by
  unfold Py.range
  simp only [List.mem_map, List.mem_range]
  constructor
  · rintro ⟨k, hk, rfl⟩; omega
  · rintro ⟨h0, h1⟩; exact ⟨x.toNat, by omega, by omega⟩

/-- members of an arithmetic progression with `cnt = ⌈(d)/step⌉` terms: `k < cnt ↔ k·step < d` -/
theorem lt_count_iff {d step : Int} (hs : 0 < step) (k : Nat) :
    k < ((d + step - 1) / step).toNat ↔ (k : Int) * step < d := by
  have h1 : (k : Nat) < ((d + step - 1) / step).toNat ↔ ((k : Int) + 1) ≤ (d + step - 1) / step := by omega
  rw [h1, Int.le_ediv_iff_mul_le hs]
  constructor <;> intro h <;> nlinarith

/-- positive step: the progression `lo, lo+step, …` below `hi` = the positions of `range n` in `[lo, hi)` on the step lattice -/
theorem up_eq (n lo hi step : Int) (hs : 0 < step) (hlo : 0 ≤ lo) (hhi : hi ≤ n) :
    (List.range ((hi - lo + step - 1) / step).toNat).map (fun (k : Nat) => lo + (k : Int) * step) =
      (Py.range n).filter (fun i => decide (lo ≤ i ∧ i < hi ∧ (i - lo) % step = 0)) := by
  apply eq_of_lt_sorted
  · refine List.Pairwise.map _ (fun a b hab => ?_) List.pairwise_lt_range
    have : (a : Int) < b := by exact_mod_cast hab
    nlinarith
  · exact (range_sorted n).filter _
  · intro x
    simp only [List.mem_map, List.mem_range, List.mem_filter, mem_range, decide_eq_true_eq]
    constructor
    · rintro ⟨k, hk, rfl⟩
      rw [lt_count_iff hs] at hk
      have hk0 : (0 : Int) ≤ (k : Int) * step := by positivity
      refine ⟨⟨by omega, by omega⟩, by omega, by omega, ?_⟩
      have : lo + (k : Int) * step - lo = (k : Int) * step := by ring
      rw [this]; exact Int.mul_emod_left _ _
    · rintro ⟨⟨_, _⟩, h1, h2, h3⟩
      have hd : (x - lo) / step * step = x - lo := Int.ediv_mul_cancel (Int.dvd_of_emod_eq_zero h3)
      have hq0 : 0 ≤ (x - lo) / step := Int.ediv_nonneg (by omega) (le_of_lt hs)
      refine ⟨((x - lo) / step).toNat, ?_, ?_⟩
      · rw [lt_count_iff hs, Int.toNat_of_nonneg hq0, hd]; omega
      · rw [Int.toNat_of_nonneg hq0, hd]; ring

/-- negative step `-m`: the progression `lo, lo-m, …` above `hi` = the positions of `range n` in `(hi, lo]` on the lattice, descending -/
theorem down_eq (n lo hi m : Int) (hs : 0 < m) (hlo : lo < n) (hhi : -1 ≤ hi) :
    (List.range ((lo - hi + m - 1) / m).toNat).map (fun (k : Nat) => lo + (k : Int) * (-m)) =
      ((Py.range n).filter (fun i => decide (hi < i ∧ i ≤ lo ∧ (lo - i) % m = 0))).reverse := by
  apply eq_of_gt_sorted
  · refine List.Pairwise.map _ (fun a b hab => ?_) List.pairwise_lt_range
    have : (a : Int) < b := by exact_mod_cast hab
    show lo + (a : Int) * (-m) > lo + (b : Int) * (-m)
    nlinarith
  · rw [List.pairwise_reverse]
    exact ((range_sorted n).filter _).imp (fun h => h)
  · intro x
    simp only [List.mem_map, List.mem_range, List.mem_reverse, List.mem_filter, mem_range, decide_eq_true_eq]
    constructor
    · rintro ⟨k, hk, rfl⟩
      rw [lt_count_iff hs] at hk
      have hk0 : (0 : Int) ≤ (k : Int) * m := by positivity
      have e : (k : Int) * (-m) = -((k : Int) * m) := by ring
      refine ⟨⟨by omega, by omega⟩, by omega, by omega, ?_⟩
      have : lo - (lo + (k : Int) * (-m)) = (k : Int) * m := by ring
      rw [this]; exact Int.mul_emod_left _ _
    · rintro ⟨⟨_, _⟩, h1, h2, h3⟩
      have hd : (lo - x) / m * m = lo - x := Int.ediv_mul_cancel (Int.dvd_of_emod_eq_zero h3)
      have hq0 : 0 ≤ (lo - x) / m := Int.ediv_nonneg (by omega) (le_of_lt hs)
      refine ⟨((lo - x) / m).toNat, ?_, ?_⟩
      · rw [lt_count_iff hs, Int.toNat_of_nonneg hq0, hd]; omega
      · rw [Int.toNat_of_nonneg hq0]
        have : (lo - x) / m * (-m) = -((lo - x) / m * m) := by ring
        rw [this, hd]; ring

end RefineSlice
