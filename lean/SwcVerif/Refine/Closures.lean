import SwcVerif.Gen.AlgoTraverse
import SwcVerif.Refine.Traverse
/-! Closures handed to the translated `_traverse_dfs` (`Py.wrapE` / `Py.wrapL`): when the translated closures never raise and
compute what total state-passing callbacks `ge`, `gl` compute, the traversal with the wrapped closures computes `Trav.spec ge gl`,
and the translated call `unwrapCb (traverse_dfs (wrapE fe) (wrapL fl) …)` returns exactly that. -/
namespace RefineClosures
open Gen.Algo Trav Py

variable {S T K : Type} [Inhabited T] [Inhabited K]

mutual
theorem spec_wrap (fe : S → Int → Option T → Option (S × T)) (fl : S → Int → List K → Option (S × K))
    (ge : S → Int → Option T → S × T) (gl : S → Int → List K → S × K)
    (he : ∀ s n pv, fe s n pv = some (ge s n pv)) (hl : ∀ s n ks, fl s n ks = some (gl s n ks)) :
    ∀ (r : Rose) (pv : Option T) (s : S),
      spec (wrapE fe) (wrapL fl) r pv (some s) = (some (spec ge gl r pv s).1, (spec ge gl r pv s).2)
  | .node i ks, pv, s => by
    simp only [spec, wrapE, he]
    rw [specRev_wrap fe fl ge gl he hl ks (ge s i pv).2 (ge s i pv).1]
    simp only [wrapL, hl]
theorem specRev_wrap (fe : S → Int → Option T → Option (S × T)) (fl : S → Int → List K → Option (S × K))
    (ge : S → Int → Option T → S × T) (gl : S → Int → List K → S × K)
    (he : ∀ s n pv, fe s n pv = some (ge s n pv)) (hl : ∀ s n ks, fl s n ks = some (gl s n ks)) :
    ∀ (ks : List Rose) (cur : T) (s : S),
      specRev (wrapE fe) (wrapL fl) ks cur (some s) = (some (specRev ge gl ks cur s).1, (specRev ge gl ks cur s).2)
  | [], _, s => by simp [specRev]
  | r :: rs, cur, s => by
    simp only [specRev]
    rw [specRev_wrap fe fl ge gl he hl rs cur s, spec_wrap fe fl ge gl he hl r (some cur) _]
end

/-- the translated `traverse(…, enter=F, leave=G)` call with closures that never raise -/
theorem traverse_closures [Inhabited S] (fe : S → Int → Option T → Option (S × T)) (fl : S → Int → List K → Option (S × K))
    (ge : S → Int → Option T → S × T) (gl : S → Int → List K → S × K)
    (he : ∀ s n pv, fe s n pv = some (ge s n pv)) (hl : ∀ s n ks, fl s n ks = some (gl s n ks))
    (ids pids : List Int) (r : Rose) (hR : Represents r ids pids) (s : S) (F : Nat) :
    unwrapCb (traverse_dfs (wrapE fe) (wrapL fl) (2 * r.size + F + 1) (ids, pids) r.id (some s)) = some (spec ge gl r none s) := by
  rw [RefineTrav.traverse_refines (wrapE fe) (wrapL fl) ids pids r hR (some s) F, spec_wrap fe fl ge gl he hl r none s]
  rfl

/-! ### closures that may raise outside the tree: the same statement under a state invariant `P` and a node predicate `ok` -/

mutual
theorem spec_wrap_on (P : S → Prop) (ok : Int → Prop)
    (fe : S → Int → Option T → Option (S × T)) (fl : S → Int → List K → Option (S × K))
    (ge : S → Int → Option T → S × T) (gl : S → Int → List K → S × K)
    (he : ∀ s n pv, P s → ok n → fe s n pv = some (ge s n pv) ∧ P (ge s n pv).1)
    (hl : ∀ s n ks, P s → ok n → fl s n ks = some (gl s n ks) ∧ P (gl s n ks).1) :
    ∀ (r : Rose) (pv : Option T) (s : S), P s → (∀ j ∈ r.ids, ok j) →
      spec (wrapE fe) (wrapL fl) r pv (some s) = (some (spec ge gl r pv s).1, (spec ge gl r pv s).2) ∧ P (spec ge gl r pv s).1
  | .node i ks, pv, s, hP, hok => by
    have hi : ok i := hok i (by simp [Rose.ids])
    obtain ⟨e1, p1⟩ := he s i pv hP hi
    obtain ⟨e2, p2⟩ := specRev_wrap_on P ok fe fl ge gl he hl ks (ge s i pv).2 (ge s i pv).1 p1
      (fun j hj => hok j (by simp [Rose.ids, hj]))
    obtain ⟨e3, p3⟩ := hl (specRev ge gl ks (ge s i pv).2 (ge s i pv).1).1 i (specRev ge gl ks (ge s i pv).2 (ge s i pv).1).2 p2 hi
    refine ⟨?_, by simpa [spec] using p3⟩
    simp only [spec, wrapE, e1]
    rw [e2]
    simp only [wrapL, e3]
theorem specRev_wrap_on (P : S → Prop) (ok : Int → Prop)
    (fe : S → Int → Option T → Option (S × T)) (fl : S → Int → List K → Option (S × K))
    (ge : S → Int → Option T → S × T) (gl : S → Int → List K → S × K)
    (he : ∀ s n pv, P s → ok n → fe s n pv = some (ge s n pv) ∧ P (ge s n pv).1)
    (hl : ∀ s n ks, P s → ok n → fl s n ks = some (gl s n ks) ∧ P (gl s n ks).1) :
    ∀ (ks : List Rose) (cur : T) (s : S), P s → (∀ j ∈ idsL ks, ok j) →
      specRev (wrapE fe) (wrapL fl) ks cur (some s) = (some (specRev ge gl ks cur s).1, (specRev ge gl ks cur s).2) ∧
      P (specRev ge gl ks cur s).1
  | [], _, s, hP, _ => by simp [specRev, hP]
  | r :: rs, cur, s, hP, hok => by
    obtain ⟨e1, p1⟩ := specRev_wrap_on P ok fe fl ge gl he hl rs cur s hP (fun j hj => hok j (by simp [idsL, hj]))
    obtain ⟨e2, p2⟩ := spec_wrap_on P ok fe fl ge gl he hl r (some cur) (specRev ge gl rs cur s).1 p1
      (fun j hj => hok j (by simp [idsL, hj]))
    refine ⟨?_, by simpa [specRev] using p2⟩
    simp only [specRev]
    rw [e1, e2]
end

theorem traverse_closures_on [Inhabited S] (P : S → Prop) (ok : Int → Prop)
    (fe : S → Int → Option T → Option (S × T)) (fl : S → Int → List K → Option (S × K))
    (ge : S → Int → Option T → S × T) (gl : S → Int → List K → S × K)
    (he : ∀ s n pv, P s → ok n → fe s n pv = some (ge s n pv) ∧ P (ge s n pv).1)
    (hl : ∀ s n ks, P s → ok n → fl s n ks = some (gl s n ks) ∧ P (gl s n ks).1)
    (ids pids : List Int) (r : Rose) (hR : Represents r ids pids) (s : S) (hP : P s) (hok : ∀ j ∈ r.ids, ok j) (F : Nat) :
    unwrapCb (traverse_dfs (wrapE fe) (wrapL fl) (2 * r.size + F + 1) (ids, pids) r.id (some s)) = some (spec ge gl r none s) := by
  rw [RefineTrav.traverse_refines (wrapE fe) (wrapL fl) ids pids r hR (some s) F,
    (spec_wrap_on P ok fe fl ge gl he hl r none s hP hok).1]
  rfl

/-! ### change of state representation: callbacks over `S` and over `S'` that commute with `abs` compute related results -/

mutual
theorem spec_abs {S' : Type} (abs : S → S') (P : S → Prop) (ok : Int → Prop)
    (ge : S → Int → Option T → S × T) (gl : S → Int → List K → S × K)
    (ge' : S' → Int → Option T → S' × T) (gl' : S' → Int → List K → S' × K)
    (he : ∀ s n pv, P s → ok n → ge' (abs s) n pv = (abs (ge s n pv).1, (ge s n pv).2) ∧ P (ge s n pv).1)
    (hl : ∀ s n ks, P s → ok n → gl' (abs s) n ks = (abs (gl s n ks).1, (gl s n ks).2) ∧ P (gl s n ks).1) :
    ∀ (r : Rose) (pv : Option T) (s : S), P s → (∀ j ∈ r.ids, ok j) →
      spec ge' gl' r pv (abs s) = (abs (spec ge gl r pv s).1, (spec ge gl r pv s).2) ∧ P (spec ge gl r pv s).1
  | .node i ks, pv, s, hP, hok => by
    have hi : ok i := hok i (by simp [Rose.ids])
    obtain ⟨e1, p1⟩ := he s i pv hP hi
    obtain ⟨e2, p2⟩ := specRev_abs abs P ok ge gl ge' gl' he hl ks (ge s i pv).2 (ge s i pv).1 p1
      (fun j hj => hok j (by simp [Rose.ids, hj]))
    obtain ⟨e3, p3⟩ := hl (specRev ge gl ks (ge s i pv).2 (ge s i pv).1).1 i (specRev ge gl ks (ge s i pv).2 (ge s i pv).1).2 p2 hi
    refine ⟨?_, by simpa [spec] using p3⟩
    simp only [spec, e1]
    rw [e2, e3]
theorem specRev_abs {S' : Type} (abs : S → S') (P : S → Prop) (ok : Int → Prop)
    (ge : S → Int → Option T → S × T) (gl : S → Int → List K → S × K)
    (ge' : S' → Int → Option T → S' × T) (gl' : S' → Int → List K → S' × K)
    (he : ∀ s n pv, P s → ok n → ge' (abs s) n pv = (abs (ge s n pv).1, (ge s n pv).2) ∧ P (ge s n pv).1)
    (hl : ∀ s n ks, P s → ok n → gl' (abs s) n ks = (abs (gl s n ks).1, (gl s n ks).2) ∧ P (gl s n ks).1) :
    ∀ (ks : List Rose) (cur : T) (s : S), P s → (∀ j ∈ idsL ks, ok j) →
      specRev ge' gl' ks cur (abs s) = (abs (specRev ge gl ks cur s).1, (specRev ge gl ks cur s).2) ∧ P (specRev ge gl ks cur s).1
  | [], _, s, hP, _ => by simp [specRev, hP]
  | r :: rs, cur, s, hP, hok => by
    obtain ⟨e1, p1⟩ := specRev_abs abs P ok ge gl ge' gl' he hl rs cur s hP (fun j hj => hok j (by simp [idsL, hj]))
    obtain ⟨e2, p2⟩ := spec_abs abs P ok ge gl ge' gl' he hl r (some cur) (specRev ge gl rs cur s).1 p1
      (fun j hj => hok j (by simp [idsL, hj]))
    refine ⟨?_, by simpa [specRev] using p2⟩
    simp only [specRev]
    rw [e1, e2]
end

end RefineClosures
