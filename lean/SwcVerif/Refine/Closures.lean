import SwcVerif.Gen.AlgoTraverse
import SwcVerif.Refine.Traverse
/-! Closures handed to the translated `_traverse_dfs` (`Py.wrapE` / `Py.wrapL`): when the translated closures never raise and
compute what total state-passing callbacks `ge`, `gl` compute, the traversal with the wrapped closures computes `Trav.spec ge gl`,
and the translated call `unwrapCb (traverse_dfs (wrapE fe) (wrapL fl) …)` returns exactly that. -/
namespace RefineClosures
open Gen.Algo Trav Py

variable {S T K : Type} [Inhabited T] [Inhabited K]

mutual
theorem spec_wrap (fe : S → Int → Option T → Option (S × T)) (fl : S → Int → List K → Option (S × K))
    (ge : S → Int → Option T → S × T) (gl : S → Int → List K → S × K)
    (he : ∀ s n pv, fe s n pv = some (ge s n pv)) (hl : ∀ s n ks, fl s n ks = some (gl s n ks)) :
    ∀ (r : Rose) (pv : Option T) (s : S),
      spec (wrapE fe) (wrapL fl) r pv (some s) = (some (spec ge gl r pv s).1, (spec ge gl r pv s).2)
  | .node i ks, pv, s => by
    simp only [spec, wrapE, he]
    rw [specRev_wrap fe fl ge gl he hl ks (ge s i pv).2 (ge s i pv).1]
    simp only [wrapL, hl]
theorem specRev_wrap (fe : S → Int → Option T → Option (S × T)) (fl : S → Int → List K → Option (S × K))
    (ge : S → Int → Option T → S × T) (gl : S → Int → List K → S × K)
    (he : ∀ s n pv, fe s n pv = some (ge s n pv)) (hl : ∀ s n ks, fl s n ks = some (gl s n ks)) :
    ∀ (ks : List Rose) (cur : T) (s : S),
      specRev (wrapE fe) (wrapL fl) ks cur (some s) = (some (specRev ge gl ks cur s).1, (specRev ge gl ks cur s).2)
  | [], _, s => by simp [specRev]
  | r :: rs, cur, s => by
    simp only [specRev]
    rw [specRev_wrap fe fl ge gl he hl rs cur s, spec_wrap fe fl ge gl he hl r (some cur) _]
end

/-- the translated `traverse(…, enter=F, leave=G)` call with closures that never raise -/
theorem traverse_closures [Inhabited S] (fe : S → Int → Option T → Option (S × T)) (fl : S → Int → List K → Option (S × K))
    (ge : S → Int → Option T → S × T) (gl : S → Int → List K → S × K)
    (he : ∀ s n pv, fe s n pv = some (ge s n pv)) (hl : ∀ s n ks, fl s n ks = some (gl s n ks))
    (ids pids : List Int) (r : Rose) (hR : Represents r ids pids) (s : S) (F : Nat) :
    unwrapCb (traverse_dfs (wrapE fe) (wrapL fl) (2 * r.size + F + 1) (ids, pids) r.id (some s)) = some (spec ge gl r none s) := by
  rw [RefineTrav.traverse_refines (wrapE fe) (wrapL fl) ids pids r hR (some s) F, spec_wrap fe fl ge gl he hl r none s]
  rfl

end RefineClosures
