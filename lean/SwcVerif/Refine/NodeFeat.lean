import SwcVerif.Gen.AlgoNodeFeat
import SwcVerif.Refine.Sholl
import SwcVerif.Refine.LMeasure
import SwcVerif.Refine.PyArrays
/-! Refinement for C10 / C11 (T22 `nodefeat`): the definitions GENERATED from `swcgeom/core/path.py` (`Path.length`, `tortuosity`),
`swcgeom/core/tree.py` (`Tree.length`) and `swcgeom/analysis/features.py` (`NodeFeatures.get_radial_distance`, `get_count`), for EVERY
table (no bound on sizes), over any numeric type `K` and any `norm : List K → K`. -/
namespace RefineNf
open Py Gen.Algo

variable {K : Type} [Inhabited K] [Add K] [Sub K] [Mul K] [OfNat K 0] [OfNat K 1] [LT K] [DecidableLT K] [LE K] [DecidableLE K]

/-- coordinate row of node `i` -/
def row (axyz : List (List K)) (i : Int) : List K := axyz.getD i.toNat []
/-- the vector from node `a` to node `b`: `xyz[b] − xyz[a]` -/
def vec (axyz : List (List K)) (a b : Int) : List K := List.zipWith (fun x y => x - y) (row axyz b) (row axyz a)
/-- `i` is a row of the table -/
def Valid (axyz : List (List K)) (i : Int) : Prop := 0 ≤ i ∧ i.toNat < axyz.length

theorem idx_row (axyz : List (List K)) (i : Int) (h : Valid axyz i) : Py.idx axyz i = some (row axyz i) :=
  RefineSholl.idx_ok axyz i [] h.1 h.2

theorem take_rows (axyz : List (List K)) : ∀ idx : List Int, (∀ i ∈ idx, Valid axyz i) → Py.take axyz idx = some (idx.map (row axyz)) := by
  intro idx
  induction idx with
  | nil => intro _; simp [Py.take]
  | cons x xs ih =>
    intro h
    have := ih (fun i hi => h i (List.mem_cons_of_mem _ hi))
    simp only [Py.take] at this ⊢
    simp [List.mapM_cons, idx_row axyz x (h x List.mem_cons_self), this]

/-- **`Path.length` as translated, on a segment** (a path of two rows `[a, b]`, what `Tree.get_segments` yields): the norm of `xyz[b] − xyz[a]`
(as the one-term sum the source forms) -/
theorem seg_length (norm : List K → K) (axyz : List (List K)) (a b : Int) (ha : Valid axyz a) (hb : Valid axyz b)
    (hd : (row axyz b).length = (row axyz a).length) :
    nf_path_length norm axyz [a, b] = some (Py.Nf.sumK [norm (vec axyz a b)]) := by
  have ht := take_rows axyz [a, b] (by intro i hi; simp at hi; rcases hi with rfl | rfl <;> assumption)
  simp only [nf_path_length, nf_path_length.body, Py.seq, Py.bind, ht]
  simp [Py.Nf.sub2, Py.dropEnd, Py.mapOpt, Py.Nf.subVec, hd, Py.finish, Py.Nf.normRows, vec]

/-- the comprehension loop of `Tree.length` / `PathFeatures.get_length` / …: one `Path.length` per member, in order -/
theorem length_loop (norm : List K → K) (axyz : List (List K)) (g : List Int → K) :
    ∀ (segs : List (List Int)) (v : nf_tree_length.V K), v.axyz = axyz → (∀ s ∈ segs, nf_path_length norm axyz s = some (g s)) →
    ∃ s', Py.forEach (nf_tree_length.for1 norm) segs v = .next { v with s := s', c0_ := v.c0_ ++ segs.map g } := by
  intro segs
  induction segs with
  | nil => intro v _ _; exact ⟨v.s, by simp [Py.forEach]⟩
  | cons x xs ih =>
    intro v hv h
    subst hv
    have hx := h x List.mem_cons_self
    obtain ⟨s', hs⟩ := ih { v with s := x, c0_ := v.c0_ ++ [g x] } rfl (fun s hs => h s (List.mem_cons_of_mem _ hs))
    refine ⟨s', ?_⟩
    simp only [Py.forEach, nf_tree_length.for1, Py.bind, hx]
    rw [hs]; simp

/-- **`Tree.length` as translated is the sum, over the non-root rows `1 .. n-1` in order, of the norm of `xyz[id] − xyz[pid]`** -/
theorem tree_length_refines (norm : List K → K) (ids pids : List Int) (axyz : List (List K)) (hl : pids.length = ids.length)
    (hv : ∀ k : Nat, k + 1 < ids.length → Valid axyz (pids.getD (k + 1) 0) ∧ Valid axyz (ids.getD (k + 1) 0) ∧
      (row axyz (ids.getD (k + 1) 0)).length = (row axyz (pids.getD (k + 1) 0)).length) :
    nf_tree_length norm ids pids axyz
      = some (Py.Nf.sumK ((List.range (ids.length - 1)).map fun (k : Nat) =>
          Py.Nf.sumK [norm (vec axyz (pids.getD (k + 1) 0) (ids.getD (k + 1) 0))])) := by
  let g : List Int → K := fun s => Py.Nf.sumK [norm (vec axyz (s.getD 0 0) (s.getD 1 0))]
  obtain ⟨s', hs⟩ := length_loop norm axyz g
    ((List.range (ids.length - 1)).map fun (k : Nat) => RefineSholl.segOf ids pids ((k + 1 : Nat) : Int))
    { (default : nf_tree_length.V K) with ids := ids, pids := pids, axyz := axyz, c0_ := [] } rfl (by
      intro s hs
      simp only [List.mem_map, List.mem_range] at hs
      obtain ⟨k, hk, rfl⟩ := hs
      obtain ⟨h1, h2, h3⟩ := hv k (by omega)
      simp only [RefineSholl.segOf, Int.toNat_natCast]
      exact seg_length norm axyz _ _ h1 h2 h3)
  simp only [nf_tree_length, nf_tree_length.body, Py.seq, Py.bindS, Py.bind, RefineSholl.tree_get_segments_eq,
    RefineSholl.segments_refines ids pids hl]
  rw [hs]
  simp [Py.finish, List.map_map, Function.comp_def, g, RefineSholl.segOf]

/-- **`Path.tortuosity` as translated**: with `L` the translated `Path.length` and `S` the translated `straight_line_distance`, the result
is `1` when `L` is neither below nor above `0` (the source's `length == 0` guard), and `S / L` otherwise; it raises exactly when `L` or
(past the guard) `S` does -/
theorem tortuosity_refines (F : Py.Fld K) (norm : List K → K) (axyz : List (List K)) (idx : List Int) :
    nf_path_tortuosity F norm axyz idx =
      (nf_path_length norm axyz idx).bind fun L =>
        if ¬ (L < 0) ∧ ¬ (0 < L) then some 1
        else (nf_path_straight norm axyz idx).bind fun S => some (F.div S L) := by
  simp only [nf_path_tortuosity, nf_path_tortuosity.body, Py.seq, Py.bind]
  cases hL : nf_path_length norm axyz idx with
  | none => simp [Py.finish]
  | some L =>
    by_cases h1 : L < 0 <;> by_cases h2 : 0 < L <;>
      cases hS : nf_path_straight norm axyz idx <;> simp [Py.finish, Py.skip, Py.fdiv, h1, h2, hS]

/-- **`Path.straight_line_distance` as translated**: the norm of `xyz[idx[-1]] − xyz[idx[0]]` -/
theorem straight_refines (norm : List K → K) (axyz : List (List K)) (a : Int) (mid : List Int) (b : Int)
    (ha : Valid axyz a) (hb : Valid axyz b) (hd : (row axyz b).length = (row axyz a).length) :
    nf_path_straight norm axyz (a :: (mid ++ [b])) = some (norm (vec axyz a b)) := by
  have h1 : Py.idx (a :: (mid ++ [b])) (-1) = some b := by
    simp [Py.idx, Py.normIdx]
  have h0 : Py.idx (a :: (mid ++ [b])) 0 = some a := by simp [Py.idx, Py.normIdx]
  simp [nf_path_straight, nf_path_straight.body, Py.bind, h1, h0, idx_row axyz a ha, idx_row axyz b hb, Py.Nf.subVec, hd, Py.finish, vec]

/-- **`NodeFeatures.get_radial_distance` as translated**: for a tree whose first row is typed as soma, the norm of `xyz[i] − xyz[0]` for
every row `i`, in order; otherwise `Tree.soma` raises -/
theorem radial_refines (norm : List K → K) (ids pids types : List Int) (axyz : List (List K)) (h0 : 0 < axyz.length)
    (hd : ∀ r ∈ axyz, r.length = (row axyz 0).length) :
    (types.head? = some Gen.Consts.type_soma →
      nf_radial_distance norm ids pids types axyz
        = some (axyz.map fun r => norm (List.zipWith (fun x y => x - y) r (row axyz 0)))) ∧
    (types.head? ≠ some Gen.Consts.type_soma → nf_radial_distance norm ids pids types axyz = none) := by
  constructor
  · intro ht
    have hs : Py.Nf.subRows axyz (row axyz 0) = some (axyz.map fun r => List.zipWith (fun x y => x - y) r (row axyz 0)) := by
      apply Py.mapOpt_total
      intro r hr
      simp [Py.Nf.subVec, hd r hr]
    simp [nf_radial_distance, nf_radial_distance.body, Py.seq, Py.bind, RefineLm.tree_soma_eq, ht,
      idx_row axyz 0 ⟨le_refl _, by simpa using h0⟩, hs, Py.finish, Py.Nf.normRows, List.map_map, Function.comp_def]
  · intro ht
    simp [nf_radial_distance, nf_radial_distance.body, Py.seq, Py.bind, RefineLm.tree_soma_eq, ht, Py.finish]

/-- **`NodeFeatures.get_count` as translated**: the one-element array holding the number of rows -/
theorem node_count_refines (F : Py.Fld K) (ids : List Int) : nf_node_count F ids = some [F.ofInt (ids.length : Int)] := by
  simp [nf_node_count, nf_node_count.body, nf_number_of_nodes, nf_number_of_nodes.body, Py.bind, Py.finish, Py.len]

end RefineNf
