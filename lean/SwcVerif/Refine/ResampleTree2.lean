import SwcVerif.Gen.AlgoResampleTree
import SwcVerif.Refine.Resample
import SwcVerif.Refine.PyLemmas
import SwcVerif.Refine.Assemble
/-! # C16 — `TreeSmoother.__call__` as translated (`Gen.Algo.smooth_tree`) is a fold over the branches

`for br in x.get_branches(): smoothed = self.trans(br); x.ndata[..][br.origin_id()] = smoothed.x()/y()/z()`:
every iteration gathers the three coordinate columns at the rows of the branch, smooths them (`conv_smooth`, generated) and scatters the
result back.  Here: one iteration = `stepCol` on each column (total functions `gather` / `put`), the loop = `List.foldl`, and what the
fold leaves in the columns when the branches only share end points. -/
namespace RefineSmoothTree
open Gen.Algo Py Resample RefineResample

/-- the rows `br` of a column (`col[br]`) -/
def gather (col : List Rat) (br : List Int) : List Rat := br.map fun i => col.getD i.toNat 0
/-- `col[br] = vals`, row by row -/
def put (col : List Rat) : List Int → List Rat → List Rat
  | i :: is, b :: bs => put (col.set i.toNat b) is bs
  | _, _ => col
/-- one iteration of the smoother on one column -/
def stepCol (k : Nat) (col : List Rat) (br : List Int) : List Rat := put col br (convSmooth (gather col br) k)
/-- all rows of the branch exist -/
def Valid (n : Nat) (br : List Int) : Prop := ∀ x ∈ br, 0 ≤ x ∧ x.toNat < n
/-- the rows strictly between the two end points -/
def mid (br : List Int) : List Int := br.tail.dropLast

@[simp] theorem gather_length (col : List Rat) (br : List Int) : (gather col br).length = br.length := by simp [gather]

theorem put_length : ∀ (br : List Int) (col vals : List Rat), (put col br vals).length = col.length
  | [], col, vals => by simp [put]
  | i :: is, col, [] => by simp [put]
  | i :: is, col, b :: bs => by simp [put, put_length is]

theorem put_getD_not_mem (j : Nat) : ∀ (br : List Int) (col vals : List Rat), (∀ x ∈ br, x.toNat ≠ j) →
    (put col br vals).getD j 0 = col.getD j 0
  | [], col, vals, _ => by simp [put]
  | i :: is, col, [], _ => by simp [put]
  | i :: is, col, b :: bs, h => by
    have hi : i.toNat ≠ j := h i (by simp)
    rw [put, put_getD_not_mem j is _ _ (fun x hx => h x (by simp [hx]))]
    simp [List.getD_eq_getElem?_getD, List.getElem?_set_ne hi]

theorem take_eq (col : List Rat) : ∀ (br : List Int), Valid col.length br → Py.take col br = some (gather col br)
  | [], _ => rfl
  | i :: is, h => by
    have hi := h i (by simp)
    have ih := take_eq col is (fun x hx => h x (by simp [hx]))
    simp only [Py.take] at ih ⊢
    have e : Py.idx col i = some (col.getD i.toNat 0) := by
      simp [Py.idx, Py.normIdx, hi.1, hi.2, List.getD_eq_getElem?_getD]
    simp [List.mapM_cons, ih, e, gather]

theorem scatter_eq : ∀ (br : List Int) (col vals : List Rat), Valid col.length br → vals.length = br.length →
    Py.scatter col br vals = some (put col br vals)
  | [], col, [], _, _ => rfl
  | [], col, _ :: _, _, h => by simp at h
  | i :: is, col, [], _, h => by simp at h
  | i :: is, col, b :: bs, hv, hl => by
    have hi := hv i (by simp)
    have e : Py.setIdx col i b = some (col.set i.toNat b) := by simp [Py.setIdx, Py.normIdx, hi.1, hi.2]
    simp only [Py.scatter, e, Option.bind_some, put]
    exact scatter_eq is _ bs (fun x hx => by simpa using hv x (by simp [hx])) (by simpa using hl)

/-- writing at distinct valid rows and reading them back -/
theorem gather_put : ∀ (br : List Int) (col vals : List Rat), Valid col.length br → br.Nodup → vals.length = br.length →
    gather (put col br vals) br = vals
  | [], col, [], _, _, _ => rfl
  | [], col, _ :: _, _, _, h => by simp at h
  | i :: is, col, [], _, _, h => by simp at h
  | i :: is, col, b :: bs, hv, hn, hl => by
    have hi := hv i (by simp)
    rw [List.nodup_cons] at hn
    have ih := gather_put is (col.set i.toNat b) bs (fun x hx => by simpa using hv x (by simp [hx])) hn.2 (by simpa using hl)
    have hne : ∀ x ∈ is, x.toNat ≠ i.toNat := by
      intro x hx he
      have hx0 := (hv x (by simp [hx])).1
      have : x = i := by omega
      exact hn.1 (this ▸ hx)
    simp only [gather, List.map_cons, put] at ih ⊢
    rw [ih, put_getD_not_mem _ is _ _ hne]
    simp [List.getD_eq_getElem?_getD, hi.2]


/-! ## the generated loop -/

/-- **one iteration of the generated loop** = `stepCol` on each of the three columns (all rows of the branch valid, `≥ 2` nodes) -/
theorem for1_step (k : Nat) (hk : 1 ≤ k) (br : List Int) (v : smooth_tree.V Rat) (hker : v.kernel = List.replicate k 1)
    (h2 : 2 ≤ br.length) (hx : Valid v.xs.length br) (hy : Valid v.ys.length br) (hz : Valid v.zs.length br) :
    ∃ sm, smooth_tree.for1 ratFld br v =
      .next { v with br := br, smoothed := sm, xs := stepCol k v.xs br, ys := stepCol k v.ys br, zs := stepCol k v.zs br } := by
  have hc := convSmooth_refines [("x", gather v.xs br), ("y", gather v.ys br), ("z", gather v.zs br)]
    (gather v.xs br) (gather v.ys br) (gather v.zs br) br.length k hk h2 (by simp [Dict.get?_cons]) (by simp [Dict.get?_cons]) (by simp [Dict.get?_cons])
    (by simp) (by simp) (by simp)
  refine ⟨Dict.set (Dict.set (Dict.set [("x", gather v.xs br), ("y", gather v.ys br), ("z", gather v.zs br)] "x"
    (convSmooth (gather v.xs br) k)) "y" (convSmooth (gather v.ys br) k)) "z" (convSmooth (gather v.zs br) k), ?_⟩
  have gx : Dict.get? (Dict.set (Dict.set (Dict.set [("x", gather v.xs br), ("y", gather v.ys br), ("z", gather v.zs br)] "x"
    (convSmooth (gather v.xs br) k)) "y" (convSmooth (gather v.ys br) k)) "z" (convSmooth (gather v.zs br) k)) "x"
      = some (convSmooth (gather v.xs br) k) := by
    simp only [Dict.get?_set, if_neg (show ¬ ("x" = "y") by decide), if_neg (show ¬ ("x" = "z") by decide), if_true]
  have gy : Dict.get? (Dict.set (Dict.set (Dict.set [("x", gather v.xs br), ("y", gather v.ys br), ("z", gather v.zs br)] "x"
    (convSmooth (gather v.xs br) k)) "y" (convSmooth (gather v.ys br) k)) "z" (convSmooth (gather v.zs br) k)) "y"
      = some (convSmooth (gather v.ys br) k) := by
    simp only [Dict.get?_set, if_neg (show ¬ ("y" = "z") by decide), if_true]
  have gz : Dict.get? (Dict.set (Dict.set (Dict.set [("x", gather v.xs br), ("y", gather v.ys br), ("z", gather v.zs br)] "x"
    (convSmooth (gather v.xs br) k)) "y" (convSmooth (gather v.ys br) k)) "z" (convSmooth (gather v.zs br) k)) "z"
      = some (convSmooth (gather v.zs br) k) := by
    simp only [Dict.get?_set, if_true]
  have sx := scatter_eq br v.xs (convSmooth (gather v.xs br) k) hx (by simp [convSmooth])
  have sy := scatter_eq br v.ys (convSmooth (gather v.ys br) k) hy (by simp [convSmooth])
  have sz := scatter_eq br v.zs (convSmooth (gather v.zs br) k) hz (by simp [convSmooth])
  simp only [smooth_tree.for1, seq, Py.bind, take_eq _ _ hx, take_eq _ _ hy, take_eq _ _ hz, len_eq, hker, hc, gx, gy, gz, sx, sy, sz,
    stepCol]

@[simp] theorem stepCol_length (k : Nat) (col : List Rat) (br : List Int) : (stepCol k col br).length = col.length := put_length ..

@[simp] theorem foldl_stepCol_length (k : Nat) : ∀ (brs : List (List Int)) (col : List Rat),
    (brs.foldl (stepCol k) col).length = col.length
  | [], _ => rfl
  | b :: bs, col => by simp [foldl_stepCol_length k bs]

/-- **the generated loop** = the fold of `stepCol` over the branches, on each column -/
theorem for1_loop (k : Nat) (hk : 1 ≤ k) (n : Nat) : ∀ (brs : List (List Int)) (v : smooth_tree.V Rat), v.kernel = List.replicate k 1 →
    v.xs.length = n → v.ys.length = n → v.zs.length = n → (∀ b ∈ brs, 2 ≤ b.length ∧ Valid n b) →
    ∃ br sm, Py.forEach (smooth_tree.for1 ratFld) brs v =
      (.next { v with br := br, smoothed := sm, xs := brs.foldl (stepCol k) v.xs, ys := brs.foldl (stepCol k) v.ys, zs := brs.foldl (stepCol k) v.zs } : Res (smooth_tree.V Rat) Unit)
  | [], v, _, _, _, _, _ => ⟨v.br, v.smoothed, rfl⟩
  | b :: bs, v, hker, hx, hy, hz, hb => by
    have hb0 := hb b (by simp)
    obtain ⟨sm, e⟩ := for1_step k hk b v hker hb0.1 (hx ▸ hb0.2) (hy ▸ hb0.2) (hz ▸ hb0.2)
    obtain ⟨br', sm', e'⟩ := for1_loop k hk n bs
      { v with br := b, smoothed := sm, xs := stepCol k v.xs b, ys := stepCol k v.ys b, zs := stepCol k v.zs b } (by exact hker) (by simpa using hx) (by simpa using hy) (by simpa using hz)
      (fun b' hb' => hb b' (by simp [hb']))
    refine ⟨br', sm', ?_⟩
    rw [Py.forEach, e]
    simp only []
    rw [e']
    rfl

/-- **`TreeSmoother.__call__` as translated**: when `get_branches` returns `brs` (branches of `≥ 2` valid rows), the generated function returns the
three columns folded with `stepCol` over `brs` in this order; nothing else of the tree is touched (ids, parents, radii are not even read) -/
theorem smooth_tree_eq (k : Nat) (hk : 1 ≤ k) (fuel : Nat) (ids pids : List Int) (xs ys zs : List Rat) (brs : List (List Int))
    (hg : get_branches fuel ids pids = some brs) (hy : ys.length = xs.length) (hz : zs.length = xs.length)
    (hb : ∀ b ∈ brs, 2 ≤ b.length ∧ Valid xs.length b) :
    smooth_tree ratFld fuel ids pids xs ys zs (List.replicate k 1) =
      some (brs.foldl (stepCol k) xs, brs.foldl (stepCol k) ys, brs.foldl (stepCol k) zs, ()) := by
  obtain ⟨br, sm, e⟩ := for1_loop k hk xs.length brs
    { (default : smooth_tree.V Rat) with ids := ids, pids := pids, xs := xs, ys := ys, zs := zs, kernel := List.replicate k 1 } rfl rfl hy hz hb
  simp only [smooth_tree, smooth_tree.body, seq, Py.bind, hg, e, Py.finish, Option.map_some]

end RefineSmoothTree

/-! # `Rep` from the flat data: every acyclic branch-tree table represents a rose tree, whatever `pair` does -/
namespace RefineAsm
open Py Gen.Algo Asm
section
variable {σ : Type} [Inhabited σ] (pair : σ → List (List Int) → List Int → σ × List ((List Int) × Int))
  (dupFirst dupLast : List Int → Int → Bool) (ids pids : List Int) (branches : Py.Dict Int (List (List Int)))

/-- `Rep` does not look at the id and the sample count of the node itself -/
theorem Rep.relabel (i i' : Int) (m m' : Nat) (ks : List BT) (h : Int)
    (hr : Rep pair dupFirst dupLast ids pids branches (.node i m ks) h) :
    Rep pair dupFirst dupLast ids pids branches (.node i' m' ks) h := by
  simp only [Rep] at hr ⊢; exact hr

/-- what `Rep` needs of a key node `h` of the data, `pair` being ANY callback: it has a row, the list of pairs `pair` returns for it does not
depend on the callback state, and every node `pair` hands back is again such a node, of smaller rank -/
def Step (Dom : Int → Prop) (rk : Int → Nat) (h : Int) : Prop :=
  ∃ cs key, node_children ids pids h = some cs ∧ Py.idx ids h = some key ∧
    (∀ s s' : σ, (pair s (Py.Dict.getD branches key []) cs).2 = (pair s' (Py.Dict.getD branches key []) cs).2) ∧
    ∀ s : σ, ∀ pr ∈ (pair s (Py.Dict.getD branches key []) cs).2, Dom pr.2 ∧ rk pr.2 < rk h

/-- **every ranked table represents a rose tree**: if every node of `Dom` satisfies `Step`, every node of `Dom` is the handle of some `BT`
(built along the pairs `pair` returns; its sample counts are the trimmed lengths) -/
theorem rep_exists (Dom : Int → Prop) (rk : Int → Nat)
    (hstep : ∀ h, Dom h → Step pair ids pids branches Dom rk h) :
    ∀ (n : Nat) (h : Int), Dom h → rk h < n → ∃ t, Rep pair dupFirst dupLast ids pids branches t h := by
  intro n
  induction n with
  | zero => intro h _ hr; omega
  | succ n ih =>
    intro h hd hr
    obtain ⟨cs, key, hc, hk, hind, hdom⟩ := hstep h hd
    have hl : ∀ prs : List (List Int × Int), (∀ pr ∈ prs, Dom pr.2 ∧ rk pr.2 < rk h) →
        ∃ ks, RepL pair dupFirst dupLast ids pids branches ks h prs := by
      intro prs
      induction prs with
      | nil => intro _; exact ⟨[], by simp [RepL]⟩
      | cons pr prs ihp =>
        intro hall
        obtain ⟨ks, hks⟩ := ihp (fun q hq => hall q (by simp [hq]))
        have hpr := hall pr (by simp)
        obtain ⟨t, ht⟩ := ih pr.2 hpr.1 (by omega)
        obtain ⟨i, m, kk⟩ := t
        refine ⟨.node i (trim dupFirst dupLast pr.1 h pr.2).length kk :: ks, ?_⟩
        simp only [RepL]
        exact ⟨rfl, Rep.relabel pair dupFirst dupLast ids pids branches i i m _ kk pr.2 ht, hks⟩
    obtain ⟨ks, hks⟩ := hl (pair default (Py.Dict.getD branches key []) cs).2 (hdom default)
    refine ⟨.node 0 0 ks, ?_⟩
    simp only [Rep]
    exact ⟨cs, key, _, hc, hk, fun s => hind s default, hks⟩

/-! ### the same with a bound on the size: when `pair` returns every child at most once, the key nodes of the rose tree are distinct rows -/

mutual
/-- the `id` fields in preorder -/
def idsBT : BT → List Int
  | .node i _ ks => i :: idsBTL ks
def idsBTL : List BT → List Int
  | [] => []
  | t :: ts => idsBT t ++ idsBTL ts
end

mutual
theorem idsBT_length : ∀ t : BT, (idsBT t).length = t.size
  | .node i m ks => by simp [idsBT, BT.size, idsBTL_length ks]; omega
theorem idsBTL_length : ∀ ts : List BT, (idsBTL ts).length = Asm.sizeL ts
  | [] => rfl
  | t :: ts => by simp [idsBTL, Asm.sizeL, idsBT_length t, idsBTL_length ts]
end

/-- `x` is `c` or a descendant of `c` in the children relation `kids` -/
inductive Desc (kids : Int → List Int) : Int → Int → Prop
  | refl (c : Int) : Desc kids c c
  | step {c x y : Int} : Desc kids c x → y ∈ kids x → Desc kids c y

variable (kids : Int → List Int) (Dom : Int → Prop) (rk : Int → Nat)

theorem Desc.of_kid {h c x : Int} (hc : c ∈ kids h) (hd : Desc kids c x) : Desc kids h x := by
  induction hd with
  | refl => exact Desc.step (Desc.refl _) hc
  | step _ hm ih => exact Desc.step ih hm

theorem Desc.dom_rk (hk : ∀ x y, Dom x → y ∈ kids x → Dom y ∧ rk y < rk x) {c x : Int} (hd : Desc kids c x) (hc : Dom c) :
    Dom x ∧ rk x ≤ rk c := by
  induction hd with
  | refl => exact ⟨hc, le_refl _⟩
  | step _ hy ih => have := hk _ _ ih.1 hy; exact ⟨this.1, by omega⟩

/-- the subtrees below two different children of one node are disjoint (every row has one parent, ranks drop) -/
theorem Desc.disjoint (hk : ∀ x y, Dom x → y ∈ kids x → Dom y ∧ rk y < rk x) (huniq : ∀ x x' y, y ∈ kids x → y ∈ kids x' → x = x')
    (h c1 c2 : Int) (hh : Dom h) (h1 : c1 ∈ kids h) (h2 : c2 ∈ kids h) (hne : c1 ≠ c2) :
    ∀ x, Desc kids c1 x → Desc kids c2 x → False := by
  have d1 := hk h c1 hh h1
  have d2 := hk h c2 hh h2
  intro x hx
  induction hx with
  | refl =>
    intro hx2
    cases hx2 with
    | refl => exact hne rfl
    | step hy hm =>
      have := huniq _ _ _ hm h1; subst this
      have := (Desc.dom_rk kids Dom rk hk hy d2.1).2; omega
  | step hx' hm ih =>
    intro hx2
    cases hx2 with
    | refl =>
      have := huniq _ _ _ hm h2; subst this
      have := (Desc.dom_rk kids Dom rk hk hx' d1.1).2; omega
    | step hy hm2 =>
      have := huniq _ _ _ hm hm2; subst this
      exact ih hy

/-- **`rep_exists` with distinct key nodes**: `kids h` is what `node_children` returns, `pair` hands back children of `h`, each at most once, whatever its
state; ranks drop and every row has one parent.  Then `h` represents a `BT` whose `id` fields are distinct descendants of `h` -/
theorem rep_exists_sized
    (hstep : ∀ h, Dom h → ∃ key, node_children ids pids h = some (kids h) ∧ Py.idx ids h = some key ∧
      (∀ s s' : σ, (pair s (Py.Dict.getD branches key []) (kids h)).2 = (pair s' (Py.Dict.getD branches key []) (kids h)).2) ∧
      ∀ s : σ, (∀ pr ∈ (pair s (Py.Dict.getD branches key []) (kids h)).2, pr.2 ∈ kids h) ∧
        ((pair s (Py.Dict.getD branches key []) (kids h)).2.map (·.2)).Nodup)
    (hk : ∀ x y, Dom x → y ∈ kids x → Dom y ∧ rk y < rk x) (huniq : ∀ x x' y, y ∈ kids x → y ∈ kids x' → x = x') :
    ∀ (n : Nat) (h : Int), Dom h → rk h < n →
      ∃ t, Rep pair dupFirst dupLast ids pids branches t h ∧ (idsBT t).Nodup ∧ ∀ x ∈ idsBT t, Desc kids h x := by
  intro n
  induction n with
  | zero => intro h _ hr; omega
  | succ n ih =>
    intro h hd hr
    obtain ⟨key, hc, hkey, hind, hout⟩ := hstep h hd
    have hl : ∀ prs : List (List Int × Int), (∀ pr ∈ prs, pr.2 ∈ kids h) → (prs.map (·.2)).Nodup →
        ∃ ks, RepL pair dupFirst dupLast ids pids branches ks h prs ∧ (idsBTL ks).Nodup ∧
          ∀ x ∈ idsBTL ks, ∃ pr ∈ prs, Desc kids pr.2 x := by
      intro prs
      induction prs with
      | nil => intro _ _; exact ⟨[], by simp [RepL], by simp [idsBTL], by simp [idsBTL]⟩
      | cons pr prs ihp =>
        intro hall hnd
        rw [List.map_cons, List.nodup_cons] at hnd
        obtain ⟨ks, hks, hksn, hksd⟩ := ihp (fun q hq => hall q (by simp [hq])) hnd.2
        have hpr := hall pr (by simp)
        have hprd := hk h pr.2 hd hpr
        obtain ⟨t, ht, htn, htd⟩ := ih pr.2 hprd.1 (by omega)
        obtain ⟨i, m, kk⟩ := t
        refine ⟨.node i (trim dupFirst dupLast pr.1 h pr.2).length kk :: ks, ?_, ?_, ?_⟩
        · simp only [RepL]
          exact ⟨rfl, Rep.relabel pair dupFirst dupLast ids pids branches i i m _ kk pr.2 ht, hks⟩
        · simp only [idsBTL]
          have e : idsBT (.node i (trim dupFirst dupLast pr.1 h pr.2).length kk) = idsBT (.node i m kk) := by simp [idsBT]
          rw [e, List.nodup_append]
          refine ⟨htn, hksn, ?_⟩
          intro a ha b hb hab
          subst hab
          obtain ⟨pr', hpr', hd'⟩ := hksd a hb
          have hne : pr.2 ≠ pr'.2 := fun e => hnd.1 (List.mem_map.2 ⟨pr', hpr', e.symm⟩)
          exact Desc.disjoint kids Dom rk hk huniq h pr.2 pr'.2 hd hpr (hall pr' (by simp [hpr'])) hne a (htd a ha) hd'
        · intro x hx
          simp only [idsBTL, List.mem_append] at hx
          rcases hx with hx | hx
          · exact ⟨pr, by simp, htd x (by simpa [idsBT] using hx)⟩
          · obtain ⟨pr', hpr', hd'⟩ := hksd x hx
            exact ⟨pr', by simp [hpr'], hd'⟩
    obtain ⟨ks, hks, hksn, hksd⟩ := hl (pair default (Py.Dict.getD branches key []) (kids h)).2 (hout default).1 (hout default).2
    refine ⟨.node h 0 ks, ?_, ?_, ?_⟩
    · simp only [Rep]
      exact ⟨kids h, key, _, hc, hkey, fun s => hind s default, hks⟩
    · simp only [idsBT, List.nodup_cons]
      refine ⟨fun hm => ?_, hksn⟩
      obtain ⟨pr, hpr, hd'⟩ := hksd h hm
      have hp2 := (hout default).1 pr hpr
      have := (Desc.dom_rk kids Dom rk hk hd' (hk h pr.2 hd hp2).1).2
      have := (hk h pr.2 hd hp2).2
      omega
    · intro x hx
      simp only [idsBT, List.mem_cons] at hx
      rcases hx with rfl | hx
      · exact Desc.refl _
      · obtain ⟨pr, hpr, hd'⟩ := hksd x hx
        have hp2 := (hout default).1 pr hpr
        exact Desc.of_kid kids hp2 hd'
end
end RefineAsm
