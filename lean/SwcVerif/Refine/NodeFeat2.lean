import SwcVerif.Refine.NodeFeat
import SwcVerif.Refine.Closures
import SwcVerif.Refine.Node
/-! Refinement for C10 (T28 `nodefeat2`), second part: the definitions GENERATED from `swcgeom/analysis/features.py`
(`NodeFeatures.get_branch_order` with its closure `assign_depth`, `FurcationFeatures.nodes`, `TipFeatures.nodes`,
`_SubsetNodesFeatures.get_count` / `get_radial_distance`, `BranchFeatures.get_length`) and `swcgeom/core/path.py` (`Path.length` on an
arbitrary row list), for EVERY table (no bound on sizes). -/

/-! ### depth of a node in a rose tree (root `d`) -/
mutual
/-- depth of node `j` in `r` when the root of `r` has depth `d` (`none`: `j` is not a node of `r`) -/
def Rose.depthOf (j : Int) : Rose → Int → Option Int
  | .node i ks, d => if i = j then some d else depthOfL j ks (d + 1)
/-- depth of node `j` in the forest `ks` whose roots have depth `d` -/
def depthOfL (j : Int) : List Rose → Int → Option Int
  | [], _ => none
  | r :: rs, d => match r.depthOf j d with
    | some x => some x
    | none => depthOfL j rs d
end

namespace RefineNf2
open Py Gen.Algo Trav

mutual
theorem depthOf_none (j : Int) : ∀ (r : Rose) (d : Int), j ∉ r.ids → r.depthOf j d = none
  | .node i ks, d, h => by
    simp only [Rose.ids, List.mem_cons, not_or] at h
    simp only [Rose.depthOf, if_neg (Ne.symm h.1)]
    exact depthOfL_none j ks (d + 1) h.2
theorem depthOfL_none (j : Int) : ∀ (ks : List Rose) (d : Int), j ∉ idsL ks → depthOfL j ks d = none
  | [], _, _ => rfl
  | r :: rs, d, h => by
    simp only [idsL, List.mem_append, not_or] at h
    simp only [depthOfL, depthOf_none j r d h.1, depthOfL_none j rs d h.2]
end

mutual
theorem depthOf_some (j : Int) : ∀ (r : Rose) (d : Int), j ∈ r.ids → ∃ x, r.depthOf j d = some x ∧ d ≤ x
  | .node i ks, d, h => by
    simp only [Rose.ids, List.mem_cons] at h
    by_cases e : i = j
    · exact ⟨d, by simp [Rose.depthOf, e], le_refl _⟩
    · obtain ⟨x, hx, hd⟩ := depthOfL_some j ks (d + 1) (h.resolve_left (Ne.symm e))
      exact ⟨x, by simp [Rose.depthOf, e, hx], by omega⟩
theorem depthOfL_some (j : Int) : ∀ (ks : List Rose) (d : Int), j ∈ idsL ks → ∃ x, depthOfL j ks d = some x ∧ d ≤ x
  | [], _, h => by simp [idsL] at h
  | r :: rs, d, h => by
    simp only [idsL, List.mem_append] at h
    by_cases hr : j ∈ r.ids
    · obtain ⟨x, hx, hd⟩ := depthOf_some j r d hr
      exact ⟨x, by simp [depthOfL, hx], hd⟩
    · obtain ⟨x, hx, hd⟩ := depthOfL_some j rs d (h.resolve_left hr)
      exact ⟨x, by simp [depthOfL, depthOf_none j r d hr, hx], hd⟩
end

/-- the depth `assign_depth` assigns: parent's depth + 1, the root (no parent value) 0 -/
def dOf (pv : Option Int) : Int := match pv with | some p => p + 1 | none => 0

/-- `assign_depth` as a total state-passing callback over the array `order` -/
def geDepth (s : List Int) (n : Int) (pv : Option Int) : List Int × Int := (s.set n.toNat (dOf pv), dOf pv)
def glNone (s : List Int) (_ : Int) (_ : List Unit) : List Int × Unit := (s, ())

/-- **the closure `assign_depth` as translated**: on a row of `order` it stores and returns the depth, never raises -/
theorem assign_depth_eq (s : List Int) (n : Int) (pv : Option Int) (h0 : 0 ≤ n) (h1 : n.toNat < s.length) :
    nf_assign_depth s n pv = some (geDepth s n pv) := by
  have e : n = ((n.toNat : Nat) : Int) := by omega
  have hs : Py.setIdx s n (dOf pv) = some (s.set n.toNat (dOf pv)) := by
    have := Py.setIdx_nat s n.toNat (dOf pv) h1
    rwa [← e] at this
  cases pv with
  | none =>
    simp only [dOf] at hs
    simp [nf_assign_depth, nf_assign_depth.body, Py.seq, Py.bind, Py.finish, geDepth, dOf, hs]
  | some p =>
    simp only [dOf] at hs
    simp [nf_assign_depth, nf_assign_depth.body, Py.seq, Py.bind, Py.finish, geDepth, dOf, hs]

mutual
theorem spec_depth : ∀ (r : Rose) (pv : Option Int) (s : List Int), (∀ j ∈ r.ids, 0 ≤ j ∧ j.toNat < s.length) → r.ids.Nodup →
    (spec geDepth glNone r pv s).1.length = s.length ∧
    ∀ k : Nat, (spec geDepth glNone r pv s).1.getD k 0 = (r.depthOf k (dOf pv)).getD (s.getD k 0)
  | .node i ks, pv, s, hin, hnd => by
    simp only [Rose.ids, List.nodup_cons] at hnd
    have hi := hin i (by simp [Rose.ids])
    obtain ⟨l1, g1⟩ := specRev_depth ks (dOf pv) (s.set i.toNat (dOf pv))
      (fun j hj => by simpa using hin j (by simp [Rose.ids, hj])) hnd.2
    refine ⟨by simpa [spec, geDepth, glNone] using l1, fun k => ?_⟩
    have := g1 k
    simp only [spec, geDepth, glNone, Rose.depthOf] at this ⊢
    rw [this]
    by_cases e : i = (k : Int)
    · have hk : (k : Int) ∉ idsL ks := e ▸ hnd.1
      have e' : i.toNat = k := by omega
      rw [depthOfL_none _ ks _ hk]
      rw [if_pos e]
      subst e'
      simp [List.getD_eq_getElem?_getD, hi.2]
    · have e' : i.toNat ≠ k := by omega
      simp [e, List.getD_eq_getElem?_getD, List.getElem?_set_ne e']
theorem specRev_depth : ∀ (ks : List Rose) (cur : Int) (s : List Int), (∀ j ∈ idsL ks, 0 ≤ j ∧ j.toNat < s.length) → (idsL ks).Nodup →
    (specRev geDepth glNone ks cur s).1.length = s.length ∧
    ∀ k : Nat, (specRev geDepth glNone ks cur s).1.getD k 0 = (depthOfL k ks (cur + 1)).getD (s.getD k 0)
  | [], _, s, _, _ => by simp [specRev, depthOfL]
  | r :: rs, cur, s, hin, hnd => by
    simp only [idsL, List.nodup_append] at hnd
    obtain ⟨l1, g1⟩ := specRev_depth rs cur s (fun j hj => hin j (by simp [idsL, hj])) hnd.2.1
    obtain ⟨l2, g2⟩ := spec_depth r (some cur) (specRev geDepth glNone rs cur s).1
      (fun j hj => by rw [l1]; exact hin j (by simp [idsL, hj])) hnd.1
    refine ⟨by simpa [specRev] using l2.trans l1, fun k => ?_⟩
    have := g2 k
    simp only [specRev, depthOfL, dOf] at this ⊢
    rw [this, g1 k]
    cases r.depthOf k (cur + 1) <;> simp
end

/-- **`NodeFeatures.get_branch_order` as translated returns for every node of the branch tree its DEPTH** (root 0): for every table
`bt_ids`, `bt_pids` that represents a rose `r` rooted at node 0 whose ids are rows of the table (any shape, any depth), with every
fuel `≥ 2·|r| + 1`, the call does not raise, the result has one entry per row, the entry of node `k` is its depth in `r` and the
entries of rows that are not nodes of `r` keep the initial 0. -/
theorem branch_order_refines (bt_ids bt_pids : List Int) (r : Rose) (hR : Represents r bt_ids bt_pids) (h0 : r.id = 0)
    (hin : ∀ j ∈ r.ids, 0 ≤ j ∧ j.toNat < bt_ids.length) (F : Nat) :
    ∃ order, nf_branch_order (2 * r.size + F + 1) bt_ids bt_pids = some order ∧ order.length = bt_ids.length ∧
      ∀ k : Nat, order.getD k 0 = (r.depthOf k 0).getD 0 := by
  have hcall := RefineClosures.traverse_closures_on (S := List Int) (T := Int) (K := Unit)
    (fun s => s.length = bt_ids.length) (fun j => 0 ≤ j ∧ j.toNat < bt_ids.length)
    nf_assign_depth Py.noLeave geDepth glNone
    (fun s n pv hP hok => ⟨assign_depth_eq s n pv hok.1 (hP ▸ hok.2), by simpa [geDepth] using hP⟩)
    (fun s n ks hP _ => ⟨rfl, hP⟩)
    bt_ids bt_pids r hR (Py.fullLike bt_ids (0 : Int)) (by simp [Py.fullLike]) hin F
  obtain ⟨l1, g1⟩ := spec_depth r none (Py.fullLike bt_ids (0 : Int)) (by simpa [Py.fullLike] using hin) hR.2
  refine ⟨(spec geDepth glNone r none (Py.fullLike bt_ids (0 : Int))).1, ?_, by simpa [Py.fullLike] using l1, fun k => ?_⟩
  · rw [h0] at hcall
    simp [nf_branch_order, nf_branch_order.body, Py.seq, Py.bind, hcall, Py.finish]
  · rw [g1 k]
    simp [dOf, Py.fullLike, List.getD_eq_getElem?_getD]
    cases r.depthOf k 0 <;> simp
    rcases Nat.lt_or_ge k bt_ids.length with h | h <;> simp [h]

/-! ### `FurcationFeatures.nodes` / `TipFeatures.nodes` and the subset features -/

theorem furcation_loop (ids pids : List Int) (g : Int → Bool) :
    ∀ (xs : List Int) (v : nf_furcation_nodes.V), v.ids = ids → v.pids = pids → (∀ x ∈ xs, node_is_furcation ids pids x = some (g x)) →
    ∃ n', Py.forEach nf_furcation_nodes.for1 xs v = .next { v with n := n', c0_ := v.c0_ ++ xs.map g } := by
  intro xs
  induction xs with
  | nil => intro v _ _ _; exact ⟨v.n, by simp [Py.forEach]⟩
  | cons x xs ih =>
    intro v h1 h2 h
    subst h1 h2
    have hx := h x List.mem_cons_self
    obtain ⟨n', hs⟩ := ih { v with n := x, c0_ := v.c0_ ++ [g x] } rfl rfl (fun s hs => h s (List.mem_cons_of_mem _ hs))
    refine ⟨n', ?_⟩
    simp only [Py.forEach, nf_furcation_nodes.for1, Py.bind, hx]
    rw [hs]; simp

theorem tip_loop (ids pids : List Int) (g : Int → Bool) :
    ∀ (xs : List Int) (v : nf_tip_nodes.V), v.ids = ids → v.pids = pids → (∀ x ∈ xs, node_is_tip ids pids x = some (g x)) →
    ∃ n', Py.forEach nf_tip_nodes.for1 xs v = .next { v with n := n', c0_ := v.c0_ ++ xs.map g } := by
  intro xs
  induction xs with
  | nil => intro v _ _ _; exact ⟨v.n, by simp [Py.forEach]⟩
  | cons x xs ih =>
    intro v h1 h2 h
    subst h1 h2
    have hx := h x List.mem_cons_self
    obtain ⟨n', hs⟩ := ih { v with n := x, c0_ := v.c0_ ++ [g x] } rfl rfl (fun s hs => h s (List.mem_cons_of_mem _ hs))
    refine ⟨n', ?_⟩
    simp only [Py.forEach, nf_tip_nodes.for1, Py.bind, hx]
    rw [hs]; simp

/-- number of children of row `k` in the table (ids = positions) -/
def nKids (n : Nat) (pids : List Int) (k : Nat) : Nat := (tableKids (Sub.rangeI n) pids (k : Int)).length

theorem range_len_rangeI (n : Nat) : Py.range (Py.len (Sub.rangeI n)) = (List.range n).map (fun (k : Nat) => (k : Int)) := by
  simp [Sub.rangeI]

/-- **`FurcationFeatures.nodes` as translated**: the mask, in row order, of the rows with two or more children -/
theorem furcation_nodes_refines (n : Nat) (pids : List Int) (hl : pids.length ≤ n) :
    nf_furcation_nodes (Sub.rangeI n) pids = some ((List.range n).map fun k => decide (2 ≤ nKids n pids k)) := by
  obtain ⟨n', hs⟩ := furcation_loop (Sub.rangeI n) pids (fun k => decide (2 ≤ (tableKids (Sub.rangeI n) pids k).length))
    ((List.range n).map (fun (k : Nat) => (k : Int)))
    { (default : nf_furcation_nodes.V) with ids := Sub.rangeI n, pids := pids, c0_ := [] } rfl rfl (by
      intro x hx
      simp only [List.mem_map, List.mem_range] at hx
      obtain ⟨k, hk, rfl⟩ := hx
      exact RefineNode.node_is_furcation_spec n pids hl k (by omega) (by omega))
  simp only [nf_furcation_nodes, nf_furcation_nodes.body, Py.seq, Py.bindS, range_len_rangeI]
  rw [hs]
  simp [Py.finish, List.map_map, Function.comp_def, nKids]
  try (intro a _; congr)

/-- **`TipFeatures.nodes` as translated**: the mask, in row order, of the rows without children -/
theorem tip_nodes_refines (n : Nat) (pids : List Int) (hl : pids.length ≤ n) :
    nf_tip_nodes (Sub.rangeI n) pids = some ((List.range n).map fun k => decide (nKids n pids k = 0)) := by
  obtain ⟨n', hs⟩ := tip_loop (Sub.rangeI n) pids (fun k => decide ((tableKids (Sub.rangeI n) pids k).length = 0))
    ((List.range n).map (fun (k : Nat) => (k : Int)))
    { (default : nf_tip_nodes.V) with ids := Sub.rangeI n, pids := pids, c0_ := [] } rfl rfl (by
      intro x hx
      simp only [List.mem_map, List.mem_range] at hx
      obtain ⟨k, hk, rfl⟩ := hx
      exact RefineNode.node_is_tip_spec n pids hl k (by omega) (by omega))
  simp only [nf_tip_nodes, nf_tip_nodes.body, Py.seq, Py.bindS, range_len_rangeI]
  rw [hs]
  simp [Py.finish, List.map_map, Function.comp_def, nKids]

variable {K : Type} [Inhabited K] [Add K] [Sub K] [Mul K] [OfNat K 0] [OfNat K 1] [LT K] [DecidableLT K] [LE K] [DecidableLE K]

/-- **`_SubsetNodesFeatures.get_count` as translated**: on the mask of the rows satisfying `p`, the one-element array holding the number of
rows that satisfy `p` -/
theorem subset_count_refines (F : Py.Fld K) (n : Nat) (p : Nat → Bool) :
    nf_subset_count F ((List.range n).map p) = some [F.ofInt ((((List.range n).filter p).length : Nat) : Int)] := by
  have : (List.filter id (List.map p (List.range n))).length = ((List.range n).filter p).length := by
    rw [← List.countP_eq_length_filter, ← List.countP_eq_length_filter, List.countP_map]; rfl
  simp [nf_subset_count, nf_subset_count.body, Py.finish, Py.countNonzero, this]

theorem select_map {α β : Type} (f : β → α) (g : β → Bool) : ∀ l : List β, Py.select (l.map f) (l.map g) = (l.filter g).map f := by
  intro l
  induction l with
  | nil => simp [Py.select]
  | cons x xs ih =>
    simp only [Py.select] at ih
    cases h : g x <;> simp [Py.select, List.filter_cons, h, ih]

/-- **`_SubsetNodesFeatures.get_radial_distance` as translated**: on the mask of the rows satisfying `p` and a tree whose first row is typed
as soma, the norm of `xyz[k] − xyz[0]` for exactly the rows `k` that satisfy `p`, in row order -/
theorem subset_radial_refines (norm : List K → K) (ids pids types : List Int) (axyz : List (List K)) (h0 : 0 < axyz.length)
    (hd : ∀ r ∈ axyz, r.length = (RefineNf.row axyz 0).length) (ht : types.head? = some Gen.Consts.type_soma) (p : Nat → Bool) :
    nf_subset_radial_distance norm ids pids types axyz ((List.range axyz.length).map p)
      = some (((List.range axyz.length).filter p).map fun (k : Nat) => norm (RefineNf.vec axyz 0 (k : Int))) := by
  have hr := (RefineNf.radial_refines norm ids pids types axyz h0 hd).1 ht
  have hax : axyz.map (fun r => norm (List.zipWith (fun x y => x - y) r (RefineNf.row axyz 0)))
      = (List.range axyz.length).map (fun (k : Nat) => norm (RefineNf.vec axyz 0 (k : Int))) := by
    apply List.ext_getElem (by simp)
    intro i h1 h2
    simp only [List.length_map] at h1
    simp [RefineNf.vec, RefineNf.row, List.getD_eq_getElem?_getD, h1]
  simp only [nf_subset_radial_distance, nf_subset_radial_distance.body, Py.bind, hr, Py.finish, Option.map]
  rw [hax, select_map]

/-! ### `Path.length` on an arbitrary row list, `BranchFeatures.get_length` -/

/-- the consecutive pairs of a row list -/
def cpairs (idx : List Int) : List (Int × Int) := List.zip idx idx.tail

theorem zip_drop_dropEnd {α β γ : Type} (f : α → β) (g : β → β → γ) : ∀ idx : List α,
    (List.zip ((idx.map f).drop 1) (Py.dropEnd (idx.map f) 1)).map (fun p => g p.1 p.2)
      = (List.zip idx idx.tail).map (fun e => g (f e.2) (f e.1))
  | [] => by simp [Py.dropEnd]
  | [a] => by simp [Py.dropEnd]
  | a :: b :: t => by
    have ih := zip_drop_dropEnd f g (b :: t)
    simp only [Py.dropEnd, List.map_cons, List.drop_one, List.tail_cons, List.length_cons, Nat.add_sub_cancel,
      List.take_succ_cons, List.zip_cons_cons] at ih ⊢
    rw [ih]

/-- the pairs `(xyz[idx[k+1]], xyz[idx[k]])` the source subtracts: both members are rows of members of `idx` -/
theorem mem_zip_rows (axyz : List (List K)) (idx : List Int) (p : List K × List K)
    (hp : p ∈ List.zip ((idx.map (RefineNf.row axyz)).drop 1) (Py.dropEnd (idx.map (RefineNf.row axyz)) 1)) :
    (∃ i ∈ idx, p.1 = RefineNf.row axyz i) ∧ (∃ i ∈ idx, p.2 = RefineNf.row axyz i) := by
  obtain ⟨h1, h2⟩ := List.of_mem_zip hp
  have h1' := List.mem_of_mem_drop h1
  have h2' : p.2 ∈ idx.map (RefineNf.row axyz) := List.mem_of_mem_take h2
  simp only [List.mem_map] at h1' h2'
  obtain ⟨i, hi, e1⟩ := h1'
  obtain ⟨j, hj, e2⟩ := h2'
  exact ⟨⟨i, hi, e1.symm⟩, ⟨j, hj, e2.symm⟩⟩

/-- **`Path.length` as translated, on an ARBITRARY row list `idx`** (any length, 0 and 1 included): the sum, in order, of
`norm (xyz[idx[k+1]] − xyz[idx[k]])` over the consecutive pairs of `idx` (all members rows of the table, all coordinate rows of one length) -/
theorem path_length_refines (norm : List K → K) (axyz : List (List K)) (d : Nat) (idx : List Int)
    (hv : ∀ i ∈ idx, RefineNf.Valid axyz i) (hd : ∀ i ∈ idx, (RefineNf.row axyz i).length = d) :
    nf_path_length norm axyz idx = some (Py.Nf.sumK ((cpairs idx).map fun e => norm (RefineNf.vec axyz e.1 e.2))) := by
  have ht := RefineNf.take_rows axyz idx hv
  have hlen : ((idx.map (RefineNf.row axyz)).drop 1).length = (Py.dropEnd (idx.map (RefineNf.row axyz)) 1).length := by
    simp [Py.dropEnd]
  have hs : Py.Nf.sub2 ((idx.map (RefineNf.row axyz)).drop 1) (Py.dropEnd (idx.map (RefineNf.row axyz)) 1)
      = some ((List.zip ((idx.map (RefineNf.row axyz)).drop 1) (Py.dropEnd (idx.map (RefineNf.row axyz)) 1)).map
          fun p => List.zipWith (fun x y => x - y) p.1 p.2) := by
    simp only [Py.Nf.sub2, if_pos hlen]
    apply Py.mapOpt_total
    intro p hp
    obtain ⟨⟨i, hi, e1⟩, ⟨j, hj, e2⟩⟩ := mem_zip_rows axyz idx p hp
    simp [Py.Nf.subVec, e1, e2, hd i hi, hd j hj]
  simp only [nf_path_length, nf_path_length.body, Py.seq, Py.bind, ht, hs, Py.finish, Option.map, Py.Nf.normRows, List.map_map,
    Function.comp_def]
  have := zip_drop_dropEnd (RefineNf.row axyz) (fun a b => norm (List.zipWith (fun x y => x - y) a b)) idx
  simp only [cpairs, RefineNf.vec] at this ⊢
  rw [this]

theorem bf_length_loop (norm : List K → K) (axyz : List (List K)) (g : List Int → K) :
    ∀ (brs : List (List Int)) (v : nf_bf_length.V K), v.axyz = axyz → (∀ s ∈ brs, nf_path_length norm axyz s = some (g s)) →
    ∃ s', Py.forEach (nf_bf_length.for1 norm) brs v = .next { v with br := s', c0_ := v.c0_ ++ brs.map g } := by
  intro brs
  induction brs with
  | nil => intro v _ _; exact ⟨v.br, by simp [Py.forEach]⟩
  | cons x xs ih =>
    intro v hv h
    subst hv
    have hx := h x List.mem_cons_self
    obtain ⟨s', hs⟩ := ih { v with br := x, c0_ := v.c0_ ++ [g x] } rfl (fun s hs => h s (List.mem_cons_of_mem _ hs))
    refine ⟨s', ?_⟩
    simp only [Py.forEach, nf_bf_length.for1, Py.bind, hx]
    rw [hs]; simp

theorem bf_branches_eq (fuel : Nat) (ids pids : List Int) : nf_bf_branches fuel ids pids = get_branches fuel ids pids := by
  cases h : get_branches fuel ids pids <;> simp [nf_bf_branches, nf_bf_branches.body, Py.bind, h, Py.finish]

/-- **`BranchFeatures.get_length` as translated**: when the translated `Tree.get_branches` returns `brs` (whose members are rows of the
table), one `Path.length` per branch, in the order of `get_branches`: the sum over the consecutive pairs of the branch of
`norm (xyz[b[k+1]] − xyz[b[k]])` -/
theorem bf_length_refines (norm : List K → K) (fuel : Nat) (ids pids : List Int) (axyz : List (List K)) (d : Nat) (brs : List (List Int))
    (hb : get_branches fuel ids pids = some brs)
    (hv : ∀ b ∈ brs, ∀ i ∈ b, RefineNf.Valid axyz i ∧ (RefineNf.row axyz i).length = d) :
    nf_bf_length norm fuel ids pids axyz
      = some (brs.map fun b => Py.Nf.sumK ((cpairs b).map fun e => norm (RefineNf.vec axyz e.1 e.2))) := by
  obtain ⟨s', hs⟩ := bf_length_loop norm axyz (fun b => Py.Nf.sumK ((cpairs b).map fun e => norm (RefineNf.vec axyz e.1 e.2))) brs
    { (default : nf_bf_length.V K) with ids := ids, pids := pids, axyz := axyz, c0_ := [] } rfl
    (fun b hb' => path_length_refines norm axyz d b (fun i hi => (hv b hb' i hi).1) (fun i hi => (hv b hb' i hi).2))
  simp only [nf_bf_length, nf_bf_length.body, Py.seq, Py.bindS, Py.bind, bf_branches_eq, hb]
  rw [hs]
  simp [Py.finish]

/-! ### `BranchFeatures.calc_angle` -/

/-- the vector of a branch as `calc_angle` forms it: `xyz[br[-1]] − xyz[br[0]]` (from the FIRST to the LAST node of the branch) -/
def bvec (axyz : List (List K)) (b : List Int) : List K := RefineNf.vec axyz (b.headD 0) (b.getLastD 0)
/-- dot product as `np.matmul` forms it (sequential sum of the products) -/
def dotK (a b : List K) : K := Py.Nf.sumK (List.zipWith (fun x y => x * y) a b)
/-- `np.clip(x, -1, 1)` -/
def clip1 (x : K) : K := let y := if x < (0 : K) - (1 : K) then (0 : K) - (1 : K) else x; if (1 : K) < y then (1 : K) else y
/-- the product of the two norms of entry (i, j), formed as the 1×1 matrix product the source forms -/
def angNd (norm : List K → K) (axyz : List (List K)) (bi bj : List Int) : K :=
  Py.Nf.sumK [norm (bvec axyz bi) * norm (bvec axyz bj)]
/-- the DEGENERATE entries (`vector_norm_dot == 0`: a branch of length zero): the product of the norms is neither below nor above 0 -/
def angDeg (norm : List K → K) (axyz : List (List K)) (bi bj : List Int) : Bool :=
  !(decide (angNd norm axyz bi bj < 0) || decide (0 < angNd norm axyz bi bj))
/-- the divisor of entry (i, j): `np.where(vector_norm_dot == 0, 1, vector_norm_dot)` - the product of the two norms, and 1 where it is 0.
No `eps`: nothing absolute is added to the product, so the quotient does not depend on the length unit. -/
def angDen (norm : List K → K) (axyz : List (List K)) (bi bj : List Int) : K :=
  if angDeg norm axyz bi bj then 1 else angNd norm axyz bi bj

theorem mapOpt_zip_map {α β γ δ : Type} (f : β × γ → Option δ) (a : α → β) (b : α → γ) (g : α → δ) : ∀ l : List α,
    (∀ x ∈ l, f (a x, b x) = some (g x)) → Py.mapOpt f (List.zip (l.map a) (l.map b)) = some (l.map g) := by
  intro l
  induction l with
  | nil => intro _; rfl
  | cons x xs ih =>
    intro h
    have := ih (fun y hy => h y (List.mem_cons_of_mem _ hy))
    simp [Py.mapOpt, h x List.mem_cons_self, this]

theorem matmulT_tab (a b : List (List K)) (d : Nat) (ha : ∀ r ∈ a, r.length = d) (hb : ∀ r ∈ b, r.length = d) :
    Py.Nf.matmulT a b = some (a.map fun r => b.map fun c => dotK r c) := by
  unfold Py.Nf.matmulT
  apply Py.mapOpt_total
  intro r hr
  apply Py.mapOpt_total
  intro c hc
  simp [Py.Nf.dot, dotK, ha r hr, hb c hc]

theorem div2_tab {α : Type} (F : Py.Fld K) (l : List α) (f h : α → α → K) (hne : ∀ x ∈ l, ∀ y ∈ l, h x y < 0 ∨ 0 < h x y) :
    Py.Nf.div2 (l.map fun x => l.map (f x)) (l.map fun x => l.map (h x))
      = some (l.map fun x => l.map fun y => F.div (f x y) (h x y)) := by
  simp only [Py.Nf.div2, List.length_map, if_true]
  apply mapOpt_zip_map
  intro x hx
  simp only [List.length_map, if_true]
  apply mapOpt_zip_map
  intro y hy
  simp [Py.fdiv, hne x hx y hy]

theorem whereS2_tab {α : Type} (l : List α) (m : α → α → Bool) (c : K) (h : α → α → K) :
    Py.Nf.whereS2 (l.map fun x => l.map (m x)) c (l.map fun x => l.map (h x))
      = some (l.map fun x => l.map fun y => if m x y then c else h x y) := by
  simp only [Py.Nf.whereS2, List.length_map, if_true]
  apply mapOpt_zip_map
  intro x _
  simp [List.zipWith_map]

/-- a branch whose first and last node are rows of the table with `d` coordinates -/
def GoodBr (axyz : List (List K)) (d : Nat) (b : List Int) : Prop :=
  b ≠ [] ∧ RefineNf.Valid axyz (b.headD 0) ∧ RefineNf.Valid axyz (b.getLastD 0) ∧
  (RefineNf.row axyz (b.headD 0)).length = d ∧ (RefineNf.row axyz (b.getLastD 0)).length = d

theorem idx_first_last (b : List Int) (hb : b ≠ []) : Py.idx b (-1) = some (b.getLastD 0) ∧ Py.idx b 0 = some (b.headD 0) := by
  obtain ⟨t, z, rfl⟩ : ∃ t z, b = t ++ [z] := ⟨b.dropLast, b.getLast hb, (List.dropLast_append_getLast hb).symm⟩
  have hl : (t ++ [z]).getLastD 0 = z := by simp [List.getLastD_eq_getLast?]
  rw [hl]
  cases t <;> simp [Py.idx, Py.normIdx]

theorem angle_loop (F : Py.Fld K) (norm : List K → K) (acos : K → K) (axyz : List (List K)) (d : Nat) :
    ∀ (brs : List (List Int)) (v : nf_calc_angle.V K), v.axyz = axyz → (∀ b ∈ brs, GoodBr axyz d b) →
    ∃ b', Py.forEach (nf_calc_angle.for1 F norm acos) brs v = .next { v with br := b', c0_ := v.c0_ ++ brs.map (bvec axyz) } := by
  intro brs
  induction brs with
  | nil => intro v _ _; exact ⟨v.br, by simp [Py.forEach]⟩
  | cons x xs ih =>
    intro v hv h
    subst hv
    obtain ⟨hne, v0, v1, d0, d1⟩ := h x List.mem_cons_self
    obtain ⟨i1, i0⟩ := idx_first_last x hne
    obtain ⟨b', hs⟩ := ih { v with br := x, c0_ := v.c0_ ++ [bvec v.axyz x] } rfl (fun s hs => h s (List.mem_cons_of_mem _ hs))
    refine ⟨b', ?_⟩
    simp only [Py.forEach, nf_calc_angle.for1, Py.bind, i1, i0, RefineNf.idx_row _ _ v0, RefineNf.idx_row _ _ v1, Py.Nf.subVec, d0, d1,
      if_true]
    simp only [bvec, RefineNf.vec] at hs
    rw [hs]; simp [bvec, RefineNf.vec]

/-- **`BranchFeatures.calc_angle` as translated**: entry (i, j) of the result is `acos` of the clipped quotient of the dot product of the two
branch vectors (each from the branch's FIRST node to its LAST node: `br[-1].xyz() − br[0].xyz()`) by the product of their norms, exactly as
the source writes it (the product of the norms is formed as a 1×1 matrix product; where it is 0 the divisor is 1 instead - `angDen`; the
quotient is clipped to [−1, 1]); nothing raises (`0 < 1`: the divisor is never 0); `eps` is not used.  Every list of branches (each with valid
end rows), no size bound. -/
theorem calc_angle_refines (F : Py.Fld K) (norm : List K → K) (acos : K → K) (axyz : List (List K)) (d : Nat) (brs : List (List Int)) (eps : K)
    (h01 : (0 : K) < 1) (hg : ∀ b ∈ brs, GoodBr axyz d b) :
    nf_calc_angle F norm acos axyz brs eps
      = some (brs.map fun bi => brs.map fun bj =>
          acos (clip1 (F.div (dotK (bvec axyz bi) (bvec axyz bj)) (angDen norm axyz bi bj)))) := by
  obtain ⟨b', hs⟩ := angle_loop F norm acos axyz d brs
    { (default : nf_calc_angle.V K) with axyz := axyz, branches := brs, eps := eps, c0_ := [] } rfl hg
  have hvd : ∀ r ∈ brs.map (bvec axyz), r.length = d := by
    intro r hr
    simp only [List.mem_map] at hr
    obtain ⟨b, hb, rfl⟩ := hr
    obtain ⟨_, _, _, d0, d1⟩ := hg b hb
    simp only [bvec, RefineNf.vec, List.length_zipWith, d0, d1, Nat.min_self]
  have hm1 := matmulT_tab (brs.map (bvec axyz)) (brs.map (bvec axyz)) d hvd hvd
  have hn1 : ∀ r ∈ Py.Nf.normRowsKeep norm (brs.map (bvec axyz)), r.length = 1 := by
    intro r hr
    simp only [Py.Nf.normRowsKeep, List.mem_map] at hr
    obtain ⟨_, _, rfl⟩ := hr
    rfl
  have hm2 := matmulT_tab _ _ 1 hn1 hn1
  let nd : List Int → List Int → K := fun bi bj => Py.Nf.sumK [norm (bvec axyz bi) * norm (bvec axyz bj)]
  let dg : List Int → List Int → Bool := fun bi bj => !(decide (nd bi bj < 0) || decide (0 < nd bi bj))
  have hne : ∀ bi ∈ brs, ∀ bj ∈ brs, (if dg bi bj then (1 : K) else nd bi bj) < 0 ∨ 0 < (if dg bi bj then (1 : K) else nd bi bj) := by
    intro bi _ bj _
    by_cases h1 : nd bi bj < 0
    · simp [dg, h1]
    · by_cases h2 : 0 < nd bi bj
      · simp [dg, h2]
      · simp [dg, h1, h2, h01]
  have hw := whereS2_tab brs dg (1 : K) nd
  have hd := div2_tab F brs (fun bi bj => dotK (bvec axyz bi) (bvec axyz bj)) (fun bi bj => if dg bi bj then (1 : K) else nd bi bj) hne
  simp only [nf_calc_angle, nf_calc_angle.body, Py.seq, Py.bindS, Py.bind]
  rw [hs]
  simp only [List.nil_append, hm1, hm2]
  simp only [Py.Nf.normRowsKeep, Py.Nf.eqScalar2, List.map_map, Function.comp_def, dotK, List.zipWith_cons_cons, List.zipWith_nil_right,
    nd, dg] at hw hd ⊢
  rw [hw]
  simp only []
  rw [hd]
  simp [Py.finish, Py.Nf.clip2, Py.Nf.map2, clip1, List.map_map, Function.comp_def, angDen, angDeg, angNd, dotK]
  intro a _ b _
  congr <;> exact propext (decide_eq_false_iff_not).symm

end RefineNf2
