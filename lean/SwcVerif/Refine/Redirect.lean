import SwcVerif.Gen.AlgoRedirect
import SwcVerif.Refine.PyLemmas
import SwcVerif.Refine.Sort
import SwcVerif.Model.Redirect
import SwcVerif.Proofs.Redirect
/-! Refinement for C07: the definitions GENERATED from `swcgeom/core/tree_utils.py::redirect_tree` / `_sort_tree` and
`swcgeom/core/tree.py::Tree.Node.parent` (node handles are row indices, the copied tree is its columns `ids`, `pids`, `types`)
equal the hand-written model `Redir.redirect` / `Redir.redirectSorted` on every tree object (ids = positions) whose root walk from
the requested node ends at a parentless node. -/
namespace RefineRedirect
open Gen.Algo Redir Py SortM

variable {α : Type}

theorem idx_nonneg (l : List α) (k : Int) (h0 : 0 ≤ k) (h1 : k < l.length) : idx l k = l[k.toNat]? := by
  obtain ⟨m, rfl⟩ := Int.eq_ofNat_of_zero_le h0
  rw [idx_nat l m (by omega)]
  simp

theorem setIdx_nonneg (l : List α) (k : Int) (x : α) (h0 : 0 ≤ k) (h1 : k < l.length) :
    setIdx l k x = some (setAt l k x) := by
  obtain ⟨m, rfl⟩ := Int.eq_ofNat_of_zero_le h0
  rw [setIdx_nat l m x (by omega)]
  simp only [setAt, Int.toNat_natCast]
  rw [if_neg (by omega)]

theorem idx_last (l : List α) (x : α) : idx (l ++ [x]) (-1) = some x := by
  simp [idx, normIdx]

theorem idx_neg_one (l : List α) (h : l ≠ []) : idx l (-1) = l.getLast? := by
  obtain ⟨l', x, rfl⟩ : ∃ l' x, l = l' ++ [x] := ⟨l.dropLast, l.getLast h, (List.dropLast_concat_getLast h).symm⟩
  rw [idx_last]; simp

theorem idx_zero (l : List α) : idx l 0 = l.head? := by
  cases l with
  | nil => simp [idx, normIdx]
  | cons a l => simp [idx, normIdx]

/-- `Tree.Node.parent` as translated: the entry of the parent column, `None` for −1 -/
theorem node_parent_spec (pids : List Int) (k : Int) (h0 : 0 ≤ k) (h1 : k < pids.length) :
    node_parent pids k =
      some (if pids.getD k.toNat (-1) = -1 then none else some (pids.getD k.toNat (-1))) := by
  have hk : k.toNat < pids.length := by omega
  have e : idx pids k = some (pids[k.toNat]) := by rw [idx_nonneg pids k h0 h1]; simp [hk]
  have g : pids.getD k.toNat (-1) = pids[k.toNat] := by simp [List.getD_eq_getElem?_getD, hk]
  rw [g]
  by_cases hp : pids[k.toNat] = -1
  · simp [node_parent, node_parent.body, Py.bind, e, hp, finish]
  · simp [node_parent, node_parent.body, Py.bind, e, hp, finish]

/-! ### the walk to the root -/

/-- the `while (p := path[-1].parent()) is not None: path.append(p)` loop computes the model's `rootPath` -/
theorem while_path : ∀ (f : Nat) (k : Int) (pre : List Int) (v : redirect_tree.V),
    v.path = pre ++ [k] →
    (∀ w ∈ rootPath v.pids f k, 0 ≤ w ∧ w < v.pids.length) →
    (∀ z, (rootPath v.pids f k).getLast? = some z → v.pids.getD z.toNat (-1) = -1) →
    ∀ F, whileF redirect_tree.while1_cond redirect_tree.while1_body (f + 1 + F) v =
      .next { v with path := pre ++ rootPath v.pids f k, p := none } := by
  intro f
  induction f with
  | zero =>
    intro k pre v hpath hval hlast F
    have hk := hval k (by simp [rp_zero])
    have hz := hlast k (by simp [rp_zero])
    have e1 : idx v.path (-1) = some k := by rw [hpath, idx_last]
    have e2 := node_parent_spec v.pids k hk.1 hk.2
    rw [if_pos hz] at e2
    have hb : redirect_tree.while1_body v = .brk { v with p := none } := by
      simp only [redirect_tree.while1_body, seq, Py.bind, e1, e2]; rfl
    rw [show 0 + 1 + F = F + 1 by omega, whileF_brk redirect_tree.while1_cond redirect_tree.while1_body F v _ rfl hb, rp_zero, ← hpath]
  | succ f ih =>
    intro k pre v hpath hval hlast F
    have hk := hval k (by rw [rp_succ]; split <;> simp)
    have e1 : idx v.path (-1) = some k := by rw [hpath, idx_last]
    have e2 := node_parent_spec v.pids k hk.1 hk.2
    by_cases hz : v.pids.getD k.toNat (-1) = -1
    · rw [if_pos hz] at e2
      have hb : redirect_tree.while1_body v = .brk { v with p := none } := by
        simp only [redirect_tree.while1_body, seq, Py.bind, e1, e2]; rfl
      rw [show f + 1 + 1 + F = (f + 1 + F) + 1 by omega, whileF_brk redirect_tree.while1_cond redirect_tree.while1_body (f + 1 + F) v _ rfl hb, rp_succ, if_pos hz, ← hpath]
    · rw [if_neg hz] at e2
      have hrp : rootPath v.pids (f + 1) k = k :: rootPath v.pids f (v.pids.getD k.toNat (-1)) := by rw [rp_succ, if_neg hz]
      have hval' : ∀ w ∈ rootPath v.pids f (v.pids.getD k.toNat (-1)), 0 ≤ w ∧ w < v.pids.length := by
        intro w hw; exact hval w (by rw [hrp]; exact List.mem_cons_of_mem _ hw)
      have hlast' : ∀ z, (rootPath v.pids f (v.pids.getD k.toNat (-1))).getLast? = some z → v.pids.getD z.toNat (-1) = -1 := by
        intro z hzz; apply hlast z
        rw [hrp, getLast?_cons_of_ne_nil _ _ (rp_ne_nil _ _ _)]; exact hzz
      have := ih (v.pids.getD k.toNat (-1)) (pre ++ [k])
        { v with p := some (v.pids.getD k.toNat (-1)), path := v.path ++ [v.pids.getD k.toNat (-1)] }
        (by simp [hpath]) hval' hlast' F
      dsimp only at this
      have hb : redirect_tree.while1_body v =
          .next { v with p := some (v.pids.getD k.toNat (-1)), path := v.path ++ [v.pids.getD k.toNat (-1)] } := by
        simp only [redirect_tree.while1_body, seq, Py.bind, e1, e2]; rfl
      rw [show f + 1 + 1 + F = (f + 1 + F) + 1 by omega, whileF_next redirect_tree.while1_cond redirect_tree.while1_body (f + 1 + F) v _ rfl hb, this, hrp]
      simp

/-! ### reversing the parent pointers along the path -/

theorem dropEnd_cons_cons (a b : α) (l : List α) : dropEnd (a :: b :: l) 1 = a :: dropEnd (b :: l) 1 := by
  simp [dropEnd, List.take_succ_cons]

theorem ids_idx (n : Nat) (c : Int) (h0 : 0 ≤ c) (h1 : c < n) :
    idx ((List.range n).map (fun (k : Nat) => (k : Int))) c = some c := by
  rw [idx_nonneg _ c h0 (by simpa using h1)]
  have : c.toNat < n := by omega
  simp [this]; omega

/-- `for n, p in zip(path[1:], path[:-1]): n.pid = p.id` is the model's `reversePath` -/
theorem for2_loop (n : Nat) : ∀ (l : List Int) (v : redirect_tree.V),
    v.ids = (List.range n).map (fun (k : Nat) => (k : Int)) → v.pids.length = n →
    (∀ w ∈ l, 0 ≤ w ∧ w < (n : Int)) →
    ∃ n' p', forEach redirect_tree.for2 (Py.zip (l.drop 1) (dropEnd l 1)) v =
      .next { v with pids := reversePath v.pids l, n := n', p := p' } := by
  intro l
  induction l with
  | nil => intro v _ _ _; exact ⟨v.n, v.p, by simp [Py.zip, forEach, reversePath_nil]⟩
  | cons c rest ih =>
    cases rest with
    | nil => intro v _ _ _; exact ⟨v.n, v.p, by simp [Py.zip, forEach, reversePath_single]⟩
    | cons p rest =>
      intro v hids hlen hval
      have hc := hval c (by simp)
      have hpv := hval p (by simp)
      have e1 : idx v.ids c = some c := by rw [hids]; exact ids_idx n c hc.1 hc.2
      have e2 : setIdx v.pids p c = some (setAt v.pids p c) := setIdx_nonneg _ _ _ hpv.1 (by rw [hlen]; exact hpv.2)
      obtain ⟨n', p', e⟩ := ih { v with n := p, p := some c, pids := setAt v.pids p c } hids
        (by simp [setAt_length, hlen]) (fun w hw => hval w (List.mem_cons_of_mem _ hw))
      refine ⟨n', p', ?_⟩
      rw [dropEnd_cons_cons]
      simp only [List.drop_succ_cons, List.drop_zero, Py.zip, List.zip_cons_cons, forEach, redirect_tree.for2, Py.bind, e1, e2]
      simp only [Py.zip, List.drop_succ_cons, List.drop_zero] at e
      rw [e, reversePath_cons_cons]

/-! ### `_sort_tree` -/

theorem take_of_lt (l : List Int) : ∀ (is : List Nat), (∀ k ∈ is, k < l.length) →
    Py.take l (is.map (fun (k : Nat) => (k : Int))) = some (permute l is) := by
  intro is
  induction is with
  | nil => intro _; simp [Py.take, permute]
  | cons i is ih =>
    intro h
    have hi := h i (by simp)
    have := ih (fun k hk => h k (List.mem_cons_of_mem _ hk))
    simp only [Py.take, List.map_cons, List.mapM_cons] at this ⊢
    rw [idx_nat l i hi, this]
    simp [permute, List.getD_eq_getElem?_getD, hi]

/-- the row indices returned by the model are rows -/
theorem indices_lt (ids pids : List Int) (r : Result) (h : sortNodesImpl ids pids = .ok r) : ∀ k ∈ r.indices, k < ids.length := by
  unfold sortNodesImpl at h
  split at h
  · cases h
  · split at h
    · cases h
    · next root hroot =>
      dsimp only at h
      split at h
      · cases h
      · cases h
        intro k hk
        simp only [List.mem_map] at hk
        obtain ⟨op, hop, rfl⟩ := hk
        have hm := RefineSort.mem_ids ids pids (ids.length + 1) ⟨[(root, -1)], []⟩
          (by intro x hx; simp at hx; subst hx; exact RefineSort.firstRoot_mem ids pids root hroot) (by simp) op hop
        exact List.idxOf_lt_length_of_mem hm

/-- **`_sort_tree` as translated**: whenever the model's renumbering succeeds on a table with distinct ids, every column is
gathered by the row permutation and the two topology columns are replaced by `arange(n)` / the new parents -/
theorem sortTree_refines (ids pids types : List Int) (hnd : ids.Nodup) (hlp : pids.length = ids.length) (hlt : types.length = ids.length)
    (r : Result) (h : sortNodesImpl ids pids = .ok r) (F : Nat) :
    sort_tree_ (ids.length + 1 + F) ids pids types =
      some (range (ids.length : Int), r.newPids, permute types r.indices, ()) := by
  have hs := RefineSort.sort_refines ids pids hnd r h F
  have hlt' := indices_lt ids pids r h
  have t1 := take_of_lt ids r.indices hlt'
  have t2 := take_of_lt pids r.indices (by rw [hlp]; exact hlt')
  have t3 := take_of_lt types r.indices (by rw [hlt]; exact hlt')
  simp only [sort_tree_, sort_tree_.body, seq, Py.bind, hs, t1, t2, t3, finish]
  simp

/-! ### the whole function -/

/-- the translated `redirect_tree` on every tree object (ids = positions) and node `k` whose walk to the root stays inside the
table and ends at a parentless node: the columns are rewritten as the model `Redir.redirect` says; with `sort` the translated
`_sort_tree` is then applied to exactly those columns -/
theorem redirect_core (pids types : List Int) (k : Int) (b : Bool) (hlt : types.length = pids.length)
    (hval : ∀ w ∈ rootPath pids pids.length k, 0 ≤ w ∧ w < pids.length)
    (hlast : ∀ z, (rootPath pids pids.length k).getLast? = some z → pids.getD z.toNat (-1) = -1) (F : Nat) :
    redirect_tree (pids.length + 1 + F) ((List.range pids.length).map (fun (j : Nat) => (j : Int))) pids types k b =
      if b then
        (sort_tree_ (pids.length + 1 + F) ((List.range pids.length).map (fun (j : Nat) => (j : Int)))
          (redirect pids types k).pids (redirect pids types k).types).map (fun t => (t.1, t.2.1, t.2.2.1, ()))
      else some ((List.range pids.length).map (fun (j : Nat) => (j : Int)), (redirect pids types k).pids, (redirect pids types k).types, ()) := by
  obtain ⟨P, hP⟩ : ∃ P, P = rootPath pids pids.length k := ⟨_, rfl⟩
  have hhead : P.head? = some k := by rw [hP]; exact rp_head _ _ _
  have hne : P ≠ [] := by rw [hP]; exact rp_ne_nil _ _ _
  rw [← hP] at hval hlast
  have hk := hval k (by
    cases hPl : P with
    | nil => exact absurd hPl hne
    | cons a l => rw [hPl] at hhead; simp at hhead; subst hhead; simp)
  obtain ⟨z, hz⟩ : ∃ z, P.getLast? = some z := by
    cases hg : P.getLast? with
    | none => simp [List.getLast?_eq_none_iff] at hg; exact absurd hg hne
    | some z => exact ⟨z, rfl⟩
  have hzm : z ∈ P := List.mem_of_getLast? hz
  have hzv := hval z hzm
  have hw := while_path pids.length k []
    { (default : redirect_tree.V) with ids := (List.range pids.length).map (fun (j : Nat) => (j : Int)), pids := pids, types := types, new_root := k, sort := b, path := [k] } rfl (by rw [← hP]; exact hval) (by rw [← hP]; exact hlast) F
  dsimp only at hw
  rw [← hP] at hw
  have i0 : idx P 0 = some k := by rw [idx_zero, hhead]
  have i1 : idx P (-1) = some z := by rw [idx_neg_one P hne, hz]
  have s1 : setIdx pids k (-1) = some (setAt pids k (-1)) := setIdx_nonneg _ _ _ hk.1 hk.2
  have tz : idx types z = some (types.getD z.toNat 0) := by
    rw [idx_nonneg types z hzv.1 (by rw [hlt]; exact hzv.2)]
    have : z.toNat < types.length := by omega
    simp [List.getD_eq_getElem?_getD, this]
  have tk : idx types k = some (types.getD k.toNat 0) := by
    rw [idx_nonneg types k hk.1 (by rw [hlt]; exact hk.2)]
    have : k.toNat < types.length := by omega
    simp [List.getD_eq_getElem?_getD, this]
  have s2 : setIdx types k (types.getD z.toNat 0) = some (setAt types k (types.getD z.toNat 0)) :=
    setIdx_nonneg _ _ _ hk.1 (by rw [hlt]; exact hk.2)
  have s3 : setIdx (setAt types k (types.getD z.toNat 0)) z (types.getD k.toNat 0) =
      some (setAt (setAt types k (types.getD z.toNat 0)) z (types.getD k.toNat 0)) :=
    setIdx_nonneg _ _ _ hzv.1 (by rw [setAt_length, hlt]; exact hzv.2)
  obtain ⟨n', p', hf⟩ := for2_loop pids.length P
    { (default : redirect_tree.V) with ids := (List.range pids.length).map (fun (j : Nat) => (j : Int)), pids := setAt pids k (-1), types := setAt (setAt types k (types.getD z.toNat 0)) z (types.getD k.toNat 0), new_root := k, sort := b, path := P, p := none, u10_ := types.getD z.toNat 0, u11_ := types.getD k.toNat 0 }
    rfl (by simp [setAt_length]) (by intro w hw; exact hval w hw)
  have hmodel : redirect pids types k =
      ⟨reversePath (setAt pids k (-1)) P, setAt (setAt types k (types.getD z.toNat 0)) z (types.getD k.toNat 0)⟩ := by
    simp only [redirect, ← hP]
    have : P.getLastD k = z := by
      rw [List.getLastD_eq_getLast?, hz]; rfl
    rw [this]
  rw [hmodel]
  simp only [redirect_tree, redirect_tree.body, seq]
  simp only [List.nil_append] at hw
  rw [hw]
  simp only [Py.bind, i0, i1, s1, tz, tk, s2, s3, ← hP]
  rw [hf]
  cases b with
  | false => simp [finish, skip]
  | true =>
    simp only [if_true, Py.bind]
    cases hs : sort_tree_ (pids.length + 1 + F) ((List.range pids.length).map (fun (j : Nat) => (j : Int)))
        (reversePath (setAt pids k (-1)) P) (setAt (setAt types k (types.getD z.toNat 0)) z (types.getD k.toNat 0)) with
    | none => simp [finish]
    | some t => simp [finish]

/-- **`redirect_tree(tree, new_root, sort=False)` as translated IS the model**: the parent and type columns of the returned tree
are `Redir.redirect`'s, the id column is untouched, nothing raises. -/
theorem redirect_nosort (pids types : List Int) (k : Int) (hlt : types.length = pids.length)
    (hval : ∀ w ∈ rootPath pids pids.length k, 0 ≤ w ∧ w < pids.length)
    (hlast : ∀ z, (rootPath pids pids.length k).getLast? = some z → pids.getD z.toNat (-1) = -1) (F : Nat) :
    redirect_tree (pids.length + 1 + F) ((List.range pids.length).map (fun (j : Nat) => (j : Int))) pids types k false =
      some ((List.range pids.length).map (fun (j : Nat) => (j : Int)), (redirect pids types k).pids, (redirect pids types k).types, ()) := by
  rw [redirect_core pids types k false hlt hval hlast F]; rfl

/-- **`redirect_tree(tree, new_root, sort=True)` as translated IS the model** whenever the model's final renumbering succeeds
(it does on every well-formed tree, `Pipeline.wfr_sorted`): ids `arange(n)`, the new parents, and the type column (already
exchanged between old and new root) carried along by the row permutation -/
theorem redirect_sort (pids types : List Int) (k : Int) (hlt : types.length = pids.length)
    (hval : ∀ w ∈ rootPath pids pids.length k, 0 ≤ w ∧ w < pids.length)
    (hlast : ∀ z, (rootPath pids pids.length k).getLast? = some z → pids.getD z.toNat (-1) = -1)
    (hlp : (redirect pids types k).pids.length = pids.length) (hlty : (redirect pids types k).types.length = pids.length)
    (r : Result) (h : sortNodesImpl ((List.range pids.length).map (fun (j : Nat) => (j : Int))) (redirect pids types k).pids = .ok r) (F : Nat) :
    redirect_tree (pids.length + 1 + F) ((List.range pids.length).map (fun (j : Nat) => (j : Int))) pids types k true =
      some (range (pids.length : Int), r.newPids, permute (redirect pids types k).types r.indices, ()) := by
  rw [redirect_core pids types k true hlt hval hlast F, if_pos rfl]
  have hnd : ((List.range pids.length).map (fun (j : Nat) => (j : Int))).Nodup :=
    List.Pairwise.map _ (fun a b hab he => hab (Int.ofNat.inj he)) List.nodup_range
  have := sortTree_refines ((List.range pids.length).map (fun (j : Nat) => (j : Int))) (redirect pids types k).pids
    (redirect pids types k).types hnd (by simp [hlp]) (by simp [hlty]) r h F
  simp only [List.length_map, List.length_range] at this
  rw [this]
  simp

end RefineRedirect
